/-
  SymmModel.Proofs.ValidMore2Cert — the plan CERTIFICATE `C07.Plan.wfB` (the decidable check the
  harness's plan monitor evaluates on real runs) implies the RUNTIME guard `planAdmissibleB` of
  ValidMore2Reshape.lean, hence `AbelianArray.reshape` / `FermionicArray.reshape` return valid
  arrays whenever the planner's plan is certified (property C01).

  Method: simulation.  The symbolic state `st : C07.SymShape` of the certificate is related to
  the actual array `x` by `Sim st x`: same number of axes, and every axis that the symbolic state
  records as fused with `k` sub-sizes is, in `x`, an index with sub-index information of `k`
  sub-indices.  `Sim` is preserved by `unfuse` / `fuse` / `expand_dims` in lock-step with
  `symUnfuse` / `symFuse` / `symExpand`, for abelian and for fermionic arrays, and a successful
  `symFuse st groups` with `st.length = x.ndim` makes `groups` admissible for `x`.

  Main theorems: `planAdmissible_of_certificate`, `applyPlan_valid_of_certificate`,
  `applyPlan_sim_of_certificate` (full simulation), `reshapeAdmissible_of_certified`,
  `reshapeArr_valid_of_certificate`, `reshapeArr_validB_of_certificate`,
  `reshapeArr_ndim_of_certificate`.
-/
import SymmModel.Proofs.ValidMore2Reshape
import SymmModel.Proofs.ValidTdotFused
import SymmModel.Proofs.C07

namespace SymmModel
namespace ValidP
open Sym C07

variable {R : Type}

/-! ### the simulation relation -/

/-- a symbolic axis `(size, sub-sizes?)` is matched by an index: when the symbolic axis is fused
    with sub-sizes `subs`, the index is fused with as many sub-indices -/
def SimRel (e : Nat × Option (List Nat)) (ix : Index) : Prop :=
  ∀ subs, e.2 = some subs →
    ∃ subIdx exts, ix.sub = some (subIdx, exts) ∧ subIdx.length = subs.length

/-- the symbolic shape is matched, axis by axis, by a list of indices -/
def SimI (st : SymShape) (idx : List Index) : Prop := List.Forall₂ SimRel st idx

/-- the symbolic shape is matched by the array -/
def Sim (st : SymShape) (x : Arr R) : Prop := SimI st x.indices

theorem SimI.length_eq {st : SymShape} {idx : List Index} (h : SimI st idx) :
    st.length = idx.length := List.Forall₂.length_eq h

theorem Sim.ndim_eq {st : SymShape} {x : Arr R} (h : Sim st x) : st.length = x.ndim :=
  List.Forall₂.length_eq h

/-- the form of the invariant given in the task statement -/
theorem sim_iff (st : SymShape) (x : Arr R) :
    Sim st x ↔ st.length = x.ndim ∧ ∀ (ax sz : Nat) (subs : List Nat),
      st[ax]? = some (sz, some subs) →
      ∃ (ix : Index) (subIdx : List Index) (exts : Extents),
        x.indices[ax]? = some ix ∧ ix.sub = some (subIdx, exts)
        ∧ subIdx.length = subs.length := by
  unfold Sim SimI Arr.ndim
  rw [List.forall₂_iff_get]
  constructor
  · rintro ⟨hl, h⟩
    refine ⟨hl, fun ax sz subs hax => ?_⟩
    obtain ⟨h1, e1⟩ := List.getElem?_eq_some_iff.mp hax
    have h2 : ax < x.indices.length := hl ▸ h1
    obtain ⟨subIdx, exts, q1, q2⟩ := h ax h1 h2 subs (by simp [e1])
    exact ⟨x.indices[ax], subIdx, exts, List.getElem?_eq_getElem h2, q1, q2⟩
  · rintro ⟨hl, h⟩
    refine ⟨hl, fun i h1 h2 subs hs => ?_⟩
    obtain ⟨ix, subIdx, exts, q0, q1, q2⟩ := h i (st[i]).1 subs (by
      rw [List.getElem?_eq_getElem h1]
      simp only [List.get_eq_getElem] at hs
      rw [← hs])
    rw [List.getElem?_eq_getElem h2] at q0
    simp only [Option.some.injEq] at q0
    simp only [List.get_eq_getElem]
    rw [q0]
    exact ⟨subIdx, exts, q1, q2⟩

/-! ### list lemmas -/

theorem forall₂_of_length_eq {α β : Type} {Q : α → β → Prop} (hq : ∀ a b, Q a b) :
    ∀ {l : List α} {r : List β}, l.length = r.length → List.Forall₂ Q l r
  | [], [], _ => .nil
  | [], _ :: _, h => by simp at h
  | _ :: _, [], h => by simp at h
  | a :: l, b :: r, h => .cons (hq a b) (forall₂_of_length_eq hq (by simpa using h))

theorem forall₂_getElem? {α β : Type} {Q : α → β → Prop} {l : List α} {r : List β}
    (h : List.Forall₂ Q l r) {i : Nat} {a : α} {b : β} (ha : l[i]? = some a) (hb : r[i]? = some b) :
    Q a b := by
  obtain ⟨h1, e1⟩ := List.getElem?_eq_some_iff.mp ha
  obtain ⟨h2, e2⟩ := List.getElem?_eq_some_iff.mp hb
  rw [← e1, ← e2]
  exact forall₂_getElem h i h1 h2

theorem forall₂_getD {α β : Type} {Q : α → β → Prop} {l : List α} {r : List β}
    (h : List.Forall₂ Q l r) {i : Nat} (hi : i < l.length) (d : α) (d' : β) :
    Q (l.getD i d) (r.getD i d') := by
  have hi' : i < r.length := (List.Forall₂.length_eq h) ▸ hi
  rw [List.getD_eq_getElem?_getD, List.getD_eq_getElem?_getD, List.getElem?_eq_getElem hi,
    List.getElem?_eq_getElem hi']
  exact forall₂_getElem h i hi hi'

theorem forall₂_map_zipIdx {α β γ : Type} {Q : β → γ → Prop} (f : α → β) (g : α × Nat → γ) :
    ∀ (l : List α) (k : Nat), (∀ a ∈ l, ∀ i, Q (f a) (g (a, i))) →
      List.Forall₂ Q (l.map f) ((l.zipIdx k).map g)
  | [], _, _ => .nil
  | a :: l, k, h => by
    rw [List.zipIdx_cons, List.map_cons, List.map_cons]
    exact .cons (h a (by simp) k)
      (forall₂_map_zipIdx f g l (k + 1) (fun b hb i => h b (by simp [hb]) i))

theorem foldl_min_of_le (l : List Nat) (init : Nat) (h : ∀ x ∈ l, init ≤ x) :
    l.foldl min init = init := by
  induction l with
  | nil => rfl
  | cons a as ih =>
    rw [List.foldl_cons, Nat.min_eq_left (h a (by simp))]
    exact ih (fun x hx => h x (by simp [hx]))

theorem range_split (N p n : Nat) (h : p + n ≤ N) :
    List.range N = List.range p ++ List.range' p n ++ List.range' (p + n) (N - (p + n)) := by
  rw [List.range_eq_range', List.range_eq_range']
  have e1 := List.range'_append (s := 0) (m := p) (n := n) (step := 1)
  have e2 := List.range'_append (s := 0) (m := p + n) (n := N - (p + n)) (step := 1)
  simp only [Nat.one_mul, Nat.zero_add] at e1 e2
  rw [e1, e2]
  congr 1; omega

theorem range'_eq_drop_range (N m : Nat) : List.range' m (N - m) = (List.range N).drop m := by
  apply List.ext_getElem
  · simp
  · intro i h1 h2
    simp

/-! ### initial state -/

theorem simI_init (idx : List Index) :
    SimI ((idx.map Index.sizeTotal).zip
      (idx.map (fun ix => ix.sub.map (fun s => s.1.map Index.sizeTotal)))) idx := by
  induction idx with
  | nil => exact .nil
  | cons ix rest ih =>
    refine .cons ?_ ih
    intro subs hs
    cases hsub : ix.sub with
    | none => simp [hsub] at hs
    | some s =>
      obtain ⟨subIdx, exts⟩ := s
      refine ⟨subIdx, exts, rfl, ?_⟩
      simp only [hsub, Option.map_some, Option.some.injEq] at hs
      subst hs; simp

theorem sim_init (a : Arr R) : Sim (a.shape.zip a.subsizes) a := simI_init a.indices

/-! ### unfuse -/

theorem simI_unfuse {st st' : SymShape} {idx : List Index} {ax : Nat} {ix : Index}
    {subIdx : List Index} {exts : Extents}
    (hs : SimI st idx) (hu : symUnfuse st ax = some st') (hix : idx[ax]? = some ix)
    (hsub : ix.sub = some (subIdx, exts)) : SimI st' (replaceWithSeq idx ax subIdx) := by
  unfold symUnfuse at hu
  split at hu
  · rename_i d subs hst
    simp only [Option.some.injEq] at hu
    subst hu
    obtain ⟨subIdx', exts', q1, q2⟩ := forall₂_getElem? hs hst hix subs rfl
    rw [hsub] at q1
    simp only [Option.some.injEq, Prod.mk.injEq] at q1
    obtain ⟨rfl, rfl⟩ := q1
    unfold replaceWithSeq
    refine List.rel_append (List.rel_append (List.forall₂_take ax hs) ?_)
      (List.forall₂_drop (ax + 1) hs)
    rw [List.forall₂_map_left_iff]
    exact forall₂_of_length_eq (fun _ _ subs h => by cases h) q2.symm
  · cases hu

theorem unfuseA_indices [Zero R] {a r : Arr R} {axis : Nat} (h : unfuseA a axis = .ok r) :
    ∃ ix subIdx exts, a.indices[axis]? = some ix ∧ ix.sub = some (subIdx, exts)
      ∧ r.indices = replaceWithSeq a.indices axis subIdx := by
  rw [unfuseA_eq'] at h
  unfold unfuseA' at h
  cases hix : a.indices[axis]? with
  | none => rw [hix] at h; cases h
  | some ix =>
    rw [hix] at h
    simp only [pure_bind] at h
    cases hs : ix.sub with
    | none => rw [hs] at h; cases h
    | some se =>
      rw [hs] at h
      obtain ⟨subIdx, exts⟩ := se
      cases hnb : a.blocks.foldlM (unfStep subIdx exts axis) [] with
      | error e => simp only at h; rw [hnb] at h; cases h
      | ok nb =>
        simp only at h
        rw [hnb] at h
        cases h
        exact ⟨ix, subIdx, exts, rfl, hs, rfl⟩

theorem unfuseF_indices [Zero R] [Neg R] {a r : Arr R} {axis : Nat}
    (h : Arr.unfuseF a axis = .ok r) :
    ∃ ix subIdx exts, a.indices[axis]? = some ix ∧ ix.sub = some (subIdx, exts)
      ∧ r.indices = replaceWithSeq a.indices axis subIdx ∧ r.fermi = a.fermi := by
  unfold Arr.unfuseF at h
  dsimp only at h
  split at h
  case h_2 => cases h
  rename_i ix0 _
  simp only [pure_bind] at h
  obtain ⟨new, hnew, h⟩ := bind_ok h
  obtain ⟨ix, subIdx, exts, q1, q2, q3⟩ := unfuseA_indices hnew
  have hf : new.fermi = a.fermi := (unfuseA_fields hnew).2.1
  refine ⟨ix, subIdx, exts, q1, q2, ?_⟩
  split at h
  · split at h
    case h_2 => cases h
    simp only [pure, Except.pure, Except.ok.injEq] at h
    subst h
    refine ⟨?_, ?_⟩
    · rw [(phaseTranspose_fields _ _).2, (phaseFlip_fields new _).1]; exact q3
    · rw [(phaseTranspose_fields _ _).1, (phaseFlip_fields new _).2.2.2.2]; exact hf
  · simp only [pure, Except.pure, Except.ok.injEq] at h
    subst h; exact ⟨q3, hf⟩

theorem unfuseDispatch_sim [Zero R] [Neg R] {st st' : SymShape} {x x' : Arr R} {ax : Nat}
    (hs : Sim st x) (hu : symUnfuse st ax = some st') (h : unfuseDispatch x ax = .ok x') :
    Sim st' x' ∧ x'.fermi = x.fermi := by
  unfold unfuseDispatch at h
  split at h
  · obtain ⟨ix, subIdx, exts, q1, q2, q3, q4⟩ := unfuseF_indices h
    exact ⟨by unfold Sim; rw [q3]; exact simI_unfuse hs hu q1 q2, q4⟩
  · obtain ⟨ix, subIdx, exts, q1, q2, q3⟩ := unfuseA_indices h
    exact ⟨by unfold Sim; rw [q3]; exact simI_unfuse hs hu q1 q2, (unfuseA_fields h).2.1⟩

/-! ### fuse: what a successful `symFuse` says -/

theorem symFuse_some {st st' : SymShape} {groups : List (List Nat)}
    (h : symFuse st groups = some st') :
    ∃ p n, 0 < n ∧ groups.flatten = List.range' p n ∧ groups.all (fun g => !g.isEmpty) = true
      ∧ p + n ≤ st.length
      ∧ st' = st.take p ++ groups.map (symGroup st) ++ st.drop (p + n) := by
  unfold symFuse at h
  simp only at h
  split at h
  · cases h
  · rename_i p tl hflat
    split at h
    · rename_i hc
      simp only [Bool.and_eq_true] at hc
      obtain ⟨⟨hne, hr⟩, hle⟩ := hc
      simp only [Option.some.injEq] at h
      refine ⟨p, groups.flatten.length, ?_, beqNats_iff.mp hr, hne, Nat.le_of_ble_eq_true hle,
        h.symm⟩
      rw [hflat]; simp
    · cases h

theorem fuseAdmissible_of_range' {groups : List (List Nat)} {p n N : Nat}
    (hf : groups.flatten = List.range' p n) (h : p + n ≤ N) :
    fuseAdmissibleB groups N = true := by
  unfold fuseAdmissibleB
  rw [hf]
  simp only [Bool.and_eq_true, allDistinct_iff, List.all_eq_true, decide_eq_true_eq]
  refine ⟨List.nodup_range', fun ax hax => ?_⟩
  have := (List.mem_range'_1.mp hax).2
  omega

/-- the guard: a successful `symFuse` on a state with as many axes as `x` has -/
theorem fuseAdmissible_of_symFuse {st st' : SymShape} {groups : List (List Nat)} {N : Nat}
    (h : symFuse st groups = some st') (hN : st.length = N) :
    fuseAdmissibleB groups N = true := by
  obtain ⟨p, n, _, hf, _, hle, _⟩ := symFuse_some h
  exact fuseAdmissible_of_range' hf (hN ▸ hle)

/-- `calc_fuse_group_info` on consecutive axes `p, …, p+n-1` -/
theorem groupInfo_consecutive {groups : List (List Nat)} {duals : List Bool} {p n : Nat}
    (hf : groups.flatten = List.range' p n) (hn : 0 < n) (hle : p + n ≤ duals.length) :
    (calcFuseGroupInfo groups duals).axesBefore = List.range p
    ∧ (calcFuseGroupInfo groups duals).axesAfter
        = List.range' (p + n) (duals.length - (p + n))
    ∧ (calcFuseGroupInfo groups duals).perm = List.range duals.length := by
  have hpos : (calcFuseGroupInfo groups duals).position = p := by
    show groups.flatten.foldl min (groups.flatten.headD 0) = p
    rw [hf]
    obtain ⟨m, rfl⟩ : ∃ m, n = m + 1 := ⟨n - 1, by omega⟩
    rw [List.range'_succ, List.headD_cons, List.foldl_cons, Nat.min_self]
    exact foldl_min_of_le _ _ (fun x hx => by have := (List.mem_range'_1.mp hx).1; omega)
  have hb : (calcFuseGroupInfo groups duals).axesBefore = List.range p := by
    rw [axesBefore_eq, hpos]
  have ha : (calcFuseGroupInfo groups duals).axesAfter
      = List.range' (p + n) (duals.length - (p + n)) := by
    show List.filter (fun ax => !groups.flatten.contains ax)
      (List.filter (fun ax => decide ((calcFuseGroupInfo groups duals).position ≤ ax))
        (List.range duals.length)) = _
    rw [hpos, hf, range_split duals.length p n hle]
    simp only [List.filter_append]
    have e1 : List.filter (fun ax => decide (p ≤ ax)) (List.range p) = [] := by
      rw [List.filter_eq_nil_iff]
      intro a ha
      have := List.mem_range.mp ha
      simp only [decide_eq_true_eq]; omega
    have e2 : List.filter (fun ax => !(List.range' p n).contains ax)
        (List.filter (fun ax => decide (p ≤ ax)) (List.range' p n)) = [] := by
      rw [List.filter_eq_nil_iff]
      intro a ha
      have := (List.mem_filter.mp ha).1
      simp only [Bool.not_eq_true, Bool.not_eq_false', List.contains_iff_mem]
      exact this
    have e3 : List.filter (fun ax => decide (p ≤ ax))
        (List.range' (p + n) (duals.length - (p + n)))
        = List.range' (p + n) (duals.length - (p + n)) := by
      rw [List.filter_eq_self]
      intro a ha
      have := (List.mem_range'_1.mp ha).1
      simp only [decide_eq_true_eq]; omega
    have e4 : List.filter (fun ax => !(List.range' p n).contains ax)
        (List.range' (p + n) (duals.length - (p + n)))
        = List.range' (p + n) (duals.length - (p + n)) := by
      rw [List.filter_eq_self]
      intro a ha
      have h1 := (List.mem_range'_1.mp ha).1
      simp only [Bool.not_eq_true', ← Bool.not_eq_true, List.contains_iff_mem]
      intro hm
      have := (List.mem_range'_1.mp hm).2
      omega
    rw [e1, e3, e4]
    simp only [List.filter_nil, List.nil_append]
    rw [e2, List.nil_append]
  refine ⟨hb, ha, ?_⟩
  show (calcFuseGroupInfo groups duals).axesBefore ++ groups.flatten
    ++ (calcFuseGroupInfo groups duals).axesAfter = _
  rw [hb, ha, hf, ← range_split duals.length p n hle]

theorem symGroup_rel {st : SymShape} {x : Arr R} (hs : Sim st x) (gi : FuseGroupInfo)
    (blockmap : List (Sector × BlockPlan)) (g : List Nat) (i : Nat)
    (hg : ∀ ax ∈ g, ax < st.length) :
    SimRel (symGroup st g) (fuseMidIndex x gi blockmap (g, i)) := by
  have multi : g.length ≠ 1 →
      SimRel (prod (g.map (fun ax => (st.getD ax (0, none)).1)),
              some (g.map (fun ax => (st.getD ax (0, none)).1)))
        (fuseMidIndex x gi blockmap (g, i)) := by
    intro hl subs hsubs
    simp only [Option.some.injEq] at hsubs
    subst hsubs
    unfold fuseMidIndex
    simp only [beq_iff_eq, hl, if_false]
    generalize accumExtents _ = r
    obtain ⟨c, e⟩ := r
    exact ⟨_, e, rfl, by simp⟩
  match g, hg, multi with
  | [], _, multi => exact multi (by simp)
  | [ax], hg, _ =>
    show SimRel (st.getD ax (0, none)) (fuseMidIndex x gi blockmap ([ax], i))
    unfold fuseMidIndex
    simp only [List.length_cons, List.length_nil, Nat.zero_add, beq_self_eq_true, if_true,
      List.headD_cons]
    exact forall₂_getD hs (hg ax (by simp)) _ _
  | a :: b :: rest, _, multi => exact multi (by simp)

/-- `_fuse_core` on consecutive axes simulates `symFuse` -/
theorem fuseCore_sim [Zero R] {st : SymShape} {x r : Arr R} {groups : List (List Nat)}
    {mode : FuseMode} {p n : Nat} (hs : Sim st x) (hf : groups.flatten = List.range' p n)
    (hn : 0 < n) (hle : p + n ≤ st.length) (h : fuseCore x groups mode = .ok r) :
    Sim (st.take p ++ groups.map (symGroup st) ++ st.drop (p + n)) r := by
  obtain ⟨blockmap, hidx⟩ := fuseCore_indices h
  have hlen : x.duals.length = x.indices.length := by simp [Arr.duals]
  have hst : st.length = x.indices.length := hs.length_eq
  obtain ⟨hb, ha, _⟩ := groupInfo_consecutive (duals := x.duals) hf hn (by rw [hlen, ← hst]; exact hle)
  unfold Sim
  rw [hidx, hb, ha, permuted_range_take, hlen, range'_eq_drop_range, permuted_range_drop]
  refine List.rel_append (List.rel_append (List.forall₂_take p hs) ?_)
    (List.forall₂_drop (p + n) hs)
  apply forall₂_map_zipIdx
  intro g hg i
  apply symGroup_rel hs
  intro ax hax
  have : ax ∈ groups.flatten := List.mem_flatten.mpr ⟨g, hg, hax⟩
  rw [hf] at this
  have := (List.mem_range'_1.mp this).2
  omega

/-! ### `AbelianArray.fuse` and `FermionicArray.fuse` on consecutive, non-empty groups -/

theorem groups_ne_nil {groups : List (List Nat)} {p n : Nat}
    (hf : groups.flatten = List.range' p n) (hn : 0 < n) : groups.isEmpty = false := by
  cases groups with
  | nil =>
    have := congrArg List.length hf
    simp at this; omega
  | cons g gs => rfl

theorem fuseA_sim [Zero R] {st : SymShape} {x r : Arr R} {groups : List (List Nat)}
    {p n : Nat} (hs : Sim st x) (hf : groups.flatten = List.range' p n) (hn : 0 < n)
    (hne : groups.all (fun g => !g.isEmpty) = true) (hle : p + n ≤ st.length)
    (h : fuseA x groups = .ok r) :
    Sim (st.take p ++ groups.map (symGroup st) ++ st.drop (p + n)) r ∧ r.fermi = x.fermi := by
  rw [fuseA_of_nonempty x groups .insert true hne, groups_ne_nil hf hn] at h
  simp only [Bool.false_eq_true, if_false] at h
  exact ⟨fuseCore_sim hs hf hn hle h, (fuseCore_fields h).2.1⟩

theorem forall₂_eq_symm {α : Type} {l r : List α} (h : List.Forall₂ (fun a b => b = a) l r) :
    r = l := by
  induction h with
  | nil => rfl
  | cons h1 _ ih => rw [h1, ih]

/-- positions in the identity permutation are the axes themselves -/
theorem mapM_indexOf_range {N : Nat} {groups ng : List (List Nat)}
    (h : groups.mapM (fun g => g.mapM (fun ax => match indexOf? (List.range N) ax with
      | some k => (pure k : Except Err Nat)
      | none => throw Err.value)) = .ok ng) : ng = groups := by
  apply forall₂_eq_symm
  refine (mapM_ok_forall₂ _ _ _ h).imp ?_
  intro g g' hg
  apply forall₂_eq_symm
  refine (mapM_ok_forall₂ _ _ _ hg).imp ?_
  intro ax k hk
  split at hk
  · rename_i k' hk'
    simp only [pure, Except.pure, Except.ok.injEq] at hk
    subst hk
    obtain ⟨h1, h2⟩ := indexOf?_some hk'
    rw [List.getElem?_eq_getElem h1, List.getElem_range] at h2
    simpa using h2
  · cases hk

theorem fuseF_sim [Zero R] [Neg R] {st : SymShape} {x r : Arr R} {groups : List (List Nat)}
    {p n : Nat} (hs : Sim st x) (hf : groups.flatten = List.range' p n) (hn : 0 < n)
    (hne : groups.all (fun g => !g.isEmpty) = true) (hle : p + n ≤ st.length)
    (h : Arr.fuseF x groups = .ok r) :
    Sim (st.take p ++ groups.map (symGroup st) ++ st.drop (p + n)) r ∧ r.fermi = x.fermi := by
  have h1 : groups.filter (fun g => !g.isEmpty) = groups :=
    List.filter_eq_self.mpr (by simpa using hne)
  have h2 : (groups.zipIdx.filter (fun p => p.1.isEmpty)) = [] := by
    rw [List.filter_eq_nil_iff]
    intro q hq
    obtain ⟨_, h3, h4⟩ := List.mem_zipIdx hq
    have := (List.all_eq_true.mp hne) q.1 (h4 ▸ List.getElem_mem _)
    simpa using this
  have hlen : x.duals.length = x.indices.length := by simp [Arr.duals]
  have hst : st.length = x.indices.length := hs.length_eq
  obtain ⟨_, _, hperm⟩ := groupInfo_consecutive (duals := x.duals) hf hn
    (by rw [hlen, ← hst]; exact hle)
  rw [hlen] at hperm
  unfold Arr.fuseF at h
  dsimp only at h
  rw [h1, h2, groups_ne_nil hf hn, hperm] at h
  simp only [Bool.false_eq_true, if_false] at h
  obtain ⟨ng, hng, h⟩ := bind_ok h
  obtain ⟨x5, hx5, h⟩ := bind_ok h
  rw [mapM_indexOf_range hng] at hx5 h
  simp only [List.map_nil, List.isEmpty_nil, Bool.not_true, Bool.and_false,
    Bool.false_eq_true, if_false, pure, Except.pure, bind, Except.bind, Except.ok.injEq] at h
  subst h
  have key : ∀ (y : Arr R) (c : Bool) (f : List Nat) (v : Option (List Nat)),
      (if c = true then y.phaseFlip f else (y.phaseFlip f).phaseTranspose v).phaseSync.indices
        = y.indices := by
    intro y c f v
    cases c
    · simp only [Bool.false_eq_true, if_false]
      rw [(phaseSync_fields _).2.2.1, (phaseTranspose_fields _ _).2, (phaseFlip_fields y f).1]
    · simp only [if_true]
      rw [(phaseSync_fields _).2.2.1, (phaseFlip_fields y f).1]
  have keyf : ∀ (y : Arr R) (c : Bool) (f : List Nat) (v : Option (List Nat)),
      (if c = true then y.phaseFlip f else (y.phaseFlip f).phaseTranspose v).phaseSync.fermi
        = y.fermi := by
    intro y c f v
    cases c
    · simp only [Bool.false_eq_true, if_false]
      rw [(phaseSync_fields _).2.1, (phaseTranspose_fields _ _).1, (phaseFlip_fields y f).2.2.2.2]
    · simp only [if_true]
      rw [(phaseSync_fields _).2.1, (phaseFlip_fields y f).2.2.2.2]
  refine ⟨fuseCore_sim ?_ hf hn hle hx5, ?_⟩
  · unfold Sim
    rw [key, (transposeF_fields x _ true).2, permuted_range]
    exact hs
  · rw [(fuseCore_fields hx5).2.1, keyf]
    rfl

theorem fuseDispatch_sim [Zero R] [Neg R] {st st' : SymShape} {x x' : Arr R}
    {groups : List (List Nat)} (hs : Sim st x) (hu : symFuse st groups = some st')
    (h : fuseDispatch x groups = .ok x') : Sim st' x' ∧ x'.fermi = x.fermi := by
  obtain ⟨p, n, hn, hf, hne, hle, rfl⟩ := symFuse_some hu
  unfold fuseDispatch at h
  split at h
  · exact fuseF_sim hs hf hn hne hle h
  · exact fuseA_sim hs hf hn hne hle h

/-! ### expand_dims -/

theorem expandDispatch_sim {st st' : SymShape} {x x' : Arr R} {ax : Nat}
    (hs : Sim st x) (hu : symExpand st ax = some st') (h : expandDispatch x ax = .ok x') :
    Sim st' x' ∧ x'.fermi = x.fermi := by
  unfold symExpand at hu
  split at hu
  · simp only [Option.some.injEq] at hu
    subst hu
    unfold expandDispatch at h
    split at h
    · cases h
    · simp only [pure, Except.pure, Except.ok.injEq] at h
      subst h
      refine ⟨?_, rfl⟩
      show SimI _ (x.indices.take ax ++ [_] ++ x.indices.drop ax)
      refine List.rel_append (List.rel_append (List.forall₂_take ax hs) ?_)
        (List.forall₂_drop ax hs)
      exact .cons (fun subs h => by cases h) .nil
  · cases hu

/-! ### the phases of a plan in lock-step -/

/-- a list of steps, executed symbolically (`foldOpt`) and on the array (`foldlM`) -/
theorem steps_sim {α : Type} (fs : SymShape → α → Option SymShape)
    (f : Arr R → α → Except Err (Arr R))
    (hstep : ∀ (st st' : SymShape) (x x' : Arr R) (a : α), Sim st x → fs st a = some st' →
      f x a = .ok x' → Sim st' x' ∧ x'.fermi = x.fermi) :
    ∀ (l : List α) (st s1 : SymShape) (x x1 : Arr R), Sim st x → foldOpt fs l st = some s1 →
      l.foldlM f x = .ok x1 → Sim s1 x1 ∧ x1.fermi = x.fermi := by
  intro l
  induction l with
  | nil =>
    intro st s1 x x1 hs h1 h2
    simp only [foldOpt, Option.some.injEq] at h1
    simp only [List.foldlM_nil, pure, Except.pure, Except.ok.injEq] at h2
    subst h1; subst h2
    exact ⟨hs, rfl⟩
  | cons a as ih =>
    intro st s1 x x1 hs h1 h2
    unfold foldOpt at h1
    split at h1
    · rename_i st' hst'
      rw [List.foldlM_cons] at h2
      obtain ⟨x', hx', h2⟩ := bind_ok h2
      obtain ⟨q1, q2⟩ := hstep st st' x x' a hs hst' hx'
      obtain ⟨q3, q4⟩ := ih st' s1 x' x1 q1 h1 h2
      exact ⟨q3, q4.trans q2⟩
    · cases h1

/-- every `fuse` call of a symbolically executable fuse phase is admissible -/
theorem fuseSteps_admissible [Zero R] [Neg R] (gs : List (List (List Nat))) :
    ∀ (st s2 : SymShape) (x : Arr R), Sim st x → foldOpt symFuse gs st = some s2 →
      fuseStepsAdmissibleB x gs = true := by
  induction gs with
  | nil => intro st s2 x _ _; rfl
  | cons g gs ih =>
    intro st s2 x hs h
    unfold foldOpt at h
    split at h
    · rename_i st' hst'
      simp only [fuseStepsAdmissibleB, Bool.and_eq_true]
      refine ⟨fuseAdmissible_of_symFuse hst' hs.ndim_eq, ?_⟩
      cases hd : fuseDispatch x g with
      | error e => rfl
      | ok x' => exact ih st' s2 x' (fuseDispatch_sim hs hst' hd).1 h
    · cases h

/-! ### the theorems -/

/-- THE CERTIFICATE IMPLIES THE RUNTIME GUARD: if the plan passes `Plan.wfB` for the shape and
    sub-sizes of `a`, every `fuse` call the model issues while executing it is admissible.
    (Holds for every array, valid or not, abelian or fermionic.) -/
theorem planAdmissible_of_certificate [Zero R] [Neg R] (a : Arr R)
    (plan : List Nat × List (List (List Nat)) × List Nat) (ns : List Nat)
    (hcert : Plan.wfB a.shape a.subsizes ns (Plan.ofTriple plan) = true) :
    planAdmissibleB a plan = true := by
  obtain ⟨_, r, hr, _⟩ := wfB_iff.mp hcert
  unfold Plan.exec at hr
  split at hr
  · cases hr
  · rename_i s1 h1
    split at hr
    · cases hr
    · rename_i s2 h2
      unfold planAdmissibleB
      cases hx : plan.1.foldlM unfuseDispatch a with
      | error e => rfl
      | ok x1 =>
        have hs1 := (steps_sim symUnfuse unfuseDispatch
          (fun st st' x x' ax hs hu h => unfuseDispatch_sim hs hu h) plan.1 _ s1 a x1
          (sim_init a) h1 hx).1
        exact fuseSteps_admissible plan.2.1 s1 s2 x1 hs1 h2

/-- full simulation: a certified plan that the model executes successfully ends in an array
    matched by the final symbolic state; in particular the result has `ns.length` axes -/
theorem applyPlan_sim_of_certificate [Zero R] [Neg R] (a r : Arr R)
    (plan : List Nat × List (List (List Nat)) × List Nat) (ns : List Nat)
    (hcert : Plan.wfB a.shape a.subsizes ns (Plan.ofTriple plan) = true)
    (h : applyPlan a plan = .ok r) :
    ∃ st', (Plan.ofTriple plan).exec (a.shape.zip a.subsizes) = some st' ∧ Sim st' r
      ∧ SymShape.sizes st' = ns ∧ r.fermi = a.fermi := by
  obtain ⟨_, st', hr, hsz⟩ := wfB_iff.mp hcert
  refine ⟨st', hr, ?_, hsz, ?_⟩ <;>
  · unfold Plan.exec at hr
    split at hr
    · cases hr
    · rename_i s1 h1
      split at hr
      · cases hr
      · rename_i s2 h2
        unfold applyPlan at h
        obtain ⟨x1, hx1, h⟩ := bind_ok h
        obtain ⟨x2, hx2, h⟩ := bind_ok h
        obtain ⟨q1, f1⟩ := steps_sim symUnfuse unfuseDispatch
          (fun st st' x x' ax hs hu h => unfuseDispatch_sim hs hu h) plan.1 _ s1 a x1
          (sim_init a) h1 hx1
        obtain ⟨q2, f2⟩ := steps_sim symFuse fuseDispatch
          (fun st st' x x' g hs hu h => fuseDispatch_sim hs hu h) plan.2.1 s1 s2 x1 x2 q1 h2 hx2
        obtain ⟨q3, f3⟩ := steps_sim symExpand expandDispatch
          (fun st st' x x' ax hs hu h => expandDispatch_sim hs hu h) plan.2.2 s2 st' x2 r q2 hr h
        first | exact q3 | exact f3.trans (f2.trans f1)

theorem applyPlan_ndim_of_certificate [Zero R] [Neg R] (a r : Arr R)
    (plan : List Nat × List (List (List Nat)) × List Nat) (ns : List Nat)
    (hcert : Plan.wfB a.shape a.subsizes ns (Plan.ofTriple plan) = true)
    (h : applyPlan a plan = .ok r) : r.ndim = ns.length := by
  obtain ⟨st', _, hs, hsz, _⟩ := applyPlan_sim_of_certificate a r plan ns hcert h
  rw [← hs.ndim_eq, ← hsz, sizes_length]

/-- a certified plan, executed on a valid array, returns a valid array -/
theorem applyPlan_valid_of_certificate [Zero R] [Neg R] (a r : Arr R) (hv : Valid a)
    (plan : List Nat × List (List (List Nat)) × List Nat) (ns : List Nat)
    (hcert : Plan.wfB a.shape a.subsizes ns (Plan.ofTriple plan) = true)
    (h : applyPlan a plan = .ok r) : Valid r :=
  applyPlan_valid a r plan hv (planAdmissible_of_certificate a plan ns hcert) h

/-- the plan that the planner returns for `a.reshape(newshape)` passes the certificate
    (vacuously true when `reshape` raises before executing a plan); recomputes `full`, `ns` and
    `plan` exactly as `reshapeArr` does -/
def reshapeCertifiedB (a : Arr R) (newshape : List Int) : Bool :=
  match (do
    let full ← findFullReshape newshape a.size
    let ns ← full.mapM (fun (d : Int) =>
      if d < 0 then (throw Err.notimpl : Except Err Nat) else pure d.toNat)
    let plan ← calcReshapeArgs a.shape ns a.subsizes
    pure (ns, plan)) with
  | .ok (ns, plan) => Plan.wfB a.shape a.subsizes ns (Plan.ofTriple plan)
  | .error _ => true

/-- what `reshapeCertifiedB` says in terms of the values computed inside `reshapeArr` -/
theorem reshapeCertifiedB_iff (a : Arr R) (newshape : List Int) :
    reshapeCertifiedB a newshape = true ↔
      ∀ full ns plan, findFullReshape newshape a.size = .ok full →
        full.mapM (fun (d : Int) =>
          if d < 0 then (throw Err.notimpl : Except Err Nat) else pure d.toNat) = .ok ns →
        calcReshapeArgs a.shape ns a.subsizes = .ok plan →
        Plan.wfB a.shape a.subsizes ns (Plan.ofTriple plan) = true := by
  unfold reshapeCertifiedB
  constructor
  · intro h full ns plan hfull hns hplan
    simp only [hfull, hns, hplan, bind, Except.bind] at h
    exact h
  · intro h
    cases hfull : findFullReshape newshape a.size with
    | error e => rfl
    | ok full =>
      cases hns : full.mapM (fun (d : Int) =>
          if d < 0 then (throw Err.notimpl : Except Err Nat) else pure d.toNat) with
      | error e => simp only [bind, Except.bind, hns]
      | ok ns =>
        cases hplan : calcReshapeArgs a.shape ns a.subsizes with
        | error e => simp only [bind, Except.bind, hns, hplan]
        | ok plan =>
          simp only [bind, Except.bind, hns, hplan]
          exact h full ns plan hfull hns hplan

/-- the certificate of the planner's plan implies the runtime guard of `reshape` -/
theorem reshapeAdmissible_of_certified [Zero R] [Neg R] (a : Arr R) (newshape : List Int)
    (hcert : reshapeCertifiedB a newshape = true) : reshapeAdmissibleB a newshape = true := by
  rw [reshapeCertifiedB_iff] at hcert
  unfold reshapeAdmissibleB
  cases hfull : findFullReshape newshape a.size with
  | error e => rfl
  | ok full =>
    cases hns : full.mapM (fun (d : Int) =>
        if d < 0 then (throw Err.notimpl : Except Err Nat) else pure d.toNat) with
    | error e => simp only [bind, Except.bind, hns]
    | ok ns =>
      cases hplan : calcReshapeArgs a.shape ns a.subsizes with
      | error e => simp only [bind, Except.bind, hns, hplan]
      | ok plan =>
        simp only [bind, Except.bind, hns, hplan]
        exact planAdmissible_of_certificate a plan ns (hcert full ns plan hfull hns hplan)

/-- `AbelianArray.reshape` / `FermionicArray.reshape`: a valid array, a certified plan, a
    successful call ⇒ a valid result -/
theorem reshapeArr_valid_of_certificate [Zero R] [Neg R] (a r : Arr R) (newshape : List Int)
    (hv : Valid a) (hcert : reshapeCertifiedB a newshape = true)
    (h : reshapeArr a newshape = .ok r) : Valid r :=
  reshapeArr_valid a r newshape hv (reshapeAdmissible_of_certified a newshape hcert) h

theorem reshapeArr_validB_of_certificate [Zero R] [Neg R] (a r : Arr R) (newshape : List Int)
    (hv : a.validB = true) (hcert : reshapeCertifiedB a newshape = true)
    (h : reshapeArr a newshape = .ok r) : r.validB = true :=
  (validB_iff r).mpr
    (reshapeArr_valid_of_certificate a r newshape ((validB_iff a).mp hv) hcert h)

/-- under the certificate the result has as many axes as the requested shape (after
    `find_full_reshape`) -/
theorem reshapeArr_ndim_of_certificate [Zero R] [Neg R] (a r : Arr R) (newshape : List Int)
    (hcert : reshapeCertifiedB a newshape = true) (h : reshapeArr a newshape = .ok r) :
    r.ndim = newshape.length := by
  rw [reshapeCertifiedB_iff] at hcert
  unfold reshapeArr at h
  obtain ⟨full, hfull, h⟩ := bind_ok h
  obtain ⟨ns, hns, h⟩ := bind_ok h
  obtain ⟨plan, hplan, h⟩ := bind_ok h
  rw [applyPlan_ndim_of_certificate a r plan ns (hcert full ns plan hfull hns hplan) h]
  have e1 : ns.length = full.length := (List.Forall₂.length_eq (mapM_ok_forall₂ _ _ _ hns)).symm
  rw [e1]
  unfold findFullReshape at hfull
  split at hfull
  · simp only [pure, Except.pure, Except.ok.injEq] at hfull
    rw [← hfull]
  · rename_i k hk
    dsimp only at hfull
    split at hfull
    · cases hfull
    · simp only [pure, Except.pure, Except.ok.injEq] at hfull
      rw [← hfull]
      have hk' : k < newshape.length := by
        have : ∀ (l : List Int) (k : Nat), indexOf? l (-1) = some k → k < l.length := by
          intro l
          induction l with
          | nil => intro k h; simp [indexOf?] at h
          | cons x xs ih =>
            intro k h
            simp only [indexOf?] at h
            split at h
            · cases h; simp
            · cases hr : indexOf? xs (-1) with
              | none => rw [hr] at h; cases h
              | some k' =>
                rw [hr] at h
                simp only [Option.map_some, Option.some.injEq] at h
                subst h
                have := ih k' hr
                simp; omega
        exact this newshape k hk
      simp only [List.length_append, List.length_take, List.length_drop, List.length_cons,
        List.length_nil]
      omega

/-! ### the hypotheses are satisfiable -/

/-- `exArr3` (shape `[3, 3, 2]`) with its first two axes fused and a size-one axis appended:
    shape `[9, 2, 1]`, sub-sizes `[[3, 3], -, -]` -/
def exCertArr : Arr Int :=
  match fuseCore exArr3 [[0, 1]] .insert with
  | .ok r => r.expandDims 2 none none
  | .error _ => exArr3

/-- reshaping it to `[3, 3, 2]` unfuses axis 0 and re-fuses axes 2, 3 (the size-one axis is
    absorbed): the plan is certified, `reshape` succeeds, and the result is valid with shape
    `[3, 3, 2]` and a fused last axis -/
example : exCertArr.validB = true ∧ exCertArr.shape = [9, 2, 1]
    ∧ exCertArr.subsizes = [some [3, 3], none, none]
    ∧ calcReshapeArgs exCertArr.shape [3, 3, 2] exCertArr.subsizes = .ok ([0], [[[2, 3]]], [])
    ∧ reshapeCertifiedB exCertArr [3, 3, 2] = true
    ∧ (match reshapeArr exCertArr [3, 3, 2] with
        | .ok r => r.validB && r.shape == [3, 3, 2] && r.subsizes == [none, none, some [2, 1]]
        | .error _ => false) = true := by decide +kernel

/-- the same with `-1` in the requested shape -/
example : reshapeCertifiedB exCertArr [3, -1, 2] = true
    ∧ (match reshapeArr exCertArr [3, -1, 2] with
        | .ok r => r.validB && r.shape == [3, 3, 2]
        | .error _ => false) = true := by decide +kernel

/-- a fermionic array (odd parity, one odd-position label) through the same reshape -/
def exCertArrF : Arr Int :=
  match Arr.fuseF { exArr3 with fermi := true, oddpos := [(7, false)] } [[0, 1]] with
  | .ok r => r.expandDims 2 none none
  | .error _ => exArr3

example : exCertArrF.validB = true ∧ exCertArrF.fermi = true ∧ exCertArrF.shape = [9, 2, 1]
    ∧ reshapeCertifiedB exCertArrF [3, 3, 2] = true
    ∧ (match reshapeArr exCertArrF [3, 3, 2] with
        | .ok r => r.validB && r.fermi && r.shape == [3, 3, 2]
        | .error _ => false) = true := by decide +kernel

/-- the certificate is a real restriction: a plan whose fuse groups are not consecutive is
    rejected although the runtime guard would accept it -/
example : Plan.wfB exArr3.shape exArr3.subsizes [6, 3] (Plan.ofTriple ([], [[[0, 2]]], [])) = false
    ∧ planAdmissibleB exArr3 ([], [[[0, 2]]], []) = true := by decide +kernel

/-- why `Sim` relates only the NUMBER of axes and of sub-indices, not the sizes: `fuse` builds the
    fused index from the stored blocks, so on a sparsely stored (valid) array a certified,
    successful `reshape` to `[9, 2]` returns shape `[2, 2]`.  The statement
    "`reshapeCertifiedB a s` and `reshapeArr a s = .ok r` imply `r.shape = s`" is FALSE of the
    model; what holds is `reshapeArr_ndim_of_certificate`. -/
example :
    let a : Arr Int := { exArr3 with blocks := exArr3.blocks.take 1 }
    a.validB = true ∧ a.shape = [3, 3, 2] ∧ reshapeCertifiedB a [9, 2] = true
    ∧ (match reshapeArr a [9, 2] with
        | .ok r => r.validB && r.shape == [2, 2] && r.ndim == 2
        | .error _ => false) = true := by decide +kernel

/-
  Nothing PLANNED is left open in this file: the abelian and the fermionic dispatch are both
  covered (`unfuseDispatch_sim`, `fuseDispatch_sim`, `expandDispatch_sim`), in every phase of the
  plan.  `planAdmissible_of_certificate` does not need `Valid a`.
-/

end ValidP
end SymmModel
