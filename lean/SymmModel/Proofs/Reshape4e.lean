/-
  SymmModel.Proofs.Reshape4e — `reshape` there and back, stated for `reshapeArr` itself, when the
  forward plan is one fuse call with one group; the element-exact forward statement for fermionic
  arrays in that case.
-/
import SymmModel.Proofs.Reshape4d

namespace SymmModel
namespace Reshape4
open C07 ReshapeP

variable {R : Type}

/-- a certified plan `([], [[g]], [])` fuses the consecutive axes `p, …, p+|g|-1` -/
theorem single_group_of_wfB (a : Arr R) (g : List Nat) (nsN : List Nat)
    (hwf : (Plan.ofTriple (([], [[g]], []) : List Nat × List (List (List Nat)) × List Nat)).wfB
      a.shape a.subsizes nsN = true) :
    ∃ p, g = List.range' p g.length ∧ p + g.length ≤ a.ndim := by
  obtain ⟨hl, r, hr, _⟩ := wfB_iff.mp hwf
  simp only [Plan.exec, Plan.ofTriple, foldOpt] at hr
  cases h2 : symFuse (a.shape.zip a.subsizes) [g] with
  | none => rw [h2] at hr; simp at hr
  | some s2 =>
    obtain ⟨p, hflat, _, _, hle, _⟩ := symFuse_spec h2
    simp only [List.flatten_cons, List.flatten_nil, List.append_nil] at hflat hle
    refine ⟨p, hflat, ?_⟩
    have : (a.shape.zip a.subsizes).length = a.ndim := by
      rw [← ValidP.Sim.ndim_eq (ValidP.sim_init a)]
    rw [this] at hle; exact hle

/-- **`reshape` and back, fermionic, one merged run** -/
theorem reshape_roundtrip_fermionic [Zero R] [Neg R] [Lazy.LawfulNeg R] (a y : Arr R)
    (ns full : List Int) (nsN : List Nat) (g : List Nat)
    (hv : a.validB = true) (hf : a.fermi = true) (hnf : ∀ ix ∈ a.indices, ix.sub = none)
    (h1 : findFullReshape ns a.size = .ok full)
    (h2 : full.mapM (fun (d : Int) => if d < 0 then (throw Err.notimpl : Except Err Nat) else pure d.toNat)
      = .ok nsN)
    (h3 : calcReshapeArgs a.shape nsN a.subsizes = .ok ([], [[g]], []))
    (hwf : (Plan.ofTriple (([], [[g]], []) : List Nat × List (List (List Nat)) × List Nat)).wfB
      a.shape a.subsizes nsN = true)
    (hg2 : 2 ≤ g.length) (hy : reshapeArr a ns = .ok y) :
    ∃ z, reshapeArr y (a.shape.map Int.ofNat) = .ok z ∧ Restored a z := by
  obtain ⟨p, hg, hle⟩ := single_group_of_wfB a g nsN hwf
  rw [reshapeArr_eq a ns full nsN _ h1 h2 h3, hg] at hy
  obtain ⟨y', z, hy', hz, hres⟩ := roundtrip_fermionic_single a p g.length hv hf hnf hg2 hle
  rw [hy] at hy'; injection hy' with hy'; subst hy'
  exact ⟨z, hz, hres⟩

/-- **`reshape` and back, abelian, one merged run**: the stored blocks come back unchanged -/
theorem reshape_roundtrip_abelian [Zero R] [Neg R] (a y : Arr R)
    (ns full : List Int) (nsN : List Nat) (g : List Nat)
    (hv : a.validB = true) (hf : a.fermi = false) (hnf : ∀ ix ∈ a.indices, ix.sub = none)
    (h1 : findFullReshape ns a.size = .ok full)
    (h2 : full.mapM (fun (d : Int) => if d < 0 then (throw Err.notimpl : Except Err Nat) else pure d.toNat)
      = .ok nsN)
    (h3 : calcReshapeArgs a.shape nsN a.subsizes = .ok ([], [[g]], []))
    (hwf : (Plan.ofTriple (([], [[g]], []) : List Nat × List (List (List Nat)) × List Nat)).wfB
      a.shape a.subsizes nsN = true)
    (hg2 : 2 ≤ g.length) (hy : reshapeArr a ns = .ok y) :
    ∃ z, reshapeArr y (a.shape.map Int.ofNat) = .ok z ∧ Restored a z
      ∧ (∀ s b, (s, b) ∈ a.blocks → alookup z.blocks s = some b)
      ∧ (∀ K V, alookup z.blocks K = some V → (∃ b, (K, b) ∈ a.blocks) ∨ FuseP.AllZero V) := by
  obtain ⟨p, hg, hle⟩ := single_group_of_wfB a g nsN hwf
  rw [reshapeArr_eq a ns full nsN _ h1 h2 h3, hg] at hy
  obtain ⟨y', z, hy', hz, hres, hb1, hb2⟩ := roundtrip_abelian_single a p g.length hv hf hnf hg2 hle
  rw [hy] at hy'; injection hy' with hy'; subst hy'
  exact ⟨z, hz, hres, hb1, hb2⟩

end Reshape4
end SymmModel
