/-
  SymmModel.Proofs.LinalgDense — value view, dense form and norm of block arrays (C12).
-/
import SymmModel.Proofs.LinalgLemmas

namespace SymmModel
namespace LinalgLemmas

variable {R S : Type}

/-! ### value view -/

theorem elem_of_mem [Zero R] [Neg R] {a : Arr R} (hnd : a.sectors.Nodup) {s : Sector} {b : Blk R}
    (hm : (s, b) ∈ a.blocks) (off : List Nat) :
    a.elem s off = if alookup a.phases s == some (-1) then - b.get off else b.get off := by
  unfold Arr.elem
  rw [alookup_of_mem_nodup hnd hm]

theorem elem_ne_zero_mem [Zero R] [Neg R] {a : Arr R} {s : Sector} {off : List Nat}
    (h : a.elem s off ≠ 0) : s ∈ a.sectors := by
  unfold Arr.elem at h
  cases hl : alookup a.blocks s with
  | none => rw [hl] at h; exact absurd rfl h
  | some b => exact List.mem_map.mpr ⟨(s, b), alookup_some_mem hl, rfl⟩

/-! ### dense form -/

theorem toDenseA_get [Zero R] [Neg R] {a : Arr R} {d : Blk R} (h : a.toDenseA = .ok d)
    {p : List Nat} (hp : inBox a.shape p = true) :
    d.shape = a.shape ∧
    d.get p = match Arr.locateAll a.indices p with
              | some (sec, off) => a.elem sec off
              | none => 0 := by
  unfold Arr.toDenseA at h
  split at h
  · cases h
  · have := Except.ok.inj h
    subst this
    refine ⟨rfl, ?_⟩
    rw [ofFn_get _ _ hp]
    cases Arr.locateAll a.indices p with
    | none => rfl
    | some q => obtain ⟨sec, off⟩ := q; simp

/-! ### norm -/

theorem range_map_getD [Zero S] (a : Array S) :
    (List.range a.size).map (fun i => a.getD i 0) = a.toList := by
  apply List.ext_getElem
  · simp
  · intro i h1 h2
    simp at h1 h2
    simp [Array.getD, h2]

theorem allIdx_map_get [Zero R] (b : Blk R) (h : b.wf = true) :
    (allIdx b.shape).map b.get = b.data.toList := by
  have hsz : b.data.size = prod b.shape := by simpa [Blk.wf] using h
  have : (allIdx b.shape).map b.get
      = ((allIdx b.shape).map (ravel b.shape)).map (fun i => b.data.getD i 0) := by
    rw [List.map_map]; rfl
  rw [this, allIdx_map_ravel, ← hsz, range_map_getD]

theorem sumAll_map [Zero S] [Add S] (nsq : R → S) (b : Blk R) :
    (b.map nsq).sumAll = (b.data.toList.map nsq).foldl (· + ·) 0 := by
  simp only [Blk.sumAll, Blk.map]
  rw [← Array.foldl_toList, Array.toList_map]

/-- per block: `Σ data` of `|·|²` = `Σ over offsets of the box` of `|elem|²` -/
theorem block_normSq [Zero R] [Neg R] [Zero S] [Add S] (nsq : R → S)
    (hneg : ∀ x, nsq (-x) = nsq x) {a : Arr R} (hnd : a.sectors.Nodup) {s : Sector} {b : Blk R}
    (hm : (s, b) ∈ a.blocks) (hwf : b.wf = true) :
    (b.map nsq).sumAll
      = ((allIdx b.shape).map (fun off => nsq (a.elem s off))).foldl (· + ·) 0 := by
  rw [sumAll_map, ← allIdx_map_get b hwf, List.map_map]
  congr 1
  apply List.map_congr_left
  intro off _
  simp only [Function.comp, elem_of_mem hnd hm]
  split
  · rw [hneg]
  · rfl

theorem foldl_ext' {α β : Type} (f g : α → β → α) (a : α) (l : List β)
    (H : ∀ a : α, ∀ b ∈ l, f a b = g a b) : l.foldl f a = l.foldl g a := by
  induction l generalizing a with
  | nil => rfl
  | cons x xs ih =>
    simp only [List.foldl_cons]
    rw [H a x List.mem_cons_self]
    exact ih _ (fun a b hb => H a b (List.mem_cons_of_mem _ hb))

theorem negK_map [Neg R] (nsq : R → S) (hneg : ∀ x, nsq (-x) = nsq x) (b : Blk R) :
    b.negK.map nsq = b.map nsq := by
  simp only [Blk.negK, Blk.map, Array.map_map]
  congr 1
  apply Array.map_congr_left
  intro x _
  exact hneg x

end LinalgLemmas
end SymmModel
