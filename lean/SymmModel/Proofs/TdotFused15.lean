/-
  SymmModel.Proofs.TdotFused15 — "fused strategy = blockwise" as one predicate on abelian operands
  (`AbOk`: success, validity, fields, rank, stored sectors, value view, block shapes), how it is
  assembled from facts about the aligned operands, the instances proved so far (all three groups
  non-empty; full contraction), and the passage to operands of any kind with synced signs.
  Namespace `SymmModel.TdotP`.
-/
import SymmModel.Proofs.TdotFused14

namespace SymmModel
namespace TdotP
variable {R : Type}

/-- **fused = blockwise** on the abelian operands `a`, `b` along `(xa, xb)`: `tensordotViaFused`
    succeeds with a valid result that has the fields and the rank of the blockwise result, stores
    every sector the blockwise result stores, agrees with it on every stored entry, and whose
    stored blocks have the shapes the operands' free legs give -/
def AbOk [Zero R] [Add R] [Mul R] [Neg R] (a b : Arr R) (xa xb : List Nat) : Prop :=
  ∃ c, tensordotViaFused a b (freeAxes a.ndim xa) xa xb (freeAxes b.ndim xb) = .ok c
    ∧ c.validB = true
    ∧ c.sym = a.sym ∧ c.fermi = a.fermi ∧ c.charge = a.sym.combine [a.charge, b.charge]
    ∧ c.phases = a.phases ∧ c.oddpos = a.oddpos
    ∧ c.indices.length =
        (tensordotBlockwise a b (freeAxes a.ndim xa) xa xb (freeAxes b.ndim xb)).indices.length
    ∧ (∀ s ∈ (tensordotBlockwise a b (freeAxes a.ndim xa) xa xb (freeAxes b.ndim xb)).sectors,
        s ∈ c.sectors)
    ∧ (∀ K V, alookup c.blocks K = some V → ∀ J, inBox V.shape J = true →
        c.elem K J =
          (tensordotBlockwise a b (freeAxes a.ndim xa) xa xb (freeAxes b.ndim xb)).elem K J)
    ∧ List.Forall₂ SizeLe c.indices (without a.indices xa ++ without b.indices xb)
    ∧ (∀ K V, alookup c.blocks K = some V →
        Arr.blockShape? (without a.indices xa ++ without b.indices xb) K = some V.shape)

/-- assembling `AbOk` from facts about the aligned operands `a' b' = dropMisaligned a b` -/
theorem abOk_of_aligned [AddCommMonoid R] [Mul R] [Neg R] (a b : Arr R) (xa xb : List Nat)
    (ha : a.validB = true) (hfa : a.fermi = false) (c : Arr R)
    (hflow : tensordotViaFused a b (freeAxes a.ndim xa) xa xb (freeAxes b.ndim xb) = .ok c)
    (hcv : c.validB = true) (f1 : c.sym = a.sym) (f2 : c.fermi = false)
    (f3 : c.charge = a.sym.combine [a.charge, b.charge]) (f4 : c.phases = [])
    (f5 : c.oddpos = a.oddpos)
    (hrank : c.indices.length = (freeAxes a.ndim xa).length + (freeAxes b.ndim xb).length)
    (hval : ∀ K V, alookup c.blocks K = some V → ∀ J, inBox V.shape J = true →
      V.get J = (tensordotBlockwise (dropMisaligned a b xa xb).1 (dropMisaligned a b xa xb).2
        (freeAxes a.ndim xa) xa xb (freeAxes b.ndim xb)).elem K J)
    (hsec : ∀ s ∈ (tensordotBlockwise (dropMisaligned a b xa xb).1 (dropMisaligned a b xa xb).2
        (freeAxes a.ndim xa) xa xb (freeAxes b.ndim xb)).sectors, s ∈ c.sectors)
    (hframe : List.Forall₂ SizeLe c.indices
      (permuted (dropMisaligned a b xa xb).1.indices (freeAxes a.ndim xa)
        ++ permuted (dropMisaligned a b xa xb).2.indices (freeAxes b.ndim xb))) :
    AbOk a b xa xb := by
  have hblk := tensordotBlockwise_blocks_dropMisaligned a b (freeAxes a.ndim xa) xa xb (freeAxes b.ndim xb)
  have hpa : a.phases = [] := phases_nil_of_validB ha hfa
  have hfr : List.Forall₂ SizeLe c.indices (without a.indices xa ++ without b.indices xb) := by
    rw [without_eq_permuted_freeAxes, without_eq_permuted_freeAxes]
    refine forall₂_trans (r := SizeLe) (fun _ _ _ h1 h2 => SizeLe.trans h1 h2) hframe (forall₂_append ?_ ?_)
    · exact permuted_dropUnused_sizeLe a.indices _ _ (fun x hx => (mem_freeAxes.mp hx).1)
    · exact permuted_dropUnused_sizeLe b.indices _ _ (fun x hx => (mem_freeAxes.mp hx).1)
  refine ⟨c, hflow, hcv, f1, f2.trans hfa.symm, f3, f4.trans hpa.symm, f5, ?_, ?_, ?_, hfr, ?_⟩
  · rw [hrank, tensordotBlockwise_rank]
  · intro s hs
    apply hsec
    rw [Arr.sectors, hblk]; exact hs
  · intro K V hl J hJ
    rw [Arr.elem_of_phases_nil f4, hl]
    show V.get J = _
    rw [hval K V hl J hJ]
    exact Arr.elem_congr hblk rfl K J
  · intro K V hl
    have hs := Arr.shapesOk_of_validB hcv (K, V) (alookup_mem hl)
    exact blockShape?_weaken hfr K _ hs

/-- all three groups non-empty (from the aligned-operand context) -/
theorem abOk_general_ctx [AddCommMonoid R] [Mul R] [Neg R]
    (hz1 : ∀ x : R, 0 * x = 0) (hz2 : ∀ x : R, x * 0 = 0) (a b : Arr R) (xa xb : List Nat)
    (ha : a.validB = true) (hfa : a.fermi = false)
    (h0 : Ctx0 (dropMisaligned a b xa xb).1 (dropMisaligned a b xa xb).2 xa xb)
    (hneK : xa ≠ []) (hneL : freeAxes a.ndim xa ≠ []) (hneR : freeAxes b.ndim xb ≠ [])
    (hbl : ((dropMisaligned a b xa xb).1.blocks.isEmpty || (dropMisaligned a b xa xb).2.blocks.isEmpty) = false) :
    AbOk a b xa xb := by
  obtain ⟨n1, n2⟩ := dropMisaligned_ndim a b xa xb
  have h : FusedCtx (dropMisaligned a b xa xb).1 (dropMisaligned a b xa xb).2 xa xb :=
    ⟨h0.vA, h0.vB, h0.fA, h0.fB, h0.sym, h0.nA, h0.nB, h0.rA, h0.rB, h0.len, hneK,
      by rw [n1]; exact hneL, by rw [n2]; exact hneR, h0.cm, h0.dual, h0.keys⟩
  obtain ⟨c, hc_ok, hcv, f1, f2, f3, f4, f5, hrank, hval, hsec⟩ := h.tail hz1 hz2
  have hshape := h.tail_frame c hc_ok
  have hfA := FuseP.fuseCore_multi_eq h.vaA h.pairA.groupsOk
  have hfB := FuseP.fuseCore_multi_eq h.vaB h.pairB.groupsOk
  rw [n1] at hfA
  rw [n2] at hfB
  rw [n1, n2] at hval hsec hrank hshape
  unfold cfOf at hc_ok
  rw [n1, n2] at hc_ok
  have hflow := tensordotViaFused_nonempty a b (freeAxes a.ndim xa) xa xb (freeAxes b.ndim xb)
    hneL hneK h.neKb hneR hbl _ _ hfA hfB
  exact abOk_of_aligned a b xa xb ha hfa c (hflow.trans hc_ok) hcv f1 f2 f3 f4 f5 hrank hval hsec hshape

/-- all three groups non-empty -/
theorem abOk_general [AddCommMonoid R] [Mul R] [Neg R]
    (hz1 : ∀ x : R, 0 * x = 0) (hz2 : ∀ x : R, x * 0 = 0) (a b : Arr R) (xa xb : List Nat)
    (ha : a.validB = true) (hb : b.validB = true) (hfa : a.fermi = false) (hfb : b.fermi = false)
    (hsym : a.sym = b.sym) (hc : ValidP.contractibleB a b xa xb = true)
    (hnA : xa.Nodup) (hnB : xb.Nodup) (hA : ∀ x ∈ xa, x < a.ndim) (hB : ∀ x ∈ xb, x < b.ndim)
    (hneK : xa ≠ []) (hneL : freeAxes a.ndim xa ≠ []) (hneR : freeAxes b.ndim xb ≠ [])
    (hbl : ((dropMisaligned a b xa xb).1.blocks.isEmpty || (dropMisaligned a b xa xb).2.blocks.isEmpty) = false) :
    AbOk a b xa xb :=
  abOk_general_ctx hz1 hz2 a b xa xb ha hfa
    (ctx0_of_dropMisaligned a b xa xb ha hb hfa hfb hsym hc hnA hnB hA hB) hneK hneL hneR hbl

/-- full contraction -/
theorem abOk_scalar_ctx [AddCommMonoid R] [Mul R] [Neg R]
    (hz1 : ∀ x : R, 0 * x = 0) (hz2 : ∀ x : R, x * 0 = 0) (a b : Arr R) (xa xb : List Nat)
    (ha : a.validB = true) (hfa : a.fermi = false)
    (h : Ctx0 (dropMisaligned a b xa xb).1 (dropMisaligned a b xa xb).2 xa xb)
    (hneK : xa ≠ []) (hL : freeAxes a.ndim xa = []) (hR : freeAxes b.ndim xb = [])
    (hbl : ((dropMisaligned a b xa xb).1.blocks.isEmpty || (dropMisaligned a b xa xb).2.blocks.isEmpty) = false) :
    AbOk a b xa xb := by
  obtain ⟨n1, n2⟩ := dropMisaligned_ndim a b xa xb
  have hneKb : xb ≠ [] := by
    intro e; have := h.len; rw [e] at this; exact hneK (List.eq_nil_of_length_eq_zero this)
  have hL' : freeAxes (dropMisaligned a b xa xb).1.ndim xa = [] := by rw [n1]; exact hL
  have hR' : freeAxes (dropMisaligned a b xa xb).2.ndim xb = [] := by rw [n2]; exact hR
  obtain ⟨hcv, f1, f2, f3, f4, f5, hidx, hval, hsec⟩ := h.scalar hz1 hz2 hneK hL' hR'
  have hpA := solo_of_free_nil h.nA h.rA hneK hL'
  have hpB := solo_of_free_nil h.nB h.rB hneKb hR'
  have hflow := tensordotViaFused_vv a b xa xb hneK hneKb hbl _ _
    (FuseP.fuseCore_multi_eq h.vaA hpA.groupsOk) (FuseP.fuseCore_multi_eq h.vaB hpB.groupsOk)
  rw [n1, n2] at hval hsec
  refine abOk_of_aligned a b xa xb ha hfa (cfVV _ _ xa xb) (by rw [hL, hR]; exact hflow) hcv f1 f2 f3 f4 f5
    (by rw [hidx, hL, hR]; rfl) hval hsec ?_
  rw [hidx, hL, hR]
  exact .nil

/-- full contraction -/
theorem abOk_scalar [AddCommMonoid R] [Mul R] [Neg R]
    (hz1 : ∀ x : R, 0 * x = 0) (hz2 : ∀ x : R, x * 0 = 0) (a b : Arr R) (xa xb : List Nat)
    (ha : a.validB = true) (hb : b.validB = true) (hfa : a.fermi = false) (hfb : b.fermi = false)
    (hsym : a.sym = b.sym) (hc : ValidP.contractibleB a b xa xb = true)
    (hnA : xa.Nodup) (hnB : xb.Nodup) (hA : ∀ x ∈ xa, x < a.ndim) (hB : ∀ x ∈ xb, x < b.ndim)
    (hneK : xa ≠ []) (hL : freeAxes a.ndim xa = []) (hR : freeAxes b.ndim xb = [])
    (hbl : ((dropMisaligned a b xa xb).1.blocks.isEmpty || (dropMisaligned a b xa xb).2.blocks.isEmpty) = false) :
    AbOk a b xa xb :=
  abOk_scalar_ctx hz1 hz2 a b xa xb ha hfa
    (ctx0_of_dropMisaligned a b xa xb ha hb hfa hfb hsym hc hnA hnB hA hB) hneK hL hR hbl


/-! ### operands of any kind with synced signs -/

/-- from the abelianised operands to operands of any kind: `KernelOk` -/
theorem kernelOk_of_abOk [AddCommMonoid R] [Mul R] [Neg R] (X Y : Arr R) (xa xb : List Nat)
    (hbl : ((dropMisaligned X Y xa xb).1.blocks.isEmpty || (dropMisaligned X Y xa xb).2.blocks.isEmpty) = false →
      AbOk (ab X) (ab Y) xa xb) :
    KernelOk X Y xa xb := by
  cases hb : ((dropMisaligned X Y xa xb).1.blocks.isEmpty || (dropMisaligned X Y xa xb).2.blocks.isEmpty) with
  | true =>
    obtain ⟨c, h1, h2, h3⟩ := viaFused_empty_sameView X Y xa xb hb
    refine ⟨c, h1, h2, h3, ?_⟩
    obtain ⟨h1', _, _⟩ := viaFused_empty X Y (freeAxes X.ndim xa) xa xb (freeAxes Y.ndim xb) hb
    rw [h1'] at h1
    cases h1
    obtain ⟨n1, n2⟩ := dropMisaligned_ndim X Y xa xb
    refine ⟨?_, ?_⟩
    · show List.Forall₂ SizeLe (without (dropMisaligned X Y xa xb).1.indices xa
        ++ without (dropMisaligned X Y xa xb).2.indices xb) _
      rw [without_eq_permuted_freeAxes, without_eq_permuted_freeAxes, without_eq_permuted_freeAxes,
        without_eq_permuted_freeAxes]
      have e1 : (dropMisaligned X Y xa xb).1.indices.length = X.indices.length := n1
      have e2 : (dropMisaligned X Y xa xb).2.indices.length = Y.indices.length := n2
      rw [e1, e2]
      exact forall₂_append
        (permuted_dropUnused_sizeLe X.indices _ _ (fun x hx => (mem_freeAxes.mp hx).1))
        (permuted_dropUnused_sizeLe Y.indices _ _ (fun x hx => (mem_freeAxes.mp hx).1))
    · intro K V hl
      simp [alookup] at hl
  | false =>
    obtain ⟨c0, h0, hvc, f1, f2, f3, f4, f5, hrank, hsec, hval, hframe, hshape⟩ := hbl hb
    have e := tensordotViaFused_ab X Y (freeAxes X.ndim xa) xa xb (freeAxes Y.ndim xb)
    have nX : (ab X).ndim = X.ndim := rfl
    have nY : (ab Y).ndim = Y.ndim := rfl
    rw [nX, nY] at h0 hrank hsec hval
    rw [h0] at e
    cases hc' : tensordotViaFused X Y (freeAxes X.ndim xa) xa xb (freeAxes Y.ndim xb) with
    | error err => rw [hc'] at e; cases e
    | ok c =>
      rw [hc'] at e
      simp only [Except.map, Except.ok.injEq] at e
      subst e
      have hfields := tensordotViaFused_fields hc'
      exact ⟨c, hc', ⟨f1, hfields.1, f3, f4, hfields.2, hrank, hsec, hval⟩,
        allDistinct_iff_nodup.mp (Arr.allDistinct_of_validB (a := ab c) hvc), hframe, hshape⟩

end TdotP
end SymmModel
