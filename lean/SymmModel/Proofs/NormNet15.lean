/-
  SymmModel.Proofs.NormNet15 — network form of the norm (property C10), part 15:
  the network setup for operands with any sorted lists of ket labels, given the decidable label check
  `netLabelsB` (the four `LabelRoutes` of the sequential bracketings); the six bracketings without
  guard on the index tables.
-/
import SymmModel.Proofs.NormNet14
namespace SymmModel.NormNet
open SymmModel SymmModel.Lazy SymmModel.Norm SymmModel.TdotP SymmModel.GradedP SymmModel.RoutesP
open SymmModel.AssocP
open SymmModel.OddposP (mergeOddpos)
set_option linter.unusedSectionVars false

/-! ## the label check -/
section labels

/-- the four label-route conditions of S7 for the operand triples `(K, ā, b̄)`, `(a, b, K̄)`,
    `(ā, b̄, K)`, `(K̄, a, b)`, as a Boolean on the parities and label lists of `a`, `b` -/
def netLabelsB (pA pB : Bool) (oA oB : List (Int × Bool)) : Bool :=
  match mergeOddpos pA oA oB with
  | .ok (out, _) =>
    C04.labelRoutesB (xor pA pB) pA out (Arr.oddposDag oA) (Arr.oddposDag oB)
    && C04.labelRoutesB pA pB oA oB (Arr.oddposDag out)
    && C04.labelRoutesB pA pB (Arr.oddposDag oA) (Arr.oddposDag oB) out
    && C04.labelRoutesB (xor pA pB) pA (Arr.oddposDag out) oA oB
  | .error _ => false

theorem netLabelsB_spec {pA pB : Bool} {oA oB out : List (Int × Bool)} {ph : Int}
    (hm : mergeOddpos pA oA oB = .ok (out, ph)) (h : netLabelsB pA pB oA oB = true) :
    Assoc2P.LabelRoutes (xor pA pB) pA out (Arr.oddposDag oA) (Arr.oddposDag oB)
    ∧ Assoc2P.LabelRoutes pA pB oA oB (Arr.oddposDag out)
    ∧ Assoc2P.LabelRoutes pA pB (Arr.oddposDag oA) (Arr.oddposDag oB) out
    ∧ Assoc2P.LabelRoutes (xor pA pB) pA (Arr.oddposDag out) oA oB := by
  unfold netLabelsB at h
  rw [hm] at h
  simp only [Bool.and_eq_true] at h
  simp only [C04.labelRoutes_iff]
  exact ⟨h.1.1.1, h.1.1.2, h.1.2, h.2⟩

/-- at most one ket label per tensor: the check holds -/
theorem netLabelsB_oneKet (oA oB : List (Int × Bool)) (hA : OneKet oA) (hB : OneKet oB)
    (hd : (oA ++ oB).Pairwise (fun x y => x.1 ≠ y.1)) :
    netLabelsB (oA.length % 2 == 1) (oB.length % 2 == 1) oA oB = true := by
  obtain ⟨out, ph, m1, _⟩ := merge_bra (oA.length % 2 == 1) oA oB hA hB hd rfl
  obtain ⟨l1, l2, l3⟩ := labelRoutes_net oA oB out ph hA hB hd m1
  have l4 := labelRoutes_bra_ket oA oB out ph hA hB hd m1
  simp only [C04.labelRoutes_iff] at l1 l2 l3 l4
  unfold netLabelsB
  rw [m1]
  simp only [Bool.and_eq_true]
  exact ⟨⟨⟨l1, l2⟩, l3⟩, l4⟩

end labels

section setup
variable {R : Type} [AddCommMonoid R] [Mul R] [Neg R] [Conj R] [NetLaws R] [AssocLaws R]

/-- the network setup for sorted ket label lists satisfying the label check -/
theorem net_setup_gen (a b : Arr R) (xa xb : List Nat)
    (ha : a.validB = true) (hb : b.validB = true) (hfa : a.fermi = true) (hfb : b.fermi = true)
    (hadm : ValidP.tdotAdmissibleB a b xa xb = true)
    (hoA : KetLabels a.oddpos) (hoB : KetLabels b.oddpos)
    (hd : (a.oddpos ++ b.oddpos).Pairwise (fun x y => x.1 ≠ y.1))
    (hlab : netLabelsB a.parity b.parity a.oddpos b.oddpos = true) :
    ∃ K Kb r r', NetSetup a b K Kb r r' xa xb := by
  obtain ⟨K, Kb, eK, eKb, hobs, hKv, hKf, hKbv, hKbf, _, _, _⟩ :=
    conj_tensordot a b xa xb ha hb hfa hfb hadm hoA hoB hd
  obtain ⟨K', Kb', r, r', eK', eKb', hnd, h1, h2, h3, h4, g1, g2, g3, g4⟩ :=
    network_norm_halves a b xa xb ha hb hfa hfb hadm hoA hoB hd
  obtain rfl : K' = K := by rw [eK] at eK'; exact (Except.ok.inj eK').symm
  obtain rfl : Kb' = Kb := by rw [eKb] at eKb'; exact (Except.ok.inj eKb').symm
  have h := Adm.of ha hb hfa hfb hadm
  obtain ⟨hKs, hKc, ph, hm⟩ := tdot_fields h eK
  obtain ⟨c1, c2, c3, c4, c5, c6⟩ := conjF_frame K' true true
  have hKp : K'.parity = xor a.parity b.parity := by
    unfold Arr.parity
    rw [hKs, hKc, ValidP.parity_combine_pair', h.sym]
  have hXp : Kb'.parity = xor a.parity b.parity := by
    rw [← hKp]
    unfold Arr.parity
    rw [hobs.sym, hobs.charge, c1, c4, C17.parity_sign]
  obtain ⟨l1, l2, l3, l4⟩ := netLabelsB_spec hm hlab
  exact ⟨K', Kb', r, r', eK, eKb, hKv, hKf, hKbv, hKbf, hnd, h1, ⟨h2, h3, h4⟩, g1, ⟨g2, g3, g4⟩, hKs,
    by rw [hobs.sym, c1, hKs], by rw [hobs.indices, c3], hKp, hXp, by rw [hobs.oddpos, c5],
    l1, l2, l3, l4⟩

/-- **the six bracketings** `B1, B2, S1–S4` of the norm network, no guard on the index tables;
    operands with sorted ket label lists passing the label check (`netLabelsB_oneKet`: always for at
    most one label per tensor) -/
def Bracketings6 (a b : Arr R) (xa xb : List Nat) : Prop :=
  ∃ K Kb, a.tensordotF b (.pair (xa.map Int.ofNat) (xb.map Int.ofNat)) .blockwise = .ok K
    ∧ (braOf a xa).tensordotF (braOf b xb) (.pair (xa.map Int.ofNat) (xb.map Int.ofNat)) .blockwise
        = .ok Kb
    ∧ (∃ r r', r.ndim = 0 ∧ r.oddpos = [] ∧ r.elem [] [] = normSq K
        ∧ r'.ndim = 0 ∧ r'.oddpos = [] ∧ r'.elem [] [] = normSq' K
        ∧ ∀ π : List Nat, π.Perm (List.range K.ndim) →
            Kb.tensordotF K (.pair (π.map Int.ofNat) (π.map Int.ofNat)) .blockwise = .ok r
            ∧ K.tensordotF Kb (.pair (π.map Int.ofNat) (π.map Int.ofNat)) .blockwise = .ok r')
    ∧ (∃ T c, Kb.tensordotF a (.pair ((List.range (freeAxes a.ndim xa).length).map Int.ofNat)
          ((freeAxes a.ndim xa).map Int.ofNat)) .blockwise = .ok T
      ∧ T.tensordotF b (.pair ((axesTW a.ndim b.ndim xa xb).map Int.ofNat)
          ((freeAxes b.ndim xb ++ xb).map Int.ofNat)) .blockwise = .ok c
      ∧ c.ndim = 0 ∧ c.oddpos = [] ∧ c.elem [] [] = normSq K)
    ∧ (∃ T c, (braOf b xb).tensordotF K (.pair ((freeAxes b.ndim xb).map Int.ofNat)
          (((List.range (freeAxes b.ndim xb).length).map ((freeAxes a.ndim xa).length + ·)).map
            Int.ofNat)) .blockwise = .ok T
      ∧ (braOf a xa).tensordotF T (.pair ((xa ++ freeAxes a.ndim xa).map Int.ofNat)
          ((axesTWr a.ndim b.ndim xa xb).map Int.ofNat)) .blockwise = .ok c
      ∧ c.ndim = 0 ∧ c.oddpos = [] ∧ c.elem [] [] = normSq K)
    ∧ (∃ T c, K.tensordotF (braOf a xa) (.pair ((List.range (freeAxes a.ndim xa).length).map Int.ofNat)
          ((freeAxes a.ndim xa).map Int.ofNat)) .blockwise = .ok T
      ∧ T.tensordotF (braOf b xb) (.pair ((axesTW a.ndim b.ndim xa xb).map Int.ofNat)
          ((freeAxes b.ndim xb ++ xb).map Int.ofNat)) .blockwise = .ok c
      ∧ c.ndim = 0 ∧ c.oddpos = [] ∧ c.elem [] [] = normSq' K)
    ∧ (∃ T c, b.tensordotF Kb (.pair ((freeAxes b.ndim xb).map Int.ofNat)
          (((List.range (freeAxes b.ndim xb).length).map ((freeAxes a.ndim xa).length + ·)).map
            Int.ofNat)) .blockwise = .ok T
      ∧ a.tensordotF T (.pair ((xa ++ freeAxes a.ndim xa).map Int.ofNat)
          ((axesTWr a.ndim b.ndim xa xb).map Int.ofNat)) .blockwise = .ok c
      ∧ c.ndim = 0 ∧ c.oddpos = [] ∧ c.elem [] [] = normSq' K)

theorem network_norm_bracketings6 (a b : Arr R) (xa xb : List Nat)
    (ha : a.validB = true) (hb : b.validB = true) (hfa : a.fermi = true) (hfb : b.fermi = true)
    (hadm : ValidP.tdotAdmissibleB a b xa xb = true)
    (hoA : KetLabels a.oddpos) (hoB : KetLabels b.oddpos)
    (hd : (a.oddpos ++ b.oddpos).Pairwise (fun x y => x.1 ≠ y.1))
    (hlab : netLabelsB a.parity b.parity a.oddpos b.oddpos = true) :
    Bracketings6 a b xa xb := by
  obtain ⟨K, Kb, r, r', S⟩ := net_setup_gen a b xa xb ha hb hfa hfb hadm hoA hoB hd hlab
  obtain ⟨K', Kb', r1, r1', eK', eKb', h2, h3, h4, g2, g3, g4, hπ⟩ :=
    network_norm_halves_any_order a b xa xb ha hb hfa hfb hadm hoA hoB hd
  obtain rfl : K' = K := by rw [S.eK] at eK'; exact (Except.ok.inj eK').symm
  obtain rfl : Kb' = Kb := by rw [S.eKb] at eKb'; exact (Except.ok.inj eKb').symm
  obtain ⟨s1, s2, s3, s4⟩ := sequential_of_setup ha hb hfa hfb hadm S
  exact ⟨K', Kb', S.eK, S.eKb, ⟨r1, r1', h2, h3, h4, g2, g3, g4, hπ⟩, s1, s2, s3, s4⟩

/-- the label check for at most one ket label per tensor, in terms of the arrays -/
theorem netLabelsB_of_oneKet {a b : Arr R} (ha : a.validB = true) (hb : b.validB = true)
    (hfa : a.fermi = true) (hfb : b.fermi = true) (hoA : OneKet a.oddpos) (hoB : OneKet b.oddpos)
    (hd : (a.oddpos ++ b.oddpos).Pairwise (fun x y => x.1 ≠ y.1)) :
    netLabelsB a.parity b.parity a.oddpos b.oddpos = true := by
  have := netLabelsB_oneKet a.oddpos b.oddpos hoA hoB hd
  rwa [(NormOk.of_valid ha hfa).labels, (NormOk.of_valid hb hfb).labels] at this

end setup

end SymmModel.NormNet
