/-
  SymmModel.Proofs.FuseCommuteFM — C06, first clause, abelian: the contraction of the two pre-fused
  operands over the single fused pair in ANY mode against `tensordot` over the original pairs in ANY
  mode (composition of C06f's theorems with `tensordotA_modes_agree_all`).  Namespace `SymmModel.TdotP`.
-/
import SymmModel.Props.C06f
namespace SymmModel.TdotP
open SymmModel SymmModel.C06 SymmModel.TdotP SymmModel.GradedP SymmModel.RoutesP SymmModel.AssocP
variable {R : Type}

/-- **bond_fuse_every_mode**: for an aligned pair `A`, `B` the contraction of the two
    pre-fused operands over the single fused pair with the public `tensordot` in ANY mode
    succeeds; every stored block `(K, V)` of the result has the shape the free legs' tables of
    `A`, `B` give to `K`, and every stored entry equals the element of the (blockwise) contraction
    of `A`, `B` over the original pairs at that address. -/
theorem bond_fuse_every_mode [AddCommMonoid R] [Mul R] [Neg R]
    (hz1 : ∀ x : R, 0 * x = 0) (hz2 : ∀ x : R, x * 0 = 0) {A B : Arr R} {xa xb : List Nat}
    (h : Ctx0 A B xa xb) (hne : xa ≠ []) (mode : TdotMode) :
    ∃ cm, tensordotA (FuseP.fusedArrM A [xa]) (FuseP.fusedArrM B [xb])
        (.pair [Int.ofNat (bondPos A xa)] [Int.ofNat (bondPos B xb)]) mode = .ok cm
      ∧ ∀ K V, alookup cm.blocks K = some V →
          Arr.blockShape? (permuted A.indices (freeAxes A.ndim xa) ++ permuted B.indices (freeAxes B.ndim xb)) K
            = some V.shape
          ∧ ∀ J, inBox V.shape J = true →
            cm.elem K J = (tensordotBlockwise A B (freeAxes A.ndim xa) xa xb (freeAxes B.ndim xb)).elem K J := by
  have oA := h.oneA hne
  have oB := h.oneB hne
  have gA0 : ([xa] : List (List Nat))[0]? = some xa := rfl
  have gB0 : ([xb] : List (List Nat))[0]? = some xb := rfl
  obtain ⟨_, _, v1, v2, _, _, t1, hel⟩ := fuse_contracted_aligned hz1 hz2 h hne .insert .insert
  obtain ⟨bm1, _, bm3⟩ := h.bond_match oA.groupsOk oB.groupsOk gA0 gB0
  have hrA : ∀ x ∈ ([bondPos A xa] : List Nat), x < (FuseP.fusedArrM A [xa]).ndim := by
    intro i hi
    simp only [List.mem_cons, List.not_mem_nil, or_false] at hi
    rw [hi, one_ndim oA]; exact one_pos_lt_ndimM oA
  have hrB : ∀ x ∈ ([bondPos B xb] : List Nat), x < (FuseP.fusedArrM B [xb]).ndim := by
    intro i hi
    simp only [List.mem_cons, List.not_mem_nil, or_false] at hi
    rw [hi, one_ndim oB]; exact one_pos_lt_ndimM oB
  have hparse := ValidP.parseAxes_nat (FuseP.fusedArrM A [xa]).ndim (FuseP.fusedArrM B [xb]).ndim
      [bondPos A xa] [bondPos B xb] rfl hrA hrB
  have hc : ValidP.contractibleB (FuseP.fusedArrM A [xa]) (FuseP.fusedArrM B [xb]) [bondPos A xa] [bondPos B xb]
      = true := by
    have e1 : (FuseP.fusedArrM A [xa]).indices.getD (bondPos A xa) default = FuseP.ixM A [xa] 0 := rfl
    have e2 : (FuseP.fusedArrM B [xb]).indices.getD (bondPos B xb) default = FuseP.ixM B [xb] 0 := rfl
    simp only [ValidP.contractibleB, List.length_cons, List.length_nil, beq_self_eq_true, List.zip_cons_cons,
      List.zip_nil_right, List.all_cons, List.all_nil, Bool.and_true, Bool.true_and, e1, e2, bm1, bm3,
      bne_iff_ne, ne_eq]
    cases (FuseP.ixM B [xb] 0).dual <;> simp
  obtain ⟨c, bw, k1, k2, k3, _, _, _, _, _, _, _, _, _, k13, k14⟩ :=
    tensordotA_modes_agree_all hz1 hz2 (FuseP.fusedArrM A [xa]) (FuseP.fusedArrM B [xb])
      (.pair ([bondPos A xa].map Int.ofNat) ([bondPos B xb].map Int.ofNat)) [bondPos A xa] [bondPos B xb] hparse
      v1 v2 h.fA h.fB h.sym hc (by simp) (by simp) hrA hrB
  simp only [List.map_cons, List.map_nil] at k1 k2 k3
  rw [t1] at k2
  obtain rfl := Except.ok.inj k2
  -- an address whose key has a shape in the fused operands' free-leg tables splits
  have key : ∀ (K : Sector) (shp : List Nat),
      Arr.blockShape? (without (FuseP.fusedArrM A [xa]).indices [bondPos A xa]
          ++ without (FuseP.fusedArrM B [xb]).indices [bondPos B xb]) K = some shp →
      Arr.blockShape? (permuted A.indices (freeAxes A.ndim xa) ++ permuted B.indices (freeAxes B.ndim xb)) K
          = some shp
      ∧ ∀ J, inBox shp J = true →
          (tensordotBlockwise (FuseP.fusedArrM A [xa]) (FuseP.fusedArrM B [xb])
            (freeAxes (FuseP.fusedArrM A [xa]).ndim [bondPos A xa]) [bondPos A xa] [bondPos B xb]
            (freeAxes (FuseP.fusedArrM B [xb]).ndim [bondPos B xb])).elem K J
          = (tensordotBlockwise A B (freeAxes A.ndim xa) xa xb (freeAxes B.ndim xb)).elem K J := by
    intro K shp hs
    have eFA : (FuseP.fusedArrM A [xa]).indices.length = (FuseP.fusedArrM A [xa]).ndim := rfl
    have eFB : (FuseP.fusedArrM B [xb]).indices.length = (FuseP.fusedArrM B [xb]).ndim := rfl
    have ean : A.indices.length = A.ndim := rfl
    have ebn : B.indices.length = B.ndim := rfl
    have iA : permuted (FuseP.fusedArrM A [xa]).indices (freeAxes (FuseP.fusedArrM A [xa]).ndim [bondPos A xa])
        = permuted A.indices (freeAxes A.ndim xa) := by
      rw [one_ndim oA]; exact one_free_indices oA
    have iB : permuted (FuseP.fusedArrM B [xb]).indices (freeAxes (FuseP.fusedArrM B [xb]).ndim [bondPos B xb])
        = permuted B.indices (freeAxes B.ndim xb) := by
      rw [one_ndim oB]; exact one_free_indices oB
    rw [without_eq_permuted_freeAxes, without_eq_permuted_freeAxes, eFA, eFB, iA, iB] at hs
    refine ⟨hs, ?_⟩
    intro J hJ
    have hLl : (permuted A.indices (freeAxes A.ndim xa)).length = (freeAxes A.ndim xa).length :=
      permuted_length _ _ (by simpa [ean] using mem_freeAxes_lt)
    have hKl : K.length = (freeAxes A.ndim xa).length + (permuted B.indices (freeAxes B.ndim xb)).length := by
      rw [(blockShape?_length hs).1, List.length_append, hLl]
    rw [← List.take_append_drop (freeAxes A.ndim xa).length K] at hs
    obtain ⟨p, q, hpq, hp, hq⟩ := TdotP.blockShape?_split (by rw [List.length_take, hLl]; omega) hs
    have hpl : p.length = (freeAxes A.ndim xa).length := by rw [(blockShape?_length hp).2, hLl]
    rw [hpq] at hJ
    have hJl : J.length = p.length + q.length := by rw [inBox_length hJ, List.length_append]
    rw [← List.take_append_drop p.length J, inBox_append (by rw [List.length_take]; omega)] at hJ
    simp only [Bool.and_eq_true] at hJ
    have := hel _ _ _ _ _ _ hp hJ.1 hq hJ.2
    rw [List.take_append_drop, List.take_append_drop] at this
    exact this
  cases mode with
  | blockwise =>
    refine ⟨_, t1, ?_⟩
    intro K V hK
    apply key K V.shape
    have hv := C01.tensordotBlockwise_valid (FuseP.fusedArrM A [xa]) (FuseP.fusedArrM B [xb])
      [bondPos A xa] [bondPos B xb] v1 v2 h.sym h.fA hc
      ((ValidP.allDistinct_iff _).mpr (by simp)) ((ValidP.allDistinct_iff _).mpr (by simp))
      (by simpa using hrA) (by simpa using hrB)
    rw [without_range, without_range] at hv
    have h1 := Arr.shapesOk_of_validB hv (K, V) (LinalgLemmas.alookup_some_mem hK)
    rw [tensordotBlockwise_indices] at h1
    exact blockShape?_weaken (dropUnused_sizeLe _ _) K V.shape h1
  | fused =>
    refine ⟨c, k1, ?_⟩
    intro K V hK
    obtain ⟨q1, q2⟩ := key K V.shape (k14 K V hK)
    exact ⟨q1, fun J hJ => (k13 K V hK J hJ).trans (q2 J hJ)⟩
  | auto =>
    refine ⟨c, k3 (by simp), ?_⟩
    intro K V hK
    obtain ⟨q1, q2⟩ := key K V.shape (k14 K V hK)
    exact ⟨q1, fun J hJ => (k13 K V hK J hJ).trans (q2 J hJ)⟩

/-- **bond_fuse_both_modes** (C06, first clause; abelian; public
    operations; BOTH contractions in an arbitrary mode). -/
theorem bond_fuse_both_modes [AddCommMonoid R] [Mul R] [Neg R]
    (hz1 : ∀ x : R, 0 * x = 0) (hz2 : ∀ x : R, x * 0 = 0) (a b : Arr R) (xa xb : List Nat)
    (ha : a.validB = true) (hb : b.validB = true) (hfa : a.fermi = false) (hfb : b.fermi = false)
    (hsym : a.sym = b.sym) (hc : ValidP.contractibleB a b xa xb = true)
    (hnA : xa.Nodup) (hnB : xb.Nodup) (hA : ∀ x ∈ xa, x < a.ndim) (hB : ∀ x ∈ xb, x < b.ndim)
    (hne : xa ≠ []) (m1 m2 : FuseMode) (mode1 mode2 : TdotMode) :
    ∃ af bf cm c,
      fuseA (dropMisaligned a b xa xb).1 [xa] m1 false = .ok af
      ∧ fuseA (dropMisaligned a b xa xb).2 [xb] m2 false = .ok bf
      ∧ tensordotA af bf (.pair [Int.ofNat (bondPos (dropMisaligned a b xa xb).1 xa)]
            [Int.ofNat (bondPos (dropMisaligned a b xa xb).2 xb)]) mode1 = .ok cm
      ∧ tensordotA a b (.pair (xa.map Int.ofNat) (xb.map Int.ofNat)) mode2 = .ok c
      ∧ ∀ K V, alookup cm.blocks K = some V → ∀ J, inBox V.shape J = true → cm.elem K J = c.elem K J := by
  obtain ⟨n1, n2⟩ := dropMisaligned_ndim a b xa xb
  have h := aligned_ctx0 a b xa xb ha hb hfa hfb hsym hc hnA hnB hA hB
  obtain ⟨f1, f2, _⟩ := fuse_contracted_aligned hz1 hz2 h hne m1 m2
  obtain ⟨cm, t1, hcm⟩ := bond_fuse_every_mode hz1 hz2 h hne mode1
  have hparse := ValidP.parseAxes_nat a.ndim b.ndim xa xb h.len hA hB
  obtain ⟨c', bw, e1, e2, e3, _, _, _, _, _, _, _, hsec, _, hel', hshape'⟩ :=
    tensordotA_modes_agree_all hz1 hz2 a b (.pair (xa.map Int.ofNat) (xb.map Int.ofNat)) xa xb hparse
      ha hb hfa hfb hsym hc hnA hnB hA hB
  have hbw := tensordotA_blockwise_ok a b _ xa xb hparse
  rw [e2] at hbw
  have hbw' : bw = tensordotBlockwise a b (freeAxes a.ndim xa) xa xb (freeAxes b.ndim xb) :=
    Except.ok.inj hbw
  have hph : a.phases = [] := phases_nil_of_validB ha hfa
  -- stored entries of the first route against the blockwise contraction of the originals
  have step1 : ∀ K V, alookup cm.blocks K = some V → ∀ J, inBox V.shape J = true →
      cm.elem K J = bw.elem K J := by
    intro K V hK J hJ
    rw [(hcm K V hK).2 J hJ, n1, n2, hbw']
    rw [Arr.elem_of_phases_nil (show (tensordotBlockwise (dropMisaligned a b xa xb).1
          (dropMisaligned a b xa xb).2 (freeAxes a.ndim xa) xa xb (freeAxes b.ndim xb)).phases = [] from hph),
      Arr.elem_of_phases_nil (show (tensordotBlockwise a b (freeAxes a.ndim xa) xa xb
          (freeAxes b.ndim xb)).phases = [] from hph),
      tensordotBlockwise_blocks_dropMisaligned]
  -- the shape of a stored block in the ORIGINAL free-leg tables
  have hshp : ∀ K V, alookup cm.blocks K = some V →
      Arr.blockShape? (without a.indices xa ++ without b.indices xb) K = some V.shape := by
    intro K V hK
    have h0 := (hcm K V hK).1
    rw [n1, n2] at h0
    rw [without_eq_permuted_freeAxes, without_eq_permuted_freeAxes]
    exact blockShape?_weaken
      (forall₂_append (forall₂_permuted (dropUnused_sizeLe a.indices _) _)
        (forall₂_permuted (dropUnused_sizeLe b.indices _) _)) K V.shape h0
  have hfused : ∀ K V, alookup cm.blocks K = some V → ∀ J, inBox V.shape J = true →
      cm.elem K J = c'.elem K J := by
    intro K V hK J hJ
    rw [step1 K V hK J hJ]
    cases hl : alookup c'.blocks K with
    | some V' =>
      have hs' := hshape' K V' hl
      rw [hshp K V hK] at hs'
      have e : V.shape = V'.shape := Option.some.inj hs'
      rw [e] at hJ
      exact (hel' K V' hl J hJ).symm
    | none =>
      have hK1 : K ∉ c'.sectors := (LinalgLemmas.alookup_eq_none_iff _ _).mp hl
      have hK2 : K ∉ bw.sectors := fun hh => hK1 (hsec K hh)
      rw [Arr.elem_of_not_mem hK1, Arr.elem_of_not_mem hK2]
  cases mode2 with
  | blockwise => exact ⟨_, _, cm, bw, f1, f2, t1, e2, step1⟩
  | fused => exact ⟨_, _, cm, c', f1, f2, t1, e1, hfused⟩
  | auto => exact ⟨_, _, cm, c', f1, f2, t1, e3 hne, hfused⟩

/-! ### non-vacuity -/

-- the hypotheses are satisfiable: `exA[i,j,k]`, `exB[j',k',m]` (C06), two contracted pairs, sparse
-- operands whose present sectors differ (each has a sector without partner)
example : exA.validB = true ∧ exB.validB = true ∧ exA.fermi = false ∧ exB.fermi = false
    ∧ exA.sym = exB.sym ∧ ValidP.contractibleB exA exB [1, 2] [0, 1] = true
    ∧ ([1, 2] : List Nat).Nodup ∧ ([0, 1] : List Nat).Nodup
    ∧ (∀ x ∈ ([1, 2] : List Nat), x < exA.ndim) ∧ (∀ x ∈ ([0, 1] : List Nat), x < exB.ndim)
    ∧ ([1, 2] : List Nat) ≠ []
    ∧ (dropMisaligned exA exB [1, 2] [0, 1]).1.blocks.length = 2
    ∧ bondPos (dropMisaligned exA exB [1, 2] [0, 1]).1 [1, 2] = 1
    ∧ bondPos (dropMisaligned exA exB [1, 2] [0, 1]).2 [0, 1] = 0 := by decide +kernel

-- the theorem instantiated at that pair, every strategy / mode
example (m1 m2 : FuseMode) (mode1 mode2 : TdotMode) :
    ∃ af bf cm c,
      fuseA (dropMisaligned exA exB [1, 2] [0, 1]).1 [[1, 2]] m1 false = .ok af
      ∧ fuseA (dropMisaligned exA exB [1, 2] [0, 1]).2 [[0, 1]] m2 false = .ok bf
      ∧ tensordotA af bf (.pair [Int.ofNat (bondPos (dropMisaligned exA exB [1, 2] [0, 1]).1 [1, 2])]
            [Int.ofNat (bondPos (dropMisaligned exA exB [1, 2] [0, 1]).2 [0, 1])]) mode1 = .ok cm
      ∧ tensordotA exA exB (.pair [1, 2] [0, 1]) mode2 = .ok c
      ∧ ∀ K V, alookup cm.blocks K = some V → ∀ J, inBox V.shape J = true → cm.elem K J = c.elem K J :=
  bond_fuse_both_modes (by intro x; simp) (by intro x; simp) exA exB [1, 2] [0, 1]
    (by decide +kernel) (by decide +kernel) rfl rfl rfl (by decide +kernel)
    (by decide) (by decide) (by decide) (by decide) (by simp) m1 m2 mode1 mode2

end SymmModel.TdotP
