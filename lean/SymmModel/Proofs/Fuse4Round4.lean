/-
  SymmModel.Proofs.Fuse4Round4 — the fermionic round trip, stage by stage: unfusing the groups of
  `fuseF a groups` with `unfuseF` (last group first) accumulates exactly the per-group factors of
  the fuse sign.
-/
import SymmModel.Proofs.Fuse4Round3
namespace SymmModel
namespace FuseP
set_option linter.unusedSectionVars false
open SymmModel.KoszulP SymmModel.Lazy

variable {R : Type} [Zero R] [Neg R] [LawfulNeg R]

/-- the factor of group `gx` -/
def groupFactor (a : Arr R) (groups : List (List Nat)) (S : Sector) (gx : List Nat) : Int :=
  if dualSel a groups gx then groupSign a groups S gx else 1

/-- accumulated sign after the last `j` groups have been unfused -/
def tauF (a : Arr R) (groups : List (List Nat)) (S : Sector) : Nat → Int
  | 0 => 1
  | j + 1 => groupFactor a groups S ((newGroupsF groups a.duals).getD (groups.length - (j + 1)) []) * tauF a groups S j

theorem groupFactor_pm (a : Arr R) (groups : List (List Nat)) (S : Sector) (gx : List Nat) :
    groupFactor a groups S gx = 1 ∨ groupFactor a groups S gx = -1 := by
  unfold groupFactor groupSign revSign
  split
  · exact mul_pm (flipSign_pm _ _ _) (sgn_cases _)
  · exact Or.inl rfl

theorem tauF_pm (a : Arr R) (groups : List (List Nat)) (S : Sector) (j : Nat) :
    tauF a groups S j = 1 ∨ tauF a groups S j = -1 := by
  induction j with
  | zero => exact Or.inl rfl
  | succ j ih => exact mul_pm (groupFactor_pm _ _ _ _) ih

/-- a single-axis group contributes no sign -/
theorem groupFactor_single (a : Arr R) (groups : List (List Nat)) (S : Sector) (ax : Nat) :
    groupFactor a groups S [ax] = 1 := by
  unfold groupFactor
  split
  · rename_i hd
    simp only [dualSel, List.headD_cons] at hd
    unfold groupSign revSign
    have h1 : ([ax].filter (fun ax => !((a.transposeF (calcFuseGroupInfo groups a.duals).perm).indices.getD ax default).dual)) = [] := by
      rw [List.filter_cons]
      simp only [hd, Bool.not_true, Bool.false_eq_true, if_false, List.filter_nil]
    rw [h1, flipSign_nil, Int.one_mul]
    have : oddCount (S.map a.sym.parity) [ax] ≤ 1 := by
      unfold oddCount
      exact le_trans (List.length_filter_le _ _) (by simp)
    have h0 : oddCount (S.map a.sym.parity) [ax] * (oddCount (S.map a.sym.parity) [ax] - 1) / 2 = 0 := by
      rcases Nat.le_one_iff_eq_zero_or_eq_one.1 this with h | h <;> simp [h]
    rw [h0]; rfl
  · rfl

theorem getD_map_dual (l : List Index) (x : Nat) :
    (l.map Index.dual).getD x false = (l.getD x default).dual := by
  simp only [List.getD_eq_getElem?_getD, List.getElem?_map]
  cases l[x]? <;> rfl

section Stage
variable {a : Arr R} {groups : List (List Nat)}

/-- the sign of one `unfuseF` step is the factor of its group -/
theorem unfuseSign_group (hv : a.validB = true) (hf : a.fermi = true) (hok : GroupsOk groups a.ndim)
    {sb4 : Sector × Blk R} {j : Nat} (hj : j < groups.length)
    (hm : multiB (newGroupsF groups a.duals) (groups.length - (j + 1)) = true) {Z : Arr R}
    (hZs : Z.sym = a.sym)
    (hZn : (giM (signAdj a groups) (newGroupsF groups a.duals)).position + (groups.length - (j + 1)) < Z.ndim) :
    unfuseSign Z (ixM (signAdj a groups) (newGroupsF groups a.duals) (groups.length - (j + 1)))
        (segIx (signAdj a groups) (newGroupsF groups a.duals) (groups.length - (j + 1)))
        ((giM (signAdj a groups) (newGroupsF groups a.duals)).position + (groups.length - (j + 1)))
        (KM (signAdj a groups) (newGroupsF groups a.duals) sb4 (j + 1))
      = groupFactor a groups sb4.1 ((newGroupsF groups a.duals).getD (groups.length - (j + 1)) []) := by
  have hfld := signAdj_fields a groups
  have hnd4 : (signAdj a groups).ndim = a.ndim := by
    show (signAdj a groups).indices.length = a.ndim
    rw [hfld.2.1]; exact permutedM_length hok a.indices rfl
  have hok4 : GroupsOk (newGroupsF groups a.duals) (signAdj a groups).ndim := by
    rw [hnd4, ← duals_length]; exact newGroupsF_ok (hokD hok)
  have hlen : (newGroupsF groups a.duals).length = groups.length := newGroupsF_length _ _
  obtain ⟨gx, hgg, hgl⟩ := multiB_iff.1 hm
  have hgd : (newGroupsF groups a.duals).getD (groups.length - (j + 1)) [] = gx := by
    simp [List.getD_eq_getElem?_getD, hgg]
  have hidx : (signAdj a groups).indices = (a.transposeF (calcFuseGroupInfo groups a.duals).perm).indices := hfld.2.1
  -- direction of the fused index
  have hdual : (ixM (signAdj a groups) (newGroupsF groups a.duals) (groups.length - (j + 1))).dual
      = dualSel a groups gx := by
    rw [ixM_dual hok4 hgg hgl, groupDuals_getD _ _ _ _ hgg]
    show ((signAdj a groups).indices.map Index.dual).getD _ false = _
    rw [hidx, getD_map_dual]
    rfl
  have hsubs : segIx (signAdj a groups) (newGroupsF groups a.duals) (groups.length - (j + 1))
      = gx.map (fun ax => (signAdj a groups).indices.getD ax default) := by
    simp only [segIx, hgd]
  -- the entries of the expanded sector on the new legs
  have hK : ∀ t, t < gx.length →
      (KM (signAdj a groups) (newGroupsF groups a.duals) sb4 (j + 1)).getD
        ((giM (signAdj a groups) (newGroupsF groups a.duals)).position + (groups.length - (j + 1)) + t) (0, 0)
        = sb4.1.getD (gx.getD t 0) (0, 0) := by
    intro t ht
    simp only [KM]
    rw [hlen, partG_succ_parts hj (by
      rw [planM_newSector_length hok4, ← hlen]; exact ndimM_ge)]
    have hl : ((planM (signAdj a groups) (newGroupsF groups a.duals) sb4).newSector.take
        ((giM (signAdj a groups) (newGroupsF groups a.duals)).position + (groups.length - (j + 1)))).length
        = (giM (signAdj a groups) (newGroupsF groups a.duals)).position + (groups.length - (j + 1)) := by
      rw [List.length_take, planM_newSector_length hok4]
      have := ndimM_ge (a := signAdj a groups) (groups := newGroupsF groups a.duals)
      rw [hlen] at this; omega
    have := getD_mid ((planM (signAdj a groups) (newGroupsF groups a.duals) sb4).newSector.take
        ((giM (signAdj a groups) (newGroupsF groups a.duals)).position + (groups.length - (j + 1))))
      (segS (newGroupsF groups a.duals) sb4 (groups.length - (j + 1)))
      (tailG (planM (signAdj a groups) (newGroupsF groups a.duals) sb4).newSector
        (segS (newGroupsF groups a.duals) sb4) (giM (signAdj a groups) (newGroupsF groups a.duals)).position
        groups.length j) t (0, 0) (by simp only [segS, hgd, List.length_map]; exact ht)
    rw [hl] at this
    rw [this]
    simp only [segS, hgd]
    simp [List.getD_eq_getElem?_getD, List.getElem?_map, List.getElem?_eq_getElem ht]
  unfold unfuseSign groupFactor
  rw [hdual, hgd]
  split
  · -- dual: flip and reversal
    unfold groupSign
    rw [hZs]
    congr 1
    · rw [hsubs]
      apply flipSign_transfer a.sym _ sb4.1 gx _ _ _ (by simp)
      · intro t ht
        rw [hidx]
        simp [List.getD_eq_getElem?_getD, List.getElem?_map, List.getElem?_eq_getElem ht]
      · exact hK
    · have hL : 0 < gx.length := by
        cases hgx : gx with
        | nil =>
          have := (hok4.gne gx (getElem?_mem' hgg)); exact absurd hgx this
        | cons x xs => simp
      have hsl : (segIx (signAdj a groups) (newGroupsF groups a.duals) (groups.length - (j + 1))).length = gx.length := by
        rw [hsubs]; simp
      rw [hsl, koszul_unfuseVperm _ _ _ _ hZn hL]
      unfold revSign
      rw [oddCount_transfer a.sym _ sb4.1 gx _ hK]
  · rfl

end Stage

end FuseP
end SymmModel
