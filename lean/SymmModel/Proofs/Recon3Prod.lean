/-
  SymmModel.Proofs.Recon3Prod — `svd` / `svd_truncated` factors contracted with
  `tensordot_fermionic` in any mode, for every `absorb` option: the statements of
  Proofs/ReconTrunc.lean (`svd_absorb_recon_fermi`, `trunc_absorb_fermi`) for `Arr.tensordotF`.
  Namespace `SymmModel.Recon3P`.
-/
import SymmModel.Proofs.Recon3Iso

namespace SymmModel
namespace Recon3P
set_option linter.unusedSectionVars false
open LinalgLemmas ReconP Recon2P TdotP GradedP RoutesP OddposP Finset
open Lazy (sgnI)

variable {R : Type}

theorem signRing_of_ring [Ring R] : SignRing R :=
  ⟨neg_neg, neg_zero, fun x y => by rw [neg_add], neg_mul, mul_neg⟩

theorem sgnI_ite [Neg R] (c : Bool) (v : R) :
    sgnI (if c then (-1 : Int) else 1) v = if c then -v else v := by
  unfold sgnI
  cases c <;> simp

section
variable [CommRing R]

theorem absorbed_fold (mode : Absorb) (sqrtK : Blk R → Blk R) {ub sb vb : Blk R}
    {m k n : Nat} (hsh : ItemShape ub sb vb m k n)
    (hsq : mode = .both → (sqrtK sb).shape = [k]
      ∧ ∀ t, t < k → (sqrtK sb).get [t] * (sqrtK sb).get [t] = sb.get [t])
    {i j : Nat} (hi : i < m) (hj : j < n) :
    (List.range k).foldl (fun acc t =>
        acc + (absU mode sqrtK ub sb).get [i, t] * (absV mode sqrtK vb sb).get [t, j]) 0
      = (List.range k).foldl (fun acc t => acc + (ub.get [i, t] * sb.get [t]) * vb.get [t, j]) 0 := by
  rw [← absorbed_entry mode sqrtK hsh hsq hi hj,
    tensordotK_matmul_get _ _ (by rw [absU_shape]; exact hsh.1) (by rw [absV_shape]; exact hsh.2.2) hi hj]

variable {K : Kernels R} {x : Arr R}

/-- **svd, every `absorb`, every contraction mode.** -/
theorem svd_tdotF (hK : K.ShapeOk) (hC : K.SVDContract) (hv : x.validB = true) (h2 : x.ndim = 2)
    (hf : x.fermi = true) (hlab : SortedLabels x.oddpos) (sqrtK : Blk R → Blk R)
    (am : Option Absorb) (tm : TdotMode)
    (hsq : am = some .both → SqrtItems sqrtK x.blocks (fun p => (K.svd p.2).2.1)
      (fun p => min (p.2.shape.getD 0 0) (p.2.shape.getD 1 0))) :
    ∃ y, svdTensordot am tm sqrtK (leftF x (fun b => (K.svd b).1))
        ⟨x.blocks.map (fun p => (colOf p.1, (K.svd p.2).2.1))⟩
        (rightF x (fun b => (K.svd b).1) (fun b => (K.svd b).2.2)) = .ok y
      ∧ y.oddpos = x.oddpos ∧ (∀ s ∈ x.sectors, s ∈ y.sectors)
      ∧ (tm = .blockwise → y.phases = [] ∧ y.sectors = x.sectors)
      ∧ ∀ s off, inBox (Arr.blockShapeD x.indices s) off = true → y.elem s off = x.elem s off := by
  have : SignRing R := signRing_of_ring
  obtain ⟨i0, i1, hi⟩ := ndim_two h2
  rw [svdTensordot_eq (aligned_svd (K := K) hv h2) sqrtK am tm]
  obtain ⟨y, h1, h2', h3, h4, h5, h6⟩ := tdotF_pair_any_mode (fun a => zero_mul a)
    (fun a => mul_zero a) hv h2 hf hlab (svd_pair hK hv h2 hf (modeOf am) sqrtK) tm
  have hmap : x.blocks.map (fun p => p.1) = x.sectors := rfl
  rw [hmap] at h3 h4 h6
  refine ⟨y, h1, h2', h3, h4, ?_⟩
  intro s off hbox
  by_cases hs : s ∈ x.sectors
  · obtain ⟨⟨s0, b⟩, hm, e⟩ := List.mem_map.mp hs
    have e' : s0 = s := e
    subst e'
    obtain ⟨r, c, m, n, B⟩ := mat_block hv hi hm
    have htab : Arr.blockShapeD x.indices s0 = [m, n] := by
      unfold Arr.blockShapeD
      rw [(((validB_iff x).mp hv).2.2.2.1 _ b hm).2.2.1, B.hshape]; rfl
    rw [htab] at hbox
    obtain ⟨i, j, rfl, hij⟩ := inBox_pair_elim hbox
    have := h5 (_, b) hm i j (by simpa [B.hshape] using hij.1) (by simpa [B.hshape] using hij.2)
    simp only [B.hshape, List.getD_cons_zero, List.getD_cons_succ] at this
    rw [this, absorbed_fold (modeOf am) sqrtK
        (by have := svd_itemShape hK hv h2 (_, b) hm
            simpa [B.hshape] using this)
        (fun hmo => by
          have hb : am = some .both := by
            cases am with
            | none => cases hmo
            | some m' => simp only [modeOf] at hmo; rw [hmo]
          have := hsq hb (_, b) hm
          simpa [B.hshape] using this) hij.1 hij.2,
      hC b m n B.hshape B.hwf i j hij.1 hij.2, sgnI_ite, elem_of_mem (sectors_nodup hv) hm]
  · rw [h6 s hs off hbox]
    have h1' : alookup x.blocks s = none := (LinalgLemmas.alookup_eq_none_iff _ _).mpr hs
    simp [Arr.elem, h1']

/-- **svd_truncated, every `absorb`, every contraction mode.** -/
theorem trunc_tdotF (hK : K.ShapeOk) (hv : x.validB = true) (h2 : x.ndim = 2)
    (hf : x.fermi = true) (hlab : SortedLabels x.oddpos) {counts : List Nat}
    (hlen : counts.length = x.blocks.length) (sqrtK : Blk R → Blk R)
    (am : Option Absorb) (tm : TdotMode)
    (hsq : am = some .both → SqrtItems sqrtK (kept x counts)
      (fun t => ((K.svd t.1.2).2.1).sliceK [0] [t.2]) (fun t => t.2)) :
    ∃ y, svdTensordot am tm sqrtK (tU K x counts) (tS K x counts) (tV K x counts) = .ok y
      ∧ y.oddpos = x.oddpos
      ∧ (∀ s ∈ (kept x counts).map (fun t => t.1.1), s ∈ y.sectors)
      ∧ (tm = .blockwise → y.phases = [] ∧ y.sectors = (kept x counts).map (fun t => t.1.1))
      ∧ (∀ t ∈ kept x counts, ∀ m n, t.1.2.shape = [m, n] → ∀ i j, i < m → j < n →
          y.elem t.1.1 [i, j]
            = (if alookup x.phases t.1.1 == some (-1) then
                - ∑ t' ∈ range t.2, ((K.svd t.1.2).1.get [i, t'] * (K.svd t.1.2).2.1.get [t'])
                    * (K.svd t.1.2).2.2.get [t', j]
               else ∑ t' ∈ range t.2, ((K.svd t.1.2).1.get [i, t'] * (K.svd t.1.2).2.1.get [t'])
                    * (K.svd t.1.2).2.2.get [t', j]))
      ∧ (∀ s, s ∉ (kept x counts).map (fun t => t.1.1) → ∀ off,
          inBox (Arr.blockShapeD x.indices s) off = true → y.elem s off = 0) := by
  have : SignRing R := signRing_of_ring
  rw [svdTensordot_eq (aligned_trunc (K := K) hv h2 hlen) sqrtK am tm]
  obtain ⟨y, h1, h2', h3, h4, h5, h6⟩ := tdotF_pair_any_mode (fun a => zero_mul a)
    (fun a => mul_zero a) hv h2 hf hlab (trunc_pair hK hv h2 hf hlen (modeOf am) sqrtK) tm
  refine ⟨y, h1, h2', h3, h4, ?_, h6⟩
  intro t ht m n hs i j hi hj
  obtain ⟨hb, _, _⟩ := kept_mem hlen ht
  have hwf : t.1.2.wf = true := (((validB_iff x).mp hv).2.2.2.1 t.1.1 t.1.2 hb).2.2.2
  have hp := h5 t ht i j (by simpa [hs] using hi) (by simpa [hs] using hj)
  have hsum : (List.range t.2).foldl (fun acc t' => acc +
        ((((K.svd t.1.2).1).sliceK [0, 0] [((K.svd t.1.2).1).shape.getD 0 0, t.2]).get [i, t']
          * (((K.svd t.1.2).2.1).sliceK [0] [t.2]).get [t'])
        * (((K.svd t.1.2).2.2).sliceK [0, 0] [t.2, ((K.svd t.1.2).2.2).shape.getD 1 0]).get [t', j]) 0
      = ∑ t' ∈ range t.2,
        ((K.svd t.1.2).1.get [i, t'] * (K.svd t.1.2).2.1.get [t']) * (K.svd t.1.2).2.2.get [t', j] := by
    obtain ⟨a1, _, _, _, a5, _⟩ := hK.svd t.1.2 m n hs hwf
    rw [← foldl_eq_sum]
    apply foldl_ext'
    intro acc t' ht'
    have ht'' := List.mem_range.mp ht'
    rw [a1, a5]
    simp only [List.getD_cons_zero, List.getD_cons_succ]
    rw [sliceK00_get _ hi ht'', sliceK0_get _ ht'', sliceK00_get _ ht'' hj]
  simp only at hp
  rw [hp, absorbed_fold (modeOf am) sqrtK (trunc_itemShape hK hv h2 hlen t ht)
      (fun hmo => by
        have hb' : am = some .both := by
          cases am with
          | none => cases hmo
          | some m' => simp only [modeOf] at hmo; rw [hmo]
        exact hsq hb' t ht) (by simpa [hs] using hi) (by simpa [hs] using hj),
    hsum, sgnI_ite]

end

end Recon3P
end SymmModel
