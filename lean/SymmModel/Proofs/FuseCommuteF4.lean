/-
  SymmModel.Proofs.FuseCommuteF4 — C06, first clause, FERMIONIC, blockwise level: for aligned
  fermionic operands `A`, `B` (`FCtx`: the situation after `dropMisaligned`) whose contracted legs
  are adjacent and in order (`AdjOk`), the graded contraction of the two fermionically fused
  operands over the single fused pair equals the graded contraction over the original pairs at
  every address of the free legs' table box (`gradedContract_bond_fuse`).
  Namespace `SymmModel.TdotP`.
-/
import SymmModel.Proofs.FuseCommuteF3
import SymmModel.Proofs.TdotFused9
import SymmModel.Proofs.TdotFusedW1

namespace SymmModel
namespace TdotP
open SymmModel.KoszulP SymmModel.Lazy SymmModel.GradedP SymmModel.RoutesP SymmModel.AssocP
variable {R : Type}
set_option linter.unusedSectionVars false

/-- aligned fermionic operands (what `dropMisaligned` produces from a pair satisfying the weak
    guard) whose contracted legs are adjacent and in order -/
structure FCtx (A B : Arr R) (xa xb : List Nat) : Prop where
  W : AdmW A B xa xb
  cm : (xa.map (fun ax => A.indices.getD ax default)).map Index.cm
      = (xb.map (fun ax => B.indices.getD ax default)).map Index.cm
  dual : (xb.map (fun ax => B.indices.getD ax default)).map Index.dual
      = (xa.map (fun ax => A.indices.getD ax default)).map (fun ix => !ix.dual)
  keys : ∀ K, K ∈ A.blocks.map (fun sb => xa.map (fun ax => sb.1.getD ax (0, 0))) ↔
      K ∈ B.blocks.map (fun sb => xb.map (fun ax => sb.1.getD ax (0, 0)))
  adjA : AdjOk A xa
  adjB : AdjOk B xb

theorem parity_m (P : Bool) (o m : Nat) (h : P = ((o + m) % 2 == 1)) :
    m % 2 = ((if P then 1 else 0) + o) % 2 := by
  cases P
  · have : ¬ ((o + m) % 2 = 1) := by
      intro e; rw [e] at h; simp at h
    simp only [Bool.false_eq_true, if_false]; omega
  · have : (o + m) % 2 = 1 := by
      have := h.symm; simpa using this
    simp only [if_true]; omega

/-- a sector-wise twist of both operands, term by term -/
theorem contractPair_twist2 [AddCommMonoid R] [Mul R] [Neg R] [SignRing R] (X Y a b : Arr R)
    (xa xb : List Nat) (τA τB : Sector → Int) (hτA : ∀ s, τA s = 1 ∨ τA s = -1)
    (hτB : ∀ s, τB s = 1 ∨ τB s = -1)
    (hiX : X.indices = a.indices) (hiY : Y.indices = b.indices)
    (heX : ∀ s o, X.elem s o = sgnI (τA s) (a.elem s o))
    (heY : ∀ s o, Y.elem s o = sgnI (τB s) (b.elem s o)) (oL oR : List Nat) (p : Sector × Sector) :
    contractPair X Y xa xb oL oR p = sgnI (τA p.1 * τB p.2) (contractPair a b xa xb oL oR p) := by
  have hnX : X.ndim = a.ndim := by show X.indices.length = a.indices.length; rw [hiX]
  have hnY : Y.ndim = b.ndim := by show Y.indices.length = b.indices.length; rw [hiY]
  unfold contractPair
  rw [hiX, ← sgnI_sum]
  apply sum_map_congr
  intro kk _
  unfold contractTerm
  rw [heX, heY, hnX, hnY]
  exact GradedP.sgnI_mul_mul (hτA p.1) (hτB p.2) _ _

/-- the direction of the fused leg is the direction of the group's first leg -/
theorem one_fused_dual {X : Arr R} {g : List Nat} (h : OneOk X g) :
    (FuseP.ixM X [g] 0).dual = (X.indices.getD (g.headD 0) default).dual := by
  have g0 : ([g] : List (List Nat))[0]? = some g := rfl
  by_cases hlen : g.length = 1
  · rw [FuseP.ixM_single h.groupsOk g0 hlen]
  · rw [FuseP.ixM_dual h.groupsOk g0 hlen]
    show ([g].map (fun g' => X.duals.getD (g'.headD 0) false)).getD 0 false = _
    simp only [List.map_cons, List.map_nil, List.getD_cons_zero]
    have hh : g.headD 0 < X.indices.length := by
      have := h.ne
      match g, this with
      | x :: _, _ => exact h.lt x (by simp)
    unfold Arr.duals
    rw [List.getD_eq_getElem?_getD, List.getD_eq_getElem?_getD, List.getElem?_map,
      List.getElem?_eq_getElem hh]
    rfl

/-- the group info of `_fuse_core` only reads the directions of the legs -/
theorem giM_congr {X A : Arr R} (hI : X.indices = A.indices) (G : List (List Nat)) :
    FuseP.giM X G = FuseP.giM A G := by
  show calcFuseGroupInfo G X.duals = calcFuseGroupInfo G A.duals
  unfold Arr.duals; rw [hI]

/-- the two `_fuse_core` operands of the fermionic fuses (kind flag and labels erased) form an
    aligned abelian pair -/
theorem ctx0_of_fctx [AddCommMonoid R] [Mul R] [Neg R] [SignRing R] {A B X Y : Arr R} {xa xb : List Nat} (h : FCtx A B xa xb)
    (xI : X.indices = A.indices) (xS : X.sym = A.sym) (xSec : X.sectors = A.sectors)
    (xPh : X.phases = []) (xV : X.validB = true)
    (yI : Y.indices = B.indices) (yS : Y.sym = B.sym) (ySec : Y.sectors = B.sectors)
    (yPh : Y.phases = []) (yV : Y.validB = true) :
    Ctx0 (ab X) (ab Y) xa xb := by
  have W := h.W
  have hlen := W.len
  have oA := h.adjA.one
  have oB := h.adjB.one
  have hXn : X.ndim = A.ndim := by show X.indices.length = A.indices.length; rw [xI]
  have hYn : Y.ndim = B.ndim := by show Y.indices.length = B.indices.length; rw [yI]
  have oAX : OneOk X xa := ⟨oA.ne, oA.nd, by rw [hXn]; exact oA.lt⟩
  have oBX : OneOk Y xb := ⟨oB.ne, oB.nd, by rw [hYn]; exact oB.lt⟩
  refine ⟨ab_validB ((ValidP.validB_iff X).mp xV) xPh, ab_validB ((ValidP.validB_iff Y).mp yV) yPh,
    rfl, rfl, xS.trans (W.sym.trans yS.symm), W.nA, W.nB, oAX.lt, oBX.lt, hlen, ?_, ?_, ?_⟩
  · show (xa.map (fun ax => X.indices.getD ax default)).map Index.cm
      = (xb.map (fun ax => Y.indices.getD ax default)).map Index.cm
    rw [xI, yI]; exact h.cm
  · show (xb.map (fun ax => Y.indices.getD ax default)).map Index.dual
      = (xa.map (fun ax => X.indices.getD ax default)).map (fun ix => !ix.dual)
    rw [xI, yI]; exact h.dual
  · intro K
    have e1 : ∀ (Z Z' : Arr R) (zs : List Nat), Z.sectors = Z'.sectors →
        Z.blocks.map (fun sb => zs.map (fun ax => sb.1.getD ax (0, 0)))
          = Z'.blocks.map (fun sb => zs.map (fun ax => sb.1.getD ax (0, 0))) := by
      intro Z Z' zs hz
      have e : ∀ (W : Arr R), W.blocks.map (fun sb => zs.map (fun ax => sb.1.getD ax (0, 0)))
          = W.sectors.map (fun s => zs.map (fun ax => s.getD ax (0, 0))) := by
        intro W; unfold Arr.sectors; rw [List.map_map]; rfl
      rw [e, e, hz]
    show K ∈ X.blocks.map _ ↔ K ∈ Y.blocks.map _
    rw [e1 X A xa xSec, e1 Y B xb ySec]; exact h.keys K

/-- **the graded contraction over the single fused pair = the graded contraction over the
    original pairs** (aligned fermionic operands, contracted legs adjacent and in order; `X`, `Y`
    the operands of `_fuse_core` inside the two fermionic fuses: `A`, `B` with every sector
    multiplied by its fuse sign). -/
theorem gradedContract_bond_fuse [AddCommMonoid R] [Mul R] [Neg R] [SignRing R]
    (hz1 : ∀ x : R, 0 * x = 0) (hz2 : ∀ x : R, x * 0 = 0) {A B X Y : Arr R} {xa xb : List Nat}
    (h : FCtx A B xa xb)
    (xI : X.indices = A.indices) (xS : X.sym = A.sym) (xSec : X.sectors = A.sectors)
    (xPh : X.phases = []) (xV : X.validB = true) (xCh : X.charge = A.charge)
    (xE : ∀ S J, X.elem S J = sgnI (FuseP.fuseSignT A [xa] S) (A.elem S J))
    (yI : Y.indices = B.indices) (yS : Y.sym = B.sym) (ySec : Y.sectors = B.sectors)
    (yPh : Y.phases = []) (yV : Y.validB = true)
    (yE : ∀ S J, Y.elem S J = sgnI (FuseP.fuseSignT B [xb] S) (B.elem S J))
    (hvAF : (FuseP.fusedArrM X [xa]).validB = true) (hvBF : (FuseP.fusedArrM Y [xb]).validB = true)
    {Ls Rs : Sector} {oL oR shpL shpR : List Nat}
    (hshpL : Arr.blockShape? (permuted A.indices (freeAxes A.ndim xa)) Ls = some shpL)
    (hboxL : inBox shpL oL = true)
    (hshpR : Arr.blockShape? (permuted B.indices (freeAxes B.ndim xb)) Rs = some shpR)
    (hboxR : inBox shpR oR = true) :
    gradedContract (FuseP.fusedArrM X [xa]) (FuseP.fusedArrM Y [xb]) [bondPos X xa] [bondPos Y xb]
        (Ls ++ Rs) oL oR
      = gradedContract A B xa xb (Ls ++ Rs) oL oR := by
  have W := h.W
  have hlen := W.len
  have oA := h.adjA.one
  have oB := h.adjB.one
  have hne : xa ≠ [] := oA.ne
  have ean : A.indices.length = A.ndim := rfl
  have ebn : B.indices.length = B.ndim := rfl
  have hXn : X.ndim = A.ndim := by show X.indices.length = A.indices.length; rw [xI]
  have hYn : Y.ndim = B.ndim := by show Y.indices.length = B.indices.length; rw [yI]
  have oAX : OneOk X xa := ⟨oA.ne, oA.nd, by rw [hXn]; exact oA.lt⟩
  have oBX : OneOk Y xb := ⟨oB.ne, oB.nd, by rw [hYn]; exact oB.lt⟩
  have hgA : FuseP.giM X [xa] = FuseP.giM A [xa] := giM_congr xI _
  have hgB : FuseP.giM Y [xb] = FuseP.giM B [xb] := giM_congr yI _
  have H0 : Ctx0 (ab X) (ab Y) xa xb := ctx0_of_fctx h xI xS xSec xPh xV yI yS ySec yPh yV
  -- the fused operands
  have hpAF : (FuseP.fusedArrM X [xa]).phases = [] := xPh
  have hpBF : (FuseP.fusedArrM Y [xb]).phases = [] := yPh
  have nFA : (FuseP.fusedArrM X [xa]).ndim
      = (FuseP.giM A [xa]).position + 1 + (FuseP.giM A [xa]).axesAfter.length := by
    rw [one_ndim oAX, one_ndimM oAX, hgA]
  have nFB : (FuseP.fusedArrM Y [xb]).ndim
      = (FuseP.giM B [xb]).position + 1 + (FuseP.giM B [xb]).axesAfter.length := by
    rw [one_ndim oBX, one_ndimM oBX, hgB]
  have hbA : bondPos X xa = (FuseP.giM A [xa]).position := by unfold bondPos; rw [hgA]
  have hbB : bondPos Y xb = (FuseP.giM B [xb]).position := by unfold bondPos; rw [hgB]
  have hsymF : (FuseP.fusedArrM X [xa]).sym = (FuseP.fusedArrM Y [xb]).sym :=
    xS.trans (W.sym.trans yS.symm)
  have hLlen : Ls.length = (freeAxes A.ndim xa).length := by
    rw [(blockShape?_length hshpL).1, permuted_length _ _ (by simpa [ean] using mem_freeAxes_lt)]
  have hRlen : Rs.length = (freeAxes B.ndim xb).length := by
    rw [(blockShape?_length hshpR).1, permuted_length _ _ (by simpa [ebn] using mem_freeAxes_lt)]
  have hoLlen : oL.length = (freeAxes A.ndim xa).length := by
    rw [inBox_length hboxL, (blockShape?_length hshpL).2,
      permuted_length _ _ (by simpa [ean] using mem_freeAxes_lt)]
  have hFreeA : (freeAxes (FuseP.fusedArrM X [xa]).ndim [bondPos X xa]).length = (freeAxes A.ndim xa).length := by
    rw [one_ndim oAX]; unfold bondPos; rw [one_free_length oAX, hXn]
  have hFreeB : (freeAxes (FuseP.fusedArrM Y [xb]).ndim [bondPos Y xb]).length = (freeAxes B.ndim xb).length := by
    rw [one_ndim oBX]; unfold bondPos; rw [one_free_length oBX, hYn]
  -- the free tables of the fused operands are those of the originals
  have hLf : Arr.blockShape? (permuted (FuseP.fusedArrM X [xa]).indices
      (freeAxes (FuseP.fusedArrM X [xa]).ndim [bondPos X xa])) Ls = some shpL := by
    rw [one_ndim oAX]
    show Arr.blockShape? (permuted (FuseP.newIdxM X [xa]) _) Ls = _
    rw [show bondPos X xa = (FuseP.giM X [xa]).position from rfl, one_free_indices oAX, xI, hXn]; exact hshpL
  have hRf : Arr.blockShape? (permuted (FuseP.fusedArrM Y [xb]).indices
      (freeAxes (FuseP.fusedArrM Y [xb]).ndim [bondPos Y xb])) Rs = some shpR := by
    rw [one_ndim oBX]
    show Arr.blockShape? (permuted (FuseP.newIdxM Y [xb]) _) Rs = _
    rw [show bondPos Y xb = (FuseP.giM Y [xb]).position from rfl, one_free_indices oBX, yI, hYn]; exact hshpR
  have hboxF : inBox (Arr.blockShapeD (without (FuseP.fusedArrM X [xa]).indices [bondPos X xa]
      ++ without (FuseP.fusedArrM Y [xb]).indices [bondPos Y xb]) (Ls ++ Rs)) (oL ++ oR) = true := by
    have eFA : (FuseP.fusedArrM X [xa]).indices.length = (FuseP.fusedArrM X [xa]).ndim := rfl
    have eFB : (FuseP.fusedArrM Y [xb]).indices.length = (FuseP.fusedArrM Y [xb]).ndim := rfl
    rw [without_eq_permuted_freeAxes, without_eq_permuted_freeAxes, Arr.blockShapeD, eFA, eFB,
      blockShape?_append hLf hRf]
    simp only [Option.getD_some]
    rw [inBox_append (inBox_length hboxL), hboxL, hboxR]; rfl
  have hboxXY : inBox (Arr.blockShapeD (without X.indices xa ++ without Y.indices xb) (Ls ++ Rs)) (oL ++ oR) = true := by
    have eX : X.indices.length = A.ndim := hXn
    have eY : Y.indices.length = B.ndim := hYn
    rw [without_eq_permuted_freeAxes, without_eq_permuted_freeAxes, Arr.blockShapeD, eX, eY, xI, yI,
      blockShape?_append hshpL hshpR]
    simp only [Option.getD_some]
    rw [inBox_append (inBox_length hboxL), hboxL, hboxR]; rfl
  have etakeF : (oL ++ oR).take (freeAxes (FuseP.fusedArrM X [xa]).ndim [bondPos X xa]).length = oL := by
    rw [hFreeA, ← hoLlen]; simp
  have edropF : (oL ++ oR).drop (freeAxes (FuseP.fusedArrM X [xa]).ndim [bondPos X xa]).length = oR := by
    rw [hFreeA, ← hoLlen]; simp
  have etake : (oL ++ oR).take (freeAxes X.ndim xa).length = oL := by rw [hXn, ← hoLlen]; simp
  have edrop : (oL ++ oR).drop (freeAxes X.ndim xa).length = oR := by rw [hXn, ← hoLlen]; simp
  -- the constant sign of the fused pair
  obtain ⟨σ, hσ⟩ : ∃ σ : Int, σ = bondSign A.sym (A.indices.getD (xa.headD 0) default).dual
      (FuseP.giM A [xa]).position (FuseP.giM B [xb]).position Ls Rs
      ((if A.parity then 1 else 0) + oddIn A.sym Ls) := ⟨_, rfl⟩
  have hσpm : σ = 1 ∨ σ = -1 := by rw [hσ]; exact bondSign_pm _ _ _ _ _ _ _
  have hdualF : ((FuseP.fusedArrM X [xa]).indices.getD (bondPos X xa) default).dual
      = (A.indices.getD (xa.headD 0) default).dual := by
    show (FuseP.ixM X [xa] 0).dual = _
    rw [one_fused_dual oAX, xI]
  have hparF : (FuseP.fusedArrM X [xa]).parity = A.parity := by
    show X.sym.parity X.charge = A.sym.parity A.charge
    rw [xS, xCh]
  have hsF : ∀ q ∈ storedPairs (FuseP.fusedArrM X [xa]) (FuseP.fusedArrM Y [xb])
      (freeAxes (FuseP.fusedArrM X [xa]).ndim [bondPos X xa]) [bondPos X xa] [bondPos Y xb]
      (freeAxes (FuseP.fusedArrM Y [xb]).ndim [bondPos Y xb]) (Ls ++ Rs),
      gradedSign (FuseP.fusedArrM X [xa]) (FuseP.fusedArrM Y [xb]) [bondPos X xa] [bondPos Y xb] q.1 q.2 = σ := by
    rintro ⟨sa', sb'⟩ hq
    obtain ⟨hA1, hB1, hK, hs⟩ := mem_storedPairs.mp hq
    have hla := Arr.sector_length (Arr.shapesOk_of_validB hvAF) hA1
    have hlb := Arr.sector_length (Arr.shapesOk_of_validB hvBF) hB1
    have hr1A : ∀ x ∈ freeAxes (FuseP.fusedArrM X [xa]).ndim [bondPos X xa], x < sa'.length := by
      intro x hx; rw [hla]; exact mem_freeAxes_lt x hx
    have hl1 : (permuted sa' (freeAxes (FuseP.fusedArrM X [xa]).ndim [bondPos X xa])).length = Ls.length := by
      rw [permuted_length _ _ hr1A, hFreeA, hLlen]
    obtain ⟨hsL, hsR⟩ := List.append_inj hs hl1
    have hn1 : ([bondPos X xa] : List Nat).Nodup := by simp
    have hlt1 : ∀ i ∈ ([bondPos X xa] : List Nat), i < (FuseP.fusedArrM X [xa]).ndim := by
      intro i hi
      simp only [List.mem_cons, List.not_mem_nil, or_false] at hi
      rw [hi, one_ndim oAX]; exact one_pos_lt_ndimM oAX
    have hps := parity_split (FuseP.fusedArrM X [xa]) [bondPos X xa] hn1 hlt1 sa' hla
      (Lazy.SecValid.of_valid hvAF sa' hA1)
    have eS : (FuseP.fusedArrM X [xa]).sym = A.sym := xS
    rw [hsL, hparF, eS] at hps
    have hm := parity_m _ _ _ hps
    have key := gradedSign_fusedpair (FuseP.fusedArrM X [xa]) (FuseP.fusedArrM Y [xb])
      (FuseP.giM A [xa]).position (FuseP.giM A [xa]).axesAfter.length
      (FuseP.giM B [xb]).position (FuseP.giM B [xb]).axesAfter.length nFA nFB hsymF sa' sb' hla hlb
      (by rw [← hbA, ← hbB]; exact hK) ((if A.parity then 1 else 0) + oddIn A.sym Ls)
      (by rw [← hbA, eS]; exact hm)
    have hdualF' := hdualF
    rw [hbA] at hsL hdualF'
    rw [hbB] at hsR
    show gradedSign _ _ [bondPos X xa] [bondPos Y xb] sa' sb' = σ
    rw [hbA, hbB, key, hsL, hsR, hdualF', eS, hσ]
  -- step 1: pull the constant sign out, the rest is the abelian contraction of the fused operands
  have step1 : gradedContract (FuseP.fusedArrM X [xa]) (FuseP.fusedArrM Y [xb]) [bondPos X xa] [bondPos Y xb]
      (Ls ++ Rs) oL oR
      = sgnI σ ((tensordotBlockwise (FuseP.fusedArrM X [xa]) (FuseP.fusedArrM Y [xb])
          (freeAxes (FuseP.fusedArrM X [xa]).ndim [bondPos X xa]) [bondPos X xa] [bondPos Y xb]
          (freeAxes (FuseP.fusedArrM Y [xb]).ndim [bondPos Y xb])).elem (Ls ++ Rs) (oL ++ oR)) := by
    rw [tensordotBlockwise_elem_pairs _ _ _ _ hpAF hpBF (Arr.allDistinct_of_validB hvAF)
      (Arr.allDistinct_of_validB hvBF) (Arr.shapesOk_of_validB hvAF) (Arr.shapesOk_of_validB hvBF) _ _ hboxF,
      etakeF, edropF, ← sgnI_sum]
    unfold gradedContract
    apply sum_map_congr
    intro q hq
    rw [hsF q hq]
  -- step 2: the abelian theorem
  have step2 : (tensordotBlockwise (FuseP.fusedArrM X [xa]) (FuseP.fusedArrM Y [xb])
          (freeAxes (FuseP.fusedArrM X [xa]).ndim [bondPos X xa]) [bondPos X xa] [bondPos Y xb]
          (freeAxes (FuseP.fusedArrM Y [xb]).ndim [bondPos Y xb])).elem (Ls ++ Rs) (oL ++ oR)
      = (tensordotBlockwise X Y (freeAxes X.ndim xa) xa xb (freeAxes Y.ndim xb)).elem (Ls ++ Rs) (oL ++ oR) :=
    bond_fuse_core hz1 hz2 H0 hne (A := ab X) (B := ab Y)
      (show Arr.blockShape? (permuted (ab X).indices (freeAxes (ab X).ndim xa)) Ls = some shpL by
        show Arr.blockShape? (permuted X.indices (freeAxes X.ndim xa)) Ls = some shpL
        rw [xI, hXn]; exact hshpL) hboxL
      (show Arr.blockShape? (permuted (ab Y).indices (freeAxes (ab Y).ndim xb)) Rs = some shpR by
        show Arr.blockShape? (permuted Y.indices (freeAxes Y.ndim xb)) Rs = some shpR
        rw [yI, hYn]; exact hshpR) hboxR
  -- step 3: the contraction of the twisted operands as a pair sum over `A`, `B`
  have step3 : (tensordotBlockwise X Y (freeAxes X.ndim xa) xa xb (freeAxes Y.ndim xb)).elem (Ls ++ Rs) (oL ++ oR)
      = ((storedPairs A B (freeAxes A.ndim xa) xa xb (freeAxes B.ndim xb) (Ls ++ Rs)).map (fun p =>
          sgnI (FuseP.fuseSignT A [xa] p.1 * FuseP.fuseSignT B [xb] p.2)
            (contractPair A B xa xb oL oR p))).sum := by
    rw [tensordotBlockwise_elem_pairs X Y xa xb xPh yPh (Arr.allDistinct_of_validB xV)
      (Arr.allDistinct_of_validB yV) (Arr.shapesOk_of_validB xV) (Arr.shapesOk_of_validB yV) _ _ hboxXY,
      etake, edrop]
    have hsp : storedPairs X Y (freeAxes X.ndim xa) xa xb (freeAxes Y.ndim xb) (Ls ++ Rs)
        = storedPairs A B (freeAxes A.ndim xa) xa xb (freeAxes B.ndim xb) (Ls ++ Rs) := by
      unfold storedPairs; rw [xSec, ySec, hXn, hYn]
    rw [hsp]
    apply sum_map_congr
    intro p _
    exact contractPair_twist2 X Y A B xa xb _ _ (FuseP.fuseSignT_pm A [xa]) (FuseP.fuseSignT_pm B [xb])
      xI yI xE yE oL oR p
  rw [step1, step2, step3, ← sgnI_sum]
  unfold gradedContract
  apply sum_map_congr
  rintro ⟨sa, sb⟩ hp
  obtain ⟨hA1, hB1, hK, hs⟩ := mem_storedPairs.mp hp
  have hla := Arr.sector_length (Arr.shapesOk_of_validB W.va) hA1
  have hlb := Arr.sector_length (Arr.shapesOk_of_validB W.vb) hB1
  have hrA : ∀ x ∈ freeAxes A.ndim xa, x < sa.length := by
    intro x hx; rw [hla]; exact mem_freeAxes_lt x hx
  have hl1 : (permuted sa (freeAxes A.ndim xa)).length = Ls.length := by
    rw [permuted_length _ _ hrA, hLlen]
  obtain ⟨hsL, hsR⟩ := List.append_inj hs hl1
  have hps := parity_split A xa W.nA W.ltA sa hla (Lazy.SecValid.of_valid W.va sa hA1)
  rw [hsL] at hps
  have hm := parity_m _ _ _ hps
  have hid := fuse_signs_compatible A B h.adjA h.adjB W.sym hlen h.dual sa sb hla hlb hK
  rw [hsL, hsR, bondSign_congr A.sym _ _ _ Ls Rs (show oddContracted A xa sa % 2 = _ from hm), ← hσ] at hid
  simp only
  rw [hid, GradedP.sgnI_comp hσpm (Lazy.mul_pm (FuseP.fuseSignT_pm _ _ _) (FuseP.fuseSignT_pm _ _ _)),
    Int.mul_assoc]

end TdotP
end SymmModel
