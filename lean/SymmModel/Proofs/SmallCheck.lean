/-
  SymmModel.Proofs.SmallCheck — helper lemmas for Props/C01d.lean: symmetry of `BlockIndex.matches`
  (Model/Check.lean `RIndex.matchesE`) with sub-index information, under the recursive dict invariant
  (distinct keys in every chargemap, extents table and extent), and Python's negative axes in `check_with`.
  Nothing here changes a model definition.  Namespace `SymmModel.SmallCheck`.
-/
import SymmModel.Proofs.CheckLemmas
import SymmModel.Proofs.TdotLemmas
import Mathlib.Data.List.Perm.Subperm

namespace SymmModel.SmallCheck
open SymmModel Check ValidP CheckP

/-! ## dicts as association lists with distinct keys -/

section dict
variable {κ β : Type} [BEq κ] [LawfulBEq κ]

theorem ddc_iff_gen (ne : β → β → Bool) {da db : List (κ × β)} (hn : (da.map (·.1)).Nodup) :
    dictsDontConflict ne da db = true
      ↔ ∀ k va vb, alookup da k = some va → alookup db k = some vb → ne va vb = false := by
  unfold dictsDontConflict
  rw [List.all_eq_true]
  constructor
  · intro h k va vb ha hb
    have := h (k, va) (alookup_some_mem ha)
    simp only [hb] at this
    simpa using this
  · intro h p hp
    have ha : alookup da p.1 = some p.2 := alookup_of_mem_nodup hn hp
    cases hb : alookup db p.1 with
    | none => rfl
    | some vb => simp [h p.1 p.2 vb ha hb]

/-- `dicts_dont_conflict` is symmetric on dicts whenever the value comparison is symmetric on the
    values that are actually compared -/
theorem ddc_symm_gen (ne : β → β → Bool) {da db : List (κ × β)}
    (ha : (da.map (·.1)).Nodup) (hb : (db.map (·.1)).Nodup)
    (hne : ∀ k va vb, alookup da k = some va → alookup db k = some vb → ne va vb = ne vb va) :
    dictsDontConflict ne da db = dictsDontConflict ne db da := by
  rw [Bool.eq_iff_iff, ddc_iff_gen ne ha, ddc_iff_gen ne hb]
  constructor
  · intro h k va vb h1 h2; rw [← hne k vb va h2 h1]; exact h k vb va h2 h1
  · intro h k va vb h1 h2; rw [hne k va vb h1 h2]; exact h k vb va h2 h1

variable [BEq β] [LawfulBEq β]

/-- the pigeonhole step: equal lengths, distinct keys, every entry of `da` found in `db` ⇒ every
    entry of `db` found in `da` -/
theorem dictEq_imp {da db : List (κ × β)} (ha : (da.map (·.1)).Nodup)
    (h : dictEq da db = true) : dictEq db da = true := by
  unfold dictEq at h ⊢
  simp only [Bool.and_eq_true, beq_iff_eq, List.all_eq_true] at h ⊢
  obtain ⟨hl, hall⟩ := h
  have hsub : da ⊆ db := fun p hp => alookup_some_mem (hall p hp)
  have hnd : da.Nodup := List.Nodup.of_map _ ha
  have hperm : da.Perm db := (hnd.subperm hsub).perm_of_length_le (by omega)
  refine ⟨hl.symm, fun p hp => ?_⟩
  exact alookup_of_mem_nodup ha (hperm.symm.subset hp)

/-- `da == db` (dict equality) is symmetric on dicts -/
theorem dictEq_symm {da db : List (κ × β)} (ha : (da.map (·.1)).Nodup) (hb : (db.map (·.1)).Nodup) :
    dictEq da db = dictEq db da := by
  rw [Bool.eq_iff_iff]
  exact ⟨dictEq_imp ha, dictEq_imp hb⟩

end dict

/-! ## the recursive dict invariant of a raw index -/

mutual
  /-- every chargemap, every extents table and every extent is a dict: distinct keys, recursively
      through the sub-indices -/
  def dictInvB : RIndex → Bool
    | .mk cm _ none => allDistinct (cm.map (·.1))
    | .mk cm _ (some (subs, exts)) =>
      allDistinct (cm.map (·.1)) && dictInvListB subs && allDistinct (exts.map (·.1))
      && exts.all (fun e => allDistinct (e.2.map (·.1)))
  def dictInvListB : List RIndex → Bool
    | [] => true
    | i :: is => dictInvB i && dictInvListB is
end

theorem dictInvB_cm (cm : List (Charge × Int)) (d : Bool) (s : Option (List RIndex × RExtents))
    (h : dictInvB (.mk cm d s) = true) : (cm.map (·.1)).Nodup := by
  cases s with
  | none => rw [dictInvB] at h; exact (allDistinct_iff _).mp h
  | some se =>
    obtain ⟨subs, exts⟩ := se
    rw [dictInvB] at h
    simp only [Bool.and_eq_true] at h
    exact (allDistinct_iff _).mp h.1.1.1

theorem dictInvB_some {cm : List (Charge × Int)} {d : Bool} {subs : List RIndex} {exts : RExtents}
    (h : dictInvB (.mk cm d (some (subs, exts))) = true) :
    dictInvListB subs = true ∧ (exts.map (·.1)).Nodup
      ∧ ∀ e ∈ exts, (e.2.map (·.1)).Nodup := by
  rw [dictInvB] at h
  simp only [Bool.and_eq_true, List.all_eq_true] at h
  exact ⟨h.1.1.2, (allDistinct_iff _).mp h.1.2, fun e he => (allDistinct_iff _).mp (h.2 e he)⟩

theorem dictInvListB_iff (l : List RIndex) : dictInvListB l = true ↔ ∀ i ∈ l, dictInvB i = true := by
  induction l with
  | nil => simp [dictInvListB]
  | cons i is ih => simp [dictInvListB, ih]

/-! ## `matches` unfolded -/

abbrev neInt : Int → Int → Bool := fun x y => x != y
abbrev neExt : RExtent → RExtent → Bool := fun x y => !dictEq x y

theorem matchesE_some (cm1 cm2 : List (Charge × Int)) (d1 d2 : Bool) (l1 l2 : List RIndex)
    (e1 e2 : RExtents) :
    RIndex.matchesE (.mk cm1 d1 (some (l1, e1))) (.mk cm2 d2 (some (l2, e2)))
      = if !dictsDontConflict neInt cm1 cm2 then .ok false
        else if !(d1 != d2) then .ok false
        else match RIndex.matchesAll l1 l2 with
          | .ok true => .ok (dictsDontConflict neExt e1 e2)
          | r => r := by
  rw [RIndex.matchesE]
  rfl

theorem matchesE_none_some (cm1 cm2 : List (Charge × Int)) (d1 d2 : Bool) (s2 : List RIndex × RExtents) :
    RIndex.matchesE (.mk cm1 d1 none) (.mk cm2 d2 (some s2))
      = if !dictsDontConflict neInt cm1 cm2 then .ok false
        else if !(d1 != d2) then .ok false else .error Err.attr := by
  rw [RIndex.matchesE]

theorem matchesE_some_none (cm1 cm2 : List (Charge × Int)) (d1 d2 : Bool) (s1 : List RIndex × RExtents) :
    RIndex.matchesE (.mk cm1 d1 (some s1)) (.mk cm2 d2 none)
      = if !dictsDontConflict neInt cm1 cm2 then .ok false
        else if !(d1 != d2) then .ok false else .error Err.attr := by
  rw [RIndex.matchesE]

theorem matchesE_none_none (cm1 cm2 : List (Charge × Int)) (d1 d2 : Bool) :
    RIndex.matchesE (.mk cm1 d1 none) (.mk cm2 d2 none)
      = if !dictsDontConflict neInt cm1 cm2 then .ok false
        else if !(d1 != d2) then .ok false else .ok true := by
  rw [RIndex.matchesE]

theorem bne_comm_bool (d1 d2 : Bool) : (d1 != d2) = (d2 != d1) := by cases d1 <;> cases d2 <;> rfl

theorem ddc_cm_symm {cm1 cm2 : List (Charge × Int)} (h1 : (cm1.map (·.1)).Nodup)
    (h2 : (cm2.map (·.1)).Nodup) :
    dictsDontConflict neInt cm1 cm2 = dictsDontConflict neInt cm2 cm1 :=
  ddc_symm_gen neInt h1 h2 (fun _ va vb _ _ => by
    show (!(va == vb)) = (!(vb == va))
    rw [BEq.comm])

theorem ddc_ext_symm {e1 e2 : RExtents} (h1 : (e1.map (·.1)).Nodup) (h2 : (e2.map (·.1)).Nodup)
    (k1 : ∀ e ∈ e1, (e.2.map (·.1)).Nodup) (k2 : ∀ e ∈ e2, (e.2.map (·.1)).Nodup) :
    dictsDontConflict neExt e1 e2 = dictsDontConflict neExt e2 e1 :=
  ddc_symm_gen neExt h1 h2 (fun k va vb ha hb => by
    show (!dictEq va vb) = (!dictEq vb va)
    rw [dictEq_symm (k1 _ (alookup_some_mem ha)) (k2 _ (alookup_some_mem hb))])

/-! ## symmetry of `matches`, sub-index information included -/

mutual
  theorem matchesE_symm : ∀ (a b : RIndex), dictInvB a = true → dictInvB b = true →
      RIndex.matchesE a b = RIndex.matchesE b a
    | .mk cm1 d1 none, .mk cm2 d2 none, ha, hb => by
      rw [matchesE_none_none, matchesE_none_none,
        ddc_cm_symm (dictInvB_cm _ _ _ ha) (dictInvB_cm _ _ _ hb), bne_comm_bool d1 d2]
    | .mk cm1 d1 none, .mk cm2 d2 (some s2), ha, hb => by
      rw [matchesE_none_some, matchesE_some_none,
        ddc_cm_symm (dictInvB_cm _ _ _ ha) (dictInvB_cm _ _ _ hb), bne_comm_bool d1 d2]
    | .mk cm1 d1 (some s1), .mk cm2 d2 none, ha, hb => by
      rw [matchesE_none_some, matchesE_some_none,
        ddc_cm_symm (dictInvB_cm _ _ _ ha) (dictInvB_cm _ _ _ hb), bne_comm_bool d1 d2]
    | .mk cm1 d1 (some (l1, e1)), .mk cm2 d2 (some (l2, e2)), ha, hb => by
      obtain ⟨a1, a2, a3⟩ := dictInvB_some ha
      obtain ⟨b1, b2, b3⟩ := dictInvB_some hb
      rw [matchesE_some, matchesE_some,
        ddc_cm_symm (dictInvB_cm _ _ _ ha) (dictInvB_cm _ _ _ hb), bne_comm_bool d1 d2,
        matchesAll_symm l1 l2 a1 b1, ddc_ext_symm a2 b2 a3 b3]
  theorem matchesAll_symm : ∀ (l1 l2 : List RIndex), dictInvListB l1 = true → dictInvListB l2 = true →
      RIndex.matchesAll l1 l2 = RIndex.matchesAll l2 l1
    | [], [], _, _ => rfl
    | [], _ :: _, _, _ => by rw [RIndex.matchesAll, RIndex.matchesAll]
    | _ :: _, [], _, _ => by rw [RIndex.matchesAll, RIndex.matchesAll]
    | i :: is, j :: js, h1, h2 => by
      rw [dictInvListB, Bool.and_eq_true] at h1 h2
      rw [RIndex.matchesAll, RIndex.matchesAll, matchesE_symm i j h1.1 h2.1,
        matchesAll_symm is js h1.2 h2.2]
end

/-! ## the invariant holds for the raw image of a well-formed index -/

theorem extentsToRaw_keys (exts : Extents) : (extentsToRaw exts).map (·.1) = exts.map (·.1) := by
  simp [extentsToRaw, List.map_map, Function.comp_def]

theorem extent_nodup_of_wf {sym : Sym} {cm : List (Charge × Nat)} {d : Bool} {subs : List Index}
    {exts : Extents} (h3 : (exts.map (·.1)).Nodup)
    (h4 : ∀ p ∈ cm, ∃ ext, alookup exts p.1 = some ext ∧ extentOk sym d subs p.1 p.2 ext = true)
    (h5 : ∀ e ∈ exts, (alookup cm e.1).isSome = true) :
    ∀ e ∈ exts, (e.2.map (·.1)).Nodup := by
  intro e he
  obtain ⟨sz, hsz⟩ := Option.isSome_iff_exists.mp (h5 e he)
  obtain ⟨ext, hl, hok⟩ := h4 (e.1, sz) (alookup_some_mem hsz)
  have : alookup exts e.1 = some e.2 := alookup_of_mem_nodup h3 he
  simp only at hl
  rw [this] at hl
  cases hl
  unfold extentOk at hok
  simp only [Bool.and_eq_true] at hok
  exact (allDistinct_iff _).mp hok.1.2

mutual
  /-- a well-formed index (`Index.wfB`, a clause of `Arr.validB`) satisfies the dict invariant -/
  theorem dictInv_of_wfB (sym : Sym) : ∀ ix : Index, Index.wfB sym ix = true →
      dictInvB (indexToRaw ix) = true
    | .mk cm d none, h => by
      rw [indexToRaw, dictInvB, cmToRaw_keys]
      exact (allDistinct_iff _).mpr (sortedCharges_nodup ((wfB_none sym cm d).mp h).1)
    | .mk cm d (some (subs, exts)), h => by
      obtain ⟨h1, h2, h3, h4, h5⟩ := (wfB_some sym cm d subs exts).mp h
      rw [indexToRaw, dictInvB]
      simp only [Bool.and_eq_true, List.all_eq_true]
      refine ⟨⟨⟨?_, dictInvList_of_wfListB sym subs h2⟩, ?_⟩, ?_⟩
      · rw [cmToRaw_keys]; exact (allDistinct_iff _).mpr (sortedCharges_nodup h1.1)
      · rw [extentsToRaw_keys]; exact (allDistinct_iff _).mpr h3
      · intro e he
        unfold extentsToRaw at he
        obtain ⟨e0, he0, rfl⟩ := List.mem_map.mp he
        have := extent_nodup_of_wf h3 h4 h5 e0 he0
        rw [allDistinct_iff]
        simpa [List.map_map, Function.comp_def] using this
  theorem dictInvList_of_wfListB (sym : Sym) : ∀ l : List Index, Index.wfListB sym l = true →
      dictInvListB (indexListToRaw l) = true
    | [], _ => by rw [indexListToRaw, dictInvListB]
    | i :: is, h => by
      rw [Index.wfListB, Bool.and_eq_true] at h
      rw [indexListToRaw, dictInvListB, dictInv_of_wfB sym i h.1, dictInvList_of_wfListB sym is h.2]
      rfl
end

/-! ## Python's negative indices -/

theorem normAxis_nat (n k : Nat) (h : k < n) : TdotP.normAxis n (k : Int) = k := by
  unfold TdotP.normAxis
  rw [Int.emod_eq_of_lt (by omega) (by omega)]
  simp

/-- `seq[x]` for `-len ≤ x < len` is the element at position `x % len` (what `tensordot` computes from a
    possibly negative axis) -/
theorem pyIdx_norm {α : Type} (l : List α) (x : Int) (h1 : -(l.length : Int) ≤ x)
    (h2 : x < (l.length : Int)) : pyIdx l x = l[TdotP.normAxis l.length x]? := by
  unfold pyIdx TdotP.normAxis
  by_cases hx : 0 ≤ x
  · rw [if_pos hx, Int.emod_eq_of_lt hx h2]
  · rw [if_neg hx, if_pos (by omega)]
    have : x % (l.length : Int) = (l.length : Int) + x := by
      rw [← Int.add_emod_right, Int.emod_eq_of_lt (by omega) (by omega)]
      omega
    rw [this]

end SymmModel.SmallCheck
