/-
  SymmModel.Proofs.TdotChain1 — zero padding (`Pad`) through a contraction under the weak guard:
  reflexivity / transitivity of `Pad`, the graded contraction of two padded operands, a fused /
  auto call versus the blockwise call on the same operands (weak guard), and the blockwise call
  on padded versus plain operands.  Namespace `SymmModel.TdotP`.
-/
import SymmModel.Proofs.TdotFuseC1
import SymmModel.Proofs.Assoc4Swap

namespace SymmModel
namespace TdotP
open GradedP RoutesP AssocP
open Lazy (sgnI)
variable {R : Type}

theorem Pad.refl [Zero R] [Neg R] {P : Arr R} (hv : P.validB = true) : Pad P P :=
  ⟨rfl, rfl, fun _ => rfl, allDistinct_iff_nodup.mp (Arr.allDistinct_of_validB hv),
    allDistinct_iff_nodup.mp (Arr.allDistinct_of_validB hv), fun _ h => h,
    Arr.shapesOk_of_validB hv, Arr.shapesOk_of_validB hv, fun _ _ => rfl, fun _ _ _ _ => rfl⟩

theorem Pad.trans [Zero R] [Neg R] {P Q S : Arr R} (h1 : Pad P Q) (h2 : Pad Q S) : Pad P S := by
  refine ⟨h1.sym.trans h2.sym, h1.ndim.trans h2.ndim, fun i => (h1.dual i).trans (h2.dual i), h1.ndP, h2.ndQ,
    fun s hs => h1.sub s (h2.sub s hs), h1.shapeP, h2.shapeQ,
    fun s hs => (h1.shape s (h2.sub s hs)).trans (h2.shape s hs), ?_⟩
  intro s hs o ho
  rw [h1.elem s hs o ho]
  by_cases hq : s ∈ Q.sectors
  · exact h2.elem s hq o (by rw [← h1.shape s hq]; exact ho)
  · rw [Arr.elem_of_not_mem hq, Arr.elem_of_not_mem (fun h => hq (h2.sub s h))]

section both
variable [AddCommMonoid R] [Mul R] [Neg R] [SignRing R]

/-- **zero padding of BOTH operands is invisible to the graded contraction** -/
theorem gradedContract_congr_pad (hz1 : ∀ x : R, 0 * x = 0) (hz2 : ∀ x : R, x * 0 = 0)
    {P Q P' Q' : Arr R} (hp : Pad P Q) (hp' : Pad P' Q') (x y : List Nat)
    (hx : ∀ i ∈ x, i < P.ndim) (hy : ∀ i ∈ y, i < P'.ndim)
    (hmatch : ∀ sa ∈ P.sectors, ∀ sb ∈ P'.sectors, permuted sb y = permuted sa x →
      permuted (Arr.blockShapeD P'.indices sb) y = permuted (Arr.blockShapeD P.indices sa) x)
    (s : Sector) (oL oR : List Nat) (hoL : oL.length = (freeAxes P.ndim x).length)
    (ho : inBox (Arr.blockShapeD (without P.indices x ++ without P'.indices y) s) (oL ++ oR) = true) :
    gradedContract P P' x y s oL oR = gradedContract Q Q' x y s oL oR := by
  have hleftlt : ∀ z ∈ freeAxes P.ndim x, z < P.ndim := fun z hz => (mem_freeAxes.mp hz).1
  have hrightlt : ∀ z ∈ freeAxes P'.ndim y, z < P'.ndim := fun z hz => (mem_freeAxes.mp hz).1
  have hel : ∀ sa sb, (sa, sb) ∈ storedPairs P P' (freeAxes P.ndim x) x y (freeAxes P'.ndim y) s →
      ∀ k ∈ allIdx (permuted (Arr.blockShapeD P.indices sa) x),
        P.elem sa (mergeIdx 0 P.ndim x (freeAxes P.ndim x) k oL)
          = Q.elem sa (mergeIdx 0 P.ndim x (freeAxes P.ndim x) k oL)
        ∧ P'.elem sb (mergeIdx 0 P'.ndim y (freeAxes P'.ndim y) k oR)
          = Q'.elem sb (mergeIdx 0 P'.ndim y (freeAxes P'.ndim y) k oR) := by
    intro sa sb hmem k hk
    obtain ⟨hA, hB, hal, hs⟩ := mem_storedPairs.mp hmem
    obtain ⟨shpA, hA1, hA2, hA3, hA4⟩ := shape_of_mem hp.shapeP hA
    obtain ⟨shpB, hB1, hB2, hB3, hB4⟩ := shape_of_mem hp'.shapeP hB
    have hfree : inBox (permuted shpA (freeAxes P.ndim x)) oL = true
        ∧ inBox (permuted shpB (freeAxes P'.ndim y)) oR = true := by
      have e : Arr.blockShapeD (without P.indices x ++ without P'.indices y) s
          = permuted shpA (freeAxes P.ndim x) ++ permuted shpB (freeAxes P'.ndim y) := by
        have ea : P.indices.length = P.ndim := rfl
        have eb : P'.indices.length = P'.ndim := rfl
        rw [← hs, without_eq_permuted_freeAxes, without_eq_permuted_freeAxes, ea, eb, Arr.blockShapeD,
          blockShape?_append (blockShape?_permuted hA1 _ hleftlt) (blockShape?_permuted hB1 _ hrightlt)]
        rfl
      rw [e, inBox_append (by
        rw [hoL, permuted_length _ _ (by intro z hz; rw [hA3]; exact hleftlt z hz)])] at ho
      simpa using ho
    have hm := hmatch sa hA sb hB hal
    rw [hA2, hB2] at hm
    rw [hA2] at hk
    have hkboxA : inBox (permuted shpA x) k = true := mem_allIdx_iff.mp hk
    have hkboxB : inBox (permuted shpB y) k = true := by rw [hm]; exact hkboxA
    constructor
    · apply hp.elem sa hA
      rw [hA2]
      have := inBox_mergeIdx (shape := shpA) (axes := x) (k := k) (f := oL)
        (by intro z hz; rw [hA3]; exact hx z hz) hkboxA (by rw [hA3]; exact hfree.1)
      rwa [hA3] at this
    · apply hp'.elem sb hB
      rw [hB2]
      have := inBox_mergeIdx (shape := shpB) (axes := y) (k := k) (f := oR)
        (by intro z hz; rw [hB3]; exact hy z hz) hkboxB (by rw [hB3]; exact hfree.2)
      rwa [hB3] at this
  unfold gradedContract
  rw [← sum_filter_of_zero (fun p => Q.sectors.contains p.1 && Q'.sectors.contains p.2) _ _ (by
    rintro ⟨sa, sb⟩ hmem hnot
    simp only [Bool.and_eq_false_iff, List.contains_eq_mem, decide_eq_false_iff_not] at hnot
    have hz : contractPair P P' x y oL oR (sa, sb) = 0 := by
      unfold contractPair
      apply List.sum_eq_zero
      intro t ht
      obtain ⟨k, hk, rfl⟩ := List.mem_map.mp ht
      unfold contractTerm
      obtain ⟨e1, e2⟩ := hel sa sb hmem k hk
      rcases hnot with hn | hn
      · rw [e1, Arr.elem_of_not_mem hn, hz1]
      · rw [e2, Arr.elem_of_not_mem hn, hz2]
    rw [hz, Lazy.sgnI_zero])]
  have hgs : ∀ sa sb, gradedSign P P' x y sa sb = gradedSign Q Q' x y sa sb := by
    intro sa sb
    rw [gradedSign_congr_left hp, gradedSign_congr_right hp']
  have hterm : ∀ p ∈ (storedPairs P P' (freeAxes P.ndim x) x y (freeAxes P'.ndim y) s).filter
        (fun p => Q.sectors.contains p.1 && Q'.sectors.contains p.2),
      sgnI (gradedSign P P' x y p.1 p.2) (contractPair P P' x y oL oR p)
        = sgnI (gradedSign Q Q' x y p.1 p.2) (contractPair Q Q' x y oL oR p) := by
    rintro ⟨sa, sb⟩ hmem
    obtain ⟨hmem', hq⟩ := List.mem_filter.mp hmem
    simp only [Bool.and_eq_true, List.contains_eq_mem, decide_eq_true_eq] at hq
    rw [hgs]
    congr 1
    unfold contractPair
    simp only
    rw [← hp.shape sa hq.1]
    congr 1
    apply List.map_congr_left
    intro k hk
    unfold contractTerm
    obtain ⟨e1, e2⟩ := hel sa sb hmem' k hk
    rw [← hp.ndim, ← hp'.ndim, e1, e2]
  rw [List.map_congr_left hterm, ← hp.ndim, ← hp'.ndim]
  apply List.Perm.sum_eq
  apply List.Perm.map
  rw [List.perm_ext_iff_of_nodup
    ((storedPairs_nodup _ x y _ _ hp.ndP hp'.ndP).filter _) (storedPairs_nodup _ x y _ _ hp.ndQ hp'.ndQ)]
  rintro ⟨sa, sb⟩
  rw [List.mem_filter, mem_storedPairs, mem_storedPairs]
  simp only [Bool.and_eq_true, List.contains_eq_mem, decide_eq_true_eq]
  constructor
  · rintro ⟨⟨_, _, h3, h4⟩, hq1, hq2⟩; exact ⟨hq1, hq2, h3, h4⟩
  · rintro ⟨h1, h2, h3, h4⟩; exact ⟨⟨hp.sub _ h1, hp'.sub _ h2, h3, h4⟩, h1, h2⟩

end both

/-! ### a call in fused / auto mode under the weak guard -/

/-- **a fused / auto call under the weak guard**: it comes with the blockwise call on the same
    operands; its result is a zero-padded copy of the blockwise result and can serve as an
    intermediate of a chain -/
theorem call_w [AddCommMonoid R] [Mul R] [Neg R] [SignRing R]
    (hz1 : ∀ x : R, 0 * x = 0) (hz2 : ∀ x : R, x * 0 = 0) (a b : Arr R) (xa xb : List Nat)
    (W : AdmW a b xa xb) (mode : TdotMode) (hmode : mode = .fused ∨ mode = .auto) (rb : Arr R)
    (hb : a.tensordotF b (.pair (xa.map Int.ofNat) (xb.map Int.ofNat)) .blockwise = .ok rb) :
    ∃ rm, a.tensordotF b (.pair (xa.map Int.ofNat) (xb.map Int.ofNat)) mode = .ok rm
      ∧ Pad rm rb ∧ InterW a b xa xb rm ∧ InterW a b xa xb rb
      ∧ rm.oddpos = rb.oddpos ∧ rm.charge = rb.charge := by
  obtain ⟨he, hk⟩ := tensordotF_modes_all_w hz1 hz2 a b xa xb W mode hmode
  have F := coreT_frame_w a b xa xb W
  have hva := (ValidP.validB_iff a).mp W.va
  have hvb := (ValidP.validB_iff b).mp W.vb
  have hop := Assoc3P.opposite_of_commonB W.con
  cases hmo : OddposP.mergeOddpos a.parity a.oddpos b.oddpos with
  | error e => rw [(he e hmo).2] at hb; cases hb
  | ok r =>
    obtain ⟨rm, rb', h1, h2, f1, f2, f3, f4, f5, hsec, hnd, hframe, hshape, hel⟩ := hk r hmo
    rw [hb] at h2
    obtain rfl := Except.ok.inj h2
    have hrb : rb = finish (coreT a b xa xb) r := by
      have := hb
      rw [tensordotF_eq_core_w a b xa xb W, hmo] at this
      simp only [Except.map, Except.ok.injEq] at this
      exact this.symm
    obtain ⟨k1, k2, k3, k4, k5, k6⟩ := AssocP.finish_fields (coreT a b xa xb) r
    have vm : rm.validB = true := (ValidP.validB_iff _).mpr
      (ValidP.tensordotF_valid_of_opposite mode (ValidP.tdotASpec_all mode) a b rm xa xb hva hvb
        W.fa W.fb W.sym hop W.nA W.nB W.ltA W.ltB h1)
    have vb : rb.validB = true := (ValidP.validB_iff _).mpr
      (ValidP.tensordotF_valid_of_opposite .blockwise (ValidP.tdotASpec_all .blockwise) a b rb xa xb hva hvb
        W.fa W.fb W.sym hop W.nA W.nB W.ltA W.ltB hb)
    have hdm := Arr.allDistinct_of_validB vm
    have hdb := Arr.allDistinct_of_validB vb
    have hsm := Arr.shapesOk_of_validB vm
    have hsb := Arr.shapesOk_of_validB vb
    have hidxb : rb.indices = dropUnused (without a.indices xa ++ without b.indices xb) rb.sectors := by
      rw [hrb, k4, k5, F.indices]
    have hblkm : ∀ s ∈ rm.sectors, ∃ V, alookup rm.blocks s = some V
        ∧ Arr.blockShapeD rm.indices s = V.shape
        ∧ Arr.blockShape? (without a.indices xa ++ without b.indices xb) s = some V.shape := by
      intro s hs
      obtain ⟨p, hp, rfl⟩ := List.mem_map.mp hs
      have hl : alookup rm.blocks p.1 = some p.2 := alookup_of_mem hdm hp
      refine ⟨p.2, hl, ?_, hshape _ _ hl⟩
      rw [Arr.blockShapeD, hsm p hp]; rfl
    have hblkb : ∀ s ∈ rb.sectors, ∃ V : Blk R, Arr.blockShapeD rb.indices s = V.shape
        ∧ Arr.blockShape? (without a.indices xa ++ without b.indices xb) s = some V.shape := by
      intro s hs
      obtain ⟨p, hp, rfl⟩ := List.mem_map.mp hs
      have hl : alookup rb.blocks p.1 = some p.2 := alookup_of_mem hdb hp
      refine ⟨p.2, by rw [Arr.blockShapeD, hsb p hp]; rfl, ?_⟩
      rw [hrb, finish_blocks] at hl
      exact coreFrame_block_shape F (Arr.shapesOk_of_validB W.va) (Arr.shapesOk_of_validB W.vb) _ _ hl
    refine ⟨rm, h1, ⟨f3, f5, ?_, hnd, allDistinct_iff_nodup.mp hdb, hsec, hsm, hsb, ?_, ?_⟩,
      ⟨vm, by rw [f4, hrb, k3, F.fermi]; exact W.fa, by rw [f3, hrb, k2, F.sym], hframe⟩,
      ⟨vb, by rw [hrb, k3, F.fermi]; exact W.fa, by rw [hrb, k2, F.sym],
        by rw [hidxb]; exact dropUnused_sizeLe _ _⟩,
      f1, f2⟩
    · intro i
      by_cases hi : i < rm.indices.length
      · have d1 := (forall₂_getD hframe i hi default default).1
        have hi' : i < (without a.indices xa ++ without b.indices xb).length := by
          rw [← hframe.length_eq]; exact hi
        rw [d1, hidxb, dropUnused_getD _ _ hi', dropTo_dual]
      · have hi2 : ¬ i < rb.indices.length := by rw [← f5]; exact hi
        rw [List.getD_eq_getElem?_getD, List.getD_eq_getElem?_getD,
          List.getElem?_eq_none (by omega), List.getElem?_eq_none (by omega)]
    · intro s hs
      obtain ⟨Vm, _, e1, e2⟩ := hblkm s (hsec s hs)
      obtain ⟨Vb, e3, e4⟩ := hblkb s hs
      rw [e1, e3]
      rw [e2] at e4
      exact Option.some.inj e4
    · intro s hs o ho
      obtain ⟨Vm, hl, e1, _⟩ := hblkm s hs
      rw [e1] at ho
      exact hel s Vm hl o ho

/-! ### the blockwise call on padded operands -/

theorem pad_tables_dual [Zero R] [Neg R] {P Q P' Q' : Arr R} (hp : Pad P Q) (hp' : Pad P' Q') (x y : List Nat) :
    List.Forall₂ (fun i j : Index => i.dual = j.dual)
      (without P.indices x ++ without P'.indices y) (without Q.indices x ++ without Q'.indices y) := by
  have key : ∀ (U V : Arr R), Pad U V → ∀ z : List Nat,
      List.Forall₂ (fun i j : Index => i.dual = j.dual) (without U.indices z) (without V.indices z) := by
    intro U V h z
    rw [without_eq_permuted_freeAxes, without_eq_permuted_freeAxes,
      permuted_eq_map _ _ (fun w hw => (mem_freeAxes.mp hw).1) default,
      permuted_eq_map _ _ (fun w hw => (mem_freeAxes.mp hw).1) default]
    have e : V.indices.length = U.indices.length := h.ndim.symm
    rw [e]
    generalize freeAxes U.indices.length z = F
    induction F with
    | nil => exact .nil
    | cons w ws ih => exact .cons (h.dual w) ih
  exact forall₂_append (key P Q hp x) (key P' Q' hp' y)

/-- on a key of the plain result the table frames of the padded and the plain operands give the
    same block shape -/
theorem pad_tables_shape [Zero R] [Neg R] {P Q P' Q' : Arr R} (hp : Pad P Q) (hp' : Pad P' Q') (x y : List Nat)
    {s : Sector}
    (hs : s ∈ tdKeys Q.sectors Q'.sectors (freeAxes Q.ndim x) x y (freeAxes Q'.ndim y)) :
    Arr.blockShapeD (without P.indices x ++ without P'.indices y) s
      = Arr.blockShapeD (without Q.indices x ++ without Q'.indices y) s := by
  obtain ⟨sa, hsa, sc, hsc, _, rfl⟩ := mem_tdKeys.mp hs
  obtain ⟨shpP, hP1, hP2, _, _⟩ := shape_of_mem hp.shapeP (hp.sub sa hsa)
  obtain ⟨shpQ, hQ1, hQ2, _, _⟩ := shape_of_mem hp.shapeQ hsa
  obtain ⟨shpP', hP1', hP2', _, _⟩ := shape_of_mem hp'.shapeP (hp'.sub sc hsc)
  obtain ⟨shpQ', hQ1', hQ2', _, _⟩ := shape_of_mem hp'.shapeQ hsc
  have e1 : shpP = shpQ := by rw [← hP2, ← hQ2]; exact hp.shape sa hsa
  have e2 : shpP' = shpQ' := by rw [← hP2', ← hQ2']; exact hp'.shape sc hsc
  have lt : ∀ (U : Arr R) (z : List Nat), ∀ w ∈ freeAxes U.ndim z, w < U.ndim :=
    fun U z w hw => (mem_freeAxes.mp hw).1
  have eP : P.indices.length = P.ndim := rfl
  have eQ : Q.indices.length = Q.ndim := rfl
  have eP' : P'.indices.length = P'.ndim := rfl
  have eQ' : Q'.indices.length = Q'.ndim := rfl
  rw [without_eq_permuted_freeAxes P.indices, without_eq_permuted_freeAxes P'.indices,
    without_eq_permuted_freeAxes Q.indices, without_eq_permuted_freeAxes Q'.indices, eP, eP', eQ, eQ',
    Arr.blockShapeD, Arr.blockShapeD, hp.ndim, hp'.ndim,
    blockShape?_append (blockShape?_permuted hQ1 _ (lt Q x)) (blockShape?_permuted hQ1' _ (lt Q' y))]
  have h1 := blockShape?_permuted hP1 (freeAxes Q.ndim x) (by rw [← hp.ndim]; exact lt P x)
  have h2 := blockShape?_permuted hP1' (freeAxes Q'.ndim y) (by rw [← hp'.ndim]; exact lt P' y)
  rw [blockShape?_append h1 h2, e1, e2]

/-- **the blockwise call on zero-padded operands is a zero-padded copy of the blockwise call on
    the plain operands** (weak guard on both pairs) -/
theorem pad_blockwise [AddCommMonoid R] [Mul R] [Neg R] [SignRing R]
    (hz1 : ∀ x : R, 0 * x = 0) (hz2 : ∀ x : R, x * 0 = 0) {P Q P' Q' : Arr R} {x y : List Nat}
    (hp : Pad P Q) (hp' : Pad P' Q') (Wp : AdmW P P' x y) (Wq : AdmW Q Q' x y)
    (hodd : P.oddpos = Q.oddpos) (hch : P.charge = Q.charge)
    (hodd' : P'.oddpos = Q'.oddpos) (hch' : P'.charge = Q'.charge) (zq : Arr R)
    (hq : Q.tensordotF Q' (.pair (x.map Int.ofNat) (y.map Int.ofNat)) .blockwise = .ok zq) :
    ∃ zp, P.tensordotF P' (.pair (x.map Int.ofNat) (y.map Int.ofNat)) .blockwise = .ok zp
      ∧ Pad zp zq ∧ zp.oddpos = zq.oddpos ∧ zp.charge = zq.charge := by
  have hpar : P.parity = Q.parity := by
    show Sym.parity P.sym P.charge = Sym.parity Q.sym Q.charge
    rw [hp.sym, hch]
  have Fq := coreT_frame_w Q Q' x y Wq
  have Fp := coreT_frame_w P P' x y Wp
  rw [tensordotF_eq_core_w Q Q' x y Wq, ← hpar, ← hodd, ← hodd'] at hq
  rw [tensordotF_eq_core_w P P' x y Wp]
  cases hmo : OddposP.mergeOddpos P.parity P.oddpos P'.oddpos with
  | error e => rw [hmo] at hq; cases hq
  | ok r =>
    rw [hmo] at hq
    simp only [Except.map, Except.ok.injEq] at hq
    subst hq
    obtain ⟨k1, k2, k3, k4, k5, k6⟩ := AssocP.finish_fields (coreT P P' x y) r
    obtain ⟨q1, q2, q3, q4, q5, q6⟩ := AssocP.finish_fields (coreT Q Q' x y) r
    have hsP := Arr.shapesOk_of_validB Wp.va
    have hsP' := Arr.shapesOk_of_validB Wp.vb
    have hsQ := Arr.shapesOk_of_validB Wq.va
    have hsQ' := Arr.shapesOk_of_validB Wq.vb
    have hsub : ∀ s ∈ (coreT Q Q' x y).sectors, s ∈ (coreT P P' x y).sectors := by
      intro s hs
      rw [Fq.sectors, List.mem_eraseDups] at hs
      obtain ⟨sa, hsa, sc, hsc, hal, rfl⟩ := mem_tdKeys.mp hs
      rw [Fp.sectors, List.mem_eraseDups, mem_tdKeys]
      exact ⟨sa, hp.sub sa hsa, sc, hp'.sub sc hsc, hal, by rw [hp.ndim, hp'.ndim]⟩
    have hshapeOk : ∀ (X Y T : Arr R), CoreFrame X Y x y T → X.shapesOk → Y.shapesOk → T.shapesOk := by
      intro X Y T F h1 h2 p hpm
      have hd : allDistinct T.sectors = true := by
        rw [F.sectors]; exact allDistinct_iff_nodup.mpr (nodup_eraseDups _)
      have hl : alookup T.blocks p.1 = some p.2 := alookup_of_mem hd hpm
      have := coreFrame_block_shape F h1 h2 p.1 p.2 hl
      have hmem : p.1 ∈ T.sectors := List.mem_map.mpr ⟨p, hpm, rfl⟩
      rw [F.indices, ValidP.dropUnused_blockShape _ _ _ hmem]
      exact this
    have hbsP : ∀ s ∈ (coreT P P' x y).sectors, Arr.blockShapeD (coreT P P' x y).indices s
        = Arr.blockShapeD (without P.indices x ++ without P'.indices y) s := by
      intro s hs
      rw [Fp.indices, Arr.blockShapeD, ValidP.dropUnused_blockShape _ _ _ hs]; rfl
    have hbsQ : ∀ s ∈ (coreT Q Q' x y).sectors, Arr.blockShapeD (coreT Q Q' x y).indices s
        = Arr.blockShapeD (without Q.indices x ++ without Q'.indices y) s := by
      intro s hs
      rw [Fq.indices, Arr.blockShapeD, ValidP.dropUnused_blockShape _ _ _ hs]; rfl
    have hkeyQ : ∀ s ∈ (coreT Q Q' x y).sectors,
        s ∈ tdKeys Q.sectors Q'.sectors (freeAxes Q.ndim x) x y (freeAxes Q'.ndim y) := by
      intro s hs; rw [Fq.sectors] at hs; exact List.mem_eraseDups.mp hs
    refine ⟨_, rfl, ⟨by rw [k2, q2, Fp.sym, Fq.sym, hp.sym], ?_, ?_, ?_, ?_, ?_, ?_, ?_, ?_, ?_⟩,
      by rw [k6, q6], by rw [k1, q1, Fp.charge, Fq.charge, hp.sym, hch, hch']⟩
    · -- rank
      show (finish (coreT P P' x y) r).indices.length = (finish (coreT Q Q' x y) r).indices.length
      rw [k4, q4, Fp.indices, Fq.indices, dropUnused_length, dropUnused_length,
        (pad_tables_dual hp hp' x y).length_eq]
    · -- directions
      intro i
      have hd := pad_tables_dual hp hp' x y
      rw [k4, q4, Fp.indices, Fq.indices]
      by_cases hi : i < (without P.indices x ++ without P'.indices y).length
      · have hi' : i < (without Q.indices x ++ without Q'.indices y).length := by
          rw [← hd.length_eq]; exact hi
        rw [dropUnused_getD _ _ hi, dropUnused_getD _ _ hi', dropTo_dual, dropTo_dual]
        exact forall₂_getD hd i hi default default
      · have hi' : ¬ i < (without Q.indices x ++ without Q'.indices y).length := by
          rw [← hd.length_eq]; exact hi
        rw [List.getD_eq_getElem?_getD, List.getD_eq_getElem?_getD,
          List.getElem?_eq_none (by rw [dropUnused_length]; omega),
          List.getElem?_eq_none (by rw [dropUnused_length]; omega)]
    · rw [k5, Fp.sectors]; exact nodup_eraseDups _
    · rw [q5, Fq.sectors]; exact nodup_eraseDups _
    · intro s hs; rw [q5] at hs; rw [k5]; exact hsub s hs
    · intro p hpm
      rw [finish_blocks] at hpm
      rw [k4]
      exact hshapeOk P P' _ Fp hsP hsP' p hpm
    · intro p hpm
      rw [finish_blocks] at hpm
      rw [q4]
      exact hshapeOk Q Q' _ Fq hsQ hsQ' p hpm
    · intro s hs
      rw [q5] at hs
      rw [k4, q4, hbsP s (hsub s hs), hbsQ s hs]
      exact pad_tables_shape hp hp' x y (hkeyQ s hs)
    · intro s hs o ho
      rw [k5] at hs
      rw [k4, hbsP s hs] at ho
      have hkeyP : s ∈ tdKeys P.sectors P'.sectors (freeAxes P.ndim x) x y (freeAxes P'.ndim y) := by
        rw [Fp.sectors] at hs; exact List.mem_eraseDups.mp hs
      have hlen := key_shape_length hsP hsP' hkeyP
      have hol : o.length = (freeAxes P.ndim x).length + (freeAxes P'.ndim y).length := by
        rw [inBox_length ho]; exact hlen
      have hsplit : o.take (freeAxes P.ndim x).length ++ o.drop (freeAxes P.ndim x).length = o :=
        List.take_append_drop _ _
      have htl : (o.take (freeAxes P.ndim x).length).length = (freeAxes P.ndim x).length := by
        rw [List.length_take]; omega
      have ho' := ho
      rw [← hsplit] at ho'
      rw [AssocP.finish_elem _ _ (AssocP.coreFrame_signOk Fp), AssocP.finish_elem _ _ (AssocP.coreFrame_signOk Fq)]
      conv_lhs => rw [← hsplit]
      rw [Fp.elem s _ _ htl ho',
        gradedContract_congr_pad hz1 hz2 hp hp' x y Wp.ltA Wp.ltB
          (shapes_match_w hsP hsP' Wp.con Wp.ltA Wp.ltB) s _ _ htl ho']
      by_cases hsq : s ∈ (coreT Q Q' x y).sectors
      · have hoq : inBox (Arr.blockShapeD (without Q.indices x ++ without Q'.indices y) s)
            (o.take (freeAxes P.ndim x).length ++ o.drop (freeAxes P.ndim x).length) = true := by
          rw [← pad_tables_shape hp hp' x y (hkeyQ s hsq)]; exact ho'
        conv_rhs => rw [← hsplit]
        rw [Fq.elem s _ _ (by rw [← hp.ndim]; exact htl) hoq]
      · rw [Arr.elem_of_not_mem hsq]
        have hnil : storedPairs Q Q' (freeAxes Q.ndim x) x y (freeAxes Q'.ndim y) s = [] := by
          apply List.eq_nil_iff_forall_not_mem.mpr
          intro pr hpr
          apply hsq
          rw [Fq.sectors]
          exact (AssocP.mem_keys_iff _ _ _ _ _ _ _).mpr ⟨pr, hpr⟩
        unfold gradedContract
        rw [hnil]
        simp only [List.map_nil, List.sum_nil, Lazy.sgnI_zero]

end TdotP
end SymmModel
