/-
  SymmModel.Proofs.Reshape6c — every certified plan of the planner has fuse calls satisfying
  `CallsOk` (no hypothesis on the inputs beyond the certificate); hence the round trip of `reshape`
  for every target whose plan has no unfuse and no expansion.
-/
import SymmModel.Proofs.Reshape6b
namespace SymmModel.Reshape5
open SymmModel SymmModel.Reshape SymmModel.C07 SymmModel.Reshape3 ReshapeP FuseP

theorem range'_inj_start {P p n m : Nat} (hn : 0 < n) (h : List.range' P n = List.range' p m) : P = p := by
  obtain ⟨n', rfl⟩ : ∃ n', n = n' + 1 := ⟨n - 1, by omega⟩
  cases m with
  | zero => simp [List.range'_succ] at h
  | succ m =>
    rw [List.range'_succ, List.range'_succ] at h
    injection h

/-- ascending clusters + lengths ≥ 2 + symbolic executability ⇒ `CallsOk` -/
theorem callsOk_of_asc (fs : List Nat) (hfs : AllGe2 fs) :
    ∀ (calls : List (List (List Nat))) (lb : Nat) (st st' : SymShape), AscCalls fs calls lb →
      foldOpt symFuse calls st = some st' → CallsOk calls lb st.length := by
  intro calls
  induction calls with
  | nil => intro _ _ _ _ _; trivial
  | cons G rest ih =>
    intro lb st st' hasc hex
    obtain ⟨P, ls, rfl, hne, hls, hlb, hrest⟩ := hasc
    simp only [foldOpt] at hex
    cases h1 : symFuse st (curL P ls) with
    | none => rw [h1] at hex; cases hex
    | some st1 =>
      rw [h1] at hex
      simp only [] at hex
      obtain ⟨p, hflat, hpos, _, hle, hst1⟩ := symFuse_spec h1
      have h2 : ∀ L ∈ ls, 2 ≤ L := fun L hL => hfs L (hls L hL)
      have hfl := curL_flatten ls P
      have hs2 := sumN_ge_two h2 hne
      have hPp : P = p := by
        rw [hfl] at hflat
        exact range'_inj_start (by omega) hflat
      subst hPp
      have hlen1 : st1.length = st.length - (curL P ls).flatten.length + (curL P ls).length := by
        rw [hst1]
        simp only [List.length_append, List.length_take, List.length_map, List.length_drop]
        omega
      refine ⟨P, ⟨?_, ?_, hflat, hlb, hle⟩, ?_⟩
      · cases ls with
        | nil => exact (hne rfl).elim
        | cons a ls => simp [curL]
      · intro g hg
        have : g.length ∈ (curL P ls).map List.length := List.mem_map_of_mem hg
        rw [curL_lengths] at this
        exact h2 _ this
      · rw [← hlen1, curL_length]
        exact ih _ st1 st' hrest hex

/-- **the fuse calls of every certified plan** (input without fused axes) -/
theorem calls_of_planner (shape newshape : List Nat) (t : List Nat × List (List (List Nat)) × List Nat)
    (h : calcReshapeArgs shape newshape (nones shape) = .ok t)
    (hwf : (Plan.ofTriple t).wfB shape (nones shape) newshape = true) :
    CallsOk t.2.1 0 shape.length := by
  have hu := planner_no_unfuse shape newshape t h
  -- the certificate: the fuse calls execute symbolically
  obtain ⟨hl, r, hr, _⟩ := wfB_iff.mp hwf
  simp only [Plan.exec, Plan.ofTriple, hu, foldOpt] at hr
  cases h2 : foldOpt symFuse t.2.1 (shape.zip (nones shape)) with
  | none => rw [h2] at hr; cases hr
  | some s2 =>
    have hzl : (shape.zip (nones shape)).length = shape.length := by
      simp [List.length_zip, nones]
    -- the structure of the calls
    unfold calcReshapeArgs at h
    split at h
    · cases h
    · rename_i st hst
      have hg1 : AllGe2 st.fuseSizes := mainLoop_ge2 _ _ _ _ _ _ (by intro v hv; simp at hv) hst
      simp only [] at h
      split at h
      · cases h
      · rename_i term2 axsU _
        split at h
        · cases h
        · rename_i term3 fs3 hsq
          have hg3 : AllGe2 fs3 := by
            split at hsq
            · exact squeezePhase_ge2 _ _ _ hg1 hsq
            · simp only [pure, Except.pure] at hsq
              injection hsq with hsq
              injection hsq with _ hq2
              rw [← hq2]; exact hg1
          split at h
          · cases h
          · rename_i axsFuse hfu
            simp only [pure, Except.pure] at h
            injection h with h
            have hcalls : t.2.1 = axsFuse := by rw [← h]
            rw [hcalls] at h2 ⊢
            have hasc : AscCalls fs3 axsFuse 0 := by
              split at hfu
              · obtain ⟨new, hres, hasc⟩ := fuseLoop_asc fs3 _ 0 term3 [] axsFuse 0 [] 0 (by simp [sumN])
                  (Nat.le_refl _) (by simp) (by simpa [curL] using hfu)
                simp only [List.nil_append] at hres
                rw [hres]; exact hasc
              · simp only [pure, Except.pure] at hfu
                injection hfu with hfu
                rw [← hfu]; trivial
            rw [← hzl]
            exact callsOk_of_asc fs3 hg3 axsFuse 0 _ s2 hasc h2

section Trip
variable {R : Type} [Zero R] [Neg R] [Lazy.LawfulNeg R]
variable {fuse : Arr R → List (List Nat) → Except Err (Arr R)}
  {unf : Arr R → Nat → Except Err (Arr R)} {Good : Arr R → Prop}
  {sg : Sym → Index → List Index → Sector → Int}

/-- there and back from `CallsOk` -/
theorem roundtrip_generic' (H : StepOK unf Good sg) (F : FuseOK fuse unf Good)
    (hind : ∀ x p y, unf x p = .ok y → ∃ ix subs exts, x.indices[p]? = some ix ∧ ix.sub = some (subs, exts))
    (hfd : ∀ x G, Good x → fuseDispatch x G = fuse x G)
    (hdisp : ∀ x p, Good x → unfuseDispatch x p = unf x p)
    (a : Arr R) (hg : Good a) (hnf : ∀ ix ∈ a.indices, ix.sub = none)
    (calls : List (List (List Nat))) (hc : CallsOk calls 0 a.ndim) :
    ∃ y z, applyPlan a ([], calls, []) = .ok y ∧ reshapeArr y (a.shape.map Int.ofNat) = .ok z
      ∧ Good z ∧ VEq z a := by
  obtain ⟨y, lb, hy, hI⟩ := inv_calls H F hind hfd a calls a 0 (inv_init a hg hnf) hc
  obtain ⟨z, hz, gz, hv⟩ := back_of_inv H hdisp hind hI
  refine ⟨y, z, ?_, hz, gz, hv⟩
  simp only [applyPlan, List.foldlM_nil, bind, Except.bind, pure, Except.pure]
  rw [hy]

/-- **`reshape` there and back for every plan without expansion**, generic -/
theorem reshape_roundtrip_generic (H : StepOK unf Good sg) (F : FuseOK fuse unf Good)
    (hind : ∀ x p y, unf x p = .ok y → ∃ ix subs exts, x.indices[p]? = some ix ∧ ix.sub = some (subs, exts))
    (hfd : ∀ x G, Good x → fuseDispatch x G = fuse x G)
    (hdisp : ∀ x p, Good x → unfuseDispatch x p = unf x p)
    (a y : Arr R) (hg : Good a) (hnf : ∀ ix ∈ a.indices, ix.sub = none)
    (ns full : List Int) (nsN : List Nat) (t : List Nat × List (List (List Nat)) × List Nat)
    (hpos : ∀ d ∈ a.shape, 0 < d) (hprod : prod a.shape = prod nsN)
    (h1 : findFullReshape ns a.size = .ok full)
    (h2 : full.mapM (fun (d : Int) => if d < 0 then (throw Err.notimpl : Except Err Nat) else pure d.toNat)
      = .ok nsN)
    (h3 : calcReshapeArgs a.shape nsN a.subsizes = .ok t) (hexp : t.2.2 = [])
    (hy : reshapeArr a ns = .ok y) :
    ∃ z, reshapeArr y (a.shape.map Int.ofNat) = .ok z ∧ Good z ∧ VEq z a := by
  have hwf := reshape_plan_certified a nsN t (denseB_unfused a hnf) hpos hprod h3
  have h3' := h3
  rw [subsizes_nones a hnf] at h3' hwf
  have hu := planner_no_unfuse _ _ t h3'
  have hc := calls_of_planner a.shape nsN t h3' hwf
  have ht : t = ([], t.2.1, []) := by
    obtain ⟨t1, t2, t3⟩ := t
    simp only at hu hexp; subst hu; subst hexp; rfl
  rw [reshapeArr_eq a ns full nsN t h1 h2 h3, ht] at hy
  have hnd : a.shape.length = a.ndim := by simp [Arr.shape, Arr.ndim]
  rw [hnd] at hc
  obtain ⟨y', z, hy', hz, g, hv⟩ := roundtrip_generic' H F hind hfd hdisp a hg hnf t.2.1 hc
  rw [hy] at hy'; injection hy' with hy'; subst hy'
  exact ⟨z, hz, g, hv⟩

end Trip

end SymmModel.Reshape5
