/-
  SymmModel.Proofs.Fuse4Round6 — **unfuseF ∘ fuseF**, the composed theorem.
-/
import SymmModel.Proofs.Fuse4Round5
namespace SymmModel
namespace FuseP
set_option linter.unusedSectionVars false
open SymmModel.KoszulP SymmModel.Lazy

variable {R : Type} [Zero R] [Neg R] [LawfulNeg R]

section Final
variable {a : Arr R} {groups : List (List Nat)}

variable (a groups) in
/-- unfuse the groups `g-1, …, 0` with `unfuseF` (each only if it is a multi-axis group) -/
def unfuseFromF : Nat → Arr R → Except Err (Arr R)
  | 0, x => pure x
  | g + 1, x => do
    let x' ← stageStepF a groups x g
    unfuseFromF g x'

theorem unfuseFromF_eq_foldlM (g : Nat) (x : Arr R) :
    unfuseFromF a groups g x = (List.range g).reverse.foldlM (stageStepF a groups) x := by
  induction g generalizing x with
  | zero => rfl
  | succ g ih =>
    rw [List.range_succ, List.reverse_append]
    simp only [List.reverse_cons, List.reverse_nil, List.nil_append, List.singleton_append, List.foldlM_cons,
      unfuseFromF]
    cases stageStepF a groups x g with
    | error e => rfl
    | ok x' => exact ih x'

theorem finv_iter (hv : a.validB = true) (hf : a.fermi = true) (hok : GroupsOk groups a.ndim) (n j : Nat)
    (hjn : j + n = groups.length) {Z X : Arr R} (h : FInv a groups j Z X) :
    ∃ Z' X', unfuseFromF a groups n Z = .ok Z' ∧ FInv a groups groups.length Z' X' := by
  induction n generalizing j Z X with
  | zero =>
    have : j = groups.length := by omega
    subst this
    exact ⟨Z, X, rfl, h⟩
  | succ n ih =>
    have hj : j < groups.length := by omega
    obtain ⟨Z1, X1, h1, h2⟩ := finv_step hv hf hok hj h
    have hg : groups.length - (j + 1) = n := by omega
    rw [hg] at h1
    obtain ⟨Z2, X2, h3, h4⟩ := ih (j + 1) (by omega) h2
    exact ⟨Z2, X2, by simp only [unfuseFromF, h1, bind, Except.bind]; exact h3, h4⟩

/-- the accumulated sign is the fuse sign -/
theorem tauF_drop (a : Arr R) (groups : List (List Nat)) (S : Sector) (j : Nat) (hj : j ≤ groups.length) :
    tauF a groups S j
      = ((((newGroupsF groups a.duals).drop (groups.length - j)).filter (dualSel a groups)).map
          (groupSign a groups S)).foldr (· * ·) 1 := by
  have hlen : (newGroupsF groups a.duals).length = groups.length := newGroupsF_length _ _
  induction j with
  | zero =>
    simp only [tauF, Nat.sub_zero]
    rw [← hlen, List.drop_length]; rfl
  | succ j ih =>
    have hlt : groups.length - (j + 1) < (newGroupsF groups a.duals).length := by omega
    have hd : (newGroupsF groups a.duals).drop (groups.length - (j + 1))
        = (newGroupsF groups a.duals)[groups.length - (j + 1)]
          :: (newGroupsF groups a.duals).drop (groups.length - j) := by
      rw [List.drop_eq_getElem_cons hlt]
      congr 2; omega
    have hgd : (newGroupsF groups a.duals).getD (groups.length - (j + 1)) []
        = (newGroupsF groups a.duals)[groups.length - (j + 1)] := by
      simp [List.getD_eq_getElem?_getD, List.getElem?_eq_getElem hlt]
    simp only [tauF]
    rw [ih (by omega), hd, hgd, List.filter_cons, groupFactor]
    split <;> simp

theorem tauF_full (hok : GroupsOk groups a.ndim) (S : Sector) :
    tauF a groups S groups.length = fuseSignT a groups S := by
  rw [tauF_drop a groups S groups.length (Nat.le_refl _), fuseSignT_groups a groups hok, dualGroupsF_eq]
  simp

/-- **unfuseF ∘ fuseF** (block form over the sign-adjusted, transposed operand) -/
theorem unfuseF_fuseF_M (e : Bool) (hv : a.validB = true) (hf : a.fermi = true) (hok : GroupsOk groups a.ndim) :
    ∃ y z, Arr.fuseF a groups .insert e = .ok y ∧ unfuseFromF a groups groups.length y = .ok z
      ∧ z.validB = true ∧ z.fermi = true
      ∧ z.indices = permuted a.indices (calcFuseGroupInfo groups a.duals).perm
      ∧ z.sym = a.sym ∧ z.charge = a.charge ∧ z.oddpos = a.oddpos
      ∧ (∀ sb4 ∈ (signAdj a groups).blocks, ∃ V, alookup z.blocks sb4.1 = some V ∧ V.shape = sb4.2.shape
          ∧ ∀ J, inBox sb4.2.shape J = true →
              z.elem sb4.1 J = (a.transposeF (calcFuseGroupInfo groups a.duals).perm).elem sb4.1 J)
      ∧ (∀ K V, alookup z.blocks K = some V → (∀ sb4 ∈ (signAdj a groups).blocks, K ≠ sb4.1) →
          ∀ J, inBox V.shape J = true → z.elem K J = 0) := by
  have hfld := signAdj_fields a groups
  have hV4 := signAdj_valid a groups hv hf hok
  have hc4 : ValidP.Core (signAdj a groups) := hV4.core
  have hva4 := validArr_of_core hc4
  have hnd4 : (signAdj a groups).ndim = a.ndim := by
    show (signAdj a groups).indices.length = a.ndim
    rw [hfld.2.1]; exact permutedM_length hok a.indices rfl
  have hd4 : (signAdj a groups).duals.length = a.duals.length := by
    rw [duals_length, duals_length, hnd4]
  have hok4 : GroupsOk (newGroupsF groups a.duals) (signAdj a groups).ndim := by
    rw [hnd4, ← duals_length]; exact newGroupsF_ok (hokD hok)
  obtain ⟨hpos, hperm, _⟩ := newGroups_plan (hokD hok) hd4
  have hlen : (newGroupsF groups a.duals).length = groups.length := newGroupsF_length _ _
  obtain ⟨hy, _⟩ := fuseF_elemT a groups e hv hf hok
  -- stage 0
  have hS0 := stage_zero hc4 hok4
  have hyV : (fusedArrM (signAdj a groups) (newGroupsF groups a.duals)).validB = true :=
    (ValidP.validB_iff _).2 (ValidP.fuseF_valid a _ groups e ((ValidP.validB_iff a).1 hv) hf
      (admissible_of_groupsOk hok) hy)
  have h0 : FInv a groups 0 (fusedArrM (signAdj a groups) (newGroupsF groups a.duals))
      (fusedArrM (signAdj a groups) (newGroupsF groups a.duals)) :=
    ⟨⟨hyV, by show (signAdj a groups).fermi = true; rw [hfld.2.2.2.1]; exact hf, hS0.core, hfld.1,
        ShapeEq.refl _, fun _ _ _ _ _ h => h⟩,
      hfld.2.2.1, ⟨hfld.2.2.2.2.1, hfld.2.2.2.2.2⟩, hS0, fun sb4 _ J _ => by simp [tauF]⟩
  obtain ⟨z, X, hz, hF⟩ := finv_iter hv hf hok groups.length 0 (by omega) h0
  have hSk := hF.stage
  refine ⟨_, z, hy, hz, hF.rel.zvalid, hF.rel.zfermi, ?_, hF.sym, hF.lab.1, hF.lab.2, ?_, ?_⟩
  · rw [hF.rel.shape.1, hF.stage.idx]
    have := idxStage_full (a := signAdj a groups) (groups := newGroupsF groups a.duals) hok4
    rw [hlen] at this
    rw [this]
    show permuted (signAdj a groups).indices (giM (signAdj a groups) (newGroupsF groups a.duals)).perm = _
    rw [hperm, hfld.2.1]
    have hl : (permuted a.indices (calcFuseGroupInfo groups a.duals).perm).length = a.duals.length := by
      rw [permutedM_length hok a.indices rfl, duals_length]
    rw [← hl]; exact Lazy.permuted_range _
  · -- stored sectors
    intro sb4 hsb4
    have hsl : sb4.1.length = a.duals.length := by
      rw [(hva4.blk sb4 hsb4).1, hnd4, duals_length]
    have hshl : sb4.2.shape.length = a.duals.length := by
      have := blockShape?_length (hva4.blk sb4 hsb4).2.1
      rw [this.2]; exact hsl
    have hKM : KM (signAdj a groups) (newGroupsF groups a.duals) sb4 groups.length = sb4.1 := by
      have := KM_full (a := signAdj a groups) (groups := newGroupsF groups a.duals) hok4 (hva4.blk sb4 hsb4).1
      rw [hlen] at this
      rw [this]
      show permuted sb4.1 (giM (signAdj a groups) (newGroupsF groups a.duals)).perm = _
      rw [hperm, ← hsl]; exact Lazy.permuted_range _
    have hSM : SM (signAdj a groups) (newGroupsF groups a.duals) sb4 groups.length = sb4.2.shape := by
      have := SM_full (a := signAdj a groups) (groups := newGroupsF groups a.duals) hok4 sb4
        (by rw [hshl, ← hd4, duals_length])
      rw [hlen] at this
      rw [this]
      show permuted sb4.2.shape (giM (signAdj a groups) (newGroupsF groups a.duals)).perm = _
      rw [hperm, ← hshl]; exact Lazy.permuted_range _
    obtain ⟨V, hV, hVs, hVg⟩ := hSk.here sb4 hsb4
    rw [hKM] at hV
    rw [hSM] at hVs
    -- the block of `z`
    have hs := hF.rel.shape.2 sb4.1
    rw [hV] at hs
    cases hzb : alookup z.blocks sb4.1 with
    | none => rw [hzb] at hs; simp at hs
    | some Vz =>
      rw [hzb] at hs
      simp only [Option.map_some, Option.some.injEq] at hs
      refine ⟨Vz, rfl, by rw [hs, hVs], ?_⟩
      intro J hJ
      have hJl : J.length = a.duals.length := by rw [inBox_length hJ, hshl]
      have hIM : IM (signAdj a groups) (newGroupsF groups a.duals) sb4 J groups.length = J := by
        have := IM_full (a := signAdj a groups) (groups := newGroupsF groups a.duals) hok4 sb4
          (offs := J) (by rw [hJl, ← hd4, duals_length])
        rw [hlen] at this
        rw [this]
        show permuted J (giM (signAdj a groups) (newGroupsF groups a.duals)).perm = _
        rw [hperm, ← hJl]; exact Lazy.permuted_range _
      have h1 := hF.sign sb4 hsb4 J (by rw [hSM]; exact hJ)
      rw [hKM] at h1
      have h2 := hVg J hJ
      rw [hIM] at h2
      have h3 : X.elem sb4.1 J = (signAdj a groups).elem sb4.1 J := by
        rw [elem_of_synced _ hF.rel.xph, hV, elem_of_synced _ hfld.1,
          alookup_of_mem_nodup hva4.nodup hsb4]
        exact h2
      rw [h1, h3, FuseP.signAdj_elem, tauF_full hok, sgnI_sgnI]
  · -- everything else is zero
    intro K V hl hK J hJ
    have hs := hF.rel.shape.2 K
    rw [hl] at hs
    cases hx : alookup X.blocks K with
    | none => rw [hx] at hs; simp at hs
    | some Vx =>
      rw [hx] at hs
      simp only [Option.map_some, Option.some.injEq] at hs
      apply hF.rel.zero K Vx hx J (by rw [← hs]; exact hJ)
      rcases hSk.only K Vx hx J (by rw [← hs]; exact hJ) with ⟨sb4, hsb4, offs, _, hKeq, _⟩ | h0
      · exfalso
        have hsl : sb4.1.length = a.duals.length := by
          rw [(hva4.blk sb4 hsb4).1, hnd4, duals_length]
        have hKM : KM (signAdj a groups) (newGroupsF groups a.duals) sb4 groups.length = sb4.1 := by
          have := KM_full (a := signAdj a groups) (groups := newGroupsF groups a.duals) hok4 (hva4.blk sb4 hsb4).1
          rw [hlen] at this
          rw [this]
          show permuted sb4.1 (giM (signAdj a groups) (newGroupsF groups a.duals)).perm = _
          rw [hperm, ← hsl]; exact Lazy.permuted_range _
        exact hK sb4 hsb4 (by rw [hKeq, hKM])
      · rw [elem_of_synced _ hF.rel.xph, hx]; exact h0

end Final

end FuseP
end SymmModel
