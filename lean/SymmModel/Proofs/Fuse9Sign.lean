/-
  SymmModel.Proofs.Fuse9Sign — sign bricks for `conjF` against one `unfuseF` step: the look-ups of
  the step do not see `conj`; parity of the fused charge; the full-reversal sign of a sector and of
  the sector with one segment collapsed.
-/
import SymmModel.Proofs.Fuse8ConjSign
import SymmModel.Proofs.Fuse6Parts
import SymmModel.Proofs.NormNet2
import SymmModel.Props.C17
namespace SymmModel
namespace FuseP
set_option linter.unusedSectionVars false
open SymmModel.Lazy SymmModel.KoszulP SymmModel.LinalgLemmas

theorem cmb_conj (sym : Sym) (ix : Index) (subs : List Index) (S : Sector) :
    cmb sym ix.conj (subs.map Index.conj) S = cmb sym ix subs S := by
  unfold cmb
  rw [List.zipWith_map_right]
  congr 2
  funext c' sub
  rw [conj_dual', conj_dual']
  cases ix.dual <;> cases sub.dual <;> rfl

theorem look_conj (sym : Sym) (ix : Index) (subs : List Index) (exts : Extents) (S : Sector) :
    look sym ix.conj (subs.map Index.conj) exts S = look sym ix subs exts S := by
  unfold look
  rw [cmb_conj, ← conjList_eq_map, blockShape?_conjList]

theorem foldr_xor_parity (sym : Sym) (l : List Charge) :
    l.foldr (fun c acc => xor (sym.parity c) acc) false = ((l.filter sym.parity).length % 2 == 1) := by
  induction l with
  | nil => rfl
  | cons c l ih =>
    simp only [List.foldr_cons, ih, List.filter_cons]
    cases hc : sym.parity c
    · simp
    · simp only [Bool.true_xor, if_true, List.length_cons]
      rcases Nat.mod_two_eq_zero_or_one (l.filter sym.parity).length with h | h
      · have : ((l.filter sym.parity).length + 1) % 2 = 1 := by omega
        simp [h, this]
      · have : ((l.filter sym.parity).length + 1) % 2 = 0 := by omega
        simp [h, this]

theorem oddN_zipWith_sign (sym : Sym) (d : Index → Bool) : ∀ (S : Sector) (subs : List Index),
    S.length = subs.length →
    NormNet.oddN sym (List.zipWith (fun c' (sub : Index) => sym.sign c' (d sub)) S subs) = NormNet.oddN sym S := by
  intro S
  induction S with
  | nil => intro subs _; rfl
  | cons c S ih =>
    intro subs hl
    cases subs with
    | nil => simp at hl
    | cons s subs =>
      simp only [List.zipWith_cons_cons, NormNet.oddN, List.filter_cons, C17.parity_sign]
      have := ih subs (by simpa using hl)
      simp only [NormNet.oddN] at this
      split <;> simp [this]

/-- parity of the fused charge of a segment -/
theorem parity_cmb (sym : Sym) (ix : Index) (subs : List Index) (S : Sector) (hl : S.length = subs.length) :
    sym.parity (cmb sym ix subs S) = (NormNet.oddN sym S % 2 == 1) := by
  unfold cmb
  rw [C17.parity_combine, foldr_xor_parity]
  have := oddN_zipWith_sign sym (fun sub => ix.dual != sub.dual) S subs hl
  simp only [NormNet.oddN] at this ⊢
  rw [this]

theorem count_isOdd (par : List Bool) :
    ((List.range par.length).filter (isOdd par)).length = (par.filter id).length := by
  have h : par = (List.range par.length).map (fun g => par.getD g false) := by
    have := map_eq_range_map par false id
    simpa using this
  conv_rhs => rw [h, List.filter_map, List.length_map]
  rfl

/-- the reversal sign of a whole segment through its odd count -/
theorem revSign_oddN (sym : Sym) (S : Sector) :
    revSign (S.map sym.parity) (List.range S.length) = sgn (tri (NormNet.oddN sym S)) := by
  unfold revSign
  rw [← tri_eq]
  congr 2
  unfold oddCount
  have := count_isOdd (S.map sym.parity)
  rw [List.length_map] at this
  rw [this, NormNet.oddN_parities]

/-- full-reversal signs of a sector and of the sector with the segment collapsed -/
theorem koszul_collapse (sym : Sym) (ix : Index) (subs : List Index) (A S X : Sector)
    (hl : S.length = subs.length) :
    koszul ((A ++ S ++ X).map sym.parity) none * koszul ((A ++ [cmb sym ix subs S] ++ X).map sym.parity) none
      = revSign (S.map sym.parity) (List.range subs.length) := by
  rw [NormNet.koszul_none_oddN, NormNet.koszul_none_oddN, ← hl, revSign_oddN]
  simp only [NormNet.oddN_append]
  have hc : NormNet.oddN sym [cmb sym ix subs S] = NormNet.oddN sym S % 2 := by
    simp only [NormNet.oddN, List.filter_cons, List.filter_nil, parity_cmb sym ix subs S hl]
    rcases Nat.mod_two_eq_zero_or_one (S.filter sym.parity).length with h | h <;> simp [h]
  rw [hc]
  have := tri_collapse (NormNet.oddN sym A + NormNet.oddN sym X) (NormNet.oddN sym S)
  rw [← this]
  congr 2 <;> congr 1 <;> omega

end FuseP
end SymmModel
