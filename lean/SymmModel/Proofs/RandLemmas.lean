/-
  SymmModel.Proofs.RandLemmas — helper lemmas for the random constructors (Model/Rand.lean),
  used by Props/C16c.lean.  Nothing here changes a model definition.
-/
import SymmModel.Model.Rand
import SymmModel.Proofs.DenseLemmas
import SymmModel.Proofs.LinalgLemmas
import SymmModel.Proofs.ValidMore2Construct
import Mathlib.Data.List.ProdSigma
import SymmModel.Proofs.FuseAssoc

namespace SymmModel
namespace RandP
open Rand

/-! ## `BlockIndex(dict(zip(charges, sizes)))` -/

theorem sumN_map_snd_zip {α : Type} (cs : List α) (ss : List Nat) (hl : ss.length ≤ cs.length) :
    sumN ((cs.zip ss).map (·.2)) = sumN ss := by
  rw [List.map_snd_zip hl]

theorem map_fst_zip_sublist {α β : Type} (cs : List α) (ss : List β) :
    ((cs.zip ss).map (·.1)).Sublist cs := by
  induction cs generalizing ss with
  | nil => simp
  | cons c cs ih =>
    cases ss with
    | nil => simp
    | cons s ss => simpa using ih ss

/-- distinct valid charges zipped with positive sizes give a well-formed plain index of the
    given direction whose total size is the sum of the sizes -/
theorem mkIndex_wf {sym : Sym} {cs : List Charge} {ss : List Nat} (dual : Bool)
    (hnd : cs.Nodup) (hv : ∀ c ∈ cs, sym.valid c = true) (hp : ∀ s ∈ ss, 0 < s)
    (hl : ss.length ≤ cs.length) :
    Index.wfB sym (mkIndex cs ss dual) = true ∧ (mkIndex cs ss dual).sizeTotal = sumN ss
    ∧ (mkIndex cs ss dual).dual = dual ∧ (mkIndex cs ss dual).sub = none := by
  have hk : ((cs.zip ss).map (·.1)).Nodup := hnd.sublist (map_fst_zip_sublist cs ss)
  have hd : adict (cs.zip ss) = cs.zip ss := adict_of_nodup _ hk
  refine ⟨?_, ?_, rfl, rfl⟩
  · show Index.wfB sym (Index.mk (Index.sortCm (adict (cs.zip ss))) dual none) = true
    rw [hd]
    apply LinalgLemmas.wfB_plain
    · exact LinalgLemmas.sortCm_sorted _ hk
    · intro c n hm
      have hm' := mem_sortCm.mp hm
      have := List.of_mem_zip hm'
      exact ⟨hp n this.2, hv c this.1⟩
  · show sumN ((Index.sortCm (adict (cs.zip ss))).map (·.2)) = sumN ss
    rw [hd, sumN_sortCm, sumN_map_snd_zip cs ss hl]

/-! ## `range` on ints -/

theorem intRange_length (a b : Int) : (intRange a b).length = (b - a).toNat := by
  simp [intRange]

theorem intRange_nodup (a b : Int) : (intRange a b).Nodup := by
  unfold intRange
  refine List.Nodup.map ?_ List.nodup_range
  intro i j h
  simp only at h
  omega

/-! ## `equalSizes` -/

theorem sumN_range_step (q r m : Nat) :
    sumN ((List.range m).map (fun i => q + (if i < r then 1 else 0))) = m * q + min m r := by
  induction m with
  | zero => simp [sumN]
  | succ m ih =>
    rw [List.range_succ, List.map_append, sumN_append, ih]
    simp only [List.map_cons, List.map_nil, sumN]
    split <;> rename_i h
    · rw [Nat.min_eq_left (by omega : m + 1 ≤ r), Nat.min_eq_left (by omega : m ≤ r)]
      rw [Nat.succ_mul]; omega
    · rw [Nat.min_eq_right (by omega : r ≤ m + 1), Nat.min_eq_right (by omega : r ≤ m)]
      rw [Nat.succ_mul]; omega

/-- `ncharge` sizes, each positive, summing to `d`, when `1 ≤ ncharge ≤ d` -/
theorem equalSizes_spec {d nc : Nat} (h1 : 0 < nc) (h2 : nc ≤ d) :
    (equalSizes d nc).length = nc ∧ (∀ s ∈ equalSizes d nc, 0 < s) ∧ sumN (equalSizes d nc) = d := by
  refine ⟨by simp [equalSizes], ?_, ?_⟩
  · intro s hs
    simp only [equalSizes, List.mem_map, List.mem_range] at hs
    obtain ⟨i, _, rfl⟩ := hs
    have : 0 < d / nc := Nat.div_pos h2 h1
    omega
  · unfold equalSizes
    rw [sumN_range_step]
    have : d % nc < nc := Nat.mod_lt _ h1
    rw [Nat.min_eq_right (by omega)]
    exact Nat.div_add_mod d nc

theorem sumN_replicate (n k : Nat) : sumN (List.replicate n k) = n * k := by
  induction n with
  | zero => simp [sumN]
  | succ n ih => rw [List.replicate_succ, sumN, ih, Nat.succ_mul]; omega

/-! ## `get_u1_charges`, `get_u1u1_charges` -/

theorem u1Charges_length (n : Nat) : (u1Charges n).length = n := by
  unfold u1Charges
  simp only [List.length_take, (isort_perm _ _).length_eq, intRange_length]
  omega

theorem u1Charges_nodup (n : Nat) : (u1Charges n).Nodup :=
  ((isort_perm _ _).nodup_iff.mpr (intRange_nodup _ _)).sublist (List.take_sublist _ _)

/-- the U1 charges as model charges: `n` distinct valid ones -/
theorem u1Charges_spec (n : Nat) :
    ((u1Charges n).map (fun c => ((c, 0) : Charge))).length = n
    ∧ ((u1Charges n).map (fun c => ((c, 0) : Charge))).Nodup
    ∧ ∀ c ∈ (u1Charges n).map (fun c => ((c, 0) : Charge)), Sym.valid .U1 c = true := by
  refine ⟨by simp [u1Charges_length], ?_, ?_⟩
  · refine (u1Charges_nodup n).map ?_
    intro a b h
    exact (Prod.mk.inj h).1
  · intro c hc
    obtain ⟨x, _, rfl⟩ := List.mem_map.mp hc
    rfl

theorem u1u1_pool_length (k : Nat) :
    ((intRange (-(k : Int) + 1) ((k : Int) + 1)).flatMap
      (fun i => (intRange (-(k : Int) + 1) ((k : Int) + 1)).map (fun j => ((i, j) : Charge)))).length
      = (2 * k) * (2 * k) := by
  have h : ∀ (l : List Int), l.flatMap (fun i => l.map (fun j => ((i, j) : Charge))) = l ×ˢ l :=
    fun _ => rfl
  rw [h, List.length_product, intRange_length]
  have : ((k : Int) + 1 - (-(k : Int) + 1)).toNat = 2 * k := by omega
  rw [this]

theorem u1u1Charges_length (n : Nat) : (u1u1Charges n).length = n := by
  unfold u1u1Charges
  simp only [List.length_take, (isort_perm _ _).length_eq, u1u1_pool_length]
  apply Nat.min_eq_left
  have h1 := Nat.lt_succ_sqrt n
  rcases Nat.eq_zero_or_pos n with rfl | hn
  · exact Nat.zero_le _
  · have hk : 1 ≤ Nat.sqrt n := by
      rcases Nat.eq_zero_or_pos (Nat.sqrt n) with h0 | h0
      · rw [h0] at h1; simp at h1; omega
      · exact h0
    have : Nat.succ (Nat.sqrt n) ≤ 2 * Nat.sqrt n := by omega
    exact Nat.le_of_lt (Nat.lt_of_lt_of_le h1 (Nat.mul_le_mul this this))

theorem u1u1Charges_nodup (n : Nat) : (u1u1Charges n).Nodup := by
  unfold u1u1Charges
  refine ((isort_perm _ _).nodup_iff.mpr ?_).sublist (List.take_sublist _ _)
  have h : ∀ (l : List Int), l.flatMap (fun i => l.map (fun j => ((i, j) : Charge))) = l ×ˢ l :=
    fun _ => rfl
  rw [h]
  exact (intRange_nodup _ _).product (intRange_nodup _ _)

/-! ## `rand_partition` -/

/-- consecutive differences -/
def diffs : List Int → List Nat
  | a :: b :: r => (b - a).toNat :: diffs (b :: r)
  | _ => []

theorem range_map_diffs : ∀ (sp : List Int) (n : Nat), sp.length = n + 1 →
    (List.range n).map (fun i => (sp.getD (i + 1) 0 - sp.getD i 0).toNat) = diffs sp
  | [], _, h => by simp at h
  | [a], n, h => by
    have : n = 0 := by simpa using h
    subst this; rfl
  | a :: b :: r, n, h => by
    obtain ⟨m, rfl⟩ : ∃ m, n = m + 1 := ⟨r.length, by simp at h; omega⟩
    rw [List.range_succ_eq_map, List.map_cons, List.map_map]
    have ih := range_map_diffs (b :: r) m (by simpa using h)
    simp only [diffs]
    rw [← ih]
    simp [Function.comp_def]

theorem diffs_spec : ∀ (sp : List Int), sp.Pairwise (· < ·) →
    (∀ x ∈ diffs sp, 0 < x) ∧ ((sumN (diffs sp) : Nat) : Int) = sp.getLast?.getD 0 - sp.head?.getD 0
  | [], _ => by simp [diffs, sumN]
  | [a], _ => by simp [diffs, sumN]
  | a :: b :: r, h => by
    have h' := List.pairwise_cons.mp h
    have hab : a < b := h'.1 b (by simp)
    obtain ⟨ih1, ih2⟩ := diffs_spec (b :: r) h'.2
    refine ⟨?_, ?_⟩
    · intro x hx
      simp only [diffs, List.mem_cons] at hx
      rcases hx with rfl | hx
      · omega
      · exact ih1 x hx
    · simp only [diffs, sumN, Int.natCast_add]
      rw [ih2]
      have : (a :: b :: r).getLast? = (b :: r).getLast? := by simp [List.getLast?_cons_cons]
      rw [this]
      simp only [List.head?_cons, Option.getD_some]
      omega

theorem diffs_getLast : ∀ (init : List Int) (d : Int), init ≠ [] → (∀ x ∈ init, x + 2 ≤ d) →
    2 ≤ (diffs (init ++ [d])).getLast?.getD 0
  | [], _, h, _ => absurd rfl h
  | [a], d, _, h => by
    have := h a (by simp)
    simp only [List.cons_append, List.nil_append, diffs, List.getLast?_singleton, Option.getD_some]
    omega
  | a :: b :: r, d, _, h => by
    have ih := diffs_getLast (b :: r) d (by simp) (fun x hx => h x (List.mem_cons_of_mem _ hx))
    show 2 ≤ ((b - a).toNat :: diffs ((b :: r) ++ [d])).getLast?.getD 0
    cases hds : diffs ((b :: r) ++ [d]) with
    | nil => rw [hds] at ih; simp at ih
    | cons x xs => rw [hds] at ih; rw [List.getLast?_cons_cons]; exact ih

/-- an admissible draw for `rand_partition(d, n)`: `n - 1` distinct values of `range(1, d - 1)` -/
def drawOkB (d n : Nat) (draw : List Nat) : Bool :=
  draw.length == n - 1 && allDistinct draw && draw.all (fun x => decide (1 ≤ x) && decide (x + 1 < d))

theorem allDistinct_nodup {α : Type} [BEq α] [LawfulBEq α] : ∀ {l : List α}, allDistinct l = true → l.Nodup
  | [], _ => List.nodup_nil
  | a :: l, h => by
    simp only [allDistinct, Bool.and_eq_true, Bool.not_eq_true', List.contains_eq_mem,
      decide_eq_false_iff_not] at h
    exact List.nodup_cons.mpr ⟨h.1, allDistinct_nodup h.2⟩

theorem randPartition_general {d n : Nat} {draw : List Nat} (hd : 0 < d) (hdn : d ≠ n) (hn : 0 < n)
    (hok : drawOkB d n draw = true) :
    ∃ parts, randPartition d n draw = .ok parts ∧ parts.length = n ∧ (∀ p ∈ parts, 0 < p)
      ∧ sumN parts = d ∧ 2 ≤ parts.getLast?.getD 0 := by
  simp only [drawOkB, Bool.and_eq_true, beq_iff_eq, List.all_eq_true, decide_eq_true_eq] at hok
  obtain ⟨⟨hlen, hdist⟩, hrange⟩ := hok
  have hnd := allDistinct_nodup hdist
  -- the population is large enough
  have hpop : ¬ (d - 2 < n - 1) := by
    intro hlt
    -- n - 1 distinct values in [1, d-2]
    have hsub : draw.Subperm ((List.range (d - 1)).tail) := by
      apply List.subperm_of_subset hnd
      intro x hx
      have := hrange x hx
      have hx' : x ∈ List.range (d - 1) := List.mem_range.mpr (by omega)
      cases hd : d - 1 with
      | zero => omega
      | succ m =>
        rw [hd] at hx'
        rw [List.range_succ_eq_map, List.tail_cons]
        rw [List.range_succ_eq_map] at hx'
        rcases List.mem_cons.mp hx' with h0 | h1
        · omega
        · exact h1
    have := hsub.length_le
    simp only [List.length_tail, List.length_range] at this
    omega
  let s := isort (fun a b => decide (a < b)) draw
  have hs_perm : s.Perm draw := isort_perm _ _
  have hs_sorted : s.Pairwise (fun x y => decide (x < y) = true) := by
    have := FuseP.isort_pairwise (α := Nat) (γ := Nat) id (fun a b => decide (a < b))
      (by intro a b c h1 h2; simp only [decide_eq_true_eq] at *; omega)
      (by intro a b; simp only [decide_eq_true_eq]; omega) draw (by simpa using hnd)
    exact this
  let sp : List Int := [(0 : Int)] ++ s.map (fun (x : Nat) => (x : Int)) ++ [(d : Int)]
  have hsp_len : sp.length = n + 1 := by
    simp only [sp, List.length_append, List.length_cons, List.length_nil, List.length_map,
      hs_perm.length_eq, hlen]
    omega
  have hsp_pw : sp.Pairwise (· < ·) := by
    simp only [sp, List.cons_append, List.nil_append]
    rw [List.pairwise_cons]
    refine ⟨?_, ?_⟩
    · intro x hx
      rcases List.mem_append.mp hx with hx | hx
      · obtain ⟨y, hy, rfl⟩ := List.mem_map.mp hx
        have := hrange y (hs_perm.mem_iff.mp hy)
        show (0 : Int) < (y : Int)
        omega
      · simp only [List.mem_cons, List.not_mem_nil, or_false] at hx
        subst hx
        show (0 : Int) < (d : Int)
        omega
    · rw [List.pairwise_append]
      refine ⟨?_, by simp, ?_⟩
      · rw [List.pairwise_map]
        refine hs_sorted.imp ?_
        intro a b hab
        simp only [decide_eq_true_eq] at hab
        show (a : Int) < (b : Int)
        omega
      · intro x hx y hy
        obtain ⟨z, hz, rfl⟩ := List.mem_map.mp hx
        simp only [List.mem_cons, List.not_mem_nil, or_false] at hy
        subst hy
        have := hrange z (hs_perm.mem_iff.mp hz)
        show (z : Int) < (d : Int)
        omega
  obtain ⟨hpos, hsum⟩ := diffs_spec sp hsp_pw
  have hres : randPartition d n draw = .ok (diffs sp) := by
    unfold randPartition
    have h1 : (d == n) = false := by simpa using hdn
    have h2 : (n == 0) = false := by simpa using (by omega : n ≠ 0)
    have h3 : (draw.length != n - 1) = false := by simp [hlen]
    simp only [h1, h2, hpop, h3, Bool.false_eq_true, if_false]
    show Except.ok _ = Except.ok _
    congr 1
    exact range_map_diffs sp n hsp_len
  have hlast : sp.getLast? = some (d : Int) := by
    show (([(0 : Int)] ++ s.map (fun (x : Nat) => (x : Int))) ++ [(d : Int)]).getLast? = _
    rw [List.getLast?_concat]
  have hhead : sp.head? = some (0 : Int) := by simp [sp]
  refine ⟨diffs sp, hres, ?_, hpos, ?_, ?_⟩
  · rw [← range_map_diffs sp n hsp_len]; simp
  · rw [hlast, hhead] at hsum
    simp only [Option.getD_some] at hsum
    omega
  · have := diffs_getLast ([(0 : Int)] ++ s.map (fun (x : Nat) => (x : Int))) (d : Int) (by simp) (by
      intro x hx
      rcases List.mem_append.mp hx with hx | hx
      · simp only [List.mem_cons, List.not_mem_nil, or_false] at hx
        subst hx; omega
      · obtain ⟨z, hz, rfl⟩ := List.mem_map.mp hx
        have := hrange z (hs_perm.mem_iff.mp hz)
        omega)
    exact this

/-- `rand_partition(d, n)` for `1 ≤ n ≤ d` and an admissible draw (none is needed when `d = n`) -/
theorem randPartition_spec {d n : Nat} {draw : List Nat} (hn : 0 < n) (hnd : n ≤ d)
    (hok : d = n ∨ drawOkB d n draw = true) :
    ∃ parts, randPartition d n draw = .ok parts ∧ parts.length = n ∧ (∀ p ∈ parts, 0 < p)
      ∧ sumN parts = d := by
  by_cases hdn : d = n
  · subst hdn
    refine ⟨List.replicate d 1, by simp [randPartition]; rfl, by simp, ?_, by simp [sumN_replicate]⟩
    intro p hp
    rw [(List.mem_replicate.mp hp).2]; exact Nat.one_pos
  · rcases hok with h | h
    · exact absurd h hdn
    · obtain ⟨parts, h1, h2, h3, h4, _⟩ := randPartition_general (by omega) hdn hn h
      exact ⟨parts, h1, h2, h3, h4⟩

/-! ## enumerate / constant maps as zips -/

theorem zipIdx_map_eq_zip {α : Type} (l : List α) (f : Nat → Nat) :
    l.zipIdx.map (fun (p : α × Nat) => (p.1, f p.2)) = l.zip ((List.range l.length).map f) := by
  apply List.ext_getElem
  · simp
  · intro i h1 h2
    simp

theorem map_pair_eq_zip {α : Type} (l : List α) (k : Nat) :
    l.map (fun c => (c, k)) = l.zip (List.replicate l.length k) := by
  induction l with
  | nil => rfl
  | cons a l ih => simp [List.replicate_succ, ih]

/-! ## `chargeSizes` -/

/-- admissible draws of `rand_*_index(d, subsizes=None)` -/
def drawsOkB (sym : Sym) (d : Nat) (dr : Draws) : Bool :=
  match sym with
  | .Z2 => if d == 1 then decide (dr.charge ≤ 1) else decide (1 ≤ dr.d0) && decide (dr.d0 < d)
  | .Z2Z2 =>
    if d < 4 then dr.charges.length == d && allDistinct dr.charges
      && dr.charges.all (fun c => possibleZ2Z2.contains c)
    else (d == 4 || drawOkB d 4 dr.splits)
  | .U1 => decide (1 ≤ dr.ncharge) && decide (dr.ncharge ≤ d)
      && (d == dr.ncharge || drawOkB d dr.ncharge dr.splits)
  | .U1U1 => decide (1 ≤ dr.ncharge) && decide (dr.ncharge ≤ d)
      && (d == dr.ncharge || drawOkB d dr.ncharge dr.splits)
  | .Z4 => false

/-- the deterministic modes, and the random mode with admissible draws -/
def modeOkB (sym : Sym) (d : Nat) (ss : Subsizes) (dr : Draws) : Bool :=
  match ss with
  | .equal => true
  | .maximal => true
  | .minimal => true
  | .random => drawsOkB sym d dr
  | .explicit _ => false

/-- what `chargeSizes` needs: a deterministic mode, or a drawn `ncharge` in `[1, d]` together
    with an admissible `rand_partition` draw -/
def SizesOk (d : Nat) (ss : Subsizes) (dr : Draws) : Prop :=
  match ss with
  | .equal => True
  | .maximal => True
  | .minimal => True
  | .random => 1 ≤ dr.ncharge ∧ dr.ncharge ≤ d ∧ (d = dr.ncharge ∨ drawOkB d dr.ncharge dr.splits = true)
  | .explicit _ => False

theorem chargeSizes_spec {nequal d : Nat} {ss : Subsizes} {dr : Draws} (hq : 0 < nequal) (hd : 0 < d)
    (hm : SizesOk d ss dr) :
    ∃ nc sizes, chargeSizes nequal d ss dr = .ok (nc, sizes) ∧ sizes.length = nc
      ∧ (∀ s ∈ sizes, 0 < s) ∧ sumN sizes = d := by
  cases ss with
  | equal =>
    have h1 : 0 < min d nequal := by omega
    have h2 : min d nequal ≤ d := Nat.min_le_left _ _
    obtain ⟨a, b, c⟩ := equalSizes_spec h1 h2
    exact ⟨_, _, rfl, a, b, c⟩
  | maximal =>
    refine ⟨_, _, rfl, by simp, ?_, by simp [sumN_replicate]⟩
    intro s hs; rw [(List.mem_replicate.mp hs).2]; exact Nat.one_pos
  | minimal =>
    refine ⟨_, _, rfl, rfl, ?_, by simp [sumN]⟩
    intro s hs; simp at hs; omega
  | random =>
    obtain ⟨h1, h2, h3⟩ := hm
    obtain ⟨parts, p1, p2, p3, p4⟩ := randPartition_spec (draw := dr.splits) h1 h2 h3
    refine ⟨dr.ncharge, parts, ?_, p2, p3, p4⟩
    simp only [chargeSizes, p1]
    rfl
  | explicit _ => exact absurd hm id

/-! ## `get_rand_blockvector` -/

theorem blockLoop_spec (size : Nat) : ∀ (fuel d bs : Nat), d ≤ size → size - d ≤ fuel →
    (∀ b ∈ blockLoop size fuel d bs, 0 < b) ∧ sumN (blockLoop size fuel d bs) = size - d
  | 0, d, bs, h1, h2 => by
    have : d = size := by omega
    subst this
    simp [blockLoop, sumN]
  | fuel + 1, d, bs, h1, h2 => by
    unfold blockLoop
    by_cases hlt : d < size
    · simp only [hlt, if_true]
      have hb : 0 < min (max bs 1) (size - d) := by omega
      have hb2 : min (max bs 1) (size - d) ≤ size - d := Nat.min_le_right _ _
      obtain ⟨ih1, ih2⟩ := blockLoop_spec size fuel (d + min (max bs 1) (size - d))
        (min (max bs 1) (size - d)) (by omega) (by omega)
      refine ⟨?_, ?_⟩
      · intro b hb'
        rcases List.mem_cons.mp hb' with rfl | hb'
        · exact hb
        · exact ih1 b hb'
      · simp only [sumN, ih2]; omega
    · simp only [hlt, if_false]
      refine ⟨by simp, ?_⟩
      simp only [sumN]; omega

end RandP
end SymmModel
