/-
  SymmModel.Proofs.FuseFermi5 — **fuseF_elem** in terms of the ORIGINAL array: the explicit sign per
  original sector is the Koszul sign of the permutation times the sign of the fuse on the
  transposed sector.
-/
import SymmModel.Proofs.FuseFermi4
namespace SymmModel
namespace FuseP
set_option linter.unusedSectionVars false
open SymmModel.Lazy

variable {R : Type}

section F
variable [Zero R] [Neg R] [LawfulNeg R]

/-- value of the transposed array at a permuted address -/
theorem transposeF_elem_orig {a : Arr R} {perm : List Nat} (h : TrOk a perm) (hsl : ShapeLen a)
    {s : Sector} {offs : List Nat} (hs : s.length = a.ndim) (ho : offs.length = a.ndim)
    (hbox : ∀ b, alookup a.blocks s = some b → inBox (permuted b.shape perm) (permuted offs perm) = true) :
    (a.transposeF perm).elem (permuted s perm) (permuted offs perm)
      = sgnI (koszul (a.parities s) (some perm)) (a.elem s offs) := by
  have hcov : ∀ ax, ax < a.ndim → ax ∈ perm := by
    intro ax hax
    have := h.perm
    simp only [Arr.isPerm, Bool.and_eq_true, beq_iff_eq, List.all_eq_true, List.mem_range,
      List.contains_eq_mem, decide_eq_true_eq] at this
    exact this.2 ax hax
  have hlt : ∀ p ∈ perm, p < a.ndim := ValidP.isPerm_lt h.perm
  cases hb : alookup a.blocks s with
  | some b =>
    rw [transposeF_elem_block h hb, elem_eq, hb]
    simp only
    have hbl : b.shape.length = a.ndim := hsl (s, b) (Lazy.alookup_mem hb)
    rw [transposeK_get_permuted b hbl ho hcov hlt (hbox b hb)]
    rfl
  | none =>
    rw [transposeF_elem h s hs, alookup_skel, hb, elem_eq, hb]
    simp only [Option.map_none]

/-- the block the sign-adjusted operand stores for a transposed stored sector -/
theorem signAdj_block {a : Arr R} {groups : List (List Nat)} (h : TrOk a (calcFuseGroupInfo groups a.duals).perm)
    {s : Sector} {b : Blk R} (hb : alookup a.blocks s = some b) :
    ∃ b4, alookup (signAdj a groups).blocks (permuted s (calcFuseGroupInfo groups a.duals).perm) = some b4
      ∧ b4.shape = permuted b.shape (calcFuseGroupInfo groups a.duals).perm := by
  have hs : s ∈ a.sectors := mem_sectors_of_lookup hb
  have hx1 : alookup (a.transposeF (calcFuseGroupInfo groups a.duals).perm).blocks
      (permuted s (calcFuseGroupInfo groups a.duals).perm)
      = some (b.transposeK (calcFuseGroupInfo groups a.duals).perm) := by
    rw [transposeF_blocks h, alookup_map_inj (fun s : Sector => permuted s (calcFuseGroupInfo groups a.duals).perm)
      (fun b : Blk R => b.transposeK (calcFuseGroupInfo groups a.duals).perm) _ s
      (fun k hk he => h.inj hk (h.len s hs) he), hb]
    rfl
  have key : ∀ y : Arr R, y.blocks = (a.transposeF (calcFuseGroupInfo groups a.duals).perm).blocks →
      ∃ b4, alookup y.phaseSync.blocks (permuted s (calcFuseGroupInfo groups a.duals).perm) = some b4
        ∧ b4.shape = permuted b.shape (calcFuseGroupInfo groups a.duals).perm := by
    intro y hy
    rw [phaseSync_blocks_eq, Lazy.alookup_map_val (syncBlk y), hy, hx1]
    refine ⟨_, rfl, ?_⟩
    simp only [syncBlk]
    split <;> rfl
  unfold signAdj
  split
  · exact key _ (phaseFlip_blocks _ _)
  · exact key _ (phaseFlip_blocks _ _)

/-- the total sign the fermionic fuse applies to the original sector `s` -/
def fuseSignF (a : Arr R) (groups : List (List Nat)) (s : Sector) : Int :=
  fuseSignT a groups (permuted s (calcFuseGroupInfo groups a.duals).perm)
    * koszul (a.parities s) (some (calcFuseGroupInfo groups a.duals).perm)

/-- **fuseF_elem** -/
theorem fuseF_elemM (a : Arr R) (groups : List (List Nat)) (e : Bool) (hv : a.validB = true)
    (hf : a.fermi = true) (hok : GroupsOk groups a.ndim) :
    Arr.fuseF a groups .insert e = .ok (fusedArrM (signAdj a groups) (newGroupsF groups a.duals))
    ∧ ∀ ns B, alookup (fusedArrM (signAdj a groups) (newGroupsF groups a.duals)).blocks ns = some B →
      ∀ i, inBox B.shape i = true → ∀ s offs, s.length = a.ndim → offs.length = a.ndim →
        permuted s (calcFuseGroupInfo groups a.duals).perm
          = expandK (signAdj a groups) (newGroupsF groups a.duals) ns i →
        permuted offs (calcFuseGroupInfo groups a.duals).perm
          = expandJ (signAdj a groups) (newGroupsF groups a.duals) ns i →
        (fusedArrM (signAdj a groups) (newGroupsF groups a.duals)).elem ns i
          = sgnI (fuseSignF a groups s) (a.elem s offs) := by
  obtain ⟨h0, hT⟩ := fuseF_elemT a groups e hv hf hok
  refine ⟨h0, ?_⟩
  intro ns B hB i hi s offs hs ho hK hJ
  obtain ⟨_, _, _, hel, hbx⟩ := hT ns B hB i hi
  have hfull := Full.of_valid hv hf
  have hisp : Arr.isPerm (calcFuseGroupInfo groups a.duals).perm a.ndim = true := by
    have := perm_isPerm (hokD hok); rwa [duals_length] at this
  have htr := hfull.trOk hisp
  rw [hel, ← hK, ← hJ, transposeF_elem_orig htr (ShapeLen.of_valid hv) hs ho]
  · unfold fuseSignF
    rw [sgnI_mul (fuseSignT_pm _ _ _) (koszul_pm _ _)]
  · intro b hb
    obtain ⟨b4, hb4, hsh⟩ := signAdj_block (groups := groups) htr hb
    have := hbx b4 (by rw [← hK]; exact hb4)
    rw [hsh, ← hJ] at this
    exact this

end F

end FuseP
end SymmModel
