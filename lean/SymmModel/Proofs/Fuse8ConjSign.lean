/-
  SymmModel.Proofs.Fuse8ConjSign — sign bricks for `conj` of a fused fermionic array (the relation
  between `unfuseAllF (conjF (fuseF a groups))` and `conjF (transposeF a perm)`; not yet assembled).

  One `unfuseF` step at axis `p` against `conjF`, on the value view, for an in-box address `(K, J)`
  whose collapsed address is `(Kc, Jc)`:
      (unfuseF (conjF x) p).elem K J = s'(K) · ct(Kc) · conj (x.elem Kc Jc)
      (conjF (unfuseF x p)).elem K J = ct(K) · conj (s(K) · x.elem Kc Jc)
  with `s`, `s'` the step signs (`segSign` of the index / of the conjugated index) and `ct` the
  `conjTotSign` (`koszul par none = sgn (tri #odd)` and a global factor that is the same on both
  sides).  `conj_step_sign`: `s · s' = flip(mismatched legs) · rev(segment)`; `tri_collapse`:
  `ct(K) · ct(Kc) = rev(segment)`.  Hence the two sides differ by the flip over the legs whose
  direction differs from the fused index, on every step; the steps are independent
  (`unfuseSign_seg`), which gives the per-sector sign of part g.
-/
import SymmModel.Proofs.Fuse6Sign
import SymmModel.Proofs.Fuse5Conj1
namespace SymmModel
namespace FuseP
set_option linter.unusedSectionVars false
open SymmModel.Lazy SymmModel.KoszulP

/-- the legs whose direction differs from the fused index -/
def mismatchLegs (ix : Index) (subs : List Index) : List Nat :=
  (List.range subs.length).filter (fun t => (subs.getD t default).dual != ix.dual)

/-- the two step signs, of an index and of its conjugate, multiply to the flip over the
    mismatched legs times the reversal sign of the segment -/
theorem conj_step_sign (sym : Sym) (ix : Index) (subs : List Index) (S : Sector) :
    segSign sym ix subs S * segSign sym ix.conj (subs.map Index.conj) S
      = Lazy.flipSign sym (mismatchLegs ix subs) S * revSign (S.map sym.parity) (List.range subs.length) := by
  have hd : ix.conj.dual = !ix.dual := conj_dual' ix
  have hsub : ∀ t, ((subs.map Index.conj).getD t default).dual
      = if t < subs.length then !(subs.getD t default).dual else (default : Index).dual := by
    intro t
    by_cases ht : t < subs.length
    · rw [getD_map_conj subs ht, conj_dual']; simp [ht]
    · simp [ht, List.getD_eq_getElem?_getD]
  unfold segSign mismatchLegs
  rw [hd, List.length_map]
  cases hix : ix.dual with
  | true =>
    simp only [if_true, Bool.not_true, Bool.false_eq_true, if_false, Int.mul_one]
    congr 2
    apply List.filter_congr
    intro t _
    cases (subs.getD t default).dual <;> rfl
  | false =>
    simp only [Bool.false_eq_true, if_false, Bool.not_false, if_true, Int.one_mul]
    congr 2
    apply List.filter_congr
    intro t ht
    rw [hsub t, if_pos (List.mem_range.1 ht)]
    cases (subs.getD t default).dual <;> rfl

/-- collapsing `ks` odd legs into one leg of parity `ks % 2` changes the full-reversal sign by the
    reversal sign of the collapsed legs -/
theorem tri_collapse (kr ks : Nat) : sgn (tri (kr + ks)) * sgn (tri (kr + ks % 2)) = sgn (tri ks) := by
  rw [← sgn_add]
  apply sgn_congr
  rw [tri_mod_two ks, Nat.add_mod, tri_mod_two, tri_mod_two]
  omega

end FuseP
end SymmModel
