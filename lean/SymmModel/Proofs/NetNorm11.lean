/-
  SymmModel.Proofs.NetNorm11 — network form of the norm (property C10), continuation part 11:
  chains of any length, the ket half and the bra half each along ANY bracketing tree
  (`C04.chain_bracketing`: every bracketing is `SegEqv` to the left-nested contraction; congruence
  `full_congr` of the final contraction): `(bra chain along tb)·(ket chain along t) = Σ|K|²`.
-/
import SymmModel.Proofs.NetNorm10
import SymmModel.Props.C04f
namespace SymmModel.NormNet
open SymmModel SymmModel.Lazy SymmModel.Norm SymmModel.TdotP SymmModel.GradedP SymmModel.RoutesP
open SymmModel.AssocP SymmModel.Assoc3P SymmModel.Assoc4P
set_option linter.unusedSectionVars false

section labels

theorem distinct_iff_keys (l : List (Int × Bool)) :
    OddposP.LabelsDistinct l ↔ (l.map (·.1)).Nodup := by
  unfold OddposP.LabelsDistinct List.Nodup
  rw [List.pairwise_map]

theorem keys_dag (o : List (Int × Bool)) : ((Arr.oddposDag o).map (·.1)).Perm (o.map (·.1)) := by
  have h := (oddposDag_perm_map o).map (·.1)
  rw [List.map_map] at h
  have e : ((fun x : Int × Bool => x.1) ∘ bar) = (fun x : Int × Bool => x.1) := by
    funext x; rfl
  rw [e] at h
  exact h

end labels

section brackets
variable {R : Type} [AddCommMonoid R] [Mul R] [Neg R] [Conj R] [NetLaws R] [AssocLaws R]

theorem braSeg_leafOK {S : Seg R} (h : LeafOK S) : LeafOK (braSeg S) :=
  ⟨braOf_valid _ _ h.valid h.fermi, braOf_fermi _ _ h.fermi, h.nd,
    fun i hi => by show i < (braOf S.arr (S.l ++ S.r)).ndim; rw [braOf_ndim]; exact h.ltl i hi,
    fun i hi => by show i < (braOf S.arr (S.l ++ S.r)).ndim; rw [braOf_ndim]; exact h.ltr i hi⟩

theorem braSeg_link {S S' : Seg R} (hS : LeafOK S) (hS' : LeafOK S') (lk : Link S S') :
    Link (braSeg S) (braSeg S') := by
  have W : AdmW S.arr S'.arr S.r S'.l :=
    ⟨hS.valid, hS'.valid, hS.fermi, hS'.fermi, lk.sym, lk.con, (List.nodup_append.mp hS.nd).2.1,
      (List.nodup_append.mp hS'.nd).1, hS.ltr, hS'.ltl⟩
  have Wb := braOf_admW' W (S.l ++ S.r) (S'.l ++ S'.r)
  exact ⟨Wb.sym, Wb.con⟩

theorem braSeg_linked (ys : List (Seg R)) : ∀ (S : Seg R), LeafOK S → linked S ys →
    linked (braSeg S) (ys.map braSeg) := by
  induction ys with
  | nil => intro _ _ _; trivial
  | cons y ys ih =>
    intro S hS h
    obtain ⟨lk, hy, hr⟩ := h
    exact ⟨braSeg_link hS hy lk, braSeg_leafOK hy, ih y hy hr⟩

theorem keys_flatL_bra (ys : List (Seg R)) :
    ((flatL (ys.map braSeg)).map (·.1)).Perm ((flatL ys).map (·.1)) := by
  induction ys with
  | nil => exact List.Perm.refl _
  | cons y ys ih =>
    show (((braOf y.arr (y.l ++ y.r)).oddpos ++ flatL (ys.map braSeg)).map (·.1)).Perm
      ((y.arr.oddpos ++ flatL ys).map (·.1))
    rw [List.map_append, List.map_append, (braOf_frame y.arr (y.l ++ y.r)).2.2.2.2.1]
    exact (keys_dag _).append ih

theorem bra_chain_distinct (S : Seg R) (ys : List (Seg R))
    (hd : OddposP.LabelsDistinct (S.arr.oddpos ++ flatL ys)) :
    OddposP.LabelsDistinct ((braSeg S).arr.oddpos ++ flatL (ys.map braSeg)) := by
  rw [distinct_iff_keys] at hd ⊢
  have : ((braSeg S).arr.oddpos ++ flatL (ys.map braSeg)).map (·.1)
      = ((braOf S.arr (S.l ++ S.r)).oddpos).map (·.1) ++ (flatL (ys.map braSeg)).map (·.1) :=
    List.map_append
  rw [this, (braOf_frame S.arr (S.l ++ S.r)).2.2.2.2.1]
  rw [List.map_append] at hd
  exact ((keys_dag _).append (keys_flatL_bra ys)).nodup_iff.mpr hd

/-- the conclusion of `network_norm_chain_bracketings` -/
def ChainNormB (S : Seg R) (ys : List (Seg R)) (t tb : STree R) : Prop :=
  ∃ T Tb T' Tb', evalL S ys = .ok T ∧ evalL (braSeg S) (ys.map braSeg) = .ok Tb
    ∧ t.eval = .ok T' ∧ tb.eval = .ok Tb'
    ∧ Eqv T'.arr T.arr ∧ Eqv Tb'.arr Tb.arr ∧ ObsEq Tb.arr (T.arr.conjF true true)
    ∧ (∃ r, Tb'.arr.tensordotF T'.arr (allAxes T.arr.ndim) .blockwise = .ok r
        ∧ r.ndim = 0 ∧ r.oddpos = [] ∧ r.elem [] [] = normSq T.arr)
    ∧ (∃ r, T'.arr.tensordotF Tb'.arr (allAxes T.arr.ndim) .blockwise = .ok r
        ∧ r.ndim = 0 ∧ r.oddpos = [] ∧ r.elem [] [] = normSq' T.arr)

/-- **the norm of a chain of any length, any bracketing of the ket chain and of the bra chain** -/
theorem network_norm_chain_bracketings (S : Seg R) (ys : List (Seg R)) (t tb : STree R)
    (ht1 : t.first = S) (ht2 : t.rest = ys)
    (hb1 : tb.first = braSeg S) (hb2 : tb.rest = ys.map braSeg)
    (hS : LeafOK S) (hl : S.l = [])
    (hlink : linked S ys) (hlast : (lastD S ys).r = [])
    (hketS : KetLabels S.arr.oddpos) (hket : ∀ y ∈ ys, KetLabels y.arr.oddpos)
    (hd : OddposP.LabelsDistinct (S.arr.oddpos ++ flatL ys)) : ChainNormB S ys t tb := by
  obtain ⟨T, Tb, e1, e2, hobs, vT, fT, vTb, fTb, hp, hnd, ⟨r, q1, q2, q3, q4⟩,
    ⟨r', g1, g2, g3, g4⟩⟩ := network_norm_chain S ys hS hl hlink hlast hketS hket hd
  -- the ket tree
  have hok : t.OK := (C04.ok_iff_leaves t).mpr ⟨ht1 ▸ hS, by rw [ht1, ht2]; exact hlink⟩
  have hdt : t.labels.Pairwise (fun x y => x.1 ≠ y.1) := by
    rw [STree.labels_eq, ht1, ht2]; exact hd
  obtain ⟨T', TL, f1, f2, hE, gT', _⟩ := C04.chain_bracketing t hok hdt
  rw [ht1, ht2, e1] at f2
  obtain rfl := Except.ok.inj f2
  -- the bra tree
  have hokb : tb.OK := (C04.ok_iff_leaves tb).mpr
    ⟨hb1 ▸ braSeg_leafOK hS, by rw [hb1, hb2]; exact braSeg_linked ys S hS hlink⟩
  have hdb : tb.labels.Pairwise (fun x y => x.1 ≠ y.1) := by
    rw [STree.labels_eq, hb1, hb2]; exact bra_chain_distinct S ys hd
  obtain ⟨Tb', TLb, h1, h2, hEb, gTb', _⟩ := C04.chain_bracketing tb hokb hdb
  rw [hb1, hb2, e2] at h2
  obtain rfl := Except.ok.inj h2
  obtain ⟨A1, A2⟩ := adm_full vT fT vTb fTb
    (hobs.sym.trans (conjF_frame T.arr true true).1)
    (hobs.indices.trans (conjF_frame T.arr true true).2.2.1)
  obtain ⟨r1, a1, a2, a3, a4⟩ := full_congr T.arr.ndim (AdmW.ofAdm A1) hEb.1 hE.1 gTb'.ok.valid
    gT'.ok.valid q1 q2
  obtain ⟨r2, b1, b2, b3, b4⟩ := full_congr T.arr.ndim (AdmW.ofAdm A2) hE.1 hEb.1 gT'.ok.valid
    gTb'.ok.valid g1 g2
  exact ⟨T, Tb, T', Tb', e1, e2, f1, h1, hE.1, hEb.1, hobs, ⟨r1, a1, a2, a3.trans q3, a4.trans q4⟩,
    ⟨r2, b1, b2, b3.trans g3, b4.trans g4⟩⟩

end brackets

end SymmModel.NormNet
