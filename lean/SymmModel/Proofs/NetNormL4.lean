/-
  SymmModel.Proofs.NetNormL4 — network form of the norm (property C10), ket-bra-first bracketings,
  part 7: the hub with EVERY call in its own contraction mode (blockwise / fused / auto).  The pieces
  `Xm = ā·a`, `Ym = b̄·b` of any mode are zero-padded copies of the blockwise pieces (`piece_any`); the later
  calls on them (`hub_half_any`) are transferred with `Net4P.pad_call`, their weak guards come from the
  frames of the intermediates (`InterW`, `admW_left_triW`, `admW_right_triW`).
-/
import SymmModel.Proofs.NetNormL3
import SymmModel.Proofs.Net4M1
import SymmModel.Proofs.NormNet17

namespace SymmModel.NormNet
open SymmModel SymmModel.Lazy SymmModel.Norm SymmModel.TdotP SymmModel.GradedP SymmModel.RoutesP
open SymmModel.AssocP SymmModel.Assoc3P SymmModel.Assoc4P SymmModel.Assoc5P SymmModel.Net4P
open SymmModel.OddposP (mergeOddpos)
set_option linter.unusedSectionVars false

section gen
variable {R : Type} [AddCommMonoid R] [Mul R] [Neg R] [SignRing R]

theorem Scal.of_pad {cm c : Arr R} {v : R} (p : PadA cm c) (h : Scal c v) : Scal cm v := by
  have hn : cm.ndim = 0 := p.pad.ndim.trans h.1
  exact ⟨hn, p.oddpos.trans h.2.1, (pad_elem_nil p.pad hn).trans h.2.2⟩

end gen

section main
variable {R : Type} [AddCommMonoid R] [Mul R] [Neg R] [Conj R] [NetLaws R] [AssocLaws R]

/-- the piece `ā·a` in any mode -/
theorem piece_any (hz1 : ∀ x : R, 0 * x = 0) (hz2 : ∀ x : R, x * 0 = 0) {a : Arr R} {xa : List Nat}
    {X : Arr R} (PX : Piece a xa X) (m : TdotMode) :
    ∃ Xm, tdM m (braOf a xa) a (freeAxes a.ndim xa) (freeAxes a.ndim xa) = .ok Xm ∧ PadA Xm X
      ∧ InterW (braOf a xa) a (freeAxes a.ndim xa) (freeAxes a.ndim xa) Xm :=
  pad_call hz1 hz2 (PadA.refl PX.adm.va) (PadA.refl PX.adm.vb) PX.adm PX.adm X PX.call m

/-- the three routes through `Xm = ā·a` that end on `b`, every call in its own mode -/
structure HubHalfM (a b : Arr R) (xa xb : List Nat) (Xm Ym : Arr R) (v : R)
    (m1 m2 m3 m4 m5 : TdotMode) : Prop where
  /-- `(b̄·X)·b` -/
  rBX : ∃ BX c, tdM m1 (braOf b xb) Xm xb (kbQ a.ndim xa) = .ok BX
    ∧ tdM m2 BX b ((kbQ a.ndim xa).map ((freeAxes b.ndim xb).length + ·)
        ++ List.range (freeAxes b.ndim xb).length) (xb ++ freeAxes b.ndim xb) = .ok c ∧ Scal c v
  /-- `(X·b̄)·b` -/
  rXB : ∃ XB c, tdM m3 Xm (braOf b xb) (kbQ a.ndim xa) xb = .ok XB
    ∧ tdM m4 XB b (kbQ a.ndim xa ++ (List.range (freeAxes b.ndim xb).length).map (xa.length + ·))
        (xb ++ freeAxes b.ndim xb) = .ok c ∧ Scal c v
  /-- `X·Y` -/
  rXY : ∃ c, tdM m5 Xm Ym (kbP a.ndim xa) (kbP b.ndim xb) = .ok c ∧ Scal c v

theorem hub_half_any (hz1 : ∀ x : R, 0 * x = 0) (hz2 : ∀ x : R, x * 0 = 0) {a b : Arr R}
    {xa xb : List Nat} {X Y Xm Ym : Arr R} {v : R} (h : Adm a b xa xb)
    (PX : Piece a xa X) (PY : Piece b xb Y) (H : HubHalf a b xa xb X Y v)
    (pX : PadA Xm X) (IXm : InterW (braOf a xa) a (freeAxes a.ndim xa) (freeAxes a.ndim xa) Xm)
    (pY : PadA Ym Y) (IYm : InterW (braOf b xb) b (freeAxes b.ndim xb) (freeAxes b.ndim xb) Ym)
    (m1 m2 m3 m4 m5 : TdotMode) : HubHalfM a b xa xb Xm Ym v m1 m2 m3 m4 m5 := by
  obtain ⟨WbX, WXb'⟩ := piece_guards (xb := xb) h PX
  have hq := kbQ_perm h.nA h.ltA
  have hB' := braOf_adm (adm_swap h)
  have hXmn : Xm.ndim = xa.length + xa.length := pX.pad.ndim.trans PX.nd
  have hnxa : (xa ++ (freeAxes a.ndim xa)).Nodup :=
    (perm_right h.nA h.ltA).nodup_iff.mpr List.nodup_range
  have hnB1 : (xb ++ freeAxes b.ndim xb).Nodup :=
    (perm_right h.nB h.ltB).nodup_iff.mpr List.nodup_range
  have hnB2 : (freeAxes b.ndim xb ++ xb).Nodup :=
    (perm_left h.nB h.ltB).nodup_iff.mpr List.nodup_range
  have hltB1 : ∀ i ∈ xb ++ freeAxes b.ndim xb, i < b.ndim := fun i hi =>
    List.mem_range.mp ((perm_right h.nB h.ltB).mem_iff.mp hi)
  have hPp := kbP_perm h.nA h.ltA
  have hPn : (kbP a.ndim xa).Nodup := hPp.nodup_iff.mpr List.nodup_range
  have hPlt : ∀ i ∈ kbP a.ndim xa, i < Xm.ndim := fun i hi => by
    rw [hXmn]; exact List.mem_range.mp (hPp.mem_iff.mp hi)
  have WBb := PY.adm
  -- the guards of `Xm` with `b̄` and with `b`
  have hc3 : contractibleCommonB (braOf b xb) a [] [] = true := by
    simp [contractibleCommonB]
  have T2 : TriW (braOf b xb) (braOf a xa) a xb [] xa (freeAxes a.ndim xa) (freeAxes a.ndim xa) [] :=
    ⟨AdmW.ofAdm hB', PX.adm, Mid.of (by rw [List.append_nil]; exact h.nB) (by
        rw [List.append_nil]; intro i hi; rw [braOf_ndim]; exact h.ltB i hi),
      Mid.of hnxa (fun i hi => by
        rw [braOf_ndim]; exact List.mem_range.mp ((perm_right h.nA h.ltA).mem_iff.mp hi)),
      Mid.of (by rw [List.append_nil]; exact freeAxes_nodup _ _) (by
        rw [List.append_nil]; exact fun i hi => mem_freeAxes_lt i hi), hc3⟩
  have WbXm : AdmW (braOf b xb) Xm xb (kbQ a.ndim xa) := by
    have := admW_right_triW IXm T2
    rw [List.append_nil, braOf_ndim] at this
    rw [← kbX_eq]
    exact this
  have WXmb : AdmW Xm b ((kbQ a.ndim xa).map (xa.length + ·)) xb := by
    have := admW_left_chainW (C := b) (xb2 := xa) (xc := xb) IXm PX.adm (AdmW.ofAdm h)
      (Mid.of ((perm_left h.nA h.ltA).nodup_iff.mpr List.nodup_range) (fun i hi =>
        List.mem_range.mp ((perm_left h.nA h.ltA).mem_iff.mp hi)))
    unfold AssocP.axesAB at this
    rw [braOf_ndim, sorted_len h.nA h.ltA] at this
    exact this
  have WXmbb := admW_swap WbXm
  -- (b̄·Xm)·b
  obtain ⟨BX, r1, eBX, er1, S1⟩ := H.rBX
  obtain ⟨BXm, eBXm, pBXm, IBXm⟩ := pad_call hz1 hz2 (PadA.refl WbX.va) pX WbXm WbX BX eBX m1
  have T : TriW (braOf b xb) Xm b xb (freeAxes b.ndim xb) (kbQ a.ndim xa)
      ((kbQ a.ndim xa).map (xa.length + ·)) xb (freeAxes b.ndim xb) :=
    ⟨WbXm, WXmb, Mid.of hnB1 (by rw [braOf_ndim]; exact hltB1), Mid.of hPn hPlt, Mid.of hnB1 hltB1,
      WBb.con⟩
  have WBXmb0 := admW_left_triW IBXm T
  rw [braOf_ndim, hXmn, axesAB_bXb hq] at WBXmb0
  have WBXmb := AdmW.comm (by rw [List.length_range]) WBXmb0
  obtain ⟨r1m, er1m, pr1m, _⟩ := pad_call hz1 hz2 pBXm (PadA.refl h.vb) WBXmb (H.wBX BX eBX) r1 er1 m2
  -- (Xm·b̄)·b
  obtain ⟨XB, r3, eXB, er3, S3⟩ := H.rXB
  obtain ⟨XBm, eXBm, pXBm, IXBm⟩ := pad_call hz1 hz2 pX (PadA.refl WbX.va) WXmbb (admW_swap WbX)
    XB eXB m3
  have T' : TriW Xm (braOf b xb) b (kbQ a.ndim xa) ((kbQ a.ndim xa).map (xa.length + ·)) xb
      (freeAxes b.ndim xb) (freeAxes b.ndim xb) xb :=
    ⟨WXmbb, WBb, Mid.of hPn hPlt, Mid.of hnB1 (by rw [braOf_ndim]; exact hltB1),
      Mid.of hnB2 (fun i hi => List.mem_range.mp ((perm_left h.nB h.ltB).mem_iff.mp hi)),
      WXmb.con⟩
  have WXBmb := admW_left_triW IXBm T'
  rw [hXmn, braOf_ndim, axesAB_Xbb hq] at WXBmb
  obtain ⟨r3m, er3m, pr3m, _⟩ := pad_call hz1 hz2 pXBm (PadA.refl h.vb) WXBmb (H.wXB XB eXB) r3 er3 m4
  -- Xm·Ym
  obtain ⟨c, ec, Sc⟩ := H.rXY
  have WXYm := admW_right_triW IYm T'
  rw [braOf_ndim, axesBC_Xbb h.nB h.ltB] at WXYm
  obtain ⟨cm, ecm, pcm, _⟩ := pad_call hz1 hz2 pX pY WXYm H.wXY c ec m5
  exact ⟨⟨BXm, r1m, eBXm, er1m, Scal.of_pad pr1m S1⟩, ⟨XBm, r3m, eXBm, er3m, Scal.of_pad pr3m S3⟩,
    ⟨cm, ecm, Scal.of_pad pcm Sc⟩⟩

/-- all six ket-bra-first routes with every call in its own mode: the two pieces in the modes `md 0`,
    `md 1`, the routes ending on `b` in `md 2 … md 6`, those ending on `a` in `md 7 … md 11` -/
def KetBraAllM (a b : Arr R) (xa xb : List Nat) (md : Nat → TdotMode) : Prop :=
  ∃ K Xm Ym, a.tensordotF b (.pair (xa.map Int.ofNat) (xb.map Int.ofNat)) .blockwise = .ok K
    ∧ tdM (md 0) (braOf a xa) a (freeAxes a.ndim xa) (freeAxes a.ndim xa) = .ok Xm
    ∧ Xm.oddpos = []
    ∧ tdM (md 1) (braOf b xb) b (freeAxes b.ndim xb) (freeAxes b.ndim xb) = .ok Ym
    ∧ Ym.oddpos = []
    ∧ HubHalfM a b xa xb Xm Ym (normSq K) (md 2) (md 3) (md 4) (md 5) (md 6)
    ∧ HubHalfM b a xb xa Ym Xm (normSq K) (md 7) (md 8) (md 9) (md 10) (md 11)

theorem ketbra_all_any (hz1 : ∀ x : R, 0 * x = 0) (hz2 : ∀ x : R, x * 0 = 0) {a b : Arr R}
    {xa xb : List Nat} (h : Adm a b xa xb) (H : KetBraAll a b xa xb) (md : Nat → TdotMode) :
    KetBraAllM a b xa xb md := by
  obtain ⟨K, X, Y, eK, PX, PY, H1, H2⟩ := H
  obtain ⟨Xm, eXm, pX, IXm⟩ := piece_any hz1 hz2 PX (md 0)
  obtain ⟨Ym, eYm, pY, IYm⟩ := piece_any hz1 hz2 PY (md 1)
  exact ⟨K, Xm, Ym, eK, eXm, pX.oddpos.trans PX.odd, eYm, pY.oddpos.trans PY.odd,
    hub_half_any hz1 hz2 h PX PY H1 pX IXm pY IYm _ _ _ _ _,
    hub_half_any hz1 hz2 (adm_swap h) PY PX H2 pY IYm pX IXm _ _ _ _ _⟩

end main

end SymmModel.NormNet
