/-
  SymmModel.Proofs.FuseCommuteG4 — C06, first clause, FERMIONIC, ARBITRARY contracted legs (any
  positions, any order, no preliminary transposition): `bond_fuse_fermi_gen` (aligned operands) and
  the public route `fuse_contracted_fermi_gen` (align, fermionic fuse of the contracted legs of each
  operand, `tensordot_fermionic` over the single fused pair = `tensordot_fermionic` over the original
  pairs; blockwise).  Namespace `SymmModel.TdotP`.
-/
import SymmModel.Proofs.FuseCommuteG3

namespace SymmModel
namespace TdotP
open SymmModel.KoszulP SymmModel.Lazy SymmModel.GradedP SymmModel.RoutesP SymmModel.AssocP
variable {R : Type}
set_option linter.unusedSectionVars false

/-- the two fused operands satisfy the weak guard for the single fused pair (any two synchronised
    arrays whose kind-erased copies form an aligned abelian pair) -/
theorem admW_fused_ab [AddCommMonoid R] [Mul R] [Neg R] [SignRing R] {X Y : Arr R} {g h : List Nat}
    (H0 : Ctx0 (ab X) (ab Y) g h) (oX : OneOk X g) (oY : OneOk Y h)
    (hvAF : (FuseP.fusedArrM X [g]).validB = true) (hvBF : (FuseP.fusedArrM Y [h]).validB = true)
    (fX : X.fermi = true) (fY : Y.fermi = true) :
    AdmW (FuseP.fusedArrM X [g]) (FuseP.fusedArrM Y [h]) [bondPos X g] [bondPos Y h] := by
  have gA0 : ([g] : List (List Nat))[0]? = some g := rfl
  have gB0 : ([h] : List (List Nat))[0]? = some h := rfl
  have hrA : ∀ x ∈ ([bondPos X g] : List Nat), x < (FuseP.fusedArrM X [g]).ndim := by
    intro i hi
    simp only [List.mem_cons, List.not_mem_nil, or_false] at hi
    rw [hi, one_ndim oX]; exact one_pos_lt_ndimM oX
  have hrB : ∀ x ∈ ([bondPos Y h] : List Nat), x < (FuseP.fusedArrM Y [h]).ndim := by
    intro i hi
    simp only [List.mem_cons, List.not_mem_nil, or_false] at hi
    rw [hi, one_ndim oY]; exact one_pos_lt_ndimM oY
  obtain ⟨bm1, _, bm3⟩ := H0.bond_match (show OneOk (ab X) g from ⟨oX.ne, oX.nd, oX.lt⟩).groupsOk
    (show OneOk (ab Y) h from ⟨oY.ne, oY.nd, oY.lt⟩).groupsOk gA0 gB0
  have bm1' : (FuseP.ixM X [g] 0).cm = (FuseP.ixM Y [h] 0).cm := bm1
  have bm3' : (FuseP.ixM X [g] 0).dual = !(FuseP.ixM Y [h] 0).dual := bm3
  have hcB : ValidP.contractibleB (FuseP.fusedArrM X [g]) (FuseP.fusedArrM Y [h]) [bondPos X g]
      [bondPos Y h] = true := by
    have e1 : (FuseP.fusedArrM X [g]).indices.getD (bondPos X g) default = FuseP.ixM X [g] 0 := rfl
    have e2 : (FuseP.fusedArrM Y [h]).indices.getD (bondPos Y h) default = FuseP.ixM Y [h] 0 := rfl
    simp only [ValidP.contractibleB, List.length_cons, List.length_nil, beq_self_eq_true, List.zip_cons_cons,
      List.zip_nil_right, List.all_cons, List.all_nil, Bool.and_true, Bool.true_and, e1, e2, bm1', bm3',
      bne_iff_ne, ne_eq]
    cases (FuseP.ixM Y [h] 0).dual <;> simp
  exact ⟨hvAF, hvBF, fX, fY, H0.sym, commonB_of_contractibleB hvAF hrA hcB, by simp, by simp, hrA, hrB⟩

/-- **fermionic: contracting the single fused pair = contracting the original pairs** (aligned
    operands, ARBITRARY contracted legs, blockwise mode). -/
theorem bond_fuse_fermi_gen [AddCommMonoid R] [Mul R] [Neg R] [SignRing R]
    (hz1 : ∀ x : R, 0 * x = 0) (hz2 : ∀ x : R, x * 0 = 0) {A B : Arr R} {xa xb : List Nat}
    (h : FCtxG A B xa xb) (e1 e2 : Bool) :
    A.fuseF [xa] .insert e1 = .ok (FuseP.fusedArrM (FuseP.signAdj A [xa]) [newG A xa])
    ∧ B.fuseF [xb] .insert e2 = .ok (FuseP.fusedArrM (FuseP.signAdj B [xb]) [newG B xb])
    ∧ AdmW (FuseP.fusedArrM (FuseP.signAdj A [xa]) [newG A xa])
        (FuseP.fusedArrM (FuseP.signAdj B [xb]) [newG B xb]) [bondPos A xa] [bondPos B xb]
    ∧ (FuseP.fusedArrM (FuseP.signAdj A [xa]) [newG A xa]).ndim + xa.length = A.ndim + 1
    ∧ (FuseP.fusedArrM (FuseP.signAdj B [xb]) [newG B xb]).ndim + xb.length = B.ndim + 1
    ∧ (∀ e, A.tensordotF B (.pair (xa.map Int.ofNat) (xb.map Int.ofNat)) .blockwise = .error e →
        (FuseP.fusedArrM (FuseP.signAdj A [xa]) [newG A xa]).tensordotF
          (FuseP.fusedArrM (FuseP.signAdj B [xb]) [newG B xb])
          (.pair [Int.ofNat (bondPos A xa)] [Int.ofNat (bondPos B xb)]) .blockwise = .error e)
    ∧ ∀ c, A.tensordotF B (.pair (xa.map Int.ofNat) (xb.map Int.ofNat)) .blockwise = .ok c →
      ∃ cf, (FuseP.fusedArrM (FuseP.signAdj A [xa]) [newG A xa]).tensordotF
            (FuseP.fusedArrM (FuseP.signAdj B [xb]) [newG B xb])
            (.pair [Int.ofNat (bondPos A xa)] [Int.ofNat (bondPos B xb)]) .blockwise = .ok cf
        ∧ cf.oddpos = c.oddpos ∧ cf.charge = c.charge ∧ cf.sym = c.sym ∧ cf.fermi = c.fermi
        ∧ cf.ndim = c.ndim
        ∧ ∀ (Ls Rs : Sector) (oL oR shpL shpR : List Nat),
            Arr.blockShape? (permuted A.indices (freeAxes A.ndim xa)) Ls = some shpL → inBox shpL oL = true →
            Arr.blockShape? (permuted B.indices (freeAxes B.ndim xb)) Rs = some shpR → inBox shpR oR = true →
            cf.elem (Ls ++ Rs) (oL ++ oR) = c.elem (Ls ++ Rs) (oL ++ oR) := by
  have W := h.W
  have hlen := W.len
  have oA := h.oneA
  have oB := h.oneB
  have LA := lay_one oA
  have LB := lay_one oB
  have hfuseA := (FuseP.fuseF_elemT A [xa] e1 W.va W.fa oA.groupsOk).1
  rw [one_newGroupsF oA] at hfuseA
  have hfuseB := (FuseP.fuseF_elemT B [xb] e2 W.vb W.fb oB.groupsOk).1
  rw [one_newGroupsF oB] at hfuseB
  have hadmA : ValidP.fuseAdmissibleB [xa] A.ndim = true := by
    simp only [ValidP.fuseAdmissibleB, Bool.and_eq_true, List.all_eq_true, decide_eq_true_eq]
    exact ⟨allDistinct_iff_nodup.mpr oA.groupsOk.nodup, oA.groupsOk.lt⟩
  have hadmB : ValidP.fuseAdmissibleB [xb] B.ndim = true := by
    simp only [ValidP.fuseAdmissibleB, Bool.and_eq_true, List.all_eq_true, decide_eq_true_eq]
    exact ⟨allDistinct_iff_nodup.mpr oB.groupsOk.nodup, oB.groupsOk.lt⟩
  have hvAF : (FuseP.fusedArrM (FuseP.signAdj A [xa]) [newG A xa]).validB = true :=
    (ValidP.validB_iff _).mpr
      (ValidP.fuseF_valid A _ _ e1 ((ValidP.validB_iff A).mp W.va) W.fa hadmA hfuseA)
  have hvBF : (FuseP.fusedArrM (FuseP.signAdj B [xb]) [newG B xb]).validB = true :=
    (ValidP.validB_iff _).mpr
      (ValidP.fuseF_valid B _ _ e2 ((ValidP.validB_iff B).mp W.vb) W.fb hadmB hfuseB)
  have PX := prepared_signAdj A W.va W.fa oA
  have PY := prepared_signAdj B W.vb W.fb oB
  obtain ⟨_, _, xS, xF, xCh, xOd⟩ := FuseP.signAdj_fields A [xa]
  obtain ⟨_, _, yS, yF, yCh, yOd⟩ := FuseP.signAdj_fields B [xb]
  have xV := (ValidP.validB_iff _).mpr (FuseP.signAdj_valid A [xa] W.va W.fa oA.groupsOk)
  have yV := (ValidP.validB_iff _).mpr (FuseP.signAdj_valid B [xb] W.vb W.fb oB.groupsOk)
  refine ⟨hfuseA, hfuseB, ?_⟩
  clear hfuseA hfuseB
  generalize FuseP.signAdj A [xa] = X at *
  generalize FuseP.signAdj B [xb] = Y at *
  have hXn : X.ndim = A.ndim := by
    show X.indices.length = _; rw [PX.indices]; exact LA.plen A.indices rfl
  have hYn : Y.ndim = B.ndim := by
    show Y.indices.length = _; rw [PY.indices]; exact LB.plen B.indices rfl
  obtain ⟨oAX, hposA⟩ := newG_one (X' := X) oA hXn
  obtain ⟨oBX, hposB⟩ := newG_one (X' := Y) oB hYn
  have hbA : bondPos X (newG A xa) = bondPos A xa := hposA
  have hbB : bondPos Y (newG B xb) = bondPos B xb := hposB
  have H0 : Ctx0 (ab X) (ab Y) (newG A xa) (newG B xb) := ctx0_of_fctxG h PX PY xS yS xV yV
  have W' := admW_fused_ab H0 oAX oBX hvAF hvBF (xF.trans W.fa) (yF.trans W.fb)
  -- ranks
  have hflA : (freeAxes A.ndim (newG A xa)).length = (freeAxes A.ndim xa).length := by
    have h1 := congrArg List.length (LA.free (List.range A.ndim) List.length_range)
    rw [permuted_length _ _ (by
        intro x hx
        rw [LA.plen _ List.length_range]; exact (mem_freeAxes.mp hx).1),
      permuted_length _ _ (by intro x hx; rw [List.length_range]; exact (mem_freeAxes.mp hx).1)] at h1
    exact h1
  have hflB : (freeAxes B.ndim (newG B xb)).length = (freeAxes B.ndim xb).length := by
    have h1 := congrArg List.length (LB.free (List.range B.ndim) List.length_range)
    rw [permuted_length _ _ (by
        intro x hx
        rw [LB.plen _ List.length_range]; exact (mem_freeAxes.mp hx).1),
      permuted_length _ _ (by intro x hx; rw [List.length_range]; exact (mem_freeAxes.mp hx).1)] at h1
    exact h1
  have l1 : (freeAxes (FuseP.ndimM X [newG A xa]) [(FuseP.giM X [newG A xa]).position]).length
      = (freeAxes A.ndim xa).length := by rw [one_free_length oAX, hXn, hflA]
  have l2 : (freeAxes (FuseP.ndimM Y [newG B xb]) [(FuseP.giM Y [newG B xb]).position]).length
      = (freeAxes B.ndim xb).length := by rw [one_free_length oBX, hYn, hflB]
  have nd1 : (FuseP.fusedArrM X [newG A xa]).ndim + xa.length = A.ndim + 1 := by
    rw [one_ndim oAX, one_ndimM oAX]
    have e1 := one_lengths oAX
    rw [newG_length, hXn] at e1
    omega
  have nd2 : (FuseP.fusedArrM Y [newG B xb]).ndim + xb.length = B.ndim + 1 := by
    rw [one_ndim oBX, one_ndimM oBX]
    have e1 := one_lengths oBX
    rw [newG_length, hYn] at e1
    omega
  rw [← hbA, ← hbB]
  refine ⟨W', nd1, nd2, ?_⟩
  have hPpar : (FuseP.fusedArrM X [newG A xa]).parity = A.parity := by
    show X.sym.parity X.charge = A.sym.parity A.charge
    rw [xS, xCh]
  have hcall : (FuseP.fusedArrM X [newG A xa]).tensordotF (FuseP.fusedArrM Y [newG B xb])
      (.pair [Int.ofNat (bondPos X (newG A xa))] [Int.ofNat (bondPos Y (newG B xb))]) .blockwise
      = (OddposP.mergeOddpos A.parity A.oddpos B.oddpos).map
          (finish (coreT (FuseP.fusedArrM X [newG A xa]) (FuseP.fusedArrM Y [newG B xb])
            [bondPos X (newG A xa)] [bondPos Y (newG B xb)])) := by
    have := tensordotF_eq_core_w _ _ _ _ W'
    simp only [List.map_cons, List.map_nil] at this
    rw [this, hPpar]
    show (OddposP.mergeOddpos A.parity X.oddpos Y.oddpos).map _ = _
    rw [xOd, yOd]
  have horig := tensordotF_eq_core_w A B xa xb W
  constructor
  · intro e he
    rw [horig] at he
    rw [hcall]
    cases hm : OddposP.mergeOddpos A.parity A.oddpos B.oddpos with
    | error e' => rw [hm] at he; simp only [Except.map] at he ⊢; exact he
    | ok r => rw [hm] at he; simp only [Except.map] at he; cases he
  · intro c hc
    rw [horig] at hc
    cases hm : OddposP.mergeOddpos A.parity A.oddpos B.oddpos with
    | error e' => rw [hm] at hc; cases hc
    | ok r =>
    rw [hm] at hc
    simp only [Except.map, Except.ok.injEq] at hc
    have F := coreT_frame_w A B xa xb W
    have F' := coreT_frame_w _ _ _ _ W'
    obtain ⟨g1, g2, g3, g4, g5, g6⟩ := finish_fields (coreT A B xa xb) r
    obtain ⟨k1, k2, k3, k4, k5, k6⟩ := finish_fields
      (coreT (FuseP.fusedArrM X [newG A xa]) (FuseP.fusedArrM Y [newG B xb])
        [bondPos X (newG A xa)] [bondPos Y (newG B xb)]) r
    rw [hc] at g1 g2 g3 g4 g5 g6
    refine ⟨_, by rw [hcall, hm]; rfl, k6.trans g6.symm, ?_, ?_, ?_, ?_, ?_⟩
    · rw [k1, F'.charge, g1, F.charge]
      show X.sym.combine [X.charge, Y.charge] = _
      rw [xS, xCh, yCh]
    · rw [k2, F'.sym, g2, F.sym]; exact xS
    · rw [k3, F'.fermi, g3, F.fermi]; exact xF
    · show (finish _ r).indices.length = c.indices.length
      rw [k4, g4, F'.indices, F.indices, dropUnused_length, dropUnused_length,
        List.length_append, List.length_append, without_length, without_length, without_length,
        without_length]
      have eFA : (FuseP.fusedArrM X [newG A xa]).indices.length = FuseP.ndimM X [newG A xa] := one_ndim oAX
      have eFB : (FuseP.fusedArrM Y [newG B xb]).indices.length = FuseP.ndimM Y [newG B xb] := one_ndim oBX
      have ean : A.indices.length = A.ndim := rfl
      have ebn : B.indices.length = B.ndim := rfl
      rw [eFA, eFB, ean, ebn]
      show (freeAxes (FuseP.ndimM X [newG A xa]) [(FuseP.giM X [newG A xa]).position]).length
        + (freeAxes (FuseP.ndimM Y [newG B xb]) [(FuseP.giM Y [newG B xb]).position]).length = _
      rw [l1, l2]
    · intro Ls Rs oL oR shpL shpR hshpL hboxL hshpR hboxR
      have hshpLX : Arr.blockShape? (permuted X.indices (freeAxes X.ndim (newG A xa))) Ls = some shpL := by
        rw [hXn, PX.indices, LA.free A.indices rfl]; exact hshpL
      have hshpRY : Arr.blockShape? (permuted Y.indices (freeAxes Y.ndim (newG B xb))) Rs = some shpR := by
        rw [hYn, PY.indices, LB.free B.indices rfl]; exact hshpR
      obtain ⟨bF, lF⟩ := box_of_parts (fused_free_shape oAX hshpLX) hboxL (fused_free_shape oBX hshpRY) hboxR
      obtain ⟨bA, lA⟩ := box_of_parts hshpL hboxL hshpR hboxR
      have key := gradedContract_bond_fuse_gen hz1 hz2 h PX PY xS yS xV yV xCh hvAF hvBF
        hshpL hboxL hshpR hboxR
      rw [← hbA, ← hbB] at key
      rw [finish_elem _ _ (coreFrame_signOk F'), F'.elem _ _ _ lF bF, key,
        ← hc, finish_elem _ _ (coreFrame_signOk F), F.elem _ _ _ lA bA]

/-- the aligned operands of a fermionic pair satisfying the weak guard form an `FCtxG` -/
theorem fctxG_of_dropMisaligned [AddCommMonoid R] [Mul R] [Neg R] [SignRing R] (a b : Arr R) (xa xb : List Nat)
    (W : AdmW a b xa xb) (hne : xa ≠ []) :
    FCtxG (dropMisaligned a b xa xb).1 (dropMisaligned a b xa xb).2 xa xb := by
  obtain ⟨n1, n2⟩ := dropMisaligned_ndim a b xa xb
  obtain ⟨v1, v2⟩ := ValidP.dropMisaligned_valid a b xa xb ((ValidP.validB_iff a).mp W.va)
    ((ValidP.validB_iff b).mp W.vb)
  have v1' := (ValidP.validB_iff _).mpr v1
  have v2' := (ValidP.validB_iff _).mpr v2
  have hla : ∀ s ∈ a.sectors, s.length = a.ndim := fun s hs =>
    Arr.sector_length (Arr.shapesOk_of_validB W.va) hs
  have hlb : ∀ s ∈ b.sectors, s.length = b.ndim := fun s hs =>
    Arr.sector_length (Arr.shapesOk_of_validB W.vb) hs
  obtain ⟨hcm, hdual⟩ := aligned_cm_dual_w a b xa xb W.va W.vb W.ltA W.ltB W.con
  obtain ⟨hsubA, hsubB⟩ := sectors_dropMisaligned_sub a b xa xb
  have hlen : xa.length = xb.length := commonB_len W.con
  have hcon : contractibleCommonB (dropMisaligned a b xa xb).1 (dropMisaligned a b xa xb).2 xa xb = true := by
    unfold contractibleCommonB
    simp only [Bool.and_eq_true, beq_iff_eq, List.all_eq_true, bne_iff_ne, ne_eq]
    refine ⟨hlen, ?_⟩
    intro p hp
    obtain ⟨t, ht1, ht2⟩ := mem_zip_getElem? hp
    have h1 := congrArg (fun l => l[t]?) hcm
    have h2 := congrArg (fun l => l[t]?) hdual
    simp only [List.getElem?_map, ht1, ht2, Option.map_some, Option.some.injEq] at h1 h2
    have hi : p.1 < (dropMisaligned a b xa xb).1.indices.length := by
      show p.1 < (dropMisaligned a b xa xb).1.ndim
      rw [n1]; exact W.ltA _ (List.mem_of_getElem? ht1)
    constructor
    · rw [← h1]
      apply cmAgree_self
      apply keys_nodup_of_validB v1'
      rw [List.getD_eq_getElem?_getD, List.getElem?_eq_getElem hi]
      exact List.getElem_mem hi
    · rw [h2]
      cases ((dropMisaligned a b xa xb).1.indices.getD p.1 default).dual <;> simp
  refine ⟨⟨v1', v2', W.fa, W.fb, W.sym, hcon, W.nA, W.nB, by rw [n1]; exact W.ltA, by rw [n2]; exact W.ltB⟩,
    hne, hcm, hdual, ?_⟩
  intro K
  have eA : (dropMisaligned a b xa xb).1.blocks.map (fun sb => xa.map (fun ax => sb.1.getD ax (0, 0)))
      = subKeys (dropMisaligned a b xa xb).1 xa := by
    simp only [subKeys, Arr.sectors, List.map_map]
    apply List.map_congr_left
    intro sb hsb
    have hl : sb.1.length = a.ndim := hla _ (hsubA _ (List.mem_map.mpr ⟨sb, hsb, rfl⟩))
    exact (permuted_eq_map _ _ (by rw [hl]; exact W.ltA) (0, 0)).symm
  have eB : (dropMisaligned a b xa xb).2.blocks.map (fun sb => xb.map (fun ax => sb.1.getD ax (0, 0)))
      = subKeys (dropMisaligned a b xa xb).2 xb := by
    simp only [subKeys, Arr.sectors, List.map_map]
    apply List.map_congr_left
    intro sb hsb
    have hl : sb.1.length = b.ndim := hlb _ (hsubB _ (List.mem_map.mpr ⟨sb, hsb, rfl⟩))
    exact (permuted_eq_map _ _ (by rw [hl]; exact W.ltB) (0, 0)).symm
  rw [eA, eB]
  exact aligned_keys a b xa xb K

/-- **C06, first clause, fermionic, public route (blockwise), ARBITRARY contracted legs.** -/
theorem fuse_contracted_fermi_gen [AddCommMonoid R] [Mul R] [Neg R] [SignRing R]
    (hz1 : ∀ x : R, 0 * x = 0) (hz2 : ∀ x : R, x * 0 = 0) (a b : Arr R) (xa xb : List Nat)
    (W : AdmW a b xa xb) (hne : xa ≠ []) (e1 e2 : Bool) :
    ∃ af bf, (dropMisaligned a b xa xb).1.fuseF [xa] .insert e1 = .ok af
      ∧ (dropMisaligned a b xa xb).2.fuseF [xb] .insert e2 = .ok bf
      ∧ AdmW af bf [bondPos a xa] [bondPos b xb]
      ∧ af.ndim + xa.length = a.ndim + 1 ∧ bf.ndim + xb.length = b.ndim + 1
      ∧ (∀ e, a.tensordotF b (.pair (xa.map Int.ofNat) (xb.map Int.ofNat)) .blockwise = .error e →
          af.tensordotF bf (.pair [Int.ofNat (bondPos a xa)] [Int.ofNat (bondPos b xb)]) .blockwise = .error e)
      ∧ ∀ c, a.tensordotF b (.pair (xa.map Int.ofNat) (xb.map Int.ofNat)) .blockwise = .ok c →
        ∃ cf, af.tensordotF bf (.pair [Int.ofNat (bondPos a xa)] [Int.ofNat (bondPos b xb)]) .blockwise = .ok cf
          ∧ cf.oddpos = c.oddpos ∧ cf.charge = c.charge ∧ cf.sym = c.sym ∧ cf.fermi = c.fermi
          ∧ cf.ndim = c.ndim
          ∧ ∀ (Ls Rs : Sector) (oL oR shpL shpR : List Nat),
              Arr.blockShape? (permuted (dropMisaligned a b xa xb).1.indices (freeAxes a.ndim xa)) Ls = some shpL →
              inBox shpL oL = true →
              Arr.blockShape? (permuted (dropMisaligned a b xa xb).2.indices (freeAxes b.ndim xb)) Rs = some shpR →
              inBox shpR oR = true →
              cf.elem (Ls ++ Rs) (oL ++ oR) = c.elem (Ls ++ Rs) (oL ++ oR) := by
  obtain ⟨n1, n2⟩ := dropMisaligned_ndim a b xa xb
  have h := fctxG_of_dropMisaligned a b xa xb W hne
  obtain ⟨f1, f2, W', nd1, nd2, herr, hok⟩ := bond_fuse_fermi_gen hz1 hz2 h e1 e2
  have hbA : bondPos (dropMisaligned a b xa xb).1 xa = bondPos a xa := rfl
  have hbB : bondPos (dropMisaligned a b xa xb).2 xb = bondPos b xb := rfl
  rw [hbA, hbB] at W' herr hok
  rw [n1] at nd1
  rw [n2] at nd2
  have W0 := h.W
  have horig := tensordotF_eq_core_w a b xa xb W
  have halig := tensordotF_eq_core_w _ _ xa xb W0
  have hpar : (dropMisaligned a b xa xb).1.parity = a.parity := rfl
  have hod1 : (dropMisaligned a b xa xb).1.oddpos = a.oddpos := rfl
  have hod2 : (dropMisaligned a b xa xb).2.oddpos = b.oddpos := rfl
  rw [hpar, hod1, hod2] at halig
  refine ⟨_, _, f1, f2, W', nd1, nd2, ?_, ?_⟩
  · intro e he
    apply herr e
    rw [halig]; rw [horig] at he
    cases hm : OddposP.mergeOddpos a.parity a.oddpos b.oddpos with
    | error e' => rw [hm] at he; simp only [Except.map] at he ⊢; exact he
    | ok r => rw [hm] at he; simp only [Except.map] at he; cases he
  · intro c hc
    rw [horig] at hc
    cases hm : OddposP.mergeOddpos a.parity a.oddpos b.oddpos with
    | error e' => rw [hm] at hc; cases hc
    | ok r =>
    rw [hm] at hc halig
    simp only [Except.map, Except.ok.injEq] at hc
    obtain ⟨cf, k1, k2, k3, k4, k5, k6, kE⟩ := hok _ halig
    have F := coreT_frame_w a b xa xb W
    have F0 := coreT_frame_w _ _ xa xb W0
    obtain ⟨g1, g2, g3, g4, g5, g6⟩ := finish_fields (coreT a b xa xb) r
    obtain ⟨j1, j2, j3, j4, j5, j6⟩ := finish_fields
      (coreT (dropMisaligned a b xa xb).1 (dropMisaligned a b xa xb).2 xa xb) r
    rw [hc] at g1 g2 g3 g4 g5 g6
    refine ⟨cf, k1, ?_, ?_, ?_, ?_, ?_, ?_⟩
    · rw [k2, j6, g6]
    · rw [k3, j1, F0.charge, g1, F.charge]; rfl
    · rw [k4, j2, F0.sym, g2, F.sym]; rfl
    · rw [k5, j3, F0.fermi, g3, F.fermi]; rfl
    · rw [k6]
      show (finish _ r).indices.length = c.indices.length
      rw [j4, g4, F0.indices, F.indices, dropUnused_length, dropUnused_length,
        List.length_append, List.length_append, without_length, without_length, without_length,
        without_length]
      show (freeAxes (dropMisaligned a b xa xb).1.ndim xa).length
        + (freeAxes (dropMisaligned a b xa xb).2.ndim xb).length = _
      rw [n1, n2]; rfl
    · intro Ls Rs oL oR shpL shpR hshpL hboxL hshpR hboxR
      rw [← n1] at hshpL
      rw [← n2] at hshpR
      rw [kE Ls Rs oL oR shpL shpR hshpL hboxL hshpR hboxR]
      obtain ⟨bA, lA⟩ := box_of_parts hshpL hboxL hshpR hboxR
      have hfr : List.Forall₂ SizeLe
          (without (dropMisaligned a b xa xb).1.indices xa ++ without (dropMisaligned a b xa xb).2.indices xb)
          (without a.indices xa ++ without b.indices xb) := by
        rw [without_eq_permuted_freeAxes, without_eq_permuted_freeAxes, without_eq_permuted_freeAxes,
          without_eq_permuted_freeAxes]
        have e1 : (dropMisaligned a b xa xb).1.indices.length = a.indices.length := n1
        have e2 : (dropMisaligned a b xa xb).2.indices.length = b.indices.length := n2
        rw [e1, e2]
        exact forall₂_append (forall₂_permuted (dropUnused_sizeLe _ _) _)
          (forall₂_permuted (dropUnused_sizeLe _ _) _)
      have ean : (dropMisaligned a b xa xb).1.indices.length = (dropMisaligned a b xa xb).1.ndim := rfl
      have ebn : (dropMisaligned a b xa xb).2.indices.length = (dropMisaligned a b xa xb).2.ndim := rfl
      have hsh : Arr.blockShape? (without (dropMisaligned a b xa xb).1.indices xa
          ++ without (dropMisaligned a b xa xb).2.indices xb) (Ls ++ Rs) = some (shpL ++ shpR) := by
        rw [without_eq_permuted_freeAxes, without_eq_permuted_freeAxes, ean, ebn]
        exact blockShape?_append hshpL hshpR
      have hsh' := blockShape?_weaken hfr _ _ hsh
      have bA' : inBox (Arr.blockShapeD (without a.indices xa ++ without b.indices xb) (Ls ++ Rs)) (oL ++ oR) = true := by
        unfold Arr.blockShapeD at bA ⊢
        rw [hsh] at bA; rw [hsh']; exact bA
      rw [n1] at lA
      rw [finish_elem _ _ (coreFrame_signOk F0), F0.elem _ _ _ (by rw [n1]; exact lA) bA,
        gradedContract_dropMisaligned a b xa xb W.va W.vb, ← hc, finish_elem _ _ (coreFrame_signOk F),
        F.elem _ _ _ lA bA']

end TdotP
end SymmModel
