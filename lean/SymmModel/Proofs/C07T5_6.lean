/-
  SymmModel.Proofs.C07T5_6 — kernel-checked planner table, shapes with 5 axes whose first
  axis has size 6 (one chunk per size of the second axis; ~1 800 shape/target pairs each,
  every pair forward and back).  `decide +kernel` only.
-/
import SymmModel.Model.ReshapePlan
namespace SymmModel.C07

theorem table_5_6_1 : chunkOk [6, 1] 3 = true := by decide +kernel
theorem table_5_6_2 : chunkOk [6, 2] 3 = true := by decide +kernel
theorem table_5_6_3 : chunkOk [6, 3] 3 = true := by decide +kernel
theorem table_5_6_4 : chunkOk [6, 4] 3 = true := by decide +kernel
theorem table_5_6_6 : chunkOk [6, 6] 3 = true := by decide +kernel

end SymmModel.C07
