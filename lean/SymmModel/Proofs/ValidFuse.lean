/-
  SymmModel.Proofs.ValidFuse — `unfuse` returns a valid array (property C01, fuse/unfuse item,
  part A).  The proof uses exactly the `extentOk` bookkeeping that `Index.wfB` demands of a
  fused index: every sub-sector of the extent of the old charge has one charge per sub-index,
  size = product of the sub-sizes, and its signed combination relative to the fused direction
  is the fused charge.

  Nothing here changes a model definition; `unfStep`/`unfPiece`/`unfuseA'` are verbatim copies
  of the loop bodies of `unfuseA` (`unfuseA_eq'` is `rfl`).
-/
import SymmModel.Proofs.ValidTdot
import SymmModel.Model.Fuse
namespace SymmModel
namespace ValidP
open Sym
variable {R : Type}

/-- one piece of `unfuse` (copy of the model text) -/
def unfPiece [Zero R] (subIdx : List Index) (axis : Nat) (sector : Sector) (array : Blk R) :
    (Sector × Nat) × Nat → Except Err (Sector × Blk R) :=
  fun ((subsector, d), st) => do
      let subshape ← match Arr.blockShape? subIdx subsector with
        | some s => pure s
        | none => throw Err.key
      let lens := array.shape.set axis d
      let piece := array.sliceK ((List.replicate array.shape.length 0).set axis st) lens
      pure (replaceWithSeq sector axis subsector,
            piece.reshapeK (replaceWithSeq array.shape axis subshape))

/-- the body of the loop over blocks of `unfuse` (copy of the model text) -/
def unfStep [Zero R] (subIdx : List Index) (exts : Extents) (axis : Nat)
    (acc : List (Sector × Blk R)) (sb : Sector × Blk R) : Except Err (List (Sector × Blk R)) := do
    let (sector, array) := sb
    let oldCharge := sector.getD axis (0, 0)
    let ext ← match alookup exts oldCharge with
      | some e => pure e
      | none => throw Err.key
    let starts := offsets (ext.map (·.2))
    let pieces ← (ext.zip starts).mapM (unfPiece subIdx axis sector array)
    pure (pieces.foldl (fun m (k, v) => ainsert m k v) acc)

def unfuseA' [Zero R] (a : Arr R) (axis : Nat) : Except Err (Arr R) := do
  let ix ← match a.indices[axis]? with
    | some ix => pure ix
    | none => throw Err.index
  let (subIdx, exts) ← match ix.sub with
    | some s => pure s
    | none => throw Err.attr
  let newBlocks ← a.blocks.foldlM (unfStep subIdx exts axis) []
  pure { a with indices := replaceWithSeq a.indices axis subIdx, blocks := newBlocks }

theorem unfuseA_eq' [Zero R] (a : Arr R) (axis : Nat) : unfuseA a axis = unfuseA' a axis := rfl

theorem unfPiece_ok [Zero R] {subIdx : List Index} {axis : Nat} {sector : Sector} {array : Blk R}
    {x : (Sector × Nat) × Nat} {y : Sector × Blk R} (h : unfPiece subIdx axis sector array x = .ok y) :
    ∃ subshape, Arr.blockShape? subIdx x.1.1 = some subshape ∧
      y = (replaceWithSeq sector axis x.1.1,
        (array.sliceK ((List.replicate array.shape.length 0).set axis x.2)
          (array.shape.set axis x.1.2)).reshapeK (replaceWithSeq array.shape axis subshape)) := by
  obtain ⟨⟨ss, d⟩, st⟩ := x
  unfold unfPiece at h
  simp only at h
  cases hb : Arr.blockShape? subIdx ss with
  | none => rw [hb] at h; cases h
  | some shp =>
    rw [hb] at h
    refine ⟨shp, rfl, ?_⟩
    cases h; rfl

theorem unfStep_ok [Zero R] {subIdx : List Index} {exts : Extents} {axis : Nat}
    {acc acc' : List (Sector × Blk R)} {sb : Sector × Blk R}
    (h : unfStep subIdx exts axis acc sb = .ok acc') :
    ∃ ext pieces, alookup exts (sb.1.getD axis (0, 0)) = some ext ∧
      (ext.zip (offsets (ext.map (·.2)))).mapM (unfPiece subIdx axis sb.1 sb.2) = .ok pieces ∧
      acc' = pieces.foldl (fun m x => ainsert m x.1 x.2) acc := by
  obtain ⟨sector, array⟩ := sb
  unfold unfStep at h
  simp only at h
  cases he : alookup exts (sector.getD axis (0, 0)) with
  | none => rw [he] at h; cases h
  | some ext =>
    rw [he] at h
    cases hp : (ext.zip (offsets (ext.map (·.2)))).mapM (unfPiece subIdx axis sector array) with
    | error e => 
      simp only [pure_bind] at h
      rw [hp] at h; cases h
    | ok pieces =>
      simp only [pure_bind] at h
      rw [hp] at h
      refine ⟨ext, pieces, rfl, hp, ?_⟩
      cases h; rfl

/-! ### inversion lemmas for `foldlM` / `mapM` in `Except` -/

theorem foldlM_ok_inv {α β ε : Type} (P : β → Prop) (f : β → α → Except ε β) (l : List α) (b r : β)
    (hb : P b) (hf : ∀ b x b', x ∈ l → P b → f b x = .ok b' → P b')
    (h : l.foldlM f b = .ok r) : P r := by
  induction l generalizing b with
  | nil => simp only [List.foldlM_nil] at h; cases h; exact hb
  | cons x xs ih =>
    rw [List.foldlM_cons] at h
    cases hx : f b x with
    | error e => rw [hx] at h; cases h
    | ok b' =>
      rw [hx] at h
      exact ih b' (hf b x b' (by simp) hb hx) (fun b y b'' hy => hf b y b'' (by simp [hy])) h

theorem mapM_ok_forall₂ {α β ε : Type} (f : α → Except ε β) (l : List α) (r : List β)
    (h : l.mapM f = .ok r) : List.Forall₂ (fun x y => f x = .ok y) l r := by
  induction l generalizing r with
  | nil => simp only [List.mapM_nil] at h; cases h; exact List.Forall₂.nil
  | cons x xs ih =>
    rw [List.mapM_cons] at h
    cases hx : f x with
    | error e => rw [hx] at h; cases h
    | ok y =>
      rw [hx] at h
      cases hxs : xs.mapM f with
      | error e => rw [hxs] at h; cases h
      | ok ys =>
        rw [hxs] at h
        cases h
        exact List.Forall₂.cons hx (ih ys hxs)

theorem forall₂_mem_right {α β : Type} {Q : α → β → Prop} {l : List α} {r : List β}
    (h : List.Forall₂ Q l r) {y : β} (hy : y ∈ r) : ∃ x ∈ l, Q x y := by
  induction h with
  | nil => cases hy
  | cons hq _ ih =>
    rcases List.mem_cons.mp hy with rfl | hy
    · exact ⟨_, by simp, hq⟩
    · obtain ⟨x, hx, hq'⟩ := ih hy
      exact ⟨x, by simp [hx], hq'⟩


/-! ### the group computation behind `unfuse` -/

theorem sign_false (s : Sym) (c : Charge) : s.sign c false = c := by
  cases s <;> rfl

theorem sign_sign_combine (s : Sym) (L : List Charge) :
    s.sign (s.sign (s.combine L) true) true = s.combine L := by
  cases s <;> sym_arith

/-- signing relative to the fused direction, combining, and signing the result by the fused
    direction is the plain signed combination of the parts -/
theorem sign_rel_combine (s : Sym) (D : Bool) (P : List (Index × Charge)) :
    s.sign (s.combine (P.map (fun p => s.sign p.2 (D != p.1.dual)))) D = s.combine (sgn s P) := by
  cases D with
  | false =>
    rw [sign_false]
    unfold sgn
    simp
  | true =>
    have : (P.map (fun p => s.sign p.2 (true != p.1.dual)))
        = P.map (fun p => s.sign p.2 (!p.1.dual)) := by
      apply List.map_congr_left
      intro p _
      cases p.1.dual <;> rfl
    rw [this, combine_flip, sign_sign_combine]

theorem combine3 (s : Sym) (A B C : List Charge) :
    s.combine (A ++ B ++ C) = s.combine [s.combine A, s.combine B, s.combine C] := by
  cases s <;> sym_arith

theorem combine3_single (s : Sym) (A C : List Charge) (x : Charge) :
    s.combine (A ++ [x] ++ C) = s.combine [s.combine A, x, s.combine C] := by
  obtain ⟨x1, x2⟩ := x
  cases s <;> sym_arith

/-! ### replacing one position of a sector by a sub-sector -/

theorem secOk_replace {sym : Sym} {idx : List Index} {ch : Charge} {s : Sector}
    {axis : Nat} {ix : Index} (subs : List Index) (ss : Sector)
    (h : SecOk sym idx ch s) (hix : idx[axis]? = some ix) (hl : ss.length = subs.length)
    (hc : sym.combine (List.zipWith (fun c' (sub : Index) => sym.sign c' (ix.dual != sub.dual)) ss subs)
      = s.getD axis (0, 0)) :
    SecOk sym (replaceWithSeq idx axis subs) ch (replaceWithSeq s axis ss) := by
  obtain ⟨P, rfl, rfl, hch⟩ := secOk_iff.mp h
  have hax : axis < P.length := by
    have := (List.getElem?_eq_some_iff.mp hix).1
    simpa using this
  have hP : P = P.take axis ++ [P[axis]] ++ P.drop (axis + 1) := by
    simp
  have hix' : P[axis].1 = ix := by
    have := (List.getElem?_eq_some_iff.mp hix).2
    simpa using this
  have hc' : (List.map (fun x : Index × Charge => x.2) P).getD axis (0, 0) = P[axis].2 := by
    simp [List.getD_eq_getElem?_getD, hax]
  rw [hc'] at hc
  refine secOk_iff.mpr ⟨P.take axis ++ subs.zip ss ++ P.drop (axis + 1), ?_, ?_, ?_⟩
  · unfold replaceWithSeq
    simp only [List.map_append, List.map_take, List.map_drop]
    rw [List.map_fst_zip (by omega)]
  · unfold replaceWithSeq
    simp only [List.map_append, List.map_take, List.map_drop]
    rw [List.map_snd_zip (by omega)]
  · rw [← hch]
    conv_rhs => rw [hP]
    unfold sgn
    simp only [List.map_append, List.map_cons, List.map_nil]
    rw [combine3, combine3_single]
    have key := sign_rel_combine sym ix.dual (subs.zip ss)
    have e : (subs.zip ss).map (fun p => sym.sign p.2 (ix.dual != p.1.dual))
        = List.zipWith (fun c' (sub : Index) => sym.sign c' (ix.dual != sub.dual)) ss subs := by
      rw [List.zip_eq_zipWith, List.map_zipWith]
      rw [List.zipWith_comm]
    rw [e, hc] at key
    unfold sgn at key
    rw [← key, hix']


theorem blockShape?_replace {idx subs : List Index} {s ss : Sector} {shp sshp : List Nat} (axis : Nat)
    (h : Arr.blockShape? idx s = some shp) (hs : Arr.blockShape? subs ss = some sshp) :
    Arr.blockShape? (replaceWithSeq idx axis subs) (replaceWithSeq s axis ss)
      = some (replaceWithSeq shp axis sshp) := by
  unfold replaceWithSeq
  obtain ⟨T, hT, rfl, rfl, rfl⟩ := blockShape?_iff.mp h
  simp only [← List.map_take, ← List.map_drop]
  refine blockShape?_append (blockShape?_append ?_ hs) ?_
  · exact blockShape?_iff.mpr ⟨T.take axis, fun t ht => hT t (List.mem_of_mem_take ht), rfl, rfl, rfl⟩
  · exact blockShape?_iff.mpr ⟨T.drop (axis + 1), fun t ht => hT t (List.mem_of_mem_drop ht),
      rfl, rfl, rfl⟩

/-- the charge a stored sector has at position `axis` is in the table of the index there -/
theorem blockShape?_getD {idx : List Index} {s : Sector} {shp : List Nat} {axis : Nat} {ix : Index}
    (h : Arr.blockShape? idx s = some shp) (hix : idx[axis]? = some ix) :
    axis < shp.length ∧ ∃ d, ix.sizeOf? (s.getD axis (0, 0)) = some d := by
  obtain ⟨T, hT, rfl, rfl, rfl⟩ := blockShape?_iff.mp h
  have hax : axis < T.length := by
    have := (List.getElem?_eq_some_iff.mp hix).1
    simpa using this
  have hix' : T[axis].1 = ix := by
    have := (List.getElem?_eq_some_iff.mp hix).2
    simpa using this
  refine ⟨by simpa using hax, T[axis].2.2, ?_⟩
  have : (List.map (fun x : Trip => x.2.1) T).getD axis (0, 0) = T[axis].2.1 := by
    simp [List.getD_eq_getElem?_getD, hax]
  rw [this, ← hix']
  exact hT _ (List.getElem_mem _)

theorem prod_replaceWithSeq (shp sub : List Nat) (axis : Nat) (hax : axis < shp.length) :
    prod (replaceWithSeq shp axis sub) = prod (shp.set axis (prod sub)) := by
  unfold replaceWithSeq
  rw [List.set_eq_take_append_cons_drop, if_pos hax, prod_append, prod_append, prod_append]
  simp only [prod, Nat.mul_assoc]

theorem extentOk_iff (sym : Sym) (D : Bool) (subs : List Index) (c : Charge) (d : Nat) (ext : Extent) :
    extentOk sym D subs c d ext = true ↔
      sumN (ext.map (·.2)) = d ∧ (ext.map (·.1)).Nodup ∧
      ∀ e ∈ ext, e.1.length = subs.length
        ∧ (∃ shp, Arr.blockShape? subs e.1 = some shp ∧ prod shp = e.2)
        ∧ sym.combine (List.zipWith (fun c' (sub : Index) => sym.sign c' (D != sub.dual)) e.1 subs) = c := by
  unfold extentOk
  simp only [Bool.and_eq_true, beq_iff_eq, allDistinct_iff, List.all_eq_true, and_assoc]
  refine and_congr_right (fun _ => and_congr_right (fun _ => ?_))
  constructor
  · rintro h ⟨ss, sz⟩ he
    obtain ⟨h1, h2, h3⟩ := h (ss, sz) he
    refine ⟨h1, ?_, h3⟩
    simp only at h2 ⊢
    split at h2
    · rename_i shp hs; exact ⟨shp, hs, by simpa using h2⟩
    · cases h2
  · rintro h ⟨ss, sz⟩ he
    obtain ⟨h1, ⟨shp, h2, h2'⟩, h3⟩ := h (ss, sz) he
    refine ⟨h1, ?_, h3⟩
    simp only at h2 h2' ⊢
    rw [h2]; simpa using h2'

theorem mem_replaceWithSeq {α : Type} {l seq : List α} {i : Nat} {x : α}
    (h : x ∈ replaceWithSeq l i seq) : x ∈ l ∨ x ∈ seq := by
  unfold replaceWithSeq at h
  simp only [List.mem_append] at h
  rcases h with (h | h) | h
  · exact Or.inl (List.mem_of_mem_take h)
  · exact Or.inr h
  · exact Or.inl (List.mem_of_mem_drop h)

/-! ### `unfuse` returns a valid array -/

theorem unfuseA_core [Zero R] (a r : Arr R) (axis : Nat) (hv : Core a)
    (h : unfuseA a axis = .ok r) : Core r := by
  rw [unfuseA_eq'] at h
  unfold unfuseA' at h
  cases hix : a.indices[axis]? with
  | none => rw [hix] at h; cases h
  | some ix =>
    rw [hix] at h
    simp only [pure_bind] at h
    obtain ⟨cm, D, sub⟩ := ix
    cases sub with
    | none => cases h
    | some se =>
      obtain ⟨subIdx, exts⟩ := se
      simp only [Index.sub] at h
      cases hnb : a.blocks.foldlM (unfStep subIdx exts axis) [] with
      | error e => rw [hnb] at h; cases h
      | ok nb =>
        rw [hnb] at h
        cases h
        have hwf := hv.idx _ (List.mem_of_getElem? hix)
        obtain ⟨_, w2, _, w4, _⟩ := (wfB_some a.sym cm D subIdx exts).mp hwf
        -- the loop invariant
        have inv := foldlM_ok_inv
          (fun acc : List (Sector × Blk R) => (acc.map (·.1)).Nodup ∧
            ∀ sb ∈ acc, BlockOk a.sym (replaceWithSeq a.indices axis subIdx) a.charge sb)
          (unfStep subIdx exts axis) a.blocks [] nb ⟨by simp, by simp⟩ ?_ hnb
        · refine ⟨?_, hv.chg, inv.1, inv.2⟩
          intro i hi
          rcases mem_replaceWithSeq hi with hi | hi
          · exact hv.idx i hi
          · exact (wfListB_iff _ _).mp w2 i hi
        · rintro acc ⟨sector, array⟩ acc' hsb ⟨hn, hall⟩ hstep
          obtain ⟨ext, pieces, he, hp, rfl⟩ := unfStep_ok hstep
          simp only at he hp
          obtain ⟨b1, b2, b3⟩ := hv.blk _ hsb
          simp only at b1 b2 b3
          obtain ⟨hax, d, hd⟩ := blockShape?_getD b2 hix
          obtain ⟨ext', he', hok⟩ := w4 _ (alookup_some_mem hd)
          simp only at he' hok
          rw [he] at he'
          cases he'
          obtain ⟨_, _, hext⟩ := (extentOk_iff _ _ _ _ _ _).mp hok
          have hf2 := mapM_ok_forall₂ _ _ _ hp
          have := foldl_ainsert_inv (fun p : Sector × Blk R => p) pieces acc
            (fun sb => BlockOk a.sym (replaceWithSeq a.indices axis subIdx) a.charge sb) hall ?_ hn
          · exact ⟨this.2, this.1⟩
          · intro y hy
            obtain ⟨x, hx, hxy⟩ := forall₂_mem_right hf2 hy
            obtain ⟨subshape, hss, rfl⟩ := unfPiece_ok hxy
            obtain ⟨e1, ⟨shp, e2, e2'⟩, e3⟩ := hext x.1 (List.of_mem_zip hx).1
            rw [hss] at e2
            cases e2
            refine ⟨?_, ?_, ?_⟩
            · exact secOk_replace subIdx x.1.1 b1 hix e1 e3
            · exact blockShape?_replace axis b2 hss
            · simp only [Blk.wf, Blk.reshapeK, beq_iff_eq]
              rw [prod_replaceWithSeq _ _ _ hax, e2']
              have := ofFn_wf (array.shape.set axis x.1.2) (fun i => array.get
                (List.zipWith (· + ·) i ((List.replicate array.shape.length 0).set axis x.2)))
              simpa [Blk.wf, Blk.sliceK] using this


theorem unfuseA_fields [Zero R] {a r : Arr R} {axis : Nat} (h : unfuseA a axis = .ok r) :
    r.sym = a.sym ∧ r.fermi = a.fermi ∧ r.charge = a.charge ∧ r.phases = a.phases
      ∧ r.oddpos = a.oddpos := by
  rw [unfuseA_eq'] at h
  unfold unfuseA' at h
  cases hix : a.indices[axis]? with
  | none => rw [hix] at h; cases h
  | some ix =>
    rw [hix] at h
    simp only [pure_bind] at h
    cases hs : ix.sub with
    | none => rw [hs] at h; cases h
    | some se =>
      rw [hs] at h
      obtain ⟨subIdx, exts⟩ := se
      cases hnb : a.blocks.foldlM (unfStep subIdx exts axis) [] with
      | error e => simp only at h; rw [hnb] at h; cases h
      | ok nb =>
        simp only at h
        rw [hnb] at h
        cases h
        exact ⟨rfl, rfl, rfl, rfl, rfl⟩

/-- abelian arrays: `unfuse` of a valid array is valid -/
theorem unfuseA_valid [Zero R] (a r : Arr R) (axis : Nat) (hv : Valid a) (hf : a.fermi = false)
    (h : unfuseA a axis = .ok r) : Valid r := by
  refine Valid.of (unfuseA_core a r axis hv.core h) ?_
  obtain ⟨_, e2, _, e4, e5⟩ := unfuseA_fields h
  have := hv.sgn
  unfold SignsOk at this ⊢
  simp only [hf, Bool.false_eq_true, if_false] at this
  rw [e2, e4, e5]
  simp only [hf, Bool.false_eq_true, if_false]
  exact this

theorem unfuseA_validB [Zero R] (a r : Arr R) (axis : Nat) (hv : a.validB = true)
    (hf : a.fermi = false) (h : unfuseA a axis = .ok r) : r.validB = true :=
  (validB_iff r).mpr (unfuseA_valid a r axis ((validB_iff a).mp hv) hf h)

/-- `unfuse_all` -/
theorem unfuseAllA_core [Zero R] (a r : Arr R) (hv : Core a) (h : unfuseAllA a = .ok r) : Core r := by
  unfold unfuseAllA unfuseAllWith at h
  refine foldlM_ok_inv (fun x : Arr R => Core x) _ _ a r hv ?_ h
  intro x ax x' _ hx hstep
  split at hstep
  · split at hstep
    · exact unfuseA_core x x' ax hx hstep
    · cases hstep; exact hx
  · cases hstep; exact hx

theorem unfuseAllA_valid [Zero R] (a r : Arr R) (hv : Valid a) (hf : a.fermi = false)
    (h : unfuseAllA a = .ok r) : Valid r := by
  unfold unfuseAllA unfuseAllWith at h
  refine (foldlM_ok_inv (fun x : Arr R => Valid x ∧ x.fermi = false) _ _ a r ⟨hv, hf⟩ ?_ h).1
  intro x ax x' _ hx hstep
  split at hstep
  · split at hstep
    · exact ⟨unfuseA_valid x x' ax hx.1 hx.2 hstep, (unfuseA_fields hstep).2.1.trans hx.2⟩
    · cases hstep; exact hx
  · cases hstep; exact hx

/-! ### the hypotheses are satisfiable: a Z2 matrix whose first index is fused from two -/

def exSub : Index := .mk [((0, 0), 1), ((1, 0), 1)] false none
def exFused : Index := .mk [((0, 0), 2), ((1, 0), 2)] false
  (some ([exSub, exSub],
    [((0, 0), [([(0, 0), (0, 0)], 1), ([(1, 0), (1, 0)], 1)]),
     ((1, 0), [([(0, 0), (1, 0)], 1), ([(1, 0), (0, 0)], 1)])]))
def exArr : Arr Int :=
  { sym := .Z2, fermi := false, indices := [exFused, .mk [((0, 0), 1), ((1, 0), 1)] true none],
    charge := (0, 0),
    blocks := [([(0, 0), (0, 0)], ⟨[2, 1], #[1, 2]⟩), ([(1, 0), (1, 0)], ⟨[2, 1], #[3, 4]⟩)] }

example : exArr.validB = true ∧ exArr.fermi = false := by decide
example : (match unfuseA exArr 0 with
    | .ok r => r.validB && r.sectors == [[(0, 0), (0, 0), (0, 0)], [(1, 0), (1, 0), (0, 0)],
        [(0, 0), (1, 0), (1, 0)], [(1, 0), (0, 0), (1, 0)]]
    | .error _ => false) = true := by decide +kernel

end ValidP
end SymmModel
