/-
  SymmModel.Proofs.FuseMulti1 — fusing an ARBITRARY list of groups: the plan of a stored sector
  read axis by axis (front axes / group axes / back axes), the table facts for every multi-axis
  group, and the shape of the fused block.
-/
import SymmModel.Proofs.FuseLemmas
namespace SymmModel
namespace FuseP
set_option linter.unusedSectionVars false

variable {R : Type}

/-- group number `g` exists and is a multi-axis group (gets a new fused index with a table) -/
def multiB (groups : List (List Nat)) (g : Nat) : Bool :=
  match groups[g]? with
  | some gx => gx.length != 1
  | none => false

section Multi
variable (a : Arr R) (groups : List (List Nat))

abbrev giM : FuseGroupInfo := calcFuseGroupInfo groups a.duals
def planM (sb : Sector × Blk R) : BlockPlan :=
  planOf a.sym a.indices groups (giM a groups) sb.1 sb.2.shape
def newIdxM : List Index := (fuseInfoOf a groups).newIndices
/-- number of axes of the fused array -/
def ndimM : Nat := (giM a groups).position + groups.length + (giM a groups).axesAfter.length

variable {a groups}

theorem hokD (hok : GroupsOk groups a.ndim) : GroupsOk groups a.duals.length := by
  rw [duals_length]; exact hok

theorem beforeM_lt (hok : GroupsOk groups a.ndim) :
    ∀ ax ∈ (giM a groups).axesBefore, ax < a.indices.length := by
  intro ax hax
  rw [axesBefore_eq (hokD hok)] at hax
  have := position_lt (hokD hok)
  rw [duals_length] at this
  simp only [List.mem_range] at hax
  exact Nat.lt_trans hax this

theorem afterM_lt : ∀ ax ∈ (giM a groups).axesAfter, ax < a.indices.length := by
  intro ax hax
  have := (mem_axesAfter.1 hax).1
  rwa [duals_length] at this

theorem groupM_lt (hok : GroupsOk groups a.ndim) {g : Nat} {gaxes : List Nat} (hg : groups[g]? = some gaxes) :
    ∀ ax ∈ gaxes, ax < a.indices.length :=
  fun ax hax => hok.lt ax (List.mem_flatten.2 ⟨gaxes, getElem?_mem' hg, hax⟩)

theorem newIdxM_length (hok : GroupsOk groups a.ndim) : (newIdxM a groups).length = ndimM a groups := by
  simp only [newIdxM, fuseInfoOf, List.length_append, newMidOf_length, permuted_before_length hok,
    permuted_length _ _ afterM_lt, ndimM]

theorem planM_newSector_length (hok : GroupsOk groups a.ndim) (sb : Sector × Blk R) :
    (planM a groups sb).newSector.length = ndimM a groups := by
  simp [planM, planOf, ndimM, giM, axesBefore_length (hokD hok)]; omega

theorem planM_newShape_length (hok : GroupsOk groups a.ndim) (sb : Sector × Blk R) :
    (planM a groups sb).newShape.length = ndimM a groups := by
  simp [planM, planOf, ndimM, giM, axesBefore_length (hokD hok)]; omega

/-! ### the plan, axis by axis -/

theorem planOf_newShape_before (sym : Sym) (indices : List Index) (sector : Sector) (shp : List Nat)
    {duals : List Bool} {k : Nat} (hok : GroupsOk groups duals.length)
    (hk : k < (calcFuseGroupInfo groups duals).position) :
    (planOf sym indices groups (calcFuseGroupInfo groups duals) sector shp).newShape.getD k 0
      = shp.getD k 0 := by
  simp only [planOf]
  rw [List.append_assoc, getD_before _ _ _ _ (by rw [List.length_map, axesBefore_length hok]; exact hk)]
  rw [axesBefore_eq hok]
  simp [List.getD_eq_getElem?_getD, List.getElem?_map, List.getElem?_range hk]

theorem planOf_newShape_after (sym : Sym) (indices : List Index) (sector : Sector) (shp : List Nat)
    {duals : List Bool} {k : Nat} (hok : GroupsOk groups duals.length)
    (hk : k < (calcFuseGroupInfo groups duals).axesAfter.length) :
    (planOf sym indices groups (calcFuseGroupInfo groups duals) sector shp).newShape.getD
        ((calcFuseGroupInfo groups duals).position + groups.length + k) 0
      = shp.getD ((calcFuseGroupInfo groups duals).axesAfter.getD k 0) 0 := by
  simp only [planOf]
  have hl : (List.map (fun ax => List.getD shp ax 0) (calcFuseGroupInfo groups duals).axesBefore
      ++ List.map (fun x => x.2.1) (List.map (midOf sym indices sector shp (calcFuseGroupInfo groups duals))
          groups.zipIdx)).length = (calcFuseGroupInfo groups duals).position + groups.length := by
    simp [axesBefore_length hok]
  rw [← hl, getD_after]
  simp [List.getD_eq_getElem?_getD, List.getElem?_map, List.getElem?_eq_getElem hk]

/-- the three kinds of axes of the fused array -/
theorem axis_cases (ax : Nat) (h : ax < ndimM a groups) :
    ax < (giM a groups).position
    ∨ (∃ g, g < groups.length ∧ ax = (giM a groups).position + g)
    ∨ (∃ j, j < (giM a groups).axesAfter.length ∧ ax = (giM a groups).position + groups.length + j) := by
  simp only [ndimM] at h
  by_cases h1 : ax < (giM a groups).position
  · exact Or.inl h1
  · by_cases h2 : ax < (giM a groups).position + groups.length
    · exact Or.inr (Or.inl ⟨ax - (giM a groups).position, by omega, by omega⟩)
    · exact Or.inr (Or.inr ⟨ax - (giM a groups).position - groups.length, by omega, by omega⟩)

/-- the new indices, axis by axis: front and back axes keep their index -/
theorem newIdxM_before (hok : GroupsOk groups a.ndim) {k : Nat} (hk : k < (giM a groups).position) :
    (newIdxM a groups).getD k default = a.indices.getD k default := by
  simp only [newIdxM, fuseInfoOf]
  rw [List.append_assoc, getD_before _ _ _ _ (by rw [permuted_before_length hok]; exact hk),
    permuted_eq_map _ default _ (beforeM_lt hok), axesBefore_eq (hokD hok)]
  simp [List.getD_eq_getElem?_getD, List.getElem?_map, List.getElem?_range hk]

theorem newIdxM_after (hok : GroupsOk groups a.ndim) {j : Nat} (hj : j < (giM a groups).axesAfter.length) :
    (newIdxM a groups).getD ((giM a groups).position + groups.length + j) default
      = a.indices.getD ((giM a groups).axesAfter.getD j 0) default := by
  simp only [newIdxM, fuseInfoOf]
  have hl : (permuted a.indices (giM a groups).axesBefore ++ newMidOf a groups).length
      = (giM a groups).position + groups.length := by
    simp [permuted_before_length hok, newMidOf_length]
  rw [← hl, getD_after, permuted_eq_map _ default _ afterM_lt]
  simp [List.getD_eq_getElem?_getD, List.getElem?_map, List.getElem?_eq_getElem hj]

theorem afterM_getD_mem {j : Nat} (hj : j < (giM a groups).axesAfter.length) :
    (giM a groups).axesAfter.getD j 0 ∈ (giM a groups).axesAfter := by
  simp only [List.getD_eq_getElem?_getD, List.getElem?_eq_getElem hj, Option.getD_some]
  exact List.getElem_mem _

/-! ### table facts for a stored sector and a multi-axis group -/

theorem multiB_iff {g : Nat} : multiB groups g = true ↔ ∃ gaxes, groups[g]? = some gaxes ∧ gaxes.length ≠ 1 := by
  simp only [multiB]
  cases groups[g]? with
  | none => simp
  | some gx => simp

/-- sub-sector, fused charge and fused size of a stored block for group `g` -/
def ssM (sb : Sector × Blk R) (g : Nat) : Sector := (planM a groups sb).subsectors.getD g []
def cM (sb : Sector × Blk R) (g : Nat) : Charge :=
  (planM a groups sb).newSector.getD ((giM a groups).position + g) (0, 0)
def dM (sb : Sector × Blk R) (g : Nat) : Nat :=
  (planM a groups sb).newShape.getD ((giM a groups).position + g) 0

variable (a groups) in
/-- the index at group position `g` -/
def ixM (g : Nat) : Index := (newIdxM a groups).getD ((giM a groups).position + g) default

variable (a groups) in
def extsM (g : Nat) : Extents := ((ixM a groups g).sub.map (·.2)).getD []

theorem ssM_eq {g : Nat} {gaxes : List Nat} (hg : groups[g]? = some gaxes) (sb : Sector × Blk R) :
    ssM (a := a) (groups := groups) sb g = gaxes.map (fun ax => sb.1.getD ax (0, 0)) := by
  simp only [ssM, planM]
  rw [planOf_subsectors_getD _ _ _ _ _ hg]
  simp only [midOf, beq_iff_eq]
  split
  · rename_i h1
    match gaxes, h1 with
    | [ax], _ => rfl
  · rfl

theorem dM_eq (hok : GroupsOk groups a.ndim) {g : Nat} {gaxes : List Nat} (hg : groups[g]? = some gaxes)
    (sb : Sector × Blk R) :
    dM (a := a) (groups := groups) sb g = prod (gaxes.map (fun ax => sb.2.shape.getD ax 0)) := by
  simp only [dM, planM]
  rw [planOf_newShape_getD _ _ _ _ _ _ (hokD hok) hg]
  simp only [midOf, beq_iff_eq]
  split
  · rename_i h1
    match gaxes, h1 with
    | [ax], _ => simp [prod]
  · rfl

theorem ixM_multi (hok : GroupsOk groups a.ndim) {g : Nat} {gaxes : List Nat} (hg : groups[g]? = some gaxes)
    (hlen : gaxes.length ≠ 1) :
    ixM a groups g = fusedIndexOf (tableEntries (blockmapOf a groups) (giM a groups).position g)
      ((giM a groups).groupDuals.getD g false) (gaxes.map (fun ax => a.indices.getD ax default)) :=
  fused_index_sub hok hg hlen

theorem ixM_single (hok : GroupsOk groups a.ndim) {g : Nat} {gaxes : List Nat} (hg : groups[g]? = some gaxes)
    (hlen : gaxes.length = 1) : ixM a groups g = a.indices.getD (gaxes.headD 0) default := by
  simp only [ixM, newIdxM]
  rw [newIndices_getD_mid hok hg]; simp [hlen]

theorem ixM_sub (hok : GroupsOk groups a.ndim) {g : Nat} {gaxes : List Nat} (hg : groups[g]? = some gaxes)
    (hlen : gaxes.length ≠ 1) :
    (ixM a groups g).sub = some (gaxes.map (fun ax => a.indices.getD ax default), extsM a groups g) := by
  simp only [extsM]
  rw [ixM_multi hok hg hlen]; rfl

theorem ixM_wf (hv : ValidArr a) (hok : GroupsOk groups a.ndim) {g : Nat} {gaxes : List Nat}
    (hg : groups[g]? = some gaxes) (hlen : gaxes.length ≠ 1) : Index.wfB a.sym (ixM a groups g) = true :=
  fused_index_wf hv hok hg hlen

theorem ixM_dual (hok : GroupsOk groups a.ndim) {g : Nat} {gaxes : List Nat} (hg : groups[g]? = some gaxes)
    (hlen : gaxes.length ≠ 1) : (ixM a groups g).dual = (giM a groups).groupDuals.getD g false := by
  rw [ixM_multi hok hg hlen]; rfl

/-- what `Index.wfB` says about one extent of the index of a multi-axis group -/
theorem ixM_extent (hv : ValidArr a) (hok : GroupsOk groups a.ndim) {g : Nat} {gaxes : List Nat}
    (hg : groups[g]? = some gaxes) (hlen : gaxes.length ≠ 1) {c : Charge} {e : Extent}
    (he : alookup (extsM a groups g) c = some e) :
    ∃ d, alookup (ixM a groups g).cm c = some d
      ∧ ExtentOk a.sym ((giM a groups).groupDuals.getD g false)
          (gaxes.map (fun ax => a.indices.getD ax default)) c d e := by
  have := wfB_extent (ixM_wf hv hok hg hlen) (ixM_sub hok hg hlen) he
  rwa [ixM_dual hok hg hlen] at this

/-- **the table knows every stored sector** (any multi-axis group) -/
theorem stored_in_tableM (hv : ValidArr a) (hok : GroupsOk groups a.ndim) {g : Nat} {gaxes : List Nat}
    (hg : groups[g]? = some gaxes) (hlen : gaxes.length ≠ 1) {sb : Sector × Blk R} (hsb : sb ∈ a.blocks) :
    ∃ e D st, alookup (extsM a groups g) (cM (a := a) (groups := groups) sb g) = some e
      ∧ startOf e (ssM (a := a) (groups := groups) sb g) = some (st, dM (a := a) (groups := groups) sb g)
      ∧ (ixM a groups g).sizeOf? (cM (a := a) (groups := groups) sb g) = some D
      ∧ sumN (e.map (·.2)) = D := by
  have hE := tableEntries_entryOk hv hok hg hlen
  have hmem : (ssM (a := a) (groups := groups) sb g, cM (a := a) (groups := groups) sb g,
      dM (a := a) (groups := groups) sb g)
      ∈ tableEntries (blockmapOf a groups) (giM a groups).position g := by
    simp only [tableEntries, blockmapOf, List.map_map, List.mem_map, Function.comp]
    exact ⟨sb, hsb, rfl⟩
  obtain ⟨e, D, h1, h2, h3, h4, h5⟩ := fusedIndexOf_complete _
    (fun x hx y hy hxy => entryOk_functional (hE x hx) (hE y hy) hxy) hmem
  obtain ⟨st, hst⟩ := startOf_of_mem_nodup h3 h2
  refine ⟨e, D, st, ?_, hst, ?_, h5⟩
  · simp only [extsM]; rw [ixM_multi hok hg hlen]; exact h1
  · rw [ixM_multi hok hg hlen]; exact h4

end Multi

end FuseP
end SymmModel
