/-
  SymmModel.Proofs.LinalgMore6 — concrete kernels over `Int` meeting the per-call contracts of
  C11b (non-vacuity of `EighBlock`, `SolvesOn`, `OrthoBlock`).
-/
import SymmModel.Proofs.LinalgMore5
import SymmModel.Proofs.LazyLemmas

namespace SymmModel

open scoped SymmModel.Lazy

/-- `eigh` for DIAGONAL blocks: eigenvalues = the diagonal, eigenvectors = identity -/
def Kernels.eighDiag : Kernels Int :=
  { (Kernels.shapeOnly : Kernels Int) with
    eigh := fun b =>
      let m := b.shape.getD 0 0
      (Blk.ofFn [m] (fun i => b.get [i.getD 0 0, i.getD 0 0]), LinalgLemmas.eyeI m) }

/-- `solve` returning (a copy of the right size of) the right-hand side: exact for identity
    blocks -/
def Kernels.solveCopy : Kernels Int :=
  { (Kernels.shapeOnly : Kernels Int) with
    solve := fun a b => Blk.ofFn [a.shape.getD 1 0] (fun i => b.get i) }

namespace LinalgLemmas

theorem eighDiag_shapeOk : Kernels.eighDiag.ShapeOk where
  qr b m n hs hw := (shapeOnly_shapeOk (R := Int)).qr b m n hs hw
  svd b m n hs hw := (shapeOnly_shapeOk (R := Int)).svd b m n hs hw
  eigh b m hs _ := by
    simp only [Kernels.eighDiag, hs, List.getD_cons_zero]
    exact ⟨rfl, ofFn_wf _ _, rfl, ofFn_wf _ _⟩
  solve a b m n hs hw := (shapeOnly_shapeOk (R := Int)).solve a b m n hs hw

/-- a square block with zero off-diagonal entries -/
def IsDiag (b : Blk Int) : Prop :=
  ∀ m, b.shape = [m, m] → ∀ i j, i < m → j < m → i ≠ j → b.get [i, j] = 0

theorem isDiag_negK {b : Blk Int} (h : IsDiag b) : IsDiag b.negK := by
  intro m hs i j hi hj hne
  rw [negK_get (by rfl)]
  rw [h m hs i j hi hj hne]; rfl

/-- the diagonal kernel meets the eigh value contract on every diagonal block -/
theorem eighDiag_block (b : Blk Int) (hd : IsDiag b) :
    Kernels.eighDiag.EighBlock b := by
  intro m hs i j hi hj
  simp only [Kernels.eighDiag, hs, List.getD_cons_zero]
  have := sum_delta
    (fun t => (Blk.ofFn [m] (fun i => b.get [i.getD 0 0, i.getD 0 0])).get [t]
      * Conj.conj ((eyeI m).get [j, t]))
    (fun t => ((eyeI m).get [i, t] * (Blk.ofFn [m] (fun i => b.get [i.getD 0 0, i.getD 0 0])).get [t])
      * Conj.conj ((eyeI m).get [j, t])) i m 0
    (fun t ht => by rw [eyeI_get hi ht]; split <;> simp)
  rw [this]
  simp only [hi, if_true, Int.zero_add]
  rw [ofFn_get _ _ ((inBox_single m i).mpr hi), eyeI_get hj hi]
  show b.get [i, i] * (if j = i then 1 else 0) = b.get [i, j]
  by_cases e : j = i
  · subst e; simp
  · rw [if_neg e, Int.mul_zero]
    exact (hd m hs i j hi hj (fun h => e h.symm)).symm

theorem solveCopy_shapeOk : Kernels.solveCopy.ShapeOk where
  qr b m n hs hw := (shapeOnly_shapeOk (R := Int)).qr b m n hs hw
  svd b m n hs hw := (shapeOnly_shapeOk (R := Int)).svd b m n hs hw
  eigh b m hs hw := (shapeOnly_shapeOk (R := Int)).eigh b m hs hw
  solve a b m n hs _ := by
    simp only [Kernels.solveCopy, hs, List.getD_cons_succ, List.getD_cons_zero]
    exact ⟨rfl, ofFn_wf _ _⟩

/-- the copying kernel solves every system whose paired matrix blocks are identities -/
theorem solveCopy_solvesOn (a b : Arr Int)
    (hI : ∀ s arr, (s, arr) ∈ a.blocks → ∃ n, arr = eyeI n) : Kernels.solveCopy.SolvesOn a b := by
  intro s arr bb hm _ i hi
  obtain ⟨n, rfl⟩ := hI s arr hm
  have hi' : i < n := hi
  show (List.range n).foldl (fun acc t => acc + (eyeI n).get [i, t]
    * (Blk.ofFn [n] (fun i => bb.get i)).get [t]) 0 = bb.get [i]
  have := sum_delta (fun t => (Blk.ofFn [n] (fun i => bb.get i)).get [t])
    (fun t => (eyeI n).get [i, t] * (Blk.ofFn [n] (fun i => bb.get i)).get [t]) i n 0
    (fun t ht => by rw [eyeI_get hi' ht]; split <;> simp)
  rw [this]
  simp only [hi', if_true, Int.zero_add]
  rw [ofFn_get _ _ ((inBox_single n i).mpr hi')]

/-- `trivialFactor`'s singular values are all ones -/
theorem trivialFactor_s (b : Blk Int) {m n : Nat} (hs : b.shape = [m, n]) :
    (Kernels.trivialFactor.svd b).2.1 = onesI (min m n) := by
  simp only [Kernels.trivialFactor, hs, List.getD_cons_zero, List.getD_cons_succ]
  split
  next h => rw [Nat.min_eq_left h]
  next h => rw [Nat.min_eq_right (by omega)]

end LinalgLemmas
end SymmModel
