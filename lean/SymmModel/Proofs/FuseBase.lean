/-
  SymmModel.Proofs.FuseBase — layer L0/L1 for property C05: boxes, `ravel`/`unravel`/`allIdx`,
  `Blk.ofFn`/`get` and get-characterisations of the kernels used by fusing
  (`reshapeK`, `zeros`, `sliceK`, `setSliceK`, `concatK`, `transposeK`).  Core Lean only.
-/
import SymmModel.Model.Valid
import SymmModel.Model.Fuse
namespace SymmModel
namespace FuseP

/-! ### boxes -/

theorem inBox_cons {d : Nat} {ds : List Nat} {i : Nat} {is : List Nat} :
    inBox (d :: ds) (i :: is) = true ↔ i < d ∧ inBox ds is = true := by
  simp [inBox]

theorem inBox_length {s i : List Nat} (h : inBox s i = true) : i.length = s.length := by
  induction s generalizing i with
  | nil => cases i <;> simp_all [inBox]
  | cons d ds ih =>
    cases i with
    | nil => simp [inBox] at h
    | cons x xs => simp only [inBox_cons] at h; simp [ih h.2]

theorem inBox_iff {s i : List Nat} :
    inBox s i = true ↔ i.length = s.length ∧ ∀ k, k < s.length → i.getD k 0 < s.getD k 0 := by
  induction s generalizing i with
  | nil => cases i <;> simp [inBox]
  | cons d ds ih =>
    cases i with
    | nil => simp [inBox]
    | cons x xs =>
      rw [inBox_cons, ih]
      constructor
      · rintro ⟨hx, hl, hk⟩
        refine ⟨by simp [hl], fun k hk' => ?_⟩
        cases k with
        | zero => simpa using hx
        | succ k => simpa using hk k (by simpa using hk')
      · rintro ⟨hl, hk⟩
        refine ⟨by simpa using hk 0 (by simp), by simpa using hl, fun k hk' => ?_⟩
        simpa using hk (k + 1) (by simpa using hk')

theorem inBox_append {s1 s2 i1 i2 : List Nat} (h : i1.length = s1.length) :
    inBox (s1 ++ s2) (i1 ++ i2) = (inBox s1 i1 && inBox s2 i2) := by
  induction s1 generalizing i1 with
  | nil => cases i1 <;> simp_all [inBox]
  | cons d ds ih =>
    cases i1 with
    | nil => simp at h
    | cons x xs =>
      simp only [List.cons_append, inBox]
      rw [ih (by simpa using h), Bool.and_assoc]

theorem prod_append (a b : List Nat) : prod (a ++ b) = prod a * prod b := by
  induction a with
  | nil => simp [prod]
  | cons x xs ih => simp [prod, ih, Nat.mul_assoc]

theorem sumN_append (a b : List Nat) : sumN (a ++ b) = sumN a + sumN b := by
  induction a with
  | nil => simp [sumN]
  | cons x xs ih => simp [sumN, ih, Nat.add_assoc]

theorem prod_pos {s : List Nat} (h : ∀ d ∈ s, 0 < d) : 0 < prod s := by
  induction s with
  | nil => simp [prod]
  | cons d ds ih =>
    simp only [prod]
    exact Nat.mul_pos (h d (by simp)) (ih (fun x hx => h x (by simp [hx])))

/-! ### ravel / unravel -/

theorem ravel_lt {s i : List Nat} (h : inBox s i = true) : ravel s i < prod s := by
  induction s generalizing i with
  | nil => cases i <;> simp_all [inBox, ravel, prod]
  | cons d ds ih =>
    cases i with
    | nil => simp [inBox] at h
    | cons x xs =>
      simp only [inBox_cons] at h
      simp only [ravel, prod]
      have := ih h.2
      calc x * prod ds + ravel ds xs < x * prod ds + prod ds := by omega
        _ = (x + 1) * prod ds := by rw [Nat.add_mul]; simp
        _ ≤ d * prod ds := Nat.mul_le_mul_right _ h.1

theorem unravel_inBox {s : List Nat} {n : Nat} (h : n < prod s) : inBox s (unravel s n) = true := by
  induction s generalizing n with
  | nil => simp [unravel, inBox]
  | cons d ds ih =>
    simp only [prod] at h
    have hp : 0 < prod ds := by
      rcases Nat.eq_zero_or_pos (prod ds) with h0 | h0
      · rw [h0] at h; simp at h
      · exact h0
    simp only [unravel, inBox_cons]
    refine ⟨?_, ih (Nat.mod_lt _ hp)⟩
    rw [Nat.div_lt_iff_lt_mul hp]; exact h

theorem ravel_unravel {s : List Nat} {n : Nat} (h : n < prod s) : ravel s (unravel s n) = n := by
  induction s generalizing n with
  | nil => simp [prod] at h; simp [ravel, h]
  | cons d ds ih =>
    simp only [prod] at h
    have hp : 0 < prod ds := by
      rcases Nat.eq_zero_or_pos (prod ds) with h0 | h0
      · rw [h0] at h; simp at h
      · exact h0
    simp only [unravel, ravel]
    rw [ih (Nat.mod_lt _ hp)]
    exact Nat.div_add_mod' n (prod ds)

theorem unravel_ravel {s i : List Nat} (h : inBox s i = true) : unravel s (ravel s i) = i := by
  induction s generalizing i with
  | nil => cases i <;> simp_all [inBox, unravel]
  | cons d ds ih =>
    cases i with
    | nil => simp [inBox] at h
    | cons x xs =>
      simp only [inBox_cons] at h
      have hr := ravel_lt h.2
      simp only [ravel, unravel]
      have h1 : (x * prod ds + ravel ds xs) / prod ds = x := by
        rw [Nat.mul_comm, Nat.mul_add_div (by omega), Nat.div_eq_of_lt hr]; simp
      have h2 : (x * prod ds + ravel ds xs) % prod ds = ravel ds xs := by
        rw [Nat.mul_comm, Nat.mul_add_mod, Nat.mod_eq_of_lt hr]
      rw [h1, h2, ih h.2]

/-! ### allIdx -/

theorem range_flatMap_mul (d P : Nat) :
    (List.range d).flatMap (fun i => (List.range P).map (fun r => i * P + r)) = List.range (d * P) := by
  induction d with
  | zero => simp
  | succ d ih =>
    rw [List.range_succ, List.flatMap_append, ih, Nat.succ_mul, List.range_add]
    simp

theorem allIdx_map_ravel (s : List Nat) : (allIdx s).map (ravel s) = List.range (prod s) := by
  induction s with
  | nil => simp [allIdx, ravel, prod]
  | cons d ds ih =>
    simp only [allIdx, prod, List.map_flatMap, List.map_map]
    rw [← range_flatMap_mul]
    congr 1
    funext i
    have : (ravel (d :: ds) ∘ fun r => i :: r) = (fun r => i * prod ds + r) ∘ ravel ds := by
      funext r; simp [ravel]
    rw [this, ← List.map_map, ih]

theorem allIdx_length (s : List Nat) : (allIdx s).length = prod s := by
  have := congrArg List.length (allIdx_map_ravel s)
  simpa using this

theorem mem_allIdx {s i : List Nat} : i ∈ allIdx s ↔ inBox s i = true := by
  induction s generalizing i with
  | nil => cases i <;> simp [allIdx, inBox]
  | cons d ds ih =>
    simp only [allIdx, List.mem_flatMap, List.mem_range, List.mem_map]
    constructor
    · rintro ⟨x, hx, r, hr, rfl⟩
      simp [inBox_cons, hx, ih.1 hr]
    · intro h
      cases i with
      | nil => simp [inBox] at h
      | cons x xs =>
        simp only [inBox_cons] at h
        exact ⟨x, h.1, xs, ih.2 h.2, rfl⟩

theorem allIdx_getElem?_ravel {s i : List Nat} (h : inBox s i = true) :
    (allIdx s)[ravel s i]? = some i := by
  obtain ⟨k, hk, rfl⟩ := List.mem_iff_getElem.1 (mem_allIdx.2 h)
  have h1 : ((allIdx s).map (ravel s))[k]? = (List.range (prod s))[k]? := by rw [allIdx_map_ravel]
  rw [List.getElem?_map, List.getElem?_eq_getElem hk, List.getElem?_range (by rwa [← allIdx_length])] at h1
  simp only [Option.map_some, Option.some.injEq] at h1
  rw [h1, List.getElem?_eq_getElem hk]


/-! ### `Blk.ofFn` / `get` -/

variable {R : Type}

/-- every stored entry is zero -/
def AllZero [Zero R] (b : Blk R) : Prop := ∀ x ∈ b.data.toList, x = 0

theorem ofFn_shape (s : List Nat) (f : List Nat → R) : (Blk.ofFn s f).shape = s := rfl

theorem ofFn_wf (s : List Nat) (f : List Nat → R) : (Blk.ofFn s f).wf = true := by
  simp [Blk.wf, Blk.ofFn, allIdx_length]

theorem ofFn_get [Zero R] {s i : List Nat} (f : List Nat → R) (h : inBox s i = true) :
    (Blk.ofFn s f).get i = f i := by
  simp only [Blk.get, Blk.ofFn, Array.getD_eq_getD_getElem?, List.getElem?_toArray,
    List.getElem?_map, allIdx_getElem?_ravel h, Option.map_some, Option.getD_some]

theorem ofFn_congr {s : List Nat} {f g : List Nat → R}
    (h : ∀ i, inBox s i = true → f i = g i) : Blk.ofFn s f = Blk.ofFn s g := by
  simp only [Blk.ofFn]
  congr 2
  exact List.map_congr_left (fun i hi => h i (mem_allIdx.1 hi))

theorem range_map_getD [Zero R] (a : Array R) :
    (List.range a.size).map (fun k => a.getD k 0) = a.toList := by
  apply List.ext_getElem
  · simp
  · intro k h1 h2
    simp only [List.length_map, List.length_range] at h1
    simp [Array.getD_eq_getD_getElem?, h1]

theorem ofFn_get_self [Zero R] (b : Blk R) (h : b.wf = true) : Blk.ofFn b.shape b.get = b := by
  obtain ⟨shape, data⟩ := b
  simp only [Blk.wf, beq_iff_eq] at h
  simp only [Blk.ofFn, Blk.mk.injEq, true_and]
  show (List.map ((fun k => data.getD k 0) ∘ ravel shape) (allIdx shape)).toArray = data
  rw [← List.map_map, allIdx_map_ravel, ← h, range_map_getD]

theorem get_of_allZero [Zero R] {b : Blk R} (h : AllZero b) (i : List Nat) : b.get i = 0 := by
  simp only [Blk.get, Array.getD_eq_getD_getElem?]
  cases hk : b.data[ravel b.shape i]? with
  | none => rfl
  | some x =>
    simp only [Option.getD_some]
    apply h
    rw [Array.getElem?_eq_some_iff] at hk
    obtain ⟨hlt, rfl⟩ := hk
    simp

theorem ofFn_allZero [Zero R] {s : List Nat} {f : List Nat → R}
    (h : ∀ i, inBox s i = true → f i = 0) : AllZero (Blk.ofFn s f) := by
  intro x hx
  simp only [Blk.ofFn, List.mem_map] at hx
  obtain ⟨i, hi, rfl⟩ := hx
  exact h i (mem_allIdx.1 hi)

theorem zeros_allZero [Zero R] (s : List Nat) : AllZero (Blk.zeros s : Blk R) :=
  ofFn_allZero (fun _ _ => rfl)

theorem zeros_get [Zero R] (s i : List Nat) : (Blk.zeros s : Blk R).get i = 0 :=
  get_of_allZero (zeros_allZero s) i

theorem reshapeK_allZero [Zero R] {b : Blk R} (h : AllZero b) (s : List Nat) : AllZero (b.reshapeK s) := h

/-- membership in the region written by `setSliceK dest starts src` -/
def inRegion (starts shp i : List Nat) : Bool :=
  (List.zipWith (fun a s => decide (s ≤ a)) i starts).all id
    && inBox shp (List.zipWith (· - ·) i starts)

theorem setSliceK_shape [Zero R] (dest src : Blk R) (starts : List Nat) :
    (dest.setSliceK starts src).shape = dest.shape := rfl

theorem rel_all (i starts : List Nat) :
    ((List.zipWith (fun a s => (decide (s ≤ a), a - s)) i starts).all fun x => x.1)
      = (List.zipWith (fun a s => decide (s ≤ a)) i starts).all id := by
  induction i generalizing starts with
  | nil => simp
  | cons x xs ih => cases starts <;> simp [ih]

theorem rel_map (i starts : List Nat) :
    (List.zipWith (fun a s => (decide (s ≤ a), a - s)) i starts).map (fun x => x.2)
      = List.zipWith (· - ·) i starts := by
  induction i generalizing starts with
  | nil => simp
  | cons x xs ih => cases starts <;> simp [ih]

theorem setSliceK_get [Zero R] (dest src : Blk R) (starts : List Nat) {i : List Nat}
    (h : inBox dest.shape i = true) :
    (dest.setSliceK starts src).get i =
      if inRegion starts src.shape i then src.get (List.zipWith (· - ·) i starts) else dest.get i := by
  unfold Blk.setSliceK
  rw [ofFn_get _ h]
  simp only [inRegion, rel_all, rel_map]
  rfl

theorem sliceK_get [Zero R] (b : Blk R) (starts lens : List Nat) {i : List Nat}
    (h : inBox lens i = true) :
    (b.sliceK starts lens).get i = b.get (List.zipWith (· + ·) i starts) := by
  unfold Blk.sliceK; rw [ofFn_get _ h]

theorem reshapeK_get [Zero R] (b : Blk R) (s i : List Nat) :
    (b.reshapeK s).get i = b.data.getD (ravel s i) 0 := rfl

/-- index-wise reading of `inRegion` -/
theorem inRegion_iff {starts shp i : List Nat} {n : Nat} (h1 : i.length = n) (h2 : starts.length = n)
    (h3 : shp.length = n) :
    inRegion starts shp i = true ↔
      ∀ k, k < n → starts.getD k 0 ≤ i.getD k 0 ∧ i.getD k 0 < starts.getD k 0 + shp.getD k 0 := by
  induction n generalizing starts shp i with
  | zero =>
    have := List.eq_nil_of_length_eq_zero h1; subst this
    have := List.eq_nil_of_length_eq_zero h2; subst this
    have := List.eq_nil_of_length_eq_zero h3; subst this
    simp [inRegion, inBox]
  | succ n ih =>
    match i, starts, shp, h1, h2, h3 with
    | x :: i, s :: starts, d :: shp, h1, h2, h3 =>
      have ih' := ih (starts := starts) (shp := shp) (i := i) (by simpa using h1) (by simpa using h2)
        (by simpa using h3)
      simp only [inRegion, List.zipWith_cons_cons, List.all_cons, id, inBox_cons, Bool.and_eq_true,
        decide_eq_true_eq] at ih' ⊢
      constructor
      · rintro ⟨⟨hs, ha⟩, hx, hb⟩
        intro k hk
        cases k with
        | zero => simp; omega
        | succ k => simpa using (ih'.1 ⟨ha, hb⟩) k (by omega)
      · intro hk
        have h0 := hk 0 (by omega)
        simp at h0
        have hr := ih'.2 (fun k hk' => by simpa using hk (k + 1) (by omega))
        exact ⟨⟨h0.1, hr.1⟩, by omega, hr.2⟩

theorem getD_zipWith_add {a b : List Nat} (h : a.length = b.length) (k : Nat) :
    (List.zipWith (· + ·) a b).getD k 0 = a.getD k 0 + b.getD k 0 := by
  induction a generalizing b k with
  | nil => cases b <;> simp_all
  | cons x xs ih =>
    cases b with
    | nil => simp at h
    | cons y ys =>
      cases k with
      | zero => simp
      | succ k => simpa using ih (by simpa using h) k

theorem zipWith_add_sub {a b : List Nat} (h : a.length = b.length) :
    List.zipWith (· - ·) (List.zipWith (· + ·) a b) b = a := by
  induction a generalizing b with
  | nil => cases b <;> simp_all
  | cons x xs ih =>
    cases b with
    | nil => simp at h
    | cons y ys => simp [ih (by simpa using h)]

end FuseP
end SymmModel
