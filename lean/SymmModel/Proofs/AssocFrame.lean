/-
  SymmModel.Proofs.AssocFrame — towards S7 of property C04: what is known about the intermediate
  result of a contraction (`Inter`), and why a second contraction with a pruned intermediate
  result still satisfies the weak guard `contractibleCommonB`.  Namespace `SymmModel.AssocP`.
-/
import SymmModel.Proofs.AssocWeak
import SymmModel.Proofs.AssocGeom

namespace SymmModel
namespace AssocP
open TdotP GradedP RoutesP KoszulP
open Lazy (sgnI)
set_option linter.unusedSectionVars false

variable {R : Type}

/-! ### pruned index tables -/

/-- `ix'` is `ix` with some charges dropped -/
def Pruned (ix' ix : Index) : Prop :=
  ix'.dual = ix.dual ∧ ∃ f : Charge → Bool, ix'.cm = ix.cm.filter (fun p => f p.1)

theorem Pruned.refl (ix : Index) : Pruned ix ix := ⟨rfl, fun _ => true, by simp⟩

theorem dropTo_pruned (ix : Index) (P : List Charge) : Pruned (dropTo ix P) ix := by
  unfold dropTo
  simp only
  split
  · exact Pruned.refl ix
  · obtain ⟨c, d, s⟩ := ix
    exact ⟨rfl, fun k => !(List.filter (fun c => !P.contains c) (Index.mk c d s).charges).contains k, rfl⟩

theorem alookup_filter_key {β : Type} (c : List (Charge × β)) (f : Charge → Bool) (k : Charge) :
    alookup (c.filter (fun p => f p.1)) k = if f k then alookup c k else none := by
  induction c with
  | nil => simp [alookup]
  | cons p c ih =>
    obtain ⟨k', v⟩ := p
    rw [List.filter_cons]
    by_cases hk : k' = k
    · subst hk
      cases hf : f k' <;> simp [alookup, hf, ih]
    · have hb : (k' == k) = false := by simpa using hk
      cases hf : f k' <;> simp [alookup, ih, hb]

theorem cmAgree_prune_left {c1 c2 : List (Charge × Nat)} (f : Charge → Bool)
    (h : cmAgree c1 c2 = true) : cmAgree (c1.filter (fun p => f p.1)) c2 = true := by
  unfold cmAgree at h ⊢
  rw [List.all_eq_true] at h ⊢
  intro p hp
  exact h p (List.mem_filter.mp hp).1

theorem cmAgree_prune_right {c1 c2 : List (Charge × Nat)} (f : Charge → Bool)
    (h : cmAgree c1 c2 = true) : cmAgree c1 (c2.filter (fun p => f p.1)) = true := by
  unfold cmAgree at h ⊢
  rw [List.all_eq_true] at h ⊢
  intro p hp
  rw [alookup_filter_key]
  have := h p hp
  by_cases hf : f p.1 = true
  · rw [if_pos hf]; exact this
  · rw [if_neg hf]

/-- the weak guard as a statement about the `j`-th pair of matched legs -/
theorem commonB_iff {a b : Arr R} {xa xb : List Nat} :
    contractibleCommonB a b xa xb = true ↔ xa.length = xb.length ∧ ∀ j, j < xa.length →
      cmAgree (a.indices.getD (xa.getD j 0) default).cm (b.indices.getD (xb.getD j 0) default).cm = true
      ∧ (b.indices.getD (xb.getD j 0) default).dual = !(a.indices.getD (xa.getD j 0) default).dual := by
  constructor
  · intro h
    exact ⟨commonB_len h, fun j hj => commonB_at h j hj⟩
  · rintro ⟨hl, hall⟩
    unfold contractibleCommonB
    simp only [Bool.and_eq_true, beq_iff_eq, List.all_eq_true]
    refine ⟨hl, ?_⟩
    intro p hp
    obtain ⟨j, hj, hpj⟩ := List.mem_iff_getElem.mp hp
    have hj1 : j < xa.length := by simp at hj; omega
    have hj2 : j < xb.length := by simp at hj; omega
    have hp' : p = (xa[j], xb[j]) := by rw [← hpj, List.getElem_zip]
    have := hall j hj1
    simp only [List.getD_eq_getElem?_getD, List.getElem?_eq_getElem hj1, List.getElem?_eq_getElem hj2,
      Option.getD_some] at this
    rw [hp']
    refine ⟨this.1, ?_⟩
    simp only [List.getD_eq_getElem?_getD]
    rw [this.2]
    cases (a.indices[xa[j]]?.getD default).dual <;> rfl

/-- pruning the left operand's matched legs keeps the weak guard -/
theorem commonB_prune_left {a a' b : Arr R} {xa xa' xb : List Nat} (hl : xa'.length = xa.length)
    (hp : ∀ j, j < xa.length →
      Pruned (a'.indices.getD (xa'.getD j 0) default) (a.indices.getD (xa.getD j 0) default))
    (h : contractibleCommonB a b xa xb = true) : contractibleCommonB a' b xa' xb = true := by
  rw [commonB_iff] at h ⊢
  refine ⟨hl.trans h.1, fun j hj => ?_⟩
  obtain ⟨h1, h2⟩ := h.2 j (hl ▸ hj)
  obtain ⟨p1, f, p2⟩ := hp j (hl ▸ hj)
  rw [p1, p2]
  exact ⟨cmAgree_prune_left f h1, h2⟩

/-- pruning the right operand's matched legs keeps the weak guard -/
theorem commonB_prune_right {a b b' : Arr R} {xa xb xb' : List Nat} (hl : xb'.length = xb.length)
    (hp : ∀ j, j < xb.length →
      Pruned (b'.indices.getD (xb'.getD j 0) default) (b.indices.getD (xb.getD j 0) default))
    (h : contractibleCommonB a b xa xb = true) : contractibleCommonB a b' xa xb' = true := by
  rw [commonB_iff] at h ⊢
  refine ⟨h.1.trans hl.symm, fun j hj => ?_⟩
  obtain ⟨h1, h2⟩ := h.2 j hj
  obtain ⟨p1, f, p2⟩ := hp j (h.1 ▸ hj)
  rw [p1, p2]
  exact ⟨cmAgree_prune_right f h1, h2⟩

/-- an entry of a pruned index list -/
theorem dropUnused_getD_pruned (U : List Index) (S : List Sector) (i : Nat) (hi : i < U.length) :
    Pruned ((dropUnused U S).getD i default) (U.getD i default) := by
  rw [List.getD_eq_getElem?_getD, List.getD_eq_getElem?_getD, dropUnused_getElem?,
    List.getElem?_eq_getElem hi]
  exact dropTo_pruned _ _

/-! ### the intermediate result -/

/-- what the second contraction needs to know about the result `ab` of a first contraction -/
structure Inter (a b : Arr R) (xa xb : List Nat) (ab : Arr R) (ph : Int)
    [AddMonoid R] [Mul R] [Neg R] : Prop where
  valid : ab.validB = true
  fermi : ab.fermi = true
  sym : ab.sym = a.sym
  charge : ab.charge = a.sym.combine [a.charge, b.charge]
  indices : ab.indices = dropUnused (without a.indices xa ++ without b.indices xb) ab.sectors
  sectors : ab.sectors
    = (tdKeys a.sectors b.sectors (freeAxes a.ndim xa) xa xb (freeAxes b.ndim xb)).eraseDups
  pm : ph = 1 ∨ ph = -1
  elem : ∀ s oL oR, oL.length = (freeAxes a.ndim xa).length →
    inBox (Arr.blockShapeD (without a.indices xa ++ without b.indices xb) s) (oL ++ oR) = true →
    ab.elem s (oL ++ oR) = sgnI ph (gradedContract a b xa xb s oL oR)

section finish
variable [AddMonoid R] [Mul R] [Neg R] [SignRing R]

theorem finish_elem (T : Arr R) (r : List (Int × Bool) × Int) (hTs : Lazy.SignOk T) (s : Sector)
    (o : List Nat) : (finish T r).elem s o = sgnI r.2 (T.elem s o) := by
  show (if (r.2 == -1) = true then T.phaseGlobal else T).elem s o = _
  by_cases hph : r.2 = -1
  · rw [hph]
    simp only [beq_self_eq_true, if_true]
    rw [Lazy.phaseGlobal_elem _ hTs, Lazy.sgnI_neg_one]
  · have : (r.2 == -1) = false := by simpa using hph
    simp only [this, Bool.false_eq_true, if_false]
    unfold sgnI
    rw [if_neg hph]

theorem finish_fields (T : Arr R) (r : List (Int × Bool) × Int) :
    (finish T r).charge = T.charge ∧ (finish T r).sym = T.sym ∧ (finish T r).fermi = T.fermi
      ∧ (finish T r).indices = T.indices ∧ (finish T r).sectors = T.sectors
      ∧ (finish T r).oddpos = r.1 := by
  unfold finish
  split <;> exact ⟨rfl, rfl, rfl, rfl, rfl, rfl⟩

theorem coreFrame_signOk {a b : Arr R} {xa xb : List Nat} {T : Arr R} (F : CoreFrame a b xa xb T) :
    Lazy.SignOk T := by
  refine ⟨by rw [F.sectors]; exact nodup_eraseDups _, ?_⟩
  rw [F.phases]; exact Lazy.PhOk.nil

/-- a successful first contraction gives an `Inter` -/
theorem inter_of_call (a b : Arr R) (xa xb : List Nat)
    (ha : a.validB = true) (hb : b.validB = true) (hfa : a.fermi = true) (hfb : b.fermi = true)
    (hadm : ValidP.tdotAdmissibleB a b xa xb = true) (r : List (Int × Bool) × Int)
    (hm : OddposP.mergeOddpos a.parity a.oddpos b.oddpos = .ok r) (hpm : r.2 = 1 ∨ r.2 = -1) :
    a.tensordotF b (.pair (xa.map Int.ofNat) (xb.map Int.ofNat)) .blockwise
        = .ok (finish (coreT a b xa xb) r)
      ∧ Inter a b xa xb (finish (coreT a b xa xb) r) r.2
      ∧ (finish (coreT a b xa xb) r).oddpos = r.1 := by
  have h := Adm.of ha hb hfa hfb hadm
  have hcall : a.tensordotF b (.pair (xa.map Int.ofNat) (xb.map Int.ofNat)) .blockwise
      = .ok (finish (coreT a b xa xb) r) := by
    rw [tensordotF_eq_core a b xa xb h, hm]; rfl
  have F := coreT_frame a b xa xb h
  obtain ⟨f1, f2, f3, f4, f5, f6⟩ := finish_fields (coreT a b xa xb) r
  have hv := ValidP.tensordotF_blockwise_valid a b _ xa xb ((ValidP.validB_iff a).mp ha)
    ((ValidP.validB_iff b).mp hb) hfa hfb hadm hcall
  refine ⟨hcall, ⟨(ValidP.validB_iff _).mpr hv, by rw [f3, F.fermi, hfa], by rw [f2, F.sym],
    by rw [f1, F.charge], by rw [f4, f5, F.indices], by rw [f5, F.sectors], hpm, ?_⟩, f6⟩
  intro s oL oR hoL ho
  rw [finish_elem _ _ (coreFrame_signOk F), F.elem s oL oR hoL ho]

end finish

/-! ### consequences for the frame of the intermediate result -/

section inter
variable [AddMonoid R] [Mul R] [Neg R]
variable {a b ab : Arr R} {xa xb : List Nat} {ph : Int}

theorem Inter.ndim (I : Inter a b xa xb ab ph) :
    ab.ndim = (freeAxes a.ndim xa).length + (freeAxes b.ndim xb).length := by
  show ab.indices.length = _
  rw [I.indices, dropUnused_length, List.length_append, without_eq_permuted_freeAxes,
    without_eq_permuted_freeAxes, permuted_length _ _ (fun x hx => (mem_freeAxes.mp hx).1),
    permuted_length _ _ (fun x hx => (mem_freeAxes.mp hx).1)]
  rfl

theorem Inter.mem_sectors (I : Inter a b xa xb ab ph) {s : Sector} :
    s ∈ ab.sectors ↔ ∃ sa ∈ a.sectors, ∃ sb ∈ b.sectors, permuted sb xb = permuted sa xa
      ∧ s = permuted sa (freeAxes a.ndim xa) ++ permuted sb (freeAxes b.ndim xb) := by
  rw [I.sectors, List.mem_eraseDups, mem_tdKeys]
  constructor
  · rintro ⟨x, hx, y, hy, h1, h2⟩; exact ⟨x, hx, y, hy, h1.symm, h2⟩
  · rintro ⟨x, hx, y, hy, h1, h2⟩; exact ⟨x, hx, y, hy, h1.symm, h2⟩

/-- the block shape of a stored sector of the intermediate result -/
theorem Inter.shape (I : Inter a b xa xb ab ph) (hsa : a.shapesOk) (hsb : b.shapesOk)
    {sa sb : Sector} (hA : sa ∈ a.sectors) (hB : sb ∈ b.sectors)
    (hal : permuted sb xb = permuted sa xa) :
    Arr.blockShape? ab.indices (permuted sa (freeAxes a.ndim xa) ++ permuted sb (freeAxes b.ndim xb))
      = some (permuted (Arr.blockShapeD a.indices sa) (freeAxes a.ndim xa)
          ++ permuted (Arr.blockShapeD b.indices sb) (freeAxes b.ndim xb)) := by
  obtain ⟨shpA, hA1, hA2, _, _⟩ := shape_of_mem hsa hA
  obtain ⟨shpB, hB1, hB2, _, _⟩ := shape_of_mem hsb hB
  rw [I.indices, ValidP.dropUnused_blockShape _ _ _ (I.mem_sectors.mpr ⟨sa, hA, sb, hB, hal, rfl⟩),
    without_eq_permuted_freeAxes, without_eq_permuted_freeAxes, hA2, hB2]
  exact blockShape?_append (blockShape?_permuted hA1 _ (fun x hx => (mem_freeAxes.mp hx).1))
    (blockShape?_permuted hB1 _ (fun x hx => (mem_freeAxes.mp hx).1))

/-- the same in the un-pruned frame -/
theorem Inter.shapeU (I : Inter a b xa xb ab ph) (hsa : a.shapesOk) (hsb : b.shapesOk)
    {sa sb : Sector} (hA : sa ∈ a.sectors) (hB : sb ∈ b.sectors)
    (hal : permuted sb xb = permuted sa xa) :
    Arr.blockShape? (without a.indices xa ++ without b.indices xb)
        (permuted sa (freeAxes a.ndim xa) ++ permuted sb (freeAxes b.ndim xb))
      = some (permuted (Arr.blockShapeD a.indices sa) (freeAxes a.ndim xa)
          ++ permuted (Arr.blockShapeD b.indices sb) (freeAxes b.ndim xb)) := by
  have := I.shape hsa hsb hA hB hal
  rwa [I.indices, ValidP.dropUnused_blockShape _ _ _ (I.mem_sectors.mpr ⟨sa, hA, sb, hB, hal, rfl⟩)]
    at this

/-- a leg of the intermediate result that comes from `b` is a pruned copy of `b`'s leg -/
theorem Inter.leg_right (I : Inter a b xa xb ab ph) (p : Nat) (hp : p < (freeAxes b.ndim xb).length) :
    Pruned (ab.indices.getD ((freeAxes a.ndim xa).length + p) default)
      (b.indices.getD ((freeAxes b.ndim xb).getD p 0) default) := by
  have hla : (without a.indices xa).length = (freeAxes a.ndim xa).length := by
    rw [without_eq_permuted_freeAxes]
    exact permuted_length _ _ (fun x hx => (mem_freeAxes.mp hx).1)
  have hlb : (without b.indices xb).length = (freeAxes b.ndim xb).length := by
    rw [without_eq_permuted_freeAxes]
    exact permuted_length _ _ (fun x hx => (mem_freeAxes.mp hx).1)
  have := dropUnused_getD_pruned (without a.indices xa ++ without b.indices xb) ab.sectors
    ((freeAxes a.ndim xa).length + p) (by rw [List.length_append, hla, hlb]; omega)
  rw [← I.indices] at this
  have e : (without a.indices xa ++ without b.indices xb).getD ((freeAxes a.ndim xa).length + p) default
      = b.indices.getD ((freeAxes b.ndim xb).getD p 0) default := by
    rw [List.getD_eq_getElem?_getD, List.getElem?_append_right (by rw [hla]; omega), hla,
      Nat.add_sub_cancel_left, ← List.getD_eq_getElem?_getD, without_eq_permuted_freeAxes]
    exact getD_permuted_ax b.indices _ (fun x hx => (mem_freeAxes.mp hx).1) p hp default
  rw [e] at this
  exact this

/-- a leg of the intermediate result that comes from `a` is a pruned copy of `a`'s leg -/
theorem Inter.leg_left (I : Inter a b xa xb ab ph) (p : Nat) (hp : p < (freeAxes a.ndim xa).length) :
    Pruned (ab.indices.getD p default) (a.indices.getD ((freeAxes a.ndim xa).getD p 0) default) := by
  have hla : (without a.indices xa).length = (freeAxes a.ndim xa).length := by
    rw [without_eq_permuted_freeAxes]
    exact permuted_length _ _ (fun x hx => (mem_freeAxes.mp hx).1)
  have := dropUnused_getD_pruned (without a.indices xa ++ without b.indices xb) ab.sectors
    p (by rw [List.length_append, hla]; omega)
  rw [← I.indices] at this
  have e : (without a.indices xa ++ without b.indices xb).getD p default
      = a.indices.getD ((freeAxes a.ndim xa).getD p 0) default := by
    rw [List.getD_eq_getElem?_getD, List.getElem?_append_left (by rw [hla]; omega),
      ← List.getD_eq_getElem?_getD, without_eq_permuted_freeAxes]
    exact getD_permuted_ax a.indices _ (fun x hx => (mem_freeAxes.mp hx).1) p hp default
  rw [e] at this
  exact this

end inter

end AssocP
end SymmModel
