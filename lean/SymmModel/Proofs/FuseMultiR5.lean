/-
  SymmModel.Proofs.FuseMultiR5 — **the general round trip**: fusing an arbitrary list of groups
  and unfusing every fused axis (from the last to the first) restores every stored block as the
  transposed block under the transposed sector; every other block of the result is zero.
-/
import SymmModel.Proofs.FuseMultiR4
namespace SymmModel
namespace FuseP
set_option linter.unusedSectionVars false

variable {R : Type}

section Multi
variable {a : Arr R} {groups : List (List Nat)} [Zero R]

theorem stage_step (hc : ValidP.Core a) (hok : GroupsOk groups a.ndim) {j : Nat} (hj : j < groups.length)
    {X : Arr R} (h : StageInv a groups j X) :
    ∃ X', stageStep a groups X (groups.length - (j + 1)) = .ok X' ∧ StageInv a groups (j + 1) X' := by
  by_cases hm : multiB groups (groups.length - (j + 1)) = true
  · obtain ⟨X', h1, h2⟩ := stage_multi hc hok hj hm h
    exact ⟨X', by simp only [stageStep, hm, if_true]; exact h1, h2⟩
  · have hm' : multiB groups (groups.length - (j + 1)) = false := by simpa using hm
    obtain ⟨e1, e2, e3, e4⟩ := stage_single (validArr_of_core hc) hok hj hm'
    refine ⟨X, by simp only [stageStep, hm', Bool.false_eq_true, if_false]; rfl, h.core, h.sym,
      by rw [e4]; exact h.idx, ?_, ?_⟩
    · intro sb hsb
      obtain ⟨V, hV, hVs, hVg⟩ := h.here sb hsb
      refine ⟨V, by rw [e1]; exact hV, by rw [e2 sb hsb]; exact hVs, ?_⟩
      intro offs ho
      rw [e3 sb hsb offs ho]; exact hVg offs ho
    · intro K V hl J hJ
      rcases h.only K V hl J hJ with ⟨sb, hsb, offs, ho, hK, hJ'⟩ | h0
      · exact Or.inl ⟨sb, hsb, offs, ho, by rw [e1]; exact hK, by rw [e3 sb hsb offs ho]; exact hJ'⟩
      · exact Or.inr h0

variable (a groups) in
/-- unfuse the groups `g-1, …, 0` (each only if it is a multi-axis group) -/
def unfuseFrom : Nat → Arr R → Except Err (Arr R)
  | 0, x => pure x
  | g + 1, x => do
    let x' ← stageStep a groups x g
    unfuseFrom g x'

theorem unfuseFrom_eq_foldlM (g : Nat) (x : Arr R) :
    unfuseFrom a groups g x = (List.range g).reverse.foldlM (stageStep a groups) x := by
  induction g generalizing x with
  | zero => rfl
  | succ g ih =>
    rw [List.range_succ, List.reverse_append]
    simp only [List.reverse_cons, List.reverse_nil, List.nil_append, List.singleton_append, List.foldlM_cons,
      unfuseFrom]
    cases stageStep a groups x g with
    | error e => rfl
    | ok x' => exact ih x'

theorem stage_iter (hc : ValidP.Core a) (hok : GroupsOk groups a.ndim) (n j : Nat) (hjn : j + n = groups.length)
    {X : Arr R} (h : StageInv a groups j X) :
    ∃ Y, unfuseFrom a groups n X = .ok Y ∧ StageInv a groups groups.length Y := by
  induction n generalizing j X with
  | zero =>
    have : j = groups.length := by omega
    subst this
    exact ⟨X, rfl, h⟩
  | succ n ih =>
    have hj : j < groups.length := by omega
    obtain ⟨X', h1, h2⟩ := stage_step hc hok hj h
    have hg : groups.length - (j + 1) = n := by omega
    rw [hg] at h1
    obtain ⟨Y, h3, h4⟩ := ih (j + 1) (by omega) h2
    exact ⟨Y, by simp only [unfuseFrom, h1, bind, Except.bind]; exact h3, h4⟩

/-! ### the last stage is the transposed array -/

theorem KM_full (hok : GroupsOk groups a.ndim) {sb : Sector × Blk R} (hl : sb.1.length = a.ndim) :
    KM a groups sb groups.length = permuted sb.1 (giM a groups).perm := by
  simp only [KM]
  rw [partG_full, permutedM_eq hok sb.1 (0, 0) hl]
  have hp := nsM_parts hok sb
  have h3 := three_split ((List.range (giM a groups).position).map (fun x => sb.1.getD x (0, 0)))
    ((List.range groups.length).map (fun g => cM (a := a) (groups := groups) sb g))
    ((List.range (giM a groups).axesAfter.length).map (fun j => sb.1.getD ((giM a groups).axesAfter.getD j 0) (0, 0)))
  rw [← hp] at h3
  simp only [List.length_map, List.length_range] at h3
  rw [h3.1, h3.2.2]
  rfl

theorem IM_full (hok : GroupsOk groups a.ndim) (sb : Sector × Blk R) {offs : List Nat} (hl : offs.length = a.ndim) :
    IM a groups sb offs groups.length = permuted offs (giM a groups).perm := by
  simp only [IM, joinI]
  rw [partG_full, permutedM_eq hok offs 0 hl]
  have h3 := three_split ((List.range (giM a groups).position).map (fun x => offs.getD x 0))
    ((List.range groups.length).map (fun g => stM a groups sb g
        + ravel ((groups.getD g []).map (fun ax => sb.2.shape.getD ax 0))
            ((groups.getD g []).map (fun ax => offs.getD ax 0))))
    ((List.range (giM a groups).axesAfter.length).map (fun j => offs.getD ((giM a groups).axesAfter.getD j 0) 0))
  simp only [List.length_map, List.length_range] at h3
  rw [h3.1, h3.2.2]
  rfl

theorem SM_full (hok : GroupsOk groups a.ndim) (sb : Sector × Blk R) (hl : sb.2.shape.length = a.ndim) :
    SM a groups sb groups.length = permuted sb.2.shape (giM a groups).perm := by
  simp only [SM]
  rw [partG_full, permutedM_eq hok sb.2.shape 0 hl,
    take_eq_range_map _ 0 _ (by rw [BshM_length]; simp only [ndimM]; omega),
    drop_eq_range_map _ 0 _ (giM a groups).axesAfter.length (by rw [BshM_length]; rfl)]
  congr 1
  · congr 1
    apply List.map_congr_left
    intro x hx
    simp only [List.mem_range] at hx
    rw [BshM_getD sb (by simp only [ndimM]; omega), axMulti_before hx]
    simp only [Bool.false_eq_true, if_false, planM]
    exact planOf_newShape_before _ _ _ _ (hokD hok) hx
  · apply List.map_congr_left
    intro j hj
    simp only [List.mem_range] at hj
    rw [BshM_getD sb (by simp only [ndimM]; omega), axMulti_after]
    simp only [Bool.false_eq_true, if_false, planM]
    exact planOf_newShape_after _ _ _ _ (hokD hok) hj

theorem idxStage_full (hok : GroupsOk groups a.ndim) :
    idxStage a groups groups.length = permuted a.indices (giM a groups).perm := by
  simp only [idxStage]
  rw [partG_full, perm_eq, permuted_append, permuted_append]
  have h3 := three_split (permuted a.indices (giM a groups).axesBefore) (newMidOf a groups)
    (permuted a.indices (giM a groups).axesAfter)
  rw [permuted_before_length hok, newMidOf_length] at h3
  have hni : newIdxM a groups = permuted a.indices (giM a groups).axesBefore ++ newMidOf a groups
      ++ permuted a.indices (giM a groups).axesAfter := rfl
  rw [hni, h3.1, h3.2.2]
  congr 2
  rw [permuted_eq_map _ default _ hok.lt, List.map_flatten, map_eq_range_map groups []
    (List.map (fun p => a.indices.getD p default))]
  rfl

/-- **round trip, arbitrary groups** -/
theorem round_tripM (hc : ValidP.Core a) (hok : GroupsOk groups a.ndim) :
    ∃ Y, unfuseFrom a groups groups.length (fusedArrM a groups) = .ok Y
      ∧ Y.indices = permuted a.indices (giM a groups).perm
      ∧ (∀ sb ∈ a.blocks, alookup Y.blocks (permuted sb.1 (giM a groups).perm)
          = some (sb.2.transposeK (giM a groups).perm))
      ∧ (∀ K V, alookup Y.blocks K = some V →
          (∃ sb ∈ a.blocks, K = permuted sb.1 (giM a groups).perm) ∨ AllZero V) := by
  have hv := validArr_of_core hc
  obtain ⟨Y, hY, hS⟩ := stage_iter hc hok groups.length 0 (by omega) (stage_zero hc hok)
  have hvY := validArr_of_core hS.core
  refine ⟨Y, hY, by rw [hS.idx, idxStage_full hok], ?_, ?_⟩
  · intro sb hsb
    obtain ⟨V, hV, hVs, hVg⟩ := hS.here sb hsb
    have hshape := blockShape?_length (hv.blk sb hsb).2.1
    have hshl : sb.2.shape.length = a.ndim := by rw [hshape.2]; exact (hv.blk sb hsb).1
    rw [KM_full hok (hv.blk sb hsb).1] at hV
    rw [hV]
    congr 1
    have hVwf : V.wf = true := (hvY.blk (_, V) (alookup_some_mem hV)).2.2
    have hTwf : (sb.2.transposeK (giM a groups).perm).wf = true := ofFn_wf _ _
    have hsh : V.shape = (sb.2.transposeK (giM a groups).perm).shape := by
      rw [hVs, SM_full hok sb hshl]; rfl
    apply blk_ext_of_get hVwf hTwf hsh
    intro J hJ
    rw [hVs, SM_full hok sb hshl] at hJ
    obtain ⟨offs, hol, hperm, hobox⟩ := exists_unpermute (perm_nodup (hokD hok))
      (by rw [perm_length (hokD hok), duals_length])
      (fun p hp => by rw [← duals_length]; exact (mem_perm (hokD hok)).1 hp)
      (fun ax hax => by rw [mem_perm (hokD hok), duals_length]; exact hax) hshl hJ
    have := hVg offs hobox
    rw [IM_full hok sb hol, hperm] at this
    rw [this, ← hperm]
    symm
    apply transposeK_get_permuted sb.2 hshl hol
    · intro ax hax; rw [mem_perm (hokD hok), duals_length]; exact hax
    · intro p hp; rw [← duals_length]; exact (mem_perm (hokD hok)).1 hp
    · rw [hperm]; exact hJ
  · intro K V hl
    by_cases hex : ∃ sb ∈ a.blocks, K = permuted sb.1 (giM a groups).perm
    · exact Or.inl hex
    · right
      have hVwf : V.wf = true := (hvY.blk (_, V) (alookup_some_mem hl)).2.2
      apply allZero_of_get hVwf
      intro J hJ
      rcases hS.only K V hl J hJ with ⟨sb, hsb, offs, ho, hK, _⟩ | h0
      · exfalso
        apply hex
        exact ⟨sb, hsb, by rw [hK, KM_full hok (hv.blk sb hsb).1]⟩
      · exact h0

end Multi

end FuseP
end SymmModel
