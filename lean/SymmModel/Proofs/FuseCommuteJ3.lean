import SymmModel.Proofs.FuseCommuteJ2

/-!
# C06 — fermionic two-sided free-leg form, contractions in any mode (padding transfer)
-/

namespace SymmModel.TdotP
open SymmModel SymmModel.GradedP SymmModel.Lazy SymmModel.AssocP SymmModel.RoutesP
open SymmModel.Assoc3P SymmModel.Assoc4P

variable {R : Type}

/-- **fermionic, BOTH operands, ANY mode**: the closed form of `lead_commute_fermi_two` with the
    plain contraction `cm = tensordotF(a, b)` in mode `m1` and the contraction of the two pre-fused
    operands in mode `m2` (each blockwise / fused / auto).  The decoders and the two fuse signs are
    those of the BLOCKWISE intermediate results `cP = tensordotF(a, bF)`, `c' = tensordotF(b, a)`. -/
theorem lead_commute_fermi_two_modes [AddCommMonoid R] [Mul R] [Neg R] [SignRing R]
    (hz1 : ∀ x : R, 0 * x = 0) (hz2 : ∀ x : R, x * 0 = 0) (hmul : ∀ x y : R, x * y = y * x)
    (a b cm : Arr R) (xa xb : List Nat) (ka kb : Nat) (e : Bool) (m1 m2 : TdotMode)
    (ha : a.validB = true) (hb : b.validB = true) (hfa : a.fermi = true) (hfb : b.fermi = true)
    (hadm : tdotAdmissibleCommonB a b xa xb = true)
    (hd : (a.oddpos ++ b.oddpos).Pairwise (fun x y => x.1 ≠ y.1))
    (hka1 : 1 ≤ ka) (hka : ka ≤ a.ndim) (hxa : ∀ x ∈ xa, ka ≤ x)
    (hkb1 : 1 ≤ kb) (hkb : kb ≤ b.ndim) (hxb : ∀ x ∈ xb, kb ≤ x)
    (hcm : a.tensordotF b (.pair (xa.map Int.ofNat) (xb.map Int.ofNat)) m1 = .ok cm) :
    a.fuseF [List.range ka] .insert e
        = .ok (FuseP.fusedArrM (FuseP.signAdj a [List.range ka]) [List.range ka])
    ∧ b.fuseF [List.range kb] .insert e
        = .ok (FuseP.fusedArrM (FuseP.signAdj b [List.range kb]) [List.range kb])
    ∧ ∃ c' cP cPPm,
      b.tensordotF a (.pair (xb.map Int.ofNat) (xa.map Int.ofNat)) .blockwise = .ok c'
      ∧ a.tensordotF (FuseP.fusedArrM (FuseP.signAdj b [List.range kb]) [List.range kb])
          (.pair (xa.map Int.ofNat) ((xb.map (sh kb)).map Int.ofNat)) .blockwise = .ok cP
      ∧ (FuseP.fusedArrM (FuseP.signAdj a [List.range ka]) [List.range ka]).tensordotF
          (FuseP.fusedArrM (FuseP.signAdj b [List.range kb]) [List.range kb])
          (.pair ((xa.map (sh ka)).map Int.ofNat) ((xb.map (sh kb)).map Int.ofNat)) m2 = .ok cPPm
      ∧ c'.fuseF [List.range kb] .insert e
          = .ok (FuseP.fusedArrM (FuseP.signAdj c' [List.range kb]) [List.range kb])
      ∧ cP.fuseF [List.range ka] .insert e
          = .ok (FuseP.fusedArrM (FuseP.signAdj cP [List.range ka]) [List.range ka])
      ∧ kb ≤ c'.ndim ∧ ka ≤ cP.ndim
      ∧ ∀ (c0a c2a c0b c2b : Charge) (i0a d0a i2a d2a i0b d0b i2b d2b : Nat)
          (Sa Sb restL restR : Sector) (Oa Ob orestL orestR shp1 shp2 : List Nat),
        -- the left fused position
        decAx (FuseP.signAdj a [List.range ka]) [List.range ka] 0 c0a i0a = some (Sa, Oa) →
        (FuseP.ixM (FuseP.signAdj a [List.range ka]) [List.range ka] 0).sizeOf? c0a = some d0a →
        i0a < d0a →
        decAx (FuseP.signAdj cP [List.range ka]) [List.range ka] 0 c2a i2a = some (Sa, Oa) →
        (FuseP.ixM (FuseP.signAdj cP [List.range ka]) [List.range ka] 0).sizeOf? c2a = some d2a →
        i2a < d2a →
        -- the right fused position
        decAx (FuseP.signAdj b [List.range kb]) [List.range kb] 0 c0b i0b = some (Sb, Ob) →
        (FuseP.ixM (FuseP.signAdj b [List.range kb]) [List.range kb] 0).sizeOf? c0b = some d0b →
        i0b < d0b →
        decAx (FuseP.signAdj c' [List.range kb]) [List.range kb] 0 c2b i2b = some (Sb, Ob) →
        (FuseP.ixM (FuseP.signAdj c' [List.range kb]) [List.range kb] 0).sizeOf? c2b = some d2b →
        i2b < d2b →
        -- the rest of the address lies inside the tables of `cP` resp. `c'`
        Arr.blockShape? (cP.indices.drop ka) (restL ++ c0b :: restR) = some shp1 →
        inBox shp1 (orestL ++ i0b :: orestR) = true →
        Arr.blockShape? (c'.indices.drop kb) (restR ++ (Sa ++ restL)) = some shp2 →
        inBox shp2 (orestR ++ (Oa ++ orestL)) = true →
        -- lengths
        (Sa ++ restL).length = (freeAxes a.ndim xa).length →
        (Oa ++ orestL).length = (freeAxes a.ndim xa).length →
        restR.length + 1 = (freeAxes (1 + (b.ndim - kb)) (xb.map (sh kb))).length →
        orestR.length = restR.length →
        (Sb ++ restR).length = (freeAxes b.ndim xb).length →
        (Ob ++ orestR).length = (freeAxes b.ndim xb).length →
        -- the addresses lie inside the operands' tables
        inBox (Arr.blockShapeD
            (without (FuseP.fusedArrM (FuseP.signAdj b [List.range kb]) [List.range kb]).indices
                (xb.map (sh kb)) ++ without a.indices xa) ((c0b :: restR) ++ (Sa ++ restL)))
          ((i0b :: orestR) ++ (Oa ++ orestL)) = true →
        inBox (Arr.blockShapeD (without a.indices xa ++ without b.indices xb)
            ((Sa ++ restL) ++ (Sb ++ restR))) ((Oa ++ orestL) ++ (Ob ++ orestR)) = true →
        -- the address of the pre-fused contraction lies inside the tables of the fused operands
        inBox (Arr.blockShapeD
            (without (FuseP.fusedArrM (FuseP.signAdj a [List.range ka]) [List.range ka]).indices
                (xa.map (sh ka))
              ++ without (FuseP.fusedArrM (FuseP.signAdj b [List.range kb]) [List.range kb]).indices
                (xb.map (sh kb))) (c0a :: (restL ++ c0b :: restR)))
          (i0a :: (orestL ++ i0b :: orestR)) = true →
        cPPm.elem (c0a :: (restL ++ c0b :: restR)) (i0a :: (orestL ++ i0b :: orestR))
          = sgnI (FuseP.fuseSignT cP [List.range ka] (Sa ++ (restL ++ c0b :: restR)))
             (sgnI (koszul (((c0b :: restR) ++ (Sa ++ restL)).map a.sym.parity)
                (some ((List.range (Sa ++ restL).length).map ((restR.length + 1) + ·)
                  ++ List.range (restR.length + 1))))
              (sgnI (FuseP.fuseSignT c' [List.range kb] (Sb ++ (restR ++ (Sa ++ restL))))
               (sgnI (koszul (((Sa ++ restL) ++ (Sb ++ restR)).map a.sym.parity)
                  (some ((List.range (Sb ++ restR).length).map ((Sa ++ restL).length + ·)
                    ++ List.range (Sa ++ restL).length)))
                (cm.elem ((Sa ++ restL) ++ (Sb ++ restR)) ((Oa ++ orestL) ++ (Ob ++ orestR)))))) := by
  have W := AdmW.of ha hb hfa hfb hadm
  obtain ⟨c, hc, pc, ic, _⟩ := call_any hz1 hz2 a b xa xb W m1 cm hcm
  obtain ⟨hfA, hfB, c', cP, cPP, hc', hcP, hcPP, hfC', hfCP, hk1', hk2', _, _, hel⟩ :=
    lead_commute_fermi_two hz1 hz2 hmul a b c xa xb ka kb e ha hb hfa hfb hadm hd hka1 hka hxa
      hkb1 hkb hxb hc
  have WR := admW_fuse_lead_right W kb e hkb1 hkb hxb
  have WW := admW_fuse_lead WR ka e hka1 hka hxa
  obtain ⟨cPPm, hcPPm⟩ := call_any_exists hz1 hz2 _ _ _ _ WW cPP hcPP m2
  obtain ⟨rb, hrb, prb, irb, _⟩ := call_any hz1 hz2 _ _ _ _ WW m2 cPPm hcPPm
  rw [hcPP] at hrb
  obtain rfl := Except.ok.inj hrb
  refine ⟨hfA, hfB, c', cP, cPPm, hc', hcP, hcPPm, hfC', hfCP, hk1', hk2', ?_⟩
  intro c0a c2a c0b c2b i0a d0a i2a d2a i0b d0b i2b d2b Sa Sb restL restR Oa Ob orestL orestR shp1 shp2
    a1 a2 a3 a4 a5 a6 b1 b2 b3 b4 b5 b6 hs1 hx1 hs2 hx2 l1 l2 l3 l4 l5 l6 box3 box4 box5
  rw [pad_elem_big prb irb.frame _ _ box5, pad_elem_big pc ic.frame _ _ box4]
  exact (hel c0a c2a c0b c2b i0a d0a i2a d2a i0b d0b i2b d2b Sa Sb restL restR Oa Ob orestL orestR
    shp1 shp2 a1 a2 a3 a4 a5 a6 b1 b2 b3 b4 b5 b6 hs1 hx1 hs2 hx2 l1 l2 l3 l4 l5 l6 box3 box4).2.2

end SymmModel.TdotP
