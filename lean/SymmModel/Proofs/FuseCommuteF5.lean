/-
  SymmModel.Proofs.FuseCommuteF5 — C06, first clause, FERMIONIC, for aligned operands: the
  fermionic fuses of the contracted legs succeed, the fermionic contraction of the two fused
  operands over the single fused pair succeeds exactly when the contraction over the original
  pairs does, with the same labels / charge, and the same element at every address of the free
  legs' table box (`bond_fuse_fermi`).  Namespace `SymmModel.TdotP`.
-/
import SymmModel.Proofs.FuseCommuteF4

namespace SymmModel
namespace TdotP
open SymmModel.KoszulP SymmModel.Lazy SymmModel.GradedP SymmModel.RoutesP SymmModel.AssocP
variable {R : Type}
set_option linter.unusedSectionVars false

/-- the box of an address made of a left and a right free part -/
theorem box_of_parts {A B : Arr R} {xa xb : List Nat} {Ls Rs : Sector} {oL oR shpL shpR : List Nat}
    (hshpL : Arr.blockShape? (permuted A.indices (freeAxes A.ndim xa)) Ls = some shpL)
    (hboxL : inBox shpL oL = true)
    (hshpR : Arr.blockShape? (permuted B.indices (freeAxes B.ndim xb)) Rs = some shpR)
    (hboxR : inBox shpR oR = true) :
    inBox (Arr.blockShapeD (without A.indices xa ++ without B.indices xb) (Ls ++ Rs)) (oL ++ oR) = true
    ∧ oL.length = (freeAxes A.ndim xa).length := by
  have ean : A.indices.length = A.ndim := rfl
  have ebn : B.indices.length = B.ndim := rfl
  constructor
  · rw [without_eq_permuted_freeAxes, without_eq_permuted_freeAxes, Arr.blockShapeD, ean, ebn,
      blockShape?_append hshpL hshpR]
    simp only [Option.getD_some]
    rw [inBox_append (inBox_length hboxL), hboxL, hboxR]; rfl
  · rw [inBox_length hboxL, (blockShape?_length hshpL).2,
      permuted_length _ _ (by simpa [ean] using mem_freeAxes_lt)]

/-- the free tables of the fused operand are those of the original -/
theorem fused_free_shape [Zero R] {X : Arr R} {g : List Nat} (h : OneOk X g) {Ls : Sector} {shpL : List Nat}
    (hshpL : Arr.blockShape? (permuted X.indices (freeAxes X.ndim g)) Ls = some shpL) :
    Arr.blockShape? (permuted (FuseP.fusedArrM X [g]).indices
      (freeAxes (FuseP.fusedArrM X [g]).ndim [bondPos X g])) Ls = some shpL := by
  rw [one_ndim h]
  show Arr.blockShape? (permuted (FuseP.newIdxM X [g]) _) Ls = _
  rw [show bondPos X g = (FuseP.giM X [g]).position from rfl, one_free_indices h]; exact hshpL

/-- **fermionic: contracting the single fused pair = contracting the original pairs** (aligned
    operands, contracted legs adjacent and in order, blockwise mode). -/
theorem bond_fuse_fermi [AddCommMonoid R] [Mul R] [Neg R] [SignRing R]
    (hz1 : ∀ x : R, 0 * x = 0) (hz2 : ∀ x : R, x * 0 = 0) {A B : Arr R} {xa xb : List Nat}
    (h : FCtx A B xa xb) (e1 e2 : Bool) :
    A.fuseF [xa] .insert e1 = .ok (FuseP.fusedArrM (FuseP.signAdj A [xa]) [xa])
    ∧ B.fuseF [xb] .insert e2 = .ok (FuseP.fusedArrM (FuseP.signAdj B [xb]) [xb])
    ∧ AdmW (FuseP.fusedArrM (FuseP.signAdj A [xa]) [xa]) (FuseP.fusedArrM (FuseP.signAdj B [xb]) [xb])
        [bondPos A xa] [bondPos B xb]
    ∧ (∀ e, A.tensordotF B (.pair (xa.map Int.ofNat) (xb.map Int.ofNat)) .blockwise = .error e →
        (FuseP.fusedArrM (FuseP.signAdj A [xa]) [xa]).tensordotF (FuseP.fusedArrM (FuseP.signAdj B [xb]) [xb])
          (.pair [Int.ofNat (bondPos A xa)] [Int.ofNat (bondPos B xb)]) .blockwise = .error e)
    ∧ ∀ c, A.tensordotF B (.pair (xa.map Int.ofNat) (xb.map Int.ofNat)) .blockwise = .ok c →
      ∃ cf, (FuseP.fusedArrM (FuseP.signAdj A [xa]) [xa]).tensordotF
            (FuseP.fusedArrM (FuseP.signAdj B [xb]) [xb])
            (.pair [Int.ofNat (bondPos A xa)] [Int.ofNat (bondPos B xb)]) .blockwise = .ok cf
        ∧ cf.oddpos = c.oddpos ∧ cf.charge = c.charge ∧ cf.sym = c.sym ∧ cf.fermi = c.fermi
        ∧ cf.ndim = c.ndim
        ∧ ∀ (Ls Rs : Sector) (oL oR shpL shpR : List Nat),
            Arr.blockShape? (permuted A.indices (freeAxes A.ndim xa)) Ls = some shpL → inBox shpL oL = true →
            Arr.blockShape? (permuted B.indices (freeAxes B.ndim xb)) Rs = some shpR → inBox shpR oR = true →
            cf.elem (Ls ++ Rs) (oL ++ oR) = c.elem (Ls ++ Rs) (oL ++ oR) := by
  have W := h.W
  have hlen := W.len
  have oA := h.adjA.one
  have oB := h.adjB.one
  have hne : xa ≠ [] := oA.ne
  have hfuseA := (FuseP.fuseF_elemT A [xa] e1 W.va W.fa oA.groupsOk).1
  rw [adj_newGroupsF h.adjA] at hfuseA
  have hfuseB := (FuseP.fuseF_elemT B [xb] e2 W.vb W.fb oB.groupsOk).1
  rw [adj_newGroupsF h.adjB] at hfuseB
  have hadmA : ValidP.fuseAdmissibleB [xa] A.ndim = true := by
    simp only [ValidP.fuseAdmissibleB, Bool.and_eq_true, List.all_eq_true, decide_eq_true_eq]
    exact ⟨allDistinct_iff_nodup.mpr oA.groupsOk.nodup, oA.groupsOk.lt⟩
  have hadmB : ValidP.fuseAdmissibleB [xb] B.ndim = true := by
    simp only [ValidP.fuseAdmissibleB, Bool.and_eq_true, List.all_eq_true, decide_eq_true_eq]
    exact ⟨allDistinct_iff_nodup.mpr oB.groupsOk.nodup, oB.groupsOk.lt⟩
  have hvAF : (FuseP.fusedArrM (FuseP.signAdj A [xa]) [xa]).validB = true :=
    (ValidP.validB_iff _).mpr
      (ValidP.fuseF_valid A _ _ e1 ((ValidP.validB_iff A).mp W.va) W.fa hadmA hfuseA)
  have hvBF : (FuseP.fusedArrM (FuseP.signAdj B [xb]) [xb]).validB = true :=
    (ValidP.validB_iff _).mpr
      (ValidP.fuseF_valid B _ _ e2 ((ValidP.validB_iff B).mp W.vb) W.fb hadmB hfuseB)
  obtain ⟨xI, xS, xSec, xPh, xV, xF, xCh, xOd, xE⟩ := signAdj_adj A W.va W.fa h.adjA
  obtain ⟨yI, yS, ySec, yPh, yV, yF, yCh, yOd, yE⟩ := signAdj_adj B W.vb W.fb h.adjB
  refine ⟨hfuseA, hfuseB, ?_⟩
  clear hfuseA hfuseB
  generalize FuseP.signAdj A [xa] = X at *
  generalize FuseP.signAdj B [xb] = Y at *
  have hXn : X.ndim = A.ndim := by show X.indices.length = A.indices.length; rw [xI]
  have hYn : Y.ndim = B.ndim := by show Y.indices.length = B.indices.length; rw [yI]
  have oAX : OneOk X xa := ⟨oA.ne, oA.nd, by rw [hXn]; exact oA.lt⟩
  have oBX : OneOk Y xb := ⟨oB.ne, oB.nd, by rw [hYn]; exact oB.lt⟩
  have hbA : bondPos A xa = bondPos X xa := by unfold bondPos; rw [giM_congr xI]
  have hbB : bondPos B xb = bondPos Y xb := by unfold bondPos; rw [giM_congr yI]
  rw [hbA, hbB]
  have H0 : Ctx0 (ab X) (ab Y) xa xb := ctx0_of_fctx h xI xS xSec xPh xV yI yS ySec yPh yV
  have gA0 : ([xa] : List (List Nat))[0]? = some xa := rfl
  have gB0 : ([xb] : List (List Nat))[0]? = some xb := rfl
  have hrA : ∀ x ∈ ([bondPos X xa] : List Nat), x < (FuseP.fusedArrM X [xa]).ndim := by
    intro i hi
    simp only [List.mem_cons, List.not_mem_nil, or_false] at hi
    rw [hi, one_ndim oAX]; exact one_pos_lt_ndimM oAX
  have hrB : ∀ x ∈ ([bondPos Y xb] : List Nat), x < (FuseP.fusedArrM Y [xb]).ndim := by
    intro i hi
    simp only [List.mem_cons, List.not_mem_nil, or_false] at hi
    rw [hi, one_ndim oBX]; exact one_pos_lt_ndimM oBX
  -- the weak guard for the fused pair
  have W' : AdmW (FuseP.fusedArrM X [xa]) (FuseP.fusedArrM Y [xb]) [bondPos X xa] [bondPos Y xb] := by
    obtain ⟨bm1, _, bm3⟩ := H0.bond_match (show OneOk (ab X) xa from ⟨oAX.ne, oAX.nd, oAX.lt⟩).groupsOk
      (show OneOk (ab Y) xb from ⟨oBX.ne, oBX.nd, oBX.lt⟩).groupsOk gA0 gB0
    have bm1' : (FuseP.ixM X [xa] 0).cm = (FuseP.ixM Y [xb] 0).cm := bm1
    have bm3' : (FuseP.ixM X [xa] 0).dual = !(FuseP.ixM Y [xb] 0).dual := bm3
    have hcB : ValidP.contractibleB (FuseP.fusedArrM X [xa]) (FuseP.fusedArrM Y [xb]) [bondPos X xa]
        [bondPos Y xb] = true := by
      have e1 : (FuseP.fusedArrM X [xa]).indices.getD (bondPos X xa) default = FuseP.ixM X [xa] 0 := rfl
      have e2 : (FuseP.fusedArrM Y [xb]).indices.getD (bondPos Y xb) default = FuseP.ixM Y [xb] 0 := rfl
      simp only [ValidP.contractibleB, List.length_cons, List.length_nil, beq_self_eq_true, List.zip_cons_cons,
        List.zip_nil_right, List.all_cons, List.all_nil, Bool.and_true, Bool.true_and, e1, e2, bm1', bm3',
        bne_iff_ne, ne_eq]
      cases (FuseP.ixM Y [xb] 0).dual <;> simp
    exact ⟨hvAF, hvBF, xF.trans W.fa, yF.trans W.fb, xS.trans (W.sym.trans yS.symm),
      commonB_of_contractibleB hvAF hrA hcB, by simp, by simp, hrA, hrB⟩
  refine ⟨W', ?_⟩
  have hPpar : (FuseP.fusedArrM X [xa]).parity = A.parity := by
    show X.sym.parity X.charge = A.sym.parity A.charge
    rw [xS, xCh]
  have hcall : (FuseP.fusedArrM X [xa]).tensordotF (FuseP.fusedArrM Y [xb])
      (.pair [Int.ofNat (bondPos X xa)] [Int.ofNat (bondPos Y xb)]) .blockwise
      = (OddposP.mergeOddpos A.parity A.oddpos B.oddpos).map
          (finish (coreT (FuseP.fusedArrM X [xa]) (FuseP.fusedArrM Y [xb]) [bondPos X xa] [bondPos Y xb])) := by
    have := tensordotF_eq_core_w _ _ _ _ W'
    simp only [List.map_cons, List.map_nil] at this
    rw [this, hPpar]
    show (OddposP.mergeOddpos A.parity X.oddpos Y.oddpos).map _ = _
    rw [xOd, yOd]
  have horig := tensordotF_eq_core_w A B xa xb W
  constructor
  · intro e he
    rw [horig] at he
    rw [hcall]
    cases hm : OddposP.mergeOddpos A.parity A.oddpos B.oddpos with
    | error e' => rw [hm] at he; simp only [Except.map] at he ⊢; exact he
    | ok r => rw [hm] at he; simp only [Except.map] at he; cases he
  · intro c hc
    rw [horig] at hc
    cases hm : OddposP.mergeOddpos A.parity A.oddpos B.oddpos with
    | error e' => rw [hm] at hc; cases hc
    | ok r =>
    rw [hm] at hc
    simp only [Except.map, Except.ok.injEq] at hc
    have F := coreT_frame_w A B xa xb W
    have F' := coreT_frame_w _ _ _ _ W'
    obtain ⟨g1, g2, g3, g4, g5, g6⟩ := finish_fields (coreT A B xa xb) r
    obtain ⟨k1, k2, k3, k4, k5, k6⟩ := finish_fields
      (coreT (FuseP.fusedArrM X [xa]) (FuseP.fusedArrM Y [xb]) [bondPos X xa] [bondPos Y xb]) r
    rw [hc] at g1 g2 g3 g4 g5 g6
    refine ⟨_, by rw [hcall, hm]; rfl, k6.trans g6.symm, ?_, ?_, ?_, ?_, ?_⟩
    · rw [k1, F'.charge, g1, F.charge]
      show X.sym.combine [X.charge, Y.charge] = _
      rw [xS, xCh, yCh]
    · rw [k2, F'.sym, g2, F.sym]; exact xS
    · rw [k3, F'.fermi, g3, F.fermi]; exact xF
    · show (finish _ r).indices.length = c.indices.length
      rw [k4, g4, F'.indices, F.indices, dropUnused_length, dropUnused_length,
        without_eq_permuted_freeAxes, without_eq_permuted_freeAxes, without_eq_permuted_freeAxes,
        without_eq_permuted_freeAxes, List.length_append, List.length_append,
        permuted_length _ _ mem_freeAxes_lt, permuted_length _ _ mem_freeAxes_lt,
        permuted_length _ _ mem_freeAxes_lt, permuted_length _ _ mem_freeAxes_lt]
      have eFA : (FuseP.fusedArrM X [xa]).indices.length = (FuseP.fusedArrM X [xa]).ndim := rfl
      have eFB : (FuseP.fusedArrM Y [xb]).indices.length = (FuseP.fusedArrM Y [xb]).ndim := rfl
      have ean : A.indices.length = A.ndim := rfl
      have ebn : B.indices.length = B.ndim := rfl
      rw [eFA, eFB, ean, ebn, one_ndim oAX, one_ndim oBX]
      have l1 := one_free_length oAX
      have l2 := one_free_length oBX
      rw [hXn] at l1
      rw [hYn] at l2
      show (freeAxes (FuseP.ndimM X [xa]) [(FuseP.giM X [xa]).position]).length
        + (freeAxes (FuseP.ndimM Y [xb]) [(FuseP.giM Y [xb]).position]).length = _
      rw [l1, l2]
    · intro Ls Rs oL oR shpL shpR hshpL hboxL hshpR hboxR
      have hshpLX : Arr.blockShape? (permuted X.indices (freeAxes X.ndim xa)) Ls = some shpL := by
        rw [xI, hXn]; exact hshpL
      have hshpRY : Arr.blockShape? (permuted Y.indices (freeAxes Y.ndim xb)) Rs = some shpR := by
        rw [yI, hYn]; exact hshpR
      obtain ⟨bF, lF⟩ := box_of_parts (fused_free_shape oAX hshpLX) hboxL (fused_free_shape oBX hshpRY) hboxR
      obtain ⟨bA, lA⟩ := box_of_parts hshpL hboxL hshpR hboxR
      rw [finish_elem _ _ (coreFrame_signOk F'), F'.elem _ _ _ lF bF,
        gradedContract_bond_fuse hz1 hz2 h xI xS xSec xPh xV xCh xE yI yS ySec yPh yV yE hvAF hvBF
          hshpL hboxL hshpR hboxR,
        ← hc, finish_elem _ _ (coreFrame_signOk F), F.elem _ _ _ lA bA]

end TdotP
end SymmModel
