/-
  SymmModel.Proofs.Heap4Frame — the buffer table is append-only: every effect program only appends
  entries to it (property C14).  Together with the identity of objects (`Step`) this lifts the frame
  theorems from "the same objects with the same items" to "the same DENOTATION".
-/
import SymmModel.Proofs.Heap2Lemmas
import SymmModel.Proofs.Heap3Sem
namespace SymmModel.Heap

/-- `h'` has all buffers of `h`, at the same ids, and possibly more -/
def BufExt (h h' : Heap) : Prop := ∃ X, h'.bufs = h.bufs ++ X

theorem BufExt.refl (h : Heap) : BufExt h h := ⟨[], by simp⟩
theorem BufExt.trans {h h1 h2 : Heap} (a : BufExt h h1) (b : BufExt h1 h2) : BufExt h h2 := by
  obtain ⟨X, e1⟩ := a; obtain ⟨Y, e2⟩ := b
  exact ⟨X ++ Y, by rw [e2, e1, List.append_assoc]⟩
theorem BufExt.of_eq {h h' : Heap} (e : h'.bufs = h.bufs) : BufExt h h' := ⟨[], by simp [e]⟩

theorem newBuffer_bufext (h : Heap) (t : Nat) (a : List BufId) : BufExt h (newBuffer h t a).1 := ⟨[(t, a)], rfl⟩

theorem buildEntries_bufext (h : Heap) (es : List (Key × BufSrc)) : BufExt h (buildEntries h es).1 := by
  induction es generalizing h with
  | nil => exact BufExt.refl _
  | cons e r ih =>
    obtain ⟨k, s⟩ := e
    cases s with
    | old b => simp only [buildEntries]; exact ih h
    | kern t a => simp only [buildEntries]; exact (newBuffer_bufext h t a).trans (ih _)

theorem buildDict_bufext (h : Heap) (es : List (Key × BufSrc)) : BufExt h (buildDict h es).1 := by
  obtain ⟨X, e⟩ := buildEntries_bufext h es
  exact ⟨X, by simpa [buildDict, newDict, alloc] using e⟩

theorem newDict_bufext (h : Heap) (d : Dict) : BufExt h (newDict h d).1 := BufExt.of_eq rfl
theorem copyDict_bufext (h : Heap) (d : DictId) : BufExt h (copyDict h d).1 := BufExt.of_eq rfl
theorem allocArray_bufext (h : Heap) (a : ArrObj) : BufExt h (allocArray h a).1 := BufExt.of_eq rfl

theorem blocksFor_bufext (h : Heap) (o : ArrObj) (mb) : BufExt h (blocksFor h o mb).1 := by
  unfold blocksFor; cases mb with
  | some es => exact buildDict_bufext _ _
  | none => exact copyDict_bufext _ _

theorem phasesFor_bufext (h : Heap) (o : ArrObj) (mp) : BufExt h (phasesFor h o mp).1 := by
  unfold phasesFor
  cases o.phases with
  | none => exact BufExt.refl _
  | some p => cases mp <;> exact BufExt.of_eq rfl

theorem copyWithArr_bufext (h : Heap) (x : ObjId) (m : Mods) : BufExt h (copyWithArr h x m).1 := by
  unfold copyWithArr
  split
  · exact newDict_bufext _ _
  · exact ((blocksFor_bufext h _ _).trans (phasesFor_bufext _ _ _)).trans (allocArray_bufext _ _)

theorem copyArr_bufext (h : Heap) (x : ObjId) : BufExt h (copyArr h x).1 := by
  unfold copyArr
  split
  · exact newDict_bufext _ _
  · exact ((blocksFor_bufext h _ _).trans (phasesFor_bufext _ _ _)).trans (allocArray_bufext _ _)

theorem constructArr_bufext (h : Heap) (i : Nat) (c : Int) (es) (f : Bool) (o : Nat) :
    BufExt h (constructArr h i c es f o).1 := by
  unfold constructArr
  cases f <;> exact (buildDict_bufext h es).trans (BufExt.of_eq rfl)

theorem runModify_bufext (m : Mods) (h : Heap) (x : ObjId) (o : ArrObj) : BufExt h (runModify m h x o) := by
  unfold runModify
  have b1 : BufExt h (argBlocks h m.blocks).1 := by
    unfold argBlocks; cases m.blocks with
    | none => exact BufExt.refl _
    | some es => exact buildDict_bufext _ _
  have b2 : BufExt (argBlocks h m.blocks).1 (argPhases (argBlocks h m.blocks).1 o m.phases).1 := by
    unfold argPhases; split
    · exact BufExt.of_eq rfl
    · exact BufExt.refl _
  exact (b1.trans b2).trans (BufExt.of_eq (rebinds_bufs _ _ _))

theorem onPhases_bufext (h : Heap) (o : ArrObj) (f : Dict → Dict) :
    BufExt h (onPhases h o (fun p => updDict h p f)) := by
  unfold onPhases
  split
  · exact BufExt.of_eq (updDict_bufs _ _ _)
  · exact BufExt.refl _

theorem runAct_bufext (a : Act) (h : Heap) (x : ObjId) : BufExt h (runAct a h x) := by
  unfold runAct
  split
  · exact BufExt.refl _
  · rename_i o _
    cases a with
    | modify m => exact runModify_bufext m h x o
    | setOddpos v => exact BufExt.of_eq (rebindField_bufs _ _ _)
    | bKern k tag args =>
      exact (newBuffer_bufext h tag args).trans (BufExt.of_eq (updDict_bufs _ _ _))
    | bPut k b => exact BufExt.of_eq (updDict_bufs _ _ _)
    | bPop k => exact BufExt.of_eq (updDict_bufs _ _ _)
    | bUpdate src => exact BufExt.of_eq (updDict_bufs _ _ _)
    | pSet k s => exact onPhases_bufext h o _
    | pPop k => exact onPhases_bufext h o _
    | pPopItem => exact onPhases_bufext h o _
    | pClear => exact onPhases_bufext h o _
    | pCopyThen f =>
      dsimp only
      unfold onPhases
      split
      · dsimp only
        exact BufExt.of_eq (by rw [rebindField_bufs, updDict_bufs]; rfl)
      · exact BufExt.refl _

theorem runCmd_bufext (c : Cmd) (h : Heap) (env : Env) : BufExt h (runCmd c h env).1 := by
  cases c with
  | copy s => exact copyArr_bufext _ _
  | copyWith s m => exact copyWithArr_bufext _ _ _
  | construct i c es f o => exact constructArr_bufext _ _ _ _ _ _
  | alias s => exact BufExt.refl _
  | dictCopy s => simp only [runCmd]; split <;> exact BufExt.of_eq rfl
  | dictRef s => simp only [runCmd]; split <;> exact BufExt.refl _
  | act t a => exact runAct_bufext _ _ _
  | dmut t f => exact BufExt.of_eq (updDict_bufs _ _ _)
  | shareBlocks t s =>
    simp only [runCmd]; split
    · exact BufExt.of_eq (rebindField_bufs _ _ _)
    · exact BufExt.refl _
  | sharePhases t s =>
    simp only [runCmd]; split
    · split
      · exact BufExt.of_eq (rebindField_bufs _ _ _)
      · exact BufExt.refl _
    · exact BufExt.refl _

/-- **the buffer table is append-only** under every effect program -/
theorem prog_bufext (p : Prog) : ∀ (h : Heap) (env : Env), BufExt h (p.run h env).1 := by
  induction p with
  | done => intro h env; exact BufExt.refl _
  | cmd c k ih => intro h env; exact (runCmd_bufext c h env).trans (ih _ _)
  | read f ih => intro h env; exact ih _ _ _

theorem spec_bufext (s : OpSpec) (h : Heap) (operands : List ObjId) : BufExt h (s.run h operands).1 :=
  prog_bufext s.prog h _

theorem runG_bufext (cs : List GCall) : ∀ (h : Heap) (env : Env), BufExt h (runG cs h env).1 := by
  induction cs with
  | nil => intro h env; exact BufExt.refl _
  | cons c r ih => intro h env; exact (spec_bufext c.spec h _).trans (ih _ _)

/-- a well-formed array all of whose objects are left identical is the same well-formed array -/
theorem wf_of_same {h h' : Heap} (hs : ∀ i o, h.get? i = some o → h'.get? i = some o) {y : ObjId} {a : ArrObj}
    {bd : Dict} {pd : Option Dict} (w : WFArr h y a bd pd) : WFArr h' y a bd pd :=
  ⟨hs _ _ w.arr, hs _ _ w.blk,
   fun p hp => let ⟨d, e, hd, hne⟩ := w.ph p hp; ⟨d, e, hs _ _ hd, hne⟩, w.phn⟩

/-- the denotation of a block dict whose buffers exist is the same in a larger table -/
theorem semDict_bufext {V : Type} (I : Nat → List V → V) (d : V) {h h' : Heap} (e : BufExt h h') {l : Dict}
    (hok : DictOK h.bufs.length l) : semDict I d h'.bufs l = semDict I d h.bufs l := by
  obtain ⟨X, hX⟩ := e
  rw [hX]; exact semDict_append I d h.bufs X hok

end SymmModel.Heap
