/-
  SymmModel.Proofs.ValidMore2Einsum — single-operand einsum (traces + permutation) returns a
  valid array (property C01): `einsumA` (Model/Tdot.lean) and `Arr.einsumF` (Model/Fermi.lean).

  Guard `einsumAdmissibleB a lhs rhs` (decidable):
    * `lhs` labels every axis of `a`;
    * `rhs` has no duplicates and every label of `rhs` occurs exactly once in `lhs`
      (no diagonals: see the counterexample `exDiag` at the end — with a repeated output label
      the model keeps the first axis only and the result violates charge conservation);
    * every label of `lhs` that is not in `rhs` occurs exactly twice, at two axes whose indices
      have opposite directions and (documented precondition, `BlockIndex.matches`) the same
      charge table.
  The proofs use only the consequence `EinsumOk` (`einsumAdmissible_ok`; no `.cm` comparison):
  two distinct axes with the same label carry a traced label and have opposite directions.
  "Exactly twice" for traced labels is not needed as a hypothesis: the model itself raises
  unless every traced label has exactly two positions, and the theorems are about `.ok` results.

  Main theorems: `einsumA_core`, `einsumA_valid`, `einsumA_validB`, `einsumF_valid`,
  `einsumF_validB`.  Proof: `perm ++ (traced positions)` is a permutation of all axes
  (`perm_traced_perm`); the signed charges of a kept sector split accordingly and every traced
  pair cancels (`combine_pairs_zero`, `secOk_einsum`); the kernel's shape is `permuted shape perm`
  (`einsumK_shape`); the accumulation loop keeps keys distinct (`einBlocks_inv`).  The fermionic
  version transposes by a sorting permutation, syncs the signs and calls `einsumA`; the guard is
  transported along the transposition (`einsumOk_permuted`).
-/
import SymmModel.Proofs.ValidFuseF
import SymmModel.Proofs.ValidLinalg
import SymmModel.Proofs.ValidTdot

namespace SymmModel
namespace ValidP
open Sym

variable {R : Type}

/-! ## positions of a label -/

/-- positions of label `q` in `lhs` (copy of the model text) -/
def posOf (lhs : List Nat) (q : Nat) : List Nat :=
  (lhs.zipIdx.filter (fun p => p.1 == q)).map (·.2)

theorem mem_posOf {lhs : List Nat} {q k : Nat} : k ∈ posOf lhs q ↔ lhs[k]? = some q := by
  unfold posOf
  simp only [List.mem_map, List.mem_filter, beq_iff_eq]
  constructor
  · rintro ⟨⟨x, i⟩, ⟨hm, hx⟩, rfl⟩
    have := List.mem_zipIdx_iff_getElem?.mp hm
    simp only at this hx ⊢
    rw [this, hx]
  · intro h
    exact ⟨(q, k), ⟨List.mem_zipIdx_iff_getElem?.mpr h, rfl⟩, rfl⟩

theorem posOf_nodup (lhs : List Nat) (q : Nat) : (posOf lhs q).Nodup := by
  unfold posOf
  have h1 : ((lhs.zipIdx.filter (fun p => p.1 == q)).map (·.2)).Sublist (lhs.zipIdx.map (·.2)) :=
    List.Sublist.map _ List.filter_sublist
  refine List.Nodup.sublist h1 ?_
  rw [List.zipIdx_map_snd]
  exact List.nodup_range'

theorem posOf_lt {lhs : List Nat} {q k : Nat} (h : k ∈ posOf lhs q) : k < lhs.length := by
  have := mem_posOf.mp h
  exact (List.getElem?_eq_some_iff.mp this).1

/-- the traced labels with their positions (copy of the model text) -/
def einTraced (lhs rhs : List Nat) : List (List Nat) :=
  ((lhs.filter (fun q => !rhs.contains q)).eraseDups).map
    (fun q => (lhs.zipIdx.filter (fun p => p.1 == q)).map (·.2))

theorem einTraced_eq (lhs rhs : List Nat) :
    einTraced lhs rhs = ((lhs.filter (fun q => !rhs.contains q)).eraseDups).map (posOf lhs) := rfl

theorem mem_einTraced {lhs rhs : List Nat} {js : List Nat} :
    js ∈ einTraced lhs rhs ↔ ∃ q, q ∈ lhs ∧ q ∉ rhs ∧ js = posOf lhs q := by
  rw [einTraced_eq]
  simp only [List.mem_map, List.mem_eraseDups, List.mem_filter]
  constructor
  · rintro ⟨q, ⟨h1, h2⟩, rfl⟩
    refine ⟨q, h1, ?_, rfl⟩
    intro hm
    rw [List.contains_iff_mem.mpr hm] at h2
    cases h2
  · rintro ⟨q, h1, h2, rfl⟩
    refine ⟨q, ⟨h1, ?_⟩, rfl⟩
    cases hc : rhs.contains q with
    | false => rfl
    | true => exact absurd (List.contains_iff_mem.mp hc) h2

theorem nodup_eraseDups' (l : List Nat) : l.eraseDups.Nodup := by
  match l with
  | [] => simp
  | a :: as =>
    rw [List.eraseDups_cons, List.nodup_cons]
    have : (as.filter fun b => !b == a).length < as.length + 1 :=
      Nat.lt_succ_of_le (List.length_filter_le _ as)
    refine ⟨?_, nodup_eraseDups' _⟩
    rw [List.mem_eraseDups, List.mem_filter]
    simp
termination_by l.length

theorem einTraced_flatten_nodup (lhs rhs : List Nat) : (einTraced lhs rhs).flatten.Nodup := by
  rw [einTraced_eq, ← List.flatMap_def, List.nodup_flatMap]
  refine ⟨fun q _ => posOf_nodup lhs q, ?_⟩
  refine List.Pairwise.imp ?_ (nodup_eraseDups' _)
  intro q q' hne k hk hk'
  have h1 := mem_posOf.mp hk
  have h2 := mem_posOf.mp hk'
  rw [h1] at h2
  exact hne (Option.some.inj h2)

/-! ## the guard -/

/-- the part of the guard the validity proof uses: labels match the axes, the output labels are
    distinct, and two distinct axes with the same label carry a traced label (so output labels
    occur at most once) and have opposite directions -/
structure EinsumOk (idx : List Index) (lhs rhs : List Nat) : Prop where
  len : lhs.length = idx.length
  nodup : rhs.Nodup
  pair : ∀ i j q, i ≠ j → lhs[i]? = some q → lhs[j]? = some q →
    q ∉ rhs ∧ (idx.getD i default).dual = !(idx.getD j default).dual

/-- the decidable guard of single-operand einsum (traces + permutation, no diagonals) -/
def einsumAdmissibleB (a : Arr R) (lhs rhs : List Nat) : Bool :=
  lhs.length == a.ndim
  && allDistinct rhs
  && rhs.all (fun q => (posOf lhs q).length == 1)
  && lhs.all (fun q => rhs.contains q ||
      match posOf lhs q with
      | [i, j] =>
        ((a.indices.getD i default).dual != (a.indices.getD j default).dual)
        && (a.indices.getD i default).cm == (a.indices.getD j default).cm
      | _ => false)

theorem einsumAdmissible_ok {a : Arr R} {lhs rhs : List Nat}
    (h : einsumAdmissibleB a lhs rhs = true) : EinsumOk a.indices lhs rhs := by
  unfold einsumAdmissibleB at h
  simp only [Bool.and_eq_true, beq_iff_eq, allDistinct_iff, List.all_eq_true, Bool.or_eq_true,
    List.contains_iff_mem] at h
  obtain ⟨⟨⟨h1, h2⟩, h3⟩, h4⟩ := h
  refine ⟨h1, h2, ?_⟩
  intro i j q hij hi hj
  have mi := mem_posOf.mpr hi
  have mj := mem_posOf.mpr hj
  have hq : q ∉ rhs := by
    intro hm
    have hl := h3 q hm
    match hp : posOf lhs q, hl with
    | [k], _ =>
      rw [hp] at mi mj
      simp only [List.mem_singleton] at mi mj
      exact hij (mi.trans mj.symm)
  refine ⟨hq, ?_⟩
  have hql : q ∈ lhs := List.mem_of_getElem? hi
  rcases h4 q hql with hm | hm
  · exact absurd hm hq
  · split at hm
    · rename_i i' j' hp
      rw [hp] at mi mj
      simp only [List.mem_cons, List.not_mem_nil, or_false] at mi mj
      simp only [Bool.and_eq_true, bne_iff_ne, ne_eq] at hm
      have hd := hm.1
      rcases mi with rfl | rfl <;> rcases mj with rfl | rfl
      · exact absurd rfl hij
      · revert hd; cases (a.indices.getD i default).dual <;> cases (a.indices.getD j default).dual <;> simp
      · revert hd; cases (a.indices.getD i default).dual <;> cases (a.indices.getD j default).dual <;> simp
      · exact absurd rfl hij
    · cases hm

/-! ## the output positions -/

/-- `perm` = positions in `lhs` of the `rhs` labels, as `mapM` computes them -/
abbrev PosRel (lhs : List Nat) : Nat → Nat → Prop := fun q j => indexOf? lhs q = some j

theorem einsum_perm_rel {lhs rhs perm : List Nat}
    (h : rhs.mapM (fun q => match indexOf? lhs q with
      | some j => (pure j : Except Err Nat)
      | none => throw Err.value) = .ok perm) : List.Forall₂ (PosRel lhs) rhs perm := by
  refine List.Forall₂.imp ?_ (mapM_ok_forall₂ _ _ _ h)
  intro q j hq
  split at hq
  · rename_i j' hj; cases hq; exact hj
  · cases hq

/-- kept positions followed by the traced positions enumerate all axes -/
theorem perm_traced_perm {idx : List Index} {lhs rhs perm : List Nat}
    (hok : EinsumOk idx lhs rhs) (hF : List.Forall₂ (PosRel lhs) rhs perm) :
    (perm ++ (einTraced lhs rhs).flatten).Perm (List.range lhs.length) := by
  obtain ⟨hpn, hplt⟩ := positions_nodup hF hok.nodup
  have hpl : ∀ j ∈ perm, ∃ q ∈ rhs, lhs[j]? = some q := by
    intro j hj
    obtain ⟨q, hq, hqj⟩ := forall₂_mem_right hF hj
    exact ⟨q, hq, (indexOf?_some hqj).2⟩
  have htl : ∀ i ∈ (einTraced lhs rhs).flatten, ∃ q, q ∉ rhs ∧ lhs[i]? = some q := by
    intro i hi
    obtain ⟨js, hjs, hi'⟩ := List.mem_flatten.mp hi
    obtain ⟨q, _, hq, rfl⟩ := mem_einTraced.mp hjs
    exact ⟨q, hq, mem_posOf.mp hi'⟩
  rw [List.perm_ext_iff_of_nodup ?_ List.nodup_range]
  · intro i
    simp only [List.mem_append, List.mem_range]
    constructor
    · rintro (h | h)
      · exact hplt i h
      · obtain ⟨q, _, hq⟩ := htl i h
        exact (List.getElem?_eq_some_iff.mp hq).1
    · intro hi
      have hq : lhs[i]? = some lhs[i] := List.getElem?_eq_getElem hi
      by_cases hm : lhs[i] ∈ rhs
      · left
        obtain ⟨j, hj, hqj⟩ := forall₂_mem_left hF hm
        have hj' := (indexOf?_some hqj).2
        by_cases hij : i = j
        · rw [hij]; exact hj
        · exact absurd hm (hok.pair i j _ hij hq hj').1
      · right
        exact List.mem_flatten.mpr ⟨posOf lhs lhs[i],
          mem_einTraced.mpr ⟨_, List.getElem_mem hi, hm, rfl⟩, mem_posOf.mpr hq⟩
  · refine List.nodup_append.mpr ⟨hpn, einTraced_flatten_nodup lhs rhs, ?_⟩
    intro j hj i hi hji
    subst hji
    obtain ⟨q, hq, h1⟩ := hpl j hj
    obtain ⟨q', hq', h2⟩ := htl j hi
    rw [h1] at h2
    cases h2
    exact hq' hq

/-! ## charge conservation -/

/-- traced pairs (equal charges, opposite directions) contribute the zero charge -/
theorem combine_pairs_zero (sym : Sym) (P : List (Index × Charge)) (T : List (List Nat))
    (h : ∀ js ∈ T, ∃ i j, ∃ (hi : i < P.length) (hj : j < P.length),
      js = [i, j] ∧ P[i].2 = P[j].2 ∧ P[i].1.dual = !P[j].1.dual) :
    sym.combine (sgn sym (permuted P T.flatten)) = sym.zero := by
  induction T with
  | nil => rfl
  | cons js T ih =>
    obtain ⟨i, j, hi, hj, rfl, hc, hd⟩ := h js (by simp)
    have ih' := ih (fun js hjs => h js (by simp [hjs]))
    rw [List.flatten_cons, permuted_append]
    unfold sgn at ih' ⊢
    rw [List.map_append, Sym.combine_append, ih', combine_zero_right',
      permuted_cons _ _ _ hi, permuted_cons _ _ _ hj]
    show sym.combine [sym.sign P[i].2 P[i].1.dual, sym.sign P[j].2 P[j].1.dual] = sym.zero
    rw [hc, hd]
    exact combine_conj_pair sym _ _

/-- a kept sector re-keyed by `perm` is charge conserving on the kept indices -/
theorem secOk_einsum {sym : Sym} {idx : List Index} {ch : Charge} {s : Sector}
    {lhs rhs perm : List Nat}
    (hs : SecOk sym idx ch s) (hok : EinsumOk idx lhs rhs)
    (hF : List.Forall₂ (PosRel lhs) rhs perm)
    (h2 : ∀ js ∈ einTraced lhs rhs, js.length = 2)
    (heq : ∀ js ∈ einTraced lhs rhs, s[js.getD 0 0]? = s[js.getD 1 0]?) :
    SecOk sym (permuted idx perm) ch (permuted s perm) := by
  obtain ⟨P, rfl, rfl, hc⟩ := secOk_iff.mp hs
  have hlen : lhs.length = P.length := by simpa using hok.len
  refine secOk_iff.mpr ⟨permuted P perm, permuted_map _ _ _, permuted_map _ _ _, ?_⟩
  have hpp : (permuted P perm ++ permuted P (einTraced lhs rhs).flatten).Perm P := by
    rw [← permuted_append]
    exact permuted_perm (by rw [← hlen]; exact perm_traced_perm hok hF)
  have hz : sym.combine (sgn sym (permuted P (einTraced lhs rhs).flatten)) = sym.zero := by
    apply combine_pairs_zero
    intro js hjs
    have hl := h2 js hjs
    have he := heq js hjs
    obtain ⟨q, _, hq, rfl⟩ := mem_einTraced.mp hjs
    have hnd := posOf_nodup lhs q
    match hp : posOf lhs q, hl with
    | [i, j], _ =>
      rw [hp] at he hnd
      have mi : i ∈ posOf lhs q := by rw [hp]; simp
      have mj : j ∈ posOf lhs q := by rw [hp]; simp
      have hi : i < P.length := hlen ▸ posOf_lt mi
      have hj : j < P.length := hlen ▸ posOf_lt mj
      have hij : i ≠ j := by
        intro e; subst e; simp at hnd
      refine ⟨i, j, hi, hj, rfl, ?_, ?_⟩
      · simp only [List.getD_cons_zero, List.getD_cons_succ, List.getElem?_map,
          List.getElem?_eq_getElem hi, List.getElem?_eq_getElem hj, Option.map_some,
          Option.some.injEq] at he
        exact he
      · have := (hok.pair i j q hij (mem_posOf.mp mi) (mem_posOf.mp mj)).2
        simpa [List.getD_eq_getElem?_getD, List.getElem?_map, List.getElem?_eq_getElem hi,
          List.getElem?_eq_getElem hj] using this
  rw [← hc]
  have := combine_perm' sym (List.Perm.map (fun p : Index × Charge => sym.sign p.2 p.1.dual) hpp)
  unfold sgn at hz ⊢
  rw [← this, List.map_append, Sym.combine_append, hz, combine_zero_right']

/-! ## block shapes -/

theorem einsumK_shape_eq {lhs rhs perm : List Nat} {shape : List Nat}
    (hF : List.Forall₂ (PosRel lhs) rhs perm) (hlt : ∀ k ∈ perm, k < shape.length) :
    rhs.map (fun q => match indexOf? lhs q with
      | some j => shape.getD j 0
      | none => 0) = permuted shape perm := by
  induction hF with
  | nil => rfl
  | @cons q j rhs' perm' hq _ ih =>
    have hj : j < shape.length := hlt j (by simp)
    rw [permuted_cons _ _ _ hj, List.map_cons, ih (fun k hk => hlt k (by simp [hk]))]
    congr 1
    have hq' : indexOf? lhs q = some j := hq
    rw [hq']
    simp [List.getD_eq_getElem?_getD, List.getElem?_eq_getElem hj]

theorem einsumK_shape [Zero R] [Add R] (b : Blk R) {lhs rhs perm : List Nat}
    (hF : List.Forall₂ (PosRel lhs) rhs perm) (hlt : ∀ k ∈ perm, k < b.shape.length) :
    (b.einsumK lhs rhs).shape = permuted b.shape perm :=
  einsumK_shape_eq hF hlt

/-! ## the accumulation loop and the abelian theorem -/

/-- accumulated blocks (copy of the model text) -/
def einBlocks [Zero R] [Add R] (a : Arr R) (lhs rhs perm : List Nat) : List (Sector × Blk R) :=
  a.blocks.foldl (fun (acc : List (Sector × Blk R)) (sb : Sector × Blk R) =>
    let (sector, array) := sb
    if (einTraced lhs rhs).all (fun js => sector[js.getD 0 0]? == sector[js.getD 1 0]?) then
      let ns := permuted sector perm
      let na := array.einsumK lhs rhs
      match alookup acc ns with
      | some cur => ainsert acc ns (Blk.zipWith (· + ·) cur na)
      | none => acc ++ [(ns, na)]
    else acc) []

/-- what a successful `einsumA` returns -/
theorem einsumA_ok [Zero R] [Add R] {a r : Arr R} {lhs rhs : List Nat}
    (h : einsumA a lhs rhs = .ok r) :
    ∃ perm, List.Forall₂ (PosRel lhs) rhs perm
      ∧ (∀ js ∈ einTraced lhs rhs, js.length = 2)
      ∧ r = { a with indices := permuted a.indices perm, blocks := einBlocks a lhs rhs perm } := by
  unfold einsumA at h
  obtain ⟨perm, hperm, h⟩ := bind_ok h
  refine ⟨perm, einsum_perm_rel hperm, ?_⟩
  simp only at h
  split at h
  · cases h
  · rename_i hany
    refine ⟨?_, ?_⟩
    · intro js hjs
      have : ¬ ((einTraced lhs rhs).any (fun js => js.length != 2) = true) := hany
      simp only [List.any_eq_true, bne_iff_ne, ne_eq, not_exists, not_and, not_not] at this
      exact this js hjs
    · cases h; rfl

theorem einBlocks_inv [Zero R] [Add R] (a : Arr R) (lhs rhs perm : List Nat)
    (sym : Sym) (idx : List Index) (ch : Charge)
    (hp : ∀ sb ∈ a.blocks,
      (∀ js ∈ einTraced lhs rhs, sb.1[js.getD 0 0]? = sb.1[js.getD 1 0]?) →
      BlockOk sym idx ch (permuted sb.1 perm, sb.2.einsumK lhs rhs)) :
    ((einBlocks a lhs rhs perm).map (·.1)).Nodup
    ∧ ∀ sb ∈ einBlocks a lhs rhs perm, BlockOk sym idx ch sb := by
  unfold einBlocks
  apply foldl_inv (fun acc : List (Sector × Blk R) =>
    (acc.map (·.1)).Nodup ∧ ∀ sb ∈ acc, BlockOk sym idx ch sb)
  · exact ⟨by simp, by simp⟩
  · rintro acc ⟨sector, array⟩ hx ⟨hn, hall⟩
    simp only
    split
    · rename_i hkeep
      have hok := hp _ hx (by
        intro js hjs
        simp only [List.all_eq_true, beq_iff_eq] at hkeep
        exact hkeep js hjs)
      simp only at hok
      split
      · rename_i cur hsome
        refine ⟨ainsert_keys_nodup _ _ hn, ?_⟩
        intro sb hsb
        rcases mem_ainsert hsb with rfl | h
        · obtain ⟨h1, h2, _⟩ := hall (_, cur) (alookup_some_mem hsome)
          exact ⟨h1, h2, ofFn_wf _ _⟩
        · exact hall sb h
      · rename_i hnone
        have hs : permuted sector perm ∉ acc.map (·.1) := alookup_eq_none_iff.mp hnone
        refine ⟨?_, ?_⟩
        · rw [List.map_append]
          refine List.nodup_append.mpr ⟨hn, by simp, ?_⟩
          intro x hx1 y hy
          simp only [List.map_cons, List.map_nil, List.mem_singleton] at hy
          subst hy
          intro hxy; subst hxy; exact hs hx1
        · intro sb hsb
          rcases List.mem_append.mp hsb with h | h
          · exact hall sb h
          · simp only [List.mem_singleton] at h
            subst h; exact hok
    · exact ⟨hn, hall⟩

/-- core statement under the part of the guard that is used -/
theorem einsumA_core' [Zero R] [Add R] (a r : Arr R) (lhs rhs : List Nat) (hv : Core a)
    (hok : EinsumOk a.indices lhs rhs) (h : einsumA a lhs rhs = .ok r) :
    Core r ∧ r.sym = a.sym ∧ r.fermi = a.fermi ∧ r.charge = a.charge ∧ r.phases = a.phases
      ∧ r.oddpos = a.oddpos := by
  obtain ⟨perm, hF, h2, rfl⟩ := einsumA_ok h
  refine ⟨?_, rfl, rfl, rfl, rfl, rfl⟩
  obtain ⟨_, hplt⟩ := positions_nodup hF hok.nodup
  have hblocks : ∀ sb ∈ a.blocks,
      (∀ js ∈ einTraced lhs rhs, sb.1[js.getD 0 0]? = sb.1[js.getD 1 0]?) →
      BlockOk a.sym (permuted a.indices perm) a.charge
        (permuted sb.1 perm, sb.2.einsumK lhs rhs) := by
    intro sb hsb heq
    obtain ⟨b1, b2, _⟩ := hv.blk sb hsb
    refine ⟨secOk_einsum b1 hok hF h2 heq, ?_, ofFn_wf _ _⟩
    have hl : sb.2.shape.length = lhs.length := by
      rw [(blockShape?_length b2).1, hok.len]
    show Arr.blockShape? _ _ = some (sb.2.einsumK lhs rhs).shape
    rw [einsumK_shape sb.2 hF (fun k hk => hl ▸ hplt k hk)]
    exact blockShape?_natT (natT_permuted perm) b2
  obtain ⟨hn, hall⟩ := einBlocks_inv a lhs rhs perm a.sym (permuted a.indices perm) a.charge hblocks
  exact ⟨fun i hi => hv.idx i (mem_permuted hi), hv.chg, hn, hall⟩

/-- **`einsumA` keeps the sign-free part of validity and all sign fields** -/
theorem einsumA_core [Zero R] [Add R] (a r : Arr R) (lhs rhs : List Nat) (hv : Core a)
    (hadm : einsumAdmissibleB a lhs rhs = true) (h : einsumA a lhs rhs = .ok r) :
    Core r ∧ r.sym = a.sym ∧ r.fermi = a.fermi ∧ r.charge = a.charge ∧ r.phases = a.phases
      ∧ r.oddpos = a.oddpos :=
  einsumA_core' a r lhs rhs hv (einsumAdmissible_ok hadm) h

/-- **abelian single-operand einsum returns a valid array** -/
theorem einsumA_valid [Zero R] [Add R] (a r : Arr R) (lhs rhs : List Nat) (hv : Valid a)
    (hf : a.fermi = false) (hadm : einsumAdmissibleB a lhs rhs = true)
    (h : einsumA a lhs rhs = .ok r) : Valid r := by
  obtain ⟨hcore, e1, e2, e3, e4, e5⟩ := einsumA_core a r lhs rhs hv.core hadm h
  refine Valid.of hcore ?_
  have hs := hv.sgn
  unfold SignsOk at hs ⊢
  rw [e2, e4, e5]
  simp only [hf, Bool.false_eq_true, if_false] at hs ⊢
  exact hs

theorem einsumA_validB [Zero R] [Add R] (a r : Arr R) (lhs rhs : List Nat)
    (hv : a.validB = true) (hf : a.fermi = false) (hadm : einsumAdmissibleB a lhs rhs = true)
    (h : einsumA a lhs rhs = .ok r) : r.validB = true :=
  (validB_iff r).mpr (einsumA_valid a r lhs rhs ((validB_iff a).mp hv) hf hadm h)

/-! ## the fermionic version -/

theorem permuted_eq_map {α : Type} {l : List α} {σ : List Nat} (h : ∀ i ∈ σ, i < l.length)
    (d : α) : permuted l σ = σ.map (fun i => l.getD i d) := by
  induction σ with
  | nil => rfl
  | cons i σ ih =>
    have hi : i < l.length := h i (by simp)
    rw [permuted_cons _ _ _ hi, List.map_cons, ih (fun j hj => h j (by simp [hj]))]
    simp [List.getD_eq_getElem?_getD, List.getElem?_eq_getElem hi]

/-- the guard is transported along a transposition (labels and indices are permuted together) -/
theorem einsumOk_permuted {idx : List Index} {lhs rhs σ : List Nat}
    (h : EinsumOk idx lhs rhs) (hσ : σ.Perm (List.range idx.length)) :
    EinsumOk (permuted idx σ) (permuted lhs σ) rhs := by
  have hlt : ∀ i ∈ σ, i < idx.length := fun i hi => List.mem_range.mp (hσ.subset hi)
  have hlt' : ∀ i ∈ σ, i < lhs.length := fun i hi => h.len ▸ hlt i hi
  have hnd : σ.Nodup := hσ.symm.nodup_iff.mp List.nodup_range
  refine ⟨by rw [permuted_length hlt', permuted_length hlt], h.nodup, ?_⟩
  intro k k' q hkk hk hk'
  rw [permuted_eq_map hlt' 0, List.getElem?_map] at hk hk'
  cases hi : σ[k]? with
  | none => rw [hi] at hk; cases hk
  | some i =>
    cases hi' : σ[k']? with
    | none => rw [hi'] at hk'; cases hk'
    | some i' =>
      rw [hi] at hk; rw [hi'] at hk'
      simp only [Option.map_some, Option.some.injEq] at hk hk'
      have hil : i < lhs.length := hlt' i (List.mem_of_getElem? hi)
      have hil' : i' < lhs.length := hlt' i' (List.mem_of_getElem? hi')
      have e1 : lhs[i]? = some q := by
        rw [List.getElem?_eq_getElem hil]
        simpa [List.getD_eq_getElem?_getD, List.getElem?_eq_getElem hil] using hk
      have e2 : lhs[i']? = some q := by
        rw [List.getElem?_eq_getElem hil']
        simpa [List.getD_eq_getElem?_getD, List.getElem?_eq_getElem hil'] using hk'
      have hne : i ≠ i' := by
        intro e
        subst e
        have hkl : k < σ.length := (List.getElem?_eq_some_iff.mp hi).1
        exact hkk ((List.getElem?_inj hkl hnd).mp (hi.trans hi'.symm))
      obtain ⟨p1, p2⟩ := h.pair i i' q hne e1 e2
      refine ⟨p1, ?_⟩
      rw [permuted_eq_map hlt default]
      simpa [List.getD_eq_getElem?_getD, List.getElem?_map, hi, hi'] using p2

/-- **fermionic single-operand einsum returns a valid array** (pending signs are synced into
    the blocks, `oddpos` and the total charge are unchanged) -/
theorem einsumF_valid [Zero R] [Add R] [Neg R] (a r : Arr R) (lhs rhs : List Nat) (hv : Valid a)
    (hf : a.fermi = true) (hadm : einsumAdmissibleB a lhs rhs = true)
    (h : Arr.einsumF a lhs rhs = .ok r) : Valid r := by
  unfold Arr.einsumF at h
  simp only at h
  split at h
  · cases h
  · have hok := einsumAdmissible_ok hadm
    generalize hσ : isort _ (List.range a.ndim) = σ at h
    have hperm : σ.Perm (List.range a.ndim) := by rw [← hσ]; exact isort_perm _ _
    have hx : Valid (a.transposeF σ).phaseSync :=
      phaseSync_valid _ (transposeF_valid a σ true hv hf (isPerm_of_perm hperm))
    have hokx : EinsumOk (a.transposeF σ).phaseSync.indices (permuted lhs σ) rhs :=
      einsumOk_permuted hok hperm
    obtain ⟨hcore, hfields⟩ := einsumA_core' _ r _ rhs hx.core hokx h
    exact valid_of_core_synced hx rfl hcore hfields

theorem einsumF_validB [Zero R] [Add R] [Neg R] (a r : Arr R) (lhs rhs : List Nat)
    (hv : a.validB = true) (hf : a.fermi = true) (hadm : einsumAdmissibleB a lhs rhs = true)
    (h : Arr.einsumF a lhs rhs = .ok r) : r.validB = true :=
  (validB_iff r).mpr (einsumF_valid a r lhs rhs ((validB_iff a).mp hv) hf hadm h)

/-! ## the hypotheses are satisfiable; the guard cannot be weakened to allow diagonals -/

/-- U1 rank-4 array, mixed directions, four blocks; axes 1 and 3 have the same charge table and
    opposite directions.  Under "abcb->ca" the blocks `[0,0,0,0]` and `[0,1,0,1]` are added into
    the sector `[0,0]`, `[1,1,1,1]` goes to `[1,1]`, and `[1,0,0,1]` (unequal traced charges) is
    dropped. -/
def exEinU1 : Arr Int :=
  { sym := .U1, fermi := false,
    indices := [Index.mk [((0, 0), 2), ((1, 0), 1)] false none,
                Index.mk [((0, 0), 1), ((1, 0), 2)] false none,
                Index.mk [((0, 0), 1), ((1, 0), 1)] true none,
                Index.mk [((0, 0), 1), ((1, 0), 2)] true none],
    charge := (0, 0),
    blocks := [([(0, 0), (0, 0), (0, 0), (0, 0)], ⟨[2, 1, 1, 1], #[1, 2]⟩),
               ([(1, 0), (1, 0), (1, 0), (1, 0)], ⟨[1, 2, 1, 2], #[3, 4, 5, 6]⟩),
               ([(0, 0), (1, 0), (0, 0), (1, 0)], ⟨[2, 2, 1, 2], #[1, 2, 3, 4, 5, 6, 7, 8]⟩),
               ([(1, 0), (0, 0), (0, 0), (1, 0)], ⟨[1, 1, 1, 2], #[7, 8]⟩)] }

example : exEinU1.validB = true := by decide
example : einsumAdmissibleB exEinU1 [0, 1, 2, 1] [2, 0] = true := by decide

/-- the theorem applies … -/
example (r : Arr Int) (h : einsumA exEinU1 [0, 1, 2, 1] [2, 0] = .ok r) : r.validB = true :=
  einsumA_validB _ r _ _ (by decide) rfl (by decide) h

/-- … the call succeeds, and, independently, evaluation confirms the result: two sectors, the
    first one accumulated from two blocks (`1 + (1 + 4) = 6`, `2 + (5 + 8) = 15`) -/
example : ∃ r, einsumA exEinU1 [0, 1, 2, 1] [2, 0] = .ok r ∧ r.validB = true
    ∧ r.blocks.map (fun sb => (sb.1, sb.2.shape, sb.2.data.toList))
        = [([(0, 0), (0, 0)], [1, 2], [6, 15]), ([(1, 0), (1, 0)], [1, 1], [9])] :=
  ⟨_, rfl, by decide +kernel, by decide +kernel⟩

/-- fermionic Z2 rank-4 array of odd parity with a pending sign -/
def exEinZ2f : Arr Int :=
  { sym := .Z2, fermi := true,
    indices := [Index.mk [((0, 0), 2), ((1, 0), 1)] false none,
                Index.mk [((0, 0), 1), ((1, 0), 2)] true none,
                Index.mk [((0, 0), 1), ((1, 0), 1)] true none,
                Index.mk [((0, 0), 1), ((1, 0), 2)] false none],
    charge := (1, 0),
    blocks := [([(0, 0), (0, 0), (1, 0), (0, 0)], ⟨[2, 1, 1, 1], #[1, 2]⟩),
               ([(0, 0), (1, 0), (1, 0), (1, 0)], ⟨[2, 2, 1, 2], #[1, 2, 3, 4, 5, 6, 7, 8]⟩),
               ([(1, 0), (1, 0), (0, 0), (1, 0)], ⟨[1, 2, 1, 2], #[3, 4, 5, 6]⟩),
               ([(0, 0), (1, 0), (0, 0), (0, 0)], ⟨[2, 2, 1, 1], #[7, 8, 9, 10]⟩)],
    phases := [([(0, 0), (1, 0), (1, 0), (1, 0)], -1)],
    oddpos := [(0, false)] }

example : exEinZ2f.validB = true := by decide
example : einsumAdmissibleB exEinZ2f [0, 1, 2, 1] [2, 0] = true := by decide

example (r : Arr Int) (h : Arr.einsumF exEinZ2f [0, 1, 2, 1] [2, 0] = .ok r) : r.validB = true :=
  einsumF_validB _ r _ _ (by decide) rfl (by decide) h

example : ∃ r, Arr.einsumF exEinZ2f [0, 1, 2, 1] [2, 0] = .ok r ∧ r.validB = true
    ∧ r.phases = [] ∧ r.oddpos = [(0, false)] ∧ r.sectors = [[(1, 0), (0, 0)], [(0, 0), (1, 0)]] :=
  ⟨_, rfl, by decide +kernel, by decide +kernel, by decide +kernel, by decide +kernel⟩

/-- **"exactly once" cannot be dropped.**  With a repeated *output* label ("aa->a") the model
    (like the code path it mirrors) keeps the first of the two axes and does not tie the two
    charges: the result of a valid U1 matrix has the sector `[1]` on an index of direction
    `false` with total charge `0`, which violates charge conservation. -/
def exDiag : Arr Int :=
  { sym := .U1, fermi := false,
    indices := [Index.mk [((0, 0), 1), ((1, 0), 2)] false none,
                Index.mk [((0, 0), 1), ((1, 0), 2)] true none],
    charge := (0, 0),
    blocks := [([(0, 0), (0, 0)], ⟨[1, 1], #[1]⟩), ([(1, 0), (1, 0)], ⟨[2, 2], #[1, 2, 3, 4]⟩)] }

example : exDiag.validB = true ∧ einsumAdmissibleB exDiag [0, 0] [0] = false
    ∧ ∃ r, einsumA exDiag [0, 0] [0] = .ok r ∧ r.validB = false
        ∧ r.invalidReason = "sector-charge" :=
  ⟨by decide, by decide, _, rfl, by decide +kernel, by decide +kernel⟩

end ValidP
end SymmModel
