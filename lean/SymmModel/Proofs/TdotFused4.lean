/-
  SymmModel.Proofs.TdotFused4 — `tensordotViaFused` assembled: the aligned operands satisfy
  `FusedCtx`, the model's control flow with all three groups non-empty, and the value view of the
  result.  Namespace `SymmModel.TdotP`.
-/
import SymmModel.Proofs.TdotFused3
import SymmModel.Proofs.ValidMore
import SymmModel.Proofs.ValidTdotFused
import SymmModel.Props.C05b

namespace SymmModel
namespace TdotP
variable {R : Type}

/-- the aligned operands of a contractible pair satisfy `FusedCtx` -/
theorem ctx_of_dropMisaligned (a b : Arr R) (xa xb : List Nat)
    (ha : a.validB = true) (hb : b.validB = true) (hfa : a.fermi = false) (hfb : b.fermi = false)
    (hsym : a.sym = b.sym) (hc : ValidP.contractibleB a b xa xb = true)
    (hnA : xa.Nodup) (hnB : xb.Nodup) (hA : ∀ x ∈ xa, x < a.ndim) (hB : ∀ x ∈ xb, x < b.ndim)
    (hneK : xa ≠ []) (hneL : freeAxes a.ndim xa ≠ []) (hneR : freeAxes b.ndim xb ≠ []) :
    FusedCtx (dropMisaligned a b xa xb).1 (dropMisaligned a b xa xb).2 xa xb := by
  obtain ⟨n1, n2⟩ := dropMisaligned_ndim a b xa xb
  obtain ⟨v1, v2⟩ := ValidP.dropMisaligned_valid a b xa xb ((ValidP.validB_iff a).mp ha)
    ((ValidP.validB_iff b).mp hb)
  have hla : ∀ s ∈ a.sectors, s.length = a.ndim := fun s hs =>
    Arr.sector_length (Arr.shapesOk_of_validB ha) hs
  have hlb : ∀ s ∈ b.sectors, s.length = b.ndim := fun s hs =>
    Arr.sector_length (Arr.shapesOk_of_validB hb) hs
  obtain ⟨hcm, hdual⟩ := aligned_cm_dual a b xa xb hla hlb hA hB hc
  obtain ⟨hsubA, hsubB⟩ := sectors_dropMisaligned_sub a b xa xb
  have hlen : xa.length = xb.length := by
    unfold ValidP.contractibleB at hc
    simp only [Bool.and_eq_true, beq_iff_eq] at hc
    exact hc.1
  refine ⟨(ValidP.validB_iff _).mpr v1, (ValidP.validB_iff _).mpr v2, hfa, hfb, hsym, hnA, hnB,
    by rw [n1]; exact hA, by rw [n2]; exact hB, hlen, hneK, by rw [n1]; exact hneL,
    by rw [n2]; exact hneR, hcm, hdual, ?_⟩
  intro K
  have eA : (dropMisaligned a b xa xb).1.blocks.map (fun sb => xa.map (fun ax => sb.1.getD ax (0, 0)))
      = subKeys (dropMisaligned a b xa xb).1 xa := by
    simp only [subKeys, Arr.sectors, List.map_map]
    apply List.map_congr_left
    intro sb hsb
    have hl : sb.1.length = a.ndim := hla _ (hsubA _ (List.mem_map.mpr ⟨sb, hsb, rfl⟩))
    exact (permuted_eq_map _ _ (by rw [hl]; exact hA) (0, 0)).symm
  have eB : (dropMisaligned a b xa xb).2.blocks.map (fun sb => xb.map (fun ax => sb.1.getD ax (0, 0)))
      = subKeys (dropMisaligned a b xa xb).2 xb := by
    simp only [subKeys, Arr.sectors, List.map_map]
    apply List.map_congr_left
    intro sb hsb
    have hl : sb.1.length = b.ndim := hlb _ (hsubB _ (List.mem_map.mpr ⟨sb, hsb, rfl⟩))
    exact (permuted_eq_map _ _ (by rw [hl]; exact hB) (0, 0)).symm
  rw [eA, eB]
  exact aligned_keys a b xa xb K

/-- the model's control flow when left, contracted and right groups are all non-empty and both
    aligned operands still have blocks -/
theorem tensordotViaFused_nonempty [Zero R] [Add R] [Mul R] (a b : Arr R) (l xa xb r : List Nat)
    (hl : l ≠ []) (hxa : xa ≠ []) (hxb : xb ≠ []) (hr : r ≠ [])
    (hbl : ((dropMisaligned a b xa xb).1.blocks.isEmpty || (dropMisaligned a b xa xb).2.blocks.isEmpty) = false)
    (af bf : Arr R) (haf : fuseCore (dropMisaligned a b xa xb).1 [l, xa] .insert = .ok af)
    (hbf : fuseCore (dropMisaligned a b xa xb).2 [xb, r] .insert = .ok bf) :
    tensordotViaFused a b l xa xb r =
      (do let cf1 ← (if r.length != 1 then unfuseA (tensordotBlockwise af bf [0] [1] [0] [1]) 1
                      else pure (tensordotBlockwise af bf [0] [1] [0] [1]))
          if l.length != 1 then unfuseA cf1 0 else pure cf1) := by
  have hfA : [l, xa].filter (fun g => !g.isEmpty) = [l, xa] := by
    cases l <;> cases xa <;> simp_all
  have hfB : [xb, r].filter (fun g => !g.isEmpty) = [xb, r] := by
    cases xb <;> cases r <;> simp_all
  have hlE : l.isEmpty = false := by cases l <;> simp_all
  have hxaE : xa.isEmpty = false := by cases xa <;> simp_all
  have hxbE : xb.isEmpty = false := by cases xb <;> simp_all
  have hrE : r.isEmpty = false := by cases r <;> simp_all
  unfold tensordotViaFused
  simp only [hbl, C05.fuseA_noexpand, hfA, hfB, haf, hbf, hlE, hxaE, hxbE, hrE, Bool.not_false,
    Bool.true_and, List.isEmpty_cons, Bool.false_eq_true, if_false, bind, Except.bind]
  by_cases h1 : (r.length != 1) = true
  · simp only [h1, if_true]
    cases unfuseA (tensordotBlockwise af bf [0] [1] [0] [1]) 1 with
    | error e => rfl
    | ok v =>
      simp only []
      by_cases h2 : (l.length != 1) = true
      · simp only [h2, if_true]; cases unfuseA v 0 <;> rfl
      · simp only [h2, Bool.false_eq_true, if_false]; rfl
  · simp only [h1, Bool.false_eq_true, if_false, pure, Except.pure]
    by_cases h2 : (l.length != 1) = true
    · simp only [h2, if_true]; cases unfuseA (tensordotBlockwise af bf [0] [1] [0] [1]) 0 <;> rfl
    · simp only [h2, Bool.false_eq_true, if_false]

/-- the sub-sector of a stored sector on group `g` is decoded from some position of the fused
    charge of that sector -/
theorem dec_of_stored {A : Arr R} {G : List (List Nat)} (hv : FuseP.ValidArr A)
    (hok : FuseP.GroupsOk G A.ndim) {g : Nat} {gaxes : List Nat} (hg : G[g]? = some gaxes)
    {sb : Sector × Blk R} (hsb : sb ∈ A.blocks) :
    ∃ i O, decAx A G g (FuseP.cM (a := A) (groups := G) sb g) i = some (permuted sb.1 gaxes, O) := by
  have hlt : ∀ x ∈ gaxes, x < A.indices.length := FuseP.groupM_lt hok hg
  have hsl : sb.1.length = A.indices.length := (hv.blk sb hsb).1
  have hss : FuseP.ssM (a := A) (groups := G) sb g = permuted sb.1 gaxes := by
    rw [FuseP.ssM_eq hg, permuted_eq_map _ _ (by rw [hsl]; exact hlt) (0, 0)]
  by_cases hlen : gaxes.length = 1
  · have hm : FuseP.multiB G g = false := by simp [FuseP.multiB, hg, hlen]
    refine ⟨0, [0], ?_⟩
    simp only [decAx, hm, Bool.false_eq_true, if_false, Option.some.injEq, Prod.mk.injEq, and_true]
    rw [FuseP.cM_single hok hg hlen]
    match gaxes, hlen, hlt with
    | [ax], _, hlt =>
      have h0 : ax < sb.1.length := by rw [hsl]; exact hlt ax (by simp)
      simp [permuted, List.getElem?_eq_getElem h0, List.getD_eq_getElem?_getD]
  · have hm : FuseP.multiB G g = true := FuseP.multiB_iff.2 ⟨_, hg, hlen⟩
    have hsub := FuseP.ixM_sub (a := A) hok hg hlen
    obtain ⟨e, D, st, h1, h2, _, _⟩ := FuseP.stored_in_tableM hv hok hg hlen hsb
    obtain ⟨_, _, hext⟩ := FuseP.ixM_extent hv hok hg hlen h1
    obtain ⟨_, ⟨shp, hshp, hprod⟩, _⟩ := hext.entry _ _ (FuseP.startOf_mem h2)
    have hpos : 0 < FuseP.dM (a := A) (groups := G) sb g := by
      have hE := FuseP.tableEntries_entryOk hv hok hg hlen
        (FuseP.ssM (a := A) (groups := G) sb g, FuseP.cM (a := A) (groups := G) sb g,
          FuseP.dM (a := A) (groups := G) sb g)
        (by
          simp only [FuseP.tableEntries, FuseP.blockmapOf, List.map_map, List.mem_map, Function.comp]
          exact ⟨sb, hsb, rfl⟩)
      exact hE.2.2.2
    have hso := FuseP.startOf_splitOffset h2 hpos
    refine ⟨st + 0, unravel shp 0, ?_⟩
    rw [hss] at hshp
    simp only [decAx, hm, if_true, FuseP.splitAddr, hsub, h1, hso, hss, hshp]

/-- two aligned stored sectors have the same fused bond charge -/
theorem FusedCtx.bond_charge {A B : Arr R} {xa xb : List Nat} (h : FusedCtx A B xa xb)
    {sa sb : Sector × Blk R} (hsa : sa ∈ A.blocks) (hsb : sb ∈ B.blocks)
    (hK : permuted sb.1 xb = permuted sa.1 xa) :
    FuseP.cM (a := B) (groups := [xb, freeAxes B.ndim xb]) sb 0 =
      FuseP.cM (a := A) (groups := [freeAxes A.ndim xa, xa]) sa 1 := by
  obtain ⟨i, O, hdec⟩ := dec_of_stored h.vaA h.pairA.groupsOk h.gA hsa
  have hdecB := h.decAx_bond (FuseP.cM (a := A) (groups := [freeAxes A.ndim xa, xa]) sa 1) i
  rw [hdec] at hdecB
  exact cM_of_dec h.vaB h.pairB.groupsOk h.gB hdecB ((h.vaB.blk sb hsb).1) hK

theorem Arr.elem_congr [Zero R] [Neg R] {x y : Arr R} (hb : x.blocks = y.blocks)
    (hp : x.phases = y.phases) (s : Sector) (o : List Nat) : x.elem s o = y.elem s o := by
  unfold Arr.elem; rw [hb, hp]

/-- every aligned stored pair gives a stored sector of the product of the fused matrices -/
theorem FusedCtx.cf_sector [Zero R] [Add R] [Mul R] {A B : Arr R} {xa xb : List Nat}
    (h : FusedCtx A B xa xb) {sa sb : Sector × Blk R} (hsa : sa ∈ A.blocks) (hsb : sb ∈ B.blocks)
    (hK : permuted sb.1 xb = permuted sa.1 xa) :
    [FuseP.cM (a := A) (groups := [freeAxes A.ndim xa, xa]) sa 0,
     FuseP.cM (a := B) (groups := [xb, freeAxes B.ndim xb]) sb 1] ∈
      (tensordotBlockwise (FuseP.fusedArrM A [freeAxes A.ndim xa, xa])
        (FuseP.fusedArrM B [xb, freeAxes B.ndim xb]) [0] [1] [0] [1]).sectors := by
  rw [tensordotBlockwise_sectors_eq, List.mem_eraseDups, mem_tdKeys]
  obtain ⟨Ba, hBa, _⟩ := FuseP.fusedBlockM_exists h.vaA h.pairA.groupsOk hsa
  obtain ⟨Bb, hBb, _⟩ := FuseP.fusedBlockM_exists h.vaB h.pairB.groupsOk hsb
  rw [pair_newSector h.pairA] at hBa
  rw [pair_newSector h.pairB] at hBb
  refine ⟨_, List.mem_map.mpr ⟨_, alookup_mem hBa, rfl⟩, _, List.mem_map.mpr ⟨_, alookup_mem hBb, rfl⟩,
    ?_, ?_⟩
  · simp only [permuted, List.filterMap_cons, List.filterMap_nil, List.getElem?_cons_succ,
      List.getElem?_cons_zero]
    rw [h.bond_charge hsa hsb hK]
  · simp [permuted]

/-- on a single-axis group the new charge of a stored sector is its charge on that axis -/
theorem single_group_charge {A : Arr R} {G : List (List Nat)} (hv : FuseP.ValidArr A)
    (hok : FuseP.GroupsOk G A.ndim) {g : Nat} {gaxes : List Nat} (hg : G[g]? = some gaxes)
    (hlen : gaxes.length = 1) {sb : Sector × Blk R} (hsb : sb ∈ A.blocks) :
    [FuseP.cM (a := A) (groups := G) sb g] = permuted sb.1 gaxes := by
  have hlt : ∀ x ∈ gaxes, x < A.indices.length := FuseP.groupM_lt hok hg
  have hsl : sb.1.length = A.indices.length := (hv.blk sb hsb).1
  rw [FuseP.cM_single hok hg hlen]
  match gaxes, hlen, hlt with
  | [ax], _, hlt =>
    have h0 : ax < sb.1.length := by rw [hsl]; exact hlt ax (by simp)
    simp [permuted, List.getElem?_eq_getElem h0, List.getD_eq_getElem?_getD]

/-- decoding on a single-axis group is the identity; the size of a charge is read from the
    group's index -/
theorem single_group_dec {A : Arr R} {G : List (List Nat)} (hok : FuseP.GroupsOk G A.ndim) {g : Nat}
    {gaxes : List Nat} (hg : G[g]? = some gaxes) (hlen : gaxes.length = 1) (c : Charge) (i : Nat) :
    decAx A G g c i = some ([c], [i])
    ∧ ∀ d, Arr.blockShape? (permuted A.indices gaxes) [c] = some [d] →
        (FuseP.ixM A G g).sizeOf? c = some d := by
  have hm : FuseP.multiB G g = false := by simp [FuseP.multiB, hg, hlen]
  have hlt : ∀ x ∈ gaxes, x < A.indices.length := FuseP.groupM_lt hok hg
  refine ⟨by simp [decAx, hm], ?_⟩
  intro d hd
  rw [FuseP.ixM_single hok hg hlen]
  match gaxes, hlen, hlt with
  | [ax], _, hlt =>
    have h0 : ax < A.indices.length := hlt ax (by simp)
    simp only [permuted, List.filterMap_cons, List.getElem?_eq_getElem h0, List.filterMap_nil,
      Arr.blockShape?_cons, Arr.blockShape?_nil_nil] at hd
    simp only [List.headD_cons, List.getD_eq_getElem?_getD, List.getElem?_eq_getElem h0,
      Option.getD_some]
    cases hsz : A.indices[ax].sizeOf? c with
    | none => simp [hsz] at hd
    | some d' => simp [hsz] at hd; rw [hd]

/-- the matrix × matrix core for two aligned operands -/
theorem FusedCtx.matrix_core [AddCommMonoid R] [Mul R] [Neg R]
    (hz1 : ∀ x : R, 0 * x = 0) (hz2 : ∀ x : R, x * 0 = 0) {A B : Arr R} {xa xb : List Nat}
    (h : FusedCtx A B xa xb) (hl1' : (freeAxes A.ndim xa).length = 1)
    (hr1' : (freeAxes B.ndim xb).length = 1) :
    (tensordotBlockwise (FuseP.fusedArrM A [freeAxes A.ndim xa, xa])
        (FuseP.fusedArrM B [xb, freeAxes B.ndim xb]) [0] [1] [0] [1]).indices.length = 2
    ∧ (∀ s ∈ (tensordotBlockwise A B (freeAxes A.ndim xa) xa xb (freeAxes B.ndim xb)).sectors,
        s ∈ (tensordotBlockwise (FuseP.fusedArrM A [freeAxes A.ndim xa, xa])
          (FuseP.fusedArrM B [xb, freeAxes B.ndim xb]) [0] [1] [0] [1]).sectors)
    ∧ (∀ s o shp, Arr.blockShape? (without A.indices xa ++ without B.indices xb) s = some shp →
        inBox shp o = true →
        (tensordotBlockwise (FuseP.fusedArrM A [freeAxes A.ndim xa, xa])
          (FuseP.fusedArrM B [xb, freeAxes B.ndim xb]) [0] [1] [0] [1]).elem s o =
        (tensordotBlockwise A B (freeAxes A.ndim xa) xa xb (freeAxes B.ndim xb)).elem s o) := by
  have hokA := h.pairA.groupsOk
  have hokB := h.pairB.groupsOk
  have gA0 : ([freeAxes A.ndim xa, xa] : List (List Nat))[0]? = some (freeAxes A.ndim xa) := rfl
  have gB1 : ([xb, freeAxes B.ndim xb] : List (List Nat))[1]? = some (freeAxes B.ndim xb) := rfl
  refine ⟨?_, ?_, ?_⟩
  · -- rank
    rw [tensordotBlockwise_indices, dropUnused_length, List.length_append, without_length,
      without_length]
    have e1 : (FuseP.fusedArrM A [freeAxes A.ndim xa, xa]).indices.length = 2 := by
      show (FuseP.newIdxM A _).length = 2
      rw [pair_newIdx h.pairA]; rfl
    have e2 : (FuseP.fusedArrM B [xb, freeAxes B.ndim xb]).indices.length = 2 := by
      show (FuseP.newIdxM B _).length = 2
      rw [pair_newIdx h.pairB]; rfl
    rw [e1, e2, freeAxes_2_1, freeAxes_2_0]; rfl
  · -- stored sectors
    intro s hs
    rw [tensordotBlockwise_sectors_eq, List.mem_eraseDups, mem_tdKeys] at hs
    obtain ⟨x, hx, y, hy, hxy, rfl⟩ := hs
    obtain ⟨sa, hsa, rfl⟩ := List.mem_map.mp hx
    obtain ⟨sb, hsb, rfl⟩ := List.mem_map.mp hy
    have := h.cf_sector hsa hsb hxy.symm
    rw [← single_group_charge h.vaA hokA gA0 hl1' hsa,
      ← single_group_charge h.vaB hokB gB1 hr1' hsb]
    exact this
  · -- values
    intro s o shp hshp hbox
    rw [without_eq_permuted_freeAxes, without_eq_permuted_freeAxes] at hshp
    have eA : A.indices.length = A.ndim := rfl
    have eB : B.indices.length = B.ndim := rfl
    rw [eA, eB] at hshp
    have hpl : (permuted A.indices (freeAxes A.ndim xa)).length = 1 := by
      rw [permuted_length _ _ (by simpa [eA] using mem_freeAxes_lt), hl1']
    have hpr : (permuted B.indices (freeAxes B.ndim xb)).length = 1 := by
      rw [permuted_length _ _ (by simpa [eB] using mem_freeAxes_lt), hr1']
    obtain ⟨hsl, hshl⟩ := blockShape?_length hshp
    rw [List.length_append, hpl, hpr] at hsl hshl
    match s, shp, o, hsl, hshl, inBox_length hbox with
    | [cL, cR], [dL, dR], [iL, iR], _, _, _ =>
      obtain ⟨x0, hx0⟩ := List.length_eq_one_iff.mp hpl
      obtain ⟨y0, hy0⟩ := List.length_eq_one_iff.mp hpr
      rw [hx0, hy0] at hshp
      simp only [List.cons_append, List.nil_append, Arr.blockShape?_cons, Arr.blockShape?_nil_nil] at hshp
      cases hzL : x0.sizeOf? cL with
      | none => simp [hzL] at hshp
      | some dL' =>
        cases hzR : y0.sizeOf? cR with
        | none => simp [hzL, hzR] at hshp
        | some dR' =>
          simp only [hzL, hzR, Option.bind_some, Option.map_some, Option.some.injEq, List.cons.injEq,
            and_true] at hshp
          obtain ⟨rfl, rfl⟩ := hshp
          simp only [inBox, Bool.and_eq_true, decide_eq_true_eq, and_true] at hbox
          have hsL : Arr.blockShape? (permuted A.indices (freeAxes A.ndim xa)) [cL] = some [dL'] := by
            rw [hx0]; simp [Arr.blockShape?_cons, Arr.blockShape?_nil_nil, hzL]
          have hsR : Arr.blockShape? (permuted B.indices (freeAxes B.ndim xb)) [cR] = some [dR'] := by
            rw [hy0]; simp [Arr.blockShape?_cons, Arr.blockShape?_nil_nil, hzR]
          obtain ⟨hdL, hszL⟩ := single_group_dec (A := A) hokA gA0 hl1' cL iL
          obtain ⟨hdR, hszR⟩ := single_group_dec (A := B) hokB gB1 hr1' cR iR
          exact fused_core hz1 hz2 h hdL hdR (hszL _ hsL) hbox.1 (hszR _ hsR) hbox.2

theorem tensordotBlockwise_fields [Zero R] [Add R] [Mul R] (x y : Arr R) (l xa xb r : List Nat) :
    (tensordotBlockwise x y l xa xb r).sym = x.sym ∧ (tensordotBlockwise x y l xa xb r).fermi = x.fermi
    ∧ (tensordotBlockwise x y l xa xb r).charge = x.sym.combine [x.charge, y.charge]
    ∧ (tensordotBlockwise x y l xa xb r).phases = x.phases
    ∧ (tensordotBlockwise x y l xa xb r).oddpos = x.oddpos := ⟨rfl, rfl, rfl, rfl, rfl⟩

theorem fusedArrM_fields [Zero R] (A : Arr R) (G : List (List Nat)) :
    (FuseP.fusedArrM A G).sym = A.sym ∧ (FuseP.fusedArrM A G).fermi = A.fermi
    ∧ (FuseP.fusedArrM A G).charge = A.charge ∧ (FuseP.fusedArrM A G).phases = A.phases
    ∧ (FuseP.fusedArrM A G).oddpos = A.oddpos := ⟨rfl, rfl, rfl, rfl, rfl⟩

theorem dropMisaligned_fields (a b : Arr R) (xa xb : List Nat) :
    (dropMisaligned a b xa xb).1.sym = a.sym ∧ (dropMisaligned a b xa xb).1.fermi = a.fermi
    ∧ (dropMisaligned a b xa xb).1.charge = a.charge ∧ (dropMisaligned a b xa xb).1.phases = a.phases
    ∧ (dropMisaligned a b xa xb).1.oddpos = a.oddpos ∧ (dropMisaligned a b xa xb).2.charge = b.charge :=
  ⟨rfl, rfl, rfl, rfl, rfl, rfl⟩

/-- **fused = blockwise, matrix × matrix shape.**  Valid abelian operands with matching contracted
    legs, a non-empty contraction, exactly one free axis on each side and at least one aligned
    block: `tensordotViaFused` succeeds; its result has the fields, rank and every stored sector
    of the blockwise result, and the same value view at every address of the (aligned) result
    tables — so any additional stored block is identically zero on its box. -/
theorem viaFused_matrix [AddCommMonoid R] [Mul R] [Neg R]
    (hz1 : ∀ x : R, 0 * x = 0) (hz2 : ∀ x : R, x * 0 = 0) (a b : Arr R) (xa xb : List Nat)
    (ha : a.validB = true) (hb : b.validB = true) (hfa : a.fermi = false) (hfb : b.fermi = false)
    (hsym : a.sym = b.sym) (hc : ValidP.contractibleB a b xa xb = true)
    (hnA : xa.Nodup) (hnB : xb.Nodup) (hA : ∀ x ∈ xa, x < a.ndim) (hB : ∀ x ∈ xb, x < b.ndim)
    (hneK : xa ≠ []) (hl1 : (freeAxes a.ndim xa).length = 1) (hr1 : (freeAxes b.ndim xb).length = 1)
    (hbl : ((dropMisaligned a b xa xb).1.blocks.isEmpty || (dropMisaligned a b xa xb).2.blocks.isEmpty) = false) :
    ∃ c, tensordotViaFused a b (freeAxes a.ndim xa) xa xb (freeAxes b.ndim xb) = .ok c
      ∧ c.sym = a.sym ∧ c.fermi = a.fermi ∧ c.charge = a.sym.combine [a.charge, b.charge]
      ∧ c.phases = a.phases ∧ c.oddpos = a.oddpos ∧ c.indices.length = 2
      ∧ (∀ s ∈ (tensordotBlockwise a b (freeAxes a.ndim xa) xa xb (freeAxes b.ndim xb)).sectors,
          s ∈ c.sectors)
      ∧ (∀ s o shp, Arr.blockShape? (without (dropMisaligned a b xa xb).1.indices xa ++
            without (dropMisaligned a b xa xb).2.indices xb) s = some shp → inBox shp o = true →
          c.elem s o =
            (tensordotBlockwise a b (freeAxes a.ndim xa) xa xb (freeAxes b.ndim xb)).elem s o) := by
  obtain ⟨n1, n2⟩ := dropMisaligned_ndim a b xa xb
  have hneL : freeAxes a.ndim xa ≠ [] := by intro e; rw [e] at hl1; simp at hl1
  have hneR : freeAxes b.ndim xb ≠ [] := by intro e; rw [e] at hr1; simp at hr1
  have h := ctx_of_dropMisaligned a b xa xb ha hb hfa hfb hsym hc hnA hnB hA hB hneK hneL hneR
  have hcore := h.matrix_core hz1 hz2 (by rw [n1]; exact hl1) (by rw [n2]; exact hr1)
  have hfA := FuseP.fuseCore_multi_eq h.vaA h.pairA.groupsOk
  have hfB := FuseP.fuseCore_multi_eq h.vaB h.pairB.groupsOk
  rw [n1] at hfA
  rw [n2] at hfB
  rw [n1, n2] at hcore
  have hflow := tensordotViaFused_nonempty a b (freeAxes a.ndim xa) xa xb (freeAxes b.ndim xb)
    hneL hneK h.neKb hneR hbl _ _ hfA hfB
  have e1 : ((freeAxes a.ndim xa).length != 1) = false := by simp [hl1]
  have e2 : ((freeAxes b.ndim xb).length != 1) = false := by simp [hr1]
  simp only [e1, e2, Bool.false_eq_true, if_false, pure, Except.pure, bind, Except.bind] at hflow
  have hblk := tensordotBlockwise_blocks_dropMisaligned a b (freeAxes a.ndim xa) xa xb (freeAxes b.ndim xb)
  obtain ⟨t1, t2, t3, t4, t5⟩ := tensordotBlockwise_fields
    (FuseP.fusedArrM (dropMisaligned a b xa xb).1 [freeAxes a.ndim xa, xa])
    (FuseP.fusedArrM (dropMisaligned a b xa xb).2 [xb, freeAxes b.ndim xb]) [0] [1] [0] [1]
  obtain ⟨u1, u2, u3, u4, u5⟩ := fusedArrM_fields (dropMisaligned a b xa xb).1 [freeAxes a.ndim xa, xa]
  obtain ⟨_, _, w3, _, _⟩ := fusedArrM_fields (dropMisaligned a b xa xb).2 [xb, freeAxes b.ndim xb]
  obtain ⟨d1, d2, d3, d4, d5, d6⟩ := dropMisaligned_fields a b xa xb
  refine ⟨_, hflow, t1.trans (u1.trans d1), t2.trans (u2.trans d2), ?_, t4.trans (u4.trans d4),
    t5.trans (u5.trans d5), hcore.1, ?_, ?_⟩
  · rw [t3, u1, u3, w3, d1, d3, d6]
  · intro s hs
    apply hcore.2.1
    rw [Arr.sectors, hblk]; exact hs
  · intro s o shp hshp hbox
    rw [hcore.2.2 s o shp hshp hbox]
    exact Arr.elem_congr hblk rfl s o

/-! ### no aligned sector -/

/-- **empty alignment.**  When one of the aligned operands has no block left, the fused strategy
    returns the block-less array with the un-pruned free tables and the combined charge; the
    blockwise result has no block either, so the two value views are both identically zero. -/
theorem viaFused_empty [Zero R] [Add R] [Mul R] [Neg R] (a b : Arr R) (l xa xb r : List Nat)
    (hbl : ((dropMisaligned a b xa xb).1.blocks.isEmpty || (dropMisaligned a b xa xb).2.blocks.isEmpty) = true) :
    tensordotViaFused a b l xa xb r = .ok
        { (dropMisaligned a b xa xb).1 with
          indices := without (dropMisaligned a b xa xb).1.indices xa ++ without (dropMisaligned a b xa xb).2.indices xb,
          charge := a.sym.combine [a.charge, b.charge], blocks := [] }
    ∧ (tensordotBlockwise a b l xa xb r).blocks = []
    ∧ ∀ s o, (tensordotBlockwise a b l xa xb r).elem s o = 0 := by
  have hblocks : (tensordotBlockwise a b l xa xb r).blocks = [] := by
    rw [← tensordotBlockwise_blocks_dropMisaligned, tensordotBlockwise_blocks, tdTerms]
    have : tdPairs (dropMisaligned a b xa xb).1 (dropMisaligned a b xa xb).2 l xa xb r = [] := by
      unfold tdPairs
      rcases Bool.or_eq_true _ _ |>.mp hbl with h | h
      · rw [List.isEmpty_iff.mp h]; rfl
      · rw [List.isEmpty_iff.mp h]; simp
    rw [this]; rfl
  refine ⟨?_, hblocks, ?_⟩
  · unfold tensordotViaFused
    simp only [hbl, if_true]
    rfl
  · intro s o
    unfold Arr.elem
    rw [hblocks]; rfl

/-! ### `tensordot(…, mode)` -/

/-- fused mode of `tensordot_abelian`: with the parsed axes, take the complements and run
    `_tensordot_via_fused` -/
theorem tensordotA_fused' [Zero R] [Add R] [Mul R] (a b : Arr R) (axes : AxesArg) (xa xb : List Nat)
    (h : parseAxes a.ndim b.ndim axes = .ok (xa, xb)) :
    tensordotA a b axes .fused =
      tensordotViaFused a b (freeAxes a.ndim xa) xa xb (freeAxes b.ndim xb) := by
  rw [← without_range, ← without_range]
  unfold tensordotA
  rw [h]
  rfl

/-- blockwise mode, same form -/
theorem tensordotA_blockwise_ok [Zero R] [Add R] [Mul R] (a b : Arr R) (axes : AxesArg) (xa xb : List Nat)
    (h : parseAxes a.ndim b.ndim axes = .ok (xa, xb)) :
    tensordotA a b axes .blockwise =
      .ok (tensordotBlockwise a b (freeAxes a.ndim xa) xa xb (freeAxes b.ndim xb)) := by
  rw [tensordotA_blockwise', h]; rfl

/-- default mode: fused when something is contracted -/
theorem tensordotA_auto_fused [Zero R] [Add R] [Mul R] (a b : Arr R) (axes : AxesArg) (xa xb : List Nat)
    (h : parseAxes a.ndim b.ndim axes = .ok (xa, xb)) (hne : xa ≠ []) :
    tensordotA a b axes .auto =
      tensordotViaFused a b (freeAxes a.ndim xa) xa xb (freeAxes b.ndim xb) := by
  rw [← without_range, ← without_range]
  unfold tensordotA
  rw [h]
  have : xa.isEmpty = false := by cases xa <;> simp_all
  simp only [bind, Except.bind, this, Bool.false_eq_true, if_false]

/-- default mode: blockwise when nothing is contracted -/
theorem tensordotA_auto_outer [Zero R] [Add R] [Mul R] (a b : Arr R) (axes : AxesArg) (xb : List Nat)
    (h : parseAxes a.ndim b.ndim axes = .ok ([], xb)) :
    tensordotA a b axes .auto =
      .ok (tensordotBlockwise a b (freeAxes a.ndim []) [] xb (freeAxes b.ndim xb)) := by
  rw [← without_range, ← without_range]
  unfold tensordotA
  rw [h]
  rfl

end TdotP
end SymmModel
