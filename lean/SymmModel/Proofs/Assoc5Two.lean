/-
  SymmModel.Proofs.Assoc5Two — the label check `netLabelsB` of the norm network holds for SYMBOLIC
  sorted ket labels with at most two labels per tensor (all orderings of the up to four labels),
  by transfer from the order-isomorphic lists of small integers.  Namespace `SymmModel.Assoc5P`.
-/
import SymmModel.Proofs.Assoc5Labels

namespace SymmModel
namespace Assoc5P
open OddposP NormNet
set_option linter.unusedSectionVars false

/-- ket labels with the given names -/
def ket (l : List Int) : List (Int × Bool) := l.map (fun x => (x, false))

/-- reading a strictly increasing list is an order embedding on its index range -/
theorem emb_getD (G : List Int) (hG : G.Pairwise (· < ·)) :
    Emb (fun i => G.getD i.toNat 0) (fun i => 0 ≤ i ∧ i < G.length) := by
  intro x y hx hy
  have hi : x.toNat < G.length := by omega
  have hj : y.toNat < G.length := by omega
  simp only [List.getD_eq_getElem?_getD, List.getElem?_eq_getElem hi, List.getElem?_eq_getElem hj,
    Option.getD_some]
  have mono := List.pairwise_iff_getElem.mp hG
  rcases Nat.lt_trichotomy x.toNat y.toNat with h | h | h
  · have := mono _ _ hi hj h
    constructor <;> constructor <;> intro h' <;> omega
  · have e : G[x.toNat] = G[y.toNat] := by congr 1
    constructor <;> constructor <;> intro h' <;> omega
  · have := mono _ _ hj hi h
    constructor <;> constructor <;> intro h' <;> omega

/-- the check for labels `G[i]`, `i` running over the rank lists `ca`, `cb`, from the check for the
    rank lists themselves -/
theorem net_of_pattern (G : List Int) (ca cb : List Int) (hG : G.Pairwise (· < ·))
    (n : Nat) (hn : G.length = n) (hr : ∀ i ∈ ca ++ cb, 0 ≤ i ∧ i < (n : Int))
    (hdec : ∀ pa pb, netLabelsB pa pb (ket ca) (ket cb) = true) (pA pB : Bool) :
    netLabelsB pA pB ((ket ca).map (relab (fun i => G.getD i.toNat 0)))
      ((ket cb).map (relab (fun i => G.getD i.toNat 0))) = true := by
  apply netLabelsB_relab (emb_getD G hG) pA pB _ _ _ (hdec pA pB)
  intro a ha
  unfold ket at ha
  rw [← List.map_append] at ha
  obtain ⟨i, hi, rfl⟩ := List.mem_map.mp ha
  rw [hn]; exact hr i hi

theorem dec_pattern_22a : ∀ pa pb, netLabelsB pa pb (ket [0, 1]) (ket [2, 3]) = true := by
  intro pa pb; cases pa <;> cases pb <;> decide +kernel
theorem dec_pattern_22b : ∀ pa pb, netLabelsB pa pb (ket [0, 2]) (ket [1, 3]) = true := by
  intro pa pb; cases pa <;> cases pb <;> decide +kernel
theorem dec_pattern_22c : ∀ pa pb, netLabelsB pa pb (ket [0, 3]) (ket [1, 2]) = true := by
  intro pa pb; cases pa <;> cases pb <;> decide +kernel
theorem dec_pattern_22d : ∀ pa pb, netLabelsB pa pb (ket [1, 2]) (ket [0, 3]) = true := by
  intro pa pb; cases pa <;> cases pb <;> decide +kernel
theorem dec_pattern_22e : ∀ pa pb, netLabelsB pa pb (ket [1, 3]) (ket [0, 2]) = true := by
  intro pa pb; cases pa <;> cases pb <;> decide +kernel
theorem dec_pattern_22f : ∀ pa pb, netLabelsB pa pb (ket [2, 3]) (ket [0, 1]) = true := by
  intro pa pb; cases pa <;> cases pb <;> decide +kernel
theorem dec_pattern_21a : ∀ pa pb, netLabelsB pa pb (ket [0, 1]) (ket [2]) = true := by
  intro pa pb; cases pa <;> cases pb <;> decide +kernel
theorem dec_pattern_21b : ∀ pa pb, netLabelsB pa pb (ket [0, 2]) (ket [1]) = true := by
  intro pa pb; cases pa <;> cases pb <;> decide +kernel
theorem dec_pattern_21c : ∀ pa pb, netLabelsB pa pb (ket [1, 2]) (ket [0]) = true := by
  intro pa pb; cases pa <;> cases pb <;> decide +kernel
theorem dec_pattern_12a : ∀ pa pb, netLabelsB pa pb (ket [0]) (ket [1, 2]) = true := by
  intro pa pb; cases pa <;> cases pb <;> decide +kernel
theorem dec_pattern_12b : ∀ pa pb, netLabelsB pa pb (ket [1]) (ket [0, 2]) = true := by
  intro pa pb; cases pa <;> cases pb <;> decide +kernel
theorem dec_pattern_12c : ∀ pa pb, netLabelsB pa pb (ket [2]) (ket [0, 1]) = true := by
  intro pa pb; cases pa <;> cases pb <;> decide +kernel
theorem dec_pattern_11a : ∀ pa pb, netLabelsB pa pb (ket [0]) (ket [1]) = true := by
  intro pa pb; cases pa <;> cases pb <;> decide +kernel
theorem dec_pattern_11b : ∀ pa pb, netLabelsB pa pb (ket [1]) (ket [0]) = true := by
  intro pa pb; cases pa <;> cases pb <;> decide +kernel
theorem dec_pattern_20 : ∀ pa pb, netLabelsB pa pb (ket [0, 1]) (ket []) = true := by
  intro pa pb; cases pa <;> cases pb <;> decide +kernel
theorem dec_pattern_02 : ∀ pa pb, netLabelsB pa pb (ket []) (ket [0, 1]) = true := by
  intro pa pb; cases pa <;> cases pb <;> decide +kernel
theorem dec_pattern_10 : ∀ pa pb, netLabelsB pa pb (ket [0]) (ket []) = true := by
  intro pa pb; cases pa <;> cases pb <;> decide +kernel
theorem dec_pattern_01 : ∀ pa pb, netLabelsB pa pb (ket []) (ket [0]) = true := by
  intro pa pb; cases pa <;> cases pb <;> decide +kernel
theorem dec_pattern_00 : ∀ pa pb, netLabelsB pa pb (ket []) (ket []) = true := by
  intro pa pb; cases pa <;> cases pb <;> decide +kernel

/-- a sorted ket list of length ≤ 2, spelled out -/
theorem ket_shapes {o : List (Int × Bool)} (h : KetLabels o) (hl : o.length ≤ 2) :
    o = [] ∨ (∃ x, o = [(x, false)]) ∨ ∃ x1 x2, x1 < x2 ∧ o = [(x1, false), (x2, false)] := by
  obtain ⟨hk, hs⟩ := h
  match o, hk, hs, hl with
  | [], _, _, _ => exact Or.inl rfl
  | [(x, d)], hk, _, _ =>
    have : d = false := hk (x, d) (by simp)
    subst this
    exact Or.inr (Or.inl ⟨x, rfl⟩)
  | [(x1, d1), (x2, d2)], hk, hs, _ =>
    have e1 : d1 = false := hk (x1, d1) (by simp)
    have e2 : d2 = false := hk (x2, d2) (by simp)
    subst e1 e2
    have : oddLt (x1, false) (x2, false) = true := by
      have := List.pairwise_cons.mp hs
      exact this.1 _ (by simp)
    have hlt : x1 < x2 := by simpa [oddLt] using this
    exact Or.inr (Or.inr ⟨x1, x2, hlt, rfl⟩)
  | _ :: _ :: _ :: _, _, _, hl => exact absurd hl (by simp only [List.length_cons]; omega)

/-- **the label check of the norm network for at most two sorted ket labels per tensor**, symbolic
    labels, every ordering, every parity -/
theorem netLabelsB_two (oA oB : List (Int × Bool)) (hA : KetLabels oA) (hB : KetLabels oB)
    (lA : oA.length ≤ 2) (lB : oB.length ≤ 2)
    (hd : (oA ++ oB).Pairwise (fun x y => x.1 ≠ y.1)) (pA pB : Bool) :
    netLabelsB pA pB oA oB = true := by
  have hcross : ∀ a ∈ oA, ∀ b ∈ oB, a.1 ≠ b.1 := (List.pairwise_append.mp hd).2.2
  rcases ket_shapes hA lA with rfl | ⟨x, rfl⟩ | ⟨x1, x2, hx, rfl⟩ <;>
    rcases ket_shapes hB lB with rfl | ⟨y, rfl⟩ | ⟨y1, y2, hy, rfl⟩
  · exact dec_pattern_00 pA pB
  · exact net_of_pattern [y] [] [0] (by simp) 1 rfl (by decide) dec_pattern_01 pA pB
  · exact net_of_pattern [y1, y2] [] [0, 1] (by simp <;> omega) 2 rfl (by decide) dec_pattern_02 pA pB
  · exact net_of_pattern [x] [0] [] (by simp) 1 rfl (by decide) dec_pattern_10 pA pB
  · have h11 : x ≠ y := hcross (x, false) (by simp) (y, false) (by simp)
    rcases Int.lt_or_gt_of_ne h11 with h | h
    · exact net_of_pattern [x, y] [0] [1] (by simp <;> omega) 2 rfl (by decide) dec_pattern_11a pA pB
    · exact net_of_pattern [y, x] [1] [0] (by simp <;> omega) 2 rfl (by decide) dec_pattern_11b pA pB
  · have h1 : x ≠ y1 := hcross (x, false) (by simp) (y1, false) (by simp)
    have h2 : x ≠ y2 := hcross (x, false) (by simp) (y2, false) (by simp)
    rcases Int.lt_or_gt_of_ne h1 with a | a <;> rcases Int.lt_or_gt_of_ne h2 with b | b
    all_goals (first
      | (refine net_of_pattern [x, y1, y2] [0] [1, 2] ?_ 3 rfl (by decide) dec_pattern_12a pA pB; simp <;> omega)
      | (refine net_of_pattern [y1, x, y2] [1] [0, 2] ?_ 3 rfl (by decide) dec_pattern_12b pA pB; simp <;> omega)
      | (refine net_of_pattern [y1, y2, x] [2] [0, 1] ?_ 3 rfl (by decide) dec_pattern_12c pA pB; simp <;> omega))
  · exact net_of_pattern [x1, x2] [0, 1] [] (by simp <;> omega) 2 rfl (by decide) dec_pattern_20 pA pB
  · have h1 : x1 ≠ y := hcross (x1, false) (by simp) (y, false) (by simp)
    have h2 : x2 ≠ y := hcross (x2, false) (by simp) (y, false) (by simp)
    rcases Int.lt_or_gt_of_ne h1 with a | a <;> rcases Int.lt_or_gt_of_ne h2 with b | b
    all_goals (first
      | (refine net_of_pattern [x1, x2, y] [0, 1] [2] ?_ 3 rfl (by decide) dec_pattern_21a pA pB; simp <;> omega)
      | (refine net_of_pattern [x1, y, x2] [0, 2] [1] ?_ 3 rfl (by decide) dec_pattern_21b pA pB; simp <;> omega)
      | (refine net_of_pattern [y, x1, x2] [1, 2] [0] ?_ 3 rfl (by decide) dec_pattern_21c pA pB; simp <;> omega))
  · have h11 : x1 ≠ y1 := hcross (x1, false) (by simp) (y1, false) (by simp)
    have h12 : x1 ≠ y2 := hcross (x1, false) (by simp) (y2, false) (by simp)
    have h21 : x2 ≠ y1 := hcross (x2, false) (by simp) (y1, false) (by simp)
    have h22 : x2 ≠ y2 := hcross (x2, false) (by simp) (y2, false) (by simp)
    rcases Int.lt_or_gt_of_ne h11 with a | a <;> rcases Int.lt_or_gt_of_ne h12 with b | b <;>
      rcases Int.lt_or_gt_of_ne h21 with c | c <;> rcases Int.lt_or_gt_of_ne h22 with d | d
    all_goals (first
      | (refine net_of_pattern [x1, x2, y1, y2] [0, 1] [2, 3] ?_ 4 rfl (by decide) dec_pattern_22a pA pB; simp <;> omega)
      | (refine net_of_pattern [x1, y1, x2, y2] [0, 2] [1, 3] ?_ 4 rfl (by decide) dec_pattern_22b pA pB; simp <;> omega)
      | (refine net_of_pattern [x1, y1, y2, x2] [0, 3] [1, 2] ?_ 4 rfl (by decide) dec_pattern_22c pA pB; simp <;> omega)
      | (refine net_of_pattern [y1, x1, x2, y2] [1, 2] [0, 3] ?_ 4 rfl (by decide) dec_pattern_22d pA pB; simp <;> omega)
      | (refine net_of_pattern [y1, x1, y2, x2] [1, 3] [0, 2] ?_ 4 rfl (by decide) dec_pattern_22e pA pB; simp <;> omega)
      | (refine net_of_pattern [y1, y2, x1, x2] [2, 3] [0, 1] ?_ 4 rfl (by decide) dec_pattern_22f pA pB; simp <;> omega))

end Assoc5P
end SymmModel
