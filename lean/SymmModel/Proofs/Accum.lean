/-
  SymmModel.Proofs.Accum — the dict-accumulate lemma (DESIGN §3.6, L0).

  `tensordotBlockwise` (and `einsumA`) build their block dictionary by the left fold

      acc ↦ match alookup acc k with | none => acc ++ [(k, v)] | some cur => ainsert acc k (cur + v)

  over a list of `(key, block)` pairs.  `accum add ps` is that fold for an arbitrary `add`.

  * keys of the result: the distinct keys of `ps` in first-appearance order (`eraseDups`),
    `allDistinct`;
  * `alookup (accum add ps) k` = the left `add`-fold, in list order, of the values with key `k`
    (`none` when there are none);
  * for blocks: the entry at `i` of the block stored for `k` is the sum over the pairs with key
    `k` of their entry at `i` (`i` in the box of the first such block; the later blocks are read
    at `i` with their own shape, so for the result to mean anything they have that shape too).

  Namespace `SymmModel.TdotP`.
-/
import SymmModel.Proofs.BlkLemmas

namespace SymmModel
namespace TdotP

section generic
variable {κ β : Type} [BEq κ] [LawfulBEq κ]

/-! ### association lists -/

theorem alookup_eq_none_iff {l : List (κ × β)} {k : κ} : alookup l k = none ↔ k ∉ akeys l := by
  induction l with
  | nil => simp [alookup, akeys]
  | cons p ps ih =>
    obtain ⟨k', v⟩ := p
    simp only [alookup, akeys, List.map_cons, List.mem_cons, not_or]
    by_cases h : k' == k
    · have : k = k' := (beq_iff_eq.mp h).symm
      simp [this]
    · have hne : ¬ k = k' := fun e => h (by simp [e])
      simp only [h, Bool.false_eq_true, if_false, hne, not_false_eq_true, true_and]
      exact ih

theorem alookup_append_of_none {l : List (κ × β)} {k k0 : κ} {v : β} (h : alookup l k = none) :
    alookup (l ++ [(k, v)]) k0 = if k == k0 then some v else alookup l k0 := by
  induction l with
  | nil => simp [alookup]
  | cons p ps ih =>
    obtain ⟨k', v'⟩ := p
    simp only [alookup] at h
    by_cases hk : k' == k
    · simp [hk] at h
    · simp only [hk, Bool.false_eq_true, if_false] at h
      simp only [List.cons_append, alookup, ih h]
      by_cases hk0 : k' == k0
      · have : ¬ (k == k0) = true := by
          intro e; apply hk; rw [beq_iff_eq.mp e]; exact hk0
        simp [hk0, this]
      · simp [hk0]

theorem alookup_ainsert (l : List (κ × β)) (k k0 : κ) (v : β) :
    alookup (ainsert l k v) k0 = if k == k0 then some v else alookup l k0 := by
  induction l with
  | nil => simp [ainsert, alookup]
  | cons p ps ih =>
    obtain ⟨k', v'⟩ := p
    simp only [ainsert]
    by_cases hk : k' == k
    · have e : k' = k := beq_iff_eq.mp hk
      subst e
      simp only [BEq.rfl, if_true, alookup]
      by_cases hk0 : k' == k0 <;> simp [hk0]
    · simp only [hk, Bool.false_eq_true, if_false, alookup, ih]
      by_cases hk0 : k' == k0
      · have : ¬ (k == k0) = true := by
          intro e; apply hk; rw [beq_iff_eq.mp e]; exact hk0
        simp [hk0, this]
      · simp [hk0]

theorem akeys_ainsert_of_mem {l : List (κ × β)} {k : κ} {v : β} (h : k ∈ akeys l) :
    akeys (ainsert l k v) = akeys l := by
  induction l with
  | nil => simp [akeys] at h
  | cons p ps ih =>
    obtain ⟨k', v'⟩ := p
    simp only [ainsert]
    by_cases hk : k' == k
    · simp [hk, akeys]
    · have hne : ¬ k = k' := fun e => hk (by simp [e])
      simp only [akeys, List.map_cons, List.mem_cons, hne, false_or] at h
      simp only [hk, Bool.false_eq_true, if_false, akeys, List.map_cons]
      congr 1
      exact ih h

theorem alookup_mem {l : List (κ × β)} {k : κ} {v : β} (h : alookup l k = some v) : (k, v) ∈ l := by
  induction l with
  | nil => simp [alookup] at h
  | cons p ps ih =>
    obtain ⟨k', v'⟩ := p
    simp only [alookup] at h
    by_cases hk : k' == k
    · simp only [hk, if_true, Option.some.injEq] at h
      simp [beq_iff_eq.mp hk, h]
    · simp only [hk, Bool.false_eq_true, if_false] at h
      exact List.mem_cons_of_mem _ (ih h)

/-- under distinct keys, lookup finds every stored pair -/
theorem alookup_of_mem {l : List (κ × β)} (hd : allDistinct (akeys l) = true) {k : κ} {v : β}
    (h : (k, v) ∈ l) : alookup l k = some v := by
  induction l with
  | nil => simp at h
  | cons p ps ih =>
    obtain ⟨k', v'⟩ := p
    simp only [akeys, List.map_cons, allDistinct, Bool.and_eq_true, Bool.not_eq_true',
      List.contains_eq_mem, decide_eq_false_iff_not] at hd
    simp only [alookup]
    rcases List.mem_cons.mp h with e | e
    · simp only [Prod.mk.injEq] at e
      simp [e.1, e.2]
    · have hk : ¬ (k' == k) = true := by
        intro e'
        apply hd.1
        rw [beq_iff_eq.mp e']
        exact List.mem_map.mpr ⟨(k, v), e, rfl⟩
      simp only [hk, Bool.false_eq_true, if_false]
      exact ih hd.2 e

theorem allDistinct_iff_nodup {l : List κ} : allDistinct l = true ↔ l.Nodup := by
  induction l with
  | nil => simp [allDistinct]
  | cons a as ih => simp [allDistinct, ih, List.nodup_cons]

/-! ### the accumulate fold -/

/-- one step of the accumulation loop -/
def accStep (add : β → β → β) (acc : List (κ × β)) (p : κ × β) : List (κ × β) :=
  match alookup acc p.1 with
  | none => acc ++ [(p.1, p.2)]
  | some cur => ainsert acc p.1 (add cur p.2)

/-- the accumulation loop of `_tensordot_blockwise` / `einsum` -/
def accum (add : β → β → β) (ps : List (κ × β)) : List (κ × β) := ps.foldl (accStep add) []

/-- running value for one key: `none` before its first pair, then the left `add`-fold -/
def foldOpt (add : β → β → β) (o : Option β) (vs : List β) : Option β :=
  vs.foldl (fun o v => some (match o with | none => v | some c => add c v)) o

theorem foldOpt_some (add : β → β → β) (c : β) (vs : List β) :
    foldOpt add (some c) vs = some (vs.foldl add c) := by
  induction vs generalizing c with
  | nil => rfl
  | cons v vs ih => simp only [foldOpt, List.foldl_cons] at ih ⊢; exact ih _

theorem foldOpt_none_cons (add : β → β → β) (v : β) (vs : List β) :
    foldOpt add none (v :: vs) = some (vs.foldl add v) := by
  simp only [foldOpt, List.foldl_cons]; exact foldOpt_some add v vs

theorem alookup_accStep (add : β → β → β) (acc : List (κ × β)) (p : κ × β) (k : κ) :
    alookup (accStep add acc p) k =
      if p.1 == k then some (match alookup acc k with | none => p.2 | some c => add c p.2)
      else alookup acc k := by
  unfold accStep
  cases h : alookup acc p.1 with
  | none =>
    simp only [alookup_append_of_none h]
    by_cases hk : p.1 == k
    · simp [← beq_iff_eq.mp hk, h]
    · simp [hk]
  | some cur =>
    simp only [alookup_ainsert]
    by_cases hk : p.1 == k
    · simp [← beq_iff_eq.mp hk, h]
    · simp [hk]

theorem akeys_accStep (add : β → β → β) (acc : List (κ × β)) (p : κ × β) :
    akeys (accStep add acc p) = if (akeys acc).contains p.1 then akeys acc else akeys acc ++ [p.1] := by
  unfold accStep
  cases h : alookup acc p.1 with
  | none =>
    have := alookup_eq_none_iff.mp h
    simp [akeys, List.contains_eq_mem] at this ⊢
    simp [this]
  | some cur =>
    have hm : p.1 ∈ akeys acc := by
      by_contra hc; rw [alookup_eq_none_iff.mpr hc] at h; cases h
    simp [akeys_ainsert_of_mem hm, hm]

/-- **accumulate lemma, values.**  Whatever the starting dictionary, the value stored for `k`
    after the loop is the running `add`-fold over the pairs with key `k`, in list order. -/
theorem alookup_foldl_accStep (add : β → β → β) (acc : List (κ × β)) (ps : List (κ × β)) (k : κ) :
    alookup (ps.foldl (accStep add) acc) k =
      foldOpt add (alookup acc k) ((ps.filter (fun p => p.1 == k)).map (·.2)) := by
  induction ps generalizing acc with
  | nil => rfl
  | cons p ps ih =>
    rw [List.foldl_cons, ih, alookup_accStep, List.filter_cons]
    by_cases hk : p.1 == k
    · simp only [hk, if_true, List.map_cons, foldOpt, List.foldl_cons]
    · simp only [hk, Bool.false_eq_true, if_false]

/-- **accumulate lemma (ii).**  `alookup (accum add ps) k` is `none` if no pair has key `k`, and
    otherwise the left `add`-fold (in list order) of all values with key `k`. -/
theorem alookup_accum (add : β → β → β) (ps : List (κ × β)) (k : κ) :
    alookup (accum add ps) k =
      match (ps.filter (fun p => p.1 == k)).map (·.2) with
      | [] => none
      | v :: vs => some (vs.foldl add v) := by
  rw [accum, alookup_foldl_accStep]
  cases h : (ps.filter (fun p => p.1 == k)).map (·.2) with
  | nil => rfl
  | cons v vs => exact foldOpt_none_cons add v vs

/-- keys of the fold: old keys, then the new keys in first-appearance order -/
theorem akeys_foldl_accStep (add : β → β → β) (acc : List (κ × β)) (ps : List (κ × β)) :
    akeys (ps.foldl (accStep add) acc) =
      akeys acc ++ ((akeys ps).filter (fun k => !(akeys acc).contains k)).eraseDups := by
  induction ps generalizing acc with
  | nil => simp [akeys]
  | cons p ps ih =>
    rw [List.foldl_cons, ih, akeys_accStep]
    by_cases hc : (akeys acc).contains p.1
    · simp only [hc, if_true]
      simp [akeys, List.filter_cons] at hc ⊢
      simp [hc]
    · simp only [hc, Bool.false_eq_true, if_false]
      have e : akeys (p :: ps) = p.1 :: akeys ps := rfl
      rw [e, List.filter_cons]
      simp only [hc, Bool.not_false, if_true, List.eraseDups_cons, List.append_assoc,
        List.singleton_append, List.filter_filter]
      congr 2
      congr 1
      apply List.filter_congr
      intro x _
      simp only [List.contains_append, List.contains_cons, List.contains_nil, Bool.or_false, Bool.not_or]
      rw [Bool.and_comm]

/-- **accumulate lemma (i), order.**  The keys of the result are the distinct keys of the list
    in first-appearance order. -/
theorem akeys_accum (add : β → β → β) (ps : List (κ × β)) :
    akeys (accum add ps) = (akeys ps).eraseDups := by
  rw [accum, akeys_foldl_accStep]; simp [akeys]

theorem nodup_eraseDups (l : List κ) : l.eraseDups.Nodup := by
  match l with
  | [] => simp
  | a :: as =>
    rw [List.eraseDups_cons, List.nodup_cons]
    have : (as.filter fun b => !b == a).length < as.length + 1 :=
      Nat.lt_succ_of_le (List.length_filter_le _ as)
    refine ⟨?_, nodup_eraseDups _⟩
    rw [List.mem_eraseDups, List.mem_filter]
    simp
termination_by l.length

/-- **accumulate lemma (i), distinctness.** -/
theorem allDistinct_akeys_accum (add : β → β → β) (ps : List (κ × β)) :
    allDistinct (akeys (accum add ps)) = true := by
  rw [akeys_accum, allDistinct_iff_nodup]; exact nodup_eraseDups _

/-- **accumulate lemma (i), membership.** -/
theorem mem_akeys_accum (add : β → β → β) (ps : List (κ × β)) (k : κ) :
    k ∈ akeys (accum add ps) ↔ k ∈ akeys ps := by
  rw [akeys_accum, List.mem_eraseDups]

end generic
-- sanity: two pairs with key 1 are added in list order, key order is first appearance
example : accum (· + ·) [((1 : Nat), (10 : Int)), (2, 20), (1, 5), (3, 1), (2, 2)] = [(1, 15), (2, 22), (3, 1)] := by
  decide
example : accum (fun (x y : String) => x ++ y) [((1 : Nat), "a"), (2, "b"), (1, "c")] = [(1, "ac"), (2, "b")] := by
  decide

/-! ### blocks: element-level form -/

section blocks
variable {R : Type} {κ : Type} [BEq κ] [LawfulBEq κ]

theorem foldl_zipWith_shape [Zero R] (f : R → R → R) (x : Blk R) (xs : List (Blk R)) :
    (xs.foldl (Blk.zipWith f) x).shape = x.shape := by
  induction xs generalizing x with
  | nil => rfl
  | cons y ys ih => rw [List.foldl_cons, ih]; rfl

theorem foldl_zipWith_get [Zero R] (f : R → R → R) (x : Blk R) (xs : List (Blk R)) {i : List Nat}
    (hi : inBox x.shape i = true) :
    (xs.foldl (Blk.zipWith f) x).get i = xs.foldl (fun acc y => f acc (y.get i)) (x.get i) := by
  induction xs generalizing x with
  | nil => rfl
  | cons y ys ih =>
    rw [List.foldl_cons, List.foldl_cons, ih _ (by simpa using hi), Blk.zipWith_get f x y hi]

/-- **accumulate lemma, element level (no algebraic laws).**  If the blocks with key `k` are
    `v :: vs` (in list order) and `i` lies in the box of `v`, the dictionary holds for `k` a block
    of `v`'s shape whose entry at `i` is `((v[i] + vs₀[i]) + vs₁[i]) + …`. -/
theorem accum_get_foldl [Zero R] [Add R] (ps : List (κ × Blk R)) (k : κ) (v : Blk R) (vs : List (Blk R))
    (h : (ps.filter (fun p => p.1 == k)).map (·.2) = v :: vs) {i : List Nat}
    (hi : inBox v.shape i = true) :
    ∃ blk, alookup (accum (Blk.zipWith (· + ·)) ps) k = some blk ∧ blk.shape = v.shape ∧
      blk.get i = vs.foldl (fun acc y => acc + y.get i) (v.get i) := by
  refine ⟨vs.foldl (Blk.zipWith (· + ·)) v, ?_, foldl_zipWith_shape _ v vs, foldl_zipWith_get _ v vs hi⟩
  rw [alookup_accum, h]

/-- **accumulate lemma, element level.**  `(block for k)[i] = Σ_{pairs with key k} (their block)[i]`. -/
theorem accum_get_sum [AddMonoid R] (ps : List (κ × Blk R)) (k : κ) (v : Blk R) (vs : List (Blk R))
    (h : (ps.filter (fun p => p.1 == k)).map (·.2) = v :: vs) {i : List Nat}
    (hi : inBox v.shape i = true) :
    ∃ blk, alookup (accum (Blk.zipWith (· + ·)) ps) k = some blk ∧ blk.shape = v.shape ∧
      blk.get i = ((ps.filter (fun p => p.1 == k)).map (fun p => p.2.get i)).sum := by
  obtain ⟨blk, h1, h2, h3⟩ := accum_get_foldl ps k v vs h hi
  refine ⟨blk, h1, h2, ?_⟩
  have e : (ps.filter (fun p => p.1 == k)).map (fun p => p.2.get i) = (v :: vs).map (fun y => y.get i) := by
    rw [← h, List.map_map]; rfl
  rw [h3, e, Blk.foldl_add_eq_sum]
  simp

/-- no pair with key `k`: nothing stored for `k` -/
theorem accum_none (add : Blk R → Blk R → Blk R) (ps : List (κ × Blk R)) (k : κ)
    (h : ps.filter (fun p => p.1 == k) = []) : alookup (accum add ps) k = none := by
  rw [alookup_accum, h]; rfl

end blocks

end TdotP
end SymmModel
