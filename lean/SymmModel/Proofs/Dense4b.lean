/-
  SymmModel.Proofs.Dense4b — the dense form of an unfused array, position by position (property
  C08, fourth part).  `y = unfuse(x, axis)`: every position of a stored sector of `x` has an image
  in the dense form of `y` — the fused coordinate split by the fused index's own table
  (`splitAddr`) — holding the same entry, and every position of `y` holds `0` or is such an image.

  New names live in `SymmModel.Dense4`.
-/
import SymmModel.Proofs.Dense4a

namespace SymmModel
namespace Dense4
open FuseP DenseP Dense3

variable {R : Type}

/-! ## list plumbing: a list with one position replaced by a segment -/

theorem split_at {α : Type} (l : List α) (d : α) {p : Nat} (hp : p < l.length) :
    l = l.take p ++ [l.getD p d] ++ l.drop (p + 1) := by
  rw [List.append_assoc, List.singleton_append, List.getD_eq_getElem?_getD,
    List.getElem?_eq_getElem hp, Option.getD_some, List.getElem_cons_drop, List.take_append_drop]

theorem rws_take {α : Type} (l seq : List α) {p : Nat} (hp : p ≤ l.length) :
    (replaceWithSeq l p seq).take p = l.take p := by
  rw [replaceWithSeq, List.append_assoc, List.take_left' (by simp [hp])]

theorem rws_mid {α : Type} (l seq : List α) {p : Nat} (hp : p ≤ l.length) :
    ((replaceWithSeq l p seq).drop p).take seq.length = seq := by
  rw [replaceWithSeq, List.append_assoc, List.drop_left' (by simp [hp]), List.take_left' rfl]

theorem rws_drop {α : Type} (l seq : List α) {p : Nat} (hp : p ≤ l.length) :
    (replaceWithSeq l p seq).drop (p + seq.length) = l.drop (p + 1) := by
  rw [replaceWithSeq, List.drop_left' (by simp [hp])]

theorem rws_of_parts {α : Type} (J : List α) (p m : Nat) (x : α) (hJ : p + m ≤ J.length) :
    J = replaceWithSeq (J.take p ++ [x] ++ J.drop (p + m)) p ((J.drop p).take m) := by
  have hl : (J.take p).length = p := by simp; omega
  have h1 : (J.take p ++ [x] ++ J.drop (p + m)).take p = J.take p := by
    rw [List.append_assoc, List.take_left' hl]
  have h2 : (J.take p ++ [x] ++ J.drop (p + m)).drop (p + 1) = J.drop (p + m) :=
    List.drop_left' (by simp [hl])
  rw [replaceWithSeq, h1, h2, List.append_assoc, ← List.drop_drop, List.take_append_drop,
    List.take_append_drop]

theorem inBox_rws {shape shp i so : List Nat} {p : Nat} (hi : inBox shape i = true)
    (hso : inBox shp so = true) :
    inBox (replaceWithSeq shape p shp) (replaceWithSeq i p so) = true := by
  have hl := inBox_length hi
  rw [replaceWithSeq, replaceWithSeq, inBox_append (by simp [hl, inBox_length hso]),
    inBox_append (by simp [hl])]
  simp [inBox_take hi p, inBox_drop hi (p + 1), hso]

/-! ## unpacking `splitAddr` -/

theorem splitAddr_unpack {sym : Sym} {ix : Index} (hw : Index.wfB sym ix = true) {subs : List Index}
    {exts : Extents} (hsub : ix.sub = some (subs, exts)) {c : Charge} {o : Nat} {ss : Sector}
    {so : List Nat} (h : splitAddr ix c o = some (ss, so)) :
    ∃ e st d shp r D, alookup exts c = some e ∧ FuseP.startOf e ss = some (st, d)
      ∧ Arr.blockShape? subs ss = some shp ∧ prod shp = d ∧ r < d ∧ o = st + r
      ∧ so = unravel shp r ∧ alookup ix.cm c = some D ∧ st + d ≤ D := by
  unfold splitAddr at h
  rw [hsub] at h
  simp only at h
  cases he : alookup exts c with
  | none => simp [he] at h
  | some e =>
    simp only [he] at h
    cases hso : splitOffset e o with
    | none => simp [hso] at h
    | some sr =>
      obtain ⟨ss', r⟩ := sr
      simp only [hso] at h
      cases hb : Arr.blockShape? subs ss' with
      | none => simp [hb] at h
      | some shp =>
        simp only [hb, Option.some.injEq, Prod.mk.injEq] at h
        obtain ⟨rfl, rfl⟩ := h
        obtain ⟨D, hD, hext⟩ := wfB_extent hw hsub he
        obtain ⟨st, d, hst, hr, hio⟩ := splitOffset_startOf hext.nodup hso
        obtain ⟨_, ⟨shp', hb', hprod⟩, _⟩ := hext.entry ss' d (startOf_mem hst)
        rw [hb] at hb'; injection hb' with hb'; subst hb'
        have hbd := startOf_bound hst
        rw [hext.total] at hbd
        exact ⟨e, st, d, shp, r, D, rfl, hst, hb, hprod, hr, hio, rfl, hD, hbd⟩

/-! ## the two directions -/

section Unfuse
variable [Zero R] [Neg R]

/-- common set-up: the unfused array, its validity and the block-level description -/
theorem unfuse_dense_main (x : Arr R) (axis : Nat) (ix : Index) (subs : List Index)
    (exts : Extents) (hv : x.validB = true) (hf : x.fermi = false)
    (hix : x.indices[axis]? = some ix) (hsub : ix.sub = some (subs, exts))
    (hnex : x.indices.any (fun ix => ix.cm.isEmpty) = false)
    (y : Arr R) (hy : unfuseA x axis = .ok y)
    (hney : y.indices.any (fun ix => ix.cm.isEmpty) = false) :
    ∃ dX dY, Arr.toDenseA x = .ok dX ∧ Arr.toDenseA y = .ok dY ∧ dX.shape = x.shape
      ∧ dY.shape = y.shape ∧ y.indices = replaceWithSeq x.indices axis subs
      -- every position of a stored sector of `x` has an image with the same entry
      ∧ (∀ P, inBox x.shape P = true → ∀ ns i, Arr.locateAll x.indices P = some (ns, i) →
          ns ∈ x.sectors →
          ∃ q ss so, inBox y.shape q = true
            ∧ splitAddr ix (ns.getD axis (0, 0)) (i.getD axis 0) = some (ss, so)
            ∧ Arr.locateAll y.indices q = some (replaceWithSeq ns axis ss, replaceWithSeq i axis so)
            ∧ dY.get q = dX.get P)
      -- every position of `y` holds 0 or is such an image
      ∧ (∀ q, inBox y.shape q = true → ∀ K J, Arr.locateAll y.indices q = some (K, J) →
          dY.get q = 0 ∨
          ∃ P ns i ss so, inBox x.shape P = true ∧ Arr.locateAll x.indices P = some (ns, i)
            ∧ ns ∈ x.sectors
            ∧ splitAddr ix (ns.getD axis (0, 0)) (i.getD axis 0) = some (ss, so)
            ∧ K = replaceWithSeq ns axis ss ∧ J = replaceWithSeq i axis so
            ∧ dY.get q = dX.get P) := by
  have hva := validArr_of_validB hv
  obtain ⟨y', hy', hyi, _, hyf, _, hyp, _, hA, hB⟩ := unfuseU hva hix hsub
  rw [hy] at hy'; injection hy' with hy'; subst hy'
  have hyv : y.validB = true := ValidP.unfuseA_validB x y axis hv hf hy
  obtain ⟨hshx, hndx, hlenx, _, _, hphx⟩ := validB_facts x hv
  obtain ⟨hshy, hndy, _, _, _, _⟩ := validB_facts y hyv
  have hpx : x.phases = [] := hphx hf
  have hpy : y.phases = [] := by rw [hyp]; exact hpx
  have hwix : Index.wfB x.sym ix = true := hva.idx ix (getElem?_mem' hix)
  have hax : axis < x.indices.length := getElem?_lt hix
  obtain ⟨dX, hdX, hsX, hgX⟩ := Arr.toDenseA_get x hnex
  obtain ⟨dY, hdY, hsY, hgY⟩ := Arr.toDenseA_get y hney
  refine ⟨dX, dY, hdX, hdY, hsX, hsY, hyi, ?_, ?_⟩
  · -- forward
    intro P hP ns i hlP hns
    obtain ⟨B, hB0⟩ := Option.isSome_iff_exists.mp (alookup_isSome_iff.mpr hns)
    have hmem : (ns, B) ∈ x.blocks := alookup_eq_some_mem hB0
    have hi : inBox B.shape i = true := hshx.inBox hP hlP hB0
    have hPl : P.length = x.indices.length := by simpa [Arr.shape] using inBox_length hP
    obtain ⟨hnl, hil⟩ := Arr.locateAll_length hlP hPl
    have hbs := hshx.2 ns B hB0
    have hBl : B.shape.length = x.indices.length := Arr.blockShape?_shape_length hbs
    -- the size of the fused charge
    obtain ⟨D0, hD0, hcm⟩ := blockShape?_getElem hbs hix
      (by rw [List.getElem?_eq_getElem (by rw [hnl]; exact hax)] : ns[axis]? = some ns[axis])
    have hnsd : ns.getD axis (0, 0) = ns[axis]'(by rw [hnl]; exact hax) := by
      simp [List.getD_eq_getElem?_getD, List.getElem?_eq_getElem (by rw [hnl]; exact hax : axis < ns.length)]
    have hio : i.getD axis 0 < D0 := by
      have := (inBox_iff.1 hi).2 axis (by rw [hBl]; exact hax)
      rw [List.getD_eq_getElem?_getD (l := B.shape), hD0] at this
      exact this
    obtain ⟨ss, so, hsp⟩ := splitAddr_total hwix (subs := subs) (exts := exts) hsub
      (c := ns.getD axis (0, 0)) (by rw [hnsd]; exact hcm) hio
    obtain ⟨e, st, d, shp, r, D, he, hst, hb, hprod, hr, hor, hso, _, _⟩ :=
      splitAddr_unpack hwix hsub hsp
    obtain ⟨subshape, e1, e2, e3, e4⟩ := hA (ns, B) hmem e ss st d he hst
    rw [hb] at e1; injection e1 with e1; subst e1
    have hsobox : inBox shp so = true := by rw [hso]; exact unravel_inBox (by rw [hprod]; exact hr)
    have hsol : so.length = shp.length := inBox_length hsobox
    have hJ : inBox (replaceWithSeq B.shape axis shp) (replaceWithSeq i axis so) = true :=
      inBox_rws hi hsobox
    have hval := e4 _ hJ
    simp only at hval
    have hale : axis ≤ i.length := by rw [hil]; omega
    rw [rws_take i so hale, ← hsol, rws_mid i so hale, rws_drop i so hale] at hval
    have hrav : ravel shp so = r := by rw [hso]; exact ravel_unravel (by rw [hprod]; exact hr)
    rw [hrav, ← hor, ← split_at i 0 (by rw [hil]; exact hax)] at hval
    -- the position in `y`
    have hV : alookup y.blocks (replaceWithSeq ns axis ss) = some (pieceU B axis st d shp) := e3
    obtain ⟨q, hq, hlq⟩ := locateAll_surj hshy.1 (hshy.2 _ _ hV)
      (show inBox (pieceU B axis st d shp).shape (replaceWithSeq i axis so) = true from hJ)
    have hq' : inBox y.shape q = true := hq
    obtain ⟨sec', off', hl', hvY⟩ := hgY q hq'
    rw [hlq] at hl'
    simp only [Option.some.injEq, Prod.mk.injEq] at hl'
    obtain ⟨rfl, rfl⟩ := hl'
    obtain ⟨sec'', off'', hl'', hvX⟩ := hgX P hP
    rw [hlP] at hl''
    simp only [Option.some.injEq, Prod.mk.injEq] at hl''
    obtain ⟨rfl, rfl⟩ := hl''
    refine ⟨q, ss, so, hq', hsp, hlq, ?_⟩
    rw [hvY, hvX, Arr.elem_abelian y hpy, Arr.elem_abelian x hpx, hV, hB0]
    exact hval
  · -- backward
    intro q hq K J hlq
    obtain ⟨sec', off', hl', hvY⟩ := hgY q hq
    rw [hlq] at hl'
    simp only [Option.some.injEq, Prod.mk.injEq] at hl'
    obtain ⟨rfl, rfl⟩ := hl'
    rw [hvY, Arr.elem_abelian y hpy]
    cases hV : alookup y.blocks K with
    | none => exact Or.inl rfl
    | some V =>
      right
      obtain ⟨nsB, hmem, e, ss, st, d, he, hst, hK, _⟩ := hB K V hV
      obtain ⟨ns, B⟩ := nsB
      simp only at he hK
      obtain ⟨shp, e1, e2, e3, e4⟩ := hA (ns, B) hmem e ss st d he hst
      simp only at e3 e4
      rw [← hK, hV] at e3
      injection e3 with e3
      subst e3
      have hJ0 : inBox (pieceU B axis st d shp).shape J = true := hshy.inBox hq hlq hV
      have hJ : inBox (replaceWithSeq B.shape axis shp) J = true := hJ0
      have hval := e4 J hJ
      have hB0 : alookup x.blocks ns = some B := alookup_of_mem_nodup hndx hmem
      have hbs := hshx.2 ns B hB0
      have hBl : B.shape.length = x.indices.length := Arr.blockShape?_shape_length hbs
      have hnl : ns.length = x.indices.length := by
        have := hlenx ns (List.mem_map.mpr ⟨(ns, B), hmem, rfl⟩)
        simpa [Arr.ndim] using this
      have hJl : J.length = axis + shp.length + (B.shape.length - (axis + 1)) := by
        rw [inBox_length hJ, replaceWithSeq]
        simp only [List.length_append, List.length_take, List.length_drop]
        omega
      -- the middle segment lies in the sub-box
      have hJsplit : J = J.take axis ++ (J.drop axis).take shp.length ++ J.drop (axis + shp.length) := by
        rw [List.append_assoc, ← List.drop_drop, List.take_append_drop, List.take_append_drop]
      have htl : (J.take axis).length = (B.shape.take axis).length := by
        simp only [List.length_take]; omega
      have hsl : ((J.drop axis).take shp.length).length = shp.length := by
        simp only [List.length_take, List.length_drop]; omega
      have hJ' := hJ
      rw [hJsplit, replaceWithSeq, inBox_append (by rw [List.length_append, htl, hsl, List.length_append]),
        inBox_append htl] at hJ'
      simp only [Bool.and_eq_true] at hJ'
      obtain ⟨⟨hJa, hseg⟩, hJc⟩ := hJ'
      have hr := ravel_lt hseg
      rw [e2] at hr
      -- the size of the fused charge
      obtain ⟨D0, hD0, hcm⟩ := blockShape?_getElem hbs hix
        (by rw [List.getElem?_eq_getElem (by rw [hnl]; exact hax)] : ns[axis]? = some ns[axis])
      have hnsd : ns.getD axis (0, 0) = ns[axis]'(by rw [hnl]; exact hax) := by
        simp [List.getD_eq_getElem?_getD, List.getElem?_eq_getElem (by rw [hnl]; exact hax : axis < ns.length)]
      obtain ⟨D, hD, hext⟩ := wfB_extent hwix hsub he
      rw [hnsd, hcm] at hD
      injection hD with hD
      subst hD
      have hbd := startOf_bound hst
      rw [hext.total] at hbd
      let o := st + ravel shp ((J.drop axis).take shp.length)
      let i := J.take axis ++ [o] ++ J.drop (axis + shp.length)
      have hibox : inBox B.shape i = true := by
        have hBsplit := split_at B.shape 0 (by rw [hBl]; exact hax : axis < B.shape.length)
        rw [hBsplit, inBox_append (by simp; omega), inBox_append htl]
        simp only [Bool.and_eq_true]
        refine ⟨⟨hJa, ?_⟩, hJc⟩
        rw [List.getD_eq_getElem?_getD, hD0]
        simp only [Option.getD_some, inBox, decide_eq_true_eq, Bool.and_true]
        show o < D0
        omega
      have hja : joinAddr ix (ns.getD axis (0, 0)) ss ((J.drop axis).take shp.length) = some o := by
        simp only [joinAddr, hsub, he, e1, hseg, if_true, joinOffset, hst, hr]
        rfl
      have hsp := splitAddr_joinAddr hja
      have hitl : (J.take axis).length = axis := by simp only [List.length_take]; omega
      have hio : i.getD axis 0 = o := by
        simp only [i]
        rw [List.append_assoc, List.getD_eq_getElem?_getD,
          List.getElem?_append_right (Nat.le_of_eq hitl), hitl]
        simp
      obtain ⟨P, hP, hlP⟩ := locateAll_surj hshx.1 hbs hibox
      have hP' : inBox x.shape P = true := hP
      obtain ⟨sec'', off'', hl'', hvX⟩ := hgX P hP'
      rw [hlP] at hl''
      simp only [Option.some.injEq, Prod.mk.injEq] at hl''
      obtain ⟨rfl, rfl⟩ := hl''
      refine ⟨P, ns, i, ss, (J.drop axis).take shp.length, hP', hlP,
        List.mem_map.mpr ⟨(ns, B), hmem, rfl⟩, by rw [hio]; exact hsp, hK, ?_, ?_⟩
      · have := rws_of_parts J axis shp.length o (by omega)
        exact this
      · rw [hvX, Arr.elem_abelian x hpx, hB0]
        exact hval

end Unfuse

end Dense4
end SymmModel
