/-
  SymmModel.Proofs.FuseCommuteF3 — C06, first clause, fermionic: **the fermionic fuse signs are
  contraction-compatible**.  For contracted groups of adjacent legs in order (`AdjOk`):
    gradedSign A B xa xb sa sb  =  bondSign · fuseSignT A [xa] sa · fuseSignT B [xb] sb
  where `bondSign` — the graded sign of the contraction over the SINGLE fused pair — depends only
  on the free charges and on the parity of the number of odd contracted charges
  (`gradedSign_fusedpair`).  Namespace `SymmModel.TdotP`.
-/
import SymmModel.Proofs.FuseCommuteF2
import SymmModel.Proofs.Routes3

namespace SymmModel
namespace TdotP
open SymmModel.KoszulP SymmModel.Lazy SymmModel.GradedP SymmModel.RoutesP
variable {R : Type}
set_option linter.unusedSectionVars false

/-- the graded sign of a contraction over one pair of legs at positions `pA`, `pB`, as a function
    of the free charges `Ls`, `Rs`, of `m` (only its parity matters: the parity of the contracted
    charge) and of the direction of the left leg -/
def bondSign (sym : Sym) (dualA : Bool) (pA pB : Nat) (Ls Rs : Sector) (m : Nat) : Int :=
  sgn (m * oddIn sym (Ls.drop pA)) * sgn (oddIn sym (Rs.take pB) * m) * (if dualA then 1 else sgn m)

theorem sgn_mul_congr_left {m m' : Nat} (h : m % 2 = m' % 2) (o : Nat) : sgn (m * o) = sgn (m' * o) := by
  apply sgn_congr
  rw [Nat.mul_mod, h, ← Nat.mul_mod]

theorem sgn_mul_congr_right {m m' : Nat} (h : m % 2 = m' % 2) (o : Nat) : sgn (o * m) = sgn (o * m') := by
  rw [Nat.mul_comm o m, Nat.mul_comm o m']; exact sgn_mul_congr_left h o

theorem bondSign_congr (sym : Sym) (dualA : Bool) (pA pB : Nat) (Ls Rs : Sector) {m m' : Nat}
    (h : m % 2 = m' % 2) : bondSign sym dualA pA pB Ls Rs m = bondSign sym dualA pA pB Ls Rs m' := by
  unfold bondSign
  rw [sgn_mul_congr_left h, sgn_mul_congr_right h, sgn_congr h]

theorem bondSign_pm (sym : Sym) (dualA : Bool) (pA pB : Nat) (Ls Rs : Sector) (m : Nat) :
    bondSign sym dualA pA pB Ls Rs m = 1 ∨ bondSign sym dualA pA pB Ls Rs m = -1 := by
  unfold bondSign
  refine mul_pm (mul_pm (sgn_cases _) (sgn_cases _)) ?_
  split
  · exact Or.inl rfl
  · exact sgn_cases _

theorem oddCount_arr (X : Arr R) (s : Sector) (L : List Nat) (hL : ∀ i ∈ L, i < s.length) :
    oddCount (X.parities s) L = oddIn X.sym (permuted s L) :=
  oddCount_parities X.sym s L hL

theorem oddContracted_eq (X : Arr R) (xa : List Nat) (s : Sector) :
    oddContracted X xa s = oddIn X.sym (permuted s xa) := rfl

theorem oddContracted_single (X : Arr R) (x : Nat) (s : Sector) :
    oddContracted X [x] s * (oddContracted X [x] s - 1) / 2 = 0 := by
  have h1 : oddContracted X [x] s ≤ 1 := by
    unfold oddContracted
    calc ((permuted s [x]).filter X.sym.parity).length ≤ (permuted s [x]).length :=
          List.length_filter_le _ _
      _ ≤ [x].length := permuted_length_le _ _
      _ = 1 := rfl
  have : oddContracted X [x] s = 0 ∨ oddContracted X [x] s = 1 := by omega
  rcases this with h | h <;> rw [h]

theorem filter_split (l : List Nat) (p q : Nat → Bool) :
    ((l.filter (fun x => !p x)).filter q).length + ((l.filter p).filter q).length = (l.filter q).length := by
  induction l with
  | nil => rfl
  | cons a l ih =>
    cases hp : p a <;> cases hq : q a <;>
      simp only [List.filter_cons, hp, hq, Bool.not_false, Bool.not_true, if_true, if_false,
        Bool.false_eq_true, List.length_cons] <;> omega

/-! ### the two graded signs -/

/-- contracted groups of adjacent legs in order -/
theorem gradedSign_adj (A B : Arr R) {xa xb : List Nat} (hA : AdjOk A xa) (hB : AdjOk B xb)
    (sa sb : Sector) :
    gradedSign A B xa xb sa sb
      = sgn (oddCount (A.parities sa) xa * oddCount (A.parities sa) (FuseP.giM A [xa]).axesAfter)
        * sgn (oddCount (B.parities sb) (List.range (FuseP.giM B [xb]).position) * oddCount (B.parities sb) xb)
        * sgn (oddContracted A xa sa * (oddContracted A xa sa - 1) / 2) * sgn (ketOdd A xa sa) := by
  unfold gradedSign
  rw [koszul_left_one hA.one, koszul_right_one hB.one, hA.idp, hB.idp, koszul_id', koszul_id',
    Int.one_mul, Int.one_mul, ← sgn_eq_pow, ← sgn_eq_pow]

/-- a single contracted pair of legs -/
theorem gradedSign_single (AF BF : Arr R) (pA mA pB mB : Nat) (hnA : AF.ndim = pA + 1 + mA)
    (hnB : BF.ndim = pB + 1 + mB) (sa' sb' : Sector) :
    gradedSign AF BF [pA] [pB] sa' sb'
      = sgn (oddCount (AF.parities sa') [pA]
          * oddCount (AF.parities sa') ((List.range mA).map (fun j => pA + 1 + j)))
        * sgn (oddCount (BF.parities sb') (List.range pB) * oddCount (BF.parities sb') [pB])
        * sgn (ketOdd AF [pA] sa') := by
  unfold gradedSign
  rw [hnA, hnB, koszul_left_single, koszul_right_single, oddContracted_single, ← sgn_eq_pow]
  rw [show sgn 0 = 1 from rfl, Int.mul_one, ← sgn_eq_pow]

/-! ### the fused pair -/

/-- **the graded sign of the contraction over the single fused pair** depends only on the free
    charges, the direction of the fused leg and the parity of the fused charge -/
theorem gradedSign_fusedpair (AF BF : Arr R) (pA mA pB mB : Nat) (hnA : AF.ndim = pA + 1 + mA)
    (hnB : BF.ndim = pB + 1 + mB) (hsym : AF.sym = BF.sym) (sa' sb' : Sector)
    (hla : sa'.length = AF.ndim) (hlb : sb'.length = BF.ndim)
    (hK : permuted sb' [pB] = permuted sa' [pA]) (m : Nat)
    (hm : oddIn AF.sym (permuted sa' [pA]) % 2 = m % 2) :
    gradedSign AF BF [pA] [pB] sa' sb'
      = bondSign AF.sym (AF.indices.getD pA default).dual pA pB
          (permuted sa' (freeAxes AF.ndim [pA])) (permuted sb' (freeAxes BF.ndim [pB])) m := by
  rw [gradedSign_single AF BF pA mA pB mB hnA hnB]
  have hA1 : ∀ i ∈ ([pA] : List Nat), i < sa'.length := by
    intro i hi; simp only [List.mem_cons, List.not_mem_nil, or_false] at hi; omega
  have hB1 : ∀ i ∈ ([pB] : List Nat), i < sb'.length := by
    intro i hi; simp only [List.mem_cons, List.not_mem_nil, or_false] at hi; omega
  have hAt : ∀ i ∈ (List.range mA).map (fun j => pA + 1 + j), i < sa'.length := by
    intro i hi
    obtain ⟨j, hj, rfl⟩ := List.mem_map.mp hi
    have := List.mem_range.mp hj; omega
  have hBr : ∀ i ∈ List.range pB, i < sb'.length := by
    intro i hi; have := List.mem_range.mp hi; omega
  have hAr : ∀ i ∈ List.range pA, i < sa'.length := by
    intro i hi; have := List.mem_range.mp hi; omega
  rw [oddCount_arr AF sa' _ hA1, oddCount_arr AF sa' _ hAt, oddCount_arr BF sb' _ hBr,
    oddCount_arr BF sb' _ hB1, hK, ← hsym]
  -- the free parts
  have eL : (permuted sa' (freeAxes AF.ndim [pA])).drop pA
      = permuted sa' ((List.range mA).map (fun j => pA + 1 + j)) := by
    rw [hnA, freeAxes_succ_mid, ValidP.permuted_append]
    exact List.drop_left' (by rw [permuted_length _ _ hAr, List.length_range])
  have eR : (permuted sb' (freeAxes BF.ndim [pB])).take pB = permuted sb' (List.range pB) := by
    rw [hnB, freeAxes_succ_mid, ValidP.permuted_append]
    exact List.take_left' (by rw [permuted_length _ _ hBr, List.length_range])
  unfold bondSign
  rw [eL, eR, sgn_mul_congr_left hm, sgn_mul_congr_right hm]
  congr 1
  -- the ket sign of the single leg
  have hc : oddIn AF.sym (permuted sa' [pA]) = if AF.sym.parity (sa'.getD pA (0, 0)) then 1 else 0 := by
    rw [permuted_eq_map _ _ hA1 ((0, 0) : Charge)]
    unfold oddIn
    simp only [List.map_cons, List.map_nil, List.filter_cons, List.filter_nil]
    split <;> rfl
  unfold ketOdd
  cases hd : (AF.indices.getD pA default).dual
  · rw [← sgn_congr hm, hc]
    cases hp : AF.sym.parity (sa'.getD pA (0, 0)) <;>
      simp only [List.filter_cons, List.filter_nil, hd, hp, Bool.not_false, if_true, if_false,
        Bool.false_eq_true, List.length_cons, List.length_nil]
  · simp only [List.filter_cons, List.filter_nil, hd, Bool.not_true, if_true, if_false,
      Bool.false_eq_true, List.length_nil]
    rfl

/-! ### kets of the two operands -/

/-- the odd contracted legs are kets on exactly one of the two operands -/
theorem ketOdd_add (A B : Arr R) (xa xb : List Nat) (sa sb : Sector) (hsym : A.sym = B.sym)
    (hlen : xa.length = xb.length)
    (hlA : ∀ i ∈ xa, i < sa.length) (hlB : ∀ i ∈ xb, i < sb.length)
    (hK : permuted sb xb = permuted sa xa)
    (hdual : (xb.map (fun ax => B.indices.getD ax default)).map Index.dual
      = (xa.map (fun ax => A.indices.getD ax default)).map (fun ix => !ix.dual)) :
    ketOdd A xa sa + ketOdd B xb sb = oddContracted A xa sa := by
  have hj : ∀ j, j < xa.length →
      (B.indices.getD (xb.getD j 0) default).dual = !(A.indices.getD (xa.getD j 0) default).dual
      ∧ B.sym.parity (sb.getD (xb.getD j 0) (0, 0)) = A.sym.parity (sa.getD (xa.getD j 0) (0, 0)) := by
    intro j hj
    have hjb : j < xb.length := by omega
    constructor
    · have h1 := List.getElem_of_eq hdual (i := j) (by simp; omega)
      simp only [List.getElem_map] at h1
      have ea : xa.getD j 0 = xa[j] := by
        rw [List.getD_eq_getElem?_getD, List.getElem?_eq_getElem hj]; rfl
      have eb : xb.getD j 0 = xb[j] := by
        rw [List.getD_eq_getElem?_getD, List.getElem?_eq_getElem hjb]; rfl
      rw [ea, eb]; exact h1
    · have := congrArg (fun l => l.getD j ((0, 0) : Charge)) hK
      rw [getD_permuted_ax sb xb hlB j hjb, getD_permuted_ax sa xa hlA j hj] at this
      rw [this, hsym]
  -- count through the common enumeration `j < k`
  have e1 : ketOdd B xb sb
      = ((xa.filter (fun ax => (A.indices.getD ax default).dual)).filter
          (fun ax => A.sym.parity (sa.getD ax (0, 0)))).length := by
    unfold ketOdd
    conv_lhs => rw [list_eq_map_getD xb]
    conv_rhs => rw [list_eq_map_getD xa]
    rw [← hlen]
    apply count_two_maps
    intro j hj'
    obtain ⟨h1, h2⟩ := hj j hj'
    exact ⟨by simp only [h1, Bool.not_not], h2⟩
  rw [e1, oddContracted_eq, permuted_eq_map _ _ hlA ((0, 0) : Charge)]
  have e3 : oddIn A.sym (xa.map fun x => sa.getD x (0, 0))
      = (xa.filter (fun ax => A.sym.parity (sa.getD ax (0, 0)))).length := by
    unfold oddIn; rw [List.filter_map, List.length_map]; rfl
  rw [e3]
  exact filter_split xa (fun ax => (A.indices.getD ax default).dual)
    (fun ax => A.sym.parity (sa.getD ax (0, 0)))

/-! ### the sign identity -/

/-- **the fermionic fuse signs are contraction-compatible** (contracted groups of adjacent legs in
    order).  `sa`, `sb` a pair of sectors with equal contracted charges; the graded sign of the
    contraction over the original pairs is the graded sign over the single fused pair (`bondSign`,
    for the free charges of `sa`, `sb`) times the two fermionic fuse signs. -/
theorem fuse_signs_compatible [Zero R] [Neg R] (A B : Arr R) {xa xb : List Nat} (hA : AdjOk A xa) (hB : AdjOk B xb)
    (hsym : A.sym = B.sym) (hlen : xa.length = xb.length)
    (hdual : (xb.map (fun ax => B.indices.getD ax default)).map Index.dual
      = (xa.map (fun ax => A.indices.getD ax default)).map (fun ix => !ix.dual))
    (sa sb : Sector) (hla : sa.length = A.ndim) (hlb : sb.length = B.ndim)
    (hK : permuted sb xb = permuted sa xa) :
    gradedSign A B xa xb sa sb
      = bondSign A.sym (A.indices.getD (xa.headD 0) default).dual (FuseP.giM A [xa]).position
          (FuseP.giM B [xb]).position (permuted sa (freeAxes A.ndim xa)) (permuted sb (freeAxes B.ndim xb))
          (oddContracted A xa sa)
        * FuseP.fuseSignT A [xa] sa * FuseP.fuseSignT B [xb] sb := by
  have hlA : ∀ i ∈ xa, i < sa.length := by intro i hi; rw [hla]; exact hA.one.lt i hi
  have hlB : ∀ i ∈ xb, i < sb.length := by intro i hi; rw [hlb]; exact hB.one.lt i hi
  have hPA := one_pos_lt hA.one
  have hPB := one_pos_lt hB.one
  have hAr : ∀ i ∈ List.range (FuseP.giM A [xa]).position, i < sa.length := by
    intro i hi; have := List.mem_range.mp hi; omega
  have hBr : ∀ i ∈ List.range (FuseP.giM B [xb]).position, i < sb.length := by
    intro i hi; have := List.mem_range.mp hi; omega
  have hAa : ∀ i ∈ (FuseP.giM A [xa]).axesAfter, i < sa.length := by
    intro i hi; rw [hla]; exact FuseP.afterM_lt i hi
  have hkk := ketOdd_add A B xa xb sa sb hsym hlen hlA hlB hK hdual
  -- the head directions
  have hdB : (B.indices.getD (xb.headD 0) default).dual = !(A.indices.getD (xa.headD 0) default).dual := by
    have hxa := hA.one.ne
    have hxb := hB.one.ne
    match xa, xb, hxa, hxb, hdual with
    | i :: _, j :: _, _, _, hdual =>
      simp only [List.map_cons, List.cons.injEq] at hdual
      exact hdual.1
  rw [gradedSign_adj A B hA hB, adj_fuseSignT hA, adj_fuseSignT hB, hdB]
  have eP : ∀ (X : Arr R) (s : Sector), s.map X.sym.parity = X.parities s := fun _ _ => rfl
  rw [eP, eP, oddCount_arr A sa xa hlA, oddCount_arr A sa _ hAa, oddCount_arr B sb _ hBr,
    oddCount_arr B sb xb hlB, hK, ← hsym, ← oddContracted_eq A xa sa]
  have eL : (permuted sa (freeAxes A.ndim xa)).drop (FuseP.giM A [xa]).position
      = permuted sa (FuseP.giM A [xa]).axesAfter := by
    rw [one_free hA.one, ValidP.permuted_append]
    exact List.drop_left' (by rw [permuted_length _ _ hAr, List.length_range])
  have eR : (permuted sb (freeAxes B.ndim xb)).take (FuseP.giM B [xb]).position
      = permuted sb (List.range (FuseP.giM B [xb]).position) := by
    rw [one_free hB.one, ValidP.permuted_append]
    exact List.take_left' (by rw [permuted_length _ _ hBr, List.length_range])
  unfold bondSign
  rw [eL, eR]
  generalize oddContracted A xa sa = m at hkk ⊢
  generalize ketOdd A xa sa = kA at hkk ⊢
  generalize ketOdd B xb sb = kB at hkk ⊢
  generalize sgn (m * oddIn A.sym (permuted sa (FuseP.giM A [xa]).axesAfter)) = u
  generalize sgn (oddIn A.sym (permuted sb (List.range (FuseP.giM B [xb]).position)) * m) = v
  generalize sgn (m * (m - 1) / 2) = t
  cases (A.indices.getD (xa.headD 0) default).dual
  · simp only [Bool.false_eq_true, if_false, Bool.not_false, if_true]
    have hs : sgn m * sgn kB = sgn kA := by
      rw [← hkk, sgn_add, Int.mul_assoc, sgn_mul_self, Int.mul_one]
    rw [← hs]; ring
  · simp only [if_true, Bool.not_true, Bool.false_eq_true, if_false]
    ring

end TdotP
end SymmModel
