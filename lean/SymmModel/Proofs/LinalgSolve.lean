/-
  SymmModel.Proofs.LinalgSolve — `eighA` and `solveA`: control flow in closed form and validity
  of the results (C11 structure part).
-/
import SymmModel.Proofs.LinalgFactors
import SymmModel.Props.C17

namespace SymmModel
namespace LinalgLemmas

variable {R : Type}

theorem throw_bind' {ε α β : Type} (e : ε) (f : α → Except ε β) :
    ((throw e : Except ε α) >>= f) = .error e := rfl

/-! ### `if a.fermi && !a.phases.isEmpty then a.phaseSync else a` -/

def syncIf [Neg R] (a : Arr R) : Arr R := if a.fermi && !a.phases.isEmpty then a.phaseSync else a

theorem syncIf_fields [Neg R] (a : Arr R) :
    (syncIf a).sym = a.sym ∧ (syncIf a).fermi = a.fermi ∧ (syncIf a).indices = a.indices
    ∧ (syncIf a).charge = a.charge ∧ (syncIf a).oddpos = a.oddpos
    ∧ (syncIf a).sectors = a.sectors := by
  unfold syncIf
  split
  · exact ⟨rfl, rfl, rfl, rfl, rfl, phaseSync_sectors a⟩
  · exact ⟨rfl, rfl, rfl, rfl, rfl, rfl⟩

theorem syncIf_valid [Neg R] (a : Arr R) (hv : a.validB = true) : (syncIf a).validB = true := by
  unfold syncIf
  split
  · exact phaseSync_valid a hv
  · exact hv

theorem syncIf_phases [Neg R] (a : Arr R) (hv : a.validB = true) : (syncIf a).phases = [] := by
  have h5 := ((validB_iff a).mp hv).2.2.2.2
  unfold syncIf
  split
  · rfl
  next h =>
    unfold fermiOk at h5
    by_cases hf : a.fermi = true
    · simp only [hf, Bool.true_and, Bool.not_eq_true', Bool.not_eq_false] at h
      exact List.isEmpty_iff.mp h
    · rw [if_neg hf] at h5
      simp only [Bool.and_eq_true] at h5
      exact List.isEmpty_iff.mp h5.1

theorem syncIf_mem [Neg R] {a : Arr R} {s : Sector} {b' : Blk R} (h : (s, b') ∈ (syncIf a).blocks) :
    ∃ b, (s, b) ∈ a.blocks ∧ (b' = b ∨ b' = b.negK) := by
  unfold syncIf at h
  split at h
  · exact phaseSync_mem h
  · exact ⟨b', h, Or.inl rfl⟩

theorem syncIf_ndim [Neg R] (a : Arr R) : (syncIf a).ndim = a.ndim := by
  simp [Arr.ndim, (syncIf_fields a).2.2.1]

/-! ### replacing blocks by blocks of the same shape -/

theorem mapBlocks_valid {a : Arr R} (hv : a.validB = true) (f : Sector × Blk R → Blk R)
    (hf : ∀ p ∈ a.blocks, (f p).shape = p.2.shape ∧ (f p).wf = true) :
    ({ a with blocks := a.blocks.map (fun p => (p.1, f p)) } : Arr R).validB = true := by
  obtain ⟨h1, h2, h3, h4, h5⟩ := (validB_iff a).mp hv
  refine (validB_iff _).mpr ⟨h1, h2, ?_, ?_, h5⟩
  · simpa [Arr.sectors, List.map_map, Function.comp_def] using h3
  · intro s b' hm'
    simp only [List.mem_map] at hm'
    obtain ⟨⟨s0, b⟩, hm, e⟩ := hm'
    have e1 := (Prod.mk.inj e).1; have e2 := (Prod.mk.inj e).2
    simp only at e1 e2
    subst e1 e2
    obtain ⟨g1, g2, g3, _⟩ := h4 s0 b hm
    exact ⟨g1, g2, by rw [(hf _ hm).1]; exact g3, (hf _ hm).2⟩

/-! ### eigh -/

def eighCore [Neg R] (K : Kernels R) (a : Arr R) : Except Err (BVec R × Arr R) :=
  if a.ndim != 2 then .error Err.notimpl else
  if a.charge != a.sym.zero then .error Err.value else
  if a.blocks.any (fun (_, b) => b.shape.getD 0 0 != b.shape.getD 1 0) then .error Err.value else
  .ok (⟨
    let evals := adict ((a.blocks.map (fun (s, b) => (s, K.eigh b))).map
      (fun (s, f) => (s.getD 1 (0, 0), f.1)))
    if a.fermi && !(a.indices.getD 1 default).dual then
      evals.map (fun (c, b) => if a.sym.parity c then (c, b.negK) else (c, b))
    else evals⟩,
    { a with blocks := (a.blocks.map (fun (s, b) => (s, K.eigh b))).map (fun (s, f) => (s, f.2)) })

theorem eighA_eq_core [Neg R] (K : Kernels R) (a : Arr R) : eighA K a = eighCore K (syncIf a) := by
  unfold eighA eighCore syncIf
  simp only [throw_bind']
  rfl

/-- what a successful `eighCore` call says -/
theorem eighCore_ok [Neg R] {K : Kernels R} {a : Arr R} {w : BVec R} {v : Arr R}
    (hv : a.validB = true) (h : eighCore K a = .ok (w, v)) :
    a.ndim = 2 ∧ a.charge = a.sym.zero
    ∧ (∀ p ∈ a.blocks, p.2.shape.getD 0 0 = p.2.shape.getD 1 0)
    ∧ v = { a with blocks := a.blocks.map (fun p => (p.1, (K.eigh p.2).2)) }
    ∧ w.blocks = (let ev := a.blocks.map (fun p => (colOf p.1, (K.eigh p.2).1))
        if a.fermi && !(a.indices.getD 1 default).dual then
          ev.map (fun q => if a.sym.parity q.1 then (q.1, q.2.negK) else (q.1, q.2))
        else ev) := by
  unfold eighCore at h
  split at h
  · cases h
  next h2 =>
    split at h
    · cases h
    next hc =>
      split at h
      · cases h
      next hsq =>
        have h2' : a.ndim = 2 := by simpa using h2
        have hc' : a.charge = a.sym.zero := by simpa using hc
        have hsq' : ∀ p ∈ a.blocks, p.2.shape.getD 0 0 = p.2.shape.getD 1 0 := by
          intro p hp
          have := hsq
          simp only [List.any_eq_true, not_exists, not_and, Bool.not_eq_true] at this
          have := this p hp
          simpa using this
        have h' := Except.ok.inj h
        have hw := (Prod.mk.inj h').1
        have hvv := (Prod.mk.inj h').2
        rw [adict_of_nodup _ (colKeys_nodup' hv h2' (fun p => K.eigh p.2) (fun q => q.2.1))] at hw
        refine ⟨h2', hc', hsq', ?_, ?_⟩
        · rw [← hvv]; simp only [List.map_map, Function.comp_def]
        · rw [← hw]; simp only [List.map_map, Function.comp_def, colOf]

/-- `eigh`: structure of a successful result -/
theorem eighA_spec [Neg R] {K : Kernels R} (hK : K.ShapeOk) {a : Arr R} (hv : a.validB = true)
    {w : BVec R} {v : Arr R} (h : eighA K a = .ok (w, v)) :
    a.ndim = 2 ∧ a.charge = a.sym.zero
    ∧ v.validB = true
    ∧ v.sym = a.sym ∧ v.fermi = a.fermi ∧ v.indices = a.indices ∧ v.charge = a.charge
    ∧ v.sectors = a.sectors ∧ v.oddpos = a.oddpos ∧ v.phases = []
    ∧ w.blocks.map (·.1) = a.sectors.map (fun s => s.getD 1 (0, 0))
    ∧ (∀ c wb, (c, wb) ∈ w.blocks →
        ∃ m, alookup (a.indices.getD 1 default).cm c = some m ∧ wb.shape = [m] ∧ wb.wf = true) := by
  rw [eighA_eq_core] at h
  have hv' := syncIf_valid a hv
  obtain ⟨f1, f2, f3, f4, f5, f6⟩ := syncIf_fields a
  obtain ⟨h2, hc, hsq, hvv, hw⟩ := eighCore_ok hv' h
  obtain ⟨i0, i1, hi⟩ := ndim_two h2
  have hi1 : a.indices.getD 1 default = i1 := by rw [← f3, hi]; rfl
  -- every block of the synced array: square of the size its column charge has
  have hblk : ∀ p ∈ (syncIf a).blocks, ∃ m, alookup i1.cm (colOf p.1) = some m
      ∧ p.2.shape = [m, m] ∧ p.2.wf = true := by
    intro p hp
    obtain ⟨s, b⟩ := p
    obtain ⟨r, c, m, n, B⟩ := mat_block hv' hi hp
    have := hsq _ hp
    simp only [B.hshape, List.getD_cons_zero, List.getD_cons_succ] at this
    subst this
    exact ⟨m, by simpa [colOf, B.hs] using B.hc, B.hshape, B.hwf⟩
  have hvalid : v.validB = true := by
    rw [hvv]
    apply mapBlocks_valid hv' (fun p => (K.eigh p.2).2)
    intro p hp
    obtain ⟨m, _, hs, hwf⟩ := hblk p hp
    have := hK.eigh p.2 m hs hwf
    exact ⟨by rw [this.2.2.1, hs], this.2.2.2⟩
  refine ⟨by rw [← syncIf_ndim a]; exact h2, by rw [← f4, ← f1]; exact hc, hvalid,
    by rw [hvv]; exact f1, by rw [hvv]; exact f2, by rw [hvv]; exact f3, by rw [hvv]; exact f4,
    ?_, by rw [hvv]; exact f5, by rw [hvv]; exact syncIf_phases a hv, ?_, ?_⟩
  · rw [hvv, ← f6]; simp [Arr.sectors, List.map_map, Function.comp_def]
  · rw [hw, ← f6]
    simp only
    split
    · simp only [Arr.sectors, List.map_map, Function.comp_def]
      apply List.map_congr_left
      intro p _
      split <;> rfl
    · simp [Arr.sectors, List.map_map, Function.comp_def, colOf]
  · intro c wb hm
    rw [hw] at hm
    simp only at hm
    rw [hi1]
    have key : ∀ p ∈ (syncIf a).blocks, ∃ m, alookup i1.cm (colOf p.1) = some m
        ∧ (K.eigh p.2).1.shape = [m] ∧ (K.eigh p.2).1.wf = true := by
      intro p hp
      obtain ⟨m, hl, hs, hwf⟩ := hblk p hp
      have := hK.eigh p.2 m hs hwf
      exact ⟨m, hl, this.1, this.2.1⟩
    split at hm
    · simp only [List.map_map, Function.comp_def, List.mem_map] at hm
      obtain ⟨p, hp, e⟩ := hm
      obtain ⟨m, hl, hs, hwf⟩ := key p hp
      split at e
      · have e1 := (Prod.mk.inj e).1; have e2 := (Prod.mk.inj e).2
        subst e1 e2
        exact ⟨m, hl, hs, by rw [negK_wf]; exact hwf⟩
      · have e1 := (Prod.mk.inj e).1; have e2 := (Prod.mk.inj e).2
        subst e1 e2
        exact ⟨m, hl, hs, hwf⟩
    · simp only [List.mem_map] at hm
      obtain ⟨p, hp, e⟩ := hm
      obtain ⟨m, hl, hs, hwf⟩ := key p hp
      have e1 := (Prod.mk.inj e).1; have e2 := (Prod.mk.inj e).2
      subst e1 e2
      exact ⟨m, hl, hs, hwf⟩

/-! ### solve -/

def syncB [Neg R] (a b : Arr R) : Arr R := if a.fermi && !b.phases.isEmpty then b.phaseSync else b

def solveBlocks (K : Kernels R) (a b : Arr R) : List (Sector × Blk R) :=
  a.blocks.filterMap (fun (s, arr) =>
    match alookup b.blocks [s.getD 0 (0, 0)] with
    | some bb => some ([s.getD 1 (0, 0)], K.solve arr bb)
    | none => none)

/-- the result of `solve` before the fermionic flip, with the block dictionary already
    simplified -/
def solveX (K : Kernels R) (a b : Arr R) : Arr R :=
  { b with blocks := solveBlocks K a b,
           indices := [(a.indices.getD 1 default).conj],
           charge := a.sym.combine [b.charge, a.sym.sign a.charge true] }

def solveCore [Neg R] (K : Kernels R) (a b : Arr R) : Except Err (Arr R) :=
  if a.ndim != 2 || b.ndim != 1 then .error Err.notimpl else
  if a.blocks.any (fun (s, arr) => (alookup b.blocks [s.getD 0 (0, 0)]).isSome
      && arr.shape.getD 0 0 != arr.shape.getD 1 0) then .error Err.value else
  .ok (
    let x : Arr R := { b with blocks := adict (solveBlocks K a b),
                              indices := [(a.indices.getD 1 default).conj],
                              charge := a.sym.combine [b.charge, a.sym.sign a.charge true] }
    if a.fermi && (a.indices.getD 1 default).conj.dual then x.phaseFlip [0] else x)

theorem solveA_eq_core [Neg R] (K : Kernels R) (a b : Arr R) :
    solveA K a b = solveCore K (syncIf a) (syncB (syncIf a) b) := by
  unfold solveA solveCore syncIf syncB solveBlocks
  simp only [throw_bind']
  rfl

theorem syncB_fields [Neg R] (a b : Arr R) :
    (syncB a b).sym = b.sym ∧ (syncB a b).fermi = b.fermi ∧ (syncB a b).indices = b.indices
    ∧ (syncB a b).charge = b.charge ∧ (syncB a b).oddpos = b.oddpos := by
  unfold syncB
  split <;> exact ⟨rfl, rfl, rfl, rfl, rfl⟩

theorem syncB_valid [Neg R] (a b : Arr R) (hv : b.validB = true) : (syncB a b).validB = true := by
  unfold syncB
  split
  · exact phaseSync_valid b hv
  · exact hv

theorem syncB_phases [Neg R] (a b : Arr R) (hv : b.validB = true) (hf : a.fermi = b.fermi) :
    (syncB a b).phases = [] := by
  have h5 := ((validB_iff b).mp hv).2.2.2.2
  unfold syncB
  split
  · rfl
  next h =>
    unfold fermiOk at h5
    by_cases hb : b.fermi = true
    · rw [hf] at h
      simp only [hb, Bool.true_and, Bool.not_eq_true', Bool.not_eq_false] at h
      exact List.isEmpty_iff.mp h
    · rw [if_neg hb] at h5
      simp only [Bool.and_eq_true] at h5
      exact List.isEmpty_iff.mp h5.1

theorem nodup_filterMap_keys {α β κ : Type} (l : List α) (f : α → Option β) (g : β → κ) (h : α → κ)
    (hnd : (l.map h).Nodup) (hfg : ∀ p q, f p = some q → g q = h p) :
    ((l.filterMap f).map g).Nodup := by
  induction l with
  | nil => simp
  | cons a l ih =>
    rw [List.map_cons, List.nodup_cons] at hnd
    rw [List.filterMap_cons]
    cases hfa : f a with
    | none => exact ih hnd.2
    | some q =>
      simp only [List.map_cons, List.nodup_cons]
      refine ⟨?_, ih hnd.2⟩
      intro hm
      obtain ⟨q', hq', e⟩ := List.mem_map.mp hm
      obtain ⟨p', hp', e'⟩ := List.mem_filterMap.mp hq'
      apply hnd.1
      rw [← hfg a q hfa, ← e, hfg p' q' e']
      exact List.mem_map.mpr ⟨p', hp', rfl⟩

theorem solveBlocks_mem {K : Kernels R} {a b : Arr R} {s' : Sector} {xb : Blk R}
    (h : (s', xb) ∈ solveBlocks K a b) :
    ∃ s arr bb, (s, arr) ∈ a.blocks ∧ alookup b.blocks [s.getD 0 (0, 0)] = some bb
      ∧ s' = [s.getD 1 (0, 0)] ∧ xb = K.solve arr bb := by
  unfold solveBlocks at h
  obtain ⟨⟨s, arr⟩, hm, e⟩ := List.mem_filterMap.mp h
  simp only at e
  split at e
  next bb hbb =>
    have e' := Option.some.inj e
    exact ⟨s, arr, bb, hm, hbb, (Prod.mk.inj e').1.symm, (Prod.mk.inj e').2.symm⟩
  next => cases e

theorem solveBlocks_keys_nodup {K : Kernels R} {a b : Arr R} (hv : a.validB = true)
    (h2 : a.ndim = 2) : ((solveBlocks K a b).map (·.1)).Nodup := by
  have hc := colCharges_nodup hv h2
  have h' := nodup_map_of_inj _ (fun c : Charge => [c]) hc (fun a _ b _ e => (List.cons.inj e).1)
  unfold solveBlocks
  apply nodup_filterMap_keys a.blocks _ (fun q : Sector × Blk R => q.1) (fun p => [p.1.getD 1 (0, 0)])
  · simpa [Arr.sectors, List.map_map, Function.comp_def] using h'
  · intro p q hpq
    obtain ⟨s, arr⟩ := p
    simp only at hpq
    split at hpq
    · have := Option.some.inj hpq
      rw [← this]
    · cases hpq

/-- charge arithmetic of `solve`: `c_x = c_b − c_A` is what the column charge needs -/
theorem solve_charge (s : Sym) (d0 d1 : Bool) (r c : Charge)
    (hr : s.valid r = true) (hc : s.valid c = true) :
    s.combine [s.sign c (!d1)]
      = s.combine [s.combine [s.sign r d0],
          s.sign (s.combine [s.sign r d0, s.sign c d1]) true] := by
  obtain ⟨r1, r2⟩ := r; obtain ⟨c1, c2⟩ := c
  cases s <;> cases d0 <;> cases d1 <;> sym_arith

/-- validity of `solveX` (the result before the fermionic flip) -/
theorem solveX_valid {K : Kernels R} (hK : K.ShapeOk) {a b : Arr R}
    (hva : a.validB = true) (hvb : b.validB = true) (h2 : a.ndim = 2) (h1 : b.ndim = 1)
    (hsym : a.sym = b.sym) (hfer : a.fermi = b.fermi)
    (hdir : (b.indices.getD 0 default).dual = (a.indices.getD 0 default).dual)
    (heven : a.fermi = true → a.parity = false) (hph : b.phases = []) :
    (solveX K a b).validB = true := by
  obtain ⟨i0, i1, hi⟩ := ndim_two h2
  obtain ⟨j, hj⟩ := length_one (show b.indices.length = 1 from h1)
  obtain ⟨_, _, _, hbb, hbf⟩ := (validB_iff b).mp hvb
  have hi1 : a.indices.getD 1 default = i1 := by rw [hi]; rfl
  have hdir' : j.dual = i0.dual := by simpa [hi, hj] using hdir
  have hI : (solveX K a b).indices = [i1.conj] := by simp [solveX, hi]
  have hS : (solveX K a b).sym = a.sym := hsym.symm
  refine (validB_iff _).mpr ⟨?_, ?_, ?_, ?_, ?_⟩
  · rw [hI, hS, wfListB_single]
    exact conj_wfB _ _ (indices_wf hva hi).2
  · rw [hS]; exact Sym.combine_valid _ _
  · exact solveBlocks_keys_nodup hva h2
  · intro s' xb hm
    obtain ⟨s, arr, bb, hsa, hlk, rfl, rfl⟩ := solveBlocks_mem hm
    obtain ⟨r, c, m, n, B⟩ := mat_block hva hi hsa
    have hrow : s.getD 0 (0, 0) = r := by simp [B.hs]
    have hcol : s.getD 1 (0, 0) = c := by simp [B.hs]
    rw [hrow] at hlk
    rw [hcol]
    have hbmem := alookup_some_mem hlk
    obtain ⟨_, gb, _, _⟩ := hbb [r] bb hbmem
    have hbch : a.sym.combine [a.sym.sign r i0.dual] = b.charge := by
      simpa [Arr.isValidSector, Arr.sectorCharge, Arr.duals, hj, hdir', hsym] using gb
    have hsol := hK.solve arr bb m n B.hshape B.hwf
    refine ⟨by simp [Arr.ndim, hI], ?_, ?_, hsol.2⟩
    · simp only [Arr.isValidSector, Arr.sectorCharge, Arr.duals, hI, hS, List.map_cons, List.map_nil,
        List.zipWith_cons_cons, List.zipWith_nil_left, beq_iff_eq, conj_dual]
      show _ = a.sym.combine [b.charge, a.sym.sign a.charge true]
      rw [← hbch, ← B.hcharge]
      exact solve_charge a.sym i0.dual i1.dual r c B.vr B.vc
    · rw [hI, hsol.1]
      exact (blockShape?_single _ c _).mpr ⟨n, by rw [conj_cm]; exact B.hc, rfl⟩
  · unfold fermiOk at hbf ⊢
    have hF : (solveX K a b).fermi = b.fermi := rfl
    have hP : (solveX K a b).phases = [] := hph
    have hO : (solveX K a b).oddpos = b.oddpos := rfl
    rw [hF, hP, hO]
    by_cases hb : b.fermi = true
    · rw [if_pos hb] at hbf ⊢
      simp only [Bool.and_eq_true] at hbf
      simp only [List.map_nil, allDistinct, List.all_nil, Bool.true_and]
      have hpar : (solveX K a b).parity = b.parity := by
        show b.sym.parity (a.sym.combine [b.charge, a.sym.sign a.charge true]) = b.sym.parity b.charge
        rw [← hsym, C17.parity_combine_pair, C17.parity_sign]
        have := heven (hfer.trans hb)
        simp only [Arr.parity] at this
        rw [this, Bool.xor_false]
      rw [hpar]; exact hbf.2
    · rw [if_neg hb] at hbf ⊢
      simp only [Bool.and_eq_true] at hbf
      simp only [List.isEmpty_nil, Bool.true_and]
      exact hbf.2

/-- `solve`: structure of a successful result.  `a` valid matrix, `b` valid vector over the same
    symmetry and kind whose index has the direction of `a`'s row index; for fermionic arrays `a`
    must be even. -/
theorem solveA_spec [Neg R] {K : Kernels R} (hK : K.ShapeOk) {a b : Arr R}
    (hva : a.validB = true) (hvb : b.validB = true)
    (hsym : a.sym = b.sym) (hfer : a.fermi = b.fermi)
    (hdir : (b.indices.getD 0 default).dual = (a.indices.getD 0 default).dual)
    (heven : a.fermi = true → a.parity = false)
    {x : Arr R} (h : solveA K a b = .ok x) :
    a.ndim = 2 ∧ b.ndim = 1 ∧ x.validB = true
    ∧ x.charge = a.sym.combine [b.charge, a.sym.sign a.charge true]
    ∧ x.indices = [(a.indices.getD 1 default).conj]
    ∧ x.sym = b.sym ∧ x.fermi = b.fermi ∧ x.oddpos = b.oddpos := by
  rw [solveA_eq_core] at h
  obtain ⟨f1, f2, f3, f4, f5, f6⟩ := syncIf_fields a
  obtain ⟨g1, g2, g3, g4, g5⟩ := syncB_fields (syncIf a) b
  have hva' := syncIf_valid a hva
  have hvb' := syncB_valid (syncIf a) b hvb
  unfold solveCore at h
  split at h
  · cases h
  next hnd =>
    split at h
    · cases h
    next =>
      simp only [Bool.or_eq_true, bne_iff_ne, ne_eq, not_or, Decidable.not_not] at hnd
      obtain ⟨h2, h1⟩ := hnd
      have h' := Except.ok.inj h
      rw [adict_of_nodup _ (solveBlocks_keys_nodup hva' h2)] at h'
      have hX := solveX_valid hK hva' hvb' h2 h1 (by rw [f1, g1]; exact hsym)
        (by rw [f2, g2]; exact hfer) (by rw [f3, g3]; exact hdir)
        (by intro hf; rw [f2] at hf; simpa [Arr.parity, f1, f4] using heven hf)
        (syncB_phases _ b hvb (by rw [f2]; exact hfer))
      change (if ((syncIf a).fermi && ((syncIf a).indices.getD 1 default).conj.dual) = true
          then (solveX K (syncIf a) (syncB (syncIf a) b)).phaseFlip [0]
          else solveX K (syncIf a) (syncB (syncIf a) b)) = x at h'
      obtain ⟨p1, p2, p3, p4, p5, p6⟩ := phaseFlip_fields (solveX K (syncIf a) (syncB (syncIf a) b)) [0]
      have hflds : x.charge = a.sym.combine [b.charge, a.sym.sign a.charge true]
          ∧ x.indices = [(a.indices.getD 1 default).conj]
          ∧ x.sym = b.sym ∧ x.fermi = b.fermi ∧ x.oddpos = b.oddpos := by
        rw [← h']
        split
        · rw [p4, p3, p1, p2, p6]
          simp only [solveX, f1, f3, f4, g1, g2, g4, g5, and_self]
        · simp only [solveX, f1, f3, f4, g1, g2, g4, g5, and_self]
      refine ⟨by rw [← syncIf_ndim a]; exact h2, by simpa [Arr.ndim, g3] using h1, ?_, hflds⟩
      rw [← h']
      split
      next hc =>
        simp only [Bool.and_eq_true] at hc
        exact phaseFlip0_valid hX
          (by show (syncB (syncIf a) b).fermi = true; rw [g2, ← hfer, ← f2]; exact hc.1)
          (syncB_phases _ b hvb (by rw [f2]; exact hfer))
      next => exact hX

end LinalgLemmas
end SymmModel
