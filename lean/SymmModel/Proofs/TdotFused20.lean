/-
  SymmModel.Proofs.TdotFused20 — the kernel call agrees (`KernelOk`) for EVERY non-empty
  contraction of valid operands of any kind with synced signs: vector, scalar and rank-0 results
  included, aligned blocks or not.  Namespace `SymmModel.TdotP`.
-/
import SymmModel.Proofs.TdotFused19

namespace SymmModel
namespace TdotP
variable {R : Type}

/-- **fused = blockwise for every non-empty contraction** (operands of any kind, synced signs) -/
theorem kernelOk_contract [AddCommMonoid R] [Mul R] [Neg R]
    (hz1 : ∀ x : R, 0 * x = 0) (hz2 : ∀ x : R, x * 0 = 0) (X Y : Arr R) (xa xb : List Nat)
    (hvX : ValidP.Valid X) (hvY : ValidP.Valid Y) (hpX : X.phases = []) (hpY : Y.phases = [])
    (hsym : X.sym = Y.sym) (hc : ValidP.contractibleB X Y xa xb = true)
    (hnA : xa.Nodup) (hnB : xb.Nodup) (hA : ∀ x ∈ xa, x < X.ndim) (hB : ∀ x ∈ xb, x < Y.ndim)
    (hneK : xa ≠ []) : KernelOk X Y xa xb :=
  kernelOk_of_abOk X Y xa xb (fun hbl =>
    abOk_contract hz1 hz2 (ab X) (ab Y) xa xb (ab_validB hvX hpX) (ab_validB hvY hpY) rfl rfl hsym hc
      hnA hnB hA hB hneK hbl)

end TdotP
end SymmModel
