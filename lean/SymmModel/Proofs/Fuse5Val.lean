/-
  SymmModel.Proofs.Fuse5Val — the value view of `unfuse` / `unfuseF` as an explicit FUNCTION of the
  value view of the input (`unfVal`): the value of the result at `(K, J)` is read off the input at
  the address with the segment of `K` / `J` at the unfused axis joined back, times the step's sign.
-/
import SymmModel.Proofs.Fuse4Round6
namespace SymmModel
namespace FuseP
set_option linter.unusedSectionVars false
open SymmModel.Lazy

variable {R : Type}

/-- value view of an unfuse step at axis `p` from the value view `v` of its input -/
def unfVal [Zero R] [Neg R] (sym : Sym) (ix : Index) (subs : List Index) (exts : Extents) (p : Nat)
    (sgn : Sector → Int) (v : Sector → List Nat → R) (K : Sector) (J : List Nat) : R :=
  match alookup exts (sym.combine (List.zipWith (fun c' (sub : Index) => sym.sign c' (ix.dual != sub.dual))
      ((K.drop p).take subs.length) subs)) with
  | none => 0
  | some e => match startOf e ((K.drop p).take subs.length) with
    | none => 0
    | some (st, _) => match Arr.blockShape? subs ((K.drop p).take subs.length) with
      | none => 0
      | some sub =>
        sgnI (sgn K)
          (v (K.take p ++ [sym.combine (List.zipWith (fun c' (sub : Index) => sym.sign c' (ix.dual != sub.dual))
                ((K.drop p).take subs.length) subs)] ++ K.drop (p + subs.length))
             (J.take p ++ [st + ravel sub ((J.drop p).take subs.length)] ++ J.drop (p + subs.length)))

/-- a sector with its entry at `p` replaced by a segment, taken apart again -/
theorem replace_decompose {ns ss : Sector} {p : Nat} (hp : p < ns.length) :
    ((replaceWithSeq ns p ss).drop p).take ss.length = ss
    ∧ (replaceWithSeq ns p ss).take p = ns.take p
    ∧ (replaceWithSeq ns p ss).drop (p + ss.length) = ns.drop (p + 1) := by
  have hl : (ns.take p).length = p := by rw [List.length_take]; omega
  have h3 := three_split (ns.take p) ss (ns.drop (p + 1))
  rw [hl] at h3
  exact ⟨h3.2.1, h3.1, h3.2.2⟩

section Cert
variable [Zero R] [Neg R] [LawfulNeg R]

/-- from the certificate of an unfuse step to its value function -/
theorem val_of_cert {a y : Arr R} {p : Nat} {ix : Index} {subs : List Index} {exts : Extents}
    (sgn : Sector → Int) (hva : ValidArr a) (hix : a.indices[p]? = some ix) (hsub : ix.sub = some (subs, exts))
    (hyidx : y.indices = replaceWithSeq a.indices p subs)
    (hA : ∀ ns B, (ns, B) ∈ a.blocks → ∀ e ss st d, alookup exts (ns.getD p (0, 0)) = some e →
          startOf e ss = some (st, d) →
          ∃ subshape, Arr.blockShape? subs ss = some subshape ∧ prod subshape = d
            ∧ ∀ J, inBox (replaceWithSeq B.shape p subshape) J = true →
                y.elem (replaceWithSeq ns p ss) J
                  = sgnI (sgn (replaceWithSeq ns p ss))
                      (a.elem ns (J.take p ++ [st + ravel subshape ((J.drop p).take subshape.length)]
                        ++ J.drop (p + subshape.length))))
    (hB : ∀ K, (∀ ns B e ss st d, (ns, B) ∈ a.blocks → alookup exts (ns.getD p (0, 0)) = some e →
            startOf e ss = some (st, d) → K ≠ replaceWithSeq ns p ss) → ∀ J, y.elem K J = 0)
    {K : Sector} {shpK : List Nat} (hK : Arr.blockShape? y.indices K = some shpK) {J : List Nat}
    (hJ : inBox shpK J = true) :
    y.elem K J = unfVal a.sym ix subs exts p sgn a.elem K J := by
  have hw := hva.idx ix (getElem?_mem' hix)
  have hp : p < a.indices.length := getElem?_lt hix
  -- what a decomposition of `K` looks like
  have hdec : ∀ ns B e ss st d, (ns, B) ∈ a.blocks → alookup exts (ns.getD p (0, 0)) = some e →
      startOf e ss = some (st, d) → K = replaceWithSeq ns p ss →
      (K.drop p).take subs.length = ss
      ∧ a.sym.combine (List.zipWith (fun c' (sub : Index) => a.sym.sign c' (ix.dual != sub.dual))
          ((K.drop p).take subs.length) subs) = ns.getD p (0, 0)
      ∧ ns = K.take p ++ [ns.getD p (0, 0)] ++ K.drop (p + subs.length) := by
    intro ns B e ss st d hm he hst hKe
    obtain ⟨hpn, _, _, e', he', hext⟩ := block_at_axis hva hix hsub hm
    rw [he] at he'; simp only [Option.some.injEq] at he'; subst he'
    obtain ⟨hsl, _, hc⟩ := hext.entry ss d (startOf_mem hst)
    obtain ⟨d1, d2, d3⟩ := replace_decompose (ns := ns) (ss := ss) hpn
    rw [← hKe, hsl] at d1 d3
    rw [← hKe] at d2
    refine ⟨d1, by rw [d1]; exact hc, ?_⟩
    rw [d2, d3]
    exact list_split_at ns p (0, 0) hpn
  unfold unfVal
  cases he : alookup exts (a.sym.combine (List.zipWith (fun c' (sub : Index) =>
      a.sym.sign c' (ix.dual != sub.dual)) ((K.drop p).take subs.length) subs)) with
  | none =>
    simp only
    apply hB
    intro ns B e ss st d hm he' hst hKe
    obtain ⟨_, h2, _⟩ := hdec ns B e ss st d hm he' hst hKe
    rw [h2, he'] at he; cases he
  | some e =>
    simp only
    cases hst : startOf e ((K.drop p).take subs.length) with
    | none =>
      simp only
      apply hB
      intro ns B e' ss st d hm he' hst' hKe
      obtain ⟨h1, h2, _⟩ := hdec ns B e' ss st d hm he' hst' hKe
      rw [h2, he'] at he; simp only [Option.some.injEq] at he; subst he
      rw [h1, hst'] at hst; cases hst
    | some q =>
      obtain ⟨st, d⟩ := q
      simp only
      obtain ⟨D, _, hext⟩ := wfB_extent hw hsub he
      obtain ⟨hsl, ⟨sub, hbs, hprod⟩, hc⟩ := hext.entry _ d (startOf_mem hst)
      rw [hbs]
      simp only
      -- the collapsed sector
      have hKl : K.length = y.indices.length := (blockShape?_length hK).1.symm
      rw [hyidx] at hKl
      simp only [replaceWithSeq_split, List.length_append, List.length_take, List.length_drop] at hKl
      have hKsplit := list_split3 K p subs.length
      cases hb : alookup a.blocks (K.take p ++ [a.sym.combine (List.zipWith (fun c' (sub : Index) =>
          a.sym.sign c' (ix.dual != sub.dual)) ((K.drop p).take subs.length) subs)] ++ K.drop (p + subs.length)) with
      | none =>
        rw [elem_eq (a := a), hb]
        simp only
        rw [sgnI_zero]
        apply hB
        intro ns B e' ss st' d' hm he' hst' hKe
        obtain ⟨_, h2, h3⟩ := hdec ns B e' ss st' d' hm he' hst' hKe
        rw [h2] at hb
        rw [← h3] at hb
        rw [alookup_of_mem_nodup hva.nodup hm] at hb; cases hb
      | some B =>
        have hm := alookup_some_mem hb
        have htl : (K.take p).length = p := by rw [List.length_take]; omega
        have hnsp : (K.take p ++ [a.sym.combine (List.zipWith (fun c' (sub : Index) =>
            a.sym.sign c' (ix.dual != sub.dual)) ((K.drop p).take subs.length) subs)] ++ K.drop (p + subs.length)).getD p (0, 0)
            = a.sym.combine (List.zipWith (fun c' (sub : Index) =>
                a.sym.sign c' (ix.dual != sub.dual)) ((K.drop p).take subs.length) subs) := by
          have := getD_mid (K.take p) [a.sym.combine (List.zipWith (fun c' (sub : Index) =>
            a.sym.sign c' (ix.dual != sub.dual)) ((K.drop p).take subs.length) subs)] (K.drop (p + subs.length)) 0 (0, 0) (by simp)
          rw [htl] at this
          simpa using this
        have hKrep : K = replaceWithSeq (K.take p ++ [a.sym.combine (List.zipWith (fun c' (sub : Index) =>
            a.sym.sign c' (ix.dual != sub.dual)) ((K.drop p).take subs.length) subs)] ++ K.drop (p + subs.length)) p
            ((K.drop p).take subs.length) := by
          have h3 := three_split (K.take p) [a.sym.combine (List.zipWith (fun c' (sub : Index) =>
            a.sym.sign c' (ix.dual != sub.dual)) ((K.drop p).take subs.length) subs)] (K.drop (p + subs.length))
          rw [htl] at h3
          simp only [List.length_cons, List.length_nil, Nat.zero_add] at h3
          rw [replaceWithSeq_split, h3.1, h3.2.2]
          exact hKsplit
        obtain ⟨subshape, g1, _, g3⟩ := hA _ B hm e _ st d (by rw [hnsp]; exact he) hst
        rw [hbs] at g1; simp only [Option.some.injEq] at g1; subst g1
        have hshape : shpK = replaceWithSeq B.shape p sub := by
          have h1 := ValidP.blockShape?_replace p (hva.blk _ hm).2.1 hbs
          rw [← hKrep, ← hyidx, hK] at h1
          simpa using h1
        have hsubl : sub.length = subs.length := by
          have := blockShape?_length hbs
          rw [this.2, hsl]
        have := g3 J (by rw [← hshape]; exact hJ)
        rw [← hKrep, hsubl] at this
        exact this

end Cert

end FuseP
end SymmModel
