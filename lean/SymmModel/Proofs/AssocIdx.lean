/-
  SymmModel.Proofs.AssocIdx — towards S7 of property C04: the (pruned) index tables of the two
  final results.  Pruning twice is pruning once: both routes return
  `dropUnused (free legs of A ++ free legs of B ++ free legs of C) sectors`.
  Namespace `SymmModel.AssocP`.
-/
import SymmModel.Proofs.AssocRight

namespace SymmModel
namespace AssocP
open TdotP GradedP RoutesP KoszulP
set_option linter.unusedSectionVars false

variable {R : Type}

/-- entries that were pruned before, to charges that include all charges still present, can be
    replaced by the un-pruned entries -/
theorem dropUnused_congr_pruned (V V' : List Index) (S : List Sector) (hlen : V.length = V'.length)
    (h : ∀ (i : Nat) (ix' : Index), V'[i]? = some ix' → V[i]? = some ix' ∨
      ∃ Q, V[i]? = some (dropTo ix' Q)
        ∧ ∀ c ∈ ix'.charges, c ∈ S.filterMap (fun s => s[i]?) → c ∈ Q) :
    dropUnused V S = dropUnused V' S := by
  apply List.ext_getElem?
  intro i
  rw [dropUnused_getElem?, dropUnused_getElem?]
  by_cases hi : i < V'.length
  · rcases h i _ (List.getElem?_eq_getElem hi) with e | ⟨Q, e, hQ⟩
    · rw [e, List.getElem?_eq_getElem hi]
    · rw [e, List.getElem?_eq_getElem hi]
      simp only [Option.map_some]
      rw [dropTo_dropTo _ hQ]
  · rw [List.getElem?_eq_none (by omega), List.getElem?_eq_none (by omega)]

/-- a block of legs taken from a pruned intermediate result -/
theorem dropUnused_mid (X Y U : List Index) (SS S : List Sector) (free : List Nat)
    (hfree : ∀ i ∈ free, i < U.length)
    (hS : ∀ s ∈ S, ∃ ss ∈ SS, ∀ j f, free[j]? = some f → s[X.length + j]? = ss[f]?) :
    dropUnused (X ++ (permuted (dropUnused U SS) free ++ Y)) S
      = dropUnused (X ++ (permuted U free ++ Y)) S := by
  have hfree' : ∀ i ∈ free, i < (dropUnused U SS).length := by rw [dropUnused_length]; exact hfree
  have hl1 : (permuted (dropUnused U SS) free).length = free.length := permuted_length _ _ hfree'
  have hl2 : (permuted U free).length = free.length := permuted_length _ _ hfree
  apply dropUnused_congr_pruned
  · simp only [List.length_append, hl1, hl2]
  · intro i ix' hix'
    by_cases h1 : i < X.length
    · left
      rw [List.getElem?_append_left h1] at hix' ⊢
      exact hix'
    · rw [List.getElem?_append_right (by omega)] at hix' ⊢
      by_cases h2 : i - X.length < free.length
      · right
        rw [List.getElem?_append_left (by rw [hl2]; exact h2), permuted_getElem? _ _ hfree,
          List.getElem?_eq_getElem h2] at hix'
        simp only [Option.bind_some] at hix'
        refine ⟨SS.filterMap (fun s => s[free[i - X.length]]?), ?_, ?_⟩
        · rw [List.getElem?_append_left (by rw [hl1]; exact h2), permuted_getElem? _ _ hfree',
            List.getElem?_eq_getElem h2]
          simp only [Option.bind_some]
          rw [dropUnused_getElem?, hix']
          rfl
        · intro c _ hc
          obtain ⟨s, hs, hsc⟩ := List.mem_filterMap.mp hc
          obtain ⟨ss, hss, hrel⟩ := hS s hs
          have := hrel (i - X.length) _ (List.getElem?_eq_getElem h2)
          rw [show X.length + (i - X.length) = i by omega, hsc] at this
          exact List.mem_filterMap.mpr ⟨ss, hss, this.symm⟩
      · left
        rw [List.getElem?_append_right (by rw [hl2]; omega), hl2] at hix'
        rw [List.getElem?_append_right (by rw [hl1]; omega), hl1]
        exact hix'

/-- `dropUnused` only depends on the SET of sectors -/
theorem dropUnused_congr_mem (V : List Index) {S S' : List Sector} (h : ∀ s, s ∈ S ↔ s ∈ S') :
    dropUnused V S = dropUnused V S' := by
  rw [dropUnused_eq, dropUnused_eq]
  apply List.map_congr_left
  intro p _
  apply dropTo_congr
  intro c _
  simp only [List.mem_filterMap]
  constructor
  · rintro ⟨s, hs, e⟩; exact ⟨s, (h s).mp hs, e⟩
  · rintro ⟨s, hs, e⟩; exact ⟨s, (h s).mpr hs, e⟩

section frames
variable [AddMonoid R] [Mul R] [Neg R]
variable {A B C AB BC : Arr R} {xa xb1 xb2 xc : List Nat} {ph : Int}

/-- index tables of `(A·B)·C` -/
theorem idxL (I : Inter A B xa xb1 AB ph) (h : Mid B.ndim xb1 xb2) (T : Arr R)
    (F : CoreFrame AB C (axesAB A.ndim B.ndim xa xb1 xb2) xc T) :
    T.indices = dropUnused (without A.indices xa
      ++ (permuted B.indices (freeAxes B.ndim (xb1 ++ xb2)) ++ without C.indices xc)) T.sectors := by
  have hsAB := Arr.shapesOk_of_validB I.valid
  have hlA : (without A.indices xa).length = (freeAxes A.ndim xa).length := by
    rw [without_eq_permuted_freeAxes]
    exact permuted_length _ _ (fun x hx => (mem_freeAxes.mp hx).1)
  have hfree : ∀ i ∈ freeAxes AB.ndim (axesAB A.ndim B.ndim xa xb1 xb2),
      i < (without A.indices xa ++ without B.indices xb1).length := by
    intro i hi
    have := (mem_freeAxes.mp hi).1
    have e : AB.ndim = AB.indices.length := rfl
    rw [e, I.indices, dropUnused_length] at this
    exact this
  have e5 : AB.indices.length = AB.ndim := rfl
  rw [F.indices, without_eq_permuted_freeAxes AB.indices, e5, I.indices]
  have := dropUnused_mid [] (without C.indices xc) (without A.indices xa ++ without B.indices xb1)
    AB.sectors T.sectors (freeAxes AB.ndim (axesAB A.ndim B.ndim xa xb1 xb2)) hfree (by
      intro s hs
      rw [F.sectors, List.mem_eraseDups, mem_tdKeys] at hs
      obtain ⟨sab, hsab, sc, _, _, rfl⟩ := hs
      refine ⟨sab, hsab, ?_⟩
      intro j f hjf
      have hlt : ∀ x ∈ freeAxes AB.ndim (axesAB A.ndim B.ndim xa xb1 xb2), x < sab.length := by
        intro x hx; rw [Arr.sector_length hsAB hsab]; exact (mem_freeAxes.mp hx).1
      have hj : j < (freeAxes AB.ndim (axesAB A.ndim B.ndim xa xb1 xb2)).length := by
        by_contra hc; rw [List.getElem?_eq_none (by omega)] at hjf; cases hjf
      rw [List.length_nil, Nat.zero_add,
        List.getElem?_append_left (by rw [permuted_length _ _ hlt]; exact hj),
        permuted_getElem? _ _ hlt, hjf]
      rfl)
  rw [List.nil_append, List.nil_append] at this
  rw [this]
  congr 1
  rw [without_eq_permuted_freeAxes A.indices, without_eq_permuted_freeAxes B.indices, I.ndim]
  have e6 : A.indices.length = A.ndim := rfl
  have e7 : B.indices.length = B.ndim := rfl
  have r := readAB_free (nA := A.ndim) (xa := xa) h (permuted A.indices (freeAxes A.ndim xa)) B.indices
    (permuted_length _ _ (fun x hx => (mem_freeAxes.mp hx).1)) rfl
  rw [e6, e7, r, List.append_assoc]

/-- index tables of `A·(B·C)` -/
theorem idxR (I : Inter B C xb2 xc BC ph) (hsa : A.shapesOk) (h : Mid B.ndim xb1 xb2) (T : Arr R)
    (F : CoreFrame A BC xa (axesBC B.ndim xb1 xb2) T) :
    T.indices = dropUnused (without A.indices xa
      ++ (permuted B.indices (freeAxes B.ndim (xb1 ++ xb2)) ++ without C.indices xc)) T.sectors := by
  have hsBC := Arr.shapesOk_of_validB I.valid
  have hlA : (without A.indices xa).length = (freeAxes A.ndim xa).length := by
    rw [without_eq_permuted_freeAxes]
    exact permuted_length _ _ (fun x hx => (mem_freeAxes.mp hx).1)
  have hfree : ∀ i ∈ freeAxes BC.ndim (axesBC B.ndim xb1 xb2),
      i < (without B.indices xb2 ++ without C.indices xc).length := by
    intro i hi
    have := (mem_freeAxes.mp hi).1
    have e : BC.ndim = BC.indices.length := rfl
    rw [e, I.indices, dropUnused_length] at this
    exact this
  have e5 : BC.indices.length = BC.ndim := rfl
  rw [F.indices, without_eq_permuted_freeAxes BC.indices, e5, I.indices]
  have := dropUnused_mid (without A.indices xa) [] (without B.indices xb2 ++ without C.indices xc)
    BC.sectors T.sectors (freeAxes BC.ndim (axesBC B.ndim xb1 xb2)) hfree (by
      intro s hs
      rw [F.sectors, List.mem_eraseDups, mem_tdKeys] at hs
      obtain ⟨sa, hA, sbc, hsbc, _, rfl⟩ := hs
      refine ⟨sbc, hsbc, ?_⟩
      intro j f hjf
      have hlt : ∀ x ∈ freeAxes BC.ndim (axesBC B.ndim xb1 xb2), x < sbc.length := by
        intro x hx; rw [Arr.sector_length hsBC hsbc]; exact (mem_freeAxes.mp hx).1
      have hlsa : (permuted sa (freeAxes A.ndim xa)).length = (without A.indices xa).length := by
        rw [hlA, permuted_length _ _ (by
          intro x hx; rw [Arr.sector_length hsa hA]; exact (mem_freeAxes.mp hx).1)]
      rw [List.getElem?_append_right (by rw [hlsa]; omega), hlsa, Nat.add_sub_cancel_left,
        permuted_getElem? _ _ hlt, hjf]
      rfl)
  rw [List.append_nil, List.append_nil] at this
  rw [this]
  congr 2
  rw [without_eq_permuted_freeAxes B.indices, without_eq_permuted_freeAxes C.indices, I.ndim]
  have e6 : C.indices.length = C.ndim := rfl
  have e7 : B.indices.length = B.ndim := rfl
  have r := readBC_free h B.indices (permuted C.indices (freeAxes C.ndim xc)) rfl
  rw [permuted_length C.indices (freeAxes C.ndim xc) (fun x hx => (mem_freeAxes.mp hx).1)] at r
  rw [e6, e7, r]

end frames

end AssocP
end SymmModel
