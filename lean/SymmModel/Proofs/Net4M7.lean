/-
  SymmModel.Proofs.Net4M7 — zero padding commutes with the fermionic transpose (`Pad.transposeF`),
  the intermediate-result facts of a call made with exchanged operands and rotated back
  (`InterW.rot`), and one call of a route with BOTH an operand-order flag and a mode (`stepM`).
  Namespace `SymmModel.Net4P`.
-/
import SymmModel.Proofs.Net4M4
import SymmModel.Proofs.Net4Flag

namespace SymmModel
namespace Net4P
open TdotP GradedP RoutesP KoszulP AssocP Assoc2P Assoc3P Assoc4P Assoc5P
open Lazy (sgnI)
set_option linter.unusedSectionVars false

variable {R : Type}

section
variable [AddCommMonoid R] [Mul R] [Neg R] [SignRing R]

/-- **zero padding commutes with `transposeF`** -/
theorem pad_transposeF {P Q : Arr R} (hp : Pad P Q) (vP : P.validB = true) (fP : P.fermi = true)
    (vQ : Q.validB = true) (fQ : Q.fermi = true) (p : List Nat) (hperm : Arr.isPerm p P.ndim = true) :
    Pad (P.transposeF p) (Q.transposeF p) := by
  have hpermQ : Arr.isPerm p Q.ndim = true := by rw [← hp.ndim]; exact hperm
  have TP := transOf_transposeF P p vP fP hperm
  have TQ := transOf_transposeF Q p vQ fQ hpermQ
  have vP' := transposeF_validB P p vP fP hperm
  have vQ' := transposeF_validB Q p vQ fQ hpermQ
  have hPp := KoszulP.perm_of_isPerm hperm
  have hQp := KoszulP.perm_of_isPerm hpermQ
  have hPlt : ∀ x ∈ p, x < P.indices.length := mem_lt_of_perm hPp
  have hQlt : ∀ x ∈ p, x < Q.indices.length := mem_lt_of_perm hQp
  have hsP := Arr.shapesOk_of_validB vP
  have hsQ := Arr.shapesOk_of_validB vQ
  have hshape : ∀ s0 ∈ Q.sectors,
      Arr.blockShapeD (permuted P.indices p) (permuted s0 p)
        = Arr.blockShapeD (permuted Q.indices p) (permuted s0 p) := by
    intro s0 h0
    obtain ⟨shpP, hP1, hP2, _, _⟩ := shape_of_mem hsP (hp.sub s0 h0)
    obtain ⟨shpQ, hQ1, hQ2, _, _⟩ := shape_of_mem hsQ h0
    have e : shpP = shpQ := by rw [← hP2, ← hQ2]; exact hp.shape s0 h0
    rw [Arr.blockShapeD, Arr.blockShapeD, blockShape?_permuted hP1 p hPlt,
      blockShape?_permuted hQ1 p hQlt, e]
  refine ⟨by rw [TP.sym, TQ.sym, hp.sym],
    by rw [transposeF_ndim P p vP fP hperm, transposeF_ndim Q p vQ fQ hpermQ, hp.ndim], ?_,
    allDistinct_iff_nodup.mp (Arr.allDistinct_of_validB vP'),
    allDistinct_iff_nodup.mp (Arr.allDistinct_of_validB vQ'), ?_,
    Arr.shapesOk_of_validB vP', Arr.shapesOk_of_validB vQ', ?_, ?_⟩
  · intro i
    rw [TP.indices, TQ.indices]
    by_cases hi : i < p.length
    · rw [getD_permuted_ax P.indices p hPlt i hi, getD_permuted_ax Q.indices p hQlt i hi]
      exact hp.dual _
    · have l1 : (permuted P.indices p).length = P.indices.length := permuted_length_perm _ _ hPp
      have l2 : (permuted Q.indices p).length = Q.indices.length := permuted_length_perm _ _ hQp
      have hpl : p.length = P.indices.length := by
        have := hPp.length_eq; simp only [List.length_range] at this; exact this
      have hql : p.length = Q.indices.length := by
        have := hQp.length_eq; simp only [List.length_range] at this; exact this
      rw [List.getD_eq_getElem?_getD, List.getD_eq_getElem?_getD,
        List.getElem?_eq_none (by omega), List.getElem?_eq_none (by omega)]
  · intro s hs
    rw [TQ.sectors, List.mem_map] at hs
    obtain ⟨s0, h0, rfl⟩ := hs
    rw [TP.sectors, List.mem_map]
    exact ⟨s0, hp.sub s0 h0, rfl⟩
  · intro s hs
    rw [TQ.sectors, List.mem_map] at hs
    obtain ⟨s0, h0, rfl⟩ := hs
    rw [TP.indices, TQ.indices]
    exact hshape s0 h0
  · intro s hs o ho
    rw [TP.sectors, List.mem_map] at hs
    obtain ⟨s0, h0, rfl⟩ := hs
    obtain ⟨shp, h1, h2, h3, h4⟩ := shape_of_mem hsP h0
    rw [TP.indices, Arr.blockShapeD, blockShape?_permuted h1 p hPlt] at ho
    change inBox (permuted shp p) o = true at ho
    have hol : o.length = P.ndim := by
      have := inBox_length ho
      rw [this, permuted_length_perm shp p (by rw [h3]; exact hPp)]; exact h3
    obtain ⟨o0, hl0, rfl⟩ := exists_preimage hPp o hol
    have hb0 : inBox (Arr.blockShapeD P.indices s0) o0 = true := by
      rw [h2]
      exact Dense4.inBox_of_permuted (n := P.ndim) (mem_lt_of_perm hPp)
        (fun ax hax => hPp.mem_iff.mpr (List.mem_range.mpr hax)) h3 hl0 ho
    rw [TP.elem s0 h0 o0 hb0, hp.elem s0 h0 o0 hb0]
    have hpar : P.parities s0 = Q.parities s0 := by unfold Arr.parities; rw [hp.sym]
    by_cases hq : s0 ∈ Q.sectors
    · rw [TQ.elem s0 hq o0 (by rw [← hp.shape s0 hq]; exact hb0), hpar]
    · have hnot : permuted s0 p ∉ (Q.transposeF p).sectors := by
        intro hm
        rw [TQ.sectors, List.mem_map] at hm
        obtain ⟨s1, h1', e1⟩ := hm
        have l0 : s0.length = P.ndim := Arr.sector_length hsP h0
        have l1 : s1.length = P.ndim := by rw [hp.ndim]; exact Arr.sector_length hsQ h1'
        have := KoszulP.permuted_injective s1 s0 p P.ndim hPp l1 l0 e1
        exact hq (this ▸ h1')
      rw [Arr.elem_of_not_mem hq, Arr.elem_of_not_mem hnot, Lazy.sgnI_zero]

theorem padA_transposeF {P Q : Arr R} (hp : PadA P Q) (vP : P.validB = true) (fP : P.fermi = true)
    (vQ : Q.validB = true) (fQ : Q.fermi = true) (p : List Nat) (hperm : Arr.isPerm p P.ndim = true) :
    PadA (P.transposeF p) (Q.transposeF p) :=
  ⟨pad_transposeF hp.pad vP fP vQ fQ p hperm, hp.oddpos, hp.charge⟩

end

/-- a call `X·Y` in mode `m`; with `sw = true` made as `Y·X` (mode `m`) and rotated back -/
def callSM [Zero R] [Add R] [Mul R] [Neg R] (m : TdotMode) (sw : Bool) (X Y : Arr R)
    (xa xb : List Nat) : Except Err (Arr R) :=
  match sw with
  | false => tdM m X Y xa xb
  | true => (tdM m Y X xb xa).map (fun z =>
      z.transposeF (rotB (freeAxes Y.ndim xb).length (freeAxes X.ndim xa).length))

theorem callSM_blockwise [Zero R] [Add R] [Mul R] [Neg R] (sw : Bool) (X Y : Arr R) (xa xb : List Nat) :
    callSM .blockwise sw X Y xa xb = callS sw X Y xa xb := by
  cases sw <;> rfl

section
variable [AddCommMonoid R] [Mul R] [Neg R] [SignRing R]

/-- the intermediate-result facts survive "exchange the operands and rotate back" -/
theorem interW_rot {X Y Z : Arr R} {xa xb : List Nat} (I : InterW Y X xb xa Z) (hsym : X.sym = Y.sym) :
    InterW X Y xa xb (Z.transposeF (rotB (freeAxes Y.ndim xb).length (freeAxes X.ndim xa).length)) := by
  have hP : Arr.isPerm (rotB (freeAxes Y.ndim xb).length (freeAxes X.ndim xa).length) Z.ndim = true := by
    rw [I.ndim]; exact rotB_isPerm _ _
  have T := transOf_transposeF Z _ I.valid I.fermi hP
  refine ⟨transposeF_validB Z _ I.valid I.fermi hP, I.fermi, by rw [T.sym, I.sym, hsym], ?_⟩
  rw [T.indices]
  have hla : (without X.indices xa).length = (freeAxes X.ndim xa).length := by
    rw [without_eq_permuted_freeAxes]
    exact permuted_length _ _ (fun x hx => (mem_freeAxes.mp hx).1)
  have hlb : (without Y.indices xb).length = (freeAxes Y.ndim xb).length := by
    rw [without_eq_permuted_freeAxes]
    exact permuted_length _ _ (fun x hx => (mem_freeAxes.mp hx).1)
  have := forall₂_permuted I.frame (rotB (freeAxes Y.ndim xb).length (freeAxes X.ndim xa).length)
  have key : permuted (without Y.indices xb ++ without X.indices xa)
      (rotB (freeAxes Y.ndim xb).length (freeAxes X.ndim xa).length)
      = without X.indices xa ++ without Y.indices xb := by
    rw [← hla, ← hlb]; exact permuted_rotB _ _
  rw [key] at this
  exact this

variable [AssocLaws R]

/-- **one call of a route with an operand-order flag AND a mode**, on zero-padded copies `Xm`, `Ym`
    of the flagged blockwise operands `Xf`, `Yf`, which are `Eqv` to the plain ones `X`, `Y` -/
theorem stepM (hmul : ∀ x y : R, x * y = y * x) (hz1 : ∀ x : R, 0 * x = 0) (hz2 : ∀ x : R, x * 0 = 0)
    (sw : Bool) (m : TdotMode) {X Xf Xm Y Yf Ym : Arr R} {xa xb : List Nat}
    (W : AdmW X Y xa xb) (hd : OddposP.LabelsDistinct (X.oddpos ++ Y.oddpos))
    (eX : Eqv X Xf) (eY : Eqv Y Yf) (vXf : Xf.validB = true) (vYf : Yf.validB = true)
    (pX : PadA Xm Xf) (pY : PadA Ym Yf) (Wm : AdmW Xm Ym xa xb)
    (Z : Arr R) (e : tdF X Y xa xb = .ok Z) :
    ∃ Zf Zm, callS sw Xf Yf xa xb = .ok Zf ∧ Eqv Z Zf ∧ Zf.validB = true
      ∧ callSM m sw Xm Ym xa xb = .ok Zm ∧ PadA Zm Zf ∧ InterW Xm Ym xa xb Zm := by
  obtain ⟨Z1, e1, h1⟩ := tdotF_congr W eX eY vXf vYf Z e
  have W' : AdmW Xf Yf xa xb := admW_congr W eX eY vXf vYf
  have hd' : OddposP.LabelsDistinct (Xf.oddpos ++ Yf.oddpos) := by
    rw [← eX.oddpos, ← eY.oddpos]; exact hd
  cases sw with
  | false =>
    obtain ⟨Z2, _, e2, I2, _⟩ := call_pack Xf Yf xa xb W' hd'
    rw [e1] at e2
    obtain rfl := Except.ok.inj e2
    obtain ⟨Zm, eZm, pZm, IZm⟩ := pad_call hz1 hz2 pX pY Wm W' Z1 e1 m
    exact ⟨Z1, Zm, e1, h1, I2.valid, eZm, pZm, IZm⟩
  | true =>
    obtain ⟨c', ec', vc', hval, hE⟩ := swap_eqv hmul W' hd' Z1 e1
    have hd'' : OddposP.LabelsDistinct (Yf.oddpos ++ Xf.oddpos) :=
      OddposP.LabelsDistinct.perm hd' List.perm_append_comm
    obtain ⟨_, fc'⟩ := call_ok (admW_swap W') hd'' ec'
    obtain ⟨zm, ezm, pzm, Izm⟩ := pad_call hz1 hz2 pY pX (admW_swap Wm) (admW_swap W') c' ec' m
    have nX : Xm.ndim = Xf.ndim := pX.pad.ndim
    have nY : Ym.ndim = Yf.ndim := pY.pad.ndim
    have hP : Arr.isPerm (rotB (freeAxes Ym.ndim xb).length (freeAxes Xm.ndim xa).length) zm.ndim
        = true := by
      rw [Izm.ndim]; exact rotB_isPerm _ _
    refine ⟨_, zm.transposeF (rotB (freeAxes Ym.ndim xb).length (freeAxes Xm.ndim xa).length),
      ?_, h1.trans hE.symm, hval, ?_, ?_, interW_rot Izm Wm.sym⟩
    · unfold callS; simp only []; rw [ec']; rfl
    · unfold callSM; simp only []; rw [ezm]; rfl
    · rw [nX, nY]
      exact padA_transposeF pzm Izm.valid Izm.fermi vc' fc' _ (by rw [← nX, ← nY]; exact hP)

end

end Net4P
end SymmModel
