/-
  SymmModel.Proofs.BlkLemmas — layers L0/L1 of DESIGN §3.6 for the contraction proofs (C02/C06):

  * `ravel`/`unravel`/`allIdx`/`inBox`: `allIdx s` is the list of `unravel s n`, `n < prod s`;
    `ravel` and `unravel` are mutually inverse bijections box ≃ `range (prod s)`.
  * get-characterisation of `Blk.ofFn`, `Blk.zipWith`, `Blk.zeros`.
  * `permuted` / `without` / `indexOf?` facts and the merge function `mergeIdx` that
    `Blk.tensordotK` uses to assemble an operand's multi-index from its contracted and free parts.
  * `Blk.tensordotK_get`: `tensordotK` is the finite sum over the contracted box.

  Everything is for an arbitrary scalar type `R`; algebraic laws are only assumed where a
  `foldl (· + ·)` is rewritten as a `List.sum` (`[AddMonoid R]`).

  All names live in `SymmModel.TdotP` (other proof files define root-level lemmas with the same
  natural names, e.g. `ravel_lt`, `Blk.get_ofFn`).
-/
import SymmModel.Model.Blk
import Mathlib.Algebra.BigOperators.Group.List.Basic

namespace SymmModel
namespace TdotP

/-! ### a. the index box -/

theorem allIdx_eq_map_unravel (s : List Nat) : allIdx s = (List.range (prod s)).map (unravel s) := by
  induction s with
  | nil => rfl
  | cons d ds ih =>
    simp only [allIdx, prod]
    rw [ih]
    induction d with
    | zero => simp
    | succ d ihd =>
      rw [List.range_succ, List.flatMap_append, ihd, List.flatMap_singleton,
        Nat.succ_mul, List.range_add, List.map_append, List.map_map, List.map_map]
      congr 1
      apply List.map_congr_left
      intro r hr
      have hr' : r < prod ds := List.mem_range.mp hr
      have hpos : 0 < prod ds := by omega
      simp only [Function.comp, unravel]
      rw [Nat.mul_comm d, Nat.mul_add_div hpos, Nat.mul_add_mod, Nat.div_eq_of_lt hr',
        Nat.mod_eq_of_lt hr']
      simp

theorem allIdx_length (s : List Nat) : (allIdx s).length = prod s := by
  simp [allIdx_eq_map_unravel]

theorem inBox_length {s i : List Nat} (h : inBox s i = true) : i.length = s.length := by
  induction s generalizing i with
  | nil => cases i <;> simp_all [inBox]
  | cons d ds ih =>
    cases i with
    | nil => simp [inBox] at h
    | cons x xs =>
      simp only [inBox, Bool.and_eq_true] at h
      simp [ih h.2]

theorem ravel_lt {s i : List Nat} (h : inBox s i = true) : ravel s i < prod s := by
  induction s generalizing i with
  | nil => cases i <;> simp_all [inBox, ravel, prod]
  | cons d ds ih =>
    cases i with
    | nil => simp [inBox] at h
    | cons x xs =>
      simp only [inBox, Bool.and_eq_true, decide_eq_true_eq] at h
      have h2 := ih h.2
      simp only [ravel, prod]
      have : (x + 1) * prod ds ≤ d * prod ds := Nat.mul_le_mul_right _ h.1
      rw [Nat.succ_mul] at this
      omega

theorem unravel_ravel {s i : List Nat} (h : inBox s i = true) : unravel s (ravel s i) = i := by
  induction s generalizing i with
  | nil => cases i <;> simp_all [inBox, unravel]
  | cons d ds ih =>
    cases i with
    | nil => simp [inBox] at h
    | cons x xs =>
      simp only [inBox, Bool.and_eq_true, decide_eq_true_eq] at h
      have h2 := ravel_lt h.2
      have hpos : 0 < prod ds := by omega
      simp only [ravel, unravel]
      rw [Nat.mul_comm x, Nat.mul_add_div hpos, Nat.mul_add_mod, Nat.div_eq_of_lt h2,
        Nat.mod_eq_of_lt h2, ih h.2]
      simp

theorem inBox_unravel {s : List Nat} {n : Nat} (h : n < prod s) : inBox s (unravel s n) = true := by
  induction s generalizing n with
  | nil => simp [inBox, unravel]
  | cons d ds ih =>
    simp only [prod] at h
    have hpos : 0 < prod ds := by
      rcases Nat.eq_zero_or_pos (prod ds) with h0 | h0
      · rw [h0] at h; omega
      · exact h0
    simp only [unravel, inBox, Bool.and_eq_true, decide_eq_true_eq]
    exact ⟨(Nat.div_lt_iff_lt_mul hpos).mpr h, ih (Nat.mod_lt _ hpos)⟩

theorem ravel_unravel {s : List Nat} {n : Nat} (h : n < prod s) : ravel s (unravel s n) = n := by
  induction s generalizing n with
  | nil => simp only [prod] at h; simp only [ravel]; omega
  | cons d ds ih =>
    simp only [prod] at h
    have hpos : 0 < prod ds := by
      rcases Nat.eq_zero_or_pos (prod ds) with h0 | h0
      · rw [h0] at h; omega
      · exact h0
    simp only [unravel, ravel]
    rw [ih (Nat.mod_lt _ hpos)]
    exact Nat.div_add_mod' n (prod ds)

theorem mem_allIdx_iff {s i : List Nat} : i ∈ allIdx s ↔ inBox s i = true := by
  rw [allIdx_eq_map_unravel, List.mem_map]
  constructor
  · rintro ⟨n, hn, rfl⟩
    exact inBox_unravel (List.mem_range.mp hn)
  · intro h
    exact ⟨ravel s i, List.mem_range.mpr (ravel_lt h), unravel_ravel h⟩

theorem allIdx_ravel {s i : List Nat} (h : inBox s i = true) : (allIdx s)[ravel s i]? = some i := by
  rw [allIdx_eq_map_unravel, List.getElem?_map, List.getElem?_range (ravel_lt h)]
  simp [unravel_ravel h]

theorem allIdx_getElem? {s : List Nat} {n : Nat} (h : n < prod s) :
    (allIdx s)[n]? = some (unravel s n) := by
  rw [allIdx_eq_map_unravel, List.getElem?_map, List.getElem?_range h]; rfl

theorem allIdx_nodup (s : List Nat) : (allIdx s).Nodup := by
  rw [allIdx_eq_map_unravel, List.Nodup, List.pairwise_map]
  refine List.Pairwise.imp_of_mem ?_ (List.nodup_range (n := prod s))
  intro a b ha hb hab heq
  apply hab
  rw [← ravel_unravel (List.mem_range.mp ha), ← ravel_unravel (List.mem_range.mp hb), heq]

/-- the box of a concatenated shape is the product of the boxes -/
theorem inBox_append {s t i j : List Nat} (hi : i.length = s.length) :
    inBox (s ++ t) (i ++ j) = (inBox s i && inBox t j) := by
  induction s generalizing i with
  | nil => cases i <;> simp_all [inBox]
  | cons d ds ih =>
    cases i with
    | nil => simp at hi
    | cons x xs =>
      simp only [List.length_cons, Nat.add_right_cancel_iff] at hi
      simp only [List.cons_append, inBox, ih hi, Bool.and_assoc]

/-! ### `indexOf?`, `permuted`, `without` -/

section lists
variable {α : Type}

theorem indexOf?_eq_none_iff [BEq α] [LawfulBEq α] {l : List α} {a : α} :
    indexOf? l a = none ↔ a ∉ l := by
  induction l with
  | nil => simp [indexOf?]
  | cons x xs ih =>
    simp only [indexOf?, List.mem_cons, not_or]
    by_cases h : x == a
    · have : a = x := (beq_iff_eq.mp h).symm
      simp [this]
    · have hne : ¬ a = x := fun e => h (by simp [e])
      simp [h, ih, hne]

theorem indexOf?_eq_some {α : Type} [BEq α] [LawfulBEq α] {l : List α} {a : α} {j : Nat}
    (h : indexOf? l a = some j) : l[j]? = some a := by
  induction l generalizing j with
  | nil => simp [indexOf?] at h
  | cons x xs ih =>
    simp only [indexOf?] at h
    by_cases hx : x == a
    · simp only [hx, if_true, Option.some.injEq] at h
      subst h; simp [beq_iff_eq.mp hx]
    · simp only [hx] at h
      cases hi : indexOf? xs a with
      | none => simp [hi] at h
      | some j' =>
        simp only [hi, Option.map_some, Bool.false_eq_true, if_false, Option.some.injEq] at h
        subst h; simpa using ih hi

theorem indexOf?_getElem [BEq α] [LawfulBEq α] {l : List α} (hn : l.Nodup) {j : Nat}
    (hj : j < l.length) : indexOf? l l[j] = some j := by
  induction l generalizing j with
  | nil => simp at hj
  | cons x xs ih =>
    rw [List.nodup_cons] at hn
    cases j with
    | zero => simp [indexOf?]
    | succ j =>
      simp only [List.length_cons, Nat.add_lt_add_iff_right] at hj
      have hne : ¬ (x == xs[j]) = true := by
        intro e; exact hn.1 (beq_iff_eq.mp e ▸ List.getElem_mem hj)
      simp [indexOf?, hne, ih hn.2 hj]

theorem permuted_length_le (l : List α) (p : List Nat) : (permuted l p).length ≤ p.length :=
  List.length_filterMap_le _ _

theorem permuted_eq_map (l : List α) (p : List Nat) (hp : ∀ x ∈ p, x < l.length) (d : α) :
    permuted l p = p.map (fun x => l.getD x d) := by
  induction p with
  | nil => rfl
  | cons x xs ih =>
    have hx : x < l.length := hp x (by simp)
    have := ih (fun y hy => hp y (by simp [hy]))
    simp only [permuted] at this ⊢
    simp [List.getElem?_eq_getElem hx, this, List.getD_eq_getElem?_getD]

theorem permuted_length (l : List α) (p : List Nat) (hp : ∀ x ∈ p, x < l.length) :
    (permuted l p).length = p.length := by
  cases l with
  | nil => cases p with
    | nil => rfl
    | cons x xs => exact absurd (hp x (by simp)) (by simp)
  | cons d _ => rw [permuted_eq_map _ _ hp d]; simp

theorem permuted_getElem? (l : List α) (p : List Nat) (hp : ∀ x ∈ p, x < l.length) (j : Nat) :
    (permuted l p)[j]? = p[j]?.bind (fun x => l[x]?) := by
  induction p generalizing j with
  | nil => simp [permuted]
  | cons x xs ih =>
    have hx : x < l.length := hp x (by simp)
    have := ih (fun y hy => hp y (by simp [hy]))
    simp only [permuted] at this ⊢
    simp only [List.filterMap_cons, List.getElem?_eq_getElem hx]
    cases j with
    | zero => simp [List.getElem?_eq_getElem hx]
    | succ j => simpa using this j

theorem permuted_nil (p : List Nat) : permuted ([] : List α) p = [] := by
  simp [permuted]

theorem permuted_map {β : Type} (f : α → β) (l : List α) (p : List Nat) :
    permuted (l.map f) p = (permuted l p).map f := by
  simp only [permuted, List.map_filterMap, List.getElem?_map]

/-- `without l rem` picks the positions of `l` that are not listed, in order -/
theorem without_eq_permuted (l : List α) (rem : List Nat) :
    without l rem = permuted l ((List.range l.length).filter (fun ax => !rem.contains ax)) := by
  simp only [without, permuted]
  rw [List.zipIdx_eq_zip_range', ← List.range_eq_range']
  generalize hn : l.length = n
  have : ∀ (m : Nat) (l : List α), l.length = m → ∀ k,
      (((l.zip (List.range' k m)).filter (fun p => !rem.contains p.2)).map (·.1)) =
      ((List.range' k m).filter (fun ax => !rem.contains ax)).filterMap (fun p => l[p - k]?) := by
    intro m
    induction m with
    | zero => intro l hl k; simp
    | succ m ih =>
      intro l hl k
      cases l with
      | nil => simp at hl
      | cons x xs =>
        simp only [List.length_cons, Nat.add_right_cancel_iff] at hl
        rw [List.range'_succ, List.zip_cons_cons, List.filter_cons, List.filter_cons]
        have e : List.filterMap (fun p => (x :: xs)[p - k]?)
              (List.filter (fun ax => !rem.contains ax) (List.range' (k + 1) m)) =
            List.filterMap (fun p => xs[p - (k + 1)]?)
              (List.filter (fun ax => !rem.contains ax) (List.range' (k + 1) m)) := by
          apply List.filterMap_congr
          intro p hp
          have := (List.mem_range'_1.mp (List.mem_filter.mp hp).1).1
          have e2 : p - k = (p - (k + 1)) + 1 := by omega
          rw [e2]; simp
        by_cases hk : rem.contains k
        · simp only [hk, Bool.not_true, Bool.false_eq_true, if_false]
          rw [ih xs hl (k + 1), e]
        · simp only [hk, Bool.not_false, if_true, List.map_cons, List.filterMap_cons]
          simp only [Nat.sub_self, List.getElem?_cons_zero]
          rw [ih xs hl (k + 1), e]
  have h := this n l hn 0
  simp only [Nat.sub_zero] at h
  rw [List.range_eq_range']
  exact h

end lists

/-- free axes of an operand with `n` axes of which `axes` are contracted -/
def freeAxes (n : Nat) (axes : List Nat) : List Nat :=
  (List.range n).filter (fun ax => !axes.contains ax)

theorem without_range (n : Nat) (axes : List Nat) : without (List.range n) axes = freeAxes n axes := by
  rw [without_eq_permuted, List.length_range]
  show permuted (List.range n) (freeAxes n axes) = freeAxes n axes
  have hp : ∀ x ∈ freeAxes n axes, x < (List.range n).length := by
    intro x hx; simpa using (List.mem_filter.mp hx).1
  rw [permuted_eq_map _ _ hp 0]
  conv => rhs; rw [← List.map_id (freeAxes n axes)]
  apply List.map_congr_left
  intro x hx
  have := hp x hx
  simp only [List.length_range] at this
  simp [List.getD_eq_getElem?_getD, List.getElem?_range this]

theorem without_eq_permuted_freeAxes {α : Type} (l : List α) (axes : List Nat) :
    without l axes = permuted l (freeAxes l.length axes) := without_eq_permuted l axes

theorem mem_freeAxes {n : Nat} {axes : List Nat} {x : Nat} :
    x ∈ freeAxes n axes ↔ x < n ∧ x ∉ axes := by
  simp [freeAxes, List.mem_filter]

theorem freeAxes_nodup (n : Nat) (axes : List Nat) : (freeAxes n axes).Nodup :=
  List.Nodup.sublist List.filter_sublist List.nodup_range

/-- the operand multi-index that `Blk.tensordotK` assembles: axis `axes[j]` gets `k[j]`,
    axis `free[j]` gets `f[j]` (any other axis gets 0) -/
def mergeIdx {α : Type} (d : α) (n : Nat) (axes free : List Nat) (k f : List α) : List α :=
  (List.range n).map (fun ax =>
    match indexOf? axes ax with
    | some j => k.getD j d
    | none => match indexOf? free ax with
              | some j => f.getD j d
              | none => d)

section merge
variable {α : Type} (d : α)

@[simp] theorem mergeIdx_length (n : Nat) (axes free : List Nat) (k f : List α) :
    (mergeIdx d n axes free k f).length = n := by simp [mergeIdx]

/-- the contracted part of the merged index is `k` -/
theorem permuted_mergeIdx_axes {n : Nat} {axes free : List Nat} {k f : List α}
    (hn : axes.Nodup) (hr : ∀ x ∈ axes, x < n) (hk : k.length = axes.length) :
    permuted (mergeIdx d n axes free k f) axes = k := by
  apply List.ext_getElem?
  intro j
  rw [permuted_getElem? _ _ (by simpa using hr)]
  by_cases hj : j < axes.length
  · have hx : axes[j] < n := hr _ (List.getElem_mem hj)
    simp only [List.getElem?_eq_getElem hj, Option.bind_some, mergeIdx, List.getElem?_map,
      List.getElem?_range hx, Option.map_some, indexOf?_getElem hn hj]
    rw [List.getD_eq_getElem?_getD, List.getElem?_eq_getElem (hk ▸ hj)]
    simp
  · rw [List.getElem?_eq_none (by omega), List.getElem?_eq_none (by omega)]; rfl

/-- the free part of the merged index is `f` -/
theorem permuted_mergeIdx_free {n : Nat} {axes free : List Nat} {k f : List α}
    (hn : free.Nodup) (hr : ∀ x ∈ free, x < n) (hd : ∀ x ∈ free, x ∉ axes)
    (hf : f.length = free.length) :
    permuted (mergeIdx d n axes free k f) free = f := by
  apply List.ext_getElem?
  intro j
  rw [permuted_getElem? _ _ (by simpa using hr)]
  by_cases hj : j < free.length
  · have hx : free[j] < n := hr _ (List.getElem_mem hj)
    have hnone : indexOf? axes free[j] = none := indexOf?_eq_none_iff.mpr (hd _ (List.getElem_mem hj))
    simp only [List.getElem?_eq_getElem hj, Option.bind_some, mergeIdx, List.getElem?_map,
      List.getElem?_range hx, Option.map_some, hnone, indexOf?_getElem hn hj]
    rw [List.getD_eq_getElem?_getD, List.getElem?_eq_getElem (hf ▸ hj)]
    simp
  · rw [List.getElem?_eq_none (by omega), List.getElem?_eq_none (by omega)]; rfl

/-- every multi-index is the merge of its contracted and free parts (when every axis is one or
    the other): `mergeIdx` is a bijection (contracted part, free part) ↔ multi-index -/
theorem mergeIdx_permuted {n : Nat} {axes free : List Nat} {x : List α} (hx : x.length = n)
    (hra : ∀ y ∈ axes, y < n) (hrf : ∀ y ∈ free, y < n)
    (hcover : ∀ y, y < n → y ∈ axes ∨ y ∈ free) :
    mergeIdx d n axes free (permuted x axes) (permuted x free) = x := by
  apply List.ext_getElem?
  intro j
  by_cases hj : j < n
  · simp only [mergeIdx, List.getElem?_map, List.getElem?_range hj, Option.map_some]
    rw [List.getElem?_eq_getElem (hx ▸ hj)]
    congr 1
    cases h1 : indexOf? axes j with
    | some i =>
      have := indexOf?_eq_some h1
      simp only [List.getD_eq_getElem?_getD, permuted_getElem? x axes (by intro y hy; rw [hx]; exact hra y hy), this,
        Option.bind_some, List.getElem?_eq_getElem (hx ▸ hj), Option.getD_some]
    | none =>
      have hna : j ∉ axes := indexOf?_eq_none_iff.mp h1
      have hjf : j ∈ free := (hcover j hj).resolve_left hna
      cases h2 : indexOf? free j with
      | some i =>
        have := indexOf?_eq_some h2
        simp only [List.getD_eq_getElem?_getD, permuted_getElem? x free (by intro y hy; rw [hx]; exact hrf y hy), this,
          Option.bind_some, List.getElem?_eq_getElem (hx ▸ hj), Option.getD_some]
      | none => exact absurd hjf (indexOf?_eq_none_iff.mp h2)
  · rw [List.getElem?_eq_none (by simp; omega), List.getElem?_eq_none (by omega)]

end merge

theorem inBox_iff_getElem? {s i : List Nat} :
    inBox s i = true ↔ i.length = s.length ∧ ∀ (j x d : Nat), i[j]? = some x → s[j]? = some d → x < d := by
  induction s generalizing i with
  | nil => cases i <;> simp [inBox]
  | cons d ds ih =>
    cases i with
    | nil => simp [inBox]
    | cons x xs =>
      simp only [inBox, Bool.and_eq_true, decide_eq_true_eq, ih, List.length_cons,
        Nat.add_right_cancel_iff]
      constructor
      · rintro ⟨h1, h2, h3⟩
        refine ⟨h2, ?_⟩
        intro j y e hy he
        cases j with
        | zero => simp at hy he; omega
        | succ j => exact h3 j y e (by simpa using hy) (by simpa using he)
      · rintro ⟨h1, h2⟩
        exact ⟨h2 0 x d (by simp) (by simp), h1, fun j y e hy he => h2 (j + 1) y e (by simpa using hy) (by simpa using he)⟩

/-- the merged index lies in the operand's box when its contracted part lies in the contracted
    box and its free part in the free box -/
theorem inBox_mergeIdx {shape axes : List Nat} {k f : List Nat}
    (hr : ∀ x ∈ axes, x < shape.length)
    (hk : inBox (permuted shape axes) k = true)
    (hf : inBox (permuted shape (freeAxes shape.length axes)) f = true) :
    inBox shape (mergeIdx 0 shape.length axes (freeAxes shape.length axes) k f) = true := by
  have hfr : ∀ x ∈ freeAxes shape.length axes, x < shape.length := fun x hx => (mem_freeAxes.mp hx).1
  rw [inBox_iff_getElem?] at hk hf ⊢
  refine ⟨mergeIdx_length _ _ _ _ _ _, ?_⟩
  intro j x d hx hd
  have hj : j < shape.length := by
    by_contra hc; rw [List.getElem?_eq_none (by omega)] at hd; cases hd
  simp only [mergeIdx, List.getElem?_map, List.getElem?_range hj, Option.map_some,
    Option.some.injEq] at hx
  cases h1 : indexOf? axes j with
  | some t =>
    have ht := indexOf?_eq_some h1
    have htl : t < axes.length := by
      by_contra hc; rw [List.getElem?_eq_none (by omega)] at ht; cases ht
    have hkl : t < k.length := by rw [hk.1, permuted_length _ _ hr]; exact htl
    simp only [h1, List.getD_eq_getElem?_getD, List.getElem?_eq_getElem hkl, Option.getD_some] at hx
    subst hx
    apply hk.2 t k[t] d (List.getElem?_eq_getElem hkl)
    rw [permuted_getElem? _ _ hr, ht]; exact hd
  | none =>
    have hjf : j ∈ freeAxes shape.length axes := mem_freeAxes.mpr ⟨hj, indexOf?_eq_none_iff.mp h1⟩
    cases h2 : indexOf? (freeAxes shape.length axes) j with
    | none => exact absurd hjf (indexOf?_eq_none_iff.mp h2)
    | some t =>
      have ht := indexOf?_eq_some h2
      have htl : t < (freeAxes shape.length axes).length := by
        by_contra hc; rw [List.getElem?_eq_none (by omega)] at ht; cases ht
      have hfl : t < f.length := by rw [hf.1, permuted_length _ _ hfr]; exact htl
      simp only [h1, h2, List.getD_eq_getElem?_getD, List.getElem?_eq_getElem hfl,
        Option.getD_some] at hx
      subst hx
      apply hf.2 t f[t] d (List.getElem?_eq_getElem hfl)
      rw [permuted_getElem? _ _ hfr, ht]; exact hd

namespace Blk
open SymmModel.Blk
variable {R : Type}

/-! ### b. get-characterisations -/

@[simp] theorem ofFn_shape (s : List Nat) (f : List Nat → R) : (ofFn s f).shape = s := rfl

theorem get_ofFn [Zero R] {s i : List Nat} (f : List Nat → R) (h : inBox s i = true) :
    (ofFn s f).get i = f i := by
  simp [Blk.get, ofFn, Array.getD_eq_getD_getElem?, allIdx_ravel h]

theorem ofFn_wf (s : List Nat) (f : List Nat → R) : (ofFn s f).wf = true := by
  simp [wf, ofFn, allIdx_length]

@[simp] theorem zipWith_shape [Zero R] (f : R → R → R) (a b : Blk R) :
    (zipWith f a b).shape = a.shape := rfl

theorem zipWith_get [Zero R] (f : R → R → R) (a b : Blk R) {i : List Nat}
    (h : inBox a.shape i = true) : (zipWith f a b).get i = f (a.get i) (b.get i) :=
  get_ofFn _ h

@[simp] theorem zeros_shape [Zero R] (s : List Nat) : (zeros s : Blk R).shape = s := rfl

theorem zeros_get [Zero R] {s i : List Nat} (h : inBox s i = true) : (zeros s : Blk R).get i = 0 :=
  get_ofFn _ h

/-! ### c. `tensordotK` is the finite sum over the contracted box -/

/-- shape of `tensordotK`: free axes of `a` in order, then free axes of `b` in order -/
theorem tensordotK_shape [Zero R] [Add R] [Mul R] (a b : Blk R) (xa xb : List Nat) :
    (a.tensordotK b xa xb).shape =
      permuted a.shape (freeAxes a.shape.length xa) ++ permuted b.shape (freeAxes b.shape.length xb) := rfl

/-- one term of the contraction: contracted multi-index `k`, free parts `iA`, `iB` -/
def tdTerm [Zero R] [Mul R] (a b : Blk R) (xa xb : List Nat) (iA iB k : List Nat) : R :=
  a.get (mergeIdx 0 a.shape.length xa (freeAxes a.shape.length xa) k iA) *
  b.get (mergeIdx 0 b.shape.length xb (freeAxes b.shape.length xb) k iB)

/-- `tensordotK` entry = left fold of `+` over the box of the contracted sizes (no algebraic laws
    needed); the operand indices are the `mergeIdx` of the contracted index with the free part. -/
theorem tensordotK_get_foldl [Zero R] [Add R] [Mul R] (a b : Blk R) (xa xb : List Nat) {i : List Nat}
    (h : inBox (a.tensordotK b xa xb).shape i = true) :
    (a.tensordotK b xa xb).get i =
      (allIdx (permuted a.shape xa)).foldl
        (fun acc k => acc + tdTerm a b xa xb (i.take (freeAxes a.shape.length xa).length)
          (i.drop (freeAxes a.shape.length xa).length) k) 0 := by
  rw [tensordotK_shape] at h
  unfold tensordotK
  exact get_ofFn _ h

/-- the same at an index split as `iA ++ iB` -/
theorem tensordotK_get_append_foldl [Zero R] [Add R] [Mul R] (a b : Blk R) (xa xb : List Nat)
    {iA iB : List Nat} (hA : iA.length = (freeAxes a.shape.length xa).length)
    (h : inBox (a.tensordotK b xa xb).shape (iA ++ iB) = true) :
    (a.tensordotK b xa xb).get (iA ++ iB) =
      (allIdx (permuted a.shape xa)).foldl (fun acc k => acc + tdTerm a b xa xb iA iB k) 0 := by
  rw [tensordotK_get_foldl a b xa xb h, ← hA]
  simp

theorem foldl_add_eq_sum {β : Type} [AddMonoid R] (g : β → R) (l : List β) (x : R) :
    l.foldl (fun acc k => acc + g k) x = x + (l.map g).sum := by
  induction l generalizing x with
  | nil => simp
  | cons y ys ih => simp [ih, add_assoc]

/-- **tensordotK_get.**  `tensordotK` *is* the finite sum over the contracted box. -/
theorem tensordotK_get [AddMonoid R] [Mul R] (a b : Blk R) (xa xb : List Nat)
    {iA iB : List Nat} (hA : iA.length = (freeAxes a.shape.length xa).length)
    (h : inBox (a.tensordotK b xa xb).shape (iA ++ iB) = true) :
    (a.tensordotK b xa xb).get (iA ++ iB) =
      ((allIdx (permuted a.shape xa)).map (fun k => tdTerm a b xa xb iA iB k)).sum := by
  rw [tensordotK_get_append_foldl a b xa xb hA h, foldl_add_eq_sum, zero_add]

/-- the same at an arbitrary index of the result box (free parts by `take`/`drop`) -/
theorem tensordotK_get_sum [AddMonoid R] [Mul R] (a b : Blk R) (xa xb : List Nat) {i : List Nat}
    (h : inBox (a.tensordotK b xa xb).shape i = true) :
    (a.tensordotK b xa xb).get i =
      ((allIdx (permuted a.shape xa)).map (fun k =>
        tdTerm a b xa xb (i.take (freeAxes a.shape.length xa).length)
          (i.drop (freeAxes a.shape.length xa).length) k)).sum := by
  rw [tensordotK_get_foldl a b xa xb h, foldl_add_eq_sum, zero_add]

/-! ### sanity examples -/

-- the 2×3 · 3×2 matrix product, and the same with the contracted axes listed the other way round
example : ((⟨[2, 3], #[1, 2, 3, 4, 5, 6]⟩ : Blk Int).tensordotK ⟨[3, 2], #[1, 0, 0, 1, 2, 2]⟩ [1] [0]).data
    = #[7, 8, 16, 17] := by decide +kernel
example : ∀ i ∈ allIdx [2, 2],
    ((⟨[2, 3], #[1, 2, 3, 4, 5, 6]⟩ : Blk Int).tensordotK ⟨[3, 2], #[1, 0, 0, 1, 2, 2]⟩ [1] [0]).get i =
      ((allIdx [3]).map (fun k => tdTerm (⟨[2, 3], #[1, 2, 3, 4, 5, 6]⟩ : Blk Int)
        ⟨[3, 2], #[1, 0, 0, 1, 2, 2]⟩ [1] [0] (i.take 1) (i.drop 1) k)).sum := by decide +kernel
example : mergeIdx 0 4 [2, 0] [1, 3] [7, 8] [5, 6] = [8, 5, 7, 6] := by decide
example : allIdx [2, 3] = [[0, 0], [0, 1], [0, 2], [1, 0], [1, 1], [1, 2]] := by decide

end Blk
end TdotP
end SymmModel
