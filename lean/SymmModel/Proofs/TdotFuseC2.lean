/-
  SymmModel.Proofs.TdotFuseC2 — fusing the LEADING axes `0 … k-1` of an array into one index (all
  other axes untouched): structure of the fused array and its element map, also at sectors that
  are not stored.  Namespace `SymmModel.TdotP`.
-/
import SymmModel.Proofs.TdotFuseC1

namespace SymmModel
namespace TdotP
variable {R : Type}

section Lead
variable {X : Arr R} {k : Nat}

theorem lead_groupsOk (h1 : 1 ≤ k) (h2 : k ≤ X.ndim) : FuseP.GroupsOk [List.range k] X.ndim := by
  refine ⟨by simp, ?_, ?_, ?_⟩
  · intro g hg
    simp only [List.mem_cons, List.not_mem_nil, or_false] at hg
    rw [hg]; intro e; have := congrArg List.length e; simp at this; omega
  · intro ax hax
    simp only [List.flatten_cons, List.flatten_nil, List.append_nil, List.mem_range] at hax
    omega
  · simp only [List.flatten_cons, List.flatten_nil, List.append_nil]
    exact List.nodup_range

theorem lead_position (h1 : 1 ≤ k) (h2 : k ≤ X.ndim) : (FuseP.giM X [List.range k]).position = 0 := by
  have hok := FuseP.hokD (lead_groupsOk (X := X) h1 h2)
  exact Nat.eq_zero_of_le_zero ((FuseP.position_spec hok).2 0 (by simp; omega))

theorem filter_not_range (n k : Nat) (h : k ≤ n) :
    (List.range n).filter (fun ax => !(List.range k).contains ax) = (List.range n).drop k := by
  have e : List.range n = List.range k ++ (List.range n).drop k := by
    conv_lhs => rw [← List.take_append_drop k (List.range n)]
    rw [List.take_range, Nat.min_eq_left h]
  conv_lhs => rw [e]
  rw [List.filter_append]
  have h1 : (List.range k).filter (fun ax => !(List.range k).contains ax) = [] := by
    rw [List.filter_eq_nil_iff]; intro a ha; simp [List.mem_range.mp ha]
  have h2 : ((List.range n).drop k).filter (fun ax => !(List.range k).contains ax) = (List.range n).drop k := by
    rw [List.filter_eq_self]
    intro a ha
    obtain ⟨i, hi, rfl⟩ := List.mem_iff_getElem.mp ha
    simp
  rw [h1, h2, List.nil_append]

theorem lead_after (h1 : 1 ≤ k) (h2 : k ≤ X.ndim) :
    (FuseP.giM X [List.range k]).axesAfter = (List.range X.ndim).drop k := by
  have hp := lead_position (X := X) h1 h2
  have hd := FuseP.duals_length X
  simp only [FuseP.giM, calcFuseGroupInfo] at hp ⊢
  rw [hp, hd]
  simp only [List.flatten_cons, List.flatten_nil, List.append_nil, Nat.zero_le, decide_true]
  rw [List.filter_eq_self.mpr (fun _ _ => rfl)]
  exact filter_not_range X.ndim k h2

theorem lead_before (h1 : 1 ≤ k) (h2 : k ≤ X.ndim) : (FuseP.giM X [List.range k]).axesBefore = [] := by
  rw [FuseP.axesBefore_eq (FuseP.hokD (lead_groupsOk h1 h2)), lead_position h1 h2]; rfl

theorem lead_perm (h1 : 1 ≤ k) (h2 : k ≤ X.ndim) :
    (FuseP.giM X [List.range k]).perm = List.range X.ndim := by
  rw [FuseP.perm_eq, lead_before h1 h2, lead_after h1 h2]
  simp only [List.flatten_cons, List.flatten_nil, List.append_nil, List.nil_append]
  conv_rhs => rw [← List.take_append_drop k (List.range X.ndim)]
  rw [List.take_range, Nat.min_eq_left h2]

theorem lead_ndimM (h1 : 1 ≤ k) (h2 : k ≤ X.ndim) : FuseP.ndimM X [List.range k] = 1 + (X.ndim - k) := by
  simp [FuseP.ndimM, lead_position h1 h2, lead_after h1 h2]

theorem lead_after_getD (h1 : 1 ≤ k) (h2 : k ≤ X.ndim) (j : Nat) (hj : j < X.ndim - k) :
    (FuseP.giM X [List.range k]).axesAfter.getD j 0 = k + j := by
  rw [lead_after h1 h2, List.getD_eq_getElem?_getD, List.getElem?_drop,
    List.getElem?_range (by omega)]
  rfl

theorem lead_newIdx (h1 : 1 ≤ k) (h2 : k ≤ X.ndim) :
    FuseP.newIdxM X [List.range k] = FuseP.ixM X [List.range k] 0 :: X.indices.drop k := by
  have hok := lead_groupsOk (X := X) h1 h2
  have hpos := lead_position (X := X) h1 h2
  have hl : (FuseP.newIdxM X [List.range k]).length = 0 + 1 + (X.ndim - k) := by
    rw [FuseP.newIdxM_length hok, lead_ndimM h1 h2]
  rw [FuseP.three_parts _ default 0 1 (X.ndim - k) hl]
  simp only [List.range_zero, List.map_nil, List.nil_append, List.range_one, List.map_cons, Nat.zero_add,
    List.singleton_append]
  congr 1
  · simp only [FuseP.ixM, hpos, Nat.zero_add]
  · have hdl : X.indices.length = k + (X.ndim - k) := by show X.ndim = _; omega
    rw [FuseP.drop_eq_range_map X.indices default k (X.ndim - k) hdl]
    apply List.map_congr_left
    intro j hj
    have hj' : j < X.ndim - k := List.mem_range.mp hj
    have hja : j < (FuseP.giM X [List.range k]).axesAfter.length := by
      rw [lead_after h1 h2]; simp; omega
    have := FuseP.newIdxM_after hok hja
    rw [hpos] at this
    simp only [List.length_cons, List.length_nil, Nat.zero_add] at this
    rw [this, lead_after_getD h1 h2 j hj']

theorem lead_newSector (h1 : 1 ≤ k) (h2 : k ≤ X.ndim) (sb : Sector × Blk R) (hsl : sb.1.length = X.ndim) :
    (FuseP.planM X [List.range k] sb).newSector
      = FuseP.cM (a := X) (groups := [List.range k]) sb 0 :: sb.1.drop k := by
  have hok := lead_groupsOk (X := X) h1 h2
  rw [FuseP.nsM_parts hok, lead_position h1 h2]
  simp only [List.range_zero, List.map_nil, List.nil_append, List.length_cons, List.length_nil]
  have hdl : sb.1.length = k + (X.ndim - k) := by rw [hsl]; omega
  rw [FuseP.drop_eq_range_map sb.1 (0, 0) k (X.ndim - k) hdl]
  have hal : (FuseP.giM X [List.range k]).axesAfter.length = X.ndim - k := by
    rw [lead_after h1 h2]; simp
  rw [hal]
  show [FuseP.cM (a := X) (groups := [List.range k]) sb 0] ++ _ = _
  rw [List.singleton_append]
  congr 1
  apply List.map_congr_left
  intro j hj
  rw [lead_after_getD h1 h2 j (List.mem_range.mp hj)]

end Lead

/-- **element map of fusing the leading `k` axes.**  The element of the fused array at
    `(c :: rest, i :: orest)` is the original's element at `(S ++ rest, O ++ orest)`, where
    `(S, O)` is what the fused index's own table decodes `(c, i)` to — also when the fused sector is
    not stored (both are zero). -/
theorem lead_elem [Zero R] [Neg R] {X : Arr R} {k : Nat} (hv : FuseP.ValidArr X) (hph : X.phases = [])
    (h1 : 1 ≤ k) (h2 : k ≤ X.ndim)
    {c : Charge} {i d : Nat} {S : Sector} {O : List Nat}
    (hdec : decAx X [List.range k] 0 c i = some (S, O))
    (hz : (FuseP.ixM X [List.range k] 0).sizeOf? c = some d) (hi : i < d)
    {rest : Sector} {orest shp : List Nat}
    (hshp : Arr.blockShape? (X.indices.drop k) rest = some shp) (hbox : inBox shp orest = true) :
    (FuseP.fusedArrM X [List.range k]).elem (c :: rest) (i :: orest) = X.elem (S ++ rest) (O ++ orest) := by
  have hok := lead_groupsOk (X := X) h1 h2
  have hpos := lead_position (X := X) h1 h2
  have e0 : ([List.range k] : List (List Nat))[0]? = some (List.range k) := rfl
  have ean : X.indices.length = X.ndim := rfl
  obtain ⟨shpS, hshpS, hboxS⟩ := decAx_facts hv hok e0 hdec hz hi
  have hpk : (permuted X.indices (List.range k)).length = k := by
    rw [ValidP.permuted_range_take, List.length_take, ean]; omega
  have hSl : S.length = k := by rw [(blockShape?_length hshpS).1, hpk]
  have hOl : O.length = k := by rw [inBox_length hboxS, (blockShape?_length hshpS).2, hpk]
  have hrl : rest.length = X.ndim - k := by
    rw [(blockShape?_length hshp).1, List.length_drop, ean]
  have horl : orest.length = X.ndim - k := by
    rw [inBox_length hbox, (blockShape?_length hshp).2, List.length_drop, ean]
  have hs : (S ++ rest).length = X.ndim := by rw [List.length_append, hSl, hrl]; omega
  have ho : (O ++ orest).length = X.ndim := by rw [List.length_append, hOl, horl]; omega
  rw [Arr.elem_of_phases_nil (show (FuseP.fusedArrM X [List.range k]).phases = [] from hph),
    Arr.elem_of_phases_nil hph]
  show (match alookup (FuseP.fusedBlocksM X [List.range k]) (c :: rest) with
    | none => 0
    | some blk => blk.get (i :: orest)) = _
  cases hB : alookup (FuseP.fusedBlocksM X [List.range k]) (c :: rest) with
  | some B =>
    simp only []
    obtain ⟨sb0, hsb0, hns0, hBs⟩ := FuseP.fusedBlockM_info hv hok hB
    have hshape := FuseP.shape_storedM hv hok hsb0
    rw [hns0, lead_newIdx h1 h2, Arr.blockShape?_cons, hz, hshp] at hshape
    simp only [Option.bind_some, Option.map_some, Option.some.injEq] at hshape
    have hib : inBox B.shape (i :: orest) = true := by
      rw [hBs, ← hshape]; simp [inBox, hi, hbox]
    obtain ⟨_, hget⟩ := FuseP.fused_getM hv hok hB hib
    have hseg0 : FuseP.segM X [List.range k] (c :: rest) (i :: orest) 0 = (S, O) :=
      segM_of_dec (by rw [hpos]; exact hdec)
    have hK : permuted (S ++ rest) (FuseP.giM X [List.range k]).perm
        = FuseP.expandK X [List.range k] (c :: rest) (i :: orest) := by
      rw [lead_perm h1 h2, ← hs, permuted_range]
      simp only [FuseP.expandK, hpos, List.take_zero, List.nil_append, List.length_cons, List.length_nil,
        List.range_succ, List.range_zero, List.map_cons, List.map_nil, hseg0,
        List.drop_succ_cons, List.drop_zero, Nat.zero_add, List.flatten_cons, List.flatten_nil,
        List.append_nil]
    have hJ : permuted (O ++ orest) (FuseP.giM X [List.range k]).perm
        = FuseP.expandJ X [List.range k] (c :: rest) (i :: orest) := by
      rw [lead_perm h1 h2, ← ho, permuted_range]
      simp only [FuseP.expandJ, hpos, List.take_zero, List.nil_append, List.length_cons, List.length_nil,
        List.range_succ, List.range_zero, List.map_cons, List.map_nil, hseg0,
        List.drop_succ_cons, List.drop_zero, Nat.zero_add, List.flatten_cons, List.flatten_nil,
        List.append_nil]
    rw [(hget (S ++ rest) (O ++ orest) hs ho hK hJ).1]
    cases alookup X.blocks (S ++ rest) <;> rfl
  | none =>
    simp only []
    cases hb : alookup X.blocks (S ++ rest) with
    | none => rfl
    | some b =>
      exfalso
      have hsb : (S ++ rest, b) ∈ X.blocks := alookup_mem hb
      obtain ⟨B, hB', _⟩ := FuseP.fusedBlockM_exists hv hok hsb
      have hS : permuted (S ++ rest) (List.range k) = S := by
        rw [ValidP.permuted_range_take, ← hSl]; simp
      rw [lead_newSector h1 h2 (S ++ rest, b) hs, cM_of_dec hv hok e0 hdec hs hS] at hB'
      have hd : (S ++ rest).drop k = rest := by rw [← hSl]; simp
      simp only at hB'
      rw [hd, hB] at hB'
      cases hB'

end TdotP
end SymmModel
