/-
  SymmModel.Proofs.Net4M9 — each of the five routes with flags and modes (`routeSM_i_pad`) and all
  together (`k4_flagged_modes`).  Namespace `SymmModel.Net4P`.
-/
import SymmModel.Proofs.Net4M8

namespace SymmModel
namespace Net4P
open TdotP GradedP RoutesP KoszulP AssocP Assoc2P Assoc3P Assoc4P Assoc5P
set_option linter.unusedSectionVars false

variable {R : Type}

section
variable [AddCommMonoid R] [Mul R] [Neg R] [SignRing R] [AssocLaws R]
variable {A B C D : Arr R} {ab ac ad ba bc bd ca cb cd da db dc : List Nat}

theorem routeSM1_pad (hmul : ∀ x y : R, x * y = y * x) (hz1 : ∀ x : R, 0 * x = 0)
    (hz2 : ∀ x : R, x * 0 = 0) (H : K4H A B C D ab ac ad ba bc bd ca cb cd da db dc)
    (f1 f2 f3 : Bool) (m1 m2 m3 : TdotMode) :
    ∃ T1 Uf Um : Arr R,
      routeS1 A B C D ab ac ad ba bc bd ca cb cd da db dc false false false = .ok T1
      ∧ routeS1 A B C D ab ac ad ba bc bd ca cb cd da db dc f1 f2 f3 = .ok Uf ∧ Eqv Uf T1
      ∧ routeSM1 A B C D ab ac ad ba bc bd ca cb cd da db dc f1 f2 f3 m1 m2 m3 = .ok Um
      ∧ PadA Um Uf ∧ Um.validB = true ∧ Um.fermi = true := by
  obtain ⟨AB, BC, CD, ABC1, ABC2, BCD1, BCD2, T1, T2, T3, T4, T5, K⟩ := k4data H
  have X := K.X
  have r1 : routeS1 A B C D ab ac ad ba bc bd ca cb cd da db dc false false false = .ok T1 := by
    unfold routeS1 callS; simp only []
    rw [K.eAB]; simp only [Except.bind]; rw [K.eABC1]; exact K.eT1
  obtain ⟨mA_bc, mA_bd, mA_cd, mA_b_cd, _⟩ := mid3 H.hnA H.WAB.ltA H.WAC.ltA H.WAD.ltA
  obtain ⟨mB_ac, mB_ad, mB_cd, mB_a_cd, _⟩ := mid3 H.hnB H.WAB.ltB H.WBC.ltA H.WBD.ltA
  obtain ⟨mC_ab, mC_ad, mC_bd, _, mC_ab_d⟩ := mid3 H.hnC H.WAC.ltB H.WBC.ltB H.WCD.ltA
  obtain ⟨mD_ab, mD_ac, mD_bc, _, mD_ab_c⟩ := mid3 H.hnD H.WAD.ltB H.WBD.ltB H.WCD.ltB
  have TABC : TriW A B C ab ac ba bc cb ca := ⟨H.WAB, H.WBC, mA_bc, mB_ac, mC_ab.symm, H.WAC.con⟩
  have TABD : TriW A B D ab ad ba bd db da := ⟨H.WAB, H.WBD, mA_bd, mB_ad, mD_ab.symm, H.WAD.con⟩
  obtain ⟨ABf, ABm, a1, b1, v1, c1, p1, I1⟩ := stepM hmul hz1 hz2 f1 m1 H.WAB K.h_ab (Eqv.refl A)
    (Eqv.refl B) H.WAB.va H.WAB.vb (PadA.refl H.WAB.va) (PadA.refl H.WAB.vb) H.WAB AB K.eAB
  have WABmc := admW_left_triW I1 TABC
  obtain ⟨ABCf, ABCm, a2, b2, v2, c2, p2, I2⟩ := stepM hmul hz1 hz2 f2 m2 X.wABc K.h_ABc b1
    (Eqv.refl C) v1 H.WBC.vb p1 (PadA.refl H.WBC.vb) WABmc ABC1 K.eABC1
  have WABmd := admW_left_triW I1 TABD
  have mABm : Mid ABm.ndim (Assoc2P.axesAB A.ndim B.ndim ab ac ba bc)
      (Assoc2P.axesAB A.ndim B.ndim ab ad ba bd) := by
    rw [I1.ndim]; exact mid_axesAB mA_b_cd mB_a_cd
  have TT : TriW ABm C D (Assoc2P.axesAB A.ndim B.ndim ab ac ba bc)
      (Assoc2P.axesAB A.ndim B.ndim ab ad ba bd) (ca ++ cb) cd dc (da ++ db) :=
    ⟨WABmc, H.WCD, mABm, mC_ab_d, mD_ab_c.symm, WABmd.con⟩
  have WT := admW_left_triW I2 TT
  rw [I1.ndim] at WT
  obtain ⟨Uf, Um, a3, b3, v3, c3, p3, I3⟩ := stepM hmul hz1 hz2 f3 m3 X.wT1 K.h_T1 b2 (Eqv.refl D) v2
    H.WCD.vb p2 (PadA.refl H.WCD.vb) WT T1 K.eT1
  refine ⟨T1, Uf, Um, r1, ?_, b3.symm, ?_, p3, I3.valid, I3.fermi⟩
  · unfold routeS1 axesABC_D; rw [a1]; simp only [Except.bind]; rw [a2]; exact a3
  · unfold routeSM1 axesABC_D; rw [c1]; simp only [Except.bind]; rw [c2]; exact c3

theorem routeSM2_pad (hmul : ∀ x y : R, x * y = y * x) (hz1 : ∀ x : R, 0 * x = 0)
    (hz2 : ∀ x : R, x * 0 = 0) (H : K4H A B C D ab ac ad ba bc bd ca cb cd da db dc)
    (f1 f2 f3 : Bool) (m1 m2 m3 : TdotMode) :
    ∃ T1 Uf Um : Arr R,
      routeS1 A B C D ab ac ad ba bc bd ca cb cd da db dc false false false = .ok T1
      ∧ routeS2 A B C D ab ac ad ba bc bd ca cb cd da db dc f1 f2 f3 = .ok Uf ∧ Eqv Uf T1
      ∧ routeSM2 A B C D ab ac ad ba bc bd ca cb cd da db dc f1 f2 f3 m1 m2 m3 = .ok Um
      ∧ PadA Um Uf ∧ Um.validB = true ∧ Um.fermi = true := by
  obtain ⟨AB, BC, CD, ABC1, ABC2, BCD1, BCD2, T1, T2, T3, T4, T5, K⟩ := k4data H
  have X := K.X
  have r1 : routeS1 A B C D ab ac ad ba bc bd ca cb cd da db dc false false false = .ok T1 := by
    unfold routeS1 callS; simp only []
    rw [K.eAB]; simp only [Except.bind]; rw [K.eABC1]; exact K.eT1
  obtain ⟨mA_bc, mA_bd, mA_cd, mA_b_cd, mA_bc_d⟩ := mid3 H.hnA H.WAB.ltA H.WAC.ltA H.WAD.ltA
  have hnB' : (bc ++ ba ++ bd).Nodup :=
    ((List.perm_append_comm (l₁ := ba) (l₂ := bc)).append_right bd).nodup_iff.mp H.hnB
  have hnC' : (cb ++ ca ++ cd).Nodup :=
    ((List.perm_append_comm (l₁ := ca) (l₂ := cb)).append_right cd).nodup_iff.mp H.hnC
  obtain ⟨mB_ca, mB_cd, mB_ad, mB_c_ad, _⟩ := mid3 hnB' H.WBC.ltA H.WAB.ltB H.WBD.ltA
  obtain ⟨mC_ba, mC_bd, mC_ad, mC_b_ad, _⟩ := mid3 hnC' H.WBC.ltB H.WAC.ltB H.WCD.ltA
  obtain ⟨mD_ab, mD_ac, mD_bc, mD_a_bc, _⟩ := mid3 H.hnD H.WAD.ltB H.WBD.ltB H.WCD.ltB
  have TABC : TriW A B C ab ac ba bc cb ca := ⟨H.WAB, H.WBC, mA_bc, mB_ca.symm, mC_ba, H.WAC.con⟩
  have TBCD : TriW B C D bc bd cb cd dc db := ⟨H.WBC, H.WCD, mB_cd, mC_bd, mD_bc.symm, H.WBD.con⟩
  obtain ⟨BCf, BCm, a1, b1, v1, c1, p1, I1⟩ := stepM hmul hz1 hz2 f1 m1 H.WBC K.h_bc (Eqv.refl B)
    (Eqv.refl C) H.WBC.va H.WBC.vb (PadA.refl H.WBC.va) (PadA.refl H.WBC.vb) H.WBC BC K.eBC
  have WaBCm := admW_right_triW I1 TABC
  have WBCmd := admW_left_triW I1 TBCD
  have mY : Mid BCm.ndim (Assoc2P.axesBC B.ndim C.ndim ba bc cb ca)
      (Assoc2P.axesAB B.ndim C.ndim bc bd cb cd) := by
    rw [I1.ndim]
    exact mid_axesAB (xa1 := bc) (u := ba) (v := bd) (xb1 := cb) (s := ca) (t := cd) mB_c_ad mC_b_ad
  have TT : TriW A BCm D (ab ++ ac) ad (Assoc2P.axesBC B.ndim C.ndim ba bc cb ca)
      (Assoc2P.axesAB B.ndim C.ndim bc bd cb cd) (db ++ dc) da :=
    ⟨WaBCm, WBCmd, mA_bc_d, mY, mD_a_bc.symm, H.WAD.con⟩
  obtain ⟨ABCf, ABCm, a2, b2, v2, c2, p2, I2⟩ := stepM hmul hz1 hz2 f2 m2 X.waBC K.h_aBC (Eqv.refl A)
    b1 H.WAB.va v1 (PadA.refl H.WAB.va) p1 WaBCm ABC2 K.eABC2
  have WT := admW_left_triW I2 TT
  have star := axes_star A.ndim B.ndim C.ndim ab ac ad ba bc bd ca cb cd mA_bc mA_b_cd mB_ca.symm
    mB_ca mB_c_ad mC_ba
  rw [I1.ndim, ← star, ← List.append_assoc] at WT
  obtain ⟨Uf, Um, a3, b3, v3, c3, p3, I3⟩ := stepM hmul hz1 hz2 f3 m3 X.wT2 K.h_T2 b2 (Eqv.refl D) v2
    H.WCD.vb p2 (PadA.refl H.WCD.vb) WT T2 K.eT2
  refine ⟨T1, Uf, Um, r1, ?_, b3.symm.trans K.q2, ?_, p3, I3.valid, I3.fermi⟩
  · unfold routeS2 axesABC_D; rw [a1]; simp only [Except.bind]; rw [a2]; exact a3
  · unfold routeSM2 axesABC_D; rw [c1]; simp only [Except.bind]; rw [c2]; exact c3

theorem routeSM3_pad (hmul : ∀ x y : R, x * y = y * x) (hz1 : ∀ x : R, 0 * x = 0)
    (hz2 : ∀ x : R, x * 0 = 0) (H : K4H A B C D ab ac ad ba bc bd ca cb cd da db dc)
    (f1 f2 f3 : Bool) (m1 m2 m3 : TdotMode) :
    ∃ T1 Uf Um : Arr R,
      routeS1 A B C D ab ac ad ba bc bd ca cb cd da db dc false false false = .ok T1
      ∧ routeS3 A B C D ab ac ad ba bc bd ca cb cd da db dc f1 f2 f3 = .ok Uf ∧ Eqv Uf T1
      ∧ routeSM3 A B C D ab ac ad ba bc bd ca cb cd da db dc f1 f2 f3 m1 m2 m3 = .ok Um
      ∧ PadA Um Uf ∧ Um.validB = true ∧ Um.fermi = true := by
  obtain ⟨AB, BC, CD, ABC1, ABC2, BCD1, BCD2, T1, T2, T3, T4, T5, K⟩ := k4data H
  have X := K.X
  have r1 : routeS1 A B C D ab ac ad ba bc bd ca cb cd da db dc false false false = .ok T1 := by
    unfold routeS1 callS; simp only []
    rw [K.eAB]; simp only [Except.bind]; rw [K.eABC1]; exact K.eT1
  obtain ⟨mA_bc, mA_bd, mA_cd, mA_b_cd, _⟩ := mid3 H.hnA H.WAB.ltA H.WAC.ltA H.WAD.ltA
  obtain ⟨mB_ac, mB_ad, mB_cd, mB_a_cd, _⟩ := mid3 H.hnB H.WAB.ltB H.WBC.ltA H.WBD.ltA
  obtain ⟨mC_ab, mC_ad, mC_bd, _, mC_ab_d⟩ := mid3 H.hnC H.WAC.ltB H.WBC.ltB H.WCD.ltA
  obtain ⟨mD_ab, mD_ac, mD_bc, _, mD_ab_c⟩ := mid3 H.hnD H.WAD.ltB H.WBD.ltB H.WCD.ltB
  have TABC : TriW A B C ab ac ba bc cb ca := ⟨H.WAB, H.WBC, mA_bc, mB_ac, mC_ab.symm, H.WAC.con⟩
  have TABD : TriW A B D ab ad ba bd db da := ⟨H.WAB, H.WBD, mA_bd, mB_ad, mD_ab.symm, H.WAD.con⟩
  obtain ⟨ABf, ABm, a1, b1, v1, c1, p1, I1⟩ := stepM hmul hz1 hz2 f1 m1 H.WAB K.h_ab (Eqv.refl A)
    (Eqv.refl B) H.WAB.va H.WAB.vb (PadA.refl H.WAB.va) (PadA.refl H.WAB.vb) H.WAB AB K.eAB
  obtain ⟨CDf, CDm, a2, b2, v2, c2, p2, I2⟩ := stepM hmul hz1 hz2 f2 m2 H.WCD K.h_cd (Eqv.refl C)
    (Eqv.refl D) H.WCD.va H.WCD.vb (PadA.refl H.WCD.va) (PadA.refl H.WCD.vb) H.WCD CD K.eCD
  have WABmc := admW_left_triW I1 TABC
  have WABmd := admW_left_triW I1 TABD
  have mABm : Mid ABm.ndim (Assoc2P.axesAB A.ndim B.ndim ab ac ba bc)
      (Assoc2P.axesAB A.ndim B.ndim ab ad ba bd) := by
    rw [I1.ndim]; exact mid_axesAB mA_b_cd mB_a_cd
  have TT : TriW ABm C D (Assoc2P.axesAB A.ndim B.ndim ab ac ba bc)
      (Assoc2P.axesAB A.ndim B.ndim ab ad ba bd) (ca ++ cb) cd dc (da ++ db) :=
    ⟨WABmc, H.WCD, mABm, mC_ab_d, mD_ab_c.symm, WABmd.con⟩
  have WT := admW_right_triW I2 TT
  obtain ⟨Uf, Um, a3, b3, v3, c3, p3, I3⟩ := stepM hmul hz1 hz2 f3 m3 X.wT3 K.h_T3 b1 b2 v1 v2 p1 p2
    WT T3 K.eT3
  refine ⟨T1, Uf, Um, r1, ?_, b3.symm.trans K.q3, ?_, p3, I3.valid, I3.fermi⟩
  · unfold routeS3; rw [a1]; simp only [Except.bind]; rw [a2]; exact a3
  · unfold routeSM3; rw [c1]; simp only [Except.bind]; rw [c2]; exact c3

theorem routeSM4_pad (hmul : ∀ x y : R, x * y = y * x) (hz1 : ∀ x : R, 0 * x = 0)
    (hz2 : ∀ x : R, x * 0 = 0) (H : K4H A B C D ab ac ad ba bc bd ca cb cd da db dc)
    (f1 f2 f3 : Bool) (m1 m2 m3 : TdotMode) :
    ∃ T1 Uf Um : Arr R,
      routeS1 A B C D ab ac ad ba bc bd ca cb cd da db dc false false false = .ok T1
      ∧ routeS4 A B C D ab ac ad ba bc bd ca cb cd da db dc f1 f2 f3 = .ok Uf ∧ Eqv Uf T1
      ∧ routeSM4 A B C D ab ac ad ba bc bd ca cb cd da db dc f1 f2 f3 m1 m2 m3 = .ok Um
      ∧ PadA Um Uf ∧ Um.validB = true ∧ Um.fermi = true := by
  obtain ⟨AB, BC, CD, ABC1, ABC2, BCD1, BCD2, T1, T2, T3, T4, T5, K⟩ := k4data H
  have X := K.X
  have r1 : routeS1 A B C D ab ac ad ba bc bd ca cb cd da db dc false false false = .ok T1 := by
    unfold routeS1 callS; simp only []
    rw [K.eAB]; simp only [Except.bind]; rw [K.eABC1]; exact K.eT1
  obtain ⟨mA_bc, mA_bd, mA_cd, mA_b_cd, mA_bc_d⟩ := mid3 H.hnA H.WAB.ltA H.WAC.ltA H.WAD.ltA
  have hnB' : (bc ++ ba ++ bd).Nodup :=
    ((List.perm_append_comm (l₁ := ba) (l₂ := bc)).append_right bd).nodup_iff.mp H.hnB
  have hnC' : (cb ++ ca ++ cd).Nodup :=
    ((List.perm_append_comm (l₁ := ca) (l₂ := cb)).append_right cd).nodup_iff.mp H.hnC
  obtain ⟨mB_ca, mB_cd, mB_ad, mB_c_ad, _⟩ := mid3 hnB' H.WBC.ltA H.WAB.ltB H.WBD.ltA
  obtain ⟨mC_ba, mC_bd, mC_ad, mC_b_ad, _⟩ := mid3 hnC' H.WBC.ltB H.WAC.ltB H.WCD.ltA
  obtain ⟨mD_ab, mD_ac, mD_bc, mD_a_bc, _⟩ := mid3 H.hnD H.WAD.ltB H.WBD.ltB H.WCD.ltB
  have TABC : TriW A B C ab ac ba bc cb ca := ⟨H.WAB, H.WBC, mA_bc, mB_ca.symm, mC_ba, H.WAC.con⟩
  have TBCD : TriW B C D bc bd cb cd dc db := ⟨H.WBC, H.WCD, mB_cd, mC_bd, mD_bc.symm, H.WBD.con⟩
  obtain ⟨BCf, BCm, a1, b1, v1, c1, p1, I1⟩ := stepM hmul hz1 hz2 f1 m1 H.WBC K.h_bc (Eqv.refl B)
    (Eqv.refl C) H.WBC.va H.WBC.vb (PadA.refl H.WBC.va) (PadA.refl H.WBC.vb) H.WBC BC K.eBC
  have WaBCm := admW_right_triW I1 TABC
  have WBCmd := admW_left_triW I1 TBCD
  have mY : Mid BCm.ndim (Assoc2P.axesBC B.ndim C.ndim ba bc cb ca)
      (Assoc2P.axesAB B.ndim C.ndim bc bd cb cd) := by
    rw [I1.ndim]
    exact mid_axesAB (xa1 := bc) (u := ba) (v := bd) (xb1 := cb) (s := ca) (t := cd) mB_c_ad mC_b_ad
  have TT : TriW A BCm D (ab ++ ac) ad (Assoc2P.axesBC B.ndim C.ndim ba bc cb ca)
      (Assoc2P.axesAB B.ndim C.ndim bc bd cb cd) (db ++ dc) da :=
    ⟨WaBCm, WBCmd, mA_bc_d, mY, mD_a_bc.symm, H.WAD.con⟩
  have hnB'' : (bc ++ bd ++ ba).Nodup := by
    have : (bc ++ bd ++ ba).Perm (ba ++ bc ++ bd) := by
      rw [List.append_assoc ba]; exact List.perm_append_comm
    exact this.nodup_iff.mpr H.hnB
  have hnC'' : (cd ++ cb ++ ca).Nodup := by
    have : (cd ++ cb ++ ca).Perm (ca ++ cb ++ cd) := by
      have h1 : (cd ++ cb ++ ca).Perm (ca ++ (cd ++ cb)) := List.perm_append_comm
      refine h1.trans ?_
      rw [List.append_assoc]
      exact List.Perm.append_left _ List.perm_append_comm
    exact this.nodup_iff.mpr H.hnC
  obtain ⟨_, _, _, mB_c_da, _⟩ := mid3 hnB'' H.WBC.ltA H.WBD.ltA H.WAB.ltB
  obtain ⟨_, _, _, mC_d_ba, _⟩ := mid3 hnC'' H.WCD.ltA H.WBC.ltB H.WAC.ltB
  obtain ⟨BCDf, BCDm, a2, b2, v2, c2, p2, I2⟩ := stepM hmul hz1 hz2 f2 m2 X.wBCd K.h_BCd b1
    (Eqv.refl D) v1 H.WCD.vb p1 (PadA.refl H.WCD.vb) WBCmd BCD1 K.eBCD1
  have WT := admW_right_triW I2 TT
  have star : Assoc2P.axesBC ((freeAxes B.ndim bc).length + (freeAxes C.ndim cb).length) D.ndim
        (Assoc2P.axesBC B.ndim C.ndim ba bc cb ca) (Assoc2P.axesAB B.ndim C.ndim bc bd cb cd)
        (db ++ dc) da
      = axesBCD_A B C D ba bc bd ca cb cd da db dc :=
    axes_star B.ndim C.ndim D.ndim bc bd ba cb cd ca db dc da mB_cd mB_c_da mC_bd mC_bd.symm
      mC_d_ba mD_bc.symm
  rw [I1.ndim, star, List.append_assoc] at WT
  obtain ⟨Uf, Um, a3, b3, v3, c3, p3, I3⟩ := stepM hmul hz1 hz2 f3 m3 X.wT4 K.h_T4 (Eqv.refl A) b2
    H.WAB.va v2 (PadA.refl H.WAB.va) p2 WT T4 K.eT4
  refine ⟨T1, Uf, Um, r1, ?_, b3.symm.trans K.q4, ?_, p3, I3.valid, I3.fermi⟩
  · unfold routeS4; rw [a1]; simp only [Except.bind]; rw [a2]; exact a3
  · unfold routeSM4; rw [c1]; simp only [Except.bind]; rw [c2]; exact c3

theorem routeSM5_pad (hmul : ∀ x y : R, x * y = y * x) (hz1 : ∀ x : R, 0 * x = 0)
    (hz2 : ∀ x : R, x * 0 = 0) (H : K4H A B C D ab ac ad ba bc bd ca cb cd da db dc)
    (f1 f2 f3 : Bool) (m1 m2 m3 : TdotMode) :
    ∃ T1 Uf Um : Arr R,
      routeS1 A B C D ab ac ad ba bc bd ca cb cd da db dc false false false = .ok T1
      ∧ routeS5 A B C D ab ac ad ba bc bd ca cb cd da db dc f1 f2 f3 = .ok Uf ∧ Eqv Uf T1
      ∧ routeSM5 A B C D ab ac ad ba bc bd ca cb cd da db dc f1 f2 f3 m1 m2 m3 = .ok Um
      ∧ PadA Um Uf ∧ Um.validB = true ∧ Um.fermi = true := by
  obtain ⟨AB, BC, CD, ABC1, ABC2, BCD1, BCD2, T1, T2, T3, T4, T5, K⟩ := k4data H
  have X := K.X
  have r1 : routeS1 A B C D ab ac ad ba bc bd ca cb cd da db dc false false false = .ok T1 := by
    unfold routeS1 callS; simp only []
    rw [K.eAB]; simp only [Except.bind]; rw [K.eABC1]; exact K.eT1
  obtain ⟨mA_bc, mA_bd, mA_cd, mA_b_cd, _⟩ := mid3 H.hnA H.WAB.ltA H.WAC.ltA H.WAD.ltA
  obtain ⟨mB_ac, mB_ad, mB_cd, mB_a_cd, _⟩ := mid3 H.hnB H.WAB.ltB H.WBC.ltA H.WBD.ltA
  obtain ⟨mC_ab, mC_ad, mC_bd, _, mC_ab_d⟩ := mid3 H.hnC H.WAC.ltB H.WBC.ltB H.WCD.ltA
  obtain ⟨mD_ab, mD_ac, mD_bc, _, mD_ab_c⟩ := mid3 H.hnD H.WAD.ltB H.WBD.ltB H.WCD.ltB
  have TBCD : TriW B C D bc bd cb cd dc db := ⟨H.WBC, H.WCD, mB_cd, mC_bd, mD_bc.symm, H.WBD.con⟩
  have TACD : TriW A C D ac ad ca cd dc da := ⟨H.WAC, H.WCD, mA_cd, mC_ad, mD_ac.symm, H.WAD.con⟩
  obtain ⟨CDf, CDm, a1, b1, v1, c1, p1, I1⟩ := stepM hmul hz1 hz2 f1 m1 H.WCD K.h_cd (Eqv.refl C)
    (Eqv.refl D) H.WCD.va H.WCD.vb (PadA.refl H.WCD.va) (PadA.refl H.WCD.vb) H.WCD CD K.eCD
  have WbCDm := admW_right_triW I1 TBCD
  obtain ⟨BCDf, BCDm, a2, b2, v2, c2, p2, I2⟩ := stepM hmul hz1 hz2 f2 m2 X.wbCD K.h_bCD (Eqv.refl B)
    b1 H.WBC.va v1 (PadA.refl H.WBC.va) p1 WbCDm BCD2 K.eBCD2
  have WaCDm := admW_right_triW I1 TACD
  have mCDm : Mid CDm.ndim (Assoc2P.axesBC C.ndim D.ndim cb cd dc db)
      (Assoc2P.axesBC C.ndim D.ndim ca cd dc da) := by
    rw [I1.ndim]
    exact (mid_axesAB (xa1 := cd) (u := ca) (v := cb) (xb1 := dc) (s := da) (t := db)
      mC_ab_d.symm mD_ab_c.symm).symm
  have TT : TriW A B CDm ab (ac ++ ad) ba (bc ++ bd) (Assoc2P.axesBC C.ndim D.ndim cb cd dc db)
      (Assoc2P.axesBC C.ndim D.ndim ca cd dc da) := ⟨H.WAB, WbCDm, mA_b_cd, mB_a_cd, mCDm, WaCDm.con⟩
  have WT := admW_right_triW I2 TT
  rw [I1.ndim] at WT
  obtain ⟨Uf, Um, a3, b3, v3, c3, p3, I3⟩ := stepM hmul hz1 hz2 f3 m3 X.wT5 K.h_T5 (Eqv.refl A) b2
    H.WAB.va v2 (PadA.refl H.WAB.va) p2 WT T5 K.eT5
  refine ⟨T1, Uf, Um, r1, ?_, b3.symm.trans K.q5, ?_, p3, I3.valid, I3.fermi⟩
  · unfold routeS5 axesBCD_A; rw [a1]; simp only [Except.bind]; rw [a2]; exact a3
  · unfold routeSM5 axesBCD_A; rw [c1]; simp only [Except.bind]; rw [c2]; exact c3

/-- **K4 with flags and modes**: each of the fifteen calls of the five routes with its own
    operand-order flag and its own mode -/
theorem k4_flagged_modes (hmul : ∀ x y : R, x * y = y * x) (hz1 : ∀ x : R, 0 * x = 0)
    (hz2 : ∀ x : R, x * 0 = 0) (H : K4H A B C D ab ac ad ba bc bd ca cb cd da db dc)
    (f : Fin 15 → Bool) (m : Fin 15 → TdotMode) :
    ∃ T1 U1 U2 U3 U4 U5 : Arr R,
      routeS1 A B C D ab ac ad ba bc bd ca cb cd da db dc false false false = .ok T1
      ∧ routeSM1 A B C D ab ac ad ba bc bd ca cb cd da db dc (f 0) (f 1) (f 2) (m 0) (m 1) (m 2) = .ok U1
      ∧ routeSM2 A B C D ab ac ad ba bc bd ca cb cd da db dc (f 3) (f 4) (f 5) (m 3) (m 4) (m 5) = .ok U2
      ∧ routeSM3 A B C D ab ac ad ba bc bd ca cb cd da db dc (f 6) (f 7) (f 8) (m 6) (m 7) (m 8) = .ok U3
      ∧ routeSM4 A B C D ab ac ad ba bc bd ca cb cd da db dc (f 9) (f 10) (f 11) (m 9) (m 10) (m 11)
          = .ok U4
      ∧ routeSM5 A B C D ab ac ad ba bc bd ca cb cd da db dc (f 12) (f 13) (f 14) (m 12) (m 13) (m 14)
          = .ok U5
      ∧ ZeroPad U1 T1 ∧ ZeroPad U2 T1 ∧ ZeroPad U3 T1 ∧ ZeroPad U4 T1 ∧ ZeroPad U5 T1 := by
  obtain ⟨T1, F1, U1, r1, _, e1, c1, p1, v1, g1⟩ := routeSM1_pad hmul hz1 hz2 H (f 0) (f 1) (f 2) (m 0) (m 1) (m 2)
  obtain ⟨T1', F2, U2, r2, _, e2, c2, p2, v2, g2⟩ := routeSM2_pad hmul hz1 hz2 H (f 3) (f 4) (f 5) (m 3) (m 4) (m 5)
  obtain rfl : T1 = T1' := Except.ok.inj (r1.symm.trans r2)
  obtain ⟨T1', F3, U3, r3, _, e3, c3, p3, v3, g3⟩ := routeSM3_pad hmul hz1 hz2 H (f 6) (f 7) (f 8) (m 6) (m 7) (m 8)
  obtain rfl : T1 = T1' := Except.ok.inj (r1.symm.trans r3)
  obtain ⟨T1', F4, U4, r4, _, e4, c4, p4, v4, g4⟩ := routeSM4_pad hmul hz1 hz2 H (f 9) (f 10) (f 11) (m 9) (m 10) (m 11)
  obtain rfl : T1 = T1' := Except.ok.inj (r1.symm.trans r4)
  obtain ⟨T1', F5, U5, r5, _, e5, c5, p5, v5, g5⟩ := routeSM5_pad hmul hz1 hz2 H (f 12) (f 13) (f 14) (m 12) (m 13) (m 14)
  obtain rfl : T1 = T1' := Except.ok.inj (r1.symm.trans r5)
  exact ⟨T1, U1, U2, U3, U4, U5, r1, c1, c2, c3, c4, c5, zeroPad_of p1 v1 g1 e1, zeroPad_of p2 v2 g2 e2,
    zeroPad_of p3 v3 g3 e3, zeroPad_of p4 v4 g4 e4, zeroPad_of p5 v5 g5 e5⟩

end

section
variable [AddCommMonoid R] [Mul R] [Neg R] [SignRing R]

/-- the observable form gives back the padding relation -/
theorem padA_of_zeroPad {U T : Arr R} (z : ZeroPad U T) (vT : T.validB = true) : PadA U T := by
  refine ⟨⟨z.sym, z.ndim, z.dual, allDistinct_iff_nodup.mp (Arr.allDistinct_of_validB z.valid),
    allDistinct_iff_nodup.mp (Arr.allDistinct_of_validB vT), z.sub, Arr.shapesOk_of_validB z.valid,
    Arr.shapesOk_of_validB vT, z.shape, ?_⟩, z.oddpos, z.charge⟩
  intro s hs o ho
  by_cases hq : s ∈ T.sectors
  · exact z.elem s hq o (by rw [← z.shape s hq]; exact ho)
  · rw [z.zero s hq o ho, Arr.elem_of_not_mem hq]

/-- **a zero-padded copy of a fermionic transpose of `T0`, transposed back, is a zero-padded copy
    of `T0`** -/
theorem zeroPad_teq {U T T0 : Arr R} (z : ZeroPad U T) (vT : T.validB = true) (fT : T.fermi = true)
    (t : TEq T T0) : ∃ P, Arr.isPerm P U.ndim = true ∧ ZeroPad (U.transposeF P) T0 := by
  obtain ⟨P, hP, e⟩ := t
  have hPU : Arr.isPerm P U.ndim = true := by rw [z.ndim]; exact hP
  have p := padA_transposeF (padA_of_zeroPad z vT) z.valid z.fermi vT fT P hPU
  exact ⟨P, hPU, zeroPad_of p (transposeF_validB U P z.valid z.fermi hPU) z.fermi e⟩

end

end Net4P
end SymmModel
