/-
  SymmModel.Proofs.Reshape4a — the planner on the way back: an array whose only fused axis (at
  position `pre.length`, of any — possibly sparse — size `D`) carries the sub-sizes `mid`, reshaped
  to the shape with that axis replaced by `mid`: the plan is "unfuse that axis", nothing else.
-/
import SymmModel.Proofs.C07
namespace SymmModel.Reshape4
open SymmModel SymmModel.Reshape SymmModel.C07

theorem getElem?_append_add {α : Type} (A B : List α) (t : Nat) :
    (A ++ B)[A.length + t]? = B[t]? := by
  rw [List.getElem?_append_right (by omega)]; congr 1; omega

/-- a run of axes that are not fused and already have the requested size only appends "o" -/
theorem mainLoop_o_run (shape newshape : List Nat) (subsizes : List (Option (List Nat))) :
    ∀ (run : List Nat) (fuel i j k : Nat) (term : List Lbl) (sq us fs ex : List Nat) (a1 a2 : Bool),
      (∀ t, t < run.length → shape[i + t]? = run[t]? ∧ newshape[j + t]? = run[t]?
        ∧ subsizes[i + t]? = some none) →
      mainLoop shape newshape subsizes (fuel + run.length) ⟨i, j, k, term, sq, us, fs, ex, a1, a2⟩
        = mainLoop shape newshape subsizes fuel
            ⟨i + run.length, j + run.length, k + run.length,
             term ++ List.replicate run.length Lbl.o, sq, us, fs, ex, a1, a2⟩ := by
  intro run
  induction run with
  | nil => intro fuel i j k term sq us fs ex a1 a2 _; simp
  | cons d run ih =>
    intro fuel i j k term sq us fs ex a1 a2 h
    obtain ⟨h1, h2, h3⟩ := h 0 (by simp)
    simp only [Nat.add_zero, List.getElem?_cons_zero] at h1 h2 h3
    have e : fuel + (d :: run).length = (fuel + run.length) + 1 := by simp; omega
    rw [e]
    simp only [mainLoop, h1, h2, h3, unfuseMatch, Nat.beq_refl, if_true]
    rw [ih fuel (i + 1) (j + 1) (k + 1) (term ++ [Lbl.o]) sq us fs ex a1 a2 (by
      intro t ht
      have := h (t + 1) (by simp; omega)
      simpa [Nat.add_assoc, Nat.add_comm 1 t] using this)]
    simp [List.replicate_succ, Nat.add_assoc, Nat.add_comm 1]

/-- the check loop of the unfuse branch succeeds on a matching window -/
theorem unfuseCheck_match (ns : List Nat) : ∀ (l : List Nat) (s j k : Nat),
    (ns.drop j).take l.length = l →
    unfuseCheck ns l s j k = .ok (s + l.length, j + l.length, k + l.length) := by
  intro l
  induction l with
  | nil => intro s j k _; simp [unfuseCheck, pure, Except.pure]
  | cons d l ih =>
    intro s j k h
    have hj : j < ns.length := by
      rcases Nat.lt_or_ge j ns.length with hc | hc
      · exact hc
      · rw [List.drop_eq_nil_of_le hc] at h
        simp at h
    rw [List.drop_eq_getElem_cons hj] at h
    simp only [List.length_cons, List.take_succ_cons, List.cons.injEq] at h
    obtain ⟨hd, hl⟩ := h
    have hget : ns[j]? = some d := by rw [List.getElem?_eq_getElem hj, hd]
    simp only [unfuseCheck, hget, Nat.beq_refl, Bool.not_true, Bool.false_eq_true, if_false]
    rw [ih (s + 1) (j + 1) (k + 1) hl]
    simp only [List.length_cons, Except.ok.injEq, Prod.mk.injEq]
    omega

/-- the loop stops once the old shape is used up -/
theorem mainLoop_done (shape newshape : List Nat) (subsizes : List (Option (List Nat))) (fuel : Nat)
    (st : RState) (h : shape.length ≤ st.i) :
    mainLoop shape newshape subsizes fuel st = .ok st := by
  cases fuel with
  | zero =>
    have : ¬ st.i < shape.length := by omega
    simp [mainLoop, this, pure, Except.pure]
  | succ f =>
    have : shape[st.i]? = none := by simp [h]
    simp [mainLoop, this, pure, Except.pure]

theorem beqLbl_o_u (j : Nat) : (Lbl.o == Lbl.u j) = false := rfl
theorem beqLbl_u_u (j : Nat) : (Lbl.u j == Lbl.u j) = true := by
  show Lbl.beq (Lbl.u j) (Lbl.u j) = true
  simp [Lbl.beq]

theorem indexOf?_replicate_o (n j : Nat) (rest : List Lbl) :
    indexOf? (List.replicate n Lbl.o ++ Lbl.u j :: rest) (Lbl.u j) = some n := by
  induction n with
  | zero => simp [indexOf?, beqLbl_u_u]
  | succ n ih =>
    simp only [List.replicate_succ, List.cons_append, indexOf?, beqLbl_o_u, Bool.false_eq_true,
      if_false, ih, Option.map_some]

/-- **the plan of the way back** -/
theorem back_plan (pre mid post : List Nat) (D : Nat) (hmid : mid ≠ []) :
    calcReshapeArgs (pre ++ D :: post) (pre ++ mid ++ post) (nones pre ++ some mid :: nones post)
      = .ok ([pre.length], [], []) := by
  obtain ⟨m0, mid', rfl⟩ := List.exists_cons_of_ne_nil hmid
  have hlenS : (pre ++ D :: post).length = pre.length + 1 + post.length := by simp; omega
  have hlenN : (nones pre ++ some (m0 :: mid') :: nones post).length = pre.length + 1 + post.length := by
    simp [nones]; omega
  -- fuel
  obtain ⟨Rf, hR⟩ : ∃ Rf, (pre ++ D :: post).length + (pre ++ (m0 :: mid') ++ post).length
      = ((Rf + post.length) + 1) + pre.length := ⟨pre.length + (m0 :: mid').length + post.length, by
        simp only [List.length_append, List.length_cons]; omega⟩
  have hmain : mainLoop (pre ++ D :: post) (pre ++ (m0 :: mid') ++ post)
      (nones pre ++ some (m0 :: mid') :: nones post)
      ((pre ++ D :: post).length + (pre ++ (m0 :: mid') ++ post).length) {}
      = .ok ⟨pre.length + 1 + post.length, pre.length + (m0 :: mid').length + post.length,
          pre.length + (m0 :: mid').length + post.length,
          List.replicate pre.length Lbl.o ++ [Lbl.u 0] ++ List.replicate post.length Lbl.o,
          [], [(m0 :: mid').length], [], [], false, false⟩ := by
    rw [hR]
    have e0 : ({} : RState) = ⟨0, 0, 0, [], [], [], [], [], false, false⟩ := rfl
    rw [e0, mainLoop_o_run _ _ _ pre _ 0 0 0 [] [] [] [] [] false false (by
      intro t ht
      refine ⟨?_, ?_, ?_⟩
      · simp [List.getElem?_append_left ht]
      · simp [List.append_assoc, List.getElem?_append_left ht]
      · have ht' : t < (nones pre).length := by simpa [nones] using ht
        rw [Nat.zero_add, List.getElem?_append_left ht']
        simp [nones, ht])]
    simp only [Nat.zero_add, List.nil_append]
    -- the unfuse step
    have g1 : (pre ++ D :: post)[pre.length]? = some D := by simp
    have g2 : (pre ++ (m0 :: mid') ++ post)[pre.length]? = some m0 := by
      simp [List.append_assoc]
    have g3 : (nones pre ++ some (m0 :: mid') :: nones post)[pre.length]? = some (some (m0 :: mid')) := by
      have : pre.length = (nones pre).length := by simp [nones]
      rw [this]; simp
    have hwin : ((pre ++ (m0 :: mid') ++ post).drop pre.length).take (m0 :: mid').length = m0 :: mid' := by
      rw [List.append_assoc, List.drop_left' rfl, List.take_left' rfl]
    have g4 : unfuseMatch (pre ++ (m0 :: mid') ++ post) pre.length (some (m0 :: mid')) = some (m0 :: mid') := by
      simp only [unfuseMatch, hwin, beqNats_refl, if_true]
    simp only [mainLoop, g1, g2, g3, g4, unfuseCheck_match _ _ 0 pre.length pre.length hwin]
    simp only [List.length_nil, Nat.zero_add]
    -- the remaining axes
    rw [mainLoop_o_run _ _ _ post _ (pre.length + 1) _ _ _ [] _ [] [] false false (by
      intro t ht
      refine ⟨?_, ?_, ?_⟩
      · have e : pre.length + 1 + t = (pre ++ [D]).length + t := by simp
        have e2 : pre ++ D :: post = (pre ++ [D]) ++ post := by simp
        rw [e, e2, getElem?_append_add]
      · have e : pre.length + (m0 :: mid').length + t = (pre ++ (m0 :: mid')).length + t := by simp
        rw [e, getElem?_append_add]
      · have e : pre.length + 1 + t = (nones pre ++ [some (m0 :: mid')]).length + t := by simp [nones]
        have e2 : nones pre ++ some (m0 :: mid') :: nones post = (nones pre ++ [some (m0 :: mid')]) ++ nones post := by
          simp
        rw [e, e2, getElem?_append_add]
        simp [nones, ht])]
    rw [mainLoop_done _ _ _ _ _ (by simp; omega)]
    rfl
  unfold calcReshapeArgs
  rw [hmain]
  have e1 : (pre ++ D :: post).length - (pre.length + 1 + post.length) = 0 := by omega
  have e2 : (pre ++ (m0 :: mid') ++ post).length - (pre.length + (m0 :: mid').length + post.length) = 0 := by
    simp; omega
  simp only [e1, e2, List.replicate_zero, List.append_nil, Nat.blt]
  have e3 : List.replicate pre.length Lbl.o ++ [Lbl.u 0] ++ List.replicate post.length Lbl.o
      = List.replicate pre.length Lbl.o ++ Lbl.u 0 :: List.replicate post.length Lbl.o := by simp
  rw [e3]
  simp [unfusePhase, indexOf?_replicate_o, pure, Except.pure]

end SymmModel.Reshape4
