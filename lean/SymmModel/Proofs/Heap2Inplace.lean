/-
  SymmModel.Proofs.Heap2Inplace — the in-place and the out-of-place runs of the two-operand operations
  (`binaryA`, `binaryF`, `alignAxes`) compared at the level of programs (property C14).
-/
import SymmModel.Proofs.Heap2Binary
namespace SymmModel.Heap

theorem arrOf_ext {h h' : Heap} (e : Ext h h') {y : ObjId} {ay : ArrObj} (hy : h.arrOf y = some ay) :
    h'.arrOf y = some ay := by
  rw [arrOf_eq_some] at hy ⊢
  rw [e.get? (get?_lt hy)]; exact hy

theorem dictsOf_lt {h : Heap} {y : ObjId} {a : ArrObj} {bd : Dict} {pd : Option Dict} (w : WFArr h y a bd pd) :
    ∀ d ∈ dictsOf h y, d < h.size := by
  intro d hd
  rw [dictsOf_of_get? w.arr] at hd
  simp only [dictsOfArr, List.mem_cons, Option.mem_toList] at hd
  rcases hd with rfl | e
  · exact get?_lt w.blk
  · obtain ⟨d', _, hd', _⟩ := w.ph _ e
    exact get?_lt hd'

/-- a well-formed array that existed before a fresh object was created survives effects on that object -/
theorem TStep.wf_old {h0 h h' : Heap} {r y : ObjId} (s : TStep h h' r) (f : FreshObj h0 h r) (e : Ext h0 h)
    {a : ArrObj} {bd : Dict} {pd : Option Dict} (w : WFArr h0 y a bd pd) : WFArr h' y a bd pd := by
  have w1 := wf_ext e w
  refine s.wf_other w1 (Nat.ne_of_lt (Nat.lt_of_lt_of_le (get?_lt w.arr) f.ge)) ?_
  intro d hd hd'
  have h1 := f.dicts d hd'
  have h2 := dictsOf_lt w d (by rwa [e.step.dictsOf_same (get?_lt w.arr) (fun f => f)] at hd)
  exact absurd h2 (Nat.not_lt.mpr h1)

/-! ### `BlockBase._binary_blockwise_op` (abelian arrays, block vectors) -/

/-- in place and out of place, `x ∘= y` computes `binPure` of `x`'s content and `y`'s block dict; no
    hypothesis relates `y` to `x`: `y` may be `x` itself or share its dicts -/
theorem binaryA_runs (m : Missing) {h : Heap} {x y : ObjId} {a ay : ArrObj} {bd ob : Dict} {pd : Option Dict}
    (wx : WFArr h x a bd pd) (hy : h.arrOf y = some ay) (hyb : h.get? ay.blocks = some (.dict ob)) :
    ∃ hi ho r q c, ((Op.binaryA m).prog true).run h [x, y] = (hi, [x, y, h.size]) ∧
      ((Op.binaryA m).prog false).run h [x, y] = (ho, [x, y, r, q]) ∧
      content hi x = some c ∧ content ho r = some c ∧ hi.bufs = ho.bufs ∧
      (c, hi.bufs) = binPure m (cont a bd pd, h.bufs) ob := by
  -- in place
  obtain ⟨hi, ai, bi, pi, ri, wi, ei, _⟩ := binaryK_refines 0 1 m .done (env := [x, y]) (by simp)
    (by simpa [envGet] using wx) (by simpa [envGet] using hy) hyb
  -- out of place
  obtain ⟨ac, bc, pc, wc, ec, hbc⟩ := copyArr_refines wx
  have cs := copyArr_spec h x
  obtain ⟨ho, ao, bo, po, ro, wo, eo, _⟩ := binaryK_refines 2 1 m .done (h := (copyArr h x).1)
    (env := [x, y, (copyArr h x).2]) (by simp) (by simpa [envGet] using wc)
    (by simpa [envGet] using arrOf_ext cs.1 hy) (by rw [cs.1.get? (get?_lt hyb)]; exact hyb)
  rw [ec, hbc] at eo
  refine ⟨hi, ho, (copyArr h x).2, (copyArr h x).1.size, cont ai bi pi, ?_, ?_, ?_, ?_, ?_, ei⟩
  · simpa [Op.prog, Prog.run] using ri
  · simp only [Op.prog, Bool.false_eq_true, if_false, Prog.run, runCmd, envGet, List.getD_cons_zero,
      List.cons_append, List.nil_append]
    simpa [Prog.run] using ro
  · simpa [envGet] using wi.content
  · have := wo.content
    simp only [envGet, List.getD_cons_succ, List.getD_cons_zero] at this
    rw [this, (Prod.mk.inj (eo.trans ei.symm)).1]
  · exact ((Prod.mk.inj (eo.trans ei.symm)).2).symm

/-! ### `FermionicArray._binary_blockwise_op` -/

theorem binaryF_prog_true (m : Missing) : (Op.binaryF m).prog true = bodyF 0 2 m := rfl
theorem binaryF_prog_false (m : Missing) : (Op.binaryF m).prog false = .cmd (.copy 0) (bodyF 2 3 m) := rfl

/-- the two runs of `binaryF`, given what `other` looks like after the left operand (in place: `x`,
    out of place: the copy) has been synchronised -/
theorem binaryF_runs_core (m : Missing) {h : Heap} {x y : ObjId} {a : ArrObj} {bd : Dict} {pd : Option Dict}
    (wx : WFArr h x a bd pd) (cy : Content)
    (HYi : ∀ h1 a1 b1 p1, WFArr h1 x a1 b1 p1 → TStep h h1 x →
      cont a1 b1 p1 = (S.phaseSync.pure (cont a bd pd, h.bufs)).1 →
      ∃ ay bo po, WFArr h1 y ay bo po ∧ cont ay bo po = cy)
    (HYo : ∀ h1, TStep (copyArr h x).1 h1 (copyArr h x).2 →
      ∃ ay bo po, WFArr h1 y ay bo po ∧ cont ay bo po = cy) :
    ∃ hi ho r e1 e2 c, ((Op.binaryF m).prog true).run h [x, y] = (hi, [x, y] ++ e1) ∧
      ((Op.binaryF m).prog false).run h [x, y] = (ho, [x, y, r] ++ e2) ∧
      content hi x = some c ∧ content ho r = some c ∧ hi.bufs = ho.bufs ∧
      (c, hi.bufs) = bodyFPure m (cont a bd pd) cy h.bufs := by
  obtain ⟨hi, e1, ai, bi, pi, ri, wi, ei⟩ := bodyF_refines 0 m (env := [x, y]) (by simp) (by simp)
    (by simpa [envGet] using wx) cy (by simpa [envGet] using HYi)
  obtain ⟨ac, bc, pc, wc, ec, hbc⟩ := copyArr_refines wx
  obtain ⟨ho, e2, ao, bo, po, ro, wo, eo⟩ := bodyF_refines 2 m (h := (copyArr h x).1)
    (env := [x, y, (copyArr h x).2]) (by simp) (by simp) (by simpa [envGet] using wc) cy
    (by
      intro h1 a1 b1 p1 _ t1 _
      simp only [envGet, List.getD_cons_succ, List.getD_cons_zero] at t1 ⊢
      exact HYo h1 t1)
  rw [ec, hbc] at eo
  refine ⟨hi, ho, (copyArr h x).2, e1, e2, cont ai bi pi, ?_, ?_, ?_, ?_, ?_, ei⟩
  · rw [binaryF_prog_true]; exact ri
  · rw [binaryF_prog_false]
    simp only [Prog.run, runCmd, envGet, List.getD_cons_zero, List.cons_append, List.nil_append]
    exact ro
  · simpa [envGet] using wi.content
  · have := wo.content
    simp only [envGet, List.getD_cons_succ, List.getD_cons_zero] at this
    rw [this, (Prod.mk.inj (eo.trans ei.symm)).1]
  · exact ((Prod.mk.inj (eo.trans ei.symm)).2).symm

/-- `y` shares no object with `x` -/
theorem binaryF_runs (m : Missing) {h : Heap} {x y : ObjId} {a ay : ArrObj} {bd bo : Dict} {pd po : Option Dict}
    (wx : WFArr h x a bd pd) (wy : WFArr h y ay bo po) (hne : y ≠ x)
    (hdis : ∀ d ∈ dictsOf h y, d ∉ dictsOf h x) :
    ∃ hi ho r e1 e2 c, ((Op.binaryF m).prog true).run h [x, y] = (hi, [x, y] ++ e1) ∧
      ((Op.binaryF m).prog false).run h [x, y] = (ho, [x, y, r] ++ e2) ∧
      content hi x = some c ∧ content ho r = some c ∧ hi.bufs = ho.bufs ∧
      (c, hi.bufs) = bodyFPure m (cont a bd pd) (cont ay bo po) h.bufs := by
  have cs := copyArr_spec h x
  exact binaryF_runs_core m wx (cont ay bo po)
    (fun h1 _ _ _ _ t1 _ => ⟨ay, bo, po, t1.wf_other wy hne hdis, rfl⟩)
    (fun h1 t1 => ⟨ay, bo, po, t1.wf_old cs.2 cs.1 wy, rfl⟩)

/-- `phase_sync` of an array without pending signs does nothing -/
theorem phaseSync_pure_clean (c : Content) (bufs : Bufs) (hc : c.phases.getD [] = []) :
    S.phaseSync.pure (c, bufs) = (c, bufs) := by
  simp [S.phaseSync, Script.pure, hc]

/-- `x ∘= x` for an array without pending signs -/
theorem binaryF_runs_self (m : Missing) {h : Heap} {x : ObjId} {a : ArrObj} {bd : Dict} {pd : Option Dict}
    (wx : WFArr h x a bd pd) (hclean : pd.getD [] = []) :
    ∃ hi ho r e1 e2 c, ((Op.binaryF m).prog true).run h [x, x] = (hi, [x, x] ++ e1) ∧
      ((Op.binaryF m).prog false).run h [x, x] = (ho, [x, x, r] ++ e2) ∧
      content hi x = some c ∧ content ho r = some c ∧ hi.bufs = ho.bufs ∧
      (c, hi.bufs) = bodyFPure m (cont a bd pd) (cont a bd pd) h.bufs := by
  have cs := copyArr_spec h x
  refine binaryF_runs_core m wx (cont a bd pd) ?_ (fun h1 t1 => ⟨a, bd, pd, t1.wf_old cs.2 cs.1 wx, rfl⟩)
  intro h1 a1 b1 p1 w1 _ e1
  rw [phaseSync_pure_clean _ _ (by simpa [cont] using hclean)] at e1
  exact ⟨a1, b1, p1, w1, e1⟩

/-! ### `drop_misaligned_sectors(a, b, axes_a, axes_b, inplace)` -/

theorem alignAxes_prog (p : AlignP) (ip : Bool) : (Op.alignAxes p).prog ip = alignK 0 1 p ip .done := rfl

/-- `a` and `b` share no object: both runs give the same pair of values -/
theorem align_runs (p : AlignP) {h : Heap} {x y : ObjId} {a ay : ArrObj} {bd bo : Dict} {pd po : Option Dict}
    (wx : WFArr h x a bd pd) (wy : WFArr h y ay bo po) (hne : y ≠ x)
    (hdis : ∀ d ∈ dictsOf h y, d ∉ dictsOf h x) :
    ∃ hi ho r1 r2 c1 c2, ((Op.alignAxes p).prog true).run h [x, y] = (hi, [x, y]) ∧
      ((Op.alignAxes p).prog false).run h [x, y] = (ho, [x, y, r1, r2]) ∧
      content hi x = some c1 ∧ content hi y = some c2 ∧
      content ho r1 = some c1 ∧ content ho r2 = some c2 ∧ hi.bufs = ho.bufs ∧
      (c1, (modifyP (alignMods p (cont a bd pd) (cont ay bo po)).1 (cont a bd pd, h.bufs)).2) =
        modifyP (alignMods p (cont a bd pd) (cont ay bo po)).1 (cont a bd pd, h.bufs) ∧
      (c2, hi.bufs) = modifyP (alignMods p (cont a bd pd) (cont ay bo po)).2
        (cont ay bo po, (modifyP (alignMods p (cont a bd pd) (cont ay bo po)).1 (cont a bd pd, h.bufs)).2) := by
  have hv0 : View.at (([x, y] : Env).map (see h)) 0 = cont a bd pd :=
    view_at (by simp) (by simpa [envGet] using wx)
  have hv1 : View.at (([x, y] : Env).map (see h)) 1 = cont ay bo po :=
    view_at (by simp) (by simpa [envGet] using wy)
  generalize hms : alignMods p (cont a bd pd) (cont ay bo po) = ms
  -- in place
  obtain ⟨a1, b1, p1, w1, e1⟩ := runAct_refines (.modify ms.1) wx
  have t1 := runAct_tstep (.modify ms.1) h x
  have wy1 := t1.wf_other wy hne hdis
  obtain ⟨a2, b2, p2, w2, e2⟩ := runAct_refines (.modify ms.2) wy1
  have t2 := runAct_tstep (.modify ms.2) (runAct (.modify ms.1) h x) y
  have hylt : y < h.size := get?_lt wy.arr
  have wx2 := t2.wf_other w1 (Ne.symm hne) (by
    intro d hd hd'
    rw [t1.dictsOf_other hylt hne] at hd'
    rcases t1.dicts d hd with h1 | h1
    · exact hdis d hd' h1
    · exact absurd (dictsOf_lt wy d hd') (Nat.not_lt.mpr h1))
  -- out of place
  obtain ⟨ac, bc, pc, wc, ec⟩ := copyWithArr_refines ms.1 wx
  have cs1 := copyWithArr_spec h x ms.1
  have wyc := wf_ext cs1.1 wy
  obtain ⟨ad, bdd, pdd, wd, ed⟩ := copyWithArr_refines ms.2 wyc
  have cs2 := copyWithArr_spec (copyWithArr h x ms.1).1 y ms.2
  have wc2 := wf_ext cs2.1 wc
  have hb1 : (runAct (.modify ms.1) h x).bufs = (copyWithArr h x ms.1).1.bufs := by
    have := e1.trans ec.symm
    exact (Prod.mk.inj this).2
  have k2 : (cont ad bdd pdd, (copyWithArr (copyWithArr h x ms.1).1 y ms.2).1.bufs) =
      (cont a2 b2 p2, (runAct (.modify ms.2) (runAct (.modify ms.1) h x) y).bufs) := by
    rw [ed, e2, hb1]; rfl
  refine ⟨runAct (.modify ms.2) (runAct (.modify ms.1) h x) y, (copyWithArr (copyWithArr h x ms.1).1 y ms.2).1,
    (copyWithArr h x ms.1).2, (copyWithArr (copyWithArr h x ms.1).1 y ms.2).2,
    cont a1 b1 p1, cont a2 b2 p2, ?_, ?_, wx2.content, w2.content, ?_, ?_, ?_, ?_, ?_⟩
  · rw [alignAxes_prog]
    simp only [alignK, Prog.run, hv0, hv1, hms, if_true, runCmd, envGet, List.getD_cons_zero,
      List.getD_cons_succ]
  · rw [alignAxes_prog]
    simp only [alignK, Prog.run, hv0, hv1, hms, Bool.false_eq_true, if_false, runCmd, envGet,
      List.getD_cons_zero, List.getD_cons_succ, List.cons_append, List.nil_append]
  · rw [wc2.content, (Prod.mk.inj (ec.trans e1.symm)).1]
  · rw [wd.content, (Prod.mk.inj k2).1]
  · exact ((Prod.mk.inj k2).2).symm
  · have e1' : (cont a1 b1 p1, (runAct (.modify ms.1) h x).bufs) = modifyP ms.1 (cont a bd pd, h.bufs) := e1
    rw [← e1']
  · have e1' : (cont a1 b1 p1, (runAct (.modify ms.1) h x).bufs) = modifyP ms.1 (cont a bd pd, h.bufs) := e1
    rw [← e1']; exact e2

/-- `drop_misaligned_sectors(a, a, …, inplace=True)`: the second `modify` overwrites the first; the
    object ends with the value of the SECOND out-of-place result -/
theorem align_runs_self (p : AlignP) {h : Heap} {x : ObjId} {a : ArrObj} {bd : Dict} {pd : Option Dict}
    (wx : WFArr h x a bd pd) :
    ∃ hi ho r1 r2 c2, ((Op.alignAxes p).prog true).run h [x, x] = (hi, [x, x]) ∧
      ((Op.alignAxes p).prog false).run h [x, x] = (ho, [x, x, r1, r2]) ∧
      content hi x = some c2 ∧ content ho r2 = some c2 ∧ hi.bufs = ho.bufs := by
  have hv0 : View.at (([x, x] : Env).map (see h)) 0 = cont a bd pd :=
    view_at (by simp) (by simpa [envGet] using wx)
  have hv1 : View.at (([x, x] : Env).map (see h)) 1 = cont a bd pd :=
    view_at (by simp) (by simpa [envGet] using wx)
  generalize hms : alignMods p (cont a bd pd) (cont a bd pd) = ms
  have hm1 : ms.1.charge = none ∧ ms.1.phases = none ∧ ms.2.charge = none ∧ ms.2.phases = none ∧
      ms.2.indices.isSome ∧ ms.2.blocks.isSome := by
    rw [← hms]; simp [alignMods]
  obtain ⟨a1, b1, p1, w1, e1⟩ := runAct_refines (.modify ms.1) wx
  obtain ⟨a2, b2, p2, w2, e2⟩ := runAct_refines (.modify ms.2) w1
  obtain ⟨ac, bc, pc, wc, ec⟩ := copyWithArr_refines ms.1 wx
  have cs1 := copyWithArr_spec h x ms.1
  have wxc := wf_ext cs1.1 wx
  obtain ⟨ad, bdd, pdd, wd, ed⟩ := copyWithArr_refines ms.2 wxc
  have hb1 : (runAct (.modify ms.1) h x).bufs = (copyWithArr h x ms.1).1.bufs :=
    (Prod.mk.inj (e1.trans ec.symm)).2
  have key : (cont a2 b2 p2, (runAct (.modify ms.2) (runAct (.modify ms.1) h x) x).bufs) =
      (cont ad bdd pdd, (copyWithArr (copyWithArr h x ms.1).1 x ms.2).1.bufs) := by
    rw [e2, ed, ← hb1]
    have h1 := (Prod.mk.inj e1).1
    obtain ⟨q1, q2, q3, q4, q5, q6⟩ := hm1
    obtain ⟨i2, hi2⟩ := Option.isSome_iff_exists.mp q5
    obtain ⟨es2, hes2⟩ := Option.isSome_iff_exists.mp q6
    simp only [modifyP, Act.pure, q1, q2, q3, q4, hi2, hes2, Option.getD_some, Option.getD_none] at h1 ⊢
    rw [h1]
    simp [newPd]
  refine ⟨runAct (.modify ms.2) (runAct (.modify ms.1) h x) x, (copyWithArr (copyWithArr h x ms.1).1 x ms.2).1,
    (copyWithArr h x ms.1).2, (copyWithArr (copyWithArr h x ms.1).1 x ms.2).2,
    cont a2 b2 p2, ?_, ?_, w2.content, ?_, (Prod.mk.inj key).2⟩
  · rw [alignAxes_prog]
    simp only [alignK, Prog.run, hv0, hv1, hms, if_true, runCmd, envGet, List.getD_cons_zero,
      List.getD_cons_succ]
  · rw [alignAxes_prog]
    simp only [alignK, Prog.run, hv0, hv1, hms, Bool.false_eq_true, if_false, runCmd, envGet,
      List.getD_cons_zero, List.getD_cons_succ, List.cons_append, List.nil_append]
  · rw [wd.content, (Prod.mk.inj key).1]

end SymmModel.Heap
