/-
  SymmModel.Proofs.NetNorm1 — network form of the norm (property C10), continuation part 1 (after NormNet24):
  the weak guard between two halves contracted in OPPOSITE operand orders (crossed leg pairs), for
  halves of any mode, and the transfer of a crossed full contraction from the blockwise halves to
  halves / a final call in `fused` / `auto` mode.
-/
import SymmModel.Proofs.NormNet24
namespace SymmModel.NormNet
open SymmModel SymmModel.Lazy SymmModel.Norm SymmModel.TdotP SymmModel.GradedP SymmModel.RoutesP
open SymmModel.AssocP SymmModel.Assoc3P
set_option linter.unusedSectionVars false

/-! ## legs that can be contracted with each other -/
section opp

/-- `j` has the charge table of `i` and the opposite direction -/
def Opp (i j : Index) : Prop := j.cm = i.cm ∧ j.dual = !i.dual

theorem opp_conj (i : Index) : Opp i i.conj := ⟨Index.conj_cm i, Lazy.Index.conj_dual i⟩

theorem opp_conj' (i : Index) : Opp i.conj i :=
  ⟨(Index.conj_cm i).symm, by rw [Lazy.Index.conj_dual]; simp⟩

theorem forall₂_opp_conj (U : List Index) : List.Forall₂ Opp U (U.map Index.conj) := by
  induction U with
  | nil => exact .nil
  | cons x xs ih => exact .cons (opp_conj x) ih

theorem forall₂_opp_conj' (U : List Index) : List.Forall₂ Opp (U.map Index.conj) U := by
  induction U with
  | nil => exact .nil
  | cons x xs ih => exact .cons (opp_conj' x) ih

theorem getD_app_left (l l' : List Index) (j : Nat) (hj : j < l.length) :
    (l ++ l').getD j default = l.getD j default := by
  simp only [List.getD_eq_getElem?_getD]
  rw [List.getElem?_append_left hj]

theorem getD_app_right (l l' : List Index) (j : Nat) :
    (l ++ l').getD (l.length + j) default = l'.getD j default := by
  simp only [List.getD_eq_getElem?_getD]
  rw [List.getElem?_append_right (Nat.le_add_right _ _), Nat.add_sub_cancel_left]

theorem rotAx_getD_left (m k j : Nat) (hj : j < k) : (rotAx m k).getD j 0 = m + j := by
  unfold rotAx
  simp only [List.getD_eq_getElem?_getD]
  rw [List.getElem?_append_left (by rw [List.length_map, List.length_range]; exact hj)]
  simp [List.getElem?_map, List.getElem?_range hj]

theorem rotAx_getD_right (m k j : Nat) (hj : j < m) : (rotAx m k).getD (k + j) 0 = j := by
  unfold rotAx
  simp only [List.getD_eq_getElem?_getD]
  have : ((List.range k).map (m + ·)).length = k := by rw [List.length_map, List.length_range]
  rw [List.getElem?_append_right (by rw [this]; exact Nat.le_add_right _ _), this,
    Nat.add_sub_cancel_left]
  simp [List.getElem?_range hj]

end opp

/-! ## the weak guard with crossed leg pairs -/
section cross
variable {R : Type}

/-- `X` has a table frame `U ++ V`, `Z` a table frame `V' ++ U'` whose legs are opposite to those of
    `U`, `V`: `Z` against `X` with the crossed leg pairs satisfies the weak guard -/
theorem cross_common {Z X : Arr R} {U V U' V' : List Index}
    (hZ : List.Forall₂ SizeLe Z.indices (V' ++ U')) (hX : List.Forall₂ SizeLe X.indices (U ++ V))
    (hU : List.Forall₂ Opp U U') (hV : List.Forall₂ Opp V V')
    (hnZ : ∀ ix ∈ Z.indices, (ix.cm.map (·.1)).Nodup)
    (hnF : ∀ ix ∈ U ++ V, (ix.cm.map (·.1)).Nodup) :
    contractibleCommonB Z X (crossAx U.length V.length) (List.range (U.length + V.length)) = true := by
  rw [crossAx_eq_rotAx, commonB_iff]
  refine ⟨by rw [rotAx_length, List.length_range]; omega, fun j hj => ?_⟩
  rw [rotAx_length] at hj
  rw [getD_range _ _ (by omega)]
  have hlU := hU.length_eq
  have hlV := hV.length_eq
  have hlF : (U ++ V).length = U.length + V.length := List.length_append
  have hlG : (V' ++ U').length = V.length + U.length := by rw [List.length_append, hlU, hlV]
  have key : ∃ c, (rotAx V.length U.length).getD j 0 = c ∧ c < V.length + U.length
      ∧ Opp ((U ++ V).getD j default) ((V' ++ U').getD c default) := by
    by_cases h1 : j < U.length
    · refine ⟨V.length + j, rotAx_getD_left _ _ _ h1, by omega, ?_⟩
      rw [getD_app_left _ _ _ h1, hlV, getD_app_right]
      exact forall₂_getD hU j h1 default default
    · obtain ⟨i, rfl⟩ : ∃ i, j = U.length + i := ⟨j - U.length, by omega⟩
      have hi : i < V.length := by omega
      refine ⟨i, rotAx_getD_right _ _ _ hi, by omega, ?_⟩
      rw [getD_app_right, getD_app_left _ _ _ (by rw [← hlV]; exact hi)]
      exact forall₂_getD hV i hi default default
  obtain ⟨c, hc, hcl, hopp⟩ := key
  rw [hc]
  have sZ := forall₂_getD hZ c (by rw [hZ.length_eq, hlG]; exact hcl) default default
  have sX := forall₂_getD hX j (by rw [hX.length_eq, hlF]; omega) default default
  have hmZ : Z.indices.getD c default ∈ Z.indices :=
    getD_mem_idx (by rw [hZ.length_eq, hlG]; exact hcl)
  have hmF : (U ++ V).getD j default ∈ U ++ V := getD_mem_idx (by rw [hlF]; omega)
  have c0 : cmAgree ((V' ++ U').getD c default).cm ((U ++ V).getD j default).cm = true := by
    rw [hopp.1]; exact cmAgree_self (hnF _ hmF)
  refine ⟨cmAgree_of_sizeLe_right sX (cmAgree_of_sizeLe_left sZ (hnZ _ hmZ) c0), ?_⟩
  rw [sX.1, sZ.1, hopp.2]; simp

end cross

/-! ## a half in blockwise mode next to the same half in any mode -/
section half
variable {R : Type}

/-- `Y` (blockwise) and `Ym` (any mode): the same half of a network, with the un-pruned table
    frame `F` -/
structure Half [Zero R] [Neg R] (Y Ym : Arr R) (F : List Index) : Prop where
  pad : Pad Ym Y
  vY : Y.validB = true
  vYm : Ym.validB = true
  fY : Y.fermi = true
  fYm : Ym.fermi = true
  odd : Ym.oddpos = Y.oddpos
  chg : Ym.charge = Y.charge
  frY : List.Forall₂ SizeLe Y.indices F
  frYm : List.Forall₂ SizeLe Ym.indices F

variable [AddCommMonoid R] [Mul R] [Neg R] [SignRing R]

/-- a call in any mode next to the blockwise call gives a `Half` -/
theorem half_of_call (hz1 : ∀ x : R, 0 * x = 0) (hz2 : ∀ x : R, x * 0 = 0) (a b : Arr R)
    (xa xb : List Nat) (W : AdmW a b xa xb) (mode : TdotMode) (K : Arr R)
    (eK : a.tensordotF b (.pair (xa.map Int.ofNat) (xb.map Int.ofNat)) .blockwise = .ok K) :
    ∃ Km, a.tensordotF b (.pair (xa.map Int.ofNat) (xb.map Int.ofNat)) mode = .ok Km
      ∧ Half K Km (without a.indices xa ++ without b.indices xb) ∧ K.sym = a.sym := by
  obtain ⟨Km, e, p, Im, Ib, o, c⟩ := call_any2 hz1 hz2 a b xa xb W mode K eK
  exact ⟨Km, e, ⟨p, Ib.valid, Im.valid, Ib.fermi, Im.fermi, o, c, Ib.frame, Im.frame⟩, Ib.sym⟩

/-- **a crossed full contraction in any mode.**  `Z`, `X` two halves with opposite, crossed table
    frames, `Zm`, `Xm` the same halves in any mode; from the blockwise scalar `Z·X` (crossed leg
    pairs): the call `Zm·Xm` in any mode succeeds and is the same scalar with the same labels. -/
theorem cross_call_any (hz1 : ∀ x : R, 0 * x = 0) (hz2 : ∀ x : R, x * 0 = 0)
    {Z Zm X Xm : Arr R} {U V U' V' : List Index}
    (HZ : Half Z Zm (V' ++ U')) (HX : Half X Xm (U ++ V)) (hsym : Z.sym = X.sym)
    (hU : List.Forall₂ Opp U U') (hV : List.Forall₂ Opp V V')
    (hnF : ∀ ix ∈ U ++ V, (ix.cm.map (·.1)).Nodup) (r : Arr R)
    (hr : Z.tensordotF X (.pair ((crossAx U.length V.length).map Int.ofNat)
        ((List.range (U.length + V.length)).map Int.ofNat)) .blockwise = .ok r)
    (hrn : r.ndim = 0) (mode : TdotMode) :
    ∃ rm, Zm.tensordotF Xm (.pair ((crossAx U.length V.length).map Int.ofNat)
          ((List.range (U.length + V.length)).map Int.ofNat)) mode = .ok rm
      ∧ rm.ndim = 0 ∧ rm.oddpos = r.oddpos ∧ rm.elem [] [] = r.elem [] [] := by
  have hlU := hU.length_eq
  have hlV := hV.length_eq
  have nd : ∀ (Y : Arr R) (F : List Index), List.Forall₂ SizeLe Y.indices F → Y.ndim = F.length :=
    fun Y F h => h.length_eq
  have hlF : (U ++ V).length = U.length + V.length := List.length_append
  have hlG : (V' ++ U').length = U.length + V.length := by
    rw [List.length_append, ← hlU, ← hlV]; omega
  have ltC : ∀ (Y : Arr R), Y.ndim = U.length + V.length →
      ∀ i ∈ crossAx U.length V.length, i < Y.ndim := by
    intro Y hY i hi
    have := List.mem_range.mp ((crossAx_perm U.length V.length).mem_iff.mp hi)
    omega
  have ltR : ∀ (Y : Arr R), Y.ndim = U.length + V.length →
      ∀ i ∈ List.range (U.length + V.length), i < Y.ndim := by
    intro Y hY i hi; have := List.mem_range.mp hi; omega
  have ndC : (crossAx U.length V.length).Nodup :=
    (crossAx_perm U.length V.length).nodup_iff.mpr List.nodup_range
  have Wq : AdmW Z X (crossAx U.length V.length) (List.range (U.length + V.length)) :=
    ⟨HZ.vY, HX.vY, HZ.fY, HX.fY, hsym,
      cross_common HZ.frY HX.frY hU hV (keys_nodup_of_validB HZ.vY) hnF, ndC, List.nodup_range,
      ltC Z ((nd _ _ HZ.frY).trans hlG), ltR X ((nd _ _ HX.frY).trans hlF)⟩
  have Wp : AdmW Zm Xm (crossAx U.length V.length) (List.range (U.length + V.length)) :=
    ⟨HZ.vYm, HX.vYm, HZ.fYm, HX.fYm, by rw [HZ.pad.sym, HX.pad.sym, hsym],
      cross_common HZ.frYm HX.frYm hU hV (keys_nodup_of_validB HZ.vYm) hnF, ndC, List.nodup_range,
      ltC Zm ((nd _ _ HZ.frYm).trans hlG), ltR Xm ((nd _ _ HX.frYm).trans hlF)⟩
  obtain ⟨zp, ezp, pz, oz, _⟩ :=
    pad_blockwise hz1 hz2 HZ.pad HX.pad Wp Wq HZ.odd HZ.chg HX.odd HX.chg r hr
  obtain ⟨rm, e, prm, _, orm, _⟩ := call_any hz1 hz2 Zm Xm _ _ Wp mode zp ezp
  have n1 : rm.ndim = 0 := prm.ndim.trans (pz.ndim.trans hrn)
  exact ⟨rm, e, n1, orm.trans oz, by rw [pad_elem_nil prm n1, pad_elem_nil pz (pz.ndim.trans hrn)]⟩

end half

end SymmModel.NormNet
