/-
  SymmModel.Proofs.Assoc3Main — S7 of property C04 with the WEAK guard (`contractibleCommonB`) on ALL
  calls: triples, guards of the second calls, boxes, index tables, and the theorem.
  The statements and proofs are those of `Assoc2Main` with `Tri` (guards `contractibleB`) replaced by
  `TriW`; definitions (`axesAB`, `S3`, `W3`, `triplesL/R`, `FreeAddr`, `IsTriple`, …) are shared.
  Namespace `SymmModel.Assoc3P`.
-/
import SymmModel.Proofs.Assoc3Right

namespace SymmModel
namespace Assoc3P
open TdotP GradedP RoutesP KoszulP AssocP Assoc2P
open Lazy (sgnI)
set_option linter.unusedSectionVars false

variable {R : Type}

section triples
variable [AddMonoid R] [Mul R] [Neg R] [SignRing R]
variable {A B C AB BC : Arr R} {xa1 xa3 xb1 xb2 xc2 xc3 : List Nat} {ph : Int}

theorem mem_triplesL_w (I : Inter A B xa1 xb1 AB ph) (T : TriW A B C xa1 xa3 xb1 xb2 xc2 xc3)
    {s : Sector} {t : Sector × Sector × Sector} :
    t ∈ triplesL A B C AB xa1 xa3 xb1 xb2 xc2 xc3 s ↔ IsTriple A B C xa1 xa3 xb1 xb2 xc2 xc3 s t := by
  have hsa := Arr.shapesOk_of_validB T.hAB.va
  have hsb := Arr.shapesOk_of_validB T.hAB.vb
  have hsc := Arr.shapesOk_of_validB T.hBC.vb
  have hlenAC : xa3.length = xc3.length := commonB_len T.conAC
  unfold Assoc2P.triplesL Assoc2P.IsTriple
  simp only [List.mem_flatMap, List.mem_map]
  constructor
  · rintro ⟨⟨sab, sc⟩, hp, ⟨sa, sb⟩, hq, rfl⟩
    obtain ⟨_, hC, h23, h4⟩ := mem_storedPairs.mp hp
    obtain ⟨hA, hB, h1, hsab⟩ := mem_storedPairs.mp hq
    simp only at hsab h23 h4 hC ⊢
    subst hsab
    have hlsa := Arr.sector_length hsa hA
    have hlsb := Arr.sector_length hsb hB
    have hlsc := Arr.sector_length hsc hC
    rw [readAB_ax T.mA T.mB sa sb hlsa hlsb, ValidP.permuted_append] at h23
    obtain ⟨h3, h2⟩ := List.append_inj h23 (by
      rw [permuted_length _ _ (by rw [hlsc]; exact T.mC.lt2),
        permuted_length _ _ (by rw [hlsa]; exact T.mA.lt2), hlenAC])
    rw [I.ndim, readAB_free T.mA T.mB sa sb hlsa hlsb, freeM_comm C.ndim xc2 xc3] at h4
    exact ⟨hA, hB, hC, h1, h2, h3, h4⟩
  · obtain ⟨sa, sb, sc⟩ := t
    rintro ⟨hA, hB, hC, h1, h2, h3, h4⟩
    simp only at hA hB hC h1 h2 h3 h4
    have hlsa := Arr.sector_length hsa hA
    have hlsb := Arr.sector_length hsb hB
    refine ⟨(permuted sa (freeAxes A.ndim xa1) ++ permuted sb (freeAxes B.ndim xb1), sc),
      mem_storedPairs.mpr ⟨I.mem_sectors.mpr ⟨sa, hA, sb, hB, h1, rfl⟩, hC, ?_, ?_⟩,
      (sa, sb), mem_storedPairs.mpr ⟨hA, hB, h1, rfl⟩, rfl⟩
    · rw [readAB_ax T.mA T.mB sa sb hlsa hlsb, ValidP.permuted_append, h3, h2]
    · rw [I.ndim, readAB_free T.mA T.mB sa sb hlsa hlsb, freeM_comm C.ndim xc2 xc3]; exact h4

theorem mem_triplesR_w (I : Inter B C xb2 xc2 BC ph) (T : TriW A B C xa1 xa3 xb1 xb2 xc2 xc3)
    {s : Sector} {t : Sector × Sector × Sector} :
    t ∈ triplesR A B C BC xa1 xa3 xb1 xb2 xc2 xc3 s ↔ IsTriple A B C xa1 xa3 xb1 xb2 xc2 xc3 s t := by
  have hsa := Arr.shapesOk_of_validB T.hAB.va
  have hsb := Arr.shapesOk_of_validB T.hAB.vb
  have hsc := Arr.shapesOk_of_validB T.hBC.vb
  unfold Assoc2P.triplesR Assoc2P.IsTriple
  simp only [List.mem_flatMap, List.mem_map]
  constructor
  · rintro ⟨⟨sa, sbc⟩, hp, ⟨sb, sc⟩, hq, rfl⟩
    obtain ⟨hA, _, h13, h4⟩ := mem_storedPairs.mp hp
    obtain ⟨hB, hC, h2, hsbc⟩ := mem_storedPairs.mp hq
    simp only at hsbc h13 h4 hA ⊢
    subst hsbc
    have hlsa := Arr.sector_length hsa hA
    have hlsb := Arr.sector_length hsb hB
    have hlsc := Arr.sector_length hsc hC
    rw [readBC_ax T.mB T.mC sb sc hlsb hlsc, ValidP.permuted_append] at h13
    obtain ⟨h1, h3⟩ := List.append_inj h13 (by
      rw [permuted_length _ _ (by rw [hlsb]; exact T.mB.lt1),
        permuted_length _ _ (by rw [hlsa]; exact T.mA.lt1), T.hAB.len])
    rw [I.ndim, readBC_free T.mB T.mC sb sc hlsb hlsc, ← List.append_assoc] at h4
    exact ⟨hA, hB, hC, h1, h2, h3, h4⟩
  · obtain ⟨sa, sb, sc⟩ := t
    rintro ⟨hA, hB, hC, h1, h2, h3, h4⟩
    simp only at hA hB hC h1 h2 h3 h4
    have hlsb := Arr.sector_length hsb hB
    have hlsc := Arr.sector_length hsc hC
    refine ⟨(sa, permuted sb (freeAxes B.ndim xb2) ++ permuted sc (freeAxes C.ndim xc2)),
      mem_storedPairs.mpr ⟨hA, I.mem_sectors.mpr ⟨sb, hB, sc, hC, h2, rfl⟩, ?_, ?_⟩,
      (sb, sc), mem_storedPairs.mpr ⟨hB, hC, h2, rfl⟩, rfl⟩
    · rw [readBC_ax T.mB T.mC sb sc hlsb hlsc, ValidP.permuted_append, h1, h3]
    · rw [I.ndim, readBC_free T.mB T.mC sb sc hlsb hlsc, ← List.append_assoc]; exact h4

theorem admW_left_w (I : Inter A B xa1 xb1 AB ph) (T : TriW A B C xa1 xa3 xb1 xb2 xc2 xc3) :
    AdmW AB C (axesAB A.ndim B.ndim xa1 xa3 xb1 xb2) (xc3 ++ xc2) := by
  refine ⟨I.valid, T.hBC.vb, I.fermi, T.hBC.fb, by rw [I.sym, T.hAB.sym, T.hBC.sym], ?_,
    axesAB_nodup T.mA T.mB,
    List.nodup_append.mpr ⟨T.mC.n2, T.mC.n1, fun x hx y hy e => T.mC.disj y hy (e ▸ hx)⟩, ?_, ?_⟩
  · unfold Assoc2P.axesAB
    refine commonB_append (by rw [T.mA.pos_len, commonB_len T.conAC]) ?_
      (conL_w I T.hBC.con T.mB)
    refine commonB_prune_left (a := A) (xa := xa3) T.mA.pos_len ?_
      T.conAC
    intro j hj
    obtain ⟨e2, e3⟩ := pos_getD T.mA j hj
    have := I.leg_left _ e2
    rw [e3] at this
    exact this
  · rw [I.ndim]; exact axesAB_lt T.mA T.mB
  · intro i hi
    rcases List.mem_append.mp hi with h | h
    · exact T.mC.lt2 i h
    · exact T.mC.lt1 i h

theorem admW_right_w (I : Inter B C xb2 xc2 BC ph) (T : TriW A B C xa1 xa3 xb1 xb2 xc2 xc3) :
    AdmW A BC (xa1 ++ xa3) (axesBC B.ndim C.ndim xb1 xb2 xc2 xc3) := by
  refine ⟨T.hAB.va, I.valid, T.hAB.fa, I.fermi, by rw [I.sym]; exact T.hAB.sym, ?_,
    List.nodup_append.mpr ⟨T.mA.n1, T.mA.n2, fun x hx y hy e => T.mA.disj x hx (e ▸ hy)⟩,
    axesAB_nodup T.mB.symm T.mC, ?_, ?_⟩
  · unfold Assoc2P.axesBC
    refine commonB_append (by rw [T.mB.symm.pos_len, T.hAB.len])
      (conR_w I T.hAB.con T.mB) ?_
    refine commonB_prune_right (b := C) (xb := xc3) (by rw [List.length_map, T.mC.pos_len]) ?_
      T.conAC
    intro j hj
    obtain ⟨e1, e2, e3⟩ := AssocP.axesAB_getD (nA := B.ndim) (xa := xb2) T.mC j hj
    have := I.leg_right _ e2
    rw [e3, ← e1] at this
    exact this
  · intro i hi
    rcases List.mem_append.mp hi with h | h
    · exact T.mA.lt1 i h
    · exact T.mA.lt2 i h
  · rw [I.ndim]; exact axesAB_lt T.mB.symm T.mC

theorem keysL_iff_w (I : Inter A B xa1 xb1 AB ph) (T : TriW A B C xa1 xa3 xb1 xb2 xc2 xc3) (s : Sector) :
    s ∈ (tdKeys AB.sectors C.sectors (freeAxes AB.ndim (axesAB A.ndim B.ndim xa1 xa3 xb1 xb2)) (axesAB A.ndim B.ndim xa1 xa3 xb1 xb2) (xc3 ++ xc2) (freeAxes C.ndim (xc3 ++ xc2))).eraseDups
      ↔ ∃ t, IsTriple A B C xa1 xa3 xb1 xb2 xc2 xc3 s t := by
  rw [mem_keys_iff]
  constructor
  · rintro ⟨⟨sab, sc⟩, hp⟩
    obtain ⟨hsab, _, _, _⟩ := mem_storedPairs.mp hp
    obtain ⟨sa, hA, sb, hB, h1, e⟩ := I.mem_sectors.mp hsab
    refine ⟨(sa, sb, sc), (mem_triplesL_w I T).mp ?_⟩
    unfold Assoc2P.triplesL
    exact List.mem_flatMap.mpr ⟨(sab, sc), hp, List.mem_map.mpr
      ⟨(sa, sb), mem_storedPairs.mpr ⟨hA, hB, h1, e.symm⟩, rfl⟩⟩
  · rintro ⟨t, ht⟩
    have := (mem_triplesL_w I T).mpr ht
    unfold Assoc2P.triplesL at this
    obtain ⟨p, hp, _⟩ := List.mem_flatMap.mp this
    exact ⟨p, hp⟩

theorem keysR_iff_w (I : Inter B C xb2 xc2 BC ph) (T : TriW A B C xa1 xa3 xb1 xb2 xc2 xc3) (s : Sector) :
    s ∈ (tdKeys A.sectors BC.sectors (freeAxes A.ndim (xa1 ++ xa3)) (xa1 ++ xa3) (axesBC B.ndim C.ndim xb1 xb2 xc2 xc3) (freeAxes BC.ndim (axesBC B.ndim C.ndim xb1 xb2 xc2 xc3))).eraseDups
      ↔ ∃ t, IsTriple A B C xa1 xa3 xb1 xb2 xc2 xc3 s t := by
  rw [mem_keys_iff]
  constructor
  · rintro ⟨⟨sa, sbc⟩, hp⟩
    obtain ⟨_, hsbc, _, _⟩ := mem_storedPairs.mp hp
    obtain ⟨sb, hB, sc, hC, h1, e⟩ := I.mem_sectors.mp hsbc
    refine ⟨(sa, sb, sc), (mem_triplesR_w I T).mp ?_⟩
    unfold Assoc2P.triplesR
    exact List.mem_flatMap.mpr ⟨(sa, sbc), hp, List.mem_map.mpr
      ⟨(sb, sc), mem_storedPairs.mpr ⟨hB, hC, h1, e.symm⟩, rfl⟩⟩
  · rintro ⟨t, ht⟩
    have := (mem_triplesR_w I T).mpr ht
    unfold Assoc2P.triplesR at this
    obtain ⟨p, hp, _⟩ := List.mem_flatMap.mp this
    exact ⟨p, hp⟩

theorem boxL_w (I : Inter A B xa1 xb1 AB ph) (T : TriW A B C xa1 xa3 xb1 xb2 xc2 xc3)
    {LA LM LC : Sector} {oA oM oC : List Nat}
    (fa : FreeAddr A B C xa1 xa3 xb1 xb2 xc2 xc3 LA LM LC oA oM oC)
    {t : Sector × Sector × Sector} (ht : IsTriple A B C xa1 xa3 xb1 xb2 xc2 xc3 (LA ++ LM ++ LC) t) :
    inBox (Arr.blockShapeD (without AB.indices (axesAB A.ndim B.ndim xa1 xa3 xb1 xb2) ++ without C.indices (xc3 ++ xc2)) (LA ++ LM ++ LC))
      ((oA ++ oM) ++ oC) = true := by
  have hsa := Arr.shapesOk_of_validB T.hAB.va
  have hsb := Arr.shapesOk_of_validB T.hAB.vb
  have hsc := Arr.shapesOk_of_validB T.hBC.vb
  obtain ⟨p1, p2, p3, b1, b2, b3⟩ := fa.parts hsa hsb hsc ht
  obtain ⟨sa, sb, sc⟩ := t
  obtain ⟨hA, hB, hC, h1, _, _, _⟩ := ht
  simp only at hA hB hC h1 p1 p2 p3 b1 b2 b3
  obtain ⟨shpA, hA1, hA2, hA3, hA4⟩ := shape_of_mem hsa hA
  obtain ⟨shpB, hB1, hB2, hB3, hB4⟩ := shape_of_mem hsb hB
  obtain ⟨shpC, hC1, hC2, hC3, hC4⟩ := shape_of_mem hsc hC
  have hAB := blockShape?_permuted (I.shape hsa hsb hA hB h1)
    (freeAxes AB.ndim (axesAB A.ndim B.ndim xa1 xa3 xb1 xb2)) (fun x hx => (mem_freeAxes.mp hx).1)
  rw [hA2, hB2, I.ndim, readAB_free T.mA T.mB sa sb hA4 hB4, readAB_free T.mA T.mB shpA shpB hA3 hB3,
    ← I.ndim] at hAB
  have hCC := blockShape?_permuted hC1 (freeAxes C.ndim (xc2 ++ xc3)) (fun x hx => (mem_freeAxes.mp hx).1)
  have e5 : AB.indices.length = AB.ndim := rfl
  have e6 : C.indices.length = C.ndim := rfl
  rw [without_eq_permuted_freeAxes, without_eq_permuted_freeAxes, e5, e6, freeM_comm C.ndim xc2 xc3,
    Arr.blockShapeD, ← p1, ← p2, ← p3, blockShape?_append hAB hCC]
  rw [hA2] at b1
  rw [hB2] at b2
  rw [hC2] at b3
  exact inBox3
    (by rw [fa.loA, permuted_length _ _ (by intro x hx; rw [hA3]; exact (mem_freeAxes.mp hx).1)])
    (by rw [fa.loM, permuted_length _ _ (by intro x hx; rw [hB3]; exact (mem_freeAxes.mp hx).1)])
    b1 b2 b3

theorem boxR_w (I : Inter B C xb2 xc2 BC ph) (T : TriW A B C xa1 xa3 xb1 xb2 xc2 xc3)
    {LA LM LC : Sector} {oA oM oC : List Nat}
    (fa : FreeAddr A B C xa1 xa3 xb1 xb2 xc2 xc3 LA LM LC oA oM oC)
    {t : Sector × Sector × Sector} (ht : IsTriple A B C xa1 xa3 xb1 xb2 xc2 xc3 (LA ++ LM ++ LC) t) :
    inBox (Arr.blockShapeD (without A.indices (xa1 ++ xa3) ++ without BC.indices (axesBC B.ndim C.ndim xb1 xb2 xc2 xc3)) (LA ++ LM ++ LC))
      (oA ++ (oM ++ oC)) = true := by
  have hsa := Arr.shapesOk_of_validB T.hAB.va
  have hsb := Arr.shapesOk_of_validB T.hAB.vb
  have hsc := Arr.shapesOk_of_validB T.hBC.vb
  obtain ⟨p1, p2, p3, b1, b2, b3⟩ := fa.parts hsa hsb hsc ht
  obtain ⟨sa, sb, sc⟩ := t
  obtain ⟨hA, hB, hC, _, h2, _, _⟩ := ht
  simp only at hA hB hC h2 p1 p2 p3 b1 b2 b3
  obtain ⟨shpA, hA1, hA2, hA3, hA4⟩ := shape_of_mem hsa hA
  obtain ⟨shpB, hB1, hB2, hB3, hB4⟩ := shape_of_mem hsb hB
  obtain ⟨shpC, hC1, hC2, hC3, hC4⟩ := shape_of_mem hsc hC
  have hBC := blockShape?_permuted (I.shape hsb hsc hB hC h2)
    (freeAxes BC.ndim (axesBC B.ndim C.ndim xb1 xb2 xc2 xc3)) (fun x hx => (mem_freeAxes.mp hx).1)
  rw [hB2, hC2, I.ndim, readBC_free T.mB T.mC sb sc hB4 hC4, readBC_free T.mB T.mC shpB shpC hB3 hC3,
    ← I.ndim] at hBC
  have hAA := blockShape?_permuted hA1 (freeAxes A.ndim (xa1 ++ xa3)) (fun x hx => (mem_freeAxes.mp hx).1)
  have e5 : BC.indices.length = BC.ndim := rfl
  have e6 : A.indices.length = A.ndim := rfl
  rw [without_eq_permuted_freeAxes, without_eq_permuted_freeAxes, e5, e6, Arr.blockShapeD,
    List.append_assoc LA LM LC, ← p1, ← p2, ← p3, blockShape?_append hAA hBC,
    ← List.append_assoc oA oM oC]
  rw [hA2] at b1
  rw [hB2] at b2
  rw [hC2] at b3
  show inBox (permuted shpA _ ++ (permuted shpB _ ++ permuted shpC _)) _ = true
  rw [← List.append_assoc]
  exact inBox3
    (by rw [fa.loA, permuted_length _ _ (by intro x hx; rw [hA3]; exact (mem_freeAxes.mp hx).1)])
    (by rw [fa.loM, permuted_length _ _ (by intro x hx; rw [hB3]; exact (mem_freeAxes.mp hx).1)])
    b1 b2 b3

theorem idxL_w (I : Inter A B xa1 xb1 AB ph) (T : TriW A B C xa1 xa3 xb1 xb2 xc2 xc3) (Tr : Arr R)
    (F : CoreFrame AB C (axesAB A.ndim B.ndim xa1 xa3 xb1 xb2) (xc3 ++ xc2) Tr) :
    Tr.indices = dropUnused (permuted A.indices (freeAxes A.ndim (xa1 ++ xa3)) ++ (permuted B.indices (freeAxes B.ndim (xb1 ++ xb2)) ++ permuted C.indices (freeAxes C.ndim (xc2 ++ xc3)))) Tr.sectors := by
  have hsAB := Arr.shapesOk_of_validB I.valid
  have hfree : ∀ i ∈ freeAxes AB.ndim (axesAB A.ndim B.ndim xa1 xa3 xb1 xb2),
      i < (without A.indices xa1 ++ without B.indices xb1).length := by
    intro i hi
    have := (mem_freeAxes.mp hi).1
    have e : AB.ndim = AB.indices.length := rfl
    rw [e, I.indices, dropUnused_length] at this
    exact this
  have e5 : AB.indices.length = AB.ndim := rfl
  rw [F.indices, without_eq_permuted_freeAxes AB.indices, e5, I.indices]
  have := dropUnused_mid [] (without C.indices (xc3 ++ xc2)) (without A.indices xa1 ++ without B.indices xb1)
    AB.sectors Tr.sectors (freeAxes AB.ndim (axesAB A.ndim B.ndim xa1 xa3 xb1 xb2)) hfree (by
      intro s hs
      rw [F.sectors, List.mem_eraseDups, mem_tdKeys] at hs
      obtain ⟨sab, hsab, sc, _, _, rfl⟩ := hs
      refine ⟨sab, hsab, ?_⟩
      intro j f hjf
      have hlt : ∀ x ∈ freeAxes AB.ndim (axesAB A.ndim B.ndim xa1 xa3 xb1 xb2), x < sab.length := by
        intro x hx; rw [Arr.sector_length hsAB hsab]; exact (mem_freeAxes.mp hx).1
      have hj : j < (freeAxes AB.ndim (axesAB A.ndim B.ndim xa1 xa3 xb1 xb2)).length := by
        by_contra hc; rw [List.getElem?_eq_none (by omega)] at hjf; cases hjf
      rw [List.length_nil, Nat.zero_add,
        List.getElem?_append_left (by rw [permuted_length _ _ hlt]; exact hj),
        permuted_getElem? _ _ hlt, hjf]
      rfl)
  rw [List.nil_append, List.nil_append] at this
  rw [this]
  congr 1
  rw [without_eq_permuted_freeAxes A.indices, without_eq_permuted_freeAxes B.indices,
    without_eq_permuted_freeAxes C.indices, I.ndim]
  have e6 : A.indices.length = A.ndim := rfl
  have e7 : B.indices.length = B.ndim := rfl
  have e8 : C.indices.length = C.ndim := rfl
  rw [e6, e7, e8, readAB_free T.mA T.mB A.indices B.indices rfl rfl, freeM_comm C.ndim xc2 xc3,
    List.append_assoc]

theorem idxR_w (I : Inter B C xb2 xc2 BC ph) (T : TriW A B C xa1 xa3 xb1 xb2 xc2 xc3) (Tr : Arr R)
    (F : CoreFrame A BC (xa1 ++ xa3) (axesBC B.ndim C.ndim xb1 xb2 xc2 xc3) Tr) :
    Tr.indices = dropUnused (permuted A.indices (freeAxes A.ndim (xa1 ++ xa3)) ++ (permuted B.indices (freeAxes B.ndim (xb1 ++ xb2)) ++ permuted C.indices (freeAxes C.ndim (xc2 ++ xc3)))) Tr.sectors := by
  have hsBC := Arr.shapesOk_of_validB I.valid
  have hsa := Arr.shapesOk_of_validB T.hAB.va
  have hlA : (without A.indices (xa1 ++ xa3)).length = (freeAxes A.ndim (xa1 ++ xa3)).length := by
    rw [without_eq_permuted_freeAxes]
    exact permuted_length _ _ (fun x hx => (mem_freeAxes.mp hx).1)
  have hfree : ∀ i ∈ freeAxes BC.ndim (axesBC B.ndim C.ndim xb1 xb2 xc2 xc3),
      i < (without B.indices xb2 ++ without C.indices xc2).length := by
    intro i hi
    have := (mem_freeAxes.mp hi).1
    have e : BC.ndim = BC.indices.length := rfl
    rw [e, I.indices, dropUnused_length] at this
    exact this
  have e5 : BC.indices.length = BC.ndim := rfl
  rw [F.indices, without_eq_permuted_freeAxes BC.indices, e5, I.indices]
  have := dropUnused_mid (without A.indices (xa1 ++ xa3)) [] (without B.indices xb2 ++ without C.indices xc2)
    BC.sectors Tr.sectors (freeAxes BC.ndim (axesBC B.ndim C.ndim xb1 xb2 xc2 xc3)) hfree (by
      intro s hs
      rw [F.sectors, List.mem_eraseDups, mem_tdKeys] at hs
      obtain ⟨sa, hA, sbc, hsbc, _, rfl⟩ := hs
      refine ⟨sbc, hsbc, ?_⟩
      intro j f hjf
      have hlt : ∀ x ∈ freeAxes BC.ndim (axesBC B.ndim C.ndim xb1 xb2 xc2 xc3), x < sbc.length := by
        intro x hx; rw [Arr.sector_length hsBC hsbc]; exact (mem_freeAxes.mp hx).1
      have hlsa : (permuted sa (freeAxes A.ndim (xa1 ++ xa3))).length = (without A.indices (xa1 ++ xa3)).length := by
        rw [hlA, permuted_length _ _ (by
          intro x hx; rw [Arr.sector_length hsa hA]; exact (mem_freeAxes.mp hx).1)]
      rw [List.getElem?_append_right (by rw [hlsa]; omega), hlsa, Nat.add_sub_cancel_left,
        permuted_getElem? _ _ hlt, hjf]
      rfl)
  rw [List.append_nil, List.append_nil] at this
  rw [this]
  congr 1
  rw [without_eq_permuted_freeAxes A.indices, without_eq_permuted_freeAxes B.indices,
    without_eq_permuted_freeAxes C.indices, I.ndim]
  have e6 : A.indices.length = A.ndim := rfl
  have e7 : B.indices.length = B.ndim := rfl
  have e8 : C.indices.length = C.ndim := rfl
  rw [e6, e7, e8, readBC_free T.mB T.mC B.indices C.indices rfl rfl]

end triples

section final
variable [AddCommMonoid R] [Mul R] [Neg R] [SignRing R] [AssocLaws R]

/-- **associativity of `tensordotF`** for three operands with bonds `A–B`, `B–C` and (optionally)
    `A–C` under the weak guard on all bonds (see `Props/C04e.lean`) -/
theorem tdotF_assoc_w (A B C : Arr R) (xa1 xa3 xb1 xb2 xc2 xc3 : List Nat)
    (hA : A.validB = true) (hB : B.validB = true) (hC : C.validB = true)
    (hfA : A.fermi = true) (hfB : B.fermi = true) (hfC : C.fermi = true)
    (h1 : tdotAdmissibleCommonB A B xa1 xb1 = true) (h2 : tdotAdmissibleCommonB B C xb2 xc2 = true)
    (h3 : contractibleCommonB A C xa3 xc3 = true)
    (hnA : (xa1 ++ xa3).Nodup) (hnB : (xb1 ++ xb2).Nodup) (hnC : (xc2 ++ xc3).Nodup)
    (hltA : ∀ i ∈ xa3, i < A.ndim) (hltC : ∀ i ∈ xc3, i < C.ndim)
    (hL : LabelRoutes A.parity B.parity A.oddpos B.oddpos C.oddpos) :
    ∃ AB BC c1 c2 : Arr R,
      A.tensordotF B (.pair (xa1.map Int.ofNat) (xb1.map Int.ofNat)) .blockwise = .ok AB
      ∧ AB.tensordotF C (.pair ((axesAB A.ndim B.ndim xa1 xa3 xb1 xb2).map Int.ofNat) ((xc3 ++ xc2).map Int.ofNat)) .blockwise = .ok c1
      ∧ B.tensordotF C (.pair (xb2.map Int.ofNat) (xc2.map Int.ofNat)) .blockwise = .ok BC
      ∧ A.tensordotF BC (.pair ((xa1 ++ xa3).map Int.ofNat) ((axesBC B.ndim C.ndim xb1 xb2 xc2 xc3).map Int.ofNat)) .blockwise = .ok c2
      ∧ c2.oddpos = c1.oddpos ∧ c2.charge = c1.charge ∧ c2.sym = c1.sym ∧ c2.fermi = c1.fermi
      ∧ (∀ s, s ∈ c1.sectors ↔ ∃ t, IsTriple A B C xa1 xa3 xb1 xb2 xc2 xc3 s t)
      ∧ (∀ s, s ∈ c2.sectors ↔ s ∈ c1.sectors)
      ∧ c2.indices = c1.indices
      ∧ c1.indices = dropUnused (permuted A.indices (freeAxes A.ndim (xa1 ++ xa3)) ++ (permuted B.indices (freeAxes B.ndim (xb1 ++ xb2)) ++ permuted C.indices (freeAxes C.ndim (xc2 ++ xc3)))) c1.sectors
      ∧ ∀ (LA LM LC : Sector) (oA oM oC : List Nat),
          FreeAddr A B C xa1 xa3 xb1 xb2 xc2 xc3 LA LM LC oA oM oC →
          c2.elem (LA ++ LM ++ LC) (oA ++ oM ++ oC) = c1.elem (LA ++ LM ++ LC) (oA ++ oM ++ oC) := by
  have hAB := AdmW.of hA hB hfA hfB h1
  have hBC := AdmW.of hB hC hfB hfC h2
  have T : TriW A B C xa1 xa3 xb1 xb2 xc2 xc3 :=
    ⟨hAB, hBC,
      Mid.of hnA (by
        intro i hi
        rcases List.mem_append.mp hi with h | h
        · exact hAB.ltA i h
        · exact hltA i h),
      Mid.of hnB (by
        intro i hi
        rcases List.mem_append.mp hi with h | h
        · exact hAB.ltB i h
        · exact hBC.ltA i h),
      Mid.of hnC (by
        intro i hi
        rcases List.mem_append.mp hi with h | h
        · exact hBC.ltB i h
        · exact hltC i h), h3⟩
  have hsa := Arr.shapesOk_of_validB hA
  have hsb := Arr.shapesOk_of_validB hB
  have hsc := Arr.shapesOk_of_validB hC
  obtain ⟨lab, sab, lbc, sbc, out, s1, s2, m1, m2, m3, m4, hs, q1, q2, q3, q4⟩ := hL
  obtain ⟨call1, I1, o1⟩ := inter_of_call_w A B xa1 xb1 hAB (lab, sab) m1 q1
  obtain ⟨call3, I2, o2⟩ := inter_of_call_w B C xb2 xc2 hBC (lbc, sbc) m3 q3
  generalize hABdef : finish (coreT A B xa1 xb1) (lab, sab) = AB at call1 I1 o1
  generalize hBCdef : finish (coreT B C xb2 xc2) (lbc, sbc) = BC at call3 I2 o2
  simp only at o1 o2 I1 I2
  have W1 := admW_left_w I1 T
  have W2 := admW_right_w I2 T
  have hparAB : AB.parity = xor A.parity B.parity := by
    unfold Arr.parity
    rw [I1.sym, I1.charge, ValidP.parity_combine_pair', hAB.sym]
  have call2 := tensordotF_eq_core_w AB C _ _ W1
  rw [hparAB, o1, m2] at call2
  have call4 := tensordotF_eq_core_w A BC _ _ W2
  rw [o2, m4] at call4
  have F1 := coreT_frame_w AB C _ _ W1
  have F2 := coreT_frame_w A BC _ _ W2
  obtain ⟨f1, f2, f3, f4, f5, f6⟩ := finish_fields (coreT AB C (axesAB A.ndim B.ndim xa1 xa3 xb1 xb2) (xc3 ++ xc2)) (out, s1)
  obtain ⟨g1, g2, g3, g4, g5, g6⟩ := finish_fields (coreT A BC (xa1 ++ xa3) (axesBC B.ndim C.ndim xb1 xb2 xc2 xc3)) (out, s2)
  have hsec1 : ∀ s, s ∈ (finish (coreT AB C (axesAB A.ndim B.ndim xa1 xa3 xb1 xb2) (xc3 ++ xc2)) (out, s1)).sectors
      ↔ ∃ t, IsTriple A B C xa1 xa3 xb1 xb2 xc2 xc3 s t := by
    intro s
    rw [f5, F1.sectors]
    exact keysL_iff_w I1 T s
  have hsec2 : ∀ s, s ∈ (finish (coreT A BC (xa1 ++ xa3) (axesBC B.ndim C.ndim xb1 xb2 xc2 xc3)) (out, s2)).sectors
      ↔ ∃ t, IsTriple A B C xa1 xa3 xb1 xb2 xc2 xc3 s t := by
    intro s
    rw [g5, F2.sectors]
    exact keysR_iff_w I2 T s
  refine ⟨AB, BC, _, _, call1, call2, call3, call4, by rw [f6, g6], ?_, ?_, ?_, hsec1,
    fun s => (hsec2 s).trans (hsec1 s).symm, ?_, ?_, ?_⟩
  · rw [g1, f1, F1.charge, F2.charge, I1.sym, I1.charge, I2.charge, ← hAB.sym]
    exact (C17.combine_assoc A.sym A.charge B.charge C.charge ((ValidP.validB_iff A).mp hA).chg
      (by rw [hAB.sym, hBC.sym]; exact ((ValidP.validB_iff C).mp hC).chg)).symm
  · rw [g2, f2, F1.sym, F2.sym, I1.sym]
  · rw [g3, f3, F1.fermi, F2.fermi, I1.fermi, hfA]
  · rw [g4, f4, idxL_w I1 T _ F1, idxR_w I2 T _ F2, ← f5, ← g5]
    exact dropUnused_congr_mem _ (fun s => (hsec2 s).trans (hsec1 s).symm)
  · rw [f4, idxL_w I1 T _ F1, ← f5]
  · intro LA LM LC oA oM oC fa
    by_cases hex : ∃ t, IsTriple A B C xa1 xa3 xb1 xb2 xc2 xc3 (LA ++ LM ++ LC) t
    · obtain ⟨t, ht⟩ := hex
      rw [finish_elem _ _ (coreFrame_signOk F1), finish_elem _ _ (coreFrame_signOk F2),
        F1.elem _ (oA ++ oM) oC (by
          rw [I1.ndim, freeAB_len T.mA T.mB, List.length_append, fa.loA, fa.loM])
          (boxL_w I1 T fa ht),
        route_left_w I1 T fa]
      rw [List.append_assoc oA oM oC, F2.elem _ oA (oM ++ oC) fa.loA (boxR_w I2 T fa ht),
        route_right_w I2 T fa]
      simp only []
      rw [sgnI_comp q2 q1, sgnI_comp q4 q3]
      have hperm : (triplesR A B C BC xa1 xa3 xb1 xb2 xc2 xc3 (LA ++ LM ++ LC)).Perm
          (triplesL A B C AB xa1 xa3 xb1 xb2 xc2 xc3 (LA ++ LM ++ LC)) := by
        rw [List.perm_ext_iff_of_nodup
          (Assoc2P.triplesR_nodup (allDistinct_iff_nodup.mp (Arr.allDistinct_of_validB I2.valid))
            (allDistinct_iff_nodup.mp (Arr.allDistinct_of_validB hA))
            (allDistinct_iff_nodup.mp (Arr.allDistinct_of_validB hB))
            (allDistinct_iff_nodup.mp (Arr.allDistinct_of_validB hC)) _)
          (Assoc2P.triplesL_nodup (allDistinct_iff_nodup.mp (Arr.allDistinct_of_validB I1.valid))
            (allDistinct_iff_nodup.mp (Arr.allDistinct_of_validB hA))
            (allDistinct_iff_nodup.mp (Arr.allDistinct_of_validB hB))
            (allDistinct_iff_nodup.mp (Arr.allDistinct_of_validB hC)) _)]
        intro t'
        exact (mem_triplesR_w I2 T).trans (mem_triplesL_w I1 T).symm
      rw [(hperm.map _).sum_eq]
      congr 1
      rw [Int.mul_comm, ← hs, Int.mul_comm]
    · rw [Arr.elem_of_not_mem (fun hm => hex ((hsec1 _).mp hm)),
        Arr.elem_of_not_mem (fun hm => hex ((hsec2 _).mp hm))]

end final


end Assoc3P
end SymmModel
