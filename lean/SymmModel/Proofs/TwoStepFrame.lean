/-
  SymmModel.Proofs.TwoStepFrame — "several pairs at once or one after another" (C04): sector set, index
  tables, leg directions and block shapes of the two-step result against the one-step result.
  Namespace `SymmModel.TwoStepP`.
-/
import SymmModel.Proofs.TwoStepFinal

namespace SymmModel
namespace TwoStepP
open TdotP GradedP RoutesP AssocP KoszulP Assoc3P
open Lazy (sgnI einOrder einOperand transposedElem)
set_option linter.unusedSectionVars false

variable {R : Type} [AddCommMonoid R] [Mul R] [Neg R] [SignRing R]
variable {a b c e : Arr R} {xa xb ya yb : List Nat} {ph : Int}

/-- the two-step result as the abelian einsum of the transposed, synchronised intermediate -/
theorem einsum_form (C : Ctx a b c xa xb ya yb ph)
    (h2 : c.einsumF (tsLhs a.ndim b.ndim xa xb ya yb) (tsRhs a.ndim b.ndim xa xb ya yb) = .ok e) :
    e.indices = permuted c.indices (tsRhs a.ndim b.ndim xa xb ya yb)
    ∧ e.sectors = ((c.sectors.filter (fun s =>
          einKeep (dblFront (tsN a.ndim b.ndim xa xb) ya.length ++ tsRhs a.ndim b.ndim xa xb ya yb)
            (tsRhs a.ndim b.ndim xa xb ya yb) (permuted s (tsOrder a b.ndim xa xb ya yb)))).map
        (fun s => permuted (permuted s (tsOrder a b.ndim xa xb ya yb))
          ((List.range (tsRhs a.ndim b.ndim xa xb ya yb).length).map (2 * ya.length + ·)))).eraseDups := by
  have hlen : (tsLhs a.ndim b.ndim xa xb ya yb).length = c.ndim := by
    rw [C.I.ndim]; simp [tsLhs, tsN]
  rw [Lazy.einsumF_eq] at h2
  have : ((tsLhs a.ndim b.ndim xa xb ya yb).length != c.ndim) = false := by simp [hlen]
  rw [this] at h2
  simp only [Bool.false_eq_true, if_false] at h2
  rw [C.lhsEq, einsumA_eq _ _ _ _ (einPerm?_canon (tsRhs_lt _ _ _ _ _ _) (tsRhs_nodup _ _ _ _ _ _))
    (by rw [einTracedPos_canon (tsRhs_lt _ _ _ _ _ _)]; simp)] at h2
  obtain rfl := Except.ok.inj h2
  constructor
  · show permuted (einOperand c _ _).indices _ = _
    rw [C.opIdx, KoszulP.permuted_permuted _ _ _ (C.ordLt _ C.I.ndim)]
    unfold compose
    rw [C.permOrd2]
  · show akeys (accum (Blk.zipWith (· + ·)) (einTerms (einOperand c _ _) _ _ _)) = _
    rw [einsumA_sectors, Lazy.einOperand_sectors _ _ (Lazy.Full.of_valid C.I.valid C.I.fermi), C.ordEq,
      List.filter_map, List.map_map]
    rfl

/-- **same sector set** -/
theorem two_step_sectors (C : Ctx a b c xa xb ya yb ph) {c' : Arr R}
    (I' : Inter a b (xa ++ ya) (xb ++ yb) c' ph)
    (h2 : c.einsumF (tsLhs a.ndim b.ndim xa xb ya yb) (tsRhs a.ndim b.ndim xa xb ya yb) = .ok e)
    (s : Sector) : s ∈ e.sectors ↔ s ∈ c'.sectors := by
  rw [(einsum_form C h2).2, List.mem_eraseDups, I'.mem_sectors]
  simp only [List.mem_map, List.mem_filter]
  constructor
  · rintro ⟨s0, ⟨hs0, hk⟩, rfl⟩
    obtain ⟨sa, hsa, sb, hsb, halx, rfl⟩ := C.I.mem_sectors.mp hs0
    have haly := (C.keepIff hsa hsb).mp hk
    exact ⟨sa, hsa, sb, hsb, (C.alignIff hsa hsb).mpr ⟨halx, haly⟩, C.keptPart hsa hsb⟩
  · rintro ⟨sa, hsa, sb, hsb, hal, rfl⟩
    have h := (C.alignIff hsa hsb).mp hal
    exact ⟨_, ⟨C.I.mem_sectors.mpr ⟨sa, hsa, sb, hsb, h.1, rfl⟩, (C.keepIff hsa hsb).mpr h.2⟩,
      C.keptPart hsa hsb⟩

/-- **same block shapes** on the common sectors, equal to the shape in the un-pruned frame -/
theorem two_step_shape (C : Ctx a b c xa xb ya yb ph) {c' : Arr R}
    (I' : Inter a b (xa ++ ya) (xb ++ yb) c' ph)
    (h2 : c.einsumF (tsLhs a.ndim b.ndim xa xb ya yb) (tsRhs a.ndim b.ndim xa xb ya yb) = .ok e)
    (s : Sector) (hs : s ∈ c'.sectors) :
    Arr.blockShapeD e.indices s = Arr.blockShapeD c'.indices s
    ∧ Arr.blockShapeD c'.indices s
      = Arr.blockShapeD (without a.indices (xa ++ ya) ++ without b.indices (xb ++ yb)) s := by
  obtain ⟨sa, hsa, sb, hsb, hal, rfl⟩ := I'.mem_sectors.mp hs
  have hsA := Arr.shapesOk_of_validB C.W1.va
  have hsB := Arr.shapesOk_of_validB C.W1.vb
  have h1 := I'.shape hsA hsB hsa hsb hal
  have h1u := I'.shapeU hsA hsB hsa hsb hal
  have h0 := C.I.shape hsA hsB hsa hsb (C.alX hsa hsb hal)
  have h0' := blockShape?_permuted h0 (tsRhs a.ndim b.ndim xa xb ya yb) (by
    intro x hx
    have := tsRhs_lt a.ndim b.ndim xa xb ya yb x hx
    have := C.I.ndim
    show x < c.ndim
    unfold tsN at *; omega)
  obtain ⟨shA, _, eA, lA, _⟩ := shape_of_mem hsA hsa
  obtain ⟨shB, _, eB, lB, _⟩ := shape_of_mem hsB hsb
  rw [permuted_tsRhs C.hA C.hB sa sb (C.lenA hsa hsb) (C.lenB hsa hsb),
    permuted_tsRhs C.hA C.hB _ _ (by rw [eA]; exact lA) (by rw [eB]; exact lB)] at h0'
  rw [← (einsum_form C h2).1] at h0'
  refine ⟨?_, ?_⟩
  · rw [Arr.blockShapeD, Arr.blockShapeD, h0', h1]
  · rw [Arr.blockShapeD, Arr.blockShapeD, h1, h1u]

/-- rank of the two-step result -/
theorem two_step_ndim (C : Ctx a b c xa xb ya yb ph) {c' : Arr R}
    (I' : Inter a b (xa ++ ya) (xb ++ yb) c' ph)
    (h2 : c.einsumF (tsLhs a.ndim b.ndim xa xb ya yb) (tsRhs a.ndim b.ndim xa xb ya yb) = .ok e) :
    e.ndim = c'.ndim := by
  show e.indices.length = _
  rw [(einsum_form C h2).1, TdotP.permuted_length _ _ (by
    intro x hx
    have := tsRhs_lt a.ndim b.ndim xa xb ya yb x hx
    have := C.I.ndim
    show x < c.ndim
    unfold tsN at *; omega), I'.ndim, tsRhs_eq C.hA C.hB, List.length_append, List.length_map,
    C.hA.free_len, C.hB.free_len]

/-- **the legs**: leg `j` of the two-step result and leg `j` of the one-step result are prunings of the
    same leg of an operand (so they have the same direction, and every charge either table keeps has
    the size the operand's table gives it) -/
theorem two_step_legs (C : Ctx a b c xa xb ya yb ph) {c' : Arr R}
    (I' : Inter a b (xa ++ ya) (xb ++ yb) c' ph)
    (h2 : c.einsumF (tsLhs a.ndim b.ndim xa xb ya yb) (tsRhs a.ndim b.ndim xa xb ya yb) = .ok e)
    (j : Nat) (hj : j < c'.ndim) :
    ∃ ix : Index, Pruned (e.indices.getD j default) ix ∧ Pruned (c'.indices.getD j default) ix := by
  have hA := C.hA
  have hB := C.hB
  have hrl : ∀ x ∈ tsRhs a.ndim b.ndim xa xb ya yb, x < c.indices.length := by
    intro x hx
    have := tsRhs_lt a.ndim b.ndim xa xb ya yb x hx
    have := C.I.ndim
    show x < c.ndim
    unfold tsN at *; omega
  have hlen : (tsRhs a.ndim b.ndim xa xb ya yb).length = c'.ndim := by
    rw [I'.ndim, tsRhs_eq hA hB, List.length_append, List.length_map, hA.free_len, hB.free_len]
  rw [(einsum_form C h2).1, getD_permuted_ax c.indices _ hrl j (by rw [hlen]; exact hj) default]
  rw [I'.ndim] at hj
  by_cases hjA : j < (freeAxes a.ndim (xa ++ ya)).length
  · -- a leg of `a`
    have hq : j < (freeAxes (freeAxes a.ndim xa).length (positions (freeAxes a.ndim xa) ya)).length := by
      rw [hA.free_len]; exact hjA
    have e1 : (tsRhs a.ndim b.ndim xa xb ya yb).getD j 0
        = (freeAxes (freeAxes a.ndim xa).length (positions (freeAxes a.ndim xa) ya)).getD j 0 := by
      rw [tsRhs_eq hA hB, List.getD_eq_getElem?_getD, List.getElem?_append_left hq,
        ← List.getD_eq_getElem?_getD]
    have hp : (freeAxes (freeAxes a.ndim xa).length (positions (freeAxes a.ndim xa) ya)).getD j 0
        < (freeAxes a.ndim xa).length :=
      (mem_freeAxes.mp (getD_mem' _ j 0 hq)).1
    have e2 : (freeAxes a.ndim xa).getD
        ((freeAxes (freeAxes a.ndim xa).length (positions (freeAxes a.ndim xa) ya)).getD j 0) 0
        = (freeAxes a.ndim (xa ++ ya)).getD j 0 := by
      rw [← getD_permuted_ax (freeAxes a.ndim xa) _ (fun x hx => (mem_freeAxes.mp hx).1) j hq 0,
        hA.free_spec]
    refine ⟨a.indices.getD ((freeAxes a.ndim (xa ++ ya)).getD j 0) default, ?_, I'.leg_left j hjA⟩
    rw [e1, ← e2]
    exact C.I.leg_left _ hp
  · -- a leg of `b`
    have hk : j - (freeAxes a.ndim (xa ++ ya)).length < (freeAxes b.ndim (xb ++ yb)).length := by omega
    have hq : j - (freeAxes a.ndim (xa ++ ya)).length
        < (freeAxes (freeAxes b.ndim xb).length (positions (freeAxes b.ndim xb) yb)).length := by
      rw [hB.free_len]; exact hk
    have e1 : (tsRhs a.ndim b.ndim xa xb ya yb).getD j 0
        = (freeAxes a.ndim xa).length
          + (freeAxes (freeAxes b.ndim xb).length (positions (freeAxes b.ndim xb) yb)).getD
              (j - (freeAxes a.ndim (xa ++ ya)).length) 0 := by
      rw [tsRhs_eq hA hB, List.getD_eq_getElem?_getD,
        List.getElem?_append_right (by rw [hA.free_len]; omega), hA.free_len, List.getElem?_map,
        List.getElem?_eq_getElem hq]
      simp [List.getD_eq_getElem?_getD, List.getElem?_eq_getElem hq]
    have hp : (freeAxes (freeAxes b.ndim xb).length (positions (freeAxes b.ndim xb) yb)).getD
        (j - (freeAxes a.ndim (xa ++ ya)).length) 0 < (freeAxes b.ndim xb).length :=
      (mem_freeAxes.mp (getD_mem' _ _ 0 hq)).1
    have e2 : (freeAxes b.ndim xb).getD
        ((freeAxes (freeAxes b.ndim xb).length (positions (freeAxes b.ndim xb) yb)).getD
          (j - (freeAxes a.ndim (xa ++ ya)).length) 0) 0
        = (freeAxes b.ndim (xb ++ yb)).getD (j - (freeAxes a.ndim (xa ++ ya)).length) 0 := by
      rw [← getD_permuted_ax (freeAxes b.ndim xb) _ (fun x hx => (mem_freeAxes.mp hx).1) _ hq 0,
        hB.free_spec]
    have hj' : j = (freeAxes a.ndim (xa ++ ya)).length + (j - (freeAxes a.ndim (xa ++ ya)).length) := by
      omega
    refine ⟨b.indices.getD ((freeAxes b.ndim (xb ++ yb)).getD
      (j - (freeAxes a.ndim (xa ++ ya)).length) 0) default, ?_, ?_⟩
    · rw [e1, ← e2]
      exact C.I.leg_right _ hp
    · have := I'.leg_right _ hk
      rw [← hj'] at this
      exact this

end TwoStepP
end SymmModel
