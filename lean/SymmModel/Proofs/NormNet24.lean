/-
  SymmModel.Proofs.NormNet24 — network form of the norm (property C10), part 24:
  the sequential bracketing with mixed orders `((ā·b̄)·b)·a` (= `K̄·(b·a)` by S7 under the weak guard,
  then the mixed balanced bracketing `(ā·b̄)·(b·a)`).
-/
import SymmModel.Proofs.NormNet23
namespace SymmModel.NormNet
open SymmModel SymmModel.Lazy SymmModel.Norm SymmModel.TdotP SymmModel.GradedP SymmModel.RoutesP
open SymmModel.AssocP SymmModel.Assoc3P
set_option linter.unusedSectionVars false

section geom

theorem positions_permuted (l y : List Nat) (hn : l.Nodup) (hy : ∀ i ∈ y, i < l.length) :
    positions l (permuted l y) = y := by
  rw [permuted_eq_map l y hy 0]
  unfold positions
  rw [List.filterMap_map]
  have : ∀ i ∈ y, ((fun z => indexOf? l z) ∘ fun x => l.getD x 0) i = some i := by
    intro i hi
    have hi' := hy i hi
    simp only [Function.comp, List.getD_eq_getElem?_getD, List.getElem?_eq_getElem hi',
      Option.getD_some]
    exact indexOf?_getElem hn hi'
  rw [List.filterMap_congr this]
  simp

/-- the crossing positions are the inverse rotation -/
theorem crossAx_eq_rotAx (m k : Nat) : crossAx k m = rotAx m k := by
  unfold crossAx
  have hp : permuted (rotAx k m) (rotAx m k) = List.range (k + m) := by
    have := permuted_rotAx ((List.range m).map (k + ·)) (List.range k)
    rw [List.length_map, List.length_range, List.length_range, range_split] at this
    exact this
  rw [← hp]
  apply positions_permuted
  · exact (rotAx_perm k m).nodup_iff.mpr List.nodup_range
  · intro i hi
    rw [rotAx_length]
    have := (rotAx_perm m k).mem_iff.mp hi
    have := List.mem_range.mp this
    omega

end geom

section seq
variable {R : Type} [AddCommMonoid R] [Mul R] [Neg R] [Conj R] [NetLaws R] [AssocLaws R]

/-- **`((ā·b̄)·b)·a`**: the bra half contracted as `ā·b̄`, then the ket tensors one at a time in the
    order `b`, `a` -/
theorem network_norm_mixed_seq (hmul : ∀ x y : R, x * y = y * x) (a b : Arr R) (xa xb : List Nat)
    (ha : a.validB = true) (hb : b.validB = true) (hfa : a.fermi = true) (hfb : b.fermi = true)
    (hadm : ValidP.tdotAdmissibleB a b xa xb = true)
    (hoA : KetLabels a.oddpos) (hoB : KetLabels b.oddpos)
    (hd : (a.oddpos ++ b.oddpos).Pairwise (fun x y => x.1 ≠ y.1))
    (hlab' : netLabelsB b.parity a.parity b.oddpos a.oddpos = true) :
    ∃ K Kb, a.tensordotF b (.pair (xa.map Int.ofNat) (xb.map Int.ofNat)) .blockwise = .ok K
      ∧ (braOf a xa).tensordotF (braOf b xb) (.pair (xa.map Int.ofNat) (xb.map Int.ofNat)) .blockwise
          = .ok Kb
      ∧ ∃ T c, Kb.tensordotF b (.pair
            (((List.range (freeAxes b.ndim xb).length).map ((freeAxes a.ndim xa).length + ·)).map
              Int.ofNat) ((freeAxes b.ndim xb).map Int.ofNat)) .blockwise = .ok T
        ∧ T.tensordotF a (.pair ((Assoc2P.axesAB Kb.ndim b.ndim
              ((List.range (freeAxes b.ndim xb).length).map ((freeAxes a.ndim xa).length + ·))
              (List.range (freeAxes a.ndim xa).length) (freeAxes b.ndim xb) xb).map Int.ofNat)
            ((freeAxes a.ndim xa ++ xa).map Int.ofNat)) .blockwise = .ok c
        ∧ c.ndim = 0 ∧ c.oddpos = [] ∧ c.elem [] [] = normSq K := by
  have h := Adm.of ha hb hfa hfb hadm
  have hadm' := admB_swap ha hb hfa hfb hadm
  have hd' := labels_swap hd
  have h' := Adm.of hb ha hfb hfa hadm'
  obtain ⟨K, Kb, K', Kb', TN, _, _, ⟨r3, e3, n3, o3, v3⟩, _⟩ :=
    network_norm_mixed hmul a b xa xb ha hb hfa hfb hadm hoA hoB hd
  obtain ⟨K1, Kb1, eK1, eKb1, hobs, hKv, hKf, hKbv, hKbf, _, _, _⟩ :=
    conj_tensordot a b xa xb ha hb hfa hfb hadm hoA hoB hd
  obtain rfl : K1 = K := by rw [TN.eK] at eK1; exact (Except.ok.inj eK1).symm
  obtain rfl : Kb1 = Kb := by rw [TN.eKb] at eKb1; exact (Except.ok.inj eKb1).symm
  obtain ⟨K2, Kb2, s, s', S'⟩ := net_setup_gen b a xb xa hb ha hfb hfa hadm' hoB hoA hd' hlab'
  obtain rfl : K2 = K' := by have e := S'.eK; rw [TN.eK'] at e; exact (Except.ok.inj e).symm
  -- frames of the bra half
  obtain ⟨hKs, hKc, ph, hm⟩ := tdot_fields h TN.eK
  obtain ⟨_, _, ph', hm'⟩ := tdot_fields h' TN.eK'
  obtain ⟨c1, c2, c3, c4, c5, c6⟩ := conjF_frame K1 true true
  obtain ⟨out, sab, sba, w1, w2, _⟩ := RoutesP.mergeOddpos_swap a.parity b.parity a.oddpos b.oddpos hd
  have hoK : K1.oddpos = K2.oddpos := by
    rw [hm] at w1; rw [hm'] at w2
    rw [(Prod.mk.inj (Except.ok.inj w1)).1, (Prod.mk.inj (Except.ok.inj w2)).1]
  have hKp : K1.parity = xor a.parity b.parity := by
    unfold Arr.parity
    rw [hKs, hKc, ValidP.parity_combine_pair', h.sym]
  have hXp : Kb1.parity = xor b.parity a.parity := by
    rw [Bool.xor_comm, ← hKp]
    unfold Arr.parity
    rw [hobs.sym, hobs.charge, c1, c4, C17.parity_sign]
  have hXo : Kb1.oddpos = Arr.oddposDag K2.oddpos := by rw [hobs.oddpos, c5, hoK]
  have hXs : Kb1.sym = a.sym := by rw [hobs.sym, c1, hKs]
  obtain ⟨S0, hK0⟩ := tdot_indices_pruned h TN.eK
  have hXi : Kb1.indices
      = (dropUnused (without a.indices xa ++ without b.indices xb) S0).map Index.conj := by
    rw [hobs.indices, c3, hK0]
  have hXn := half_ndim_w Kb1 a b xa xb S0 Index.conj hXi
  have hL : Assoc2P.LabelRoutes Kb1.parity b.parity Kb1.oddpos b.oddpos a.oddpos := by
    rw [hXp, hXo]; exact S'.lr.2.2.2
  -- the triangle `K̄ – b – a`
  have g1 : tdotAdmissibleCommonB Kb1 b
      ((List.range (freeAxes b.ndim xb).length).map ((freeAxes a.ndim xa).length + ·))
      (freeAxes b.ndim xb) = true := by
    refine admC_of (by rw [hXs, h.sym]) (common_Xq Kb1 a b xa xb S0 Index.conj conj_F hXi hb)
      (shift_nodup _ _) (freeAxes_nodup _ _) ?_ (fun i hi => mem_freeAxes_lt i hi)
    intro i hi
    obtain ⟨j, hj, rfl⟩ := List.mem_map.mp hi
    have := List.mem_range.mp hj
    rw [hXn]; omega
  obtain ⟨AB, BC, d1, d2, e1, e2, e3', e4, r1, r7, r9⟩ :=
    assoc_scalar_w Kb1 b a
      ((List.range (freeAxes b.ndim xb).length).map ((freeAxes a.ndim xa).length + ·))
      (List.range (freeAxes a.ndim xa).length) (freeAxes b.ndim xb) xb xa (freeAxes a.ndim xa)
      hKbv hb ha hKbf hfb hfa g1 (Assoc3P.admW_toB (AdmW.ofAdm h'))
      (common_Xp Kb1 a b xa xb S0 Index.conj conj_F hXi ha)
      (by
        have : ((List.range (freeAxes b.ndim xb).length).map ((freeAxes a.ndim xa).length + ·)
            ++ List.range (freeAxes a.ndim xa).length).Perm
            (List.range ((freeAxes a.ndim xa).length + (freeAxes b.ndim xb).length)) := by
          rw [← range_split]; exact List.perm_append_comm
        exact this.nodup_iff.mpr List.nodup_range)
      ((perm_left h.nB h.ltB).nodup_iff.mpr List.nodup_range)
      ((perm_right h.nA h.ltA).nodup_iff.mpr List.nodup_range)
      (by intro i hi; have := List.mem_range.mp hi; rw [hXn]; omega)
      (fun i hi => mem_freeAxes_lt i hi) hL
      (by
        apply freeAxes_all
        intro i hi
        rw [hXn] at hi
        by_cases h1 : i < (freeAxes a.ndim xa).length
        · exact List.mem_append_right _ (List.mem_range.mpr h1)
        · refine List.mem_append_left _ (List.mem_map.mpr
            ⟨i - (freeAxes a.ndim xa).length, List.mem_range.mpr (by omega), by omega⟩))
      (freeAxes_all _ _ (all_left xb)) (freeAxes_all _ _ (all_right xa))
  obtain rfl : BC = K2 := by rw [TN.eK'] at e3'; exact (Except.ok.inj e3').symm
  -- route 2 is the mixed balanced bracketing `(ā·b̄)·(b·a)`
  have hax : (List.range (freeAxes b.ndim xb).length).map ((freeAxes a.ndim xa).length + ·)
      ++ List.range (freeAxes a.ndim xa).length
      = crossAx (freeAxes b.ndim xb).length (freeAxes a.ndim xa).length := by
    rw [crossAx_eq_rotAx]; rfl
  have hn2 : (freeAxes b.ndim xb).length + (freeAxes a.ndim xa).length = K1.ndim := by
    rw [← TN.nd, hXn]; omega
  rw [hax, axesBC_all, hn2] at e4
  obtain rfl : d2 = r3 := by rw [e3] at e4; exact (Except.ok.inj e4).symm
  refine ⟨K1, Kb1, TN.eK, TN.eKb, AB, d1, e1, e2, ?_, ?_, ?_⟩
  · unfold Arr.ndim at n3 ⊢; rw [← r7]; exact n3
  · rw [← r1]; exact o3
  · rw [← r9]; exact v3

end seq

end SymmModel.NormNet
