/-
  SymmModel.Proofs.ValidProg — programs of operations preserve validity (property C01, item 8).

  `Op R` lists the operations with their parameters (binary operations carry their second
  operand), `Op.admissible` is the decidable precondition of a call, `Op.apply` the model call,
  `Prog.run` executes a list of operations and stops at the first inadmissible call or model
  error.
-/
import SymmModel.Proofs.ValidMisc

namespace SymmModel
namespace ValidP
open Sym

variable {R : Type}

/-! ### operations -/

inductive Op (R : Type) where
  | transpose (axes : List Nat) (phase : Bool)
  | conj (phasePerm phaseDual : Bool)
  | dagger (phaseDual : Bool)
  | phaseFlip (axs : List Nat)
  | phaseTranspose (axes : Option (List Nat))
  | phaseSector (sector : Sector)
  | phaseGlobal
  | phaseSync
  | expandDims (axis : Nat) (c : Option Charge) (dual : Option Bool)
  | squeeze (axis : Option (List Nat))
  | syncCharges
  | multiplyDiagonal (v : BVec R) (axis : Nat)
  | dropMisaligned (b : Arr R) (axesA axesB : List Nat)
  | tensordot (b : Arr R) (axesA axesB : List Nat) (mode : TdotMode)
  | matmul (b : Arr R)
  | binary (f : R → R → R) (missing : Missing) (y : Arr R)
  | qrQ (K : Kernels R)
  | qrR (K : Kernels R)
  | svdU (K : Kernels R)
  | svdV (K : Kernels R)
  | eighV (K : Kernels R)
  | fuse (groups : List (List Nat)) (expandEmpty : Bool)
  | unfuse (axis : Nat)
  | unfuseAll

/-- the second operand of a blockwise binary operation fits the first one's tables -/
def fitsB (x y : Arr R) : Bool :=
  allDistinct y.sectors
  && y.blocks.all (fun sb =>
      sb.1.length == x.ndim && x.isValidSector sb.1
      && Arr.blockShape? x.indices sb.1 == some sb.2.shape && sb.2.wf)

/-- the decidable precondition of a call -/
def Op.admissible : Op R → Arr R → Bool
  | .transpose axes _, a => Arr.isPerm axes a.ndim
  | .conj _ _, _ => true
  | .dagger _, a => a.fermi
  | .phaseFlip _, a => a.fermi
  | .phaseTranspose _, a => a.fermi
  | .phaseSector s, a => a.fermi && s.length == a.ndim && a.isValidSector s
  | .phaseGlobal, a => a.fermi
  | .phaseSync, _ => true
  | .expandDims _ none _, _ => true
  | .expandDims _ (some c) _, a => a.sym.valid c && (!a.fermi || !a.sym.parity c)
  | .squeeze _, _ => true   -- no condition on the sign table since `_map_blocks` drops stale entries
  | .syncCharges, _ => true
  | .multiplyDiagonal _ _, _ => true
  | .dropMisaligned b _ _, _ => b.validB
  | .tensordot b axesA axesB _, a => b.validB && (a.fermi == b.fermi) && tdotAdmissibleB a b axesA axesB
  | .matmul b, a => b.validB && (a.fermi == b.fermi) && matmulAdmissibleB a b
  | .binary _ _ y, x => fitsB x y
  | .qrQ _, _ => true
  | .qrR _, _ => true
  | .svdU _, _ => true
  | .svdV _, _ => true
  | .eighV _, _ => true
  | .fuse groups _, a => fuseAdmissibleB groups a.ndim
  | .unfuse _, _ => true
  | .unfuseAll, _ => true

/-- the (undecidable) part of the precondition: the LAPACK kernels passed to a decomposition
    return factors of the right shapes -/
def Op.KernelOk : Op R → Prop
  | .qrQ K => QrShapeContract K
  | .qrR K => QrShapeContract K
  | .svdU K => SvdShapeContract K
  | .svdV K => SvdShapeContract K
  | .eighV K => EighShapeContract K
  | _ => True

/-- the model call -/
def Op.apply [Zero R] [Add R] [Mul R] [Neg R] [Conj R] : Op R → Arr R → Except Err (Arr R)
  | .transpose axes phase, a => pure (if a.fermi then a.transposeF axes phase else a.transposeA axes)
  | .conj pp pd, a => pure (if a.fermi then a.conjF pp pd else a.conjA)
  | .dagger pd, a => pure (a.daggerF pd)
  | .phaseFlip axs, a => pure (a.phaseFlip axs)
  | .phaseTranspose axes, a => pure (a.phaseTranspose axes)
  | .phaseSector s, a => pure (a.phaseSector s)
  | .phaseGlobal, a => pure a.phaseGlobal
  | .phaseSync, a => pure a.phaseSync
  | .expandDims axis c dual, a => pure (a.expandDims axis c dual)
  | .squeeze axis, a => a.squeeze axis
  | .syncCharges, a => pure a.syncCharges
  | .multiplyDiagonal v axis, a => pure (SymmModel.multiplyDiagonal a v axis)
  | .dropMisaligned b axesA axesB, a => pure (SymmModel.dropMisaligned a b axesA axesB).1
  | .tensordot b axesA axesB mode, a =>
      if a.fermi then
        Arr.tensordotF a b (.pair (axesA.map Int.ofNat) (axesB.map Int.ofNat)) mode
      else tensordotA a b (.pair (axesA.map Int.ofNat) (axesB.map Int.ofNat)) mode
  | .matmul b, a => if a.fermi then a.matmulF b else matmulA a b
  | .binary f missing y, x => do
      let r ← binaryBlockwise (Blk.zipWith f) missing x.blocks y.blocks
      pure { x with blocks := r }
  | .qrQ K, a => do let (q, _) ← qrA K a; pure q
  | .qrR K, a => do let (_, r) ← qrA K a; pure r
  | .svdU K, a => do let (u, _, _) ← svdA K a; pure u
  | .svdV K, a => do let (_, _, v) ← svdA K a; pure v
  | .eighV K, a => do let (_, v) ← eighA K a; pure v
  | .fuse groups expandEmpty, a =>
      if a.fermi then a.fuseF groups .insert expandEmpty else fuseA a groups .insert expandEmpty
  | .unfuse axis, a => if a.fermi then a.unfuseF axis else unfuseA a axis
  | .unfuseAll, a => if a.fermi then a.unfuseAllF else unfuseAllA a

def Op.step [Zero R] [Add R] [Mul R] [Neg R] [Conj R] (op : Op R) (a : Arr R) : Except Err (Arr R) :=
  if op.admissible a then op.apply a else throw Err.value

abbrev Prog (R : Type) := List (Op R)

def Prog.run [Zero R] [Add R] [Mul R] [Neg R] [Conj R] : Prog R → Arr R → Except Err (Arr R)
  | [], a => pure a
  | op :: rest, a => do
    let a' ← op.step a
    Prog.run rest a'

theorem fitsB_blockOk {x y : Arr R} (h : fitsB x y = true) :
    (y.blocks.map (·.1)).Nodup ∧ ∀ sb ∈ y.blocks, BlockOk x.sym x.indices x.charge sb := by
  unfold fitsB at h
  simp only [Bool.and_eq_true, allDistinct_iff, List.all_eq_true, beq_iff_eq] at h
  refine ⟨h.1, fun sb hsb => ?_⟩
  obtain ⟨⟨⟨h1, h2⟩, h3⟩, h4⟩ := h.2 sb hsb
  simp only [Arr.isValidSector, Arr.ndim, Arr.duals, beq_iff_eq] at h1 h2
  exact ⟨⟨h1, h2⟩, h3, h4⟩

theorem Op.apply_valid [Zero R] [Add R] [Mul R] [Neg R] [Conj R] (op : Op R) (a r : Arr R)
    (hv : Valid a) (hK : op.KernelOk) (hadm : op.admissible a = true)
    (h : op.apply a = .ok r) : Valid r := by
  cases op with
  | transpose axes phase =>
    simp only [Op.apply, pure, Except.pure, Except.ok.injEq] at h
    subst h
    simp only [Op.admissible] at hadm
    split
    · rename_i hf; exact transposeF_valid a axes phase hv hf hadm
    · rename_i hf; exact transposeA_valid a axes hv (by simpa using hf) hadm
  | conj pp pd =>
    simp only [Op.apply, pure, Except.pure, Except.ok.injEq] at h
    subst h
    split
    · rename_i hf; exact conjF_valid a pp pd hv hf
    · rename_i hf; exact conjA_valid a hv (by simpa using hf)
  | dagger pd =>
    simp only [Op.apply, pure, Except.pure, Except.ok.injEq] at h
    subst h
    exact daggerF_valid a pd hv hadm
  | phaseFlip axs =>
    simp only [Op.apply, pure, Except.pure, Except.ok.injEq] at h
    subst h
    exact phaseFlip_valid a axs hv hadm
  | phaseTranspose axes =>
    simp only [Op.apply, pure, Except.pure, Except.ok.injEq] at h
    subst h
    exact phaseTranspose_valid a axes hv hadm
  | phaseSector s =>
    simp only [Op.apply, pure, Except.pure, Except.ok.injEq] at h
    subst h
    simp only [Op.admissible, Bool.and_eq_true, beq_iff_eq, Arr.isValidSector, Arr.ndim,
      Arr.duals] at hadm
    exact phaseSector_valid a s hv hadm.1.1 ⟨hadm.1.2, hadm.2⟩
  | phaseGlobal =>
    simp only [Op.apply, pure, Except.pure, Except.ok.injEq] at h
    subst h
    exact phaseGlobal_valid a hv hadm
  | phaseSync =>
    simp only [Op.apply, pure, Except.pure, Except.ok.injEq] at h
    subst h
    exact phaseSync_valid a hv
  | expandDims axis c dual =>
    simp only [Op.apply, pure, Except.pure, Except.ok.injEq] at h
    subst h
    cases c with
    | none => exact expandDims_none_valid a axis dual hv
    | some c =>
      simp only [Op.admissible, Bool.and_eq_true, Bool.or_eq_true, Bool.not_eq_true'] at hadm
      exact expandDims_some_valid a axis c dual hv hadm.1 hadm.2
  | squeeze axis =>
    exact squeeze_valid_any_phases a axis r hv h
  | syncCharges =>
    simp only [Op.apply, pure, Except.pure, Except.ok.injEq] at h
    subst h
    exact syncCharges_valid a hv
  | multiplyDiagonal v axis =>
    simp only [Op.apply, pure, Except.pure, Except.ok.injEq] at h
    subst h
    exact multiplyDiagonal_valid a v axis hv
  | dropMisaligned b axesA axesB =>
    simp only [Op.apply, pure, Except.pure, Except.ok.injEq] at h
    subst h
    exact (dropMisaligned_valid a b axesA axesB hv ((validB_iff b).mp hadm)).1
  | tensordot b axesA axesB mode =>
    simp only [Op.admissible, Bool.and_eq_true, beq_iff_eq] at hadm
    simp only [Op.apply] at h
    split at h
    · rename_i hf
      exact tensordotF_valid_all mode a b r axesA axesB hv ((validB_iff b).mp hadm.1.1)
        hf (by rw [← hadm.1.2]; exact hf) hadm.2 h
    · rename_i hf
      exact tensordotA_valid_all mode a b r axesA axesB hv ((validB_iff b).mp hadm.1.1)
        (by simpa using hf) hadm.2 h
  | matmul b =>
    simp only [Op.admissible, Bool.and_eq_true, beq_iff_eq] at hadm
    simp only [Op.apply] at h
    split at h
    · rename_i hf
      exact matmulF_valid a b r hv ((validB_iff b).mp hadm.1.1) hf (by rw [← hadm.1.2]; exact hf)
        hadm.2 h
    · rename_i hf
      exact matmulA_valid a b r hv ((validB_iff b).mp hadm.1.1) (by simpa using hf) hadm.2 h
  | eighV K =>
    simp only [Op.apply, bind, Except.bind] at h
    split at h
    · cases h
    · rename_i wv hwv
      obtain ⟨w, v⟩ := wv
      simp only [pure, Except.pure, Except.ok.injEq] at h
      subst h
      exact eighA_valid K a v w hv hK hwv
  | qrQ K =>
    simp only [Op.apply, bind, Except.bind] at h
    split at h
    · cases h
    · rename_i qr hqr
      obtain ⟨q, r'⟩ := qr
      simp only [pure, Except.pure, Except.ok.injEq] at h
      subst h
      exact (qrA_valid K a q r' hv hK hqr).1
  | qrR K =>
    simp only [Op.apply, bind, Except.bind] at h
    split at h
    · cases h
    · rename_i qr hqr
      obtain ⟨q, r'⟩ := qr
      simp only [pure, Except.pure, Except.ok.injEq] at h
      subst h
      exact (qrA_valid K a q r' hv hK hqr).2
  | svdU K =>
    simp only [Op.apply, bind, Except.bind] at h
    split at h
    · cases h
    · rename_i usv husv
      obtain ⟨u, s, v⟩ := usv
      simp only [pure, Except.pure, Except.ok.injEq] at h
      subst h
      exact (svdA_valid K a u v s hv hK husv).1
  | svdV K =>
    simp only [Op.apply, bind, Except.bind] at h
    split at h
    · cases h
    · rename_i usv husv
      obtain ⟨u, s, v⟩ := usv
      simp only [pure, Except.pure, Except.ok.injEq] at h
      subst h
      exact (svdA_valid K a u v s hv hK husv).2.1
  | fuse groups expandEmpty =>
    simp only [Op.apply] at h
    split at h
    · rename_i hf; exact fuseF_valid a r groups expandEmpty hv hf hadm h
    · rename_i hf; exact fuseA_valid a r groups expandEmpty hv (by simpa using hf) hadm h
  | unfuse axis =>
    simp only [Op.apply] at h
    split at h
    · rename_i hf; exact unfuseF_valid a r axis hv hf h
    · rename_i hf; exact unfuseA_valid a r axis hv (by simpa using hf) h
  | unfuseAll =>
    simp only [Op.apply] at h
    split at h
    · rename_i hf; exact unfuseAllF_valid a r hv hf h
    · rename_i hf; exact unfuseAllA_valid a r hv (by simpa using hf) h
  | binary f missing y =>
    simp only [Op.apply, bind, Except.bind] at h
    split at h
    · cases h
    · rename_i blocks hb
      simp only [pure, Except.pure, Except.ok.injEq] at h
      subst h
      obtain ⟨h1, h2⟩ := fitsB_blockOk hadm
      exact binaryBlockwise_valid' _ (zipWith_shapePreserving f) missing a y.blocks blocks hv h1 h2 hb

theorem Op.step_valid [Zero R] [Add R] [Mul R] [Neg R] [Conj R] (op : Op R) (a r : Arr R)
    (hv : Valid a) (hK : op.KernelOk) (h : op.step a = .ok r) : Valid r := by
  unfold Op.step at h
  split at h
  · rename_i hadm; exact op.apply_valid a r hv hK hadm h
  · cases h

theorem Prog.run_valid [Zero R] [Add R] [Mul R] [Neg R] [Conj R] (p : Prog R) (a r : Arr R)
    (hv : Valid a) (hK : ∀ op ∈ p, op.KernelOk) (h : p.run a = .ok r) : Valid r := by
  induction p generalizing a with
  | nil =>
    simp only [Prog.run, pure, Except.pure, Except.ok.injEq] at h
    subst h; exact hv
  | cons op rest ih =>
    simp only [Prog.run, bind, Except.bind] at h
    split at h
    · cases h
    · rename_i a' ha'
      exact ih a' (op.step_valid a a' hv (hK op (by simp)) ha')
        (fun o ho => hK o (by simp [ho])) h

end ValidP
end SymmModel
