/-
  SymmModel.Proofs.ReshapeIh — the visited pairs lie inside both shapes; hence `noWinB` (no window
  match anywhere) implies the exact condition `noWinVisB` (no window match at a visited pair).
-/
import SymmModel.Proofs.ReshapeIe
namespace SymmModel.ReshapeI
open SymmModel SymmModel.Reshape SymmModel.C07 SymmModel.Reshape5 SymmModel.ReshapeH

theorem visits_bounds (shape newshape : List Nat) (B : List (Option (List Nat))) :
    ∀ (fuel i j : Nat) (p : Nat × Nat), p ∈ visits shape newshape B fuel i j →
      p.1 < shape.length ∧ p.2 < newshape.length := by
  intro fuel
  induction fuel with
  | zero => intro i j p hp; simp [visits] at hp
  | succ fuel ih =>
    intro i j p hp
    simp only [visits] at hp
    split at hp
    · rename_i di dj h1 h2
      split at hp
      · simp at hp
      · rw [List.mem_cons] at hp
        rcases hp with rfl | hp
        · exact ⟨(List.getElem?_eq_some_iff.mp h1).1, (List.getElem?_eq_some_iff.mp h2).1⟩
        · split at hp
          · exact ih _ _ _ hp
          · split at hp
            · exact ih _ _ _ hp
            · split at hp
              · exact ih _ _ _ hp
              · split at hp
                · exact ih _ _ _ hp
                · split at hp
                  · split at hp
                    · split at hp
                      · exact ih _ _ _ hp
                      · simp at hp
                    · simp at hp
                  · simp at hp
    · simp at hp

/-- **`noWinB` is sufficient for the exact condition** -/
theorem noWinVis_of_noWin (shape newshape : List Nat) (subsizes : List (Option (List Nat)))
    (hlen : shape.length = subsizes.length) (h : noWinB newshape subsizes = true) :
    noWinVisB shape newshape subsizes = true := by
  simp only [noWinVisB, List.all_eq_true, Option.isNone_iff_eq_none]
  intro p hp
  obtain ⟨h1, h2⟩ := visits_bounds _ _ _ _ _ _ p hp
  have hm : subsizes.getD p.1 none ∈ subsizes := by
    rw [List.getD_eq_getElem?_getD, List.getElem?_eq_getElem (by omega)]
    exact List.getElem_mem _
  exact noWin_spec h hm h2

/-- the diagonal condition is `selfWin = false` of C07g -/
theorem selfWin_false_iff : ∀ (rest : List Nat) (rs : List (Option (List Nat))) (pre : List Nat),
    rest.length = rs.length →
    (selfWin rest rs = false ↔
      ∀ j sub, rs[j]? = some sub → unfuseMatch (pre ++ rest) (pre.length + j) sub = none) := by
  intro rest
  induction rest with
  | nil =>
    intro rs pre hl
    have : rs = [] := List.length_eq_zero_iff.mp hl.symm
    subst this
    simp [selfWin]
  | cons d rest ih =>
    intro rs pre hl
    cases rs with
    | nil => simp at hl
    | cons sub0 rs =>
      have hl' : rest.length = rs.length := by simpa using hl
      have hih := ih rs (pre ++ [d]) hl'
      have hshift : ∀ j sub, unfuseMatch (pre ++ d :: rest) (pre.length + (j + 1)) sub
          = unfuseMatch ((pre ++ [d]) ++ rest) ((pre ++ [d]).length + j) sub := by
        intro j sub
        simp [Nat.add_assoc, Nat.add_comm 1 j]
      have hdrop : (pre ++ d :: rest).drop pre.length = d :: rest := by rw [List.drop_left' rfl]
      constructor
      · intro hw j sub hj
        cases j with
        | zero =>
          simp only [List.getElem?_cons_zero, Option.some.injEq] at hj
          subst hj
          cases sub0 with
          | none => rfl
          | some subs =>
            simp only [selfWin, Bool.or_eq_false_iff] at hw
            simp only [unfuseMatch, Nat.add_zero, hdrop, hw.1]
            rfl
        | succ j =>
          simp only [List.getElem?_cons_succ] at hj
          rw [hshift]
          refine hih.mp ?_ j sub hj
          cases sub0 with
          | none => simpa [selfWin] using hw
          | some subs =>
            simp only [selfWin, Bool.or_eq_false_iff] at hw
            exact hw.2
      · intro h
        have hrest : selfWin rest rs = false := by
          refine hih.mpr ?_
          intro j sub hj
          rw [← hshift]
          exact h (j + 1) sub (by simpa using hj)
        cases sub0 with
        | none => simpa [selfWin] using hrest
        | some subs =>
          simp only [selfWin, Bool.or_eq_false_iff]
          refine ⟨?_, hrest⟩
          have h0 := h 0 (some subs) (by simp)
          simp only [unfuseMatch, Nat.add_zero, hdrop] at h0
          cases hb : beqNats subs ((d :: rest).take subs.length) with
          | false => rfl
          | true => rw [hb] at h0; simp at h0

theorem noSelfWinB_iff_selfWin (shape : List Nat) (subsizes : List (Option (List Nat)))
    (hlen : shape.length = subsizes.length) :
    noSelfWinB shape subsizes = true ↔ selfWin shape subsizes = false := by
  rw [selfWin_false_iff shape subsizes [] hlen]
  simp only [List.nil_append, List.length_nil, Nat.zero_add]
  constructor
  · intro h j sub hj
    exact noSelfWin_spec h hj
  · intro h
    simp only [noSelfWinB, List.all_eq_true, List.mem_range, Option.isNone_iff_eq_none]
    intro j hj
    exact h j _ (by rw [List.getD_eq_getElem?_getD, List.getElem?_eq_getElem hj]; rfl)

/-- two tables of the same length that answer alike at the pairs visited with one of them give the
    same plan -/
theorem calcReshapeArgs_agree (shape newshape : List Nat) (A B : List (Option (List Nat)))
    (hlen : A.length = B.length)
    (h : ∀ p ∈ visits shape newshape B (shape.length + newshape.length) 0 0,
      unfuseMatch newshape p.2 (A.getD p.1 none) = unfuseMatch newshape p.2 (B.getD p.1 none)) :
    calcReshapeArgs shape newshape A = calcReshapeArgs shape newshape B := by
  unfold calcReshapeArgs
  rw [mainLoop_agree shape newshape A B hlen _ {} h]

end SymmModel.ReshapeI
