/-
  SymmModel.Proofs.Assoc3Frame — S7 of property C04 with the WEAK guard on the first-level calls:
  the intermediate result of a call that only satisfies `contractibleCommonB` (`inter_of_call_w`),
  and the weak guard of the second calls from weak guards of the first.  Namespace `SymmModel.Assoc3P`.
-/
import SymmModel.Proofs.Assoc3Valid

namespace SymmModel
namespace Assoc3P
open TdotP GradedP RoutesP KoszulP AssocP Assoc2P
open Lazy (sgnI)
set_option linter.unusedSectionVars false

variable {R : Type}

theorem opposite_of_commonB {a b : Arr R} {xa xb : List Nat}
    (h : contractibleCommonB a b xa xb = true) : ValidP.oppositeDualsB a b xa xb = true := by
  unfold contractibleCommonB at h
  unfold ValidP.oppositeDualsB
  simp only [Bool.and_eq_true, List.all_eq_true] at h ⊢
  exact ⟨h.1, fun p hp => (h.2 p hp).2⟩

section
variable [AddMonoid R] [Mul R] [Neg R] [SignRing R]

/-- a successful first contraction under the weak guard gives an `Inter` -/
theorem inter_of_call_w (a b : Arr R) (xa xb : List Nat) (W : AdmW a b xa xb)
    (r : List (Int × Bool) × Int)
    (hm : OddposP.mergeOddpos a.parity a.oddpos b.oddpos = .ok r) (hpm : r.2 = 1 ∨ r.2 = -1) :
    a.tensordotF b (.pair (xa.map Int.ofNat) (xb.map Int.ofNat)) .blockwise
        = .ok (finish (coreT a b xa xb) r)
      ∧ Inter a b xa xb (finish (coreT a b xa xb) r) r.2
      ∧ (finish (coreT a b xa xb) r).oddpos = r.1 := by
  have hcall : a.tensordotF b (.pair (xa.map Int.ofNat) (xb.map Int.ofNat)) .blockwise
      = .ok (finish (coreT a b xa xb) r) := by
    rw [tensordotF_eq_core_w a b xa xb W, hm]; rfl
  have F := coreT_frame_w a b xa xb W
  obtain ⟨f1, f2, f3, f4, f5, f6⟩ := finish_fields (coreT a b xa xb) r
  have hv := ValidP.tensordotF_valid_of_opposite .blockwise ValidP.tdotASpec_blockwise a b _ xa xb
    ((ValidP.validB_iff a).mp W.va) ((ValidP.validB_iff b).mp W.vb) W.fa W.fb W.sym
    (opposite_of_commonB W.con) W.nA W.nB W.ltA W.ltB hcall
  refine ⟨hcall, ⟨(ValidP.validB_iff _).mpr hv, by rw [f3, F.fermi, W.fa], by rw [f2, F.sym],
    by rw [f1, F.charge], by rw [f4, f5, F.indices], by rw [f5, F.sectors], hpm, ?_⟩, f6⟩
  intro s oL oR hoL ho
  rw [finish_elem _ _ (coreFrame_signOk F), F.elem s oL oR hoL ho]

variable {A B C AB BC : Arr R} {xa xb1 xb2 xc : List Nat} {ph : Int}

/-- guard of `(A·B, C)` on `B`'s legs from the weak guard of `(B, C)` -/
theorem conL_w (I : Inter A B xa xb1 AB ph) (hcon : contractibleCommonB B C xb2 xc = true)
    (h : Mid B.ndim xb1 xb2) :
    contractibleCommonB AB C (AssocP.axesAB A.ndim B.ndim xa xb1 xb2) xc = true := by
  refine commonB_prune_left (a := B) (xa := xb2) (AssocP.axesAB_len h) ?_ hcon
  intro j hj
  obtain ⟨e1, e2, e3⟩ := AssocP.axesAB_getD (nA := A.ndim) (xa := xa) h j hj
  have := I.leg_right _ e2
  rw [e3, ← e1] at this
  exact this

/-- guard of `(A, B·C)` on `B`'s legs from the weak guard of `(A, B)` -/
theorem conR_w (I : Inter B C xb2 xc BC ph) (hcon : contractibleCommonB A B xa xb1 = true)
    (h : Mid B.ndim xb1 xb2) :
    contractibleCommonB A BC xa (AssocP.axesBC B.ndim xb1 xb2) = true := by
  refine commonB_prune_right (b := B) (xb := xb1) h.symm.pos_len ?_ hcon
  intro j hj
  have hjp : j < (positions (freeAxes B.ndim xb2) xb1).length := by rw [h.symm.pos_len]; exact hj
  have e2 : (positions (freeAxes B.ndim xb2) xb1).getD j 0 < (freeAxes B.ndim xb2).length := by
    rw [List.getD_eq_getElem?_getD, List.getElem?_eq_getElem hjp]
    exact h.symm.pos_lt _ (List.getElem_mem hjp)
  have e3 : (freeAxes B.ndim xb2).getD ((positions (freeAxes B.ndim xb2) xb1).getD j 0) 0
      = xb1.getD j 0 := by
    rw [← getD_permuted_ax (freeAxes B.ndim xb2) _ h.symm.pos_lt j hjp 0, h.symm.pos_spec]
  have := I.leg_left _ e2
  rw [e3] at this
  exact this

end

/-- the hypotheses on the three operands and their three bonds, weak guards -/
structure TriW (A B C : Arr R) (xa1 xa3 xb1 xb2 xc2 xc3 : List Nat)
    [AddMonoid R] [Mul R] [Neg R] [SignRing R] : Prop where
  hAB : AdmW A B xa1 xb1
  hBC : AdmW B C xb2 xc2
  mA : Mid A.ndim xa1 xa3
  mB : Mid B.ndim xb1 xb2
  mC : Mid C.ndim xc2 xc3
  conAC : contractibleCommonB A C xa3 xc3 = true

end Assoc3P
end SymmModel
