/-
  SymmModel.Proofs.Routes3 — S5 of property C04 (passing the operands in the other order),
  specification level and model level.  Namespace `SymmModel.RoutesP`.
-/
import SymmModel.Proofs.Routes2

namespace SymmModel
namespace RoutesP
open TdotP GradedP KoszulP OddposP
set_option linter.unusedSectionVars false

/-! ### labels: merging in the other order -/

theorem mergeOddpos_swap (pa pb : Bool) (la lb : List (Int × Bool))
    (hd : LabelsDistinct (la ++ lb)) :
    ∃ out sab sba, mergeOddpos pa la lb = .ok (out, sab) ∧ mergeOddpos pb lb la = .ok (out, sba)
      ∧ sba = sab * sgn (pa.toNat * lb.length + pb.toNat * la.length + la.length * lb.length) := by
  have hd' : LabelsDistinct (lb ++ la) := hd.perm List.perm_append_comm
  obtain ⟨o1, p1, s1, m1⟩ := mergeOddpos_spec pa la lb hd
  obtain ⟨o2, p2, s2, m2⟩ := mergeOddpos_spec pb lb la hd'
  have ho : o2 = o1 := oddSorted_unique s2 s1 (p2.trans (List.perm_append_comm.trans p1.symm))
  subst ho
  refine ⟨o2, _, _, m1, m2, ?_⟩
  rw [← sgn_add]
  apply sgn_congr
  have hex : ∀ x ∈ la, ∀ y ∈ lb, oddR x y = !oddR y x := by
    intro x hx y hy
    apply oddR_ex
    intro e
    have := (List.pairwise_append.mp hd).2.2 x hx y hy
    exact this (by rw [e])
  have hc := crossR_add_swap oddR la lb hex
  rw [invR_append, invR_append]
  generalize pa.toNat * lb.length = A
  generalize pb.toNat * la.length = B
  generalize la.length * lb.length = N at hc ⊢
  omega

/-! ### parities of a stored sector pair -/

section parity
variable {R : Type}

/-- number of odd charges in a list of charges -/
def oddIn (sym : Sym) (l : Sector) : Nat := (l.filter sym.parity).length

theorem oddCount_parities (sym : Sym) (s : Sector) (A : List Nat) (hA : ∀ i ∈ A, i < s.length) :
    oddCount (s.map sym.parity) A = oddIn sym (permuted s A) := by
  unfold oddCount oddIn
  rw [permuted_eq_map s A hA (0, 0), List.filter_map, List.length_map]
  congr 1
  apply List.filter_congr
  intro ax hax
  have := hA ax hax
  unfold isOdd
  simp [List.getD_eq_getElem?_getD, List.getElem?_eq_getElem this]

theorem oddIn_perm (sym : Sym) {l l' : Sector} (h : l.Perm l') : oddIn sym l = oddIn sym l' :=
  (h.filter _).length_eq

theorem oddIn_append (sym : Sym) (l l' : Sector) : oddIn sym (l ++ l') = oddIn sym l + oddIn sym l' := by
  unfold oddIn; rw [List.filter_append, List.length_append]

/-- charge conservation for a stored sector: its parity is the number of odd charges, which splits
    into the free and the contracted part -/
theorem parity_split (a : Arr R) (xa : List Nat) (hn : xa.Nodup) (hlt : ∀ i ∈ xa, i < a.ndim)
    (sa : Sector) (hla : sa.length = a.ndim) (hv : a.isValidSector sa = true) :
    a.parity = ((oddIn a.sym (permuted sa (freeAxes a.ndim xa)) + oddIn a.sym (permuted sa xa)) % 2 == 1) := by
  rw [← Lazy.odd_count_sector hla hv]
  have h1 : ((a.parities sa).filter id).length = oddIn a.sym sa := by
    unfold Arr.parities oddIn; rw [List.filter_map, List.length_map]; rfl
  have h2 : oddIn a.sym sa = oddIn a.sym (permuted sa (freeAxes a.ndim xa ++ xa)) :=
    (oddIn_perm a.sym (permuted_perm sa _ (by rw [hla]; exact perm_left hn hlt))).symm
  rw [h1, h2, ValidP.permuted_append, oddIn_append]

/-- the parity identity behind the operand swap -/
theorem swap_parity (oL K oR : Nat) (pa pb : Bool) (ha : pa = ((oL + K) % 2 == 1))
    (hb : pb = ((K + oR) % 2 == 1)) :
    (pa.toNat * pb.toNat + K * oR + oL * K + K) % 2 = (oL * oR) % 2 := by
  subst ha hb
  rcases Nat.mod_two_eq_zero_or_one oL with h1 | h1 <;>
    rcases Nat.mod_two_eq_zero_or_one K with h2 | h2 <;>
    rcases Nat.mod_two_eq_zero_or_one oR with h3 | h3 <;>
    simp [Nat.add_mod, Nat.mul_mod, h1, h2, h3]

end parity

/-! ### S5: the sign of a pair after swapping the operands -/

section swapsign
variable {R : Type}

theorem filter2_range (l : List Nat) (P Q : Nat → Bool) :
    ((l.filter P).filter Q).length
      = ((List.range l.length).filter (fun j => P (l.getD j 0) && Q (l.getD j 0))).length := by
  conv => lhs; rw [list_eq_map_getD l]
  simp only [List.filter_map, List.length_map, List.filter_filter]
  congr 1
  apply List.filter_congr
  intro j _
  simp [Function.comp, Bool.and_comm]

/-- every odd contracted charge sits on a ket leg of exactly one of the two operands -/
theorem ket_sum (a b : Arr R) (xa xb : List Nat) (hsym : a.sym = b.sym)
    (hc : ValidP.contractibleB a b xa xb = true)
    (hA : ∀ i ∈ xa, i < a.ndim) (hB : ∀ i ∈ xb, i < b.ndim)
    (sa sb : Sector) (hla : sa.length = a.ndim) (hlb : sb.length = b.ndim)
    (hal : permuted sb xb = permuted sa xa) :
    ketOdd b xb sb + ketOdd a xa sa = oddIn a.sym (permuted sa xa) := by
  have hlen := contractible_len hc
  unfold ketOdd
  rw [filter2_range xb, filter2_range xa, ← hlen]
  have hK : oddIn a.sym (permuted sa xa)
      = ((List.range xa.length).filter (fun j => a.sym.parity (sa.getD (xa.getD j 0) (0, 0)))).length := by
    unfold oddIn
    rw [permuted_eq_map sa xa (by rw [hla]; exact hA) (0, 0), List.filter_map, List.length_map]
    conv => lhs; rw [list_eq_map_getD xa]
    rw [List.filter_map, List.length_map]
    rfl
  rw [hK, ← Lazy.filter_and_add_not (fun j => (a.indices.getD (xa.getD j 0) default).dual)
    (fun j => a.sym.parity (sa.getD (xa.getD j 0) (0, 0))) (List.range xa.length)]
  congr 1
  apply congrArg List.length
  apply List.filter_congr
  intro j hj
  have hj' := List.mem_range.mp hj
  have hjb : j < xb.length := by omega
  have hat := contractible_at hc j hj'
  have h1 := getD_permuted_ax sb xb (by rw [hlb]; exact hB) j hjb (0, 0)
  have h2 := getD_permuted_ax sa xa (by rw [hla]; exact hA) j hj' (0, 0)
  rw [hat.2, ← h1, ← h2, hal, hsym]
  simp

theorem gradedSign_swap (a b : Arr R) (xa xb : List Nat) (hsym : a.sym = b.sym)
    (hc : ValidP.contractibleB a b xa xb = true)
    (hnA : xa.Nodup) (hA : ∀ i ∈ xa, i < a.ndim) (hnB : xb.Nodup) (hB : ∀ i ∈ xb, i < b.ndim)
    (sa sb : Sector) (hla : sa.length = a.ndim) (hlb : sb.length = b.ndim)
    (hal : permuted sb xb = permuted sa xa) :
    gradedSign b a xb xa sb sa
      = gradedSign a b xa xb sa sb
        * sgn (oddIn a.sym (permuted sa xa) * oddIn a.sym (permuted sb (freeAxes b.ndim xb))
            + oddIn a.sym (permuted sa (freeAxes a.ndim xa)) * oddIn a.sym (permuted sa xa)
            + oddIn a.sym (permuted sa xa)) := by
  have hfreeA : ∀ i ∈ freeAxes a.ndim xa, i < sa.length := by
    intro i hi; rw [hla]; exact (mem_freeAxes.mp hi).1
  have hfreeB : ∀ i ∈ freeAxes b.ndim xb, i < sb.length := by
    intro i hi; rw [hlb]; exact (mem_freeAxes.mp hi).1
  -- the two operand transposes
  have kb := koszul_block_move (b.parities sb) [] xb (freeAxes b.ndim xb) [] b.ndim
    (by simpa using perm_right hnB hB)
  have ka := koszul_block_move (a.parities sa) [] (freeAxes a.ndim xa) xa [] a.ndim
    (by simpa using perm_left hnA hA)
  simp only [List.nil_append, List.append_nil] at kb ka
  have cb1 : oddCount (b.parities sb) xb = oddIn a.sym (permuted sa xa) := by
    unfold Arr.parities
    rw [oddCount_parities b.sym sb xb (by rw [hlb]; exact hB), hal, hsym]
  have cb2 : oddCount (b.parities sb) (freeAxes b.ndim xb)
      = oddIn a.sym (permuted sb (freeAxes b.ndim xb)) := by
    unfold Arr.parities
    rw [oddCount_parities b.sym sb _ hfreeB, hsym]
  have ca1 : oddCount (a.parities sa) xa = oddIn a.sym (permuted sa xa) := by
    unfold Arr.parities
    rw [oddCount_parities a.sym sa xa (by rw [hla]; exact hA)]
  have ca2 : oddCount (a.parities sa) (freeAxes a.ndim xa)
      = oddIn a.sym (permuted sa (freeAxes a.ndim xa)) := by
    unfold Arr.parities
    rw [oddCount_parities a.sym sa _ hfreeA]
  rw [cb1, cb2] at kb
  rw [ca1, ca2] at ka
  have hodd : oddContracted b xb sb = oddContracted a xa sa := by
    unfold oddContracted; rw [hal, hsym]
  have hK : oddContracted a xa sa = oddIn a.sym (permuted sa xa) := rfl
  have hket := ket_sum a b xa xb hsym hc hA hB sa sb hla hlb hal
  have hketsgn : (-1 : Int) ^ ketOdd b xb sb
      = (-1 : Int) ^ ketOdd a xa sa * sgn (oddIn a.sym (permuted sa xa)) := by
    rw [← sgn_eq_pow, ← sgn_eq_pow, ← sgn_add]
    apply sgn_congr
    omega
  unfold gradedSign
  rw [kb, ka, hodd, hketsgn, sgn_add, sgn_add]
  ring

end swapsign

/-! ### S5, specification level -/

section swapspec
variable {R : Type}

/-- the rotation that moves the second block of legs in front costs `(-1)^(#odd₁ · #odd₂)` -/
theorem koszul_rot (P Q : List Bool) :
    koszul (P ++ Q) (some ((List.range Q.length).map (P.length + ·) ++ List.range P.length))
      = sgn ((P.filter id).length * (Q.filter id).length) := by
  have h : ([] ++ List.range P.length ++ (List.range Q.length).map (P.length + ·) ++ []).Perm
      (List.range (P.length + Q.length)) := by
    rw [List.range_add]; simp
  have hk := koszul_block_move (P ++ Q) [] (List.range P.length)
    ((List.range Q.length).map (P.length + ·)) [] (P.length + Q.length) h
  simp only [List.nil_append, List.append_nil] at hk
  have hid : List.range P.length ++ (List.range Q.length).map (P.length + ·)
      = List.range (P.length + Q.length) := List.range_add.symm
  rw [hk, hid, koszul_id', Int.one_mul]
  have c1 : oddCount (P ++ Q) (List.range P.length) = (P.filter id).length := by
    rw [← oddCount_range P]
    unfold oddCount
    congr 1
    apply List.filter_congr
    intro j hj
    exact isOdd_append_left P Q j (List.mem_range.mp hj)
  have c2 : oddCount (P ++ Q) ((List.range Q.length).map (P.length + ·)) = (Q.filter id).length := by
    rw [← oddCount_range Q]
    unfold oddCount
    rw [List.filter_map, List.length_map]
    congr 1
    apply List.filter_congr
    intro j _
    exact isOdd_append_right P Q j
  rw [c1, c2]

theorem oddIn_eq_filter (sym : Sym) (l : Sector) : ((l.map sym.parity).filter id).length = oddIn sym l := by
  unfold oddIn; rw [List.filter_map, List.length_map]; rfl

/-- the stored pairs of the swapped call are the swapped stored pairs (in another order) -/
theorem storedPairs_swap_perm (a b : Arr R) (xa xb : List Nat)
    (hda : a.sectors.Nodup) (hdb : b.sectors.Nodup) (hsa : a.shapesOk)
    (L Rr : Sector) (hL : L.length = (freeAxes a.ndim xa).length) :
    (storedPairs b a (freeAxes b.ndim xb) xb xa (freeAxes a.ndim xa) (Rr ++ L)).Perm
      ((storedPairs a b (freeAxes a.ndim xa) xa xb (freeAxes b.ndim xb) (L ++ Rr)).map Prod.swap) := by
  rw [List.perm_ext_iff_of_nodup (storedPairs_nodup _ _ _ _ _ hdb hda)
    ((storedPairs_nodup _ _ _ _ _ hda hdb).map (fun x y h => by
      cases x; cases y; simp only [Prod.swap, Prod.mk.injEq] at h; simp [h.1, h.2]))]
  rintro ⟨sb, sa⟩
  simp only [List.mem_map, Prod.exists, Prod.swap, Prod.mk.injEq]
  constructor
  · intro h
    obtain ⟨h1, h2, h3, h4⟩ := mem_storedPairs.mp h
    have hl : (permuted sa (freeAxes a.ndim xa)).length = L.length := by
      rw [permuted_length _ _ (by
        intro x hx; rw [Arr.sector_length hsa h2]; exact (mem_freeAxes.mp hx).1), hL]
    obtain ⟨e1, e2⟩ := List.append_inj' h4 hl
    exact ⟨sa, sb, mem_storedPairs.mpr ⟨h2, h1, h3.symm, by rw [e1, e2]⟩, rfl, rfl⟩
  · rintro ⟨sa', sb', h, rfl, rfl⟩
    obtain ⟨h1, h2, h3, h4⟩ := mem_storedPairs.mp h
    have hl : (permuted sa' (freeAxes a.ndim xa)).length = L.length := by
      rw [permuted_length _ _ (by
        intro x hx; rw [Arr.sector_length hsa h1]; exact (mem_freeAxes.mp hx).1), hL]
    obtain ⟨e1, e2⟩ := List.append_inj h4 hl
    exact mem_storedPairs.mpr ⟨h2, h1, h3.symm, by rw [e1, e2]⟩

variable [AddCommMonoid R] [Mul R] [Neg R] [SignRing R]
open Lazy (sgnI)

theorem contractPair_swap (a b : Arr R) (xa xb : List Nat) (hmul : ∀ x y : R, x * y = y * x)
    (hsa : a.shapesOk) (hsb : b.shapesOk) (hc : ValidP.contractibleB a b xa xb = true)
    (hA : ∀ i ∈ xa, i < a.ndim) (hB : ∀ i ∈ xb, i < b.ndim) (oL oR : List Nat) (sa sb : Sector)
    (h1 : sa ∈ a.sectors) (h2 : sb ∈ b.sectors) (hal : permuted sb xb = permuted sa xa) :
    contractPair b a xb xa oR oL (sb, sa) = contractPair a b xa xb oL oR (sa, sb) := by
  unfold contractPair
  simp only []
  rw [shapes_match hsa hsb hc hA hB sa h1 sb h2 hal]
  congr 1
  apply List.map_congr_left
  intro k _
  unfold contractTerm
  exact hmul _ _

/-- **S5, specification level.** -/
theorem gradedContract_swap (a b : Arr R) (xa xb : List Nat) (hmul : ∀ x y : R, x * y = y * x)
    (h : Adm a b xa xb) (L Rr : Sector) (hL : L.length = (freeAxes a.ndim xa).length)
    (oL oR : List Nat) :
    gradedContract b a xb xa (Rr ++ L) oR oL
      = sgnI (sgn (a.parity.toNat * b.parity.toNat + oddIn a.sym L * oddIn a.sym Rr))
          (gradedContract a b xa xb (L ++ Rr) oL oR) := by
  have hsa := Arr.shapesOk_of_validB h.va
  have hsb := Arr.shapesOk_of_validB h.vb
  have fa := Lazy.Full.of_valid h.va h.fa
  have fb := Lazy.Full.of_valid h.vb h.fb
  unfold gradedContract
  rw [((storedPairs_swap_perm a b xa xb fa.sign.sectors fb.sign.sectors hsa L Rr hL).map _).sum_eq,
    List.map_map, ← sgnI_sum]
  congr 1
  apply List.map_congr_left
  rintro ⟨sa, sb⟩ hp
  obtain ⟨m1, m2, m3, m4⟩ := mem_storedPairs.mp hp
  have hla := Arr.sector_length hsa m1
  have hlb := Arr.sector_length hsb m2
  simp only [Function.comp, Prod.swap]
  rw [contractPair_swap a b xa xb hmul hsa hsb h.con h.ltA h.ltB oL oR sa sb m1 m2 m3,
    sgnI_comp (sgn_cases _) (gradedSign_pm _ _ _ _ _ _),
    gradedSign_swap a b xa xb h.sym h.con h.nA h.ltA h.nB h.ltB sa sb hla hlb m3]
  congr 1
  rw [Int.mul_comm]
  congr 1
  apply sgn_congr
  -- the free parts of the pair are `L` and `Rr`
  have hl1 : (permuted sa (freeAxes a.ndim xa)).length = L.length := by
    rw [permuted_length _ _ (by intro x hx; rw [hla]; exact (mem_freeAxes.mp hx).1), hL]
  obtain ⟨e1, e2⟩ := List.append_inj m4 hl1
  rw [e1, e2]
  have pa := parity_split a xa h.nA h.ltA sa hla (Lazy.SecValid.of_valid h.va sa m1)
  have pb := parity_split b xb h.nB h.ltB sb hlb (Lazy.SecValid.of_valid h.vb sb m2)
  rw [e1] at pa
  rw [e2, m3, ← h.sym] at pb
  have := swap_parity (oddIn a.sym L) (oddIn a.sym (permuted sa xa)) (oddIn a.sym Rr) a.parity b.parity
    pa (by rw [pb, Nat.add_comm])
  omega

end swapspec

/-! ### S5 for the model -/

section s5
variable {R : Type}

theorem contractible_swap {a b : Arr R} {xa xb : List Nat}
    (hc : ValidP.contractibleB a b xa xb = true) : ValidP.contractibleB b a xb xa = true := by
  have hlen := contractible_len hc
  unfold ValidP.contractibleB
  simp only [Bool.and_eq_true, beq_iff_eq, List.all_eq_true]
  refine ⟨hlen.symm, ?_⟩
  intro pr hpr
  obtain ⟨j, hj, rfl⟩ := List.mem_iff_getElem.mp hpr
  simp only [List.length_zip] at hj
  have hj1 : j < xa.length := by omega
  have hj2 : j < xb.length := by omega
  rw [List.getElem_zip]
  have hat := contractible_at hc j hj1
  have e1 : xa[j] = xa.getD j 0 := by
    rw [List.getD_eq_getElem?_getD, List.getElem?_eq_getElem hj1]; rfl
  have e2 : xb[j] = xb.getD j 0 := by
    rw [List.getD_eq_getElem?_getD, List.getElem?_eq_getElem hj2]; rfl
  simp only []
  rw [e1, e2, hat.1, hat.2]
  simp

theorem Adm.swap {a b : Arr R} {xa xb : List Nat} (h : Adm a b xa xb) : Adm b a xb xa :=
  ⟨h.vb, h.va, h.fb, h.fa, h.sym.symm, contractible_swap h.con, h.nB, h.nA, h.ltB, h.ltA⟩

/-- the validity clause tying the number of labels to the parity of the charge -/
theorem oddpos_parity {a : Arr R} (ha : a.validB = true) (hfa : a.fermi = true) :
    (a.oddpos.length % 2 == 1) = a.parity := by
  have := ((ValidP.validB_iff a).mp ha).sgn
  unfold ValidP.SignsOk at this
  rw [if_pos hfa] at this
  exact this.2

theorem label_swap_parity (pa pb : Bool) (na nb : Nat) (ha : (na % 2 == 1) = pa) (hb : (nb % 2 == 1) = pb) :
    (pa.toNat * nb + pb.toNat * na + na * nb) % 2 = (pa.toNat * pb.toNat) % 2 := by
  subst ha hb
  rcases Nat.mod_two_eq_zero_or_one na with h1 | h1 <;>
    rcases Nat.mod_two_eq_zero_or_one nb with h2 | h2 <;>
    simp [Nat.add_mod, Nat.mul_mod, h1, h2]

/-- the box of the swapped address -/
theorem box_swap (a b : Arr R) (xa xb : List Nat) (L Rr : Sector)
    (hL : L.length = (freeAxes a.ndim xa).length) (hR : Rr.length = (freeAxes b.ndim xb).length)
    (oL oR : List Nat) (hoL : oL.length = (freeAxes a.ndim xa).length)
    (hoR : oR.length = (freeAxes b.ndim xb).length)
    (ho : inBox (Arr.blockShapeD (without a.indices xa ++ without b.indices xb) (L ++ Rr))
      (oL ++ oR) = true) :
    inBox (Arr.blockShapeD (without b.indices xb ++ without a.indices xa) (Rr ++ L))
      (oR ++ oL) = true := by
  have hIL : (without a.indices xa).length = (freeAxes a.ndim xa).length := by
    rw [without_eq_permuted_freeAxes]
    exact permuted_length _ _ (fun x hx => (mem_freeAxes.mp hx).1)
  have hIR : (without b.indices xb).length = (freeAxes b.ndim xb).length := by
    rw [without_eq_permuted_freeAxes]
    exact permuted_length _ _ (fun x hx => (mem_freeAxes.mp hx).1)
  cases h1 : Arr.blockShape? (without a.indices xa) L with
  | none =>
    have hn : Arr.blockShape? (without a.indices xa ++ without b.indices xb) (L ++ Rr) = none := by
      cases hh : Arr.blockShape? (without a.indices xa ++ without b.indices xb) (L ++ Rr) with
      | none => rfl
      | some shp => rw [(blockShape?_split (by rw [hL, hIL]) hh).1] at h1; cases h1
    rw [Arr.blockShapeD, hn] at ho
    have hnil : oL ++ oR = [] := by have := inBox_length ho; simpa using this
    obtain ⟨e1, e2⟩ := List.append_eq_nil_iff.mp hnil
    subst e1 e2
    have hn' : Arr.blockShape? (without b.indices xb ++ without a.indices xa) (Rr ++ L) = none := by
      cases hh : Arr.blockShape? (without b.indices xb ++ without a.indices xa) (Rr ++ L) with
      | none => rfl
      | some shp => rw [(blockShape?_split (by rw [hR, hIR]) hh).2] at h1; cases h1
    rw [Arr.blockShapeD, hn']; rfl
  | some SL =>
    cases h2 : Arr.blockShape? (without b.indices xb) Rr with
    | none =>
      have hn : Arr.blockShape? (without a.indices xa ++ without b.indices xb) (L ++ Rr) = none := by
        cases hh : Arr.blockShape? (without a.indices xa ++ without b.indices xb) (L ++ Rr) with
        | none => rfl
        | some shp => rw [(blockShape?_split (by rw [hL, hIL]) hh).2] at h2; cases h2
      rw [Arr.blockShapeD, hn] at ho
      have hnil : oL ++ oR = [] := by have := inBox_length ho; simpa using this
      obtain ⟨e1, e2⟩ := List.append_eq_nil_iff.mp hnil
      subst e1 e2
      have hn' : Arr.blockShape? (without b.indices xb ++ without a.indices xa) (Rr ++ L) = none := by
        cases hh : Arr.blockShape? (without b.indices xb ++ without a.indices xa) (Rr ++ L) with
        | none => rfl
        | some shp => rw [(blockShape?_split (by rw [hR, hIR]) hh).1] at h2; cases h2
      rw [Arr.blockShapeD, hn']; rfl
    | some SR =>
      rw [Arr.blockShapeD, blockShape?_append h1 h2] at ho
      rw [Arr.blockShapeD, blockShape?_append h2 h1]
      have l1 := (blockShape?_length h1).2
      have l2 := (blockShape?_length h2).2
      change inBox (SL ++ SR) (oL ++ oR) = true at ho
      show inBox (SR ++ SL) (oR ++ oL) = true
      rw [inBox_append (by rw [hoL, l1, hIL])] at ho
      rw [inBox_append (by rw [hoR, l2, hIR])]
      simp only [Bool.and_eq_true] at ho ⊢
      exact ⟨ho.2, ho.1⟩

variable [AddCommMonoid R] [Mul R] [Neg R] [SignRing R]
open Lazy (sgnI)

/-- **S5.**  Passing the operands in the other order (with pairwise-distinct labels) gives a
    result with the same labels and charge whose value, at the address with the two free parts
    exchanged, is the original value times the Koszul sign of the rotation `rot` that moves `b`'s
    free legs in front — i.e. the value of `transposeF c rot`. -/
theorem tdotF_swap (a b c : Arr R) (xa xb : List Nat) (hmul : ∀ x y : R, x * y = y * x)
    (h : Adm a b xa xb) (hd : (a.oddpos ++ b.oddpos).Pairwise (fun x y => x.1 ≠ y.1))
    (hc : a.tensordotF b (.pair (xa.map Int.ofNat) (xb.map Int.ofNat)) .blockwise = .ok c) :
    ∃ c', b.tensordotF a (.pair (xb.map Int.ofNat) (xa.map Int.ofNat)) .blockwise = .ok c'
      ∧ c'.oddpos = c.oddpos ∧ c'.charge = c.charge ∧ c'.sym = c.sym ∧ c'.fermi = c.fermi
      ∧ ∀ (L Rr : Sector) (oL oR : List Nat), L.length = (freeAxes a.ndim xa).length →
          Rr.length = (freeAxes b.ndim xb).length → oL.length = (freeAxes a.ndim xa).length →
          oR.length = (freeAxes b.ndim xb).length →
          inBox (Arr.blockShapeD (without a.indices xa ++ without b.indices xb) (L ++ Rr))
            (oL ++ oR) = true →
          c'.elem (Rr ++ L) (oR ++ oL)
            = sgnI (koszul ((L ++ Rr).map a.sym.parity)
                (some ((List.range Rr.length).map (L.length + ·) ++ List.range L.length)))
                (c.elem (L ++ Rr) (oL ++ oR)) := by
  have h' := h.swap
  rw [tensordotF_eq_core a b xa xb h] at hc
  rw [tensordotF_eq_core b a xb xa h']
  obtain ⟨out, sab, sba, m1, m2, m3⟩ := mergeOddpos_swap a.parity b.parity a.oddpos b.oddpos hd
  rw [m1] at hc
  rw [m2]
  simp only [Except.map, Except.ok.injEq] at hc ⊢
  subst hc
  have F := coreT_frame a b xa xb h
  have F' := coreT_frame b a xb xa h'
  have hsign : ∀ (T : Arr R) (r : List (Int × Bool) × Int), Lazy.SignOk T → ∀ s o,
      (finish T r).elem s o = sgnI r.2 (T.elem s o) := by
    intro T r hTs s o
    show (if (r.2 == -1) = true then T.phaseGlobal else T).elem s o = _
    by_cases hph : r.2 = -1
    · rw [hph]
      simp only [beq_self_eq_true, if_true]
      rw [Lazy.phaseGlobal_elem _ hTs, Lazy.sgnI_neg_one]
    · have : (r.2 == -1) = false := by simpa using hph
      simp only [this, Bool.false_eq_true, if_false]
      unfold sgnI
      rw [if_neg hph]
  have hok : ∀ (a0 b0 : Arr R) (x0 y0 : List Nat), CoreFrame a0 b0 x0 y0 (coreT a0 b0 x0 y0) →
      Lazy.SignOk (coreT a0 b0 x0 y0) := by
    intro a0 b0 x0 y0 F0
    refine ⟨by rw [F0.sectors]; exact nodup_eraseDups _, ?_⟩
    rw [F0.phases]; exact Lazy.PhOk.nil
  have hfield : ∀ (T : Arr R) (r : List (Int × Bool) × Int),
      (finish T r).charge = T.charge ∧ (finish T r).sym = T.sym ∧ (finish T r).fermi = T.fermi := by
    intro T r
    unfold finish
    split <;> exact ⟨rfl, rfl, rfl⟩
  refine ⟨_, rfl, rfl, ?_, ?_, ?_, ?_⟩
  · rw [(hfield _ _).1, (hfield _ _).1, F.charge, F'.charge, ← h.sym]
    exact C17.combine_comm a.sym b.charge a.charge
  · rw [(hfield _ _).2.1, (hfield _ _).2.1, F.sym, F'.sym, h.sym]
  · rw [(hfield _ _).2.2, (hfield _ _).2.2, F.fermi, F'.fermi, h.fa, h.fb]
  · intro L Rr oL oR hL hR hoL hoR ho
    have ho' := box_swap a b xa xb L Rr hL hR oL oR hoL hoR ho
    rw [hsign _ _ (hok _ _ _ _ F'), hsign _ _ (hok _ _ _ _ F), F'.elem _ _ _ hoR ho',
      F.elem _ _ _ hoL ho, gradedContract_swap a b xa xb hmul h L Rr hL oL oR]
    have hrot : koszul ((L ++ Rr).map a.sym.parity)
        (some ((List.range Rr.length).map (L.length + ·) ++ List.range L.length))
        = sgn (oddIn a.sym L * oddIn a.sym Rr) := by
      have := koszul_rot (L.map a.sym.parity) (Rr.map a.sym.parity)
      rw [List.length_map, List.length_map, oddIn_eq_filter, oddIn_eq_filter, ← List.map_append] at this
      exact this
    rw [hrot]
    simp only []
    rw [m3]
    have hlab := label_swap_parity a.parity b.parity a.oddpos.length b.oddpos.length
      (oddpos_parity h.va h.fa) (oddpos_parity h.vb h.fb)
    have hsab : sab = 1 ∨ sab = -1 := by
      obtain ⟨o', _, _, q3⟩ := mergeOddpos_spec a.parity a.oddpos b.oddpos hd
      rw [q3] at m1
      simp only [Except.ok.injEq, Prod.mk.injEq] at m1
      rw [← m1.2]; exact sgn_cases _
    rw [sgnI_comp (Lazy.mul_pm hsab (sgn_cases _)) (sgn_cases _),
      sgnI_comp (sgn_cases _) hsab]
    congr 1
    rw [Int.mul_assoc, ← sgn_add, Int.mul_comm]
    congr 1
    apply sgn_congr
    generalize a.parity.toNat * b.oddpos.length + b.parity.toNat * a.oddpos.length
      + a.oddpos.length * b.oddpos.length = E at hlab
    generalize a.parity.toNat * b.parity.toNat = P at hlab ⊢
    generalize oddIn a.sym L * oddIn a.sym Rr = Q
    omega

end s5

end RoutesP
end SymmModel
