/-
  SymmModel.Proofs.TwoStepSign — the sign identity behind property C04 ("several pairs at once or one
  after another"): Koszul sign of the einsum axis order `tsOrder` of the intermediate times the graded
  sign of the first contraction = graded sign of the contraction of all pairs at once.
  Main result `SymmModel.TwoStepP.two_step_sign`; helpers in `SymmModel.TwoStepP.SignAux`.
-/
import SymmModel.Proofs.TwoStepDefs

namespace SymmModel
namespace TwoStepP
open TdotP GradedP KoszulP

-- helper lemmas live in `SymmModel.TwoStepP.SignAux` to avoid clashes with the sibling files
namespace SignAux

/-! ### generic inversion-count lemmas -/

theorem invR_map_mono (f : Nat → Nat) (l : List Nat)
    (h : ∀ x ∈ l, ∀ y ∈ l, gtR (f x) (f y) = gtR x y) :
    invR gtR (l.map f) = invR gtR l := by
  induction l with
  | nil => rfl
  | cons a l ih =>
    have ih' := ih (fun x hx y hy => h x (List.mem_cons_of_mem _ hx) y (List.mem_cons_of_mem _ hy))
    simp only [List.map_cons, invR, ih', List.filter_map, List.length_map]
    congr 2
    apply List.filter_congr
    intro y hy
    exact h a (by simp) y (List.mem_cons_of_mem _ hy)

theorem crossR_map_mono (f : Nat → Nat) (l m : List Nat)
    (h : ∀ x ∈ l, ∀ y ∈ m, gtR (f x) (f y) = gtR x y) :
    crossR gtR (l.map f) (m.map f) = crossR gtR l m := by
  induction l with
  | nil => rfl
  | cons a l ih =>
    have ih' := ih (fun x hx y hy => h x (List.mem_cons_of_mem _ hx) y hy)
    simp only [List.map_cons, crossR, ih', List.filter_map, List.length_map]
    congr 2
    apply List.filter_congr
    intro y hy
    exact h a (by simp) y hy

theorem flen_all (w : Nat) (l : List Nat) (h : ∀ x ∈ l, x < w) : (l.filter (gtR w)).length = l.length := by
  rw [List.filter_eq_self.2]
  intro x hx; simp [gtR, h x hx]

theorem flen_none (w : Nat) (l : List Nat) (h : ∀ x ∈ l, w ≤ x) : (l.filter (gtR w)).length = 0 := by
  rw [List.filter_eq_nil_iff.2]; rfl
  intro x hx; have := h x hx; simp [gtR]; omega

theorem crossR_all (l m : List Nat) (h : ∀ x ∈ l, ∀ y ∈ m, y < x) : crossR gtR l m = l.length * m.length := by
  induction l with
  | nil => simp
  | cons a l ih =>
    simp only [crossR, ih (fun x hx => h x (List.mem_cons_of_mem _ hx)),
      flen_all a m (h a (by simp)), List.length_cons, Nat.succ_mul]
    omega

theorem crossR_none (l m : List Nat) (h : ∀ x ∈ l, ∀ y ∈ m, x ≤ y) : crossR gtR l m = 0 := by
  induction l with
  | nil => simp
  | cons a l ih =>
    simp only [crossR, ih (fun x hx => h x (List.mem_cons_of_mem _ hx)),
      flen_none a m (h a (by simp))]

/-- the pair block of `tsOrder`, as a function of the list of (a-leg, b-leg, a-leg is dual) -/
def pl (ts : List (Nat × Nat × Bool)) : List Nat :=
  ts.flatMap (fun t => if t.2.2 then [t.1, t.2.1] else [t.2.1, t.1])

theorem pl_cons (u v : Nat) (d : Bool) (ts : List (Nat × Nat × Bool)) :
    pl ((u, v, d) :: ts) = (if d then [u, v] else [v, u]) ++ pl ts := by
  simp [pl]

theorem pl_perm (ts : List (Nat × Nat × Bool)) :
    (pl ts).Perm (ts.map (·.1) ++ ts.map (·.2.1)) := by
  induction ts with
  | nil => simp [pl]
  | cons t ts ih =>
    obtain ⟨u, v, d⟩ := t
    rw [pl_cons]
    have h2 : (u :: v :: (ts.map (·.1) ++ ts.map (·.2.1))).Perm
        (u :: (ts.map (·.1) ++ v :: ts.map (·.2.1))) :=
      List.Perm.cons u (List.perm_middle.symm)
    have h1 : ((if d then [u, v] else [v, u]) ++ pl ts).Perm (u :: v :: (ts.map (·.1) ++ ts.map (·.2.1))) := by
      cases d
      · exact (List.Perm.swap u v _).trans (List.Perm.cons u (List.Perm.cons v ih))
      · exact List.Perm.cons u (List.Perm.cons v ih)
    exact h1.trans h2

theorem flen_X (q : Nat → Bool) (ts : List (Nat × Nat × Bool)) (R : List Nat) (w : Nat) :
    (((pl ts ++ R).filter q).filter (gtR w)).length
      = (((ts.map (·.1)).filter q).filter (gtR w)).length
        + (((ts.map (·.2.1)).filter q).filter (gtR w)).length + ((R.filter q).filter (gtR w)).length := by
  have := (((pl_perm ts).filter q).filter (gtR w)).length_eq
  simp only [List.filter_append, List.length_append] at this ⊢
  omega

/-- exact inversion count of the (odd part of the) pair block followed by a remainder -/
theorem invR_pl (q : Nat → Bool) (ts : List (Nat × Nat × Bool)) (R : List Nat)
    (hq : ∀ t ∈ ts, q t.1 = q t.2.1)
    (hlt : ∀ t ∈ ts, ∀ t' ∈ ts, t.1 < t'.2.1) :
    invR gtR ((pl ts ++ R).filter q)
      = (ts.filter (fun t => q t.1 && !t.2.2)).length
        + invR gtR ((ts.map (·.1)).filter q) + invR gtR ((ts.map (·.2.1)).filter q)
        + tri ((ts.map (·.1)).filter q).length
        + crossR gtR ((ts.map (·.1)).filter q) (R.filter q)
        + crossR gtR ((ts.map (·.2.1)).filter q) (R.filter q)
        + invR gtR (R.filter q) := by
  induction ts with
  | nil => simp [pl, invR, tri]
  | cons t ts ih =>
    obtain ⟨u, v, d⟩ := t
    have ih' := ih (fun t ht => hq t (List.mem_cons_of_mem _ ht))
      (fun t ht t' ht' => hlt t (List.mem_cons_of_mem _ ht) t' (List.mem_cons_of_mem _ ht'))
    have hquv : q u = q v := hq (u, v, d) (by simp)
    have huv : u < v := hlt (u, v, d) (by simp) (u, v, d) (by simp)
    have hu_vs : ∀ x ∈ (ts.map (·.2.1)).filter q, u ≤ x := by
      intro x hx
      obtain ⟨t', ht', rfl⟩ := List.mem_map.1 (List.mem_filter.1 hx).1
      exact Nat.le_of_lt (hlt (u, v, d) (by simp) t' (List.mem_cons_of_mem _ ht'))
    have hv_us : ∀ x ∈ (ts.map (·.1)).filter q, x < v := by
      intro x hx
      obtain ⟨t', ht', rfl⟩ := List.mem_map.1 (List.mem_filter.1 hx).1
      exact hlt t' (List.mem_cons_of_mem _ ht') (u, v, d) (by simp)
    have eXu := flen_X q ts R u
    have eXv := flen_X q ts R v
    rw [flen_none u _ hu_vs] at eXu
    rw [flen_all v _ hv_us] at eXv
    rw [pl_cons]
    cases hqu : q u
    · have hqv : q v = false := by rw [← hquv]; exact hqu
      have e : ((if d then [u, v] else [v, u]) ++ pl ts ++ R).filter q = (pl ts ++ R).filter q := by
        cases d <;> simp [hqu, hqv]
      rw [e, ih']
      simp [hqu, hqv]
    · have hqv : q v = true := by rw [← hquv]; exact hqu
      have guv : gtR u v = false := by simp [gtR]; omega
      have gvu : gtR v u = true := by simp [gtR]; omega
      cases d
      · have e : ((if false = true then [u, v] else [v, u]) ++ pl ts ++ R).filter q
            = v :: u :: (pl ts ++ R).filter q := by
          simp [hqu, hqv]
        rw [e]
        simp only [invR, List.filter_cons, gvu, hqu, hqv, ih', List.map_cons, crossR, tri, if_true,
          List.length_cons, Bool.not_false, Bool.and_true, eXu, eXv]
        omega
      · have e : ((if true = true then [u, v] else [v, u]) ++ pl ts ++ R).filter q
            = u :: v :: (pl ts ++ R).filter q := by
          simp [hqu, hqv]
        rw [e]
        simp only [invR, List.filter_cons, guv, hqu, hqv, ih', List.map_cons, crossR, tri, if_true,
          List.length_cons, Bool.not_true, Bool.and_false, Bool.false_eq_true, if_false, eXu, eXv]
        omega

theorem filter_len_eq (q : Nat → Bool) (ts : List (Nat × Nat × Bool)) (hq : ∀ t ∈ ts, q t.1 = q t.2.1) :
    ((ts.map (·.2.1)).filter q).length = ((ts.map (·.1)).filter q).length := by
  simp only [List.filter_map, List.length_map]
  congr 1
  apply List.filter_congr
  intro t ht
  exact (hq t ht).symm

/-- parity form with the remainder split into a low and a high increasing block -/
theorem invR_pl_split (q : Nat → Bool) (ts : List (Nat × Nat × Bool)) (RA RB : List Nat) (c : Nat)
    (hq : ∀ t ∈ ts, q t.1 = q t.2.1)
    (hu : ∀ t ∈ ts, t.1 < c) (hv : ∀ t ∈ ts, c ≤ t.2.1)
    (hRA : ∀ x ∈ RA, x < c) (hRB : ∀ x ∈ RB, c ≤ x)
    (hsA : RA.Pairwise (· < ·)) (hsB : RB.Pairwise (· < ·))
    (hdis : ∀ x ∈ ts.map (·.1), ∀ y ∈ RA, x ≠ y) :
    invR gtR ((pl ts ++ (RA ++ RB)).filter q) + 2 * crossR gtR (RA.filter q) ((ts.map (·.1)).filter q)
      = (ts.filter (fun t => q t.1 && !t.2.2)).length
        + invR gtR ((ts.map (·.1)).filter q) + invR gtR ((ts.map (·.2.1)).filter q)
        + tri ((ts.map (·.1)).filter q).length
        + crossR gtR (RA.filter q) ((ts.map (·.1)).filter q)
        + crossR gtR ((ts.map (·.2.1)).filter q) (RB.filter q)
        + 2 * (((ts.map (·.1)).filter q).length * (RA.filter q).length) := by
  have hus : ∀ x ∈ (ts.map (·.1)).filter q, x < c := by
    intro x hx
    obtain ⟨t', ht', rfl⟩ := List.mem_map.1 (List.mem_filter.1 hx).1
    exact hu t' ht'
  have hvs : ∀ x ∈ (ts.map (·.2.1)).filter q, c ≤ x := by
    intro x hx
    obtain ⟨t', ht', rfl⟩ := List.mem_map.1 (List.mem_filter.1 hx).1
    exact hv t' ht'
  have hRAo : ∀ x ∈ RA.filter q, x < c := fun x hx => hRA x (List.mem_filter.1 hx).1
  have hRBo : ∀ x ∈ RB.filter q, c ≤ x := fun x hx => hRB x (List.mem_filter.1 hx).1
  have e0 := invR_pl q ts (RA ++ RB) hq
    (fun t ht t' ht' => Nat.lt_of_lt_of_le (hu t ht) (hv t' ht'))
  have e1 : invR gtR (RA.filter q) = 0 := invR_gtR_sorted _ (hsA.filter _)
  have e2 : invR gtR (RB.filter q) = 0 := invR_gtR_sorted _ (hsB.filter _)
  have e3 : crossR gtR (RA.filter q) (RB.filter q) = 0 :=
    crossR_none _ _ (fun x hx y hy => Nat.le_of_lt (Nat.lt_of_lt_of_le (hRAo x hx) (hRBo y hy)))
  have e4 : crossR gtR ((ts.map (·.1)).filter q) (RB.filter q) = 0 :=
    crossR_none _ _ (fun x hx y hy => Nat.le_of_lt (Nat.lt_of_lt_of_le (hus x hx) (hRBo y hy)))
  have e5 : crossR gtR ((ts.map (·.2.1)).filter q) (RA.filter q)
      = ((ts.map (·.2.1)).filter q).length * (RA.filter q).length :=
    crossR_all _ _ (fun x hx y hy => Nat.lt_of_lt_of_le (hRAo y hy) (hvs x hx))
  have e6 := crossR_add_swap gtR ((ts.map (·.1)).filter q) (RA.filter q) (gtR_ex_of_disjoint hdis q)
  have e7 := filter_len_eq q ts hq
  rw [e7] at e5
  generalize invR gtR ((pl ts ++ (RA ++ RB)).filter q) = I at e0 ⊢
  simp only [List.filter_append, invR_append, crossR_append_right, e1, e2, e3, e4, e5] at e0
  generalize ((ts.map (·.1)).filter q).length * (RA.filter q).length = P at *
  omega

theorem tri_add (k m : Nat) : tri (k + m) = tri k + tri m + k * m := by
  induction m with
  | zero => simp [tri]
  | succ m ih =>
    rw [← Nat.add_assoc]
    simp only [tri, ih, Nat.mul_succ]
    omega

/-! ### positions in a sorted list -/

theorem posIn_spec {F : List Nat} {x : Nat} (hx : x ∈ F) :
    posIn F x < F.length ∧ F.getD (posIn F x) 0 = x := by
  unfold posIn
  cases h : indexOf? F x with
  | none => exact absurd hx (indexOf?_eq_none_iff.1 h)
  | some j =>
    have h1 := indexOf?_eq_some h
    obtain ⟨hj, hv⟩ := List.getElem?_eq_some_iff.1 h1
    refine ⟨hj, ?_⟩
    simp [List.getD_eq_getElem?_getD, h1]

theorem posIn_getD {F : List Nat} (hn : F.Nodup) {j : Nat} (hj : j < F.length) :
    posIn F (F.getD j 0) = j := by
  have e : F.getD j 0 = F[j] := by simp [List.getD_eq_getElem?_getD, List.getElem?_eq_getElem hj]
  rw [e]; unfold posIn; rw [indexOf?_getElem hn hj]; rfl

theorem sorted_getD {F : List Nat} (hs : F.Pairwise (· < ·)) {i j : Nat} (hij : i < j) (hj : j < F.length) :
    F.getD i 0 < F.getD j 0 := by
  have hi : i < F.length := by omega
  have := List.pairwise_iff_getElem.1 hs i j hi hj hij
  simpa [List.getD_eq_getElem?_getD, List.getElem?_eq_getElem hi, List.getElem?_eq_getElem hj] using this

theorem getD_map_lt {f : Nat → Nat} (l : List Nat) {i : Nat} (hi : i < l.length) :
    (l.map f).getD i 0 = f (l.getD i 0) := by
  simp [List.getD_eq_getElem?_getD, List.getElem?_eq_getElem hi]

theorem map_range_getD (g : Nat → Nat) (l : List Nat) :
    (List.range l.length).map (fun i => g (l.getD i 0)) = l.map g := by
  conv => rhs; rw [list_eq_map_getD l]
  rw [List.map_map]; rfl

theorem freeAxes_sorted (n : Nat) (ax : List Nat) : (freeAxes n ax).Pairwise (· < ·) :=
  List.Pairwise.filter _ List.pairwise_lt_range

/-- untraced positions of one side, read back as axes -/
theorem rest_part (F : List Nat) (hF : F.Nodup) (y : List Nat) (hy : ∀ x ∈ y, x ∈ F) (P : Nat → Bool)
    (hP : ∀ j, j < F.length → P j = !(y.map (posIn F)).contains j) :
    ((List.range F.length).filter P).map (fun j => F.getD j 0) = F.filter (fun x => !y.contains x) := by
  conv => rhs; rw [list_eq_map_getD F]
  rw [List.filter_map]
  congr 1
  apply List.filter_congr
  intro j hj
  have hj' := List.mem_range.1 hj
  rw [hP j hj']
  simp only [Function.comp]
  congr 1
  apply Bool.eq_iff_iff.2
  simp only [List.contains_eq_mem, decide_eq_true_eq, List.mem_map]
  constructor
  · rintro ⟨x, hx, rfl⟩
    rw [(posIn_spec (hy x hx)).2]; exact hx
  · intro h
    exact ⟨_, h, posIn_getD hF hj'⟩

theorem getD_mem_of_lt (l : List Nat) {i : Nat} (hi : i < l.length) : l.getD i 0 ∈ l := by
  have e : l.getD i 0 = l[i] := by simp [List.getD_eq_getElem?_getD, List.getElem?_eq_getElem hi]
  rw [e]; exact List.getElem_mem hi

theorem pl_map (f : Nat → Nat) (ts : List (Nat × Nat × Bool)) :
    (pl ts).map f = pl (ts.map (fun t => (f t.1, f t.2.1, t.2.2))) := by
  induction ts with
  | nil => rfl
  | cons t ts ih =>
    obtain ⟨u, v, d⟩ := t
    rw [List.map_cons, pl_cons, pl_cons, List.map_append, ih]
    cases d <;> rfl

/-- the coordinate map: position in `c` ↦ axis in the disjoint union (a's axes, then b's + na) -/
def phi (FA FB : List Nat) (na : Nat) (p : Nat) : Nat :=
  if p < FA.length then FA.getD p 0 else na + FB.getD (p - FA.length) 0

theorem tsOrder_eq {R : Type} (a : Arr R) (nb : Nat) (xa xb ya yb : List Nat) :
    tsOrder a nb xa xb ya yb
      = pl ((List.range ya.length).map (fun i =>
          ((tsPA a.ndim xa ya).getD i 0, (tsPB a.ndim nb xa xb yb).getD i 0,
            (a.indices.getD (ya.getD i 0) default).dual)))
        ++ tsRhs a.ndim nb xa xb ya yb := by
  unfold tsOrder pl
  rw [List.flatMap_map]

theorem tsOrder_map {R : Type} (a : Arr R) (nb : Nat) (xa xb ya yb : List Nat)
    (hya : ∀ y ∈ ya, y ∈ freeAxes a.ndim xa) (hyb : ∀ y ∈ yb, y ∈ freeAxes nb xb)
    (hly : ya.length = yb.length) :
    (tsOrder a nb xa xb ya yb).map (phi (freeAxes a.ndim xa) (freeAxes nb xb) a.ndim)
      = pl ((List.range ya.length).map (fun i =>
          (ya.getD i 0, a.ndim + yb.getD i 0, (a.indices.getD (ya.getD i 0) default).dual)))
        ++ ((freeAxes a.ndim xa).filter (fun x => !ya.contains x)
          ++ ((freeAxes nb xb).filter (fun x => !yb.contains x)).map (fun x => a.ndim + x)) := by
  have hPAlt : ∀ p ∈ tsPA a.ndim xa ya, p < (freeAxes a.ndim xa).length := by
    intro p hp
    obtain ⟨y, hy, rfl⟩ := List.mem_map.1 hp
    exact (posIn_spec (hya y hy)).1
  have hPBge : ∀ p ∈ tsPB a.ndim nb xa xb yb, (freeAxes a.ndim xa).length ≤ p := by
    intro p hp
    obtain ⟨y, hy, rfl⟩ := List.mem_map.1 hp
    omega
  rw [tsOrder_eq, List.map_append, pl_map, List.map_map]
  congr 1
  · congr 1
    apply List.map_congr_left
    intro i hi
    have hi' : i < ya.length := List.mem_range.1 hi
    have hi'' : i < yb.length := by omega
    have h1 : (tsPA a.ndim xa ya).getD i 0 = posIn (freeAxes a.ndim xa) (ya.getD i 0) :=
      getD_map_lt ya hi'
    have h2 : (tsPB a.ndim nb xa xb yb).getD i 0
        = (freeAxes a.ndim xa).length + posIn (freeAxes nb xb) (yb.getD i 0) :=
      getD_map_lt (f := fun ax => (freeAxes a.ndim xa).length + posIn (freeAxes nb xb) ax) yb hi''
    have s1 := posIn_spec (hya _ (getD_mem_of_lt ya hi'))
    have s2 := posIn_spec (hyb _ (getD_mem_of_lt yb hi''))
    simp only [Function.comp, h1, h2, phi, s1.1, if_true, s1.2, Nat.add_sub_cancel_left,
      s2.2, Nat.not_lt.2 (Nat.le_add_right _ _), if_false]
  · unfold tsRhs tsN
    rw [List.range_add, List.filter_append, List.map_append]
    congr 1
    · rw [← rest_part (freeAxes a.ndim xa) (freeAxes_nodup _ _) ya hya
        (fun p => !(tsPA a.ndim xa ya).contains p && !(tsPB a.ndim nb xa xb yb).contains p) (by
        intro j hj
        have : (tsPB a.ndim nb xa xb yb).contains j = false := by
          apply Bool.eq_false_iff.2
          intro h
          have := hPBge j (by simpa using h)
          omega
        rw [this]; simp [tsPA])]
      apply List.map_congr_left
      intro j hj
      have := List.mem_range.1 (List.mem_filter.1 hj).1
      simp [phi, this]
    · rw [List.filter_map, List.map_map,
        ← rest_part (freeAxes nb xb) (freeAxes_nodup _ _) yb hyb
        ((fun p => !(tsPA a.ndim xa ya).contains p && !(tsPB a.ndim nb xa xb yb).contains p) ∘
          (fun x => (freeAxes a.ndim xa).length + x)) (by
        intro j hj
        have h1 : (tsPA a.ndim xa ya).contains ((freeAxes a.ndim xa).length + j) = false := by
          apply Bool.eq_false_iff.2
          intro h
          have := hPAlt _ (by simpa using h)
          omega
        have h2 : (tsPB a.ndim nb xa xb yb).contains ((freeAxes a.ndim xa).length + j)
            = (yb.map (posIn (freeAxes nb xb))).contains j := by
          apply Bool.eq_iff_iff.2
          simp [tsPB]
        simp only [Function.comp, h1, h2, Bool.not_false, Bool.true_and]), List.map_map]
      apply List.map_congr_left
      intro j hj
      simp [phi]

theorem tsOrder_perm {R : Type} (a : Arr R) (nb : Nat) (xa xb ya yb : List Nat)
    (hya : ∀ y ∈ ya, y ∈ freeAxes a.ndim xa) (hyb : ∀ y ∈ yb, y ∈ freeAxes nb xb)
    (hnya : ya.Nodup) (hnyb : yb.Nodup) (hly : ya.length = yb.length) :
    (tsOrder a nb xa xb ya yb).Perm (List.range (tsN a.ndim nb xa xb)) := by
  have hPAlt : ∀ p ∈ tsPA a.ndim xa ya, p < (freeAxes a.ndim xa).length := by
    intro p hp
    obtain ⟨y, hy, rfl⟩ := List.mem_map.1 hp
    exact (posIn_spec (hya y hy)).1
  have hPBge : ∀ p ∈ tsPB a.ndim nb xa xb yb, (freeAxes a.ndim xa).length ≤ p ∧ p < tsN a.ndim nb xa xb := by
    intro p hp
    obtain ⟨y, hy, rfl⟩ := List.mem_map.1 hp
    have := (posIn_spec (hyb y hy)).1
    unfold tsN
    omega
  have hnPA : (tsPA a.ndim xa ya).Nodup := by
    apply List.Nodup.map_on _ hnya
    intro x hx y hy h
    rw [← (posIn_spec (hya x hx)).2, ← (posIn_spec (hya y hy)).2, h]
  have hnPB : (tsPB a.ndim nb xa xb yb).Nodup := by
    apply List.Nodup.map_on _ hnyb
    intro x hx y hy h
    have h' : posIn (freeAxes nb xb) x = posIn (freeAxes nb xb) y := by omega
    rw [← (posIn_spec (hyb x hx)).2, ← (posIn_spec (hyb y hy)).2, h']
  have hn : (tsPA a.ndim xa ya ++ tsPB a.ndim nb xa xb yb).Nodup := by
    refine List.nodup_append.2 ⟨hnPA, hnPB, ?_⟩
    intro x hx y hy
    have := hPAlt x hx
    have := (hPBge y hy).1
    omega
  have hlt : ∀ i ∈ tsPA a.ndim xa ya ++ tsPB a.ndim nb xa xb yb, i < tsN a.ndim nb xa xb := by
    intro i hi
    rcases List.mem_append.1 hi with h | h
    · have := hPAlt i h; unfold tsN; omega
    · exact (hPBge i h).2
  have hR : tsRhs a.ndim nb xa xb ya yb
      = freeAxes (tsN a.ndim nb xa xb) (tsPA a.ndim xa ya ++ tsPB a.ndim nb xa xb yb) := by
    unfold tsRhs freeAxes
    apply List.filter_congr
    intro p _
    simp
  have e1 : ((List.range ya.length).map (fun i =>
          ((tsPA a.ndim xa ya).getD i 0, (tsPB a.ndim nb xa xb yb).getD i 0,
            (a.indices.getD (ya.getD i 0) default).dual))).map (·.1) = tsPA a.ndim xa ya := by
    rw [List.map_map]
    have hl : (tsPA a.ndim xa ya).length = ya.length := by simp [tsPA]
    rw [← hl]
    exact (list_eq_map_getD _).symm
  have e2 : ((List.range ya.length).map (fun i =>
          ((tsPA a.ndim xa ya).getD i 0, (tsPB a.ndim nb xa xb yb).getD i 0,
            (a.indices.getD (ya.getD i 0) default).dual))).map (·.2.1) = tsPB a.ndim nb xa xb yb := by
    rw [List.map_map]
    have hl : (tsPB a.ndim nb xa xb yb).length = ya.length := by simp [tsPB, hly]
    rw [← hl]
    exact (list_eq_map_getD _).symm
  rw [tsOrder_eq, hR]
  have hp := pl_perm ((List.range ya.length).map (fun i =>
          ((tsPA a.ndim xa ya).getD i 0, (tsPB a.ndim nb xa xb yb).getD i 0,
            (a.indices.getD (ya.getD i 0) default).dual)))
  rw [e1, e2] at hp
  exact ((hp.append_right _).trans List.perm_append_comm).trans (perm_left hn hlt)

theorem phi_mono (FA FB : List Nat) (na : Nat) (hsA : FA.Pairwise (· < ·)) (hsB : FB.Pairwise (· < ·))
    (hA : ∀ x ∈ FA, x < na) (p p' : Nat) (hp : p < FA.length + FB.length) (hp' : p' < FA.length + FB.length) :
    gtR (phi FA FB na p) (phi FA FB na p') = gtR p p' := by
  have mono : ∀ i j, i < j → j < FA.length + FB.length → phi FA FB na i < phi FA FB na j := by
    intro i j hij hj
    unfold phi
    by_cases h1 : i < FA.length
    · by_cases h2 : j < FA.length
      · simp only [h1, h2, if_true]; exact sorted_getD hsA hij h2
      · simp only [h1, h2, if_true, if_false]
        have := hA _ (getD_mem_of_lt FA h1)
        omega
    · have h2 : ¬ j < FA.length := by omega
      simp only [h1, h2, if_false]
      have := sorted_getD hsB (i := i - FA.length) (j := j - FA.length) (by omega) (by omega)
      omega
  unfold gtR
  apply decide_eq_decide.2
  constructor
  · intro h
    rcases Nat.lt_trichotomy p' p with h1 | h1 | h1
    · exact h1
    · subst h1; omega
    · have := mono p p' h1 hp'; omega
  · intro h; exact mono p' p h hp

theorem getD_app_left {α : Type} (l l' : List α) (d : α) (n : Nat) (h : n < l.length) :
    (l ++ l').getD n d = l.getD n d := by
  rw [List.getD_eq_getElem?_getD, List.getElem?_append_left h, ← List.getD_eq_getElem?_getD]

theorem getD_app_right {α : Type} (l l' : List α) (d : α) (n : Nat) (h : l.length ≤ n) :
    (l ++ l').getD n d = l'.getD (n - l.length) d := by
  rw [List.getD_eq_getElem?_getD, List.getElem?_append_right h, ← List.getD_eq_getElem?_getD]

/-- parity of an axis of the disjoint union -/
def qG (Pa Pb : List Bool) (na : Nat) (x : Nat) : Bool :=
  if x < na then isOdd Pa x else isOdd Pb (x - na)

theorem isOdd_parC {R : Type} (a b : Arr R) (xa xb : List Nat) (sa sb : Sector)
    (hsym : a.sym = b.sym) (hsa : sa.length = a.ndim) (hsb : sb.length = b.ndim)
    (p : Nat) (hp : p < tsN a.ndim b.ndim xa xb) :
    isOdd ((permuted sa (freeAxes a.ndim xa) ++ permuted sb (freeAxes b.ndim xb)).map a.sym.parity) p
      = qG (a.parities sa) (b.parities sb) a.ndim
          (phi (freeAxes a.ndim xa) (freeAxes b.ndim xb) a.ndim p) := by
  have hla : (a.parities sa).length = a.ndim := by simp [Arr.parities, hsa]
  have hlb : (b.parities sb).length = b.ndim := by simp [Arr.parities, hsb]
  have hFA : ∀ i ∈ freeAxes a.ndim xa, i < (a.parities sa).length := by
    intro i hi; rw [hla]; exact (mem_freeAxes.1 hi).1
  have hFB : ∀ i ∈ freeAxes b.ndim xb, i < (b.parities sb).length := by
    intro i hi; rw [hlb]; exact (mem_freeAxes.1 hi).1
  have eA : (permuted sa (freeAxes a.ndim xa)).map a.sym.parity
      = permuted (a.parities sa) (freeAxes a.ndim xa) := by
    unfold Arr.parities; rw [permuted_map]
  have eB : (permuted sb (freeAxes b.ndim xb)).map a.sym.parity
      = permuted (b.parities sb) (freeAxes b.ndim xb) := by
    unfold Arr.parities; rw [permuted_map, hsym]
  have hlenA := permuted_length (a.parities sa) (freeAxes a.ndim xa) hFA
  rw [List.map_append, eA, eB]
  unfold isOdd phi qG
  unfold tsN at hp
  by_cases h1 : p < (freeAxes a.ndim xa).length
  · have h2 : (freeAxes a.ndim xa).getD p 0 < a.ndim := (mem_freeAxes.1 (getD_mem_of_lt _ h1)).1
    rw [getD_app_left _ _ _ _ (by rw [hlenA]; exact h1),
      getD_permuted_ax _ _ hFA p h1 false]
    simp only [h1, h2, if_true, isOdd]
  · rw [getD_app_right _ _ _ _ (by rw [hlenA]; omega), hlenA,
      getD_permuted_ax _ _ hFB (p - (freeAxes a.ndim xa).length) (by omega) false]
    simp only [h1, if_false, Nat.not_lt.2 (Nat.le_add_right _ _), Nat.add_sub_cancel_left, isOdd]

theorem qG_lt (Pa Pb : List Bool) (na x : Nat) (h : x < na) : qG Pa Pb na x = isOdd Pa x := by
  simp [qG, h]

theorem qG_add (Pa Pb : List Bool) (na y : Nat) : qG Pa Pb na (na + y) = isOdd Pb y := by
  simp [qG]

theorem freeAxes_append (n : Nat) (xa ya : List Nat) :
    freeAxes n (xa ++ ya) = (freeAxes n xa).filter (fun x => !ya.contains x) := by
  unfold freeAxes
  rw [List.filter_filter]
  apply List.filter_congr
  intro x _
  simp [Bool.and_comm]

theorem free_perm (n : Nat) (xa ya : List Nat) (hya : ∀ y ∈ ya, y ∈ freeAxes n xa) (hn : ya.Nodup) :
    (freeAxes n xa).Perm ((freeAxes n xa).filter (fun x => !ya.contains x) ++ ya) := by
  have h1 := (List.filter_append_perm (fun x => !ya.contains x) (freeAxes n xa)).symm
  refine h1.trans (List.Perm.append_left _ ?_)
  apply (List.perm_ext_iff_of_nodup ((freeAxes_nodup n xa).filter _) hn).2
  intro x
  simp only [List.mem_filter, Bool.not_not, List.contains_eq_mem, decide_eq_true_eq]
  exact ⟨fun h => h.2, fun h => ⟨hya x h, h⟩⟩

theorem side_A (o : Nat → Bool) (F F' xa ya : List Nat) (hperm : F.Perm (F' ++ ya))
    (hsF : F.Pairwise (· < ·)) (hsF' : F'.Pairwise (· < ·)) :
    invR gtR ((F' ++ (xa ++ ya)).filter o) + crossR gtR (ya.filter o) (xa.filter o)
      = invR gtR ((F ++ xa).filter o) + invR gtR (ya.filter o)
        + crossR gtR (xa.filter o) (ya.filter o) + crossR gtR (F'.filter o) (ya.filter o) := by
  have e1 := crossR_perm_left gtR (hperm.filter o) (xa.filter o)
  have e2 : invR gtR (F.filter o) = 0 := invR_gtR_sorted _ (hsF.filter _)
  have e3 : invR gtR (F'.filter o) = 0 := invR_gtR_sorted _ (hsF'.filter _)
  simp only [List.filter_append, invR_append, crossR_append_left, crossR_append_right, e2, e3] at e1 ⊢
  omega

theorem side_B (o : Nat → Bool) (F F' xb yb : List Nat) (hperm : F.Perm (F' ++ yb))
    (hsF : F.Pairwise (· < ·)) (hsF' : F'.Pairwise (· < ·)) :
    invR gtR (((xb ++ yb) ++ F').filter o)
      = invR gtR ((xb ++ F).filter o) + invR gtR (yb.filter o)
        + crossR gtR (yb.filter o) (F'.filter o) := by
  have e1 := crossR_perm_right gtR (xb.filter o) (hperm.filter o)
  have e2 : invR gtR (F.filter o) = 0 := invR_gtR_sorted _ (hsF.filter _)
  have e3 : invR gtR (F'.filter o) = 0 := invR_gtR_sorted _ (hsF'.filter _)
  simp only [List.filter_append, invR_append, crossR_append_left, crossR_append_right, e2, e3] at e1 ⊢
  omega

theorem isOdd_parities {R : Type} (a : Arr R) (sa : Sector) (x : Nat) (h : x < sa.length) :
    isOdd (a.parities sa) x = a.sym.parity (sa.getD x (0, 0)) := by
  simp [isOdd, Arr.parities, List.getD_eq_getElem?_getD, List.getElem?_eq_getElem h]

theorem oddContracted_eq {R : Type} (a : Arr R) (L : List Nat) (sa : Sector) (h : ∀ i ∈ L, i < sa.length) :
    oddContracted a L sa = (L.filter (isOdd (a.parities sa))).length := by
  unfold oddContracted
  rw [permuted_eq_map sa L h (0, 0), List.filter_map, List.length_map]
  congr 1
  apply List.filter_congr
  intro x hx
  exact (isOdd_parities a sa x (h x hx)).symm

theorem filter_range_getD (P : Nat → Bool) (l : List Nat) :
    ((List.range l.length).filter (fun i => P (l.getD i 0))).length = (l.filter P).length := by
  have := congrArg (fun z => (z.filter P).length) (list_eq_map_getD l)
  simp only [List.filter_map, List.length_map] at this
  exact this.symm

theorem ketOdd_eq {R : Type} (a : Arr R) (ya : List Nat) (sa : Sector) (q : Nat → Bool)
    (h : ∀ y ∈ ya, a.sym.parity (sa.getD y (0, 0)) = q y) :
    ketOdd a ya sa = (ya.filter (fun y => q y && !(a.indices.getD y default).dual)).length := by
  unfold ketOdd
  rw [List.filter_filter]
  congr 1
  apply List.filter_congr
  intro y hy
  rw [h y hy]

end SignAux
open SignAux

/-- contracting `xa ~ xb` first and then tracing the images of `ya ~ yb` in the intermediate carries
    the same sign as contracting `xa ++ ya ~ xb ++ yb` at once -/
theorem two_step_sign {R : Type} (a b : Arr R) (xa xb ya yb : List Nat) (sa sb : Sector)
    (hsym : a.sym = b.sym)
    (hnA : (xa ++ ya).Nodup) (hA : ∀ i ∈ xa ++ ya, i < a.ndim)
    (hnB : (xb ++ yb).Nodup) (hB : ∀ i ∈ xb ++ yb, i < b.ndim)
    (hlx : xa.length = xb.length) (hly : ya.length = yb.length)
    (hsa : sa.length = a.ndim) (hsb : sb.length = b.ndim)
    (hal : permuted sb (xb ++ yb) = permuted sa (xa ++ ya)) :
    koszul ((permuted sa (freeAxes a.ndim xa) ++ permuted sb (freeAxes b.ndim xb)).map a.sym.parity)
        (some (tsOrder a b.ndim xa xb ya yb))
      * gradedSign a b xa xb sa sb
    = gradedSign a b (xa ++ ya) (xb ++ yb) sa sb := by
  -- basic facts on the axis lists
  obtain ⟨hnxa, hnya, hdisA⟩ := List.nodup_append.1 hnA
  obtain ⟨hnxb, hnyb, hdisB⟩ := List.nodup_append.1 hnB
  have hxa : ∀ i ∈ xa, i < a.ndim := fun i hi => hA i (List.mem_append_left _ hi)
  have hya_lt : ∀ i ∈ ya, i < a.ndim := fun i hi => hA i (List.mem_append_right _ hi)
  have hxb : ∀ i ∈ xb, i < b.ndim := fun i hi => hB i (List.mem_append_left _ hi)
  have hyb_lt : ∀ i ∈ yb, i < b.ndim := fun i hi => hB i (List.mem_append_right _ hi)
  have hya : ∀ y ∈ ya, y ∈ freeAxes a.ndim xa := fun y hy =>
    mem_freeAxes.2 ⟨hya_lt y hy, fun hx => hdisA y hx y hy rfl⟩
  have hyb : ∀ y ∈ yb, y ∈ freeAxes b.ndim xb := fun y hy =>
    mem_freeAxes.2 ⟨hyb_lt y hy, fun hx => hdisB y hx y hy rfl⟩
  have hla : (a.parities sa).length = a.ndim := by simp [Arr.parities, hsa]
  have hlb : (b.parities sb).length = b.ndim := by simp [Arr.parities, hsb]
  -- alignment of the remaining pairs
  have hal2 : permuted sb yb = permuted sa ya := by
    rw [ValidP.permuted_append, ValidP.permuted_append] at hal
    refine (List.append_inj hal ?_).2
    rw [permuted_length sb xb (by rw [hsb]; exact hxb), permuted_length sa xa (by rw [hsa]; exact hxa), hlx]
  have halign : ∀ i, i < ya.length →
      isOdd (a.parities sa) (ya.getD i 0) = isOdd (b.parities sb) (yb.getD i 0) := by
    intro i hi
    have hi' : i < yb.length := by omega
    have h1 := getD_permuted_ax sa ya (by rw [hsa]; exact hya_lt) i hi (0, 0)
    have h2 := getD_permuted_ax sb yb (by rw [hsb]; exact hyb_lt) i hi' (0, 0)
    rw [isOdd_parities a sa _ (by rw [hsa]; exact hya_lt _ (getD_mem_of_lt ya hi)),
      isOdd_parities b sb _ (by rw [hsb]; exact hyb_lt _ (getD_mem_of_lt yb hi')),
      ← h1, ← h2, hal2, hsym]
  -- the Koszul sign of the einsum order, as an inversion count in the disjoint union of axes
  have hK : koszul ((permuted sa (freeAxes a.ndim xa) ++ permuted sb (freeAxes b.ndim xb)).map a.sym.parity)
        (some (tsOrder a b.ndim xa xb ya yb))
      = sgn (invR gtR ((pl ((List.range ya.length).map (fun i =>
          (ya.getD i 0, a.ndim + yb.getD i 0, (a.indices.getD (ya.getD i 0) default).dual)))
        ++ ((freeAxes a.ndim xa).filter (fun x => !ya.contains x)
          ++ ((freeAxes b.ndim xb).filter (fun x => !yb.contains x)).map (fun x => a.ndim + x))).filter
          (qG (a.parities sa) (b.parities sb) a.ndim))) := by
    have hperm := tsOrder_perm a b.ndim xa xb ya yb hya hyb hnya hnyb hly
    rw [koszul_eq_sgn_invR _ _ _ hperm, ← tsOrder_map a b.ndim xa xb ya yb hya hyb hly, List.filter_map,
      invR_map_mono]
    · congr 2
      apply List.filter_congr
      intro p hp
      exact isOdd_parC a b xa xb sa sb hsym hsa hsb p (perm_range_mem_lt hperm p hp)
    · intro x hx y hy
      exact phi_mono _ _ _ (freeAxes_sorted _ _) (freeAxes_sorted _ _)
        (fun z hz => (mem_freeAxes.1 hz).1) x y
        (perm_range_mem_lt hperm x (List.mem_filter.1 hx).1)
        (perm_range_mem_lt hperm y (List.mem_filter.1 hy).1)
  -- the triples: projections
  have eT1 : ((List.range ya.length).map (fun i =>
          (ya.getD i 0, a.ndim + yb.getD i 0, (a.indices.getD (ya.getD i 0) default).dual))).map (·.1)
      = ya := by
    rw [List.map_map]; exact (list_eq_map_getD ya).symm
  have eT2 : ((List.range ya.length).map (fun i =>
          (ya.getD i 0, a.ndim + yb.getD i 0, (a.indices.getD (ya.getD i 0) default).dual))).map (·.2.1)
      = yb.map (fun x => a.ndim + x) := by
    rw [List.map_map, hly]; exact map_range_getD (fun x => a.ndim + x) yb
  have eT3 : (((List.range ya.length).map (fun i =>
          (ya.getD i 0, a.ndim + yb.getD i 0, (a.indices.getD (ya.getD i 0) default).dual))).filter
          (fun t => qG (a.parities sa) (b.parities sb) a.ndim t.1 && !t.2.2)).length
      = ketOdd a ya sa := by
    rw [ketOdd_eq a ya sa (qG (a.parities sa) (b.parities sb) a.ndim) (by
      intro y hy
      rw [qG_lt _ _ _ _ (hya_lt y hy), isOdd_parities a sa y (by rw [hsa]; exact hya_lt y hy)]),
      List.filter_map, List.length_map]
    exact filter_range_getD (fun y => qG (a.parities sa) (b.parities sb) a.ndim y
      && !(a.indices.getD y default).dual) ya
  have hsplit := invR_pl_split (qG (a.parities sa) (b.parities sb) a.ndim)
    ((List.range ya.length).map (fun i =>
          (ya.getD i 0, a.ndim + yb.getD i 0, (a.indices.getD (ya.getD i 0) default).dual)))
    ((freeAxes a.ndim xa).filter (fun x => !ya.contains x))
    (((freeAxes b.ndim xb).filter (fun x => !yb.contains x)).map (fun x => a.ndim + x)) a.ndim
    (by
      intro t ht
      obtain ⟨i, hi, rfl⟩ := List.mem_map.1 ht
      have hi' := List.mem_range.1 hi
      show qG _ _ _ (ya.getD i 0) = qG _ _ _ (a.ndim + yb.getD i 0)
      rw [qG_lt _ _ _ _ (hya_lt _ (getD_mem_of_lt ya hi')), qG_add]
      exact halign i hi')
    (by
      intro t ht
      obtain ⟨i, hi, rfl⟩ := List.mem_map.1 ht
      exact hya_lt _ (getD_mem_of_lt ya (List.mem_range.1 hi)))
    (by
      intro t ht
      obtain ⟨i, hi, rfl⟩ := List.mem_map.1 ht
      exact Nat.le_add_right _ _)
    (fun x hx => (mem_freeAxes.1 (List.mem_filter.1 hx).1).1)
    (by
      intro x hx
      obtain ⟨y, _, rfl⟩ := List.mem_map.1 hx
      exact Nat.le_add_right _ _)
    ((freeAxes_sorted _ _).filter _)
    (by
      apply List.Pairwise.map _ _ ((freeAxes_sorted b.ndim xb).filter _)
      intro x y hxy
      exact Nat.add_lt_add_left hxy _)
    (by
      rw [eT1]
      intro x hx y hy h
      subst h
      have := (List.mem_filter.1 hy).2
      simp [hx] at this)
  rw [eT1, eT2, eT3] at hsplit
  -- back to a's and b's own coordinates
  have c1 : ya.filter (qG (a.parities sa) (b.parities sb) a.ndim) = ya.filter (isOdd (a.parities sa)) :=
    List.filter_congr (fun y hy => qG_lt _ _ _ _ (hya_lt y hy))
  have c2 : ((freeAxes a.ndim xa).filter (fun x => !ya.contains x)).filter
        (qG (a.parities sa) (b.parities sb) a.ndim)
      = ((freeAxes a.ndim xa).filter (fun x => !ya.contains x)).filter (isOdd (a.parities sa)) :=
    List.filter_congr (fun y hy => qG_lt _ _ _ _ (mem_freeAxes.1 (List.mem_filter.1 hy).1).1)
  have c3 : ∀ l : List Nat, (l.map (fun x => a.ndim + x)).filter (qG (a.parities sa) (b.parities sb) a.ndim)
      = (l.filter (isOdd (b.parities sb))).map (fun x => a.ndim + x) := by
    intro l
    rw [List.filter_map]
    congr 1
    exact List.filter_congr (fun y _ => qG_add _ _ _ y)
  have hshift : ∀ x y : Nat, gtR (a.ndim + x) (a.ndim + y) = gtR x y := by
    intro x y; simp [gtR]
  rw [c1, c2, c3, c3, invR_map_mono _ _ (fun x _ y _ => hshift x y),
    crossR_map_mono _ _ _ (fun x _ y _ => hshift x y)] at hsplit
  -- the two operand sides
  have hpA := free_perm a.ndim xa ya hya hnya
  have hpB := free_perm b.ndim xb yb hyb hnyb
  have sA := side_A (isOdd (a.parities sa)) _ _ xa ya hpA (freeAxes_sorted _ _)
    ((freeAxes_sorted _ _).filter _)
  have sB := side_B (isOdd (b.parities sb)) _ _ xb yb hpB (freeAxes_sorted _ _)
    ((freeAxes_sorted _ _).filter _)
  have sw := crossR_add_swap gtR (xa.filter (isOdd (a.parities sa))) (ya.filter (isOdd (a.parities sa)))
    (gtR_ex_of_disjoint hdisA _)
  -- assemble
  unfold gradedSign
  rw [hK,
    koszul_eq_sgn_invR _ _ _ (perm_left hnxa hxa), koszul_eq_sgn_invR _ _ _ (perm_right hnxb hxb),
    koszul_eq_sgn_invR _ _ _ (perm_left hnA hA), koszul_eq_sgn_invR _ _ _ (perm_right hnB hB),
    freeAxes_append, freeAxes_append,
    ← sgn_eq_pow, ← sgn_eq_pow, ← sgn_eq_pow, ← sgn_eq_pow, ← tri_eq, ← tri_eq,
    oddContracted_eq a xa sa (by rw [hsa]; exact hxa),
    oddContracted_eq a (xa ++ ya) sa (by rw [hsa]; exact hA)]
  have hk : ketOdd a (xa ++ ya) sa = ketOdd a xa sa + ketOdd a ya sa := by
    unfold ketOdd; simp only [List.filter_append, List.length_append]
  rw [hk, List.filter_append (p := isOdd (a.parities sa)) xa ya, List.length_append, tri_add]
  simp only [← sgn_add]
  apply sgn_congr
  generalize (xa.filter (isOdd (a.parities sa))).length * (ya.filter (isOdd (a.parities sa))).length = P at *
  generalize (ya.filter (isOdd (a.parities sa))).length
    * (((freeAxes a.ndim xa).filter (fun x => !ya.contains x)).filter (isOdd (a.parities sa))).length = P2 at *
  omega

end TwoStepP
end SymmModel
