/-
  SymmModel.Proofs.TwoStepSum — "several pairs at once or one after another" (C04), the SUMS:
  * `mergeIdx_asm`     the operand address assembled in two steps (first the pairs `xa`, then, inside the
                       free legs, the remaining pairs `ya`) is the address assembled at once;
  * `contractPair_two_step`  Σ over the box of the remaining pairs of the contraction over `xa ~ xb`
                       = the contraction over `xa ++ ya ~ xb ++ yb` (one stored sector pair);
  * `sum_regroup`      Σ over intermediate sectors of Σ over their stored pairs = Σ over the stored pairs
                       of the one-step contraction;
  * `two_step_core`    the two together, with arbitrary signs `σ` (per intermediate sector), `w` (per
                       sector pair) and `ph` (global).
  Namespace `SymmModel.TwoStepP`.
-/
import SymmModel.Proofs.TwoStepDefs
import SymmModel.Proofs.Assoc3Seg

namespace SymmModel
namespace TwoStepP
open TdotP GradedP Assoc2P Assoc3P
open Lazy (sgnI)
set_option linter.unusedSectionVars false

/-- one operand's part of the intermediate's offset: the free leg `ax ∈ F` receives `t[i]` if it is the
    `i`-th remaining leg `y[i]`, otherwise the output offset `f[j]` of its position `j` in `F'` -/
def asmSide (F y F' : List Nat) (t f : List Nat) : List Nat :=
  F.map (fun ax => match indexOf? y ax with
    | some i => t.getD i 0
    | none => match indexOf? F' ax with
      | some j => f.getD j 0
      | none => 0)

@[simp] theorem asmSide_length (F y F' t f : List Nat) : (asmSide F y F' t f).length = F.length := by
  simp [asmSide]

theorem permuted_append' {α : Type} (l : List α) (p q : List Nat) :
    permuted l (p ++ q) = permuted l p ++ permuted l q := by
  unfold permuted; rw [List.filterMap_append]

/-- assembling in two steps = assembling at once -/
theorem mergeIdx_asm (n : Nat) (xa ya : List Nat) (k t f : List Nat) (hk : k.length = xa.length) :
    mergeIdx 0 n xa (freeAxes n xa) k (asmSide (freeAxes n xa) ya (freeAxes n (xa ++ ya)) t f)
      = mergeIdx 0 n (xa ++ ya) (freeAxes n (xa ++ ya)) (k ++ t) f := by
  unfold mergeIdx
  apply List.map_congr_left
  intro ax hax
  have hlt : ax < n := List.mem_range.mp hax
  cases h1 : indexOf? xa ax with
  | some j =>
    have hj : j < xa.length := by
      have := indexOf?_eq_some h1
      exact (List.getElem?_eq_some_iff.mp this).1
    rw [indexOf?_append_left xa ya ax j h1]
    show k.getD j 0 = (k ++ t).getD j 0
    rw [List.getD_eq_getElem?_getD, List.getD_eq_getElem?_getD, List.getElem?_append_left (by omega)]
  | none =>
    have hnot : ax ∉ xa := indexOf?_eq_none_iff.mp h1
    have hF : ax ∈ freeAxes n xa := by
      unfold freeAxes
      simp only [List.mem_filter, List.mem_range, Bool.not_eq_true', List.contains_eq_mem,
        decide_eq_false_iff_not]
      exact ⟨hlt, hnot⟩
    obtain ⟨j, hj⟩ : ∃ j, indexOf? (freeAxes n xa) ax = some j := by
      cases h : indexOf? (freeAxes n xa) ax with
      | none => exact absurd hF (indexOf?_eq_none_iff.mp h)
      | some j => exact ⟨j, rfl⟩
    have hget : (freeAxes n xa)[j]? = some ax := indexOf?_eq_some hj
    rw [indexOf?_append_right xa ya ax hnot]
    simp only [hj]
    have e : (asmSide (freeAxes n xa) ya (freeAxes n (xa ++ ya)) t f).getD j 0
        = (match indexOf? ya ax with
          | some i => t.getD i 0
          | none => match indexOf? (freeAxes n (xa ++ ya)) ax with
            | some j => f.getD j 0
            | none => 0) := by
      unfold asmSide
      rw [List.getD_eq_getElem?_getD, List.getElem?_map, hget]
      rfl
    rw [e]
    cases h2 : indexOf? ya ax with
    | some i =>
      show t.getD i 0 = (k ++ t).getD (xa.length + i) 0
      rw [List.getD_eq_getElem?_getD, List.getD_eq_getElem?_getD,
        List.getElem?_append_right (by omega)]
      congr 2
      omega
    | none => rfl

variable {R : Type}

/-- one term -/
theorem contractTerm_two_step [Zero R] [Neg R] [Mul R] (a b : Arr R) (xa xb ya yb : List Nat)
    (sa sb : Sector) (k t fL fR : List Nat) (hka : k.length = xa.length) (hkb : k.length = xb.length) :
    contractTerm a b xa xb sa sb
        (asmSide (freeAxes a.ndim xa) ya (freeAxes a.ndim (xa ++ ya)) t fL)
        (asmSide (freeAxes b.ndim xb) yb (freeAxes b.ndim (xb ++ yb)) t fR) k
      = contractTerm a b (xa ++ ya) (xb ++ yb) sa sb fL fR (k ++ t) := by
  unfold contractTerm
  rw [mergeIdx_asm a.ndim xa ya k t fL hka, mergeIdx_asm b.ndim xb yb k t fR hkb]

section sums
variable [AddCommMonoid R] [Mul R] [Neg R] [SignRing R]

theorem sum_pairs' {α β : Type} (K : List α) (K' : List β) (G : α × β → R) :
    ((pairs K K').map G).sum = (K.map (fun k => (K'.map (fun k' => G (k, k'))).sum)).sum := by
  unfold pairs
  rw [sum_map_flatMap]
  congr 2
  funext k
  rw [List.map_map]
  rfl

/-- **one stored sector pair.**  Summing, over the box `T` of the remaining pairs, the contraction over
    `xa ~ xb` read at the assembled offsets gives the contraction over `xa ++ ya ~ xb ++ yb`. -/
theorem contractPair_two_step (a b : Arr R) (xa xb ya yb : List Nat) (p : Sector × Sector)
    (fL fR : List Nat) (T : List Nat)
    (hT : T = permuted (Arr.blockShapeD a.indices p.1) ya)
    (hxa : ∀ i ∈ xa, i < (Arr.blockShapeD a.indices p.1).length) (hlx : xa.length = xb.length) :
    ((allIdx T).map (fun t => contractPair a b xa xb
        (asmSide (freeAxes a.ndim xa) ya (freeAxes a.ndim (xa ++ ya)) t fL)
        (asmSide (freeAxes b.ndim xb) yb (freeAxes b.ndim (xb ++ yb)) t fR) p)).sum
      = contractPair a b (xa ++ ya) (xb ++ yb) fL fR p := by
  subst hT
  unfold contractPair
  rw [permuted_append', allIdx_append, List.map_map, sum_pairs', sum_swap]
  apply sum_map_congr
  intro k hk
  have hkl : k.length = xa.length := by
    rw [inBox_length (mem_allIdx_iff.mp hk), permuted_length _ _ hxa]
  apply sum_map_congr
  intro t _
  exact contractTerm_two_step a b xa xb ya yb p.1 p.2 k t fL fR hkl (hkl.trans hlx)

/-- **regrouping the stored sector pairs.**  `S`: the intermediate sectors that survive the trace and
    land on `s'` (`hmem`); every stored pair aligned on all legs is aligned on the first ones (`hal`). -/
theorem sum_regroup (a b : Arr R) (S : List Sector) (hS : S.Nodup)
    (hda : a.sectors.Nodup) (hdb : b.sectors.Nodup)
    (l xa xb r l' xa' xb' r' : List Nat) (s' : Sector)
    (hmem : ∀ sa ∈ a.sectors, ∀ sb ∈ b.sectors, permuted sb xb = permuted sa xa →
      ((permuted sa l ++ permuted sb r) ∈ S ↔
        (permuted sb xb' = permuted sa xa' ∧ permuted sa l' ++ permuted sb r' = s')))
    (hal : ∀ sa ∈ a.sectors, ∀ sb ∈ b.sectors, permuted sb xb' = permuted sa xa' →
      permuted sb xb = permuted sa xa)
    (H : Sector × Sector → R) :
    (S.map (fun s => ((storedPairs a b l xa xb r s).map H).sum)).sum
      = ((storedPairs a b l' xa' xb' r' s').map H).sum := by
  rw [← sum_map_flatMap]
  apply List.Perm.sum_eq
  apply List.Perm.map
  rw [List.perm_ext_iff_of_nodup]
  · rintro ⟨sa, sb⟩
    simp only [List.mem_flatMap, mem_storedPairs]
    constructor
    · rintro ⟨s, hs, hA, hB, hx, rfl⟩
      obtain ⟨h1, h2⟩ := (hmem sa hA sb hB hx).mp hs
      exact ⟨hA, hB, h1, h2⟩
    · rintro ⟨hA, hB, h1, h2⟩
      have hx := hal sa hA sb hB h1
      exact ⟨_, (hmem sa hA sb hB hx).mpr ⟨h1, h2⟩, hA, hB, hx, rfl⟩
  · rw [List.nodup_flatMap]
    constructor
    · intro s _
      exact storedPairs_nodup l xa xb r s hda hdb
    · refine List.Pairwise.imp ?_ hS
      intro x y hxy
      simp only [Function.onFun, List.disjoint_left]
      rintro ⟨sa, sb⟩ h1 h2
      exact hxy ((mem_storedPairs.mp h1).2.2.2.symm.trans (mem_storedPairs.mp h2).2.2.2)
  · exact storedPairs_nodup l' xa' xb' r' s' hda hdb

/-- **two_step_core.**  Signs `σ` on the intermediate sectors, `w` on the sector pairs, `ph` global. -/
theorem two_step_core (a b : Arr R) (xa xb ya yb : List Nat) (S : List Sector) (s' : Sector)
    (T : Sector → List Nat) (σ : Sector → Int) (ph : Int) (w : Sector × Sector → Int)
    (fL fR : List Nat)
    (hσ : ∀ s, σ s = 1 ∨ σ s = -1) (hph : ph = 1 ∨ ph = -1) (hw : ∀ p, w p = 1 ∨ w p = -1)
    (hS : S.Nodup) (hda : a.sectors.Nodup) (hdb : b.sectors.Nodup)
    (hmem : ∀ sa ∈ a.sectors, ∀ sb ∈ b.sectors, permuted sb xb = permuted sa xa →
      ((permuted sa (freeAxes a.ndim xa) ++ permuted sb (freeAxes b.ndim xb)) ∈ S ↔
        (permuted sb (xb ++ yb) = permuted sa (xa ++ ya)
          ∧ permuted sa (freeAxes a.ndim (xa ++ ya)) ++ permuted sb (freeAxes b.ndim (xb ++ yb)) = s')))
    (hal : ∀ sa ∈ a.sectors, ∀ sb ∈ b.sectors, permuted sb (xb ++ yb) = permuted sa (xa ++ ya) →
      permuted sb xb = permuted sa xa)
    (hT : ∀ s ∈ S, ∀ p ∈ storedPairs a b (freeAxes a.ndim xa) xa xb (freeAxes b.ndim xb) s,
      T s = permuted (Arr.blockShapeD a.indices p.1) ya)
    (hxa : ∀ sa ∈ a.sectors, ∀ i ∈ xa, i < (Arr.blockShapeD a.indices sa).length)
    (hlx : xa.length = xb.length) :
    (S.map (fun s => sgnI (σ s) (((allIdx (T s)).map (fun t =>
        sgnI ph (((storedPairs a b (freeAxes a.ndim xa) xa xb (freeAxes b.ndim xb) s).map (fun p =>
          sgnI (w p) (contractPair a b xa xb
            (asmSide (freeAxes a.ndim xa) ya (freeAxes a.ndim (xa ++ ya)) t fL)
            (asmSide (freeAxes b.ndim xb) yb (freeAxes b.ndim (xb ++ yb)) t fR) p))).sum))).sum))).sum
      = sgnI ph (((storedPairs a b (freeAxes a.ndim (xa ++ ya)) (xa ++ ya) (xb ++ yb)
            (freeAxes b.ndim (xb ++ yb)) s').map (fun p =>
          sgnI (σ (permuted p.1 (freeAxes a.ndim xa) ++ permuted p.2 (freeAxes b.ndim xb)) * w p)
            (contractPair a b (xa ++ ya) (xb ++ yb) fL fR p))).sum) := by
  have step : ∀ s ∈ S, sgnI (σ s) (((allIdx (T s)).map (fun t =>
        sgnI ph (((storedPairs a b (freeAxes a.ndim xa) xa xb (freeAxes b.ndim xb) s).map (fun p =>
          sgnI (w p) (contractPair a b xa xb
            (asmSide (freeAxes a.ndim xa) ya (freeAxes a.ndim (xa ++ ya)) t fL)
            (asmSide (freeAxes b.ndim xb) yb (freeAxes b.ndim (xb ++ yb)) t fR) p))).sum))).sum)
      = sgnI ph (((storedPairs a b (freeAxes a.ndim xa) xa xb (freeAxes b.ndim xb) s).map (fun p =>
          sgnI (σ (permuted p.1 (freeAxes a.ndim xa) ++ permuted p.2 (freeAxes b.ndim xb)) * w p)
            (contractPair a b (xa ++ ya) (xb ++ yb) fL fR p))).sum) := by
    intro s hs
    rw [sgnI_sum ph, sgnI_comp (hσ s) hph, Int.mul_comm, ← sgnI_comp hph (hσ s)]
    congr 1
    have e1 : ∀ t, ((storedPairs a b (freeAxes a.ndim xa) xa xb (freeAxes b.ndim xb) s).map (fun p =>
          sgnI (w p) (contractPair a b xa xb
            (asmSide (freeAxes a.ndim xa) ya (freeAxes a.ndim (xa ++ ya)) t fL)
            (asmSide (freeAxes b.ndim xb) yb (freeAxes b.ndim (xb ++ yb)) t fR) p))).sum
        = ((storedPairs a b (freeAxes a.ndim xa) xa xb (freeAxes b.ndim xb) s).map (fun p =>
          sgnI (w p) (contractPair a b xa xb
            (asmSide (freeAxes a.ndim xa) ya (freeAxes a.ndim (xa ++ ya)) t fL)
            (asmSide (freeAxes b.ndim xb) yb (freeAxes b.ndim (xb ++ yb)) t fR) p))).sum := fun _ => rfl
    rw [sum_swap (allIdx (T s)) (storedPairs a b (freeAxes a.ndim xa) xa xb (freeAxes b.ndim xb) s)
      (fun t p => sgnI (w p) (contractPair a b xa xb
            (asmSide (freeAxes a.ndim xa) ya (freeAxes a.ndim (xa ++ ya)) t fL)
            (asmSide (freeAxes b.ndim xb) yb (freeAxes b.ndim (xb ++ yb)) t fR) p)),
      ← sgnI_sum (σ s)]
    apply sum_map_congr
    intro p hp
    rw [sgnI_sum (w p), contractPair_two_step a b xa xb ya yb p fL fR (T s) (hT s hs p hp)
      (hxa p.1 (mem_storedPairs.mp hp).1) hlx, sgnI_comp (hσ s) (hw p),
      (mem_storedPairs.mp hp).2.2.2]
  rw [List.map_congr_left step, sgnI_sum ph]
  congr 1
  exact sum_regroup a b S hS hda hdb _ xa xb _ _ (xa ++ ya) (xb ++ yb) _ s' hmem hal _

end sums

end TwoStepP
end SymmModel
