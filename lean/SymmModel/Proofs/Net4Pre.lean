/-
  SymmModel.Proofs.Net4Pre — S6 of property C04 (pre-transposition of the left operand) as an `Eqv`
  statement under the weak guard: `(a.transposeF p)·b` is `Eqv` to `(a·b).transposeF (q ⊕ id)`,
  `q` the induced permutation of the free legs of `a` (`PreT`).  Namespace `SymmModel.Net4P`.
-/
import SymmModel.Proofs.Net4Trans

namespace SymmModel
namespace Net4P
open TdotP GradedP RoutesP KoszulP OddposP AssocP Assoc3P Assoc4P Assoc5P
open Lazy (sgnI)
set_option linter.unusedSectionVars false

variable {R : Type}

/-- the block permutation `q ⊕ id` on `nL + nR` positions -/
def blockP (q : List Nat) (nL nR : Nat) : List Nat := q ++ (List.range nR).map (nL + ·)

theorem permuted_blockP {α : Type} (u v : List α) (q : List Nat) (hq : ∀ i ∈ q, i < u.length) :
    permuted (u ++ v) (blockP q u.length v.length) = permuted u q ++ v := by
  unfold blockP
  rw [ValidP.permuted_append, permuted_append_of_lt u v q hq, permuted_append_map_add,
    ValidP.permuted_range]

theorem blockP_perm {q : List Nat} {nL : Nat} (hq : q.Perm (List.range nL)) (nR : Nat) :
    (blockP q nL nR).Perm (List.range (nL + nR)) := by
  unfold blockP
  rw [List.range_add]
  exact List.Perm.append_right _ hq

/-- pruning commutes with re-listing the legs -/
theorem dropUnused_permuted (U : List Index) (S S' : List Sector) (P : List Nat)
    (hP : ∀ x ∈ P, x < U.length) (hS : ∀ s ∈ S, s.length = U.length)
    (h : ∀ s', s' ∈ S' ↔ ∃ s ∈ S, s' = permuted s P) :
    dropUnused (permuted U P) S' = permuted (dropUnused U S) P := by
  apply List.ext_getElem?
  intro i
  rw [dropUnused_getElem?, permuted_getElem? U P hP,
    permuted_getElem? _ P (by rw [dropUnused_length]; exact hP)]
  cases hPi : P[i]? with
  | none => rfl
  | some x =>
    simp only [Option.bind_some]
    rw [dropUnused_getElem?]
    cases U[x]? with
    | none => rfl
    | some ix =>
      simp only [Option.map_some]
      congr 1
      apply TdotP.dropTo_congr
      intro ch _
      simp only [List.mem_filterMap]
      constructor
      · rintro ⟨s', hs', e⟩
        obtain ⟨s, hs, rfl⟩ := (h s').mp hs'
        refine ⟨s, hs, ?_⟩
        rw [permuted_getElem? s P (by rw [hS s hs]; exact hP), hPi] at e
        exact e
      · rintro ⟨s, hs, e⟩
        refine ⟨permuted s P, (h _).mpr ⟨s, hs, rfl⟩, ?_⟩
        rw [permuted_getElem? s P (by rw [hS s hs]; exact hP), hPi]
        exact e

section
variable [AddCommMonoid R] [Mul R] [Neg R] [SignRing R] [AssocLaws R]

/-- **S6 as an equivalence** (weak guard, distinct labels) -/
theorem pre_eqv (a b : Arr R) (p xa xa' q xb : List Nat) (W : AdmW a b xa xb)
    (hp : Arr.isPerm p a.ndim = true) (hT : PreT a.ndim p xa xa' q)
    (hd : OddposP.LabelsDistinct (a.oddpos ++ b.oddpos)) (c : Arr R)
    (hc : tdF a b xa xb = .ok c) :
    ∃ c', tdF (a.transposeF p) b xa' xb = .ok c' ∧ c'.validB = true ∧ c.validB = true
      ∧ Arr.isPerm (blockP q (freeAxes a.ndim xa).length (freeAxes b.ndim xb).length) c.ndim = true
      ∧ Eqv (c.transposeF (blockP q (freeAxes a.ndim xa).length (freeAxes b.ndim xb).length)) c' := by
  have hsa := Arr.shapesOk_of_validB W.va
  have hsb := Arr.shapesOk_of_validB W.vb
  have W' := admW_pre W hp hT
  obtain ⟨Z, ph, eZ, I, _⟩ := call_pack a b xa xb W hd
  have hc' := hc
  unfold tdF at hc'
  rw [eZ] at hc'
  obtain rfl := Except.ok.inj hc'
  have hd' : OddposP.LabelsDistinct ((a.transposeF p).oddpos ++ b.oddpos) := hd
  obtain ⟨c', ph', ec', I', _⟩ := call_pack (a.transposeF p) b xa' xb W' hd'
  obtain ⟨c'', e'', q1, q2, q3, q4, q5⟩ := tdotF_pretranspose_w a b Z p xa xa' q xb W hp hT hc
  rw [ec'] at e''
  obtain rfl := Except.ok.inj e''
  have Ta := transOf_transposeF a p W.va W.fa hp
  have hnd : (a.transposeF p).ndim = a.ndim := hT.lenT a.indices rfl
  set nL := (freeAxes a.ndim xa).length with hnL
  set nR := (freeAxes b.ndim xb).length with hnR
  have hqlt : ∀ i ∈ q, i < nL := mem_lt_of_perm hT.hq
  have hPp : (blockP q nL nR).Perm (List.range Z.ndim) := by rw [I.ndim]; exact blockP_perm hT.hq nR
  have hPerm : Arr.isPerm (blockP q nL nR) Z.ndim = true := KoszulP.isPerm_of_perm hPp
  have hlA : ∀ sa ∈ a.sectors, (permuted sa (freeAxes a.ndim xa)).length = nL :=
    fun sa h => permuted_length _ _ (by
      intro x hx; rw [Arr.sector_length hsa h]; exact (mem_freeAxes.mp hx).1)
  have hlB : ∀ sb ∈ b.sectors, (permuted sb (freeAxes b.ndim xb)).length = nR :=
    fun sb h => permuted_length _ _ (by
      intro x hx; rw [Arr.sector_length hsb h]; exact (mem_freeAxes.mp hx).1)
  -- sectors
  have hsec : ∀ s', s' ∈ c'.sectors ↔ ∃ s ∈ Z.sectors, s' = permuted s (blockP q nL nR) := by
    intro s'
    rw [I'.mem_sectors]
    constructor
    · rintro ⟨sa', hA', sb, hB, hal, rfl⟩
      rw [Ta.sectors, List.mem_map] at hA'
      obtain ⟨sa, hA, rfl⟩ := hA'
      have hla := Arr.sector_length hsa hA
      rw [hT.ax sa hla] at hal
      refine ⟨_, I.mem_sectors.mpr ⟨sa, hA, sb, hB, hal, rfl⟩, ?_⟩
      have := permuted_blockP (permuted sa (freeAxes a.ndim xa)) (permuted sb (freeAxes b.ndim xb)) q
        (by rw [hlA sa hA]; exact hqlt)
      rw [hlA sa hA, hlB sb hB] at this
      rw [this, hnd, hT.free sa hla]
    · rintro ⟨s, hs, rfl⟩
      obtain ⟨sa, hA, sb, hB, hal, rfl⟩ := I.mem_sectors.mp hs
      have hla := Arr.sector_length hsa hA
      refine ⟨permuted sa p, by rw [Ta.sectors]; exact List.mem_map.mpr ⟨sa, hA, rfl⟩, sb, hB,
        by rw [hT.ax sa hla]; exact hal, ?_⟩
      have := permuted_blockP (permuted sa (freeAxes a.ndim xa)) (permuted sb (freeAxes b.ndim xb)) q
        (by rw [hlA sa hA]; exact hqlt)
      rw [hlA sa hA, hlB sb hB] at this
      rw [this, hnd, hT.free sa hla]
  -- index tables
  have hl1 : (without a.indices xa).length = nL := by
    rw [without_eq_permuted_freeAxes]; exact permuted_length _ _ (fun x hx => (mem_freeAxes.mp hx).1)
  have hl2 : (without b.indices xb).length = nR := by
    rw [without_eq_permuted_freeAxes]; exact permuted_length _ _ (fun x hx => (mem_freeAxes.mp hx).1)
  have hidx : c'.indices = permuted Z.indices (blockP q nL nR) := by
    have hU : without (a.transposeF p).indices xa' ++ without b.indices xb
        = permuted (without a.indices xa ++ without b.indices xb) (blockP q nL nR) := by
      have := permuted_blockP (without a.indices xa) (without b.indices xb) q
        (by rw [hl1]; exact hqlt)
      rw [hl1, hl2] at this
      rw [this, without_eq_permuted_freeAxes, without_eq_permuted_freeAxes (l := a.indices)]
      congr 1
      show permuted (a.transposeF p).indices (freeAxes (a.transposeF p).ndim xa') = _
      rw [hnd, Ta.indices]
      exact hT.free a.indices rfl
    rw [I'.indices, I.indices, hU]
    apply dropUnused_permuted
    · intro x hx
      rw [List.length_append, hl1, hl2, ← I.ndim]
      exact mem_lt_of_perm hPp x hx
    · intro s hs
      obtain ⟨sa, hA, sb, hB, _, rfl⟩ := I.mem_sectors.mp hs
      rw [List.length_append, List.length_append, hlA sa hA, hlB sb hB, hl1, hl2]
    · exact hsec
  refine ⟨c', ec', I'.valid, I.valid, hPerm,
    eqv_of_transposed I.valid I.fermi hPerm q3 q4 q2 q1 hidx hsec ?_⟩
  -- values
  intro s hs o hbox
  obtain ⟨sa, hA, sb, hB, hal, rfl⟩ := I.mem_sectors.mp hs
  have hL := hlA sa hA
  have hR := hlB sb hB
  obtain ⟨shpA, hA1, hA2, hA3, hA4⟩ := shape_of_mem hsa hA
  obtain ⟨shpB, hB1, hB2, hB3, hB4⟩ := shape_of_mem hsb hB
  have hFA : (permuted (Arr.blockShapeD a.indices sa) (freeAxes a.ndim xa)).length = nL :=
    permuted_length _ _ (by intro x hx; rw [hA2, hA3]; exact (mem_freeAxes.mp hx).1)
  rw [Arr.blockShapeD, I.shape hsa hsb hA hB hal] at hbox
  change inBox (permuted (Arr.blockShapeD a.indices sa) (freeAxes a.ndim xa)
    ++ permuted (Arr.blockShapeD b.indices sb) (freeAxes b.ndim xb)) o = true at hbox
  have hFB : (permuted (Arr.blockShapeD b.indices sb) (freeAxes b.ndim xb)).length = nR :=
    permuted_length _ _ (by intro x hx; rw [hB2, hB3]; exact (mem_freeAxes.mp hx).1)
  have hol := inBox_length hbox
  rw [List.length_append, hFA, hFB] at hol
  have hsplit : o = o.take nL ++ o.drop nL := (List.take_append_drop _ _).symm
  have htl : (o.take nL).length = nL := by rw [List.length_take]; omega
  have hdl : (o.drop nL).length = nR := by rw [List.length_drop]; omega
  have hboxU : inBox (Arr.blockShapeD (without a.indices xa ++ without b.indices xb)
      (permuted sa (freeAxes a.ndim xa) ++ permuted sb (freeAxes b.ndim xb)))
      (o.take nL ++ o.drop nL) = true := by
    rw [Arr.blockShapeD, I.shapeU hsa hsb hA hB hal, ← hsplit]
    exact hbox
  have hval := q5 _ _ (o.take nL) (o.drop nL) hL htl hboxU
  have r1 := permuted_blockP (permuted sa (freeAxes a.ndim xa)) (permuted sb (freeAxes b.ndim xb)) q
    (by rw [hL]; exact hqlt)
  rw [hL, hR] at r1
  have r2 := permuted_blockP (o.take nL) (o.drop nL) q (by rw [htl]; exact hqlt)
  rw [htl, hdl, ← hsplit] at r2
  rw [r1, r2, hval, ← hsplit]
  congr 1
  have k := koszul_id_block_right ((permuted sa (freeAxes a.ndim xa)).map a.sym.parity)
    ((permuted sb (freeAxes b.ndim xb)).map a.sym.parity) q (by rw [List.length_map, hL]; exact hT.hq)
  rw [List.length_map, List.length_map, hL, hR, ← List.map_append] at k
  unfold Arr.parities blockP
  rw [I.sym, k]

end

end Net4P
end SymmModel
