/-
  SymmModel.Proofs.TdotFused23 — `AbOk` (fused = blockwise) with NO contracted axes: the model's
  control flow in the four rank cases and the assembled statement; hence `KernelOk` for every
  call.  Namespace `SymmModel.TdotP`.
-/
import SymmModel.Proofs.TdotFused22

namespace SymmModel
namespace TdotP
variable {R : Type}

/-- control flow: nothing contracted, both free groups non-empty -/
theorem tensordotViaFused_outer [Zero R] [Add R] [Mul R] (a b : Arr R) (l r : List Nat)
    (hl : l ≠ []) (hr : r ≠ [])
    (hbl : ((dropMisaligned a b [] []).1.blocks.isEmpty || (dropMisaligned a b [] []).2.blocks.isEmpty) = false)
    (af bf : Arr R) (haf : fuseCore (dropMisaligned a b [] []).1 [l] .insert = .ok af)
    (hbf : fuseCore (dropMisaligned a b [] []).2 [r] .insert = .ok bf) :
    tensordotViaFused a b l [] [] r =
      unfuseTail (tensordotBlockwise af bf [0] [] [] [0]) (l.length != 1) (r.length != 1) := by
  have hfA : [l, []].filter (fun g => !g.isEmpty) = [l] := by cases l <;> simp_all
  have hfB : [[], r].filter (fun g => !g.isEmpty) = [r] := by cases r <;> simp_all
  have hlE : l.isEmpty = false := by cases l <;> simp_all
  have hrE : r.isEmpty = false := by cases r <;> simp_all
  unfold tensordotViaFused unfuseTail
  simp only [hbl, C05.fuseA_noexpand, hfA, hfB, haf, hbf, hlE, hrE, Bool.not_false,
    Bool.true_and, List.isEmpty_cons, List.isEmpty_nil, Bool.not_true,
    Bool.false_eq_true, if_false, bind, Except.bind]
  by_cases h1 : (r.length != 1) = true
  · simp only [h1, if_true]
    cases unfuseA (tensordotBlockwise af bf [0] [] [] [0]) 1 with
    | error e => rfl
    | ok v =>
      simp only []
      by_cases h2 : (l.length != 1) = true
      · simp only [h2, if_true]; cases unfuseA v 0 <;> rfl
      · simp only [h2, Bool.false_eq_true, if_false]; rfl
  · simp only [h1, Bool.false_eq_true, if_false, pure, Except.pure]
    by_cases h2 : (l.length != 1) = true
    · simp only [h2, if_true]; cases unfuseA (tensordotBlockwise af bf [0] [] [] [0]) 0 <;> rfl
    · simp only [h2, Bool.false_eq_true, if_false]

/-- control flow: nothing contracted, left operand of rank 0 -/
theorem tensordotViaFused_outer_sv [Zero R] [Add R] [Mul R] (a b : Arr R) (r : List Nat) (hr : r ≠ [])
    (hbl : ((dropMisaligned a b [] []).1.blocks.isEmpty || (dropMisaligned a b [] []).2.blocks.isEmpty) = false)
    (bf : Arr R) (hbf : fuseCore (dropMisaligned a b [] []).2 [r] .insert = .ok bf) :
    tensordotViaFused a b [] [] [] r =
      (if (r.length != 1) = true then
          unfuseA (tensordotBlockwise (dropMisaligned a b [] []).1 bf [] [] [] [0]) 0
        else pure (tensordotBlockwise (dropMisaligned a b [] []).1 bf [] [] [] [0])) := by
  have hfA : [([] : List Nat), []].filter (fun g => !g.isEmpty) = [] := rfl
  have hfB : [[], r].filter (fun g => !g.isEmpty) = [r] := by cases r <;> simp_all
  have hrE : r.isEmpty = false := by cases r <;> simp_all
  unfold tensordotViaFused
  simp only [hbl, C05.fuseA_noexpand, hfA, hfB, hbf, hrE, Bool.not_false,
    Bool.true_and, List.isEmpty_cons, List.isEmpty_nil, Bool.not_true, Bool.false_and,
    Bool.false_eq_true, if_false, if_true, bind, Except.bind, pure, Except.pure]
  by_cases h2 : (r.length != 1) = true
  · simp only [h2, if_true]
    cases unfuseA (tensordotBlockwise (dropMisaligned a b [] []).1 bf [] [] [] [0]) 0 <;> rfl
  · simp only [h2, Bool.false_eq_true, if_false]

/-- control flow: nothing contracted, right operand of rank 0 -/
theorem tensordotViaFused_outer_vs [Zero R] [Add R] [Mul R] (a b : Arr R) (l : List Nat) (hl : l ≠ [])
    (hbl : ((dropMisaligned a b [] []).1.blocks.isEmpty || (dropMisaligned a b [] []).2.blocks.isEmpty) = false)
    (af : Arr R) (haf : fuseCore (dropMisaligned a b [] []).1 [l] .insert = .ok af) :
    tensordotViaFused a b l [] [] [] =
      (if (l.length != 1) = true then
          unfuseA (tensordotBlockwise af (dropMisaligned a b [] []).2 [0] [] [] []) 0
        else pure (tensordotBlockwise af (dropMisaligned a b [] []).2 [0] [] [] [])) := by
  have hfA : [l, []].filter (fun g => !g.isEmpty) = [l] := by cases l <;> simp_all
  have hfB : [([] : List Nat), []].filter (fun g => !g.isEmpty) = [] := rfl
  have hlE : l.isEmpty = false := by cases l <;> simp_all
  unfold tensordotViaFused
  simp only [hbl, C05.fuseA_noexpand, hfA, hfB, haf, hlE, Bool.not_false,
    Bool.true_and, List.isEmpty_cons, List.isEmpty_nil, Bool.not_true, Bool.false_and,
    Bool.false_eq_true, if_false, if_true, bind, Except.bind, pure, Except.pure]
  by_cases h2 : (l.length != 1) = true
  · simp only [h2, if_true]
    cases unfuseA (tensordotBlockwise af (dropMisaligned a b [] []).2 [0] [] [] []) 0 <;> rfl
  · simp only [h2, Bool.false_eq_true, if_false]

/-- control flow: both operands of rank 0 -/
theorem tensordotViaFused_outer_ss [Zero R] [Add R] [Mul R] (a b : Arr R)
    (hbl : ((dropMisaligned a b [] []).1.blocks.isEmpty || (dropMisaligned a b [] []).2.blocks.isEmpty) = false) :
    tensordotViaFused a b [] [] [] [] =
      .ok (tensordotBlockwise (dropMisaligned a b [] []).1 (dropMisaligned a b [] []).2 [] [] [] []) := by
  have hfA : [([] : List Nat), []].filter (fun g => !g.isEmpty) = [] := rfl
  unfold tensordotViaFused
  simp only [hbl, C05.fuseA_noexpand, hfA, List.isEmpty_nil, Bool.not_true, Bool.false_and,
    Bool.false_eq_true, if_false, if_true, bind, Except.bind, pure, Except.pure]

theorem contractibleB_nil (a b : Arr R) : ValidP.contractibleB a b [] [] = true := by
  unfold ValidP.contractibleB; simp

/-- **fused = blockwise with no contracted axes** (abelian operands, both with blocks) -/
theorem abOk_outer_ctx [AddCommMonoid R] [Mul R] [Neg R]
    (hz1 : ∀ x : R, 0 * x = 0) (hz2 : ∀ x : R, x * 0 = 0) (a b : Arr R)
    (ha : a.validB = true) (hfa : a.fermi = false)
    (h : Ctx0 (dropMisaligned a b [] []).1 (dropMisaligned a b [] []).2 [] [])
    (hbl : ((dropMisaligned a b [] []).1.blocks.isEmpty || (dropMisaligned a b [] []).2.blocks.isEmpty) = false) :
    AbOk a b [] [] := by
  obtain ⟨n1, n2⟩ := dropMisaligned_ndim a b [] []
  by_cases hL : freeAxes a.ndim [] = []
  · have hL' : freeAxes (dropMisaligned a b [] []).1.ndim [] = [] := by rw [n1]; exact hL
    by_cases hR : freeAxes b.ndim [] = []
    · -- both of rank 0: the fused strategy IS the blockwise product of the aligned operands
      have hR' : freeAxes (dropMisaligned a b [] []).2.ndim [] = [] := by rw [n2]; exact hR
      have hflow := tensordotViaFused_outer_ss a b hbl
      have hv := ValidP.tensordotBlockwise_valid (dropMisaligned a b [] []).1 (dropMisaligned a b [] []).2
        [] [] ((ValidP.validB_iff _).mp h.vA) ((ValidP.validB_iff _).mp h.vB) h.sym h.fA
        (by unfold ValidP.oppositeDualsB; simp) (by simp) (by simp) (by simp) (by simp)
      rw [without_range, without_range, hL', hR'] at hv
      have hcv := (ValidP.validB_iff _).mpr hv
      obtain ⟨t1, t2, t3, t4, t5⟩ := tensordotBlockwise_fields (dropMisaligned a b [] []).1
        (dropMisaligned a b [] []).2 [] [] [] []
      have hrk := tensordotBlockwise_rank (dropMisaligned a b [] []).1 (dropMisaligned a b [] []).2 [] []
      rw [hL', hR'] at hrk
      have hidx0 : (tensordotBlockwise (dropMisaligned a b [] []).1 (dropMisaligned a b [] []).2
          [] [] [] []).indices = [] := List.eq_nil_of_length_eq_zero hrk
      refine abOk_of_aligned a b [] [] ha hfa _ (by rw [hL, hR]; exact hflow) hcv t1 (t2.trans h.fA) t3
        (t4.trans h.phA) t5 (by rw [hL, hR]; exact hrk) ?_ ?_ ?_
      · intro K V hl J _
        rw [hL, hR]
        exact (Arr.elem_of_mem (Arr.allDistinct_of_validB hcv) (t4.trans h.phA) (alookup_mem hl) J).symm
      · intro s hs; rw [hL, hR] at hs; exact hs
      · rw [hidx0, hL, hR]; exact .nil
    · have hR' : freeAxes (dropMisaligned a b [] []).2.ndim [] ≠ [] := by rw [n2]; exact hR
      obtain ⟨c, hc_ok, hcv, f1, f2, f3, f4, f5, hrank, hval, hsec, hshape⟩ :=
        h.outer_sv hz1 hz2 hL' hR'
      have hfB := FuseP.fuseCore_multi_eq h.vaB (solo_all hR').groupsOk
      rw [n2] at hfB
      unfold cfSV at hc_ok
      rw [n2] at hc_ok
      rw [n1, n2] at hrank hval hsec hshape
      have hflow := tensordotViaFused_outer_sv a b (freeAxes b.ndim []) hR hbl _ hfB
      exact abOk_of_aligned a b [] [] ha hfa c (by rw [hL]; exact hflow.trans hc_ok) hcv f1 f2 f3 f4 f5
        hrank hval hsec hshape
  · have hL' : freeAxes (dropMisaligned a b [] []).1.ndim [] ≠ [] := by rw [n1]; exact hL
    by_cases hR : freeAxes b.ndim [] = []
    · have hR' : freeAxes (dropMisaligned a b [] []).2.ndim [] = [] := by rw [n2]; exact hR
      obtain ⟨c, hc_ok, hcv, f1, f2, f3, f4, f5, hrank, hval, hsec, hshape⟩ :=
        h.outer_vs hz1 hz2 hL' hR'
      have hfA := FuseP.fuseCore_multi_eq h.vaA (solo_all hL').groupsOk
      rw [n1] at hfA
      unfold cfVS at hc_ok
      rw [n1] at hc_ok
      rw [n1, n2] at hrank hval hsec hshape
      have hflow := tensordotViaFused_outer_vs a b (freeAxes a.ndim []) hL hbl _ hfA
      exact abOk_of_aligned a b [] [] ha hfa c (by rw [hR]; exact hflow.trans hc_ok) hcv f1 f2 f3 f4 f5
        hrank hval hsec hshape
    · have hR' : freeAxes (dropMisaligned a b [] []).2.ndim [] ≠ [] := by rw [n2]; exact hR
      obtain ⟨c, hc_ok, hcv, f1, f2, f3, f4, f5, hrank, hval, hsec, hshape⟩ :=
        h.outer hz1 hz2 hL' hR'
      have hfA := FuseP.fuseCore_multi_eq h.vaA (solo_all hL').groupsOk
      have hfB := FuseP.fuseCore_multi_eq h.vaB (solo_all hR').groupsOk
      rw [n1] at hfA
      rw [n2] at hfB
      unfold cfO at hc_ok
      rw [n1, n2] at hc_ok hrank hval hsec hshape
      have hflow := tensordotViaFused_outer a b (freeAxes a.ndim []) (freeAxes b.ndim []) hL hR hbl _ _ hfA hfB
      exact abOk_of_aligned a b [] [] ha hfa c (hflow.trans hc_ok) hcv f1 f2 f3 f4 f5
        hrank hval hsec hshape

/-- **fused = blockwise with no contracted axes** (abelian operands, both with blocks) -/
theorem abOk_outer [AddCommMonoid R] [Mul R] [Neg R]
    (hz1 : ∀ x : R, 0 * x = 0) (hz2 : ∀ x : R, x * 0 = 0) (a b : Arr R)
    (ha : a.validB = true) (hb : b.validB = true) (hfa : a.fermi = false) (hfb : b.fermi = false)
    (hsym : a.sym = b.sym)
    (hbl : ((dropMisaligned a b [] []).1.blocks.isEmpty || (dropMisaligned a b [] []).2.blocks.isEmpty) = false) :
    AbOk a b [] [] :=
  abOk_outer_ctx hz1 hz2 a b ha hfa
    (ctx0_of_dropMisaligned a b [] [] ha hb hfa hfb hsym (contractibleB_nil a b)
      List.nodup_nil List.nodup_nil (by simp) (by simp)) hbl

/-- **fused = blockwise for EVERY call**, from the aligned-operand context -/
theorem abOk_all_ctx [AddCommMonoid R] [Mul R] [Neg R]
    (hz1 : ∀ x : R, 0 * x = 0) (hz2 : ∀ x : R, x * 0 = 0) (a b : Arr R) (xa xb : List Nat)
    (ha : a.validB = true) (hfa : a.fermi = false)
    (h : Ctx0 (dropMisaligned a b xa xb).1 (dropMisaligned a b xa xb).2 xa xb)
    (hbl : ((dropMisaligned a b xa xb).1.blocks.isEmpty || (dropMisaligned a b xa xb).2.blocks.isEmpty) = false) :
    AbOk a b xa xb := by
  by_cases hK : xa = []
  · have hKb : xb = [] := by
      have := h.len
      rw [hK] at this
      exact List.eq_nil_of_length_eq_zero this.symm
    subst hK hKb
    exact abOk_outer_ctx hz1 hz2 a b ha hfa h hbl
  · exact abOk_contract_ctx hz1 hz2 a b xa xb ha hfa h hK hbl

/-- **fused = blockwise for EVERY call** (abelian operands, aligned blocks) -/
theorem abOk_all [AddCommMonoid R] [Mul R] [Neg R]
    (hz1 : ∀ x : R, 0 * x = 0) (hz2 : ∀ x : R, x * 0 = 0) (a b : Arr R) (xa xb : List Nat)
    (ha : a.validB = true) (hb : b.validB = true) (hfa : a.fermi = false) (hfb : b.fermi = false)
    (hsym : a.sym = b.sym) (hc : ValidP.contractibleB a b xa xb = true)
    (hnA : xa.Nodup) (hnB : xb.Nodup) (hA : ∀ x ∈ xa, x < a.ndim) (hB : ∀ x ∈ xb, x < b.ndim)
    (hbl : ((dropMisaligned a b xa xb).1.blocks.isEmpty || (dropMisaligned a b xa xb).2.blocks.isEmpty) = false) :
    AbOk a b xa xb := by
  by_cases hK : xa = []
  · have hKb : xb = [] := by
      have := GradedP.contractible_len hc
      rw [hK] at this
      exact List.eq_nil_of_length_eq_zero this.symm
    subst hK hKb
    exact abOk_outer hz1 hz2 a b ha hb hfa hfb hsym hbl
  · exact abOk_contract hz1 hz2 a b xa xb ha hb hfa hfb hsym hc hnA hnB hA hB hK hbl

/-- **fused = blockwise for EVERY call** (operands of any kind, synced signs) -/
theorem kernelOk_all [AddCommMonoid R] [Mul R] [Neg R]
    (hz1 : ∀ x : R, 0 * x = 0) (hz2 : ∀ x : R, x * 0 = 0) (X Y : Arr R) (xa xb : List Nat)
    (hvX : ValidP.Valid X) (hvY : ValidP.Valid Y) (hpX : X.phases = []) (hpY : Y.phases = [])
    (hsym : X.sym = Y.sym) (hc : ValidP.contractibleB X Y xa xb = true)
    (hnA : xa.Nodup) (hnB : xb.Nodup) (hA : ∀ x ∈ xa, x < X.ndim) (hB : ∀ x ∈ xb, x < Y.ndim) :
    KernelOk X Y xa xb :=
  kernelOk_of_abOk X Y xa xb (fun hbl =>
    abOk_all hz1 hz2 (ab X) (ab Y) xa xb (ab_validB hvX hpX) (ab_validB hvY hpY) rfl rfl hsym hc
      hnA hnB hA hB hbl)

end TdotP
end SymmModel
