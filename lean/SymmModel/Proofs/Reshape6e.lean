/-
  SymmModel.Proofs.Reshape6e — planner totality for merge / squeeze targets: the old shape is a list
  of items in the planner's own reading — `K d` an axis kept, `Sq` a size-one axis without
  counterpart (allowed where the next target dimension is not 1), `M d0 mid dl` a run
  `d0, mid…, dl` merged into one axis (`d0, dl ≥ 2`, inner sizes ≥ 1) — and the target has the kept
  sizes and the products.  The planner returns a plan, without unfuse steps and without expansions.
-/
import SymmModel.Proofs.Reshape6d
namespace SymmModel.Reshape5
open SymmModel SymmModel.Reshape SymmModel.C07 SymmModel.Reshape3 SymmModel.Reshape4

inductive Item where
  | K (d : Nat)
  | Sq
  | M (d0 : Nat) (mid : List Nat) (dl : Nat)
  deriving Repr, DecidableEq

def Item.shape : Item → List Nat
  | .K d => [d]
  | .Sq => [1]
  | .M d0 mid dl => d0 :: (mid ++ [dl])

def Item.target : Item → List Nat
  | .K d => [d]
  | .Sq => []
  | .M d0 mid dl => [prod (d0 :: (mid ++ [dl]))]

def shapeOf (items : List Item) : List Nat := items.flatMap Item.shape
def targetOf (items : List Item) : List Nat := items.flatMap Item.target

def ItemsOk : List Item → Prop
  | [] => True
  | .K _ :: r => ItemsOk r
  | .Sq :: r => (targetOf r).head? ≠ some 1 ∧ ItemsOk r
  | .M d0 mid dl :: r => 2 ≤ d0 ∧ 2 ≤ dl ∧ (∀ d ∈ mid, 1 ≤ d) ∧ ItemsOk r

instance : DecidablePred ItemsOk := fun items => by
  induction items with
  | nil => exact isTrue trivial
  | cons a r ih =>
    cases a <;> (unfold ItemsOk; infer_instance)

@[simp] theorem shapeOf_nil : shapeOf [] = [] := rfl
@[simp] theorem targetOf_nil : targetOf [] = [] := rfl
@[simp] theorem shapeOf_append (a b : List Item) : shapeOf (a ++ b) = shapeOf a ++ shapeOf b := by simp [shapeOf]
@[simp] theorem targetOf_append (a b : List Item) : targetOf (a ++ b) = targetOf a ++ targetOf b := by
  simp [targetOf]
@[simp] theorem shapeOf_cons (a : Item) (b : List Item) : shapeOf (a :: b) = a.shape ++ shapeOf b := by
  simp [shapeOf]
@[simp] theorem targetOf_cons (a : Item) (b : List Item) : targetOf (a :: b) = a.target ++ targetOf b := by
  simp [targetOf]

theorem prod_suffix_ge2 {m : List Nat} {dl : Nat} (hm : ∀ d ∈ m, 1 ≤ d) (hd : 2 ≤ dl) : 2 ≤ prod (m ++ [dl]) := by
  rw [C07.prod_append]
  have h1 : 1 ≤ prod m := Reshape3.prod_pos hm
  simp only [prod, Nat.mul_one]
  exact Nat.le_trans (by omega) (Nat.mul_le_mul h1 hd)

/-- the inner `while di < dj` loop on a run with inner ones -/
theorem fuseScan_run2 (shape : List Nat) (dj : Nat) (lbl : Lbl) (dl : Nat) (hdl : 2 ≤ dl) :
    ∀ (mid : List Nat) (fuel di i s : Nat) (term : List Lbl), (∀ d ∈ mid, 1 ≤ d) → 1 ≤ di →
      di * prod (mid ++ [dl]) = dj → (shape.drop i).take (mid.length + 1) = mid ++ [dl] →
      mid.length + 2 ≤ fuel →
      fuseScan shape dj lbl fuel di i s term
        = .ok (dj, i + (mid.length + 1), s + (mid.length + 1), term ++ List.replicate (mid.length + 1) lbl) := by
  intro mid
  induction mid with
  | nil =>
    intro fuel di i s term _ hdi hp hw hf
    have := fuseScan_run shape dj lbl [dl] fuel di i s term (by intro d hd; simp at hd; omega) hdi
      (by simpa using hp) (by simpa using hw) (by simpa using hf)
    simpa using this
  | cons d m ih =>
    intro fuel di i s term hm hdi hp hw hf
    obtain ⟨f, rfl⟩ : ∃ f, fuel = f + 1 := ⟨fuel - 1, by simp at hf; omega⟩
    have hd := hm d (by simp)
    have hm' : ∀ d' ∈ m, 1 ≤ d' := fun d' hd' => hm d' (by simp [hd'])
    have hsuf := prod_suffix_ge2 hm' hdl
    have hi : i < shape.length := by
      rcases Nat.lt_or_ge i shape.length with hc | hc
      · exact hc
      · rw [List.drop_eq_nil_of_le hc] at hw; simp at hw
    rw [List.drop_eq_getElem_cons hi] at hw
    simp only [List.length_cons, List.take_succ_cons, List.cons_append, List.cons.injEq] at hw
    have hget : shape[i]? = some d := by rw [List.getElem?_eq_getElem hi, hw.1]
    have hlt : di < dj := by
      rw [← hp]; simp only [List.cons_append, prod]
      have : 2 ≤ d * prod (m ++ [dl]) := Nat.le_trans (by omega) (Nat.mul_le_mul hd hsuf)
      calc di = di * 1 := by omega
        _ < di * (d * prod (m ++ [dl])) := Nat.mul_lt_mul_of_pos_left (by omega) (by omega)
    have hb : Nat.blt di dj = true := by simp [Nat.blt]; omega
    simp only [fuseScan, hb, if_true, hget]
    rw [ih f (di * d) (i + 1) (s + 1) (term ++ [lbl]) hm' (Nat.le_trans (by omega) (Nat.mul_le_mul hdi hd))
      (by rw [← hp]; simp only [List.cons_append, prod]; rw [Nat.mul_assoc]) hw.2 (by simp at hf ⊢; omega)]
    simp only [List.length_cons, List.replicate_succ, List.append_assoc, List.singleton_append,
      Except.ok.injEq, Prod.mk.injEq, and_true, true_and]
    omega

/-- what the first loop guarantees for the later phases -/
structure FInv (st : RState) : Prop where
  us : st.unfuseSizes = []
  ex : st.axsExpand = []
  lbl : LblOk st.fuseSizes st.term

theorem lblOk_append {fs : List Nat} {t1 t2 : List Lbl} (h1 : LblOk fs t1) (h2 : LblOk fs t2) :
    LblOk fs (t1 ++ t2) := by
  intro l hl
  rcases List.mem_append.mp hl with h | h
  · exact h1 l h
  · exact h2 l h

/-- **the first loop succeeds on a list of items** -/
theorem mainLoop_items (items : List Item) :
    ∀ (rest pre : List Item) (fuel : Nat) (st : RState), items = pre ++ rest → ItemsOk rest →
      rest.length ≤ fuel → FInv st → st.i = (shapeOf pre).length → st.j = (targetOf pre).length →
      (targetOf pre ≠ [] → ∃ l ∈ st.term, l.isS = false) →
      ∃ st', mainLoop (shapeOf items) (targetOf items) (nones (shapeOf items)) fuel st = .ok st'
        ∧ FInv st' ∧ st'.j = (targetOf items).length
        ∧ (targetOf items ≠ [] → ∃ l ∈ st'.term, l.isS = false) := by
  intro rest
  induction rest with
  | nil =>
    intro pre fuel st hs _ _ hI hi hj hn
    have : items = pre := by simp [hs]
    subst this
    exact ⟨st, mainLoop_done _ _ _ _ _ (by rw [hi]), hI, hj, hn⟩
  | cons a rest ih =>
    intro pre fuel st hs hok hf hI hi hj hn
    obtain ⟨f, rfl⟩ : ∃ f, fuel = f + 1 := ⟨fuel - 1, by simp at hf; omega⟩
    have hs' : items = (pre ++ [a]) ++ rest := by simp [hs]
    have hlen : rest.length ≤ f := by simpa using hf
    cases a with
    | K d =>
      have g1 : (shapeOf items)[st.i]? = some d := by rw [hs, hi]; simp [Item.shape]
      have g2 : (targetOf items)[st.j]? = some d := by rw [hs, hj]; simp [Item.target]
      have g3 := nones_getElem? (shapeOf items) _ (List.getElem?_eq_some_iff.mp g1).1
      simp only [mainLoop, g1, g2, g3, unfuseMatch, Nat.beq_refl, if_true]
      refine ih (pre ++ [Item.K d]) f _ hs' hok hlen ⟨hI.us, hI.ex, ?_⟩ (by simp [hi, Item.shape])
        (by simp [hj, Item.target]) (fun _ => ⟨Lbl.o, by simp, rfl⟩)
      exact lblOk_append hI.lbl (fun l hl => by simp at hl; subst hl; exact Or.inr (Or.inl rfl))
    | Sq =>
      obtain ⟨hhead, hokr⟩ := hok
      have g1 : (shapeOf items)[st.i]? = some 1 := by rw [hs, hi]; simp [Item.shape]
      have g3 := nones_getElem? (shapeOf items) _ (List.getElem?_eq_some_iff.mp g1).1
      cases htr : targetOf rest with
      | nil =>
        have g2 : (targetOf items)[st.j]? = none := by rw [hs, hj]; simp [Item.target, htr]
        refine ⟨st, by simp only [mainLoop, g1, g2, pure, Except.pure], hI, ?_, ?_⟩
        · rw [hj, hs]; simp [Item.target, htr]
        · intro hne; apply hn; rw [hs] at hne; simpa [Item.target, htr] using hne
      | cons dj tr =>
        have hdj : dj ≠ 1 := by rw [htr] at hhead; simpa using hhead
        have g2 : (targetOf items)[st.j]? = some dj := by rw [hs, hj]; simp [Item.target, htr]
        have c1 : Nat.beq 1 dj = false := nat_beq_false (by omega)
        simp only [mainLoop, g1, g2, g3, unfuseMatch, c1, Nat.beq_refl, Bool.false_eq_true, if_false, if_true]
        refine ih (pre ++ [Item.Sq]) f _ hs' hokr hlen ⟨hI.us, hI.ex, ?_⟩ (by simp [hi, Item.shape])
          (by simp [hj, Item.target]) ?_
        · exact lblOk_append hI.lbl (fun l hl => by simp at hl; subst hl; exact Or.inl rfl)
        · intro hne
          obtain ⟨l, hl, hls⟩ := hn (by simpa [Item.target] using hne)
          exact ⟨l, by simp [hl], hls⟩
    | M d0 mid dl =>
      obtain ⟨hd0, hdl, hmid, hokr⟩ := hok
      have hsuf := prod_suffix_ge2 hmid hdl
      have g1 : (shapeOf items)[st.i]? = some d0 := by rw [hs, hi]; simp [Item.shape]
      have g2 : (targetOf items)[st.j]? = some (d0 * prod (mid ++ [dl])) := by
        rw [hs, hj]; simp [Item.target, prod]
      have g3 := nones_getElem? (shapeOf items) _ (List.getElem?_eq_some_iff.mp g1).1
      have hlt2 : d0 < d0 * prod (mid ++ [dl]) :=
        calc d0 = d0 * 1 := by omega
          _ < d0 * prod (mid ++ [dl]) := Nat.mul_lt_mul_of_pos_left (by omega) (by omega)
      have c1 : Nat.beq d0 (d0 * prod (mid ++ [dl])) = false := nat_beq_false (by omega)
      have c2 : Nat.beq d0 1 = false := nat_beq_false (by omega)
      have c3 : Nat.beq (d0 * prod (mid ++ [dl])) 1 = false := nat_beq_false (by omega)
      have c4 : Nat.blt d0 (d0 * prod (mid ++ [dl])) = true := by simp [Nat.blt]; omega
      have hwin : ((shapeOf items).drop (st.i + 1)).take (mid.length + 1) = mid ++ [dl] := by
        rw [hs, hi]
        have : shapeOf (pre ++ Item.M d0 mid dl :: rest)
            = (shapeOf pre ++ [d0]) ++ ((mid ++ [dl]) ++ shapeOf rest) := by simp [Item.shape]
        rw [this, List.drop_left' (by simp), List.take_left' (by simp)]
      have hfuel : mid.length + 2 ≤ (shapeOf items).length + 1 := by
        rw [hs]; simp [Item.shape]; omega
      have hscan := fuseScan_run2 (shapeOf items) (d0 * prod (mid ++ [dl])) (Lbl.g st.fuseSizes.length) dl hdl
        mid ((shapeOf items).length + 1) d0 (st.i + 1) 1 (st.term ++ [Lbl.g st.fuseSizes.length])
        hmid (by omega) rfl hwin hfuel
      simp only [mainLoop, g1, g2, g3, unfuseMatch, c1, c2, c3, c4, Bool.false_eq_true, if_false,
        if_true, hscan, Nat.beq_refl, Bool.not_true]
      refine ih (pre ++ [Item.M d0 mid dl]) f _ hs' hokr hlen ⟨hI.us, hI.ex, ?_⟩
        (by simp [hi, Item.shape]; omega) (by simp [hj, Item.target])
        (fun _ => ⟨Lbl.g st.fuseSizes.length, by simp, rfl⟩)
      have hold : LblOk (st.fuseSizes ++ [1 + (mid.length + 1)]) st.term := lblOk_len hI.lbl (by simp)
      refine lblOk_append (lblOk_append hold ?_) ?_
      · intro l hl; simp at hl; subst hl; exact Or.inr (Or.inr ⟨_, rfl, by simp⟩)
      · intro l hl; rw [(List.mem_replicate.mp hl).2]; exact Or.inr (Or.inr ⟨_, rfl, by simp⟩)

/-- **planner totality** for merge / squeeze targets, with: no unfuse step, no expansion -/
theorem planner_items_total (items : List Item) (hok : ItemsOk items) (hne : targetOf items ≠ []) :
    ∃ t, calcReshapeArgs (shapeOf items) (targetOf items) (nones (shapeOf items)) = .ok t
      ∧ t.1 = [] ∧ t.2.2 = [] := by
  obtain ⟨st, hmain, hI, hj, hns⟩ := mainLoop_items items items [] ((shapeOf items).length + (targetOf items).length)
    {} rfl hok (by
      have : items.length ≤ (shapeOf items).length := by
        clear hok hne
        induction items with
        | nil => simp [shapeOf]
        | cons a r ih => cases a <;> simp [Item.shape] <;> omega
      omega) ⟨rfl, rfl, fun l hl => by simp at hl⟩ rfl rfl (fun h => absurd rfl h)
  have hg1 : AllGe2 st.fuseSizes := mainLoop_ge2 _ _ _ _ _ _ (by intro v hv; simp at hv) hmain
  obtain ⟨l0, hl0, hl0s⟩ := hns hne
  have hterm : LblOk st.fuseSizes (st.term ++ List.replicate ((shapeOf items).length - st.i) Lbl.s) :=
    lblOk_append hI.lbl (fun l hl => by rw [(List.mem_replicate.mp hl).2]; exact Or.inl rfl)
  have hq : ∃ (q : Nat) (l : Lbl), (st.term ++ List.replicate ((shapeOf items).length - st.i) Lbl.s)[q]? = some l
      ∧ l.isS = false := by
    obtain ⟨q, hq⟩ := List.getElem?_of_mem hl0
    exact ⟨q, l0, by rw [List.getElem?_append_left (List.getElem?_eq_some_iff.mp hq).1]; exact hq, hl0s⟩
  unfold calcReshapeArgs
  rw [hmain]
  simp only [hI.us, hI.ex, hj, Nat.sub_self, List.replicate_zero, List.append_nil, unfusePhase, pure,
    Except.pure, List.reverse_nil]
  -- squeeze phase
  have hsq : ∃ r, (if (st.anySingleton || Nat.blt 0 ((shapeOf items).length - st.i)) = true then
        squeezePhase (st.term ++ List.replicate ((shapeOf items).length - st.i) Lbl.s) st.fuseSizes
      else Except.ok (st.term ++ List.replicate ((shapeOf items).length - st.i) Lbl.s, st.fuseSizes)) = .ok r
      ∧ AllGe2 r.2 := by
    split
    · obtain ⟨r, hr⟩ := squeezePhase_succ _ _ hterm hq
      exact ⟨r, hr, squeezePhase_ge2 _ _ _ hg1 hr⟩
    · exact ⟨_, rfl, hg1⟩
  obtain ⟨⟨term3, fs3⟩, hr, hg3⟩ := hsq
  rw [hr]
  simp only []
  -- fuse phase
  have hfu : ∃ r, (if (st.anyFused || (st.anySingleton || Nat.blt 0 ((shapeOf items).length - st.i))) = true then
        fuseLoop fs3 (2 * term3.length + 2) 0 term3 [] [] else Except.ok []) = .ok r := by
    split
    · exact fuseLoop_succ fs3 (fun v hv => by have := hg3 v hv; omega) _ 0 term3 [] [] (by simp)
    · exact ⟨_, rfl⟩
  obtain ⟨axsF, hF⟩ := hfu
  rw [hF]
  exact ⟨_, rfl, rfl, rfl⟩

end SymmModel.Reshape5
