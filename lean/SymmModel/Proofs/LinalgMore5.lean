/-
  SymmModel.Proofs.LinalgMore5 — the truncation error identity of C13:
  ‖b − u[:, :c] · diag(s[:c]) · vh[:c, :]‖² = Σ_{t ≥ c} |s[t]|²  (finite-sum algebra in a
  commutative ring with a conjugation), per block and for the model's truncated factors.
-/
import SymmModel.Proofs.LinalgMore4
import Mathlib.Algebra.BigOperators.Ring.Finset
import Mathlib.Algebra.BigOperators.Intervals

namespace SymmModel
namespace LinalgLemmas

open Finset

variable {R : Type}

/-! ### pure algebra -/

/-- one contraction step: `Σ_j conj(Σ_t A t · C t j) · (Σ_t' A t' · C t' j) = Σ_t conj(A t) · A t`
    when the rows `C t ·` (`t ∈ T`) are orthonormal -/
theorem ortho_contract [CommRing R] (conj : R →+* R) (n : ℕ) (T : Finset ℕ) (A : ℕ → R)
    (C : ℕ → ℕ → R)
    (hC : ∀ t ∈ T, ∀ t' ∈ T, ∑ j ∈ range n, conj (C t j) * C t' j = if t = t' then 1 else 0) :
    ∑ j ∈ range n, conj (∑ t ∈ T, A t * C t j) * (∑ t' ∈ T, A t' * C t' j)
      = ∑ t ∈ T, conj (A t) * A t := by
  calc ∑ j ∈ range n, conj (∑ t ∈ T, A t * C t j) * (∑ t' ∈ T, A t' * C t' j)
      = ∑ j ∈ range n, ∑ t ∈ T, ∑ t' ∈ T, (conj (A t) * conj (C t j)) * (A t' * C t' j) := by
        apply sum_congr rfl
        intro j _
        rw [map_sum, sum_mul_sum]
        apply sum_congr rfl
        intro t _
        apply sum_congr rfl
        intro t' _
        rw [map_mul]
    _ = ∑ t ∈ T, ∑ t' ∈ T, ∑ j ∈ range n, (conj (A t) * conj (C t j)) * (A t' * C t' j) := by
        rw [sum_comm]
        apply sum_congr rfl
        intro t _
        rw [sum_comm]
    _ = ∑ t ∈ T, ∑ t' ∈ T, (conj (A t) * A t') * (∑ j ∈ range n, conj (C t j) * C t' j) := by
        apply sum_congr rfl
        intro t _
        apply sum_congr rfl
        intro t' _
        rw [mul_sum]
        apply sum_congr rfl
        intro j _
        ring
    _ = ∑ t ∈ T, ∑ t' ∈ T, (if t = t' then conj (A t) * A t' else 0) := by
        apply sum_congr rfl
        intro t ht
        apply sum_congr rfl
        intro t' ht'
        rw [hC t ht t' ht']
        split <;> simp
    _ = ∑ t ∈ T, conj (A t) * A t := by
        apply sum_congr rfl
        intro t ht
        rw [sum_ite_eq, if_pos ht]

/-- **tail identity**: the squared norm of `Σ_{t ∈ T} s_t · u_t ⊗ vh_t` with orthonormal `u_t`
    (columns) and `vh_t` (rows) is `Σ_{t ∈ T} conj(s_t) · s_t` -/
theorem tail_normSq [CommRing R] (conj : R →+* R) (m n : ℕ) (T : Finset ℕ) (u : ℕ → ℕ → R)
    (s : ℕ → R) (vh : ℕ → ℕ → R)
    (hu : ∀ t ∈ T, ∀ t' ∈ T, ∑ i ∈ range m, conj (u i t) * u i t' = if t = t' then 1 else 0)
    (hv : ∀ t ∈ T, ∀ t' ∈ T, ∑ j ∈ range n, conj (vh t j) * vh t' j = if t = t' then 1 else 0) :
    ∑ i ∈ range m, ∑ j ∈ range n,
        conj (∑ t ∈ T, (u i t * s t) * vh t j) * (∑ t' ∈ T, (u i t' * s t') * vh t' j)
      = ∑ t ∈ T, conj (s t) * s t := by
  calc ∑ i ∈ range m, ∑ j ∈ range n,
        conj (∑ t ∈ T, (u i t * s t) * vh t j) * (∑ t' ∈ T, (u i t' * s t') * vh t' j)
      = ∑ i ∈ range m, ∑ t ∈ T, conj (u i t * s t) * (u i t * s t) := by
        apply sum_congr rfl
        intro i _
        exact ortho_contract conj n T (fun t => u i t * s t) vh hv
    _ = ∑ t ∈ T, ∑ i ∈ range m, conj (u i t * s t) * (u i t * s t) := sum_comm
    _ = ∑ t ∈ T, (conj (s t) * s t) * (∑ i ∈ range m, conj (u i t) * u i t) := by
        apply sum_congr rfl
        intro t _
        rw [mul_sum]
        apply sum_congr rfl
        intro i _
        rw [map_mul]; ring
    _ = ∑ t ∈ T, conj (s t) * s t := by
        apply sum_congr rfl
        intro t ht
        rw [hu t ht t ht, if_pos rfl, mul_one]

theorem foldl_eq_sum [AddCommMonoid R] (f : ℕ → R) (k : ℕ) :
    (List.range k).foldl (fun acc t => acc + f t) 0 = ∑ t ∈ range k, f t := by
  induction k with
  | zero => simp
  | succ k ih => rw [List.range_succ, List.foldl_append, ih, sum_range_succ]; rfl

/-! ### per block -/

theorem sliceK00_get [Zero R] (b : Blk R) {m c i t : Nat} (hi : i < m) (ht : t < c) :
    (b.sliceK [0, 0] [m, c]).get [i, t] = b.get [i, t] := by
  unfold Blk.sliceK
  rw [ofFn_get _ _ ((inBox_pair m c i t).mpr ⟨hi, ht⟩)]
  simp

theorem sliceK0_get [Zero R] (b : Blk R) {c t : Nat} (ht : t < c) :
    (b.sliceK [0] [c]).get [t] = b.get [t] := by
  unfold Blk.sliceK
  rw [ofFn_get _ _ ((inBox_single c t).mpr ht)]
  simp

end LinalgLemmas

/-- orthonormality of the svd factors of ONE block `b` (`m × n`, `k = min m n`): the columns of
    `u` and the rows of `vh` are orthonormal w.r.t. the conjugation `conj`.  A hypothesis on the
    blocks of the call (no kernel over an exact scalar type achieves it for every block). -/
def Kernels.OrthoBlock [CommRing R] (conj : R →+* R) (K : Kernels R) (b : Blk R) : Prop :=
  ∀ m n, b.shape = [m, n] → ∀ t t', t < min m n → t' < min m n →
    (List.range m).foldl
        (fun acc i => acc + conj ((K.svd b).1.get [i, t]) * (K.svd b).1.get [i, t']) 0
      = (if t = t' then 1 else 0)
    ∧ (List.range n).foldl
        (fun acc j => acc + conj ((K.svd b).2.2.get [t, j]) * (K.svd b).2.2.get [t', j]) 0
      = (if t = t' then 1 else 0)

namespace LinalgLemmas
open Finset

/-- the `(i, j)` entry of `u[:, :c] · diag(s[:c]) · vh[:c, :]` for the kernel's factors of `b` -/
theorem trunc_entry [CommRing R] {K : Kernels R} {b : Blk R} {m n : Nat}
    {c : Nat} {i j : Nat} (hi : i < m) (hj : j < n) :
    ((((K.svd b).1.sliceK [0, 0] [m, c]).mulAxisK ((K.svd b).2.1.sliceK [0] [c]) 1).tensordotK
        ((K.svd b).2.2.sliceK [0, 0] [c, n]) [1] [0]).get [i, j]
      = ∑ t ∈ range c, ((K.svd b).1.get [i, t] * (K.svd b).2.1.get [t]) * (K.svd b).2.2.get [t, j] := by
  rw [tensordotK_matmul_get _ _ (by rw [mulAxisK_shape]; rfl) (by rfl) hi hj, ← foldl_eq_sum]
  apply foldl_ext'
  intro acc t ht
  have ht' := List.mem_range.mp ht
  rw [mulAxisK_get _ _ (by rfl) hi ht', sliceK00_get _ hi ht', sliceK0_get _ ht',
    sliceK00_get _ ht' hj]

/-- **truncation error, per block.** -/
theorem truncation_error_block [CommRing R] (conj : R →+* R) {K : Kernels R}
    (hC : K.SVDContract) {b : Blk R} {m n : Nat} (hs : b.shape = [m, n]) (hwf : b.wf = true)
    (hO : K.OrthoBlock conj b) {c : Nat} (hc : c ≤ min m n)
    (P : Nat → Nat → R)
    (hP : ∀ i j, i < m → j < n → P i j
      = ∑ t ∈ range c, ((K.svd b).1.get [i, t] * (K.svd b).2.1.get [t]) * (K.svd b).2.2.get [t, j]) :
    ∑ i ∈ range m, ∑ j ∈ range n,
        conj (b.get [i, j] - P i j) * (b.get [i, j] - P i j)
      = ∑ t ∈ Ico c (min m n), conj ((K.svd b).2.1.get [t]) * (K.svd b).2.1.get [t] := by
  have hdiff : ∀ i ∈ range m, ∀ j ∈ range n, b.get [i, j] - P i j
      = ∑ t ∈ Ico c (min m n),
          ((K.svd b).1.get [i, t] * (K.svd b).2.1.get [t]) * (K.svd b).2.2.get [t, j] := by
    intro i hi j hj
    have hi' := mem_range.mp hi
    have hj' := mem_range.mp hj
    rw [sum_Ico_eq_sub _ hc, ← foldl_eq_sum, hC b m n hs hwf i j hi' hj', hP i j hi' hj']
  rw [← tail_normSq conj m n (Ico c (min m n)) (fun i t => (K.svd b).1.get [i, t])
    (fun t => (K.svd b).2.1.get [t]) (fun t j => (K.svd b).2.2.get [t, j])]
  · apply sum_congr rfl
    intro i hi
    apply sum_congr rfl
    intro j hj
    rw [hdiff i hi j hj]
  · intro t ht t' ht'
    rw [← foldl_eq_sum]
    exact (hO m n hs t t' (mem_Ico.mp ht).2 (mem_Ico.mp ht').2).1
  · intro t ht t' ht'
    rw [← foldl_eq_sum]
    exact (hO m n hs t t' (mem_Ico.mp ht).2 (mem_Ico.mp ht').2).2

/-! ### for the model's truncated factors -/

/-- **truncation error, per kept sector of the truncated decomposition.**  `x` a valid matrix,
    `counts` aligned with its blocks; `t = ((sec, b), c)` a kept block (`c ≠ 0`).  The product of
    the truncated factors (`s` absorbed to the left) differs from `x` on that sector by an array
    whose squared norm is the discarded squared weight `Σ_{c ≤ t' < min m n} |s[t']|²`. -/
theorem truncation_error_kept [CommRing R] (conj : R →+* R) {K : Kernels R} (hK : K.ShapeOk)
    (hC : K.SVDContract) {x : Arr R} (hv : x.validB = true) (h2 : x.ndim = 2)
    {counts : List Nat} (hlen : counts.length = x.blocks.length)
    {t : (Sector × Blk R) × Nat} (ht : t ∈ kept x counts) {m n : Nat}
    (hs : t.1.2.shape = [m, n]) (hO : K.OrthoBlock conj t.1.2) (hc : t.2 ≤ min m n) :
    let U' := truncU x (fun b => (K.svd b).1) counts
    let S' := truncS x (fun b => (K.svd b).2.1) counts
    let V' := truncV x (fun b => (K.svd b).1) (fun b => (K.svd b).2.2) counts
    let P := tensordotBlockwise (absorbA .left id U' S' V').1 (absorbA .left id U' S' V').2
      [0] [1] [0] [1]
    ∑ i ∈ range m, ∑ j ∈ range n,
        conj (x.elem t.1.1 [i, j] - P.elem t.1.1 [i, j])
          * (x.elem t.1.1 [i, j] - P.elem t.1.1 [i, j])
      = ∑ t' ∈ Ico t.2 (min m n), conj ((K.svd t.1.2).2.1.get [t']) * (K.svd t.1.2).2.1.get [t'] := by
  intro U' S' V' P
  obtain ⟨hb, _, _⟩ := kept_mem hlen ht
  have hwf : t.1.2.wf = true := (((validB_iff x).mp hv).2.2.2.1 t.1.1 t.1.2 hb).2.2.2
  have hA := aligned_trunc (K := K) hv h2 hlen
  have hsh := trunc_itemShape hK hv h2 hlen
  obtain ⟨_, _, p3⟩ := absorb_product hA id
    (fun t => (t.1.2.shape.getD 0 0, t.2, t.1.2.shape.getD 1 0)) hsh .left
    (fun h => by cases h)
  have hUph : (truncU x (fun b => (K.svd b).1) counts).phases = x.phases := rfl
  have hxe : ∀ i j, x.elem t.1.1 [i, j]
      = if alookup x.phases t.1.1 == some (-1) then - t.1.2.get [i, j] else t.1.2.get [i, j] :=
    fun i j => elem_of_mem (sectors_nodup hv) hb [i, j]
  -- the unsigned entries
  have hkey := truncation_error_block conj hC hs hwf hO hc
    (fun i j => ∑ t' ∈ range t.2,
      ((K.svd t.1.2).1.get [i, t'] * (K.svd t.1.2).2.1.get [t']) * (K.svd t.1.2).2.2.get [t', j])
    (fun i j _ _ => rfl)
  rw [← hkey]
  apply sum_congr rfl
  intro i hi
  apply sum_congr rfl
  intro j hj
  have hi' := mem_range.mp hi
  have hj' := mem_range.mp hj
  have hp := p3 t ht i j (by simpa [hs] using hi') (by simpa [hs] using hj')
  have hsum : (List.range t.2).foldl (fun acc t' => acc +
        ((((K.svd t.1.2).1).sliceK [0, 0] [((K.svd t.1.2).1).shape.getD 0 0, t.2]).get [i, t']
          * (((K.svd t.1.2).2.1).sliceK [0] [t.2]).get [t'])
        * (((K.svd t.1.2).2.2).sliceK [0, 0] [t.2, ((K.svd t.1.2).2.2).shape.getD 1 0]).get [t', j]) 0
      = ∑ t' ∈ range t.2,
        ((K.svd t.1.2).1.get [i, t'] * (K.svd t.1.2).2.1.get [t']) * (K.svd t.1.2).2.2.get [t', j] := by
    obtain ⟨a1, _, _, _, a5, _⟩ := hK.svd t.1.2 m n hs hwf
    rw [← foldl_eq_sum]
    apply foldl_ext'
    intro acc t' ht'
    have ht'' := List.mem_range.mp ht'
    rw [a1, a5]
    simp only [List.getD_cons_zero, List.getD_cons_succ]
    rw [sliceK00_get _ hi' ht'', sliceK0_get _ ht'', sliceK00_get _ ht'' hj']
  simp only at hp
  rw [hp, hsum, hUph, hxe]
  split
  · rw [← neg_sub', map_neg]; ring
  · rfl

end LinalgLemmas
end SymmModel
