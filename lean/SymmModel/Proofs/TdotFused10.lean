/-
  SymmModel.Proofs.TdotFused10 — the block SHAPES of the fused strategy's result: every stored
  block has the shape the operands' index tables give for its sector key (so "the box of the
  result's own block" = "the table box").  Namespace `SymmModel.TdotP`.
-/
import SymmModel.Proofs.TdotFused9

namespace SymmModel
namespace TdotP
variable {R : Type}

/-! ### weakening the index tables -/

/-- `ix` is a pruning of `ix'`: same direction, and `ix'` knows every charge size `ix` knows -/
def SizeLe (ix ix' : Index) : Prop :=
  ix.dual = ix'.dual ∧ ∀ c d, ix.sizeOf? c = some d → ix'.sizeOf? c = some d

theorem SizeLe.refl (ix : Index) : SizeLe ix ix := ⟨rfl, fun _ _ h => h⟩

theorem SizeLe.trans {i j k : Index} (h1 : SizeLe i j) (h2 : SizeLe j k) : SizeLe i k :=
  ⟨h1.1.trans h2.1, fun c d h => h2.2 c d (h1.2 c d h)⟩

theorem dropTo_sizeLe (ix : Index) (S : List Charge) : SizeLe (dropTo ix S) ix := by
  refine ⟨dropTo_dual ix S, ?_⟩
  intro c d h
  simp only [Index.sizeOf?, dropTo_cm] at h ⊢
  rw [alookup_filter_key ix.cm (fun k => S.contains k) c] at h
  split at h
  · exact h
  · cases h

theorem forall₂_refl {α : Type} {r : α → α → Prop} (hr : ∀ x, r x x) (l : List α) :
    List.Forall₂ r l l := by
  induction l with
  | nil => exact .nil
  | cons x xs ih => exact .cons (hr x) ih

theorem forall₂_trans {α : Type} {r : α → α → Prop} (ht : ∀ x y z, r x y → r y z → r x z) :
    ∀ {l1 l2 l3 : List α}, List.Forall₂ r l1 l2 → List.Forall₂ r l2 l3 → List.Forall₂ r l1 l3
  | _, _, _, .nil, .nil => .nil
  | _, _, _, .cons h1 t1, .cons h2 t2 => .cons (ht _ _ _ h1 h2) (forall₂_trans ht t1 t2)

theorem forall₂_append {α β : Type} {r : α → β → Prop} {l1 l2 : List α} {m1 m2 : List β}
    (h1 : List.Forall₂ r l1 m1) (h2 : List.Forall₂ r l2 m2) : List.Forall₂ r (l1 ++ l2) (m1 ++ m2) := by
  induction h1 with
  | nil => exact h2
  | cons hx _ ih => exact .cons hx ih

theorem blockShape?_weaken {idx idx' : List Index} (h : List.Forall₂ SizeLe idx idx') :
    ∀ (s : Sector) (shp : List Nat), Arr.blockShape? idx s = some shp →
      Arr.blockShape? idx' s = some shp := by
  induction h with
  | nil => intro s shp hs; exact hs
  | @cons ix ix' idx idx' hx _ ih =>
    intro s shp hs
    cases s with
    | nil =>
      have := (blockShape?_length hs).1
      simp at this
    | cons c s =>
      rw [Arr.blockShape?_cons] at hs ⊢
      cases hz : ix.sizeOf? c with
      | none => rw [hz] at hs; cases hs
      | some d =>
        rw [hz] at hs
        rw [hx.2 c d hz]
        simp only [Option.bind_some] at hs ⊢
        cases hr : Arr.blockShape? idx s with
        | none => rw [hr] at hs; cases hs
        | some t =>
          rw [hr] at hs
          rw [ih s t hr]
          exact hs

/-! ### the indices after the two optional `unfuse` steps -/

/-- one leg of the result: the sub-indices of the fused index, or the (pruned) single index -/
theorem leg_sizeLe {A : Arr R} {G : List (List Nat)} {g : Nat} {gaxes : List Nat}
    (hok : FuseP.GroupsOk G A.ndim) (hg : G[g]? = some gaxes) (S : List Charge) :
    List.Forall₂ SizeLe
      (if (gaxes.length != 1) = true then
          ((dropTo (FuseP.ixM A G g) S).sub.map (·.1)).getD []
        else [dropTo (FuseP.ixM A G g) S])
      (permuted A.indices gaxes) := by
  have hlt : ∀ x ∈ gaxes, x < A.indices.length := FuseP.groupM_lt hok hg
  by_cases hm : (gaxes.length != 1) = true
  · rw [if_pos hm, dropTo_sub _ _ (FuseP.ixM_sub hok hg (by simpa using hm))]
    simp only [Option.map_some, Option.getD_some]
    rw [permuted_eq_map _ _ hlt default]
    exact forall₂_refl SizeLe.refl _
  · rw [if_neg hm]
    have hl : gaxes.length = 1 := by simpa using hm
    rw [FuseP.ixM_single hok hg hl, permuted_eq_map _ _ hlt default]
    match gaxes, hl with
    | [x], _ => exact .cons (dropTo_sizeLe _ _) .nil

/-- **index tables after the tail of the fused strategy**: the indices of the unfused product are
    prunings (same directions) of the free legs of the two operands -/
theorem FusedCtx.tail_frame [AddCommMonoid R] [Mul R] [Neg R] {A B : Arr R} {xa xb : List Nat}
    (h : FusedCtx A B xa xb) (c : Arr R)
    (hc : unfuseTail (cfOf A B xa xb) ((freeAxes A.ndim xa).length != 1)
          ((freeAxes B.ndim xb).length != 1) = .ok c) :
    List.Forall₂ SizeLe c.indices
      (permuted A.indices (freeAxes A.ndim xa) ++ permuted B.indices (freeAxes B.ndim xb)) := by
  have hokA := h.pairA.groupsOk
  have hokB := h.pairB.groupsOk
  have gA0 : ([freeAxes A.ndim xa, xa] : List (List Nat))[0]? = some (freeAxes A.ndim xa) := rfl
  have gB1 : ([xb, freeAxes B.ndim xb] : List (List Nat))[1]? = some (freeAxes B.ndim xb) := rfl
  have hvcf := h.cf_validB
  obtain ⟨k1, k2, k3, k4, k5⟩ := cf_fields A B xa xb
  have hfcf : (cfOf A B xa xb).fermi = false := k2.trans h.fA
  have hidx := h.cf_indices
  generalize hS0 : (cfOf A B xa xb).sectors.filterMap (fun s => s[0]?) = S0 at hidx
  generalize hS1 : (cfOf A B xa xb).sectors.filterMap (fun s => s[1]?) = S1 at hidx
  have hix1 : (cfOf A B xa xb).indices[1]? = some (dropTo (FuseP.ixM B [xb, freeAxes B.ndim xb] 1) S1) := by
    rw [hidx]; rfl
  have hm1 : ((freeAxes B.ndim xb).length != 1) = true →
      (dropTo (FuseP.ixM B [xb, freeAxes B.ndim xb] 1) S1).sub.isSome = true := by
    intro hm
    rw [dropTo_sub _ _ (FuseP.ixM_sub hokB gB1 (by simpa using hm))]; rfl
  obtain ⟨y, hy_ok, hyv, hyf, _, _, _, _, hyidx, _, _⟩ :=
    stage (cfOf A B xa xb) 1 ((freeAxes B.ndim xb).length != 1) _ hvcf hfcf hix1 hm1
  have hix0 : y.indices[0]? = some (dropTo (FuseP.ixM A [freeAxes A.ndim xa, xa] 0) S0) := by
    rw [hyidx, hidx]
    simp only [List.take_succ_cons, List.take_zero, List.cons_append, List.nil_append,
      List.getElem?_cons_zero]
  have hm0 : ((freeAxes A.ndim xa).length != 1) = true →
      (dropTo (FuseP.ixM A [freeAxes A.ndim xa, xa] 0) S0).sub.isSome = true := by
    intro hm
    rw [dropTo_sub _ _ (FuseP.ixM_sub hokA gA0 (by simpa using hm))]; rfl
  obtain ⟨c', hc_ok, hcv, _, _, _, _, _, hcidx, _, _⟩ :=
    stage y 0 ((freeAxes A.ndim xa).length != 1) _ hyv hyf hix0 hm0
  have hcc : c' = c := by
    unfold unfuseTail at hc
    rw [hy_ok] at hc
    have : (Except.ok c' : Except Err (Arr R)) = .ok c := hc_ok.symm.trans hc
    exact Except.ok.inj this
  subst hcc
  have hci : c'.indices =
      (if ((freeAxes A.ndim xa).length != 1) = true then
          ((dropTo (FuseP.ixM A [freeAxes A.ndim xa, xa] 0) S0).sub.map (·.1)).getD []
        else [dropTo (FuseP.ixM A [freeAxes A.ndim xa, xa] 0) S0]) ++
      (if ((freeAxes B.ndim xb).length != 1) = true then
          ((dropTo (FuseP.ixM B [xb, freeAxes B.ndim xb] 1) S1).sub.map (·.1)).getD []
        else [dropTo (FuseP.ixM B [xb, freeAxes B.ndim xb] 1) S1]) := by
    rw [hcidx, hyidx, hidx]
    simp only [List.take_succ_cons, List.take_zero, List.drop_succ_cons, List.drop_zero, List.drop_nil,
      List.nil_append, List.append_nil, List.cons_append]
  rw [hci]
  exact forall₂_append (leg_sizeLe hokA gA0 S0) (leg_sizeLe hokB gB1 S1)

theorem permuted_dropUnused_sizeLe (idx : List Index) (S : List Sector) (p : List Nat)
    (hp : ∀ x ∈ p, x < idx.length) :
    List.Forall₂ SizeLe (permuted (dropUnused idx S) p) (permuted idx p) := by
  rw [permuted_eq_map _ _ (by rw [dropUnused_length]; exact hp) default, permuted_eq_map _ _ hp default]
  induction p with
  | nil => exact .nil
  | cons x xs ih =>
    refine .cons ?_ (ih (fun y hy => hp y (List.mem_cons_of_mem _ hy)))
    show SizeLe ((dropUnused idx S).getD x default) (idx.getD x default)
    rw [dropUnused_getD _ _ (hp x List.mem_cons_self)]
    exact dropTo_sizeLe _ _

theorem dropUnused_sizeLe (idx : List Index) (S : List Sector) :
    List.Forall₂ SizeLe (dropUnused idx S) idx := by
  have := permuted_dropUnused_sizeLe idx S (List.range idx.length) (fun x hx => List.mem_range.mp hx)
  rw [permuted_range] at this
  have e : permuted (dropUnused idx S) (List.range idx.length) = dropUnused idx S := by
    have := permuted_range (dropUnused idx S)
    rwa [dropUnused_length] at this
  rwa [e] at this

end TdotP
end SymmModel
