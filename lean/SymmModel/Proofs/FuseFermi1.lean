/-
  SymmModel.Proofs.FuseFermi1 — fermionic fuse, structure: under the guard (no empty group)
  `fuseF a groups` is `fuseCore` of the sign-adjusted, synchronised, transposed array over the
  positions the groups have after the transposition.
-/
import SymmModel.Proofs.FuseMultiAll
import SymmModel.Model.Fermi
namespace SymmModel
namespace FuseP
set_option linter.unusedSectionVars false

variable {R : Type}

/-- positions of the grouped axes after the transposition by `perm` -/
def newGroupsF (groups : List (List Nat)) (duals : List Bool) : List (List Nat) :=
  groups.map (fun g => g.map (fun ax => ((indexOf? (calcFuseGroupInfo groups duals).perm ax).getD 0)))

/-- the groups (in transposed positions) whose first axis is dual -/
def dualGroupsF [Zero R] (a : Arr R) (groups : List (List Nat)) : List (List Nat) :=
  (newGroupsF groups a.duals).filter (fun g =>
    ((a.transposeF (calcFuseGroupInfo groups a.duals).perm).indices.getD (g.headD 0) default).dual)

/-- the non-dual legs of the dual groups -/
def axesFlipF [Zero R] (a : Arr R) (groups : List (List Nat)) : List Nat :=
  (dualGroupsF a groups).flatMap (fun g => g.filter (fun ax =>
    !((a.transposeF (calcFuseGroupInfo groups a.duals).perm).indices.getD ax default).dual))

/-- the virtual permutation reversing every dual group -/
def vpermF [Zero R] (a : Arr R) (groups : List (List Nat)) : List Nat :=
  (List.range ((a.transposeF (calcFuseGroupInfo groups a.duals).perm).phaseFlip (axesFlipF a groups)).ndim).map
    (fun ax =>
      match (dualGroupsF a groups).find? (fun g => g.contains ax) with
      | some g => match indexOf? g ax with
                  | some k => g.reverse.getD k ax
                  | none => ax
      | none => ax)

/-- the operand of `_fuse_core` inside `FermionicArray.fuse` -/
def signAdj [Zero R] [Neg R] (a : Arr R) (groups : List (List Nat)) : Arr R :=
  (if (dualGroupsF a groups).isEmpty then
      (a.transposeF (calcFuseGroupInfo groups a.duals).perm).phaseFlip (axesFlipF a groups)
    else ((a.transposeF (calcFuseGroupInfo groups a.duals).perm).phaseFlip (axesFlipF a groups)).phaseTranspose
      (some (vpermF a groups))).phaseSync

theorem filter_nonempty_self {groups : List (List Nat)} {n : Nat} (hok : GroupsOk groups n) :
    groups.filter (fun g => !g.isEmpty) = groups := by
  rw [List.filter_eq_self]
  intro g hg
  have := hok.gne g hg
  cases g with
  | nil => exact absurd rfl this
  | cons x xs => rfl

theorem expand_nil {groups : List (List Nat)} {n : Nat} (hok : GroupsOk groups n) :
    (groups.zipIdx.filter (fun p => p.1.isEmpty)).map (·.2) = [] := by
  rw [List.map_eq_nil_iff, List.filter_eq_nil_iff]
  intro p hp
  have hm := List.mem_zipIdx hp
  have : p.1 ∈ groups := by rw [hm.2.2]; exact List.getElem_mem _
  have := hok.gne p.1 this
  cases hp1 : p.1 with
  | nil => exact absurd hp1 this
  | cons x xs => simp

theorem fuseF_eq [Zero R] [Neg R] (a : Arr R) (groups : List (List Nat)) (mode : FuseMode) (e : Bool)
    (hok : GroupsOk groups a.ndim) :
    Arr.fuseF a groups mode e = fuseCore (signAdj a groups) (newGroupsF groups a.duals) mode := by
  have hok' : GroupsOk groups a.duals.length := by rw [duals_length]; exact hok
  have hne : groups.isEmpty = false := by
    cases hgr : groups with
    | nil => exact absurd hgr hok.ne
    | cons x xs => rfl
  unfold Arr.fuseF
  simp only [filter_nonempty_self hok, expand_nil hok, hne, Bool.false_eq_true, if_false, List.isEmpty_nil,
    Bool.not_true, Bool.and_false]
  have hmap : groups.mapM (fun g => g.mapM (fun ax =>
      match indexOf? (calcFuseGroupInfo groups a.duals).perm ax with
      | some k => (pure k : Except Err Nat)
      | none => throw Err.value)) = .ok (newGroupsF groups a.duals) := by
    apply mapM_ok_of_forall
    intro g hg
    apply mapM_ok_of_forall
    intro ax hax
    have hm : ax ∈ (calcFuseGroupInfo groups a.duals).perm := by
      rw [mem_perm hok']; exact hok'.lt ax (List.mem_flatten.2 ⟨g, hg, hax⟩)
    obtain ⟨k, hk, _⟩ := indexOf?_of_mem hm
    simp only [hk, Option.getD_some]; rfl
  erw [hmap]
  simp only [bind, Except.bind, pure, Except.pure]
  split
  · rename_i err heq
    rw [← heq]; rfl
  · rename_i v heq
    rw [← heq]; rfl

end FuseP
end SymmModel
