/-
  SymmModel.Proofs.DecompGram — the graded contraction `A · B` (axes `([1],[0])`) of two rank-2
  fermionic arrays whose stored sectors are `[u p, v p]` resp. `[v p, w p]` for the items `p` of a
  list (the contracted charge and the result key each determine the item): one sector pair per
  result key, its sign, and the sum it contributes.  With C03 (`@`, `tensordot` blockwise) and C06d
  (fused / auto) this evaluates `A @ B` and `tensordot(A, B, ([1],[0]), mode)` in one go.
  Namespace `SymmModel.DecompP`.  Nothing here changes a model definition.
-/
import SymmModel.Proofs.DecompTransfer

namespace SymmModel
namespace DecompP
set_option linter.unusedSectionVars false
open LinalgLemmas ReconP Recon2P TdotP GradedP RoutesP OddposP
open Lazy (sgnI)

variable {R : Type}

/-- `A`, `B` rank 2; `A` stores the sectors `[u p, v p]`, `B` the sectors `[v p, w p]` (`p ∈ l`);
    the contracted charge `v p` and the result key `[u p, w p]` each determine `p` -/
structure GramPair (A B : Arr R) {α : Type} (l : List α) (u v w : α → Charge) : Prop where
  nA : A.ndim = 2
  nB : B.ndim = 2
  sA : A.sectors = l.map (fun p => [u p, v p])
  sB : B.sectors = l.map (fun p => [v p, w p])
  hv : (l.map v).Nodup
  hk : (l.map (fun p => [u p, w p])).Nodup

section pairs
variable {A B : Arr R} {α : Type} {l : List α} {u v w : α → Charge}

open Classical in
/-- exactly one stored sector pair contributes to the result key of an item -/
theorem GramPair.storedPairs (G : GramPair A B l u v w) {p : α} (hp : p ∈ l) :
    storedPairs A B [0] [1] [0] [1] [u p, w p] = [([u p, v p], [v p, w p])] := by
  have hl : l.Nodup := List.Nodup.of_map _ G.hv
  unfold TdotP.storedPairs
  rw [G.sA, G.sB, List.flatMap_map]
  have hstep : l.flatMap (fun q =>
      ((l.map (fun r => [v r, w r])).filter (fun sb => permuted sb [0] == permuted [u q, v q] [1]
        && permuted [u q, v q] [0] ++ permuted sb [1] == [u p, w p])).map
          (fun sb => ([u q, v q], sb)))
      = l.flatMap (fun q => if q = p then [([u q, v q], [v q, w q])] else []) := by
    apply List.flatMap_congr
    intro q hq
    rw [List.filter_map]
    by_cases e : q = p
    · subst e
      rw [if_pos rfl]
      have hf : l.filter ((fun sb => permuted sb [0] == permuted [u q, v q] [1]
          && permuted [u q, v q] [0] ++ permuted sb [1] == [u q, w q]) ∘ (fun r => [v r, w r]))
          = [q] := by
        apply filter_key_eq_singleton l v G.hv hq
        intro r hr
        simp only [Function.comp]
        show ([v r] == [v q] && [u q, w r] == [u q, w q]) = true ↔ v r = v q
        constructor
        · intro h
          simp only [Bool.and_eq_true, beq_iff_eq] at h
          exact (List.cons.inj h.1).1
        · intro h
          have : r = q := List.inj_on_of_nodup_map G.hv hr hq h
          subst this
          simp
      rw [hf]; rfl
    · rw [if_neg e, List.map_eq_nil_iff, List.map_eq_nil_iff, List.filter_eq_nil_iff]
      intro r hr
      simp only [Function.comp]
      show ¬ (([v r] == [v q] && [u q, w r] == [u p, w p]) = true)
      intro h
      simp only [Bool.and_eq_true, beq_iff_eq] at h
      have h1 : v r = v q := (List.cons.inj h.1).1
      have : r = q := List.inj_on_of_nodup_map G.hv hr hq h1
      subst this
      exact e (List.inj_on_of_nodup_map G.hk hr hp h.2)
  rw [hstep, flatMap_pick l p (fun q => ([u q, v q], [v q, w q])) hl hp]

/-- no stored sector pair contributes to a key that is not the result key of an item -/
theorem GramPair.storedPairs_miss (G : GramPair A B l u v w) (s : Sector)
    (hs : ∀ p ∈ l, [u p, w p] ≠ s) : TdotP.storedPairs A B [0] [1] [0] [1] s = [] := by
  rw [List.eq_nil_iff_forall_not_mem]
  rintro ⟨sa, sb⟩ hmem
  obtain ⟨h1, h2, h3, h4⟩ := mem_storedPairs.mp hmem
  rw [G.sA] at h1
  rw [G.sB] at h2
  obtain ⟨p, hp, rfl⟩ := List.mem_map.mp h1
  obtain ⟨q, hq, rfl⟩ := List.mem_map.mp h2
  have e : v q = v p := (List.cons.inj (show [v q] = [v p] from h3)).1
  have : q = p := List.inj_on_of_nodup_map G.hv hq hp e
  subst this
  exact hs q hq h4

/-- the sign of the pair: `-1` iff the contracted leg of `A` is a ket and the contracted charge odd -/
theorem GramPair.gradedSign (G : GramPair A B l u v w) (a b b' c : Charge) :
    gradedSign A B [1] [0] [a, b] [b', c]
      = if !(A.indices.getD 1 default).dual && A.sym.parity b then -1 else 1 := by
  unfold GradedP.gradedSign
  rw [G.nA, G.nB]
  have f1 : freeAxes 2 [1] = [0] := by decide
  have f2 : freeAxes 2 [0] = [1] := by decide
  rw [f1, f2]
  have e01 : ([0] ++ [1] : List Nat) = List.range 2 := rfl
  rw [e01, KoszulP.koszul_id', KoszulP.koszul_id']
  have hoc : oddContracted A [1] [a, b] * (oddContracted A [1] [a, b] - 1) / 2 = 0 := by
    unfold oddContracted
    show (([b].filter A.sym.parity).length * (([b].filter A.sym.parity).length - 1)) / 2 = 0
    cases hp : A.sym.parity b <;> simp [hp]
  rw [hoc]
  unfold ketOdd
  simp only [List.filter_cons, List.filter_nil]
  show (1 : Int) * 1 * (-1) ^ 0 * (-1) ^ _ = _
  cases (A.indices.getD 1 default).dual <;> cases hp : A.sym.parity b <;> simp [hp]

end pairs

section value
variable [AddMonoid R] [Mul R] [Neg R] [SignRing R]
variable {A B : Arr R} {α : Type} {l : List α} {u v w : α → Charge}

/-- **the graded contraction at the result key of an item**: the signed sum over the contracted
    index of the products of the two value views -/
theorem GramPair.gradedContract (G : GramPair A B l u v w) {p : α} (hp : p ∈ l) (m k : Nat)
    (hsh : Arr.blockShapeD A.indices [u p, v p] = [m, k]) (t t' : Nat) :
    gradedContract A B [1] [0] [u p, w p] [t] [t']
      = sgnI (if !(A.indices.getD 1 default).dual && A.sym.parity (v p) then -1 else 1)
          (((List.range k).map (fun i =>
            A.elem [u p, v p] [t, i] * B.elem [v p, w p] [i, t'])).sum) := by
  unfold GradedP.gradedContract
  have f1 : freeAxes A.ndim [1] = [0] := by rw [G.nA]; decide
  have f2 : freeAxes B.ndim [0] = [1] := by rw [G.nB]; decide
  rw [f1, f2, G.storedPairs hp]
  simp only [List.map_cons, List.map_nil, List.sum_cons, List.sum_nil, add_zero]
  rw [G.gradedSign]
  congr 1
  unfold contractPair
  simp only [hsh]
  show ((allIdx [k]).map _).sum = _
  rw [Recon2P.allIdx_single, List.map_map]
  congr 1
  apply List.map_congr_left
  intro i _
  simp only [Function.comp, contractTerm]
  rw [f1, f2, G.nA, G.nB]
  rfl

/-- the graded contraction vanishes at every other key -/
theorem GramPair.gradedContract_miss (G : GramPair A B l u v w) (s : Sector)
    (hs : ∀ p ∈ l, [u p, w p] ≠ s) (oL oR : List Nat) :
    GradedP.gradedContract A B [1] [0] s oL oR = 0 := by
  unfold GradedP.gradedContract
  have f1 : freeAxes A.ndim [1] = [0] := by rw [G.nA]; decide
  have f2 : freeAxes B.ndim [0] = [1] := by rw [G.nB]; decide
  rw [f1, f2, G.storedPairs_miss s hs]
  rfl

end value

/-! ### `@` succeeds as soon as the labels merge -/

theorem matmulF_ok_of_merge [Zero R] [Add R] [Mul R] [Neg R] (A B : Arr R) (hA : A.ndim = 2)
    (j0 j1 : Index) (hB : B.indices = [j0, j1]) (r : List (Int × Bool) × Int)
    (hm : mergeOddpos A.parity A.oddpos B.oddpos = .ok r) : ∃ y, A.matmulF B = .ok y := by
  rw [matmulF_eq A B hA j0 j1 hB, resolveCombinedOddpos_eq]
  have h1 : A.phaseSync.parity = A.parity := rfl
  have h2 : A.phaseSync.oddpos = A.oddpos := rfl
  have h3 : (if j0.dual then B.phaseFlip [0] else B).phaseSync.oddpos = B.oddpos := by
    show (if j0.dual then B.phaseFlip [0] else B).oddpos = _
    split
    · exact (phaseFlip_fields B [0]).2.2.2.2.2
    · rfl
  rw [h1, h2, h3, hm]
  exact ⟨_, rfl⟩

section all
variable [AddCommMonoid R] [Mul R] [Neg R] [SignRing R]

/-- `A @ B` and `tensordot(A, B, ([1],[0]), mode)` (every mode) for admissible rank-2 fermionic
    operands whose labels merge: both succeed, carry the merged labels, and are the graded
    contraction times the label sign at every address `[t, t']` of the table box -/
theorem graded_matmul_and_tensordot (hz1 : ∀ x : R, 0 * x = 0) (hz2 : ∀ x : R, x * 0 = 0)
    (A B : Arr R) (hAdm : Adm A B [1] [0]) (hA : A.ndim = 2) (hB : B.ndim = 2)
    (out : List (Int × Bool)) (ph : Int)
    (hm : mergeOddpos A.parity A.oddpos B.oddpos = .ok (out, ph)) :
    (∃ y, A.matmulF B = .ok y ∧ y.oddpos = out ∧ y.charge = A.sym.combine [A.charge, B.charge]
      ∧ ∀ s t t', inBox (Arr.blockShapeD (without A.indices [1] ++ without B.indices [0]) s)
            [t, t'] = true →
          y.elem s [t, t'] = sgnI ph (gradedContract A B [1] [0] s [t] [t']))
    ∧ ∀ tm, ∃ c, A.tensordotF B (.pair [1] [0]) tm = .ok c ∧ c.oddpos = out
      ∧ c.charge = A.sym.combine [A.charge, B.charge]
      ∧ ∀ s t t', inBox (Arr.blockShapeD (without A.indices [1] ++ without B.indices [0]) s)
            [t, t'] = true →
          c.elem s [t, t'] = sgnI ph (gradedContract A B [1] [0] s [t] [t']) := by
  have hadm : ValidP.tdotAdmissibleB A B [1] [0] = true := by
    unfold ValidP.tdotAdmissibleB
    simp only [Bool.and_eq_true, decide_eq_true_eq, List.all_eq_true]
    exact ⟨⟨⟨⟨⟨hAdm.sym, hAdm.con⟩, allDistinct_iff_nodup.mpr hAdm.nA⟩,
      allDistinct_iff_nodup.mpr hAdm.nB⟩, hAdm.ltA⟩, hAdm.ltB⟩
  have hfree : (freeAxes A.ndim [1]).length = 1 := by rw [hA]; rfl
  constructor
  · obtain ⟨j0, j1, hBi⟩ := ndim_two hB
    obtain ⟨y, hy⟩ := matmulF_ok_of_merge A B hA j0 j1 hBi _ hm
    have hadm' : ValidP.tdotAdmissibleB A B [A.ndim - 1] [0] = true := by rw [hA]; exact hadm
    obtain ⟨out', ph', g1, g2, g3, g4⟩ := C03.matmulF_refines_graded A B y hAdm.va hAdm.vb hAdm.fa
      hAdm.fb (Or.inr hA) (Or.inr hB) hadm' hy
    rw [hm] at g1
    cases g1
    refine ⟨y, hy, g2, g3, ?_⟩
    intro s t t' hbox
    have := g4 s [t] [t'] (by rw [hA]; rfl) (by rw [hA]; exact hbox)
    rw [hA] at this
    exact this
  · intro tm
    obtain ⟨c, h1, h2, h3, h4⟩ := tensordotF_graded_all_modes hz1 hz2 A B [1] [0] hAdm out ph hm tm
    exact ⟨c, h1, h2, h3, fun s t t' hbox => h4 s [t] [t'] hfree.symm hbox⟩

end all

end DecompP
end SymmModel
