/-
  SymmModel.Proofs.Reshape4d — the exact round trip of `reshape` for one merged run of adjacent axes,
  abelian arrays: every stored block comes back as the SAME block; additional blocks are zero.
-/
import SymmModel.Proofs.Reshape4c

namespace SymmModel
namespace Reshape4
open C07 ReshapeP

variable {R : Type}

theorem elem_no_phases [Zero R] [Neg R] (z : Arr R) (hp : z.phases = []) (s : Sector) (J : List Nat) :
    z.elem s J = match alookup z.blocks s with
      | none => 0
      | some b => b.get J := by
  unfold Arr.elem
  rw [hp]
  cases alookup z.blocks s <;> rfl

/-- **abelian round trip, one merged run** -/
theorem roundtrip_abelian_single [Zero R] [Neg R] (a : Arr R) (p n : Nat)
    (hv : a.validB = true) (hf : a.fermi = false) (hnf : ∀ ix ∈ a.indices, ix.sub = none)
    (hn : 2 ≤ n) (hle : p + n ≤ a.ndim) :
    ∃ y z, applyPlan a ([], [[List.range' p n]], []) = .ok y
      ∧ reshapeArr y (a.shape.map Int.ofNat) = .ok z ∧ Restored a z
      ∧ (∀ s b, (s, b) ∈ a.blocks → alookup z.blocks s = some b)
      ∧ (∀ K V, alookup z.blocks K = some V → (∃ b, (K, b) ∈ a.blocks) ∨ FuseP.AllZero V) := by
  have hgok := groupsOk_single p n a.ndim (by omega) hle
  have hok := FuseP.groupsOk_iff.1 hgok
  have hva := FuseP.validArr_of_validB hv
  have hVa := (ValidP.validB_iff a).1 hv
  have hsg : a.phases = [] ∧ a.oddpos = [] := by
    have := hVa.sgn
    simpa [ValidP.SignsOk, hf] using this
  obtain ⟨y, z, hy, hz, hzi, hst, hex⟩ := C05.unfuse_fuse_blocks a [List.range' p n] hv hgok
  have hdl := FuseP.duals_length a
  obtain ⟨hb, _, hperm⟩ := ValidP.groupInfo_consecutive (groups := [List.range' p n]) (duals := a.duals)
    (p := p) (n := n) (by simp) (by omega) (by rw [hdl]; exact hle)
  rw [hdl] at hperm
  have hpos : (calcFuseGroupInfo [List.range' p n] a.duals).position = p := by
    obtain ⟨_, _, _, _, _, hb', _⟩ := C05.calcFuseGroupInfo_perm [List.range' p n] a.duals
      (by rw [hdl]; exact hgok)
    have := congrArg List.length (hb'.symm.trans hb)
    simpa using this
  rw [hpos] at hz
  rw [hperm] at hzi hst hex
  have hyd : fuseDispatch a [List.range' p n] = .ok y := by
    simp only [fuseDispatch, hf, Bool.false_eq_true, if_false]
    rw [C05.fuseA_eq_fuseCore a _ .insert true a.ndim hgok]; exact hy
  have hfwd : applyPlan a ([], [[List.range' p n]], []) = .ok y := by
    simp only [applyPlan, List.foldlM_cons, List.foldlM_nil, bind, Except.bind, pure, Except.pure]
    rw [hyd]
  have hzu : unfuseA y p = .ok z := by
    have hm : FuseP.multiB [List.range' p n] 0 = true :=
      FuseP.multiB_iff.2 ⟨_, rfl, by simp; omega⟩
    unfold C05.unfuseGroups at hz
    have e0 : (List.range [List.range' p n].length).reverse = [0] := rfl
    rw [e0] at hz
    simp only [List.foldlM_cons, List.foldlM_nil, hm, if_true, Nat.add_zero, bind, Except.bind,
      pure, Except.pure] at hz
    cases hu : unfuseA y p with
    | error e => rw [hu] at hz; cases hz
    | ok v => rw [hu] at hz; exact hz
  obtain ⟨ix, subIdx, exts, hix, hsub, hzidx⟩ := ReshapeP.unfuseA_indices y z p hzu
  have hzia : z.indices = a.indices := by
    rw [hzi]; exact Lazy.permuted_range a.indices
  -- fields
  have hyeq : y = FuseP.fusedArrM a [List.range' p n] := by
    have := FuseP.fuseCore_multi_eq hva hok
    rw [hy] at this; exact Except.ok.inj this
  have hyf : y.fermi = a.fermi := by rw [hyeq]; rfl
  have hyv : y.validB = true :=
    C01.fuseCore_valid a y _ hv hf (fuseAdmissible_of_groupsOk hgok) hy
  have hyfld : y.sym = a.sym ∧ y.charge = a.charge ∧ y.phases = a.phases ∧ y.oddpos = a.oddpos := by
    rw [hyeq]; exact ⟨rfl, rfl, rfl, rfl⟩
  obtain ⟨f1, f2, f3, f4, f5⟩ := ValidP.unfuseA_fields hzu
  have hzv : z.validB = true := C01.unfuseA_valid y z p hyv (by rw [hyf, hf]) hzu
  have hzph : z.phases = [] := by rw [f4, hyfld.2.2.1]; exact hsg.1
  -- number of axes of `y`
  have hsim := ValidP.sim_init a
  have hsl : (a.shape.zip a.subsizes).length = a.ndim := by
    rw [← ValidP.Sim.ndim_eq hsim]
  have hsf := symFuse_single (a.shape.zip a.subsizes) p n (by omega) (by rw [hsl]; exact hle)
  obtain ⟨hsy, _⟩ := ValidP.fuseDispatch_sim hsim hsf hyd
  have hynd : y.ndim = p + 1 + (a.ndim - (p + n)) := by
    rw [← ValidP.Sim.ndim_eq hsy]
    simp [hsl, Nat.min_eq_left (by omega : p ≤ a.ndim)]
    omega
  have hsn : subIdx ≠ [] := by
    intro hc
    have h1 := congrArg List.length hzidx
    rw [hzia, hc] at h1
    have hp := (List.getElem?_eq_some_iff.mp hix).1
    simp only [replaceWithSeq, List.append_nil, List.length_append, List.length_take,
      List.length_drop] at h1
    have : a.indices.length = a.ndim := rfl
    have : y.indices.length = y.ndim := rfl
    omega
  have hidx : a.indices = replaceWithSeq y.indices p subIdx := by rw [← hzia, hzidx]
  have hback : reshapeArr y (a.shape.map Int.ofNat) = .ok z := by
    rw [reshape_back_eq y a p ix subIdx exts hix hsub hsn hidx hnf]
    simp only [unfuseDispatch, hyf, hf, Bool.false_eq_true, if_false]
    exact hzu
  -- the blocks
  have hblk : ∀ s b, (s, b) ∈ a.blocks → alookup z.blocks s = some b := by
    intro s b hsb
    have hbk := hva.blk (s, b) hsb
    have e1 : permuted s (List.range a.ndim) = s := by rw [← hbk.1]; exact Lazy.permuted_range s
    have hbl : b.shape.length = a.ndim := by rw [Arr.blockShape?_shape_length hbk.2.1]; rfl
    have := hst s b hsb
    rw [e1, Norm.transposeK_id b hbl hbk.2.2] at this
    exact this
  have hoth : ∀ K V, alookup z.blocks K = some V → (∃ b, (K, b) ∈ a.blocks) ∨ FuseP.AllZero V := by
    intro K V hl
    rcases hex K V hl with ⟨s, b, hsb, rfl⟩ | hz0
    · left
      have hbk := hva.blk (s, b) hsb
      have e1 : permuted s (List.range a.ndim) = s := by rw [← hbk.1]; exact Lazy.permuted_range s
      rw [e1]; exact ⟨b, hsb⟩
    · exact Or.inr hz0
  refine ⟨y, z, hfwd, hback, ⟨hzv, by rw [f2, hyf], hzia, by rw [f1, hyfld.1],
    by rw [f3, hyfld.2.1], by rw [f5, hyfld.2.2.2], ?_, ?_⟩, hblk, hoth⟩
  · intro s b hsb
    refine ⟨b, hblk s b hsb, rfl, fun J _ => ?_⟩
    rw [elem_no_phases z hzph, hblk s b hsb, elem_no_phases a hsg.1,
      FuseP.alookup_of_mem_nodup hva.nodup hsb]
  · intro K V hl hK J _
    rw [elem_no_phases z hzph, hl]
    rcases hoth K V hl with ⟨b, hb⟩ | hz0
    · exact absurd rfl (hK K b hb)
    · exact FuseP.get_of_allZero hz0 J

end Reshape4
end SymmModel
