/-
  SymmModel.Proofs.ReshapeHc — (1) a plan without unfuse steps is certified for one sub-size table iff
  it is for any other (the certificate compares sizes only); (2) `reshape` there and back for arrays
  that already carry fused axes, assembled from the planner congruence (`ReshapeHa`), the planner
  theorems for unfused inputs and the marked invariant (`ReshapeHb`).
-/
import SymmModel.Proofs.ReshapeHb
namespace SymmModel.ReshapeH
open SymmModel SymmModel.Reshape SymmModel.C07 SymmModel.Reshape3 SymmModel.Reshape5 ReshapeP FuseP
set_option linter.unusedSectionVars false

/-! ### the certificate of a plan without unfuse steps looks at sizes only -/

theorem getD_fst (st : SymShape) (ax : Nat) : (st.getD ax (0, none)).1 = (SymShape.sizes st).getD ax 0 := by
  simp only [SymShape.sizes, List.getD_eq_getElem?_getD, List.getElem?_map]
  cases st[ax]? <;> rfl

theorem symGroup_fst {st st' : SymShape} (h : SymShape.sizes st = SymShape.sizes st') (g : List Nat) :
    (symGroup st g).1 = (symGroup st' g).1 := by
  have hm : g.map (fun ax => (st.getD ax (0, none)).1) = g.map (fun ax => (st'.getD ax (0, none)).1) := by
    apply List.map_congr_left
    intro ax _
    rw [getD_fst, getD_fst, h]
  match g with
  | [] => simp [symGroup]
  | [ax] => simp only [symGroup]; rw [getD_fst, getD_fst, h]
  | a :: b :: r => simp only [symGroup]; rw [hm]

theorem symFuse_sizes {st st' : SymShape} (h : SymShape.sizes st = SymShape.sizes st') (G : List (List Nat))
    (r : SymShape) (hr : symFuse st G = some r) :
    ∃ r', symFuse st' G = some r' ∧ SymShape.sizes r = SymShape.sizes r' := by
  have hlen : st.length = st'.length := by
    have := congrArg List.length h
    simpa [SymShape.sizes] using this
  unfold symFuse at hr ⊢
  cases hf : G.flatten with
  | nil => rw [hf] at hr; cases hr
  | cons p rest =>
    rw [hf] at hr
    simp only [] at hr ⊢
    rw [← hlen]
    split at hr
    · rename_i hc
      rw [if_pos hc]
      injection hr with hr
      refine ⟨_, rfl, ?_⟩
      rw [← hr]
      simp only [SymShape.sizes, List.map_append, List.map_take, List.map_drop, List.map_map] at h ⊢
      rw [h]
      congr 2
      apply List.map_congr_left
      intro g _
      exact symGroup_fst (by simpa [SymShape.sizes] using h) g
    · cases hr

theorem foldFuse_sizes : ∀ (calls : List (List (List Nat))) (st st' r : SymShape),
    SymShape.sizes st = SymShape.sizes st' → foldOpt symFuse calls st = some r →
    ∃ r', foldOpt symFuse calls st' = some r' ∧ SymShape.sizes r = SymShape.sizes r' := by
  intro calls
  induction calls with
  | nil =>
    intro st st' r h hr
    simp only [foldOpt, Option.some.injEq] at hr
    subst hr
    exact ⟨st', rfl, h⟩
  | cons G rest ih =>
    intro st st' r h hr
    simp only [foldOpt] at hr ⊢
    cases h1 : symFuse st G with
    | none => rw [h1] at hr; cases hr
    | some s1 =>
      rw [h1] at hr
      obtain ⟨s1', h1', hs⟩ := symFuse_sizes h G s1 h1
      rw [h1']
      exact ih s1 s1' r hs hr

theorem foldExpand_sizes : ∀ (axs : List Nat) (st st' r : SymShape),
    SymShape.sizes st = SymShape.sizes st' → foldOpt symExpand axs st = some r →
    ∃ r', foldOpt symExpand axs st' = some r' ∧ SymShape.sizes r = SymShape.sizes r' := by
  intro axs
  induction axs with
  | nil =>
    intro st st' r h hr
    simp only [foldOpt, Option.some.injEq] at hr
    subst hr
    exact ⟨st', rfl, h⟩
  | cons ax rest ih =>
    intro st st' r h hr
    have hlen : st.length = st'.length := by
      have := congrArg List.length h
      simpa [SymShape.sizes] using this
    simp only [foldOpt, symExpand] at hr ⊢
    rw [← hlen]
    cases hb : Nat.ble ax st.length with
    | false => rw [hb] at hr; simp at hr
    | true =>
      rw [hb] at hr
      simp only [if_true] at hr ⊢
      refine ih _ _ r ?_ hr
      simp only [SymShape.sizes, List.map_append, List.map_take, List.map_drop] at h ⊢
      rw [h]

/-- **a plan without unfuse steps: the certificate does not depend on the sub-size table** -/
theorem wfB_subs_irrelevant (shape newshape : List Nat) (A B : List (Option (List Nat)))
    (hA : shape.length = A.length) (hB : shape.length = B.length)
    (t : List Nat × List (List (List Nat)) × List Nat) (hu : t.1 = [])
    (h : (Plan.ofTriple t).wfB shape A newshape = true) : (Plan.ofTriple t).wfB shape B newshape = true := by
  obtain ⟨_, r, hr, hsz⟩ := wfB_iff.mp h
  refine wfB_iff.mpr ⟨hB, ?_⟩
  simp only [Plan.exec, Plan.ofTriple, hu, foldOpt] at hr ⊢
  have h0 : SymShape.sizes (shape.zip A) = SymShape.sizes (shape.zip B) := by
    simp only [SymShape.sizes]
    rw [List.map_fst_zip (by omega), List.map_fst_zip (by omega)]
  cases h2 : foldOpt symFuse t.2.1 (shape.zip A) with
  | none => rw [h2] at hr; cases hr
  | some s2 =>
    rw [h2] at hr
    obtain ⟨s2', h2', hs2⟩ := foldFuse_sizes t.2.1 _ _ s2 h0 h2
    rw [h2']
    obtain ⟨r', hr', hs⟩ := foldExpand_sizes t.2.2 s2 s2' r hs2 hr
    exact ⟨r', hr', by rw [← hs, hsz]⟩

/-- **the planner's plan is certified for fused inputs without a window match** (dense or sparse):
    positive sizes and equal products suffice -/
theorem planner_wf_nowin (shape newshape : List Nat) (subsizes : List (Option (List Nat)))
    (hlen : shape.length = subsizes.length) (hnw : noWinB newshape subsizes = true)
    (hpos : ∀ d ∈ shape, 0 < d) (hprod : prod shape = prod newshape)
    (t : List Nat × List (List (List Nat)) × List Nat)
    (h : calcReshapeArgs shape newshape subsizes = .ok t) :
    (Plan.ofTriple t).wfB shape subsizes newshape = true ∧ t.1 = []
      ∧ calcReshapeArgs shape newshape (nones shape) = .ok t := by
  rw [planner_nowin_nones shape newshape subsizes hlen hnw] at h
  have hu := planner_no_unfuse shape newshape t h
  have hwf := planner_wf_of_prod shape newshape (nones shape) (nones_length shape).symm (denseB_nones shape)
    hpos hprod t h
  exact ⟨wfB_subs_irrelevant shape newshape _ _ (nones_length shape).symm hlen t hu hwf, hu, h⟩

/-! ### there and back -/

section Trip
variable {R : Type} [Zero R] [Neg R] [Lazy.LawfulNeg R]
variable {fuse : Arr R → List (List Nat) → Except Err (Arr R)}
  {unf : Arr R → Nat → Except Err (Arr R)} {Good : Arr R → Prop}
  {sg : Sym → Index → List Index → Sector → Int}

/-- **`reshape` there and back for every plan without expansion, fused axes allowed**, generic -/
theorem reshape_roundtrip_fused_generic (H : StepOK unf Good sg) (F : FuseOK fuse unf Good)
    (hind : ∀ x p y, unf x p = .ok y → ∃ ix subs exts, x.indices[p]? = some ix ∧ ix.sub = some (subs, exts))
    (hfd : ∀ x G, Good x → fuseDispatch x G = fuse x G)
    (hdisp : ∀ x p, Good x → unfuseDispatch x p = unf x p)
    (a y : Arr R) (hg : Good a)
    (ns full : List Int) (nsN : List Nat) (t : List Nat × List (List (List Nat)) × List Nat)
    (hpos : ∀ d ∈ a.shape, 0 < d) (hprod : prod a.shape = prod nsN)
    (hnw1 : noWinB nsN a.subsizes = true) (hnw2 : noWinB a.shape a.subsizes = true)
    (h1 : findFullReshape ns a.size = .ok full)
    (h2 : full.mapM (fun (d : Int) => if d < 0 then (throw Err.notimpl : Except Err Nat) else pure d.toNat)
      = .ok nsN)
    (h3 : calcReshapeArgs a.shape nsN a.subsizes = .ok t) (hexp : t.2.2 = [])
    (hy : reshapeArr a ns = .ok y) :
    ∃ z, reshapeArr y (a.shape.map Int.ofNat) = .ok z ∧ Good z ∧ VEq z a := by
  obtain ⟨_, hu, h3'⟩ := planner_wf_nowin a.shape nsN a.subsizes (shape_subsizes_length a) hnw1 hpos hprod t h3
  have hwf := planner_wf_of_prod a.shape nsN (nones a.shape) (nones_length a.shape).symm
    (denseB_nones a.shape) hpos hprod t h3'
  have hc := calls_of_planner a.shape nsN t h3' hwf
  have ht : t = ([], t.2.1, []) := by
    obtain ⟨t1, t2, t3⟩ := t
    simp only at hu hexp; subst hu; subst hexp; rfl
  rw [reshapeArr_eq a ns full nsN t h1 h2 h3, ht] at hy
  have hnd : a.shape.length = a.ndim := by simp [Arr.shape, Arr.ndim]
  rw [hnd] at hc
  obtain ⟨y', z, hy', hz, g, hv⟩ := roundtrip_fused_generic H F hind hfd hdisp a hg hnw2 t.2.1 hc
  rw [hy] at hy'; injection hy' with hy'; subst hy'
  exact ⟨z, hz, g, hv⟩

/-- **`reshape` there and back for merge / squeeze targets, fused axes allowed**, generic: both
    reshapes succeed -/
theorem reshape_roundtrip_items_fused_generic (H : StepOK unf Good sg) (F : FuseOK fuse unf Good)
    (hind : ∀ x p y, unf x p = .ok y → ∃ ix subs exts, x.indices[p]? = some ix ∧ ix.sub = some (subs, exts))
    (hfd : ∀ x G, Good x → fuseDispatch x G = fuse x G)
    (hdisp : ∀ x p, Good x → unfuseDispatch x p = unf x p)
    (a : Arr R) (hg : Good a) (items : List Item)
    (hshape : a.shape = shapeOf items) (hok : ItemsOk items) (hne : targetOf items ≠ [])
    (hpos : ∀ d ∈ a.shape, 0 < d)
    (hnw1 : noWinB (targetOf items) a.subsizes = true) (hnw2 : noWinB a.shape a.subsizes = true) :
    ∃ y z, reshapeArr a ((targetOf items).map Int.ofNat) = .ok y
      ∧ reshapeArr y (a.shape.map Int.ofNat) = .ok z ∧ Good z ∧ VEq z a := by
  obtain ⟨t, ht, hu, hexp⟩ := planner_items_total items hok hne
  rw [← hshape] at ht
  have h3 : calcReshapeArgs a.shape (targetOf items) a.subsizes = .ok t := by
    rw [planner_nowin_nones a.shape _ a.subsizes (shape_subsizes_length a) hnw1]; exact ht
  have hprod : prod a.shape = prod (targetOf items) := by rw [hshape]; exact prod_items items
  have hwf := planner_wf_of_prod a.shape (targetOf items) (nones a.shape) (nones_length a.shape).symm
    (denseB_nones a.shape) hpos hprod t ht
  have hc := calls_of_planner a.shape (targetOf items) t ht hwf
  have hteq : t = ([], t.2.1, []) := by
    obtain ⟨t1, t2, t3⟩ := t
    simp only at hu hexp; subst hu; subst hexp; rfl
  have hnd : a.shape.length = a.ndim := by simp [Arr.shape, Arr.ndim]
  rw [hnd] at hc
  obtain ⟨y, z, hy, hz, g, hv⟩ := roundtrip_fused_generic H F hind hfd hdisp a hg hnw2 t.2.1 hc
  refine ⟨y, z, ?_, hz, g, hv⟩
  rw [reshapeArr_eq a _ _ (targetOf items) t (findFullReshape_nat _ _) (mapM_toNat _) h3, hteq]
  exact hy

end Trip

end SymmModel.ReshapeH
