/-
  SymmModel.Proofs.NetNormK3 — network form of the norm (property C10), ket-bra-first bracketings,
  part 3: the routes `((b̄·ā)·a)·b`, `(b̄·(ā·a))·b` and `((ā·a)·b̄)·b` of the norm network `{a, b, ā, b̄}`.
  Derivation: `((b̄·ā)·a)·b` is `network_norm_mixed_seq` for `(b, a)`; S7 for the triangle `(b̄, ā, a)`
  (label check `ketBraLabelsB`) and congruence of the full contraction give `(b̄·(ā·a))·b`; `ā·a` has no
  label, so S5 (`swap_eqv`) applies to `b̄·(ā·a)` / `(ā·a)·b̄`, and S6 + congruence of the full
  contraction give `((ā·a)·b̄)·b`.
-/
import SymmModel.Proofs.NetNormK2

namespace SymmModel.NormNet
open SymmModel SymmModel.Lazy SymmModel.Norm SymmModel.TdotP SymmModel.GradedP SymmModel.RoutesP
open SymmModel.AssocP SymmModel.Assoc3P SymmModel.Assoc4P SymmModel.Assoc5P SymmModel.Net4P
open SymmModel.OddposP (mergeOddpos)
set_option linter.unusedSectionVars false

/-- the label scan only ever negates the sign -/
theorem resolveScan_pm : ∀ (fuel : Nat) (pre post : List (Int × Bool)) (ph : Int)
    (out : List (Int × Bool)) (s : Int),
    (ph = 1 ∨ ph = -1) → resolveScan fuel pre post ph = .ok (out, s) → (s = 1 ∨ s = -1)
  | 0, _, _, _, _, _, _, h => by simp [resolveScan, throw, throwThe, MonadExceptOf.throw] at h
  | fuel + 1, pre, [], ph, out, s, hp, h => by
    simp only [resolveScan, pure, Except.pure, Except.ok.injEq, Prod.mk.injEq] at h
    rw [← h.2]; exact hp
  | fuel + 1, pre, [a], ph, out, s, hp, h => by
    simp only [resolveScan, pure, Except.pure, Except.ok.injEq, Prod.mk.injEq] at h
    rw [← h.2]; exact hp
  | fuel + 1, pre, a :: b :: rest, ph, out, s, hp, h => by
    have hn : (-ph = 1 ∨ -ph = -1) := by omega
    simp only [resolveScan] at h
    split at h
    · split at h
      · have hp' : ((if b.2 = true then -ph else ph) = 1 ∨ (if b.2 = true then -ph else ph) = -1) := by
          split <;> assumption
        split at h
        · exact resolveScan_pm fuel _ _ _ out s hp' h
        · exact resolveScan_pm fuel _ _ _ out s hp' h
      · simp [throw, throwThe, MonadExceptOf.throw] at h
    · split at h
      · split at h
        · exact resolveScan_pm fuel _ _ _ out s hn h
        · exact resolveScan_pm fuel _ _ _ out s hn h
      · exact resolveScan_pm fuel _ _ _ out s hp h

section gen
variable {R : Type} [AddCommMonoid R] [Mul R] [Neg R] [SignRing R] [AssocLaws R]

/-- a successful call under the weak guard is an `Inter` -/
theorem inter_of_ok {a b Z : Arr R} {xa xb : List Nat} (W : AdmW a b xa xb)
    (e : a.tensordotF b (.pair (xa.map Int.ofNat) (xb.map Int.ofNat)) .blockwise = .ok Z) :
    ∃ ph, Inter a b xa xb Z ph := by
  have e0 := e
  rw [tensordotF_eq_core_w a b xa xb W] at e0
  cases hm : mergeOddpos a.parity a.oddpos b.oddpos with
  | error err => rw [hm] at e0; cases e0
  | ok r =>
    obtain ⟨out, s⟩ := r
    have hs : s = 1 ∨ s = -1 := by
      unfold OddposP.mergeOddpos at hm
      exact resolveScan_pm _ _ _ _ out s (by split <;> simp) hm
    obtain ⟨c, I, _⟩ := inter_of_call_w a b xa xb W (out, s) hm hs
    rw [e] at c
    obtain rfl := Except.ok.inj c
    exact ⟨s, I⟩

end gen

section main
variable {R : Type} [AddCommMonoid R] [Mul R] [Neg R] [Conj R] [NetLaws R] [AssocLaws R]

/-- the legs of `(b̄·ā)·a` (and of `b̄·(ā·a)`) contracted with `b` -/
def kbU (a b : Arr R) (xa xb : List Nat) : List Nat :=
  Assoc2P.axesAB ((freeAxes b.ndim xb).length + (freeAxes a.ndim xa).length) a.ndim
    ((List.range (freeAxes a.ndim xa).length).map ((freeAxes b.ndim xb).length + ·))
    (List.range (freeAxes b.ndim xb).length) (freeAxes a.ndim xa) xa

/-- the legs of `ā·a` bonded to `b̄` -/
def kbX (a : Arr R) (xa : List Nat) : List Nat :=
  Assoc2P.axesBC a.ndim a.ndim xa (freeAxes a.ndim xa) (freeAxes a.ndim xa) []

/-- the rotation `b̄·(ā·a) → (ā·a)·b̄` -/
def kbRot (a b : Arr R) (xa xb : List Nat) : List Nat :=
  rotB (freeAxes b.ndim xb).length (freeAxes ((freeAxes a.ndim (freeAxes a.ndim xa)).length
    + (freeAxes a.ndim (freeAxes a.ndim xa)).length) (kbX a xa)).length

/-- the conclusion: the routes that contract `ā` with `a` first -/
def KetBraFirst (a b : Arr R) (xa xb : List Nat) : Prop :=
  ∃ K Kb' T X BX XB,
    a.tensordotF b (.pair (xa.map Int.ofNat) (xb.map Int.ofNat)) .blockwise = .ok K
    -- ((b̄·ā)·a)·b
    ∧ (braOf b xb).tensordotF (braOf a xa) (.pair (xb.map Int.ofNat) (xa.map Int.ofNat)) .blockwise
        = .ok Kb'
    ∧ Kb'.tensordotF a (.pair
          (((List.range (freeAxes a.ndim xa).length).map ((freeAxes b.ndim xb).length + ·)).map
            Int.ofNat) ((freeAxes a.ndim xa).map Int.ofNat)) .blockwise = .ok T
    ∧ (∃ c, T.tensordotF b (.pair ((kbU a b xa xb).map Int.ofNat)
          ((freeAxes b.ndim xb ++ xb).map Int.ofNat)) .blockwise = .ok c
        ∧ c.ndim = 0 ∧ c.oddpos = [] ∧ c.elem [] [] = normSq K)
    -- ā·a : no label left
    ∧ (braOf a xa).tensordotF a (.pair ((freeAxes a.ndim xa).map Int.ofNat)
          ((freeAxes a.ndim xa).map Int.ofNat)) .blockwise = .ok X
    ∧ X.oddpos = []
    -- (b̄·(ā·a))·b
    ∧ (braOf b xb).tensordotF X (.pair (xb.map Int.ofNat) ((kbX a xa).map Int.ofNat)) .blockwise
        = .ok BX
    ∧ (∃ c, BX.tensordotF b (.pair ((kbU a b xa xb).map Int.ofNat)
          ((freeAxes b.ndim xb ++ xb).map Int.ofNat)) .blockwise = .ok c
        ∧ c.ndim = 0 ∧ c.oddpos = [] ∧ c.elem [] [] = normSq K)
    -- ((ā·a)·b̄)·b
    ∧ X.tensordotF (braOf b xb) (.pair ((kbX a xa).map Int.ofNat) (xb.map Int.ofNat)) .blockwise
        = .ok XB
    ∧ (∃ c, XB.tensordotF b (.pair ((positions (kbRot a b xa xb) (kbU a b xa xb)).map Int.ofNat)
          ((freeAxes b.ndim xb ++ xb).map Int.ofNat)) .blockwise = .ok c
        ∧ c.ndim = 0 ∧ c.oddpos = [] ∧ c.elem [] [] = normSq K)

theorem ketbra_first (hmul : ∀ x y : R, x * y = y * x) (a b : Arr R) (xa xb : List Nat)
    (ha : a.validB = true) (hb : b.validB = true) (hfa : a.fermi = true) (hfb : b.fermi = true)
    (hadm : ValidP.tdotAdmissibleB a b xa xb = true)
    (hoA : KetLabels a.oddpos) (hoB : KetLabels b.oddpos)
    (hd : (a.oddpos ++ b.oddpos).Pairwise (fun x y => x.1 ≠ y.1))
    (hlab : netLabelsB a.parity b.parity a.oddpos b.oddpos = true)
    (hlabK : ketBraLabelsB a.parity b.parity a.oddpos b.oddpos = true) :
    KetBraFirst a b xa xb := by
  have h := Adm.of ha hb hfa hfb hadm
  have hadm' := admB_swap ha hb hfa hfb hadm
  have hd' := labels_swap hd
  have h' := Adm.of hb ha hfb hfa hadm'
  have hB := braOf_adm h
  have hB' := braOf_adm h'
  have hdA : a.oddpos.Pairwise (fun x y => x.1 ≠ y.1) := (List.pairwise_append.1 hd).1
  have hdB : b.oddpos.Pairwise (fun x y => x.1 ≠ y.1) := (List.pairwise_append.1 hd).2.1
  -- the value
  obtain ⟨K, _, K', _, TN, _, _, _, _⟩ :=
    network_norm_mixed hmul a b xa xb ha hb hfa hfb hadm hoA hoB hd
  -- ((b̄·ā)·a)·b
  obtain ⟨K'', Kb', eK', eKb', T, c0, eT, ec0, cn, co, cv⟩ :=
    network_norm_mixed_seq hmul b a xb xa hb ha hfb hfa hadm' hoB hoA hd' hlab
  obtain rfl : K' = K'' := by have e := TN.eK'; rw [eK'] at e; first | exact Except.ok.inj e | exact (Except.ok.inj e).symm
  have cv' : c0.elem [] [] = normSq K := cv.trans TN.val
  -- the frame of the bra half `b̄·ā`
  obtain ⟨K1, Kb1, eK1, eKb1, hobs, hKv, hKf, hKbv, hKbf, _, _, _⟩ :=
    conj_tensordot b a xb xa hb ha hfb hfa hadm' hoB hoA hd'
  obtain rfl : K' = K1 := by rw [eK'] at eK1; first | exact Except.ok.inj eK1 | exact (Except.ok.inj eK1).symm
  obtain rfl : Kb' = Kb1 := by rw [eKb'] at eKb1; first | exact Except.ok.inj eKb1 | exact (Except.ok.inj eKb1).symm
  obtain ⟨q1, _, q3, _, _, _⟩ := conjF_frame K' true true
  obtain ⟨S0, hK0⟩ := tdot_indices_pruned h' eK'
  have hXi : Kb'.indices
      = (dropUnused (without b.indices xb ++ without a.indices xa) S0).map Index.conj := by
    rw [hobs.indices, q3, hK0]
  have hXn := half_ndim_w Kb' b a xb xa S0 Index.conj hXi
  have hXs : Kb'.sym = b.sym := by rw [hobs.sym, q1, (tdot_fields h' eK').1]
  rw [hXn] at ec0
  -- guards
  have g1 : tdotAdmissibleCommonB Kb' a ((List.range (freeAxes a.ndim xa).length).map ((freeAxes b.ndim xb).length + ·)) (freeAxes a.ndim xa) = true := by
    refine admC_of (by rw [hXs, h.sym]) (common_Xq Kb' b a xb xa S0 Index.conj conj_F hXi ha)
      (shift_nodup _ _) (freeAxes_nodup _ _) ?_ (fun i hi => mem_freeAxes_lt i hi)
    intro i hi
    obtain ⟨j, hj, rfl⟩ := List.mem_map.mp hi
    have := List.mem_range.mp hj
    rw [hXn]; omega
  have WKa := AdmW.of hKbv ha hKbf hfa g1
  have hpermK : ((List.range (freeAxes a.ndim xa).length).map ((freeAxes b.ndim xb).length + ·) ++ List.range (freeAxes b.ndim xb).length).Perm
      (List.range ((freeAxes b.ndim xb).length + (freeAxes a.ndim xa).length)) := by
    rw [← range_split]; exact List.perm_append_comm
  have T3 : TriW Kb' a b ((List.range (freeAxes a.ndim xa).length).map ((freeAxes b.ndim xb).length + ·)) (List.range (freeAxes b.ndim xb).length)
      (freeAxes a.ndim xa) xa xb (freeAxes b.ndim xb) :=
    ⟨WKa, AdmW.ofAdm h,
      Mid.of (hpermK.nodup_iff.mpr List.nodup_range) (fun i hi => by
        have := List.mem_range.mp (hpermK.mem_iff.mp hi); rw [hXn]; exact this),
      Mid.of ((perm_left h.nA h.ltA).nodup_iff.mpr List.nodup_range) (fun i hi =>
        List.mem_range.mp ((perm_left h.nA h.ltA).mem_iff.mp hi)),
      Mid.of ((perm_right h.nB h.ltB).nodup_iff.mpr List.nodup_range) (fun i hi =>
        List.mem_range.mp ((perm_right h.nB h.ltB).mem_iff.mp hi)),
      common_Xp Kb' b a xb xa S0 Index.conj conj_F hXi hb⟩
  obtain ⟨phT, IT⟩ := inter_of_ok WKa eT
  have WTb := admW_left_w IT T3
  rw [hXn] at WTb
  -- ā·a
  have WAa : AdmW (braOf a xa) a (freeAxes a.ndim xa) (freeAxes a.ndim xa) := by
    refine ⟨hB.va, ha, hB.fa, hfa, (braOf_frame a xa).1, ?_, freeAxes_nodup _ _, freeAxes_nodup _ _,
      ?_, fun i hi => mem_freeAxes_lt i hi⟩
    · rw [commonB_iff]
      refine ⟨rfl, fun j hj => ?_⟩
      have hmem : (freeAxes a.ndim xa).getD j 0 ∈ (freeAxes a.ndim xa) := by
        rw [List.getD_eq_getElem?_getD, List.getElem?_eq_getElem hj]; exact List.getElem_mem hj
      have hlt : (freeAxes a.ndim xa).getD j 0 < a.indices.length := mem_freeAxes_lt _ hmem
      rw [(braOf_frame a xa).2.2.1, getD_map_in Index.conj a.indices _ hlt, Index.conj_cm,
        Lazy.Index.conj_dual, Bool.not_not]
      exact ⟨cmAgree_self (keys_nodup_of_validB ha _ (getD_mem_idx hlt)), rfl⟩
    · intro i hi; rw [braOf_ndim]; exact mem_freeAxes_lt i hi
  obtain ⟨sX, mX, qX⟩ := merge_nested (braOf a xa).parity a.oddpos hoA hdA
  obtain ⟨X, eX, IX, oX⟩ := call_of_merge (braOf a xa) a (freeAxes a.ndim xa) (freeAxes a.ndim xa) WAa [] sX
    (by rw [(braOf_frame a xa).2.2.2.2.1]; exact mX) qX
  -- S7 for (b̄, ā, a)
  have WBA : AdmW (braOf b xb) (braOf a xa) xb xa := AdmW.ofAdm hB'
  have hc3 : contractibleCommonB (braOf b xb) a [] [] = true := by
    simp [contractibleCommonB]
  have hL : Assoc2P.LabelRoutes (braOf b xb).parity (braOf a xa).parity (braOf b xb).oddpos
      (braOf a xa).oddpos a.oddpos := by
    rw [braOf_parity, braOf_parity, (braOf_frame a xa).2.2.2.2.1, (braOf_frame b xb).2.2.2.2.1]
    exact ketBraLabelsB_spec hlabK
  have hnxa : (xa ++ (freeAxes a.ndim xa)).Nodup := (perm_right h.nA h.ltA).nodup_iff.mpr List.nodup_range
  obtain ⟨AB2, X2, c1, c2, a1, a2, a3, a4, hE⟩ := assoc_eqv_w (braOf b xb) (braOf a xa) a
    xb [] xa (freeAxes a.ndim xa) (freeAxes a.ndim xa) [] WBA WAa hc3 (by rw [List.append_nil]; exact h.nB) hnxa
    (by rw [List.append_nil]; exact freeAxes_nodup _ _) (by intro i hi; cases hi)
    (by intro i hi; cases hi) hL
  obtain rfl : Kb' = AB2 := by rw [eKb'] at a1; first | exact Except.ok.inj a1 | exact (Except.ok.inj a1).symm
  obtain rfl : X = X2 := by rw [eX] at a3; first | exact Except.ok.inj a3 | exact (Except.ok.inj a3).symm
  have hsh : Assoc2P.axesAB (braOf b xb).ndim (braOf a xa).ndim xb [] xa (freeAxes a.ndim xa)
      = (List.range (freeAxes a.ndim xa).length).map ((freeAxes b.ndim xb).length + ·) := by
    unfold Assoc2P.axesAB
    rw [braOf_ndim, braOf_ndim, positions_self _ (freeAxes_nodup _ _)]
    rfl
  rw [hsh] at a2
  have a2' : Kb'.tensordotF a (.pair
      (((List.range (freeAxes a.ndim xa).length).map ((freeAxes b.ndim xb).length + ·)).map Int.ofNat) ((freeAxes a.ndim xa).map Int.ofNat)) .blockwise
      = .ok c1 := a2
  obtain rfl : T = c1 := by rw [eT] at a2'; first | exact Except.ok.inj a2' | exact (Except.ok.inj a2').symm
  rw [List.append_nil, braOf_ndim] at a4
  -- b̄·(ā·a) : guard, validity
  have T2 : TriW (braOf b xb) (braOf a xa) a xb [] xa (freeAxes a.ndim xa) (freeAxes a.ndim xa) [] :=
    ⟨WBA, WAa, Mid.of (by rw [List.append_nil]; exact h.nB) (by
        rw [List.append_nil]; intro i hi; rw [braOf_ndim]; exact h.ltB i hi),
      Mid.of hnxa (fun i hi => by
        rw [braOf_ndim]; exact List.mem_range.mp ((perm_right h.nA h.ltA).mem_iff.mp hi)),
      Mid.of (by rw [List.append_nil]; exact freeAxes_nodup _ _) (by
        rw [List.append_nil]; exact fun i hi => mem_freeAxes_lt i hi), hc3⟩
  have WbX := admW_right_w IX T2
  rw [List.append_nil, braOf_ndim] at WbX
  obtain ⟨phB, IBX⟩ := inter_of_ok WbX a4
  -- (b̄·(ā·a))·b
  obtain ⟨r1, er1, n1, o1, v1⟩ := scalar_congr WTb hE.symm IBX.valid ec0 cn
  have WBXb := admW_congr WTb hE.symm (Eqv.refl b) IBX.valid hb
  -- (ā·a)·b̄
  have WXb := admW_swap WbX
  have hdX : OddposP.LabelsDistinct (X.oddpos ++ (braOf b xb).oddpos) := by
    rw [oX, (braOf_frame b xb).2.2.2.2.1]
    exact oddposDag_distinct b.oddpos hdB
  obtain ⟨XB, _, eXB, IXB, _⟩ := call_pack X (braOf b xb) _ _ WXb hdX
  obtain ⟨c', ec', _, _, hEs⟩ := Assoc5P.swap_eqv hmul WXb hdX XB eXB
  unfold tdF at ec'
  obtain rfl : c2 = c' := by rw [a4] at ec'; first | exact Except.ok.inj ec' | exact (Except.ok.inj ec').symm
  -- ((ā·a)·b̄)·b
  have hfree := ndim_of_call_w WBXb er1
  rw [n1] at hfree
  have hu : freeAxes c2.ndim (kbU a b xa xb) = [] :=
    List.eq_nil_of_length_eq_zero (by unfold kbU; omega)
  have hv : freeAxes b.ndim ((freeAxes b.ndim xb) ++ xb) = [] := freeAxes_all _ _ (all_left xb)
  have hXnd : X.ndim = (freeAxes a.ndim (freeAxes a.ndim xa)).length + (freeAxes a.ndim (freeAxes a.ndim xa)).length := by
    have := IX.ndim; rw [braOf_ndim] at this; exact this
  have hrot : (kbRot a b xa xb).Perm (List.range c2.ndim) := by
    have hnd := IBX.ndim
    rw [braOf_ndim, hXnd] at hnd
    rw [hnd]
    exact KoszulP.perm_of_isPerm (rotB_isPerm _ _)
  have hUp : (kbU a b xa xb).Perm (List.range c2.ndim) := by
    have := perm_left WBXb.nA WBXb.ltA
    change (freeAxes c2.ndim (kbU a b xa xb) ++ kbU a b xa xb).Perm _ at this
    rw [hu] at this
    exact this
  have hT := PreT.canonical hrot WBXb.nA WBXb.ltA
  have hu' : freeAxes c2.ndim (positions (kbRot a b xa xb) (kbU a b xa xb)) = [] := by
    have hp := positions_perm (kbRot a b xa xb) (kbU a b xa xb) (hUp.trans hrot.symm)
      (hrot.nodup_iff.mpr List.nodup_range)
    rw [hrot.length_eq, List.length_range] at hp
    exact freeAxes_all _ _ (fun i hi => hp.mem_iff.mpr (List.mem_range.mpr hi))
  obtain ⟨r2, er2, W2, n2, o2, v2⟩ := scalar_pre (u' := positions (kbRot a b xa xb) (kbU a b xa xb))
    WBXb hrot hu hv hT.nA' hT.ltA' hT.hx hu' er1
  have hEs' : Eqv (c2.transposeF (kbRot a b xa xb)) XB := by
    unfold kbRot
    rw [← hXnd, ← braOf_ndim b xb]
    exact hEs
  obtain ⟨r3, er3, n3, o3, v3⟩ := scalar_congr W2 hEs' IXB.valid er2 n2
  exact ⟨K, Kb', T, X, c2, XB, TN.eK, eKb', eT, ⟨c0, ec0, cn, co, cv'⟩, eX, oX, a4,
    ⟨r1, er1, n1, o1.trans co, v1.trans cv'⟩, eXB,
    ⟨r3, er3, n3, (o3.trans o2).trans (o1.trans co), (v3.trans v2).trans (v1.trans cv')⟩⟩

end main

end SymmModel.NormNet
