/-
  SymmModel.Proofs.TdotDense — "equals the dense contraction" form of the blockwise contraction:
  the sum over the *stored* aligned sector pairs equals the sum over *all* charge tuples of the
  contracted indices, because `Arr.elem` is zero on absent sectors.
-/
import SymmModel.Proofs.TdotLemmas
import Mathlib.Data.List.Nodup
import SymmModel.Proofs.SymLemmas

namespace SymmModel
namespace TdotP
variable {R : Type}

/-- the sector with contracted part `K` (on `axes`) and free part `F` (on the other axes) -/
def mergeSec (n : Nat) (axes : List Nat) (K F : Sector) : Sector :=
  mergeIdx ((0, 0) : Charge) n axes (freeAxes n axes) K F

theorem sum_filter_of_zero [AddMonoid R] {α : Type} (p : α → Bool) (g : α → R) (l : List α)
    (h : ∀ x ∈ l, p x = false → g x = 0) : ((l.filter p).map g).sum = (l.map g).sum := by
  induction l with
  | nil => rfl
  | cons x xs ih =>
    have ih' := ih (fun y hy => h y (List.mem_cons_of_mem _ hy))
    rw [List.filter_cons]
    cases hp : p x with
    | true => simp [ih']
    | false => simp [ih', h x (by simp) hp]

theorem storedPairs_nodup {a b : Arr R} (l xa xb r : List Nat) (s : Sector)
    (hda : a.sectors.Nodup) (hdb : b.sectors.Nodup) : (storedPairs a b l xa xb r s).Nodup := by
  unfold storedPairs
  rw [List.nodup_flatMap]
  constructor
  · intro sa _
    exact (hdb.filter _).map (fun x y h => by simpa using h)
  · refine List.Pairwise.imp ?_ hda
    intro x y hxy
    simp only [Function.onFun, List.disjoint_left, List.mem_map, not_exists, not_and]
    rintro p ⟨_, _, rfl⟩ z _ h
    exact hxy (by simpa using (congrArg Prod.fst h).symm)

theorem Arr.elem_of_not_mem [Zero R] [Neg R] {x : Arr R} {s : Sector} (h : s ∉ x.sectors)
    (o : List Nat) : x.elem s o = 0 := by
  unfold Arr.elem
  rw [alookup_eq_none_iff.mpr (by simpa [akeys, Arr.sectors] using h)]

theorem Arr.sector_length {a : Arr R} (hs : a.shapesOk) {s : Sector} (h : s ∈ a.sectors) :
    s.length = a.ndim := by
  obtain ⟨p, hp, rfl⟩ := List.mem_map.mp h
  exact (blockShape?_length (hs p hp)).1

theorem contractPair_eq_zero [AddMonoid R] [Mul R] [Neg R]
    (hz1 : ∀ x : R, 0 * x = 0) (hz2 : ∀ x : R, x * 0 = 0) (a b : Arr R) (xa xb oL oR : List Nat)
    (p : Sector × Sector) (h : p.1 ∉ a.sectors ∨ p.2 ∉ b.sectors) :
    contractPair a b xa xb oL oR p = 0 := by
  unfold contractPair
  apply List.sum_eq_zero
  intro x hx
  obtain ⟨k, _, rfl⟩ := List.mem_map.mp hx
  unfold contractTerm
  rcases h with h | h
  · rw [Arr.elem_of_not_mem h, hz1]
  · rw [Arr.elem_of_not_mem h, hz2]

/-- **dense form.**  For a result sector `L ++ Rr`, the stored element equals the sum over *all*
    charge tuples `K` of a list `Ks` that covers the contracted parts of `a`'s stored sectors (for
    instance the cartesian product of the contracted charge tables) of the contraction of the
    sector pair `(merge K L, merge K Rr)` — absent sectors contribute zero. -/
theorem tensordotBlockwise_elem_dense' [AddCommMonoid R] [Mul R] [Neg R]
    (hz1 : ∀ x : R, 0 * x = 0) (hz2 : ∀ x : R, x * 0 = 0) (a b : Arr R) (xa xb : List Nat)
    (hpa : a.phases = []) (hpb : b.phases = [])
    (hda : allDistinct a.sectors = true) (hdb : allDistinct b.sectors = true)
    (hsa : a.shapesOk) (hsb : b.shapesOk)
    (hxa : xa.Nodup) (hxa' : ∀ x ∈ xa, x < a.ndim) (hxb : xb.Nodup) (hxb' : ∀ x ∈ xb, x < b.ndim)
    (hlen : xa.length = xb.length)
    (Ks : List Sector) (hKn : Ks.Nodup) (hKl : ∀ K ∈ Ks, K.length = xa.length)
    (hKc : ∀ sa ∈ a.sectors, permuted sa xa ∈ Ks)
    (L Rr : Sector) (hL : L.length = (freeAxes a.ndim xa).length)
    (hR : Rr.length = (freeAxes b.ndim xb).length) (o : List Nat)
    (ho : inBox (Arr.blockShapeD (without a.indices xa ++ without b.indices xb) (L ++ Rr)) o = true) :
    (tensordotBlockwise a b (freeAxes a.ndim xa) xa xb (freeAxes b.ndim xb)).elem (L ++ Rr) o =
      (Ks.map (fun K => contractPair a b xa xb (o.take (freeAxes a.ndim xa).length)
          (o.drop (freeAxes a.ndim xa).length)
          (mergeSec a.ndim xa K L, mergeSec b.ndim xb K Rr))).sum := by
  rw [tensordotBlockwise_elem_pairs a b xa xb hpa hpb hda hdb hsa hsb _ o ho]
  generalize o.take (freeAxes a.ndim xa).length = oL
  generalize o.drop (freeAxes a.ndim xa).length = oR
  -- facts about merging
  have cov : ∀ (n : Nat) (axes : List Nat) y, y < n → y ∈ axes ∨ y ∈ freeAxes n axes := by
    intro n axes y hy
    by_cases h : y ∈ axes
    · exact Or.inl h
    · exact Or.inr (mem_freeAxes.mpr ⟨hy, h⟩)
  have hdisj : ∀ (n : Nat) (axes : List Nat), ∀ x ∈ freeAxes n axes, x ∉ axes :=
    fun n axes x hx => (mem_freeAxes.mp hx).2
  have mA_axes : ∀ K ∈ Ks, permuted (mergeSec a.ndim xa K L) xa = K := fun K hK =>
    permuted_mergeIdx_axes _ hxa hxa' (hKl K hK)
  have mB_axes : ∀ K ∈ Ks, permuted (mergeSec b.ndim xb K Rr) xb = K := fun K hK =>
    permuted_mergeIdx_axes _ hxb hxb' ((hKl K hK).trans hlen)
  have mA_free : ∀ K, permuted (mergeSec a.ndim xa K L) (freeAxes a.ndim xa) = L := fun K =>
    permuted_mergeIdx_free _ (freeAxes_nodup _ _) mem_freeAxes_lt (hdisj _ _) hL
  have mB_free : ∀ K, permuted (mergeSec b.ndim xb K Rr) (freeAxes b.ndim xb) = Rr := fun K =>
    permuted_mergeIdx_free _ (freeAxes_nodup _ _) mem_freeAxes_lt (hdisj _ _) hR
  -- restrict the sum over `Ks` to the tuples whose two sectors are stored
  let P : Sector → Bool := fun K =>
    a.sectors.contains (mergeSec a.ndim xa K L) && b.sectors.contains (mergeSec b.ndim xb K Rr)
  rw [← sum_filter_of_zero P _ Ks (by
    intro K _ hP
    apply contractPair_eq_zero hz1 hz2
    simp only [P, Bool.and_eq_false_iff, List.contains_eq_mem, decide_eq_false_iff_not] at hP
    exact hP)]
  rw [show (fun K => contractPair a b xa xb oL oR (mergeSec a.ndim xa K L, mergeSec b.ndim xb K Rr)) =
      contractPair a b xa xb oL oR ∘ (fun K => (mergeSec a.ndim xa K L, mergeSec b.ndim xb K Rr)) from rfl,
    ← List.map_map]
  apply List.Perm.sum_eq
  apply List.Perm.map
  rw [List.perm_ext_iff_of_nodup
    (storedPairs_nodup _ xa xb _ _ (allDistinct_iff_nodup.mp hda) (allDistinct_iff_nodup.mp hdb))]
  · rintro ⟨sa, sb⟩
    rw [mem_storedPairs, List.mem_map]
    constructor
    · rintro ⟨hA, hB, hm, hs⟩
      have la := Arr.sector_length hsa hA
      have lb := Arr.sector_length hsb hB
      have hl1 : (permuted sa (freeAxes a.ndim xa)).length = L.length := by
        rw [permuted_length _ _ (by rw [la]; exact mem_freeAxes_lt), hL]
      obtain ⟨e1, e2⟩ := List.append_inj hs hl1
      have hsa' : mergeSec a.ndim xa (permuted sa xa) L = sa := by
        rw [← e1]; exact mergeIdx_permuted _ la hxa' mem_freeAxes_lt (cov _ _)
      have hsb' : mergeSec b.ndim xb (permuted sa xa) Rr = sb := by
        rw [← e2, ← hm]; exact mergeIdx_permuted _ lb hxb' mem_freeAxes_lt (cov _ _)
      refine ⟨permuted sa xa, List.mem_filter.mpr ⟨hKc sa hA, ?_⟩, by rw [hsa', hsb']⟩
      simp only [P, hsa', hsb', List.contains_eq_mem, hA, hB, decide_true, Bool.and_self]
    · rintro ⟨K, hK, hp⟩
      obtain ⟨hK1, hK2⟩ := List.mem_filter.mp hK
      simp only [Prod.mk.injEq] at hp
      obtain ⟨rfl, rfl⟩ := hp
      simp only [P, Bool.and_eq_true, List.contains_eq_mem, decide_eq_true_eq] at hK2
      exact ⟨hK2.1, hK2.2, by rw [mA_axes K hK1, mB_axes K hK1], by rw [mA_free, mB_free]⟩
  · refine List.Nodup.map_on ?_ (hKn.filter _)
    intro K hK K' hK' h
    have h1 := congrArg Prod.fst h
    simp only at h1
    rw [← mA_axes K (List.mem_filter.mp hK).1, ← mA_axes K' (List.mem_filter.mp hK').1, h1]

/-! ### the canonical choice of `Ks`: all charge tuples of the contracted index tables -/

/-- all charge tuples of the contracted indices of `a` (cartesian product of their charge tables) -/
def contractedTuples (a : Arr R) (xa : List Nat) : List Sector :=
  cartesian ((permuted a.indices xa).map Index.charges)

theorem forall₂_permuted {α β : Type} {Q : α → β → Prop} {X : List α} {Y : List β}
    (h : List.Forall₂ Q X Y) (p : List Nat) : List.Forall₂ Q (permuted X p) (permuted Y p) := by
  obtain ⟨hl, hg⟩ := List.forall₂_iff_get.mp h
  induction p with
  | nil => exact List.Forall₂.nil
  | cons j p ih =>
    simp only [permuted, List.filterMap_cons] at ih ⊢
    by_cases hj : j < X.length
    · have hj' : j < Y.length := hl ▸ hj
      rw [List.getElem?_eq_getElem hj, List.getElem?_eq_getElem hj']
      exact List.Forall₂.cons (hg j hj hj') ih
    · rw [List.getElem?_eq_none (by omega), List.getElem?_eq_none (by omega)]
      exact ih

theorem charges_of_blockShape? {ixs : List Index} {s : Sector} {shp : List Nat}
    (h : Arr.blockShape? ixs s = some shp) :
    List.Forall₂ (fun c (ix : Index) => c ∈ ix.charges) s ixs := by
  obtain ⟨h1, h2⟩ := (blockShape?_eq_some_iff _ _ _).mp h
  clear h
  induction ixs generalizing s shp with
  | nil =>
    cases s with
    | nil => exact List.Forall₂.nil
    | cons _ _ => simp at h1
  | cons ix ixs ih =>
    cases s with
    | nil => simp at h1
    | cons c cs =>
      cases shp with
      | nil => simp at h2
      | cons d ds =>
        simp only [List.zipWith_cons_cons, List.map_cons, List.cons.injEq] at h2
        simp only [List.length_cons, Nat.add_right_cancel_iff] at h1
        refine List.Forall₂.cons ?_ (ih h1 h2.2)
        have := alookup_mem (l := ix.cm) h2.1
        exact List.mem_map.mpr ⟨(c, d), this, rfl⟩

theorem contractedTuples_nodup (a : Arr R) (xa : List Nat)
    (h : ∀ ix ∈ a.indices, ix.charges.Nodup) : (contractedTuples a xa).Nodup := by
  apply cartesian_nodup
  intro l hl
  obtain ⟨ix, hix, rfl⟩ := List.mem_map.mp hl
  obtain ⟨j, _, hj⟩ := List.mem_filterMap.mp hix
  exact h ix (List.mem_of_getElem? hj)

theorem contractedTuples_length (a : Arr R) (xa : List Nat) (hxa : ∀ x ∈ xa, x < a.ndim) :
    ∀ K ∈ contractedTuples a xa, K.length = xa.length := by
  intro K hK
  have := (mem_cartesian.mp hK).length_eq
  rw [this, List.length_map, permuted_length _ _ hxa]

theorem contractedTuples_cover {a : Arr R} (hs : a.shapesOk) (xa : List Nat) :
    ∀ sa ∈ a.sectors, permuted sa xa ∈ contractedTuples a xa := by
  intro sa hsa
  obtain ⟨p, hp, rfl⟩ := List.mem_map.mp hsa
  rw [contractedTuples, mem_cartesian, List.forall₂_map_right_iff]
  exact forall₂_permuted (charges_of_blockShape? (hs p hp)) xa

/-- **dense form over the contracted charge tables.** -/
theorem tensordotBlockwise_elem_tuples [AddCommMonoid R] [Mul R] [Neg R]
    (hz1 : ∀ x : R, 0 * x = 0) (hz2 : ∀ x : R, x * 0 = 0) (a b : Arr R) (xa xb : List Nat)
    (hpa : a.phases = []) (hpb : b.phases = [])
    (hda : allDistinct a.sectors = true) (hdb : allDistinct b.sectors = true)
    (hsa : a.shapesOk) (hsb : b.shapesOk) (hca : ∀ ix ∈ a.indices, ix.charges.Nodup)
    (hxa : xa.Nodup) (hxa' : ∀ x ∈ xa, x < a.ndim) (hxb : xb.Nodup) (hxb' : ∀ x ∈ xb, x < b.ndim)
    (hlen : xa.length = xb.length)
    (L Rr : Sector) (hL : L.length = (freeAxes a.ndim xa).length)
    (hR : Rr.length = (freeAxes b.ndim xb).length) (o : List Nat)
    (ho : inBox (Arr.blockShapeD (without a.indices xa ++ without b.indices xb) (L ++ Rr)) o = true) :
    (tensordotBlockwise a b (freeAxes a.ndim xa) xa xb (freeAxes b.ndim xb)).elem (L ++ Rr) o =
      ((contractedTuples a xa).map (fun K => contractPair a b xa xb (o.take (freeAxes a.ndim xa).length)
          (o.drop (freeAxes a.ndim xa).length)
          (mergeSec a.ndim xa K L, mergeSec b.ndim xb K Rr))).sum :=
  tensordotBlockwise_elem_dense' hz1 hz2 a b xa xb hpa hpb hda hdb hsa hsb hxa hxa' hxb hxb' hlen
    _ (contractedTuples_nodup a xa hca) (contractedTuples_length a xa hxa')
    (contractedTuples_cover hsa xa) L Rr hL hR o ho

end TdotP
end SymmModel
