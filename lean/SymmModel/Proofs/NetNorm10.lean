/-
  SymmModel.Proofs.NetNorm10 — network form of the norm (property C10), continuation part 10:
  CHAINS OF ANY LENGTH `t₀ – t₁ – … – tₙ` (segments `Assoc3P.Seg`: a tensor with its left and right bond
  legs; weak guards `Assoc4P.Link` between neighbours), the bra chain built tensor by tensor
  (`braSeg`: `conj()`, dangling bra-like legs flipped, both bonds spared): the left-nested contraction
  of the bra chain is observationally `conj(phase_dual=True)` of the left-nested contraction of the ket
  chain (induction with `conj_tensordot_spared_w`), hence `(bra chain)·(ket chain) = Σ|K|²`.
-/
import SymmModel.Proofs.NetNorm9
namespace SymmModel.NormNet
open SymmModel SymmModel.Lazy SymmModel.Norm SymmModel.TdotP SymmModel.GradedP SymmModel.RoutesP
open SymmModel.AssocP SymmModel.Assoc3P SymmModel.Assoc4P
set_option linter.unusedSectionVars false

section nchain
variable {R : Type} [AddMonoid R] [Mul R] [Neg R] [Conj R] [NetLaws R]

/-- the bra tensor of a chain tensor: `conj()`, then `phase_flip` of the dangling bra-like legs — the
    two bonds `l`, `r` are spared -/
def braSeg (S : Seg R) : Seg R := ⟨braOf S.arr (S.l ++ S.r), S.l, S.r⟩

/-- the invariant of the induction: `S` a left-nested piece of the ket chain (no open bond on the
    left), `Sb` the corresponding piece of the bra chain -/
structure BraInv (S Sb : Seg R) : Prop where
  v : S.arr.validB = true
  f : S.arr.fermi = true
  vb : Sb.arr.validB = true
  fb : Sb.arr.fermi = true
  obs : ObsEq Sb.arr (braOf S.arr S.r)
  l : S.l = []
  lb : Sb.l = []
  r : Sb.r = S.r
  ket : KetLabels S.arr.oddpos
  dl : S.arr.oddpos.Pairwise (fun x y => x.1 ≠ y.1)
  nr : S.r.Nodup
  ltr : ∀ i ∈ S.r, i < S.arr.ndim

theorem lastD_r_nil (T y : Seg R) (ys : List (Seg R)) (h : y.r = [] → T.r = [])
    (hl : (lastD y ys).r = []) : (lastD T ys).r = [] := by
  cases ys with
  | nil => exact h hl
  | cons y' ys' => exact hl

/-- **the bra chain is the conjugate of the ket chain** (left-nested contraction, any length) -/
theorem chain_conj (ys : List (Seg R)) : ∀ (S Sb : Seg R), BraInv S Sb → linked S ys →
    (∀ y ∈ ys, KetLabels y.arr.oddpos) →
    OddposP.LabelsDistinct (S.arr.oddpos ++ flatL ys) →
    ∃ T Tb, evalL S ys = .ok T ∧ evalL Sb (ys.map braSeg) = .ok Tb ∧ BraInv T Tb
      ∧ ((lastD S ys).r = [] → T.r = [])
      ∧ T.arr.oddpos.Perm (S.arr.oddpos ++ flatL ys) := by
  induction ys with
  | nil =>
    intro S Sb H _ _ _
    exact ⟨S, Sb, rfl, rfl, H, fun h => h, by simp [flatL]⟩
  | cons y ys ih =>
    intro S Sb H hlink hket hd
    obtain ⟨lk, hy, hrest⟩ := hlink
    have hyl : y.l.Nodup := (List.nodup_append.mp hy.nd).1
    have hyr : y.r.Nodup := (List.nodup_append.mp hy.nd).2.1
    have W : AdmW S.arr y.arr S.r y.l :=
      ⟨H.v, hy.valid, H.f, hy.fermi, lk.sym, lk.con, H.nr, hyl, H.ltr, hy.ltl⟩
    have hM : Mid y.arr.ndim y.l y.r := Mid.of hy.nd (by
      intro i hi
      rcases List.mem_append.mp hi with h | h
      · exact hy.ltl i h
      · exact hy.ltr i h)
    have hd' : OddposP.LabelsDistinct ((S.arr.oddpos ++ y.arr.oddpos) ++ flatL ys) := by
      rw [List.append_assoc]; exact hd
    have hd1 : OddposP.LabelsDistinct (S.arr.oddpos ++ y.arr.oddpos) :=
      (List.pairwise_append.mp hd').1
    obtain ⟨K, Kb, eK, eKb, hobs, hKv, hKf, hKbv, hKbf, hk, hs, hdl, I, hperm⟩ :=
      conj_tensordot_spared_w S.arr y.arr S.r y.l y.r W hM H.ket (hket y (List.mem_cons_self ..)) hd1
    -- the two compositions
    have hndb : Sb.arr.ndim = S.arr.ndim := by
      unfold Arr.ndim; rw [H.obs.indices]; exact braOf_ndim S.arr _
    have hB := braOf_admW' W S.r (y.l ++ y.r)
    have econg : Sb.arr.tensordotF (braOf y.arr (y.l ++ y.r))
          (.pair (S.r.map Int.ofNat) (y.l.map Int.ofNat)) .blockwise = .ok Kb := by
      rw [← eKb]
      exact tensordotF_congr H.obs (ObsEq.refl _) (Full.of_valid H.vb H.fb)
        (Full.of_valid hB.va hB.fa) (Full.of_valid hB.vb hB.fb) (Full.of_valid hB.vb hB.fb) _ _
        (by rw [hndb, braOf_ndim]; exact congr_guard _ _ _ _ W.len W.nA W.nB W.ltA W.ltB)
    have c1 : S.comp y = .ok ⟨K, [], AssocP.axesAB S.arr.ndim y.arr.ndim S.r y.l y.r⟩ := by
      unfold Seg.comp tdF; rw [eK, H.l]; rfl
    have c2 : Sb.comp (braSeg y) = .ok ⟨Kb, [], AssocP.axesAB S.arr.ndim y.arr.ndim S.r y.l y.r⟩ := by
      unfold Seg.comp tdF braSeg
      simp only []
      rw [H.r, econg, H.lb, hndb, braOf_ndim]; rfl
    have Hn : BraInv ⟨K, [], AssocP.axesAB S.arr.ndim y.arr.ndim S.r y.l y.r⟩
        ⟨Kb, [], AssocP.axesAB S.arr.ndim y.arr.ndim S.r y.l y.r⟩ :=
      ⟨hKv, hKf, hKbv, hKbf, hobs, rfl, rfl, rfl, ⟨hk, hs⟩, hdl, AssocP.axesAB_nodup hM,
        by show ∀ i ∈ _, i < K.ndim
           rw [I.ndim]; exact AssocP.axesAB_lt hM⟩
    have hlinkn : linked (⟨K, [], AssocP.axesAB S.arr.ndim y.arr.ndim S.r y.l y.r⟩ : Seg R) ys := by
      cases ys with
      | nil => trivial
      | cons y' ys' =>
        obtain ⟨lk', hy', hrest'⟩ := hrest
        have Wy : AdmW y.arr y'.arr y.r y'.l :=
          ⟨hy.valid, hy'.valid, hy.fermi, hy'.fermi, lk'.sym, lk'.con, hyr,
            (List.nodup_append.mp hy'.nd).1, hy.ltr, hy'.ltl⟩
        have W2 := admW_left_chain_w I W Wy hM
        exact ⟨⟨W2.sym, W2.con⟩, hy', hrest'⟩
    have hdn : OddposP.LabelsDistinct (K.oddpos ++ flatL ys) :=
      OddposP.LabelsDistinct.perm hd' (List.Perm.append_right _ hperm).symm
    obtain ⟨T, Tb, e1, e2, HT, hr, hp⟩ := ih _ _ Hn hlinkn
      (fun z hz => hket z (List.mem_cons_of_mem _ hz)) hdn
    refine ⟨T, Tb, ?_, ?_, HT, ?_, ?_⟩
    · simp only [evalL, c1]; exact e1
    · simp only [List.map_cons, evalL, c2]; exact e2
    · intro hl
      apply hr
      exact lastD_r_nil _ y ys (fun h => by show AssocP.axesAB _ _ _ _ y.r = []; rw [h]; rfl) hl
    · refine hp.trans ?_
      show (K.oddpos ++ flatL ys).Perm (S.arr.oddpos ++ (y.arr.oddpos ++ flatL ys))
      rw [← List.append_assoc]
      exact List.Perm.append_right _ hperm

/-- the conclusion of `network_norm_chain` -/
def ChainNorm (S : Seg R) (ys : List (Seg R)) : Prop :=
  ∃ T Tb, evalL S ys = .ok T ∧ evalL (braSeg S) (ys.map braSeg) = .ok Tb
    ∧ ObsEq Tb.arr (T.arr.conjF true true)
    ∧ T.arr.validB = true ∧ T.arr.fermi = true ∧ Tb.arr.validB = true ∧ Tb.arr.fermi = true
    ∧ T.arr.oddpos.Perm (S.arr.oddpos ++ flatL ys)
    ∧ Tb.arr.ndim = T.arr.ndim
    ∧ (∃ r, Tb.arr.tensordotF T.arr (allAxes T.arr.ndim) .blockwise = .ok r
        ∧ r.ndim = 0 ∧ r.oddpos = [] ∧ r.elem [] [] = normSq T.arr)
    ∧ (∃ r, T.arr.tensordotF Tb.arr (allAxes T.arr.ndim) .blockwise = .ok r
        ∧ r.ndim = 0 ∧ r.oddpos = [] ∧ r.elem [] [] = normSq' T.arr)

/-- **the norm of a chain of any length conjugated tensor by tensor** (left-nested halves) -/
theorem network_norm_chain (S : Seg R) (ys : List (Seg R)) (hS : LeafOK S) (hl : S.l = [])
    (hlink : linked S ys) (hlast : (lastD S ys).r = [])
    (hketS : KetLabels S.arr.oddpos) (hket : ∀ y ∈ ys, KetLabels y.arr.oddpos)
    (hd : OddposP.LabelsDistinct (S.arr.oddpos ++ flatL ys)) : ChainNorm S ys := by
  have H0 : BraInv S (braSeg S) :=
    ⟨hS.valid, hS.fermi, braOf_valid _ _ hS.valid hS.fermi, braOf_fermi _ _ hS.fermi,
      by show ObsEq (braOf S.arr (S.l ++ S.r)) (braOf S.arr S.r)
         rw [hl, List.nil_append]; exact ObsEq.refl _,
      hl, hl, rfl, hketS, (List.pairwise_append.mp hd).1, (List.nodup_append.mp hS.nd).2.1, hS.ltr⟩
  obtain ⟨T, Tb, e1, e2, HT, hr, hp⟩ := chain_conj ys S (braSeg S) H0 hlink hket hd
  have hobs : ObsEq Tb.arr (T.arr.conjF true true) := by
    have := HT.obs
    rw [hr hlast] at this
    exact this.trans (conjF_obs_braOf T.arr [] (SignOk.of_valid HT.v HT.f) (fun _ h => nomatch h)).symm
  obtain ⟨r, r', hnd, q1, q2, q3, q4, g1, g2, g3, g4⟩ :=
    norm_of_obs HT.v HT.f HT.vb HT.fb hobs HT.ket.1 HT.ket.2 HT.dl
  exact ⟨T, Tb, e1, e2, hobs, HT.v, HT.f, HT.vb, HT.fb, hp, hnd, ⟨r, q1, q2, q3, q4⟩,
    ⟨r', g1, g2, g3, g4⟩⟩

end nchain

end SymmModel.NormNet
