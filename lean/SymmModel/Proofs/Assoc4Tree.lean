/-
  SymmModel.Proofs.Assoc4Tree — chains of `n` tensors: bracketing trees, their evaluation, the
  left-nested evaluation of a list, and the theorem "every bracketing is equivalent to the
  left-nested contraction".  Namespace `SymmModel.Assoc4P`.
-/
import SymmModel.Proofs.Assoc4Seg

namespace SymmModel
namespace Assoc4P
open TdotP GradedP RoutesP KoszulP AssocP Assoc3P
set_option linter.unusedSectionVars false

variable {R : Type}

/-- a bracketing of a chain: binary tree whose leaves are the tensors (with their open bonds) in
    chain order -/
inductive STree (R : Type) where
  | leaf (S : Seg R) : STree R
  | node (a b : STree R) : STree R

namespace STree
def first : STree R → Seg R
  | leaf S => S
  | node a _ => a.first
def last : STree R → Seg R
  | leaf S => S
  | node _ b => b.last
/-- the leaves after the first one -/
def rest : STree R → List (Seg R)
  | leaf _ => []
  | node a b => a.rest ++ b.first :: b.rest
def labels : STree R → List (Int × Bool)
  | leaf S => S.arr.oddpos
  | node a b => a.labels ++ b.labels
/-- every leaf is a valid fermionic tensor with disjoint in-range bonds, consecutive leaves are
    linked (a condition on the LEAF SEQUENCE only) -/
def OK : STree R → Prop
  | leaf S => LeafOK S
  | node a b => a.OK ∧ b.OK ∧ Link a.last b.first
/-- contract along the bracketing -/
def eval [Zero R] [Add R] [Mul R] [Neg R] : STree R → Except Err (Seg R)
  | leaf S => .ok S
  | node a b =>
    match a.eval, b.eval with
    | .ok s1, .ok s2 => s1.comp s2
    | .error e, _ => .error e
    | .ok _, .error e => .error e
end STree

/-- left-nested contraction `(((S·y₁)·y₂)·…)` -/
def evalL [Zero R] [Add R] [Mul R] [Neg R] : Seg R → List (Seg R) → Except Err (Seg R)
  | S, [] => .ok S
  | S, y :: ys =>
    match S.comp y with
    | .ok s => evalL s ys
    | .error e => .error e

def lastD : Seg R → List (Seg R) → Seg R
  | S, [] => S
  | _, y :: ys => lastD y ys
def flatL : List (Seg R) → List (Int × Bool)
  | [] => []
  | y :: ys => y.arr.oddpos ++ flatL ys
def linked : Seg R → List (Seg R) → Prop
  | _, [] => True
  | S, y :: ys => Link S y ∧ LeafOK y ∧ linked y ys

/-! ### list bookkeeping -/

theorem lastD_append (S y : Seg R) (xs ys : List (Seg R)) :
    lastD S (xs ++ y :: ys) = lastD y ys := by
  induction xs generalizing S with
  | nil => rfl
  | cons x xs ih => exact ih x

theorem flatL_append (xs ys : List (Seg R)) : flatL (xs ++ ys) = flatL xs ++ flatL ys := by
  induction xs with
  | nil => rfl
  | cons x xs ih => simp only [List.cons_append, flatL, ih, List.append_assoc]

theorem linked_append (S y : Seg R) (xs ys : List (Seg R)) (h1 : linked S xs)
    (h2 : Link (lastD S xs) y) (h3 : LeafOK y) (h4 : linked y ys) : linked S (xs ++ y :: ys) := by
  induction xs generalizing S with
  | nil => exact ⟨h2, h3, h4⟩
  | cons x xs ih => exact ⟨h1.1, h1.2.1, ih x h1.2.2 h2⟩

theorem evalL_append [Zero R] [Add R] [Mul R] [Neg R] (S T : Seg R) (xs ys : List (Seg R))
    (h : evalL S xs = .ok T) : evalL S (xs ++ ys) = evalL T ys := by
  induction xs generalizing S with
  | nil =>
    simp only [evalL, Except.ok.injEq] at h
    subst h; rfl
  | cons x xs ih =>
    simp only [List.cons_append, evalL] at h ⊢
    cases hc : S.comp x with
    | error e => rw [hc] at h; cases h
    | ok s => rw [hc] at h; exact ih s h

namespace STree
theorem ok_first {t : STree R} (h : t.OK) : LeafOK t.first := by
  induction t with
  | leaf S => exact h
  | node a b iha _ => exact iha h.1

theorem lastD_rest (t : STree R) : lastD t.first t.rest = t.last := by
  induction t with
  | leaf S => rfl
  | node a b _ ihb =>
    show lastD a.first (a.rest ++ b.first :: b.rest) = b.last
    rw [lastD_append, ihb]

theorem labels_eq (t : STree R) : t.labels = t.first.arr.oddpos ++ flatL t.rest := by
  induction t with
  | leaf S => simp [labels, first, rest, flatL]
  | node a b iha ihb =>
    show a.labels ++ b.labels = a.first.arr.oddpos ++ flatL (a.rest ++ b.first :: b.rest)
    rw [flatL_append, iha, ihb]
    simp only [flatL, List.append_assoc]

theorem linked_rest {t : STree R} (h : t.OK) : linked t.first t.rest := by
  induction t with
  | leaf S => trivial
  | node a b iha ihb =>
    show linked a.first (a.rest ++ b.first :: b.rest)
    exact linked_append _ _ _ _ (iha h.1) (by rw [lastD_rest]; exact h.2.2) (ok_first h.2.1)
      (ihb h.2.1)
end STree

/-! ### the left-nested contraction of good segments -/

section main
variable [AddCommMonoid R] [Mul R] [Neg R] [SignRing R] [AssocLaws R]

theorem evalL_cons_ok {S y s : Seg R} {ys : List (Seg R)} (h : S.comp y = .ok s) :
    evalL S (y :: ys) = evalL s ys := by
  show (match S.comp y with
    | .ok s => evalL s ys
    | .error e => .error e) = _
  rw [h]

/-- the left-nested contraction succeeds and keeps the invariants -/
theorem evalL_good {F La T : Seg R} {labs : List (Int × Bool)} (ys : List (Seg R))
    (g : Good F La labs T) (hl : linked La ys)
    (hd : OddposP.LabelsDistinct (labs ++ flatL ys)) :
    ∃ TL, evalL T ys = .ok TL ∧ Good F (lastD La ys) (labs ++ flatL ys) TL := by
  induction ys generalizing T La labs with
  | nil => exact ⟨T, rfl, by simpa [flatL, lastD] using g⟩
  | cons y ys ih =>
    obtain ⟨lk, hy, hl'⟩ := hl
    have hd1 : OddposP.LabelsDistinct (labs ++ y.arr.oddpos) :=
      dist_of hd _ (List.Perm.refl _) (by
        show (labs ++ y.arr.oddpos).Sublist (labs ++ (y.arr.oddpos ++ flatL ys))
        rw [← List.append_assoc]; exact List.sublist_append_left _ _)
    obtain ⟨T', e, g'⟩ := comp_good g (Good.leaf hy) lk hd1
    obtain ⟨TL, e', gl⟩ := ih g' hl' (by
      show OddposP.LabelsDistinct (labs ++ y.arr.oddpos ++ flatL ys)
      rw [List.append_assoc]; exact hd)
    refine ⟨TL, by rw [evalL_cons_ok e]; exact e', ?_⟩
    show Good F (lastD y ys) (labs ++ (y.arr.oddpos ++ flatL ys)) TL
    rw [← List.append_assoc]; exact gl

/-- equivalent good starting segments give equivalent left-nested contractions -/
theorem evalL_congr {F La T T' X : Seg R} {labs : List (Int × Bool)} (ys : List (Seg R))
    (g : Good F La labs T) (g' : Good F La labs T') (he : SegEqv T T') (hl : linked La ys)
    (hd : OddposP.LabelsDistinct (labs ++ flatL ys)) (h : evalL T ys = .ok X) :
    ∃ X', evalL T' ys = .ok X' ∧ SegEqv X X' := by
  induction ys generalizing T T' La labs with
  | nil =>
    simp only [evalL, Except.ok.injEq] at h
    subst h
    exact ⟨T', rfl, he⟩
  | cons y ys ih =>
    obtain ⟨lk, hy, hl'⟩ := hl
    have hd1 : OddposP.LabelsDistinct (labs ++ y.arr.oddpos) :=
      dist_of hd _ (List.Perm.refl _) (by
        show (labs ++ y.arr.oddpos).Sublist (labs ++ (y.arr.oddpos ++ flatL ys))
        rw [← List.append_assoc]; exact List.sublist_append_left _ _)
    obtain ⟨U, eU, gU⟩ := comp_good g (Good.leaf hy) lk hd1
    obtain ⟨U', eU', gU'⟩ := comp_good g' (Good.leaf hy) lk hd1
    obtain ⟨U'', eU'', hE⟩ := comp_congr g (Good.leaf hy) lk he (SegEqv.refl y) g'.ok.valid hy.valid eU
    rw [eU'] at eU''
    obtain rfl := Except.ok.inj eU''
    rw [evalL_cons_ok eU] at h
    rw [evalL_cons_ok eU']
    exact ih gU gU' hE hl' (by
      show OddposP.LabelsDistinct (labs ++ y.arr.oddpos ++ flatL ys)
      rw [List.append_assoc]; exact hd) h

/-- `T1 ∘ (left-nested contraction starting with T2)` is equivalent to the left-nested
    contraction starting with `T1 ∘ T2` -/
theorem comp_evalL {F1 L1 F2 L2 T1 T2 Y : Seg R} {labs1 labs2 : List (Int × Bool)}
    (ys : List (Seg R)) (g1 : Good F1 L1 labs1 T1) (g2 : Good F2 L2 labs2 T2) (lk : Link L1 F2)
    (hl : linked L2 ys) (hd : OddposP.LabelsDistinct (labs1 ++ labs2 ++ flatL ys))
    (h : evalL T2 ys = .ok Y) :
    ∃ X X' T12, T1.comp Y = .ok X ∧ T1.comp T2 = .ok T12 ∧ evalL T12 ys = .ok X' ∧ SegEqv X X' := by
  induction ys generalizing T2 L2 labs2 Y with
  | nil =>
    simp only [evalL, Except.ok.injEq] at h
    subst h
    obtain ⟨T12, e, _⟩ := comp_good g1 g2 lk (by simpa [flatL] using hd)
    exact ⟨T12, T12, T12, e, e, rfl, SegEqv.refl _⟩
  | cons z zs ih =>
    obtain ⟨lkz, hz, hl'⟩ := hl
    have hd' : OddposP.LabelsDistinct (labs1 ++ labs2 ++ z.arr.oddpos ++ flatL zs) := by
      have : labs1 ++ labs2 ++ flatL (z :: zs) = labs1 ++ labs2 ++ z.arr.oddpos ++ flatL zs := by
        show labs1 ++ labs2 ++ (z.arr.oddpos ++ flatL zs) = _
        rw [← List.append_assoc]
      rw [← this]; exact hd
    have hd3 : OddposP.LabelsDistinct (labs1 ++ labs2 ++ z.arr.oddpos) :=
      dist_of hd' _ (List.Perm.refl _) (List.sublist_append_left _ _)
    have hd12 : OddposP.LabelsDistinct (labs1 ++ labs2) :=
      dist_of hd3 _ (List.Perm.refl _) (List.sublist_append_left _ _)
    have hd2z : OddposP.LabelsDistinct (labs2 ++ z.arr.oddpos) :=
      dist_of hd3 _ (List.Perm.refl _) (by rw [List.append_assoc]; exact List.sublist_append_right _ _)
    obtain ⟨U, eU, gU⟩ := comp_good g2 (Good.leaf hz) lkz hd2z
    rw [evalL_cons_ok eU] at h
    obtain ⟨X, X'', T1U, eX, eT1U, eX'', hXX''⟩ := ih gU hl' (by
      show OddposP.LabelsDistinct (labs1 ++ (labs2 ++ z.arr.oddpos) ++ flatL zs)
      rw [← List.append_assoc]; exact hd') h
    obtain ⟨S12, S23, L, Rr, a1, a2, a3, a4, hRL⟩ := assoc_good g1 g2 (Good.leaf hz) lk lkz hd3
    rw [eU] at a3
    obtain rfl := Except.ok.inj a3
    rw [eT1U] at a4
    obtain rfl := Except.ok.inj a4
    -- invariants of the two equivalent starts
    obtain ⟨S12', b1, g12⟩ := comp_good g1 g2 lk hd12
    rw [a1] at b1
    obtain rfl := Except.ok.inj b1
    obtain ⟨L', b2, gL⟩ := comp_good g12 (Good.leaf hz) lkz hd3
    rw [a2] at b2
    obtain rfl := Except.ok.inj b2
    obtain ⟨R', b3, gR⟩ := comp_good g1 gU lk (by rw [← List.append_assoc]; exact hd3)
    rw [eT1U] at b3
    obtain rfl := Except.ok.inj b3
    rw [← List.append_assoc] at gR
    obtain ⟨X', eX', hX''X'⟩ := evalL_congr zs gR gL hRL hl' hd' eX''
    exact ⟨X, X', S12, eX, a1, by rw [evalL_cons_ok a2]; exact eX', hXX''.trans hX''X'⟩

/-- **every bracketing of a chain succeeds, keeps the invariants, and is equivalent to the
    left-nested contraction of its leaf sequence** -/
theorem tree_eqv_leftnested (t : STree R) (hok : t.OK) (hd : OddposP.LabelsDistinct t.labels) :
    ∃ T TL, t.eval = .ok T ∧ Good t.first t.last t.labels T
      ∧ evalL t.first t.rest = .ok TL ∧ Good t.first t.last t.labels TL ∧ SegEqv T TL := by
  induction t with
  | leaf S =>
    exact ⟨S, S, rfl, Good.leaf hok, rfl, Good.leaf hok, SegEqv.refl S⟩
  | node a b iha ihb =>
    obtain ⟨oa, ob, lk⟩ := hok
    have hda : OddposP.LabelsDistinct a.labels :=
      dist_of hd _ (List.Perm.refl _) (List.sublist_append_left _ _)
    have hdb : OddposP.LabelsDistinct b.labels :=
      dist_of hd _ (List.Perm.refl _) (List.sublist_append_right _ _)
    obtain ⟨Ta, TLa, ea, ga, eLa, gLa, hEa⟩ := iha oa hda
    obtain ⟨Tb, TLb, eb, gb, eLb, gLb, hEb⟩ := ihb ob hdb
    obtain ⟨T, eT, gT⟩ := comp_good ga gb lk hd
    obtain ⟨T', eT', hTT'⟩ := comp_congr ga gb lk hEa hEb gLa.ok.valid gLb.ok.valid eT
    have hd3 : OddposP.LabelsDistinct (a.labels ++ b.first.arr.oddpos ++ flatL b.rest) := by
      rw [List.append_assoc, ← STree.labels_eq]; exact hd
    obtain ⟨X, X', T12, eX, e12, eX', hXX'⟩ := comp_evalL b.rest gLa (Good.leaf (STree.ok_first ob)) lk
      (STree.linked_rest ob) hd3 eLb
    rw [eT'] at eX
    obtain rfl := Except.ok.inj eX
    have eL : evalL a.first (a.rest ++ b.first :: b.rest) = .ok X' := by
      rw [evalL_append _ _ _ _ eLa, evalL_cons_ok e12]; exact eX'
    have hfin : SegEqv T X' := hTT'.trans hXX'
    -- invariants of the left-nested result
    obtain ⟨TL', eTL', gTL'⟩ := evalL_good (STree.node a b).rest (Good.leaf (STree.ok_first (t := STree.node a b) ⟨oa, ob, lk⟩))
      (STree.linked_rest (t := STree.node a b) ⟨oa, ob, lk⟩) (by rw [← STree.labels_eq]; exact hd)
    have eL' : evalL (STree.node a b).first (STree.node a b).rest = .ok X' := eL
    rw [eL'] at eTL'
    obtain rfl := Except.ok.inj eTL'
    rw [STree.lastD_rest, ← STree.labels_eq] at gTL'
    refine ⟨T, X', ?_, gT, eL, gTL', hfin⟩
    show (match a.eval, b.eval with
      | .ok s1, .ok s2 => s1.comp s2
      | .error e, _ => .error e
      | .ok _, .error e => .error e) = _
    rw [ea, eb]
    exact eT

end main

end Assoc4P
end SymmModel
