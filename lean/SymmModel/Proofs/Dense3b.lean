/-
  SymmModel.Proofs.Dense3b — elementwise maps and order-type reductions of arrays versus the
  dense array (property C08, third part).

  * `mapA f` = `_do_unary_op(fn)` (block_core.py): `fn` applied to every STORED block.  Exact
    value of the dense form of the result at every position; it commutes with densification
    iff `f 0 = 0` or every position of the dense box lies in a stored sector.
  * `reduceA op` = `_do_reduction(fn)` = `fn(stack(map(fn, blocks)))` for a reduction that folds an
    associative, commutative, idempotent `op` (`max`, `min`, `all`, `any`): the least upper bound
    (w.r.t. `x ≤ y :⇔ op x y = y`) of the STORED entries; the same reduction of the dense array is
    the least upper bound of the stored entries and — when some position lies in a missing
    sector — the implicit `0`.

  New names live in `SymmModel.Dense3`.
-/
import SymmModel.Proofs.DenseMore

namespace SymmModel
namespace Dense3
open DenseP

variable {R : Type}

/-! ## elementwise maps -/

/-- `_do_unary_op(fn)` / `apply_to_arrays(fn)`: `f` applied to every entry of every stored block -/
def mapA (f : R → R) (a : Arr R) : Arr R :=
  { a with blocks := a.blocks.map (fun (k, b) => (k, b.map f)) }

theorem get_lt_size [Zero R] (b : Blk R) (hwf : b.wf = true) {i : List Nat}
    (hi : inBox b.shape i = true) : ravel b.shape i < b.data.size := by
  have hsz : b.data.size = prod b.shape := by simpa [Blk.wf] using hwf
  rw [hsz]; exact ravel_lt hi

/-- inside the box of a well-formed block `map` commutes with `get` for EVERY `f` -/
theorem get_map_inBox [Zero R] (f : R → R) (b : Blk R) (hwf : b.wf = true) {i : List Nat}
    (hi : inBox b.shape i = true) : (b.map f).get i = f (b.get i) := by
  have h := get_lt_size b hwf hi
  simp only [Blk.get, Blk.map]
  rw [Array.getD_eq_getD_getElem?, Array.getD_eq_getD_getElem?, Array.getElem?_map,
    Array.getElem?_eq_getElem h]
  rfl

theorem get_mem_data [Zero R] (b : Blk R) (hwf : b.wf = true) {i : List Nat}
    (hi : inBox b.shape i = true) : b.get i ∈ b.data.toList := by
  have h := get_lt_size b hwf hi
  simp only [Blk.get]
  rw [Array.getD_eq_getD_getElem?, Array.getElem?_eq_getElem h]
  exact Array.mem_toList_iff.mpr (Array.getElem_mem h)

/-- value view of `mapA f a` at an address inside the stored block's box (or of a missing sector) -/
theorem mapA_elem_exact [Zero R] [Neg R] (f : R → R) (a : Arr R) (hab : a.phases = [])
    (s : Sector) (off : List Nat)
    (hoff : ∀ b, alookup a.blocks s = some b → b.wf = true ∧ inBox b.shape off = true) :
    (mapA f a).elem s off = if s ∈ a.sectors then f (a.elem s off) else 0 := by
  rw [Arr.elem_abelian (mapA f a) hab, Arr.elem_abelian a hab]
  show (match alookup (a.blocks.map (fun (k, b) => (k, b.map f))) s with
    | none => 0 | some b => b.get off) = _
  rw [Arr.alookup_mapVals]
  cases hb : alookup a.blocks s with
  | none =>
    have : s ∉ a.sectors := by
      intro hm; rw [Arr.sectors, ← alookup_isSome_iff, hb] at hm; cases hm
    simp [this]
  | some b =>
    have : s ∈ a.sectors := by rw [Arr.sectors, ← alookup_isSome_iff, hb]; rfl
    simp only [Option.map_some, this, if_true]
    exact get_map_inBox f b (hoff b hb).1 (hoff b hb).2

/-- with `f 0 = 0` the value view is mapped everywhere -/
theorem mapA_elem [Zero R] [Neg R] (f : R → R) (h0 : f 0 = 0) (a : Arr R) (hab : a.phases = [])
    (s : Sector) (off : List Nat) : (mapA f a).elem s off = f (a.elem s off) :=
  Arr.elem_mapVals a (mapA f a) (fun b => b.map f) f h0 (fun b off => Blk.get_map f h0 b off)
    hab hab rfl s off

/-- **exact dense form of an elementwise map.**  At a position whose sector is stored the dense
    entry is mapped; at a position of a missing sector it stays `0`. -/
theorem mapA_toDense_exact_main [Zero R] [Neg R] (f : R → R) (a : Arr R) (hab : a.phases = [])
    (hne : a.indices.any (fun ix => ix.cm.isEmpty) = false) (hsh : Arr.ShapesOk a)
    (hwf : ∀ p ∈ a.blocks, p.2.wf = true) :
    ∃ d d', Arr.toDenseA a = .ok d ∧ Arr.toDenseA (mapA f a) = .ok d' ∧ d.shape = a.shape
      ∧ d'.shape = a.shape
      ∧ ∀ p, inBox a.shape p = true → ∃ sec off, Arr.locateAll a.indices p = some (sec, off)
          ∧ d.get p = a.elem sec off
          ∧ d'.get p = if sec ∈ a.sectors then f (d.get p) else 0 := by
  obtain ⟨d, d', h1, h2, s1, s2, h⟩ := Arr.toDense_rel₂ a (mapA f a) rfl hne
    (fun p u w => ∀ sec off, Arr.locateAll a.indices p = some (sec, off) →
      u = a.elem sec off ∧ w = if sec ∈ a.sectors then f u else 0)
    (fun p sec off hp hl sec' off' hl' => by
      rw [hl] at hl'
      simp only [Option.some.injEq, Prod.mk.injEq] at hl'
      obtain ⟨rfl, rfl⟩ := hl'
      exact ⟨rfl, mapA_elem_exact f a hab sec off (fun b hb =>
        ⟨hwf (sec, b) (alookup_eq_some_mem hb), hsh.inBox hp hl hb⟩)⟩)
  refine ⟨d, d', h1, h2, s1, s2, fun p hp => ?_⟩
  obtain ⟨sec, off, hl⟩ := Arr.locateAll_isSome (idx := a.indices) (p := p) hp
  exact ⟨sec, off, hl, (h p hp sec off hl).1, (h p hp sec off hl).2⟩

theorem mapA_toDense_main [Zero R] [Neg R] (f : R → R) (h0 : f 0 = 0) (a : Arr R)
    (hab : a.phases = []) (hne : a.indices.any (fun ix => ix.cm.isEmpty) = false) :
    ∃ d d', Arr.toDenseA a = .ok d ∧ Arr.toDenseA (mapA f a) = .ok d' ∧ d.shape = a.shape
      ∧ d'.shape = a.shape ∧ ∀ p, inBox a.shape p = true → d'.get p = f (d.get p) :=
  Arr.toDense_rel₂ a (mapA f a) rfl hne (fun _ u w => w = f u)
    (fun _ sec off _ _ => mapA_elem f h0 a hab sec off)

/-- every position of the dense box lies in a stored sector -/
def FullyStored (a : Arr R) : Prop :=
  ∀ p, inBox a.shape p = true → ∀ sec off, Arr.locateAll a.indices p = some (sec, off) →
    sec ∈ a.sectors

/-- **when an elementwise map commutes with densification.** -/
theorem mapA_toDense_iff_main [Zero R] [Neg R] (f : R → R) (a : Arr R) (hab : a.phases = [])
    (hne : a.indices.any (fun ix => ix.cm.isEmpty) = false) (hsh : Arr.ShapesOk a)
    (hwf : ∀ p ∈ a.blocks, p.2.wf = true) (d d' : Blk R) (hd : Arr.toDenseA a = .ok d)
    (hd' : Arr.toDenseA (mapA f a) = .ok d') :
    (∀ p, inBox a.shape p = true → d'.get p = f (d.get p)) ↔ (f 0 = 0 ∨ FullyStored a) := by
  obtain ⟨d0, d0', h1, h2, _, _, h⟩ := mapA_toDense_exact_main f a hab hne hsh hwf
  rw [hd] at h1; rw [hd'] at h2
  injection h1 with h1; injection h2 with h2
  subst h1; subst h2
  constructor
  · intro hall
    by_cases h0 : f 0 = 0
    · exact Or.inl h0
    · right
      intro p hp sec off hl
      obtain ⟨sec', off', hl', hx, hx'⟩ := h p hp
      rw [hl] at hl'
      simp only [Option.some.injEq, Prod.mk.injEq] at hl'
      obtain ⟨rfl, rfl⟩ := hl'
      by_contra hs
      have hz : d.get p = 0 := by
        rw [hx, Arr.elem_abelian a hab]
        have : alookup a.blocks sec = none := alookup_eq_none_iff.mpr hs
        rw [this]
      rw [if_neg hs, hall p hp, hz] at hx'
      exact h0 hx'
  · rintro (h0 | hfull) p hp
    · obtain ⟨sec, off, hl, hx, hx'⟩ := h p hp
      rw [hx']
      split
      · rfl
      · rename_i hs
        have : alookup a.blocks sec = none := alookup_eq_none_iff.mpr hs
        rw [hx, Arr.elem_abelian a hab, this, h0]
    · obtain ⟨sec, off, hl, hx, hx'⟩ := h p hp
      rw [hx', if_pos (hfull p hp sec off hl)]

/-! ## every stored address is the address of a position -/

theorem locateAll_surj {idx : List Index} (hnd : ∀ ix ∈ idx, (ix.cm.map (·.1)).Nodup)
    {s : Sector} {shp off : List Nat} (hs : Arr.blockShape? idx s = some shp)
    (ho : inBox shp off = true) :
    ∃ p, inBox (idx.map Index.sizeTotal) p = true ∧ Arr.locateAll idx p = some (s, off) := by
  induction idx generalizing s shp off with
  | nil =>
    cases s with
    | nil =>
      simp only [Arr.blockShape?_nil_nil, Option.some.injEq] at hs
      subst hs
      cases off with
      | nil => exact ⟨[], rfl, rfl⟩
      | cons o off => simp [inBox] at ho
    | cons c s => simp [Arr.blockShape?] at hs
  | cons ix idx ih =>
    cases s with
    | nil => simp [Arr.blockShape?] at hs
    | cons c s =>
      rw [Arr.blockShape?_cons] at hs
      cases hd : ix.sizeOf? c with
      | none => simp [hd] at hs
      | some dd =>
        cases hr : Arr.blockShape? idx s with
        | none => simp [hd, hr] at hs
        | some shp' =>
          simp only [hd, hr, Option.bind_some, Option.map_some, Option.some.injEq] at hs
          subst hs
          cases off with
          | nil => simp [inBox] at ho
          | cons o off =>
            rw [inBox_cons] at ho
            obtain ⟨p, hp, hl⟩ := ih (fun ix' h' => hnd ix' (by simp [h'])) hr ho.2
            have hmem : (c, dd) ∈ Index.sortCm ix.cm := mem_sortCm.mpr (alookup_eq_some_mem hd)
            obtain ⟨q, hq⟩ := Arr.position_isSome (nodup_keys_sortCm (hnd ix (by simp))) hmem ho.1
            have hloc := Arr.locate_position hq
            have hlt := Arr.locate_lt hloc
            rw [sumN_sortCm] at hlt
            refine ⟨q :: p, ?_, ?_⟩
            · rw [List.map_cons, inBox_cons]; exact ⟨hlt, hp⟩
            · rw [Arr.locateAll_cons, hloc, hl]; rfl

/-! ## the entries of the dense array -/

/-- the stored entries of an array -/
def StoredEntry (a : Arr R) (x : R) : Prop := ∃ sb ∈ a.blocks, x ∈ sb.2.data.toList

/-- some position of the dense box lies in a sector that is not stored -/
def HasMissing (a : Arr R) : Prop :=
  ∃ p, inBox a.shape p = true ∧ ∃ sec off, Arr.locateAll a.indices p = some (sec, off)
    ∧ sec ∉ a.sectors

theorem hasMissing_iff_not_full (a : Arr R) : HasMissing a ↔ ¬ FullyStored a := by
  constructor
  · rintro ⟨p, hp, sec, off, hl, hs⟩ hf
    exact hs (hf p hp sec off hl)
  · intro h
    by_contra hm
    apply h
    intro p hp sec off hl
    by_contra hs
    exact hm ⟨p, hp, sec, off, hl, hs⟩

/-- **the entries of the dense array** are exactly the stored entries, plus `0` when some
    position lies in a missing sector -/
theorem mem_toDense_data [Zero R] [Neg R] (a : Arr R) (hab : a.phases = [])
    (hne : a.indices.any (fun ix => ix.cm.isEmpty) = false) (hsh : Arr.ShapesOk a)
    (hnd : a.sectors.Nodup) (hwf : ∀ p ∈ a.blocks, p.2.wf = true)
    (d : Blk R) (hd : Arr.toDenseA a = .ok d) (x : R) :
    x ∈ d.data.toList ↔ (StoredEntry a x ∨ (x = 0 ∧ HasMissing a)) := by
  have hwfd : d.wf = true := by
    rw [Arr.toDenseA_eq a false hne] at hd
    injection hd with hd
    subst hd
    exact Blk.wf_ofFn _ _
  obtain ⟨d0, hd0, hsd, hget⟩ := Arr.toDenseA_get a hne
  rw [hd] at hd0
  injection hd0 with hd0
  subst hd0
  constructor
  · intro hx
    rw [← allIdx_map_get d hwfd, List.mem_map] at hx
    obtain ⟨p, hp, rfl⟩ := hx
    rw [mem_allIdx, hsd] at hp
    obtain ⟨sec, off, hl, hv⟩ := hget p hp
    rw [hv, Arr.elem_abelian a hab]
    cases hb : alookup a.blocks sec with
    | none =>
      right
      exact ⟨rfl, p, hp, sec, off, hl, alookup_eq_none_iff.mp hb⟩
    | some b =>
      left
      exact ⟨(sec, b), alookup_eq_some_mem hb,
        get_mem_data b (hwf (sec, b) (alookup_eq_some_mem hb)) (hsh.inBox hp hl hb)⟩
  · rintro (⟨⟨s, b⟩, hsb, hx⟩ | ⟨rfl, p, hp, sec, off, hl, hs⟩)
    · have hwb := hwf (s, b) hsb
      rw [← allIdx_map_get b hwb, List.mem_map] at hx
      obtain ⟨off, ho, rfl⟩ := hx
      rw [mem_allIdx] at ho
      have hlk : alookup a.blocks s = some b := alookup_of_mem_nodup hnd hsb
      obtain ⟨p, hp, hl⟩ := locateAll_surj hsh.1 (hsh.2 s b hlk) ho
      obtain ⟨sec', off', hl', hv⟩ := hget p hp
      rw [hl] at hl'
      simp only [Option.some.injEq, Prod.mk.injEq] at hl'
      obtain ⟨rfl, rfl⟩ := hl'
      have : d.get p = b.get off := by rw [hv, Arr.elem_abelian a hab, hlk]
      rw [← this]
      exact get_mem_data d hwfd (by rw [hsd]; exact hp)
    · obtain ⟨sec', off', hl', hv⟩ := hget p hp
      rw [hl] at hl'
      simp only [Option.some.injEq, Prod.mk.injEq] at hl'
      obtain ⟨rfl, rfl⟩ := hl'
      have : d.get p = 0 := by
        rw [hv, Arr.elem_abelian a hab, alookup_eq_none_iff.mpr hs]
      rw [← this]
      exact get_mem_data d hwfd (by rw [hsd]; exact hp)

/-! ## semilattice reductions (`max`, `min`, `all`, `any`) -/

/-- the laws of the reductions' binary operation -/
structure SemiLat (op : R → R → R) : Prop where
  assoc : ∀ a b c, op (op a b) c = op a (op b c)
  comm : ∀ a b, op a b = op b a
  idem : ∀ a, op a a = a

/-- `r` is the least upper bound of the set `S` for the order `x ≤ y :⇔ op x y = y` -/
structure IsLub (op : R → R → R) (S : R → Prop) (r : R) : Prop where
  ub : ∀ x, S x → op x r = r
  least : ∀ u, (∀ x, S x → op x u = u) → op r u = u

theorem IsLub.unique {op : R → R → R} (hop : SemiLat op) {S : R → Prop} {r1 r2 : R}
    (h1 : IsLub op S r1) (h2 : IsLub op S r2) : r1 = r2 := by
  have a := h1.least r2 h2.ub
  have b := h2.least r1 h1.ub
  rw [hop.comm] at b
  rw [← b, a]

theorem IsLub.congr {op : R → R → R} {S T : R → Prop} {r : R} (h : ∀ x, S x ↔ T x)
    (h1 : IsLub op S r) : IsLub op T r :=
  ⟨fun x hx => h1.ub x ((h x).mpr hx), fun u hu => h1.least u (fun x hx => hu x ((h x).mp hx))⟩

theorem IsLub.insert {op : R → R → R} (hop : SemiLat op) {S : R → Prop} {r : R}
    (h1 : IsLub op S r) (z : R) : IsLub op (fun x => S x ∨ x = z) (op r z) := by
  constructor
  · rintro x (hx | rfl)
    · rw [← hop.assoc, h1.ub x hx]
    · rw [hop.comm r x, ← hop.assoc, hop.idem]
  · intro u hu
    rw [hop.assoc, hu z (Or.inr rfl)]
    exact h1.least u (fun x hx => hu x (Or.inl hx))

theorem IsLub.single {op : R → R → R} (hop : SemiLat op) (z : R) : IsLub op (fun x => x = z) z :=
  ⟨fun x hx => by rw [hx, hop.idem], fun u hu => hu z rfl⟩

/-- least upper bound of a union from the least upper bounds of its parts -/
theorem IsLub.union {ι : Type} {op : R → R → R} (hop : SemiLat op) (I : ι → Prop)
    (S : ι → R → Prop) (rs : ι → R) (h : ∀ i, I i → IsLub op (S i) (rs i)) {r : R}
    (hr : IsLub op (fun y => ∃ i, I i ∧ y = rs i) r) :
    IsLub op (fun x => ∃ i, I i ∧ S i x) r := by
  constructor
  · rintro x ⟨i, hi, hx⟩
    have h1 := hr.ub (rs i) ⟨i, hi, rfl⟩
    rw [← h1, ← hop.assoc, (h i hi).ub x hx]
  · intro u hu
    apply hr.least
    rintro y ⟨i, hi, rfl⟩
    exact (h i hi).least u (fun x hx => hu x ⟨i, hi, hx⟩)

/-- a reduction without identity over a list: `none` on the empty list (numpy raises) -/
def reduce1 (op : R → R → R) : List R → Option R
  | [] => none
  | x :: xs => some (xs.foldl op x)

theorem foldl_isLub {op : R → R → R} (hop : SemiLat op) (l : List R) (x : R) :
    IsLub op (fun y => y ∈ x :: l) (l.foldl op x) := by
  induction l generalizing x with
  | nil => exact (IsLub.single hop x).congr (by simp)
  | cons y l ih =>
    have h := ih (op x y)
    simp only [List.foldl_cons]
    constructor
    · intro z hz
      simp only [List.mem_cons] at hz
      have hxy := h.ub (op x y) (by simp)
      rcases hz with hz | hz | hz
      · rw [hz]
        calc op x (List.foldl op (op x y) l)
            = op x (op (op x y) (List.foldl op (op x y) l)) := by rw [hxy]
          _ = op (op x (op x y)) (List.foldl op (op x y) l) := (hop.assoc _ _ _).symm
          _ = op (op (op x x) y) (List.foldl op (op x y) l) := by rw [← hop.assoc x x y]
          _ = op (op x y) (List.foldl op (op x y) l) := by rw [hop.idem]
          _ = _ := hxy
      · rw [hz]
        calc op y (List.foldl op (op x y) l)
            = op y (op (op x y) (List.foldl op (op x y) l)) := by rw [hxy]
          _ = op (op y (op x y)) (List.foldl op (op x y) l) := (hop.assoc _ _ _).symm
          _ = op (op y (op y x)) (List.foldl op (op x y) l) := by rw [hop.comm x y]
          _ = op (op (op y y) x) (List.foldl op (op x y) l) := by rw [← hop.assoc y y x]
          _ = op (op y x) (List.foldl op (op x y) l) := by rw [hop.idem]
          _ = op (op x y) (List.foldl op (op x y) l) := by rw [hop.comm y x]
          _ = _ := hxy
      · exact h.ub z (by simp [hz])
    · intro u hu
      apply h.least
      intro z hz
      simp only [List.mem_cons] at hz
      rcases hz with rfl | hz
      · rw [hop.assoc, hu y (by simp), hu x (by simp)]
      · exact hu z (by simp [hz])

theorem reduce1_isLub {op : R → R → R} (hop : SemiLat op) {l : List R} {r : R}
    (h : reduce1 op l = some r) : IsLub op (fun y => y ∈ l) r := by
  cases l with
  | nil => cases h
  | cons x l =>
    simp only [reduce1, Option.some.injEq] at h
    subst h
    exact foldl_isLub hop l x

theorem reduce1_isSome (op : R → R → R) {l : List R} (h : l ≠ []) : ∃ r, reduce1 op l = some r := by
  cases l with
  | nil => exact absurd rfl h
  | cons x l => exact ⟨_, rfl⟩

/-- the per-block reductions of `_do_reduction`; `none` when some block is empty -/
def reduceBlocks (op : R → R → R) : List (Sector × Blk R) → Option (List R)
  | [] => some []
  | sb :: rest =>
    match reduce1 op sb.2.data.toList, reduceBlocks op rest with
    | some r, some rs => some (r :: rs)
    | _, _ => none

/-- `_do_reduction(fn)` = `fn(stack(map(fn, blocks.values())))`; `none` where numpy raises
    (no blocks / an empty block) -/
def reduceA (op : R → R → R) (a : Arr R) : Option R :=
  (reduceBlocks op a.blocks).bind (reduce1 op)

theorem reduceBlocks_spec {op : R → R → R} (hop : SemiLat op) {bl : List (Sector × Blk R)}
    {rs : List R} (h : reduceBlocks op bl = some rs) :
    (∀ y, y ∈ rs → ∃ sb ∈ bl, IsLub op (fun x => x ∈ sb.2.data.toList) y)
    ∧ (∀ sb ∈ bl, ∃ y ∈ rs, IsLub op (fun x => x ∈ sb.2.data.toList) y) := by
  induction bl generalizing rs with
  | nil =>
    simp only [reduceBlocks, Option.some.injEq] at h
    subst h
    simp
  | cons sb rest ih =>
    simp only [reduceBlocks] at h
    cases h1 : reduce1 op sb.2.data.toList with
    | none => simp [h1] at h
    | some r =>
      cases h2 : reduceBlocks op rest with
      | none => simp [h1, h2] at h
      | some rs' =>
        simp only [h1, h2, Option.some.injEq] at h
        subst h
        obtain ⟨i1, i2⟩ := ih h2
        have hl := reduce1_isLub hop h1
        constructor
        · intro y hy
          rcases List.mem_cons.mp hy with rfl | hy
          · exact ⟨sb, by simp, hl⟩
          · obtain ⟨sb', hm, hh⟩ := i1 y hy
            exact ⟨sb', by simp [hm], hh⟩
        · intro sb' hm
          rcases List.mem_cons.mp hm with rfl | hm
          · exact ⟨r, by simp, hl⟩
          · obtain ⟨y, hy, hh⟩ := i2 sb' hm
            exact ⟨y, by simp [hy], hh⟩

/-- `_do_reduction` computes the least upper bound of the stored entries -/
theorem reduceA_isLub {op : R → R → R} (hop : SemiLat op) (a : Arr R) {r : R}
    (h : reduceA op a = some r) : IsLub op (StoredEntry a) r := by
  unfold reduceA at h
  cases hrs : reduceBlocks op a.blocks with
  | none => simp [hrs] at h
  | some rs =>
    simp only [hrs, Option.bind_some] at h
    obtain ⟨i1, i2⟩ := reduceBlocks_spec hop hrs
    have hr := reduce1_isLub hop h
    constructor
    · rintro x ⟨sb, hsb, hx⟩
      obtain ⟨y, hy, hl⟩ := i2 sb hsb
      rw [← hr.ub y hy, ← hop.assoc, hl.ub x hx]
    · intro u hu
      apply hr.least
      intro y hy
      obtain ⟨sb, hsb, hl⟩ := i1 y hy
      exact hl.least u (fun x hx => hu x ⟨sb, hsb, hx⟩)

/-- it is defined as soon as there is a block and no block is empty -/
theorem reduceA_isSome (op : R → R → R) (a : Arr R) (hne : a.blocks ≠ [])
    (hpos : ∀ sb ∈ a.blocks, sb.2.data.toList ≠ []) : ∃ r, reduceA op a = some r := by
  have : ∀ bl : List (Sector × Blk R), (∀ sb ∈ bl, sb.2.data.toList ≠ []) →
      ∃ rs, reduceBlocks op bl = some rs ∧ rs.length = bl.length := by
    intro bl
    induction bl with
    | nil => intro _; exact ⟨[], rfl, rfl⟩
    | cons sb rest ih =>
      intro h
      obtain ⟨r, hr⟩ := reduce1_isSome op (h sb (by simp))
      obtain ⟨rs, hrs, hl⟩ := ih (fun sb' hm => h sb' (by simp [hm]))
      exact ⟨r :: rs, by simp [reduceBlocks, hr, hrs], by simp [hl]⟩
  obtain ⟨rs, hrs, hl⟩ := this a.blocks hpos
  have hrne : rs ≠ [] := by
    intro e; rw [e] at hl
    exact hne (List.length_eq_zero_iff.mp hl.symm)
  obtain ⟨r, hr⟩ := reduce1_isSome op hrne
  exact ⟨r, by simp [reduceA, hrs, hr]⟩

/-- **reductions versus the dense array.**  The reduction of the dense array is the block
    reduction when every position is stored, and `op (block reduction) 0` when some position lies
    in a missing sector. -/
theorem reduce_toDense_main [Zero R] [Neg R]
    {op : R → R → R} (hop : SemiLat op) (a : Arr R)
    (hab : a.phases = []) (hne : a.indices.any (fun ix => ix.cm.isEmpty) = false)
    (hsh : Arr.ShapesOk a) (hnd : a.sectors.Nodup) (hwf : ∀ p ∈ a.blocks, p.2.wf = true)
    (d : Blk R) (hd : Arr.toDenseA a = .ok d) (r r' : R) (hr : reduceA op a = some r)
    (hr' : reduce1 op d.data.toList = some r') :
    (HasMissing a → r' = op r 0) ∧ (¬ HasMissing a → r' = r) := by
  have h1 := reduceA_isLub hop a hr
  have h2 := reduce1_isLub hop hr'
  have hmem := mem_toDense_data a hab hne hsh hnd hwf d hd
  constructor
  · intro hm
    refine IsLub.unique hop h2 ((h1.insert hop 0).congr (fun x => ?_))
    rw [hmem x]
    constructor
    · rintro (h | h)
      · exact Or.inl h
      · exact Or.inr ⟨h, hm⟩
    · rintro (h | ⟨h, _⟩)
      · exact Or.inl h
      · exact Or.inr h
  · intro hm
    refine IsLub.unique hop h2 (h1.congr (fun x => ?_))
    rw [hmem x]
    constructor
    · exact Or.inl
    · rintro (h | ⟨_, h⟩)
      · exact h
      · exact absurd h hm

end Dense3
end SymmModel
