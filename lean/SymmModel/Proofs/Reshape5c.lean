/-
  SymmModel.Proofs.Reshape5c — the multi-group / multi-call round trip, generically in the unfuse
  step (`FuseP.StepOK`) and the fuse call (`FuseOK`): the invariant `Inv` along the fuse calls of the
  forward plan, and the way back.
-/
import SymmModel.Proofs.Reshape5b

namespace SymmModel
namespace Reshape5
open C07 ReshapeP FuseP

variable {R : Type} [Zero R] [Neg R] [Lazy.LawfulNeg R]

/-- one fuse call: groups `G` that are the consecutive axes from `P` on, every group with at least
    two axes, all of them at or after axis `lb` -/
structure CallOk (G : List (List Nat)) (P lb nd : Nat) : Prop where
  ne : G ≠ []
  two : ∀ g ∈ G, 2 ≤ g.length
  flat : G.flatten = List.range' P G.flatten.length
  lb : lb ≤ P
  le : P + G.flatten.length ≤ nd

/-- what a fuse call does (on arrays satisfying `Good`) -/
structure FuseOK (fuse : Arr R → List (List Nat) → Except Err (Arr R))
    (unf : Arr R → Nat → Except Err (Arr R)) (Good : Arr R → Prop) : Prop where
  fuse : ∀ (y : Arr R) (G : List (List Nat)) (P : Nat), Good y → G ≠ [] → (∀ g ∈ G, 2 ≤ g.length) →
    G.flatten = List.range' P G.flatten.length → P + G.flatten.length ≤ y.ndim →
    ∃ y' mids w, fuse y G = .ok y' ∧ Good y'
      ∧ y'.indices = y.indices.take P ++ mids ++ y.indices.drop (P + G.flatten.length)
      ∧ mids.length = G.length
      ∧ (∀ (i : Nat) (g : List Nat), G[i]? = some g → ∃ (ix : Index) (exts : Extents), mids[i]? = some ix
          ∧ ix.sub = some (g.map (fun ax => y.indices.getD ax default), exts))
      ∧ ((List.range G.length).map (fun g => P + g)).reverse.foldlM unf y' = .ok w ∧ Good w ∧ VEq w y

/-! ### lists of fused indices -/

theorem expand1_append (A B : List Index) : expand1 (A ++ B) = expand1 A ++ expand1 B := by
  simp [expand1]

theorem expand1_plain {A : List Index} (h : Plain A) : expand1 A = A := by
  induction A with
  | nil => rfl
  | cons ix A ih =>
    simp only [expand1, List.flatMap_cons, h ix (by simp)]
    have := ih (fun i hi => h i (by simp [hi]))
    simp only [expand1] at this
    rw [this]; rfl

theorem mids_facts : ∀ (Ss : List (List Index)) (mids : List Index) (b : Nat), mids.length = Ss.length →
    (∀ (i : Nat) (S : List Index), Ss[i]? = some S →
      ∃ (ix : Index) (e : Extents), mids[i]? = some ix ∧ ix.sub = some (S, e)) →
    expand1 mids = Ss.flatten
    ∧ (fusedPL mids b).map (·.1) = (List.range Ss.length).map (fun g => b + g)
    ∧ ((∀ S ∈ Ss, S ≠ []) → Dep1 mids) := by
  intro Ss
  induction Ss with
  | nil =>
    intro mids b hl _
    have : mids = [] := List.length_eq_zero_iff.mp hl
    subst this
    exact ⟨rfl, rfl, fun _ ix hix => by simp at hix⟩
  | cons S Ss ih =>
    intro mids b hl h
    cases mids with
    | nil => simp at hl
    | cons m mids =>
      obtain ⟨ix, e, h0, hsub⟩ := h 0 S (by simp)
      simp only [List.getElem?_cons_zero, Option.some.injEq] at h0
      subst h0
      obtain ⟨i1, i2, i3⟩ := ih mids (b + 1) (by simpa using hl) (fun i S' hS' => by
        have := h (i + 1) S' (by simpa using hS')
        simpa using this)
      refine ⟨?_, ?_, ?_⟩
      · simp only [expand1, List.flatMap_cons, hsub, List.flatten_cons]
        simp only [expand1] at i1
        rw [i1]
      · simp only [fusedPL, hsub, List.map_cons, List.length_cons, List.range_succ_eq_map,
          List.map_map, i2, Nat.add_zero, List.cons.injEq, true_and]
        apply List.map_congr_left
        intro g _
        simp only [Function.comp]; omega
      · intro hne ix hix se hse
        rcases List.mem_cons.mp hix with rfl | hix
        · rw [hsub] at hse; injection hse with hse; subst hse
          exact hne S (by simp)
        · exact i3 (fun S' hS' => hne S' (by simp [hS'])) ix hix se hse

/-! ### the invariant along the fuse calls -/

/-- the invariant: `a` is the original array (no fused axes) -/
structure Inv (unf : Arr R → Nat → Except Err (Arr R)) (Good : Arr R → Prop) (a y : Arr R) (lb : Nat) : Prop where
  good : Good y
  exp : expand1 y.indices = a.indices
  dep : Dep1 y.indices
  plain : Plain (y.indices.drop lb)
  chain : ∃ z, ((fusedPL y.indices 0).map (·.1)).reverse.foldlM unf y = .ok z ∧ Good z ∧ VEq z a

theorem inv_init {unf : Arr R → Nat → Except Err (Arr R)} {Good : Arr R → Prop} (a : Arr R)
    (hg : Good a) (hnf : ∀ ix ∈ a.indices, ix.sub = none) : Inv unf Good a a 0 where
  good := hg
  exp := expand1_plain hnf
  dep := fun ix hix se hse => by rw [hnf ix hix] at hse; cases hse
  plain := by rw [List.drop_zero]; exact hnf
  chain := ⟨a, by rw [fusedPL_plain hnf]; rfl, hg, VEq.refl a⟩

variable {fuse : Arr R → List (List Nat) → Except Err (Arr R)}
  {unf : Arr R → Nat → Except Err (Arr R)} {Good : Arr R → Prop}
  {sg : Sym → Index → List Index → Sector → Int}

/-- one fuse call keeps the invariant -/
theorem inv_step (H : StepOK unf Good sg) (F : FuseOK fuse unf Good)
    (hind : ∀ x p y, unf x p = .ok y → ∃ ix subs exts, x.indices[p]? = some ix ∧ ix.sub = some (subs, exts))
    {a y : Arr R} {lb P : Nat} {G : List (List Nat)} (hI : Inv unf Good a y lb)
    (hc : CallOk G P lb y.ndim) :
    ∃ y', fuse y G = .ok y' ∧ Inv unf Good a y' (P + G.length)
      ∧ y'.ndim = y.ndim - G.flatten.length + G.length := by
  obtain ⟨y', mids, w, hy', gy', hidx, hml, hmids, hw, gw, hvw⟩ :=
    F.fuse y G P hI.good hc.ne hc.two hc.flat hc.le
  have hnd : y.indices.length = y.ndim := rfl
  -- the window of grouped axes
  obtain ⟨N, hN⟩ : ∃ N, N = G.flatten.length := ⟨_, rfl⟩
  have hle : P + N ≤ y.indices.length := by rw [hN, hnd]; exact hc.le
  have hsplit : y.indices = y.indices.take P ++ ((y.indices.drop P).take N ++ y.indices.drop (P + N)) := by
    rw [← List.drop_drop, List.take_append_drop, List.take_append_drop]
  have hWplain : Plain ((y.indices.drop P).take N) := by
    intro ix hix
    apply hI.plain ix
    have h1 : ix ∈ y.indices.drop P := List.mem_of_mem_take hix
    have : y.indices.drop P = (y.indices.drop lb).drop (P - lb) := by
      rw [List.drop_drop]; congr 1; have := hc.lb; omega
    rw [this] at h1
    exact List.mem_of_mem_drop h1
  have hCplain : Plain (y.indices.drop (P + N)) := by
    intro ix hix
    apply hI.plain ix
    have : y.indices.drop (P + N) = (y.indices.drop lb).drop (P + N - lb) := by
      rw [List.drop_drop]; congr 1; have := hc.lb; omega
    rw [this] at hix
    exact List.mem_of_mem_drop hix
  -- the sub-indices of the new axes
  have hSs : (G.map (fun g => g.map (fun ax => y.indices.getD ax default))).flatten
      = (y.indices.drop P).take N := by
    rw [← List.map_flatten, hc.flat, ← hN]
    apply List.ext_getElem?
    intro j
    by_cases hj : j < N
    · rw [List.getElem?_map, List.getElem?_range' (by simpa using hj), List.getElem?_take_of_lt hj,
        List.getElem?_drop]
      simp only [Option.map_some, List.getD_eq_getElem?_getD]
      have : P + 1 * j < y.indices.length := by omega
      rw [Nat.one_mul] at this ⊢
      rw [List.getElem?_eq_getElem this]; rfl
    · rw [List.getElem?_eq_none (by simp; omega), List.getElem?_eq_none (by simp; omega)]
  obtain ⟨m1, m2, m3⟩ := mids_facts (G.map (fun g => g.map (fun ax => y.indices.getD ax default))) mids P
    (by simpa using hml) (by
      intro i S hS
      rw [List.getElem?_map] at hS
      cases hg : G[i]? with
      | none => rw [hg] at hS; cases hS
      | some g =>
        rw [hg] at hS
        simp only [Option.map_some, Option.some.injEq] at hS
        subst hS
        exact hmids i g hg)
  rw [hSs] at m1
  simp only [List.length_map] at m2
  have hdepm : Dep1 mids := m3 (by
    intro S hS
    obtain ⟨g, hg, rfl⟩ := List.mem_map.mp hS
    intro hc0
    have hl0 := congrArg List.length hc0
    have h2 := hc.two g hg
    simp only [List.length_map, List.length_nil] at hl0; omega)
  have hAl : (y.indices.take P).length = P := by rw [List.length_take]; omega
  refine ⟨y', hy', ⟨gy', ?_, ?_, ?_, ?_⟩, ?_⟩
  · -- expand1
    rw [hidx, expand1_append, expand1_append, m1, ← hN, expand1_plain hCplain, ← hI.exp]
    conv => rhs; rw [hsplit, expand1_append, expand1_append, expand1_plain hWplain, expand1_plain hCplain]
    simp
  · -- Dep1
    rw [hidx]
    intro ix hix se hse
    simp only [List.mem_append] at hix
    rcases hix with (hix | hix) | hix
    · exact hI.dep ix (List.mem_of_mem_take hix) se hse
    · exact hdepm ix hix se hse
    · exact hI.dep ix (List.mem_of_mem_drop hix) se hse
  · -- plain tail
    rw [hidx, ← hN]
    have : (y.indices.take P ++ mids ++ y.indices.drop (P + N)).drop (P + G.length)
        = y.indices.drop (P + N) := by
      rw [List.drop_left' (by simp [hAl, hml])]
    rw [this]; exact hCplain
  · -- the right-to-left chain
    obtain ⟨zy, hzy, gzy, hvzy⟩ := hI.chain
    have e1 : fusedPL y.indices 0 = fusedPL (y.indices.take P) 0 := by
      conv => lhs; rw [hsplit]
      rw [fusedPL_append, fusedPL_append, fusedPL_plain hWplain, fusedPL_plain hCplain]
      simp
    have e2 : fusedPL y'.indices 0 = fusedPL (y.indices.take P) 0 ++ fusedPL mids P := by
      rw [hidx, ← hN, fusedPL_append, fusedPL_append, fusedPL_plain hCplain]
      simp [hAl]
    rw [e1] at hzy
    obtain ⟨zw, hzw, _, gzw, hvz⟩ := chain_veq H hind _ y w zy hvw.symm hI.good gw hzy
    refine ⟨zw, ?_, gzw, hvz.symm.trans hvzy⟩
    rw [e2, List.map_append, List.reverse_append, List.foldlM_append, m2, hw]
    exact hzw
  · have := congrArg List.length hidx
    simp only [List.length_append, hAl, hml, List.length_drop] at this
    have h1 : y'.indices.length = y'.ndim := rfl
    rw [← hN]; omega

/-! ### the way back -/

/-- `reshape` back: the plan unfuses all fused axes left to right; the result has the value view of
    the original array -/
theorem back_of_inv (H : StepOK unf Good sg)
    (hdisp : ∀ x p, Good x → unfuseDispatch x p = unf x p)
    (hind : ∀ x p y, unf x p = .ok y → ∃ ix subs exts, x.indices[p]? = some ix ∧ ix.sub = some (subs, exts))
    {a y : Arr R} {lb : Nat} (hI : Inv unf Good a y lb) :
    ∃ z, reshapeArr y (a.shape.map Int.ofNat) = .ok z ∧ Good z ∧ VEq z a := by
  obtain ⟨zr, hzr, _, hvzr⟩ := hI.chain
  obtain ⟨zl, zr', hl, hr, gzl, _, hv⟩ := l2r_r2l H (fusedPL y.indices 0) 0 y hI.good
    (fusedPL_sorted _ _) (by simpa using fusedPL_fusedAtL y hI.dep)
  simp only [Nat.add_zero] at hr
  rw [hzr] at hr; injection hr with hr; subst hr
  refine ⟨zl, ?_, gzl, hv.trans hvzr⟩
  have hshape : a.shape = (expand1 y.indices).map Index.sizeTotal := by rw [hI.exp]; rfl
  rw [reshapeArr_eq y _ _ a.shape _ (findFullReshape_nat a.shape y.size) (mapM_toNat a.shape)
    (by rw [hshape]; exact back_plan_arr_multi y hI.dep)]
  simp only [applyPlan, List.foldlM_nil, bind, Except.bind, pure, Except.pure]
  -- the dispatching chain is the chain of `unf`
  have key : ∀ (ps : List Nat) (x : Arr R), Good x → ps.foldlM unfuseDispatch x = ps.foldlM unf x := by
    intro ps
    induction ps with
    | nil => intro x _; rfl
    | cons p ps ih =>
      intro x hx
      rw [List.foldlM_cons, List.foldlM_cons, hdisp x p hx]
      cases hu : unf x p with
      | error e => rfl
      | ok x1 =>
        obtain ⟨ix, subs, exts, hix, hsub⟩ := hind x p x1 hu
        obtain ⟨x2, h2, g2, _⟩ := H.step x p ix subs exts hx hix hsub
        rw [hu] at h2; injection h2 with h2; subst h2
        exact ih x1 g2
  rw [key _ y hI.good, hl]

end Reshape5
end SymmModel
