/-
  SymmModel.Proofs.FuseMulti7 — arbitrary groups: every stored address of the original has a
  fused address that the per-axis `splitAddr` maps back to it (onto).
-/
import SymmModel.Proofs.FuseMulti6
namespace SymmModel
namespace FuseP
set_option linter.unusedSectionVars false

variable {R : Type}

theorem ravel_single (d x : Nat) : ravel [d] [x] = x := by simp [ravel, prod]

theorem inBox_map_getD {shp offs : List Nat} (h : inBox shp offs = true) (axes : List Nat)
    (hax : ∀ ax ∈ axes, ax < shp.length) :
    inBox (axes.map (fun ax => shp.getD ax 0)) (axes.map (fun ax => offs.getD ax 0)) = true := by
  induction axes with
  | nil => rfl
  | cons x xs ih =>
    simp only [List.map_cons, inBox_cons]
    exact ⟨(inBox_iff.1 h).2 x (hax x (by simp)), ih (fun y hy => hax y (List.mem_cons_of_mem _ hy))⟩

section Multi
variable {a : Arr R} {groups : List (List Nat)} [Zero R]

variable (a groups) in
/-- the fused offsets of an original offset vector inside the block of `sb` -/
def joinI (sb : Sector × Blk R) (offs : List Nat) : List Nat :=
  (List.range (giM a groups).position).map (fun x => offs.getD x 0)
    ++ (List.range groups.length).map (fun g => stM a groups sb g
        + ravel ((groups.getD g []).map (fun ax => sb.2.shape.getD ax 0))
            ((groups.getD g []).map (fun ax => offs.getD ax 0)))
    ++ (List.range (giM a groups).axesAfter.length).map
        (fun j => offs.getD ((giM a groups).axesAfter.getD j 0) 0)

theorem joinI_length (sb : Sector × Blk R) (offs : List Nat) :
    (joinI a groups sb offs).length = ndimM a groups := by simp [joinI, ndimM]; omega

theorem joinI_before (sb : Sector × Blk R) (offs : List Nat) {x : Nat} (hx : x < (giM a groups).position) :
    (joinI a groups sb offs).getD x 0 = offs.getD x 0 := by
  simp only [joinI]
  rw [List.append_assoc, getD_before _ _ _ _ (by simpa using hx), getD_range_map _ _ _ _ hx]

theorem joinI_mid (sb : Sector × Blk R) (offs : List Nat) {g : Nat} (hg : g < groups.length) :
    (joinI a groups sb offs).getD ((giM a groups).position + g) 0
      = stM a groups sb g + ravel ((groups.getD g []).map (fun ax => sb.2.shape.getD ax 0))
          ((groups.getD g []).map (fun ax => offs.getD ax 0)) := by
  simp only [joinI]
  have hl : ((List.range (giM a groups).position).map (fun x => offs.getD x 0)).length
      = (giM a groups).position := by simp
  have := getD_mid ((List.range (giM a groups).position).map (fun x => offs.getD x 0))
    ((List.range groups.length).map (fun g => stM a groups sb g
        + ravel ((groups.getD g []).map (fun ax => sb.2.shape.getD ax 0))
            ((groups.getD g []).map (fun ax => offs.getD ax 0))))
    ((List.range (giM a groups).axesAfter.length).map
        (fun j => offs.getD ((giM a groups).axesAfter.getD j 0) 0)) g 0 (by simpa using hg)
  rw [hl] at this
  rw [this, getD_range_map _ _ _ _ hg]

theorem joinI_after (sb : Sector × Blk R) (offs : List Nat) {j : Nat} (hj : j < (giM a groups).axesAfter.length) :
    (joinI a groups sb offs).getD ((giM a groups).position + groups.length + j) 0
      = offs.getD ((giM a groups).axesAfter.getD j 0) 0 := by
  simp only [joinI]
  have hl : ((List.range (giM a groups).position).map (fun x => offs.getD x 0)
      ++ (List.range groups.length).map (fun g => stM a groups sb g
        + ravel ((groups.getD g []).map (fun ax => sb.2.shape.getD ax 0))
            ((groups.getD g []).map (fun ax => offs.getD ax 0)))).length
      = (giM a groups).position + groups.length := by simp
  rw [← hl, getD_after, getD_range_map _ _ _ _ hj]

/-- **onto, arbitrary groups** -/
theorem fused_ontoM (hv : ValidArr a) (hok : GroupsOk groups a.ndim) {sb : Sector × Blk R}
    (hsb : sb ∈ a.blocks) {offs : List Nat} (ho : inBox sb.2.shape offs = true) :
    ∃ B, alookup (fusedBlocksM a groups) (planM a groups sb).newSector = some B
      ∧ inBox B.shape (joinI a groups sb offs) = true
      ∧ (∀ g, g < groups.length → segM a groups (planM a groups sb).newSector (joinI a groups sb offs) g
          = ((groups.getD g []).map (fun ax => sb.1.getD ax (0, 0)),
             (groups.getD g []).map (fun ax => offs.getD ax 0)))
      ∧ permuted sb.1 (giM a groups).perm = expandK a groups (planM a groups sb).newSector (joinI a groups sb offs)
      ∧ permuted offs (giM a groups).perm = expandJ a groups (planM a groups sb).newSector (joinI a groups sb offs) := by
  obtain ⟨B, hB, hBs⟩ := fusedBlockM_exists hv hok hsb
  have hshape := blockShape?_length (hv.blk sb hsb).2.1
  have hshl : sb.2.shape.length = a.ndim := by rw [hshape.2]; exact (hv.blk sb hsb).1
  have hol : offs.length = a.ndim := by rw [inBox_length ho, hshl]
  have hob := inBox_iff.1 ho
  -- per-group facts
  have hgrp : ∀ g, g < groups.length →
      inBox ((groups.getD g []).map (fun ax => sb.2.shape.getD ax 0))
        ((groups.getD g []).map (fun ax => offs.getD ax 0)) = true := by
    intro g hg
    have hgg : groups[g]? = some groups[g] := List.getElem?_eq_getElem hg
    have hgd : groups.getD g [] = groups[g] := by simp [List.getD_eq_getElem?_getD, hgg]
    rw [hgd]
    apply inBox_map_getD ho
    intro ax hax
    rw [hshl]; exact groupM_lt hok hgg ax hax
  have hseg : ∀ g, g < groups.length → segM a groups (planM a groups sb).newSector (joinI a groups sb offs) g
      = ((groups.getD g []).map (fun ax => sb.1.getD ax (0, 0)),
         (groups.getD g []).map (fun ax => offs.getD ax 0)) := by
    intro g hg
    have hgg : groups[g]? = some groups[g] := List.getElem?_eq_getElem hg
    have hgd : groups.getD g [] = groups[g] := by simp [List.getD_eq_getElem?_getD, hgg]
    simp only [segM]
    rw [joinI_mid sb offs hg]
    by_cases hm : multiB groups g = true
    · obtain ⟨gaxes, hgg', hlen⟩ := multiB_iff.1 hm
      have hgd' : groups.getD g [] = gaxes := by simp [List.getD_eq_getElem?_getD, hgg']
      obtain ⟨e, D, t1, t2, _, _, _⟩ := stored_tableM hv hok hgg' hlen hsb
      simp only [hm, if_true]
      have hc : (planM a groups sb).newSector.getD ((giM a groups).position + g) (0, 0)
          = cM (a := a) (groups := groups) sb g := rfl
      rw [hc]
      have hbs : Arr.blockShape? (gaxes.map (fun ax => a.indices.getD ax default))
          (gaxes.map (fun ax => sb.1.getD ax (0, 0))) = some (gaxes.map (fun ax => sb.2.shape.getD ax 0)) :=
        blockShape?_map (hv.blk sb hsb).2.1 gaxes (groupM_lt hok hgg')
      have hmid := hgrp g hg
      rw [hgd'] at hmid ⊢
      have hrv := ravel_lt hmid
      have hd := dM_eq (a := a) hok hgg' sb
      rw [ssM_eq hgg'] at t2
      have hj : joinAddr (ixM a groups g) (cM (a := a) (groups := groups) sb g)
          (gaxes.map (fun ax => sb.1.getD ax (0, 0))) (gaxes.map (fun ax => offs.getD ax 0))
          = some (stM a groups sb g + ravel (gaxes.map (fun ax => sb.2.shape.getD ax 0))
              (gaxes.map (fun ax => offs.getD ax 0))) := by
        simp only [joinAddr, ixM_sub (a := a) hok hgg' hlen, t1, hbs, hmid, if_true, joinOffset, t2, hd, hrv]
      rw [splitAddr_joinAddr hj]; rfl
    · have hm' : multiB groups g = false := by simpa using hm
      have hlen : groups[g].length = 1 := by
        by_contra hne; exact hm (multiB_iff.2 ⟨_, hgg, hne⟩)
      have hs0 : stM a groups sb g = 0 := by
        simp only [stM, startM, axMulti_mid hg, hm', Bool.false_eq_true, if_false]
      have hc := cM_single (a := a) hok hgg hlen sb
      have hc' : (planM a groups sb).newSector.getD ((giM a groups).position + g) (0, 0)
          = cM (a := a) (groups := groups) sb g := rfl
      simp only [hm', Bool.false_eq_true, if_false, hs0, Nat.zero_add, hgd, hc', hc]
      match hgx : groups[g], hlen with
      | [ax'], _ => simp [ravel_single]
  refine ⟨B, hB, ?_, hseg, ?_, ?_⟩
  · -- the fused offsets lie in the box of the fused block
    rw [hBs, inBox_iff]
    refine ⟨by rw [joinI_length, BshM_length], ?_⟩
    intro ax hax
    rw [BshM_length] at hax
    rw [BshM_getD sb hax]
    rcases axis_cases ax hax with h | ⟨g, hg, rfl⟩ | ⟨j, hj, rfl⟩
    · rw [joinI_before sb offs h, axMulti_before h]
      simp only [Bool.false_eq_true, if_false, planM]
      rw [planOf_newShape_before _ _ _ _ (hokD hok) h]
      have hlt : ax < a.ndim := by
        have := position_lt (hokD hok); rw [duals_length] at this; exact Nat.lt_trans h this
      exact hob.2 ax (by rw [hshl]; exact hlt)
    · rw [joinI_mid sb offs hg, axMulti_mid hg, Nat.add_sub_cancel_left]
      have hgg : groups[g]? = some groups[g] := List.getElem?_eq_getElem hg
      have hgd : groups.getD g [] = groups[g] := by simp [List.getD_eq_getElem?_getD, hgg]
      have hrv := ravel_lt (hgrp g hg)
      have hd := dM_eq (a := a) hok hgg sb
      rw [hgd] at hrv ⊢
      by_cases hm : multiB groups g = true
      · obtain ⟨gaxes, hgg', hlen⟩ := multiB_iff.1 hm
        obtain ⟨e, D, t1, t2, _, t4, t5⟩ := stored_tableM hv hok hgg' hlen hsb
        simp only [hm, if_true, t5]
        have := startOf_bound t2
        rw [t4] at this
        omega
      · have hm' : multiB groups g = false := by simpa using hm
        have hs0 : stM a groups sb g = 0 := by
          simp only [stM, startM, axMulti_mid hg, hm', Bool.false_eq_true, if_false]
        simp only [hm', Bool.false_eq_true, if_false, hs0, Nat.zero_add]
        have hd' : (planM a groups sb).newShape.getD ((giM a groups).position + g) 0
            = dM (a := a) (groups := groups) sb g := rfl
        rw [hd', hd]; exact hrv
    · rw [joinI_after sb offs hj, axMulti_after]
      simp only [Bool.false_eq_true, if_false, planM]
      rw [planOf_newShape_after _ _ _ _ (hokD hok) hj]
      exact hob.2 _ (by rw [hshl]; exact afterM_lt _ (afterM_getD_mem hj))
  · exact expandK_of_stored hok (hv.blk sb hsb).1 rfl (fun g hg => by rw [hseg g hg])
  · rw [permutedM_eq hok offs 0 hol, expandJ_parts _ _ (joinI_length sb offs)]
    congr 1
    · congr 1
      · apply List.map_congr_left
        intro x hx
        exact (joinI_before sb offs (List.mem_range.1 hx)).symm
      · congr 1
        apply List.map_congr_left
        intro g hg
        rw [hseg g (List.mem_range.1 hg)]
    · apply List.map_congr_left
      intro j hj
      exact (joinI_after sb offs (List.mem_range.1 hj)).symm

end Multi

end FuseP
end SymmModel
