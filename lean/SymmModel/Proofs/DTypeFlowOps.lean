/-
  SymmModel.Proofs.DTypeFlowOps — every operation of the dtype-flow model maps uniform operands
  to uniform results (C20b).
-/
import SymmModel.Proofs.DTypeFlowFuse
namespace SymmModel.DFlow
open SymmModel DType

/-! ### structural operations -/

theorem mapSectors_uni {d : DType} {a : DArr} (h : Uni d a.blocks) (f : Sector → Sector) :
    Uni d (a.mapSectors f) :=
  uni_adict (uni_map_key (fun p => f p.1) h)

theorem transposeD_uni {d : DType} {a : DArr} (h : Uni d a.blocks) (axes : List Nat) :
    Uni d (a.transposeD axes).blocks := by
  exact mapSectors_uni h (fun s => permuted s axes)

theorem conjD_uni {d : DType} {a : DArr} (h : Uni d a.blocks) : Uni d a.conjD.blocks := h

theorem daggerD_uni {d : DType} {a : DArr} (h : Uni d a.blocks) : Uni d a.daggerD.blocks := by
  unfold DArr.daggerD
  split
  · exact uni_map_key (fun p => p.1.reverse) h
  · exact transposeD_uni (conjD_uni h) _

theorem squeezeD_uni {d : DType} {a r : DArr} {axis : Option (List Nat)} (h : Uni d a.blocks)
    (hr : a.squeezeD axis = .ok r) : Uni d r.blocks := by
  unfold DArr.squeezeD at hr
  obtain ⟨keep, _, h2⟩ := bind_ok_iff.mp hr
  rw [← pure_ok h2]
  exact mapSectors_uni h (fun s => permuted s keep)

theorem expandDimsD_uni {d : DType} {a : DArr} (h : Uni d a.blocks) (axis : Nat) (c : Option Charge)
    (dual : Option Bool) : Uni d (a.expandDimsD axis c dual).blocks := by
  exact mapSectors_uni h (fun s => s.take axis ++ [c.getD a.sym.zero] ++ s.drop axis)

theorem syncChargesD_uni {d : DType} {a : DArr} (h : Uni d a.blocks) : Uni d a.syncChargesD.blocks := h

/-! ### fuse / unfuse / reshape -/

theorem fuseCoreD_uni {d : DType} {a : DArr} {groups : List (List Nat)} {mode : FuseMode}
    {r : DArr × Flags} (h : Uni d a.blocks) (hr : a.fuseCoreD groups mode = .ok r) :
    Uni d r.1.blocks ∧ r.2 = Flags.none := by
  unfold DArr.fuseCoreD at hr
  obtain ⟨fi, _, h2⟩ := bind_ok_iff.mp hr
  obtain ⟨b, hb, h3⟩ := bind_ok_iff.mp h2
  rw [← pure_ok h3]
  by_cases hne : a.blocks = []
  · -- no blocks: both strategies return no blocks
    rw [hne] at hb
    cases mode with
    | insert =>
      simp only [fuseBlocksD, fuseInsertD, List.foldlM_nil] at hb
      rw [← pure_ok hb]; exact ⟨uni_nil d, rfl⟩
    | concat =>
      simp only [fuseBlocksD, fuseConcatD, concatGroup, List.foldlM_nil] at hb
      obtain ⟨x, hx, h4⟩ := bind_ok_iff.mp hb
      obtain ⟨g, hg, h5⟩ := bind_ok_iff.mp hx
      rw [← pure_ok hg] at h5
      simp only [List.mapM_nil] at h5
      rw [← pure_ok h4, ← pure_ok h5]; exact ⟨uni_nil d, rfl⟩
  · rw [ex_of_uni h hne] at hb
    exact fuseBlocksD_uni h hb

theorem expandEmptyD_uni {d : DType} {x r : DArr} {expand axes : List Nat} (h : Uni d x.blocks)
    (hr : DArr.expandEmptyD x expand axes = .ok r) : Uni d r.blocks := by
  unfold DArr.expandEmptyD at hr
  split at hr
  · cases hr
  · rw [← pure_ok hr]
    rename_i g gs
    generalize gs.foldl min g = g0
    clear hr
    induction expand generalizing x with
    | nil => exact h
    | cons ax rest ih => simp only [List.foldl_cons]; exact ih (expandDimsD_uni h _ _ _)

theorem expandTailD_uni {d : DType} {xf r : DArr × Flags} {b : Bool} {expand axes : List Nat}
    (hx : Uni d xf.1.blocks ∧ xf.2 = Flags.none) (h2 : DArr.expandTailD xf b expand axes = .ok r) :
    Uni d r.1.blocks ∧ r.2 = Flags.none := by
  unfold DArr.expandTailD at h2
  split at h2
  · obtain ⟨y, hy, h3⟩ := bind_ok_iff.mp h2
    rw [← pure_ok h3]
    exact ⟨expandEmptyD_uni hx.1 hy, hx.2⟩
  · rw [← pure_ok h2]; exact hx

theorem fuseAD_uni {d : DType} {a : DArr} {groups : List (List Nat)} {mode : FuseMode} {ee : Bool}
    {r : DArr × Flags} (h : Uni d a.blocks) (hr : a.fuseAD groups mode ee = .ok r) :
    Uni d r.1.blocks ∧ r.2 = Flags.none := by
  unfold DArr.fuseAD at hr
  obtain ⟨xf, hxf, h2⟩ := bind_ok_iff.mp hr
  have hx : Uni d xf.1.blocks ∧ xf.2 = Flags.none := by
    split at hxf
    · rw [← pure_ok hxf]; exact ⟨h, rfl⟩
    · exact fuseCoreD_uni h hxf
  exact expandTailD_uni hx h2

theorem fuseFD_uni {d : DType} {a : DArr} {groups : List (List Nat)} {mode : FuseMode} {ee : Bool}
    {r : DArr × Flags} (h : Uni d a.blocks) (hr : a.fuseFD groups mode ee = .ok r) :
    Uni d r.1.blocks ∧ r.2 = Flags.none := by
  unfold DArr.fuseFD at hr
  obtain ⟨ng, _, h1⟩ := bind_ok_iff.mp hr
  obtain ⟨xf, hxf, h2⟩ := bind_ok_iff.mp h1
  have hx : Uni d xf.1.blocks ∧ xf.2 = Flags.none := by
    split at hxf
    · rw [← pure_ok hxf]; exact ⟨h, rfl⟩
    · exact fuseCoreD_uni (transposeD_uni h _) hxf
  exact expandTailD_uni hx h2

theorem fuseD_uni {d : DType} {a : DArr} {groups : List (List Nat)} {mode : FuseMode} {ee : Bool}
    {r : DArr × Flags} (h : Uni d a.blocks) (hr : a.fuseD groups mode ee = .ok r) :
    Uni d r.1.blocks ∧ r.2 = Flags.none := by
  unfold DArr.fuseD at hr
  split at hr
  · exact fuseFD_uni h hr
  · exact fuseAD_uni h hr

theorem unfusePieces_uni {subIdx : List Index} {exts : Extents} {axis : Nat} {sb : Sector × DType}
    {pieces : List (Sector × DType)} (h : DArr.unfusePieces subIdx exts axis sb = .ok pieces) :
    Uni sb.2 pieces := by
  unfold DArr.unfusePieces at h
  obtain ⟨ext, _, h2⟩ := bind_ok_iff.mp h
  intro p hp
  obtain ⟨q, _, hq⟩ := mapM_ok_mem _ _ _ h2 p hp
  split at hq
  · rw [← pure_ok hq]
  · cases hq

theorem unfuseD_uni {d : DType} {a r : DArr} {axis : Nat} (h : Uni d a.blocks)
    (hr : a.unfuseD axis = .ok r) : Uni d r.blocks := by
  unfold DArr.unfuseD at hr
  obtain ⟨ix, _, h1⟩ := bind_ok_iff.mp hr
  obtain ⟨sub, _, h2⟩ := bind_ok_iff.mp h1
  obtain ⟨nb, hnb, h3⟩ := bind_ok_iff.mp h2
  rw [← pure_ok h3]
  refine foldlM_inv (fun acc => Uni d acc) _ a.blocks [] nb ?_ (uni_nil d) hnb
  intro acc sb acc' hacc hsb hstep
  obtain ⟨pieces, hp, h4⟩ := bind_ok_iff.mp hstep
  rw [← pure_ok h4]
  have hpu := unfusePieces_uni hp
  rw [h sb hsb] at hpu
  exact uni_foldl_ainsert pieces acc hacc hpu

theorem unfuseAllD_uni {d : DType} {a r : DArr} (h : Uni d a.blocks)
    (hr : a.unfuseAllD = .ok r) : Uni d r.blocks := by
  unfold DArr.unfuseAllD at hr
  refine foldlM_inv (fun (x : DArr) => Uni d x.blocks) _ _ a r ?_ h hr
  intro x ax x' hx _ hstep
  split at hstep
  · split at hstep
    · exact unfuseD_uni hx hstep
    · rw [← pure_ok hstep]; exact hx
  · rw [← pure_ok hstep]; exact hx

theorem reshapeD_uni {d : DType} {a : DArr} {ns : List Int} {r : DArr × Flags} (h : Uni d a.blocks)
    (hr : a.reshapeD ns = .ok r) : Uni d r.1.blocks ∧ r.2 = Flags.none := by
  unfold DArr.reshapeD at hr
  obtain ⟨full, _, h1⟩ := bind_ok_iff.mp hr
  obtain ⟨ns', _, h2⟩ := bind_ok_iff.mp h1
  obtain ⟨plan, _, h3⟩ := bind_ok_iff.mp h2
  obtain ⟨x, hx, h4⟩ := bind_ok_iff.mp h3
  obtain ⟨xf, hxf, h5⟩ := bind_ok_iff.mp h4
  obtain ⟨y, hy, h6⟩ := bind_ok_iff.mp h5
  rw [← pure_ok h6]
  have hxu : Uni d x.blocks :=
    foldlM_inv (fun (x : DArr) => Uni d x.blocks) _ _ a x
      (fun b ax b' hb _ hs => unfuseD_uni hb hs) h hx
  have hxfu : Uni d xf.1.blocks ∧ xf.2 = Flags.none := by
    refine foldlM_inv (fun (x : DArr × Flags) => Uni d x.1.blocks ∧ x.2 = Flags.none) _ _ (x, Flags.none) xf
      ?_ ⟨hxu, rfl⟩ hxf
    intro b g b' hb _ hs
    obtain ⟨q, hq, h7⟩ := bind_ok_iff.mp hs
    rw [← pure_ok h7]
    obtain ⟨hq1, hq2⟩ := fuseD_uni hb.1 hq
    exact ⟨hq1, by rw [hb.2, hq2]; rfl⟩
  refine ⟨?_, hxfu.2⟩
  refine foldlM_inv (fun (x : DArr) => Uni d x.blocks) _ _ xf.1 y ?_ hxfu.1 hy
  intro b ax b' hb _ hs
  unfold DArr.expandDispatchD at hs
  split at hs
  · cases hs
  · rw [← pure_ok hs]; exact expandDimsD_uni hb _ _ _

/-! ### contraction -/

theorem accumPromote_uni {d : DType} {pairs : List (Sector × DType)} (h : Uni d pairs) :
    Uni d (accumPromote pairs) := by
  unfold accumPromote
  suffices hs : ∀ (acc : DBlocks), Uni d acc → Uni d (pairs.foldl (fun acc p =>
      match alookup acc p.1 with
      | none => acc ++ [(p.1, p.2)]
      | some cur => ainsert acc p.1 (promote cur p.2)) acc) from hs [] (uni_nil d)
  induction pairs with
  | nil => intro acc ha; exact ha
  | cons p ps ih =>
    intro acc ha
    simp only [List.foldl_cons]
    apply ih (fun q hq => h q (by simp [hq]))
    have hp : p.2 = d := h p (by simp)
    split
    · apply uni_append ha
      intro q hq
      simp only [List.mem_singleton] at hq
      rw [hq]; exact hp
    · rename_i cur hl
      apply uni_ainsert ha
      rw [uni_alookup ha hl, hp, promote_self']

theorem tdotPairs_uni {d : DType} {a b : DArr} (ha : Uni d a.blocks) (hb : Uni d b.blocks)
    (l xa xb r : List Nat) : Uni d (tdotPairs a b l xa xb r) := by
  intro p hp
  unfold tdotPairs at hp
  obtain ⟨pa, hpa, hp2⟩ := List.mem_flatMap.mp hp
  obtain ⟨pb, hpb, rfl⟩ := List.mem_map.mp hp2
  have hpb' := (List.mem_filter.mp hpb).1
  simp only [ha pa hpa, hb pb hpb', promote_self']

theorem tensordotBlockwiseD_uni {d : DType} {a b : DArr} (ha : Uni d a.blocks) (hb : Uni d b.blocks)
    (l xa xb r : List Nat) : Uni d (tensordotBlockwiseD a b l xa xb r).blocks :=
  accumPromote_uni (tdotPairs_uni ha hb l xa xb r)

theorem dropMisalignedD_uni {d : DType} {a b : DArr} (ha : Uni d a.blocks) (hb : Uni d b.blocks)
    (xa xb : List Nat) :
    Uni d (dropMisalignedD a b xa xb).1.blocks ∧ Uni d (dropMisalignedD a b xa xb).2.blocks :=
  ⟨uni_filter _ ha, uni_filter _ hb⟩

theorem tensordotViaFusedD_uni {d : DType} {a b : DArr} {l xa xb r : List Nat} {res : DArr × Flags}
    (ha : Uni d a.blocks) (hb : Uni d b.blocks) (h : tensordotViaFusedD a b l xa xb r = .ok res) :
    Uni d res.1.blocks ∧ res.2 = Flags.none := by
  unfold tensordotViaFusedD at h
  obtain ⟨ha', hb'⟩ := dropMisalignedD_uni ha hb xa xb
  generalize dropMisalignedD a b xa xb = ab at h ha' hb'
  simp only at h
  split at h
  · rw [← pure_ok h]; exact ⟨uni_nil d, rfl⟩
  · obtain ⟨af, haf, h1⟩ := bind_ok_iff.mp h
    obtain ⟨bf, hbf, h2⟩ := bind_ok_iff.mp h1
    obtain ⟨hau, haf2⟩ := fuseAD_uni ha' haf
    obtain ⟨hbu, hbf2⟩ := fuseAD_uni hb' hbf
    obtain ⟨c1, hc1, h3⟩ := bind_ok_iff.mp h2
    obtain ⟨c2, hc2, h4⟩ := bind_ok_iff.mp h3
    rw [← pure_ok h4, haf2, hbf2]
    refine ⟨?_, rfl⟩
    have hc1u : Uni d c1.blocks := by
      split at hc1
      · exact unfuseD_uni (tensordotBlockwiseD_uni hau hbu _ _ _ _) hc1
      · rw [← pure_ok hc1]; exact tensordotBlockwiseD_uni hau hbu _ _ _ _
    split at hc2
    · exact unfuseD_uni hc1u hc2
    · rw [← pure_ok hc2]; exact hc1u

theorem tensordotAD_uni {d : DType} {a b : DArr} {axes : AxesArg} {mode : TdotMode} {res : DArr × Flags}
    (ha : Uni d a.blocks) (hb : Uni d b.blocks) (h : tensordotAD a b axes mode = .ok res) :
    Uni d res.1.blocks ∧ res.2 = Flags.none := by
  unfold tensordotAD at h
  obtain ⟨ax, _, h1⟩ := bind_ok_iff.mp h
  simp only at h1
  split at h1
  · exact tensordotViaFusedD_uni ha hb h1
  · rw [← pure_ok h1]; exact ⟨tensordotBlockwiseD_uni ha hb _ _ _ _, rfl⟩

theorem tensordotD_uni {d : DType} {a b : DArr} {axes : AxesArg} {mode : TdotMode} {res : DArr × Flags}
    (ha : Uni d a.blocks) (hb : Uni d b.blocks) (h : tensordotD a b axes mode = .ok res) :
    Uni d res.1.blocks ∧ res.2 = Flags.none := by
  unfold tensordotD at h
  split at h
  · unfold tensordotFD at h
    obtain ⟨ax, _, h1⟩ := bind_ok_iff.mp h
    exact tensordotAD_uni (transposeD_uni ha _) (transposeD_uni hb _) h1
  · exact tensordotAD_uni ha hb h

theorem matmulD_uni {d : DType} {a b r : DArr} (ha : Uni d a.blocks) (hb : Uni d b.blocks)
    (h : matmulD a b = .ok r) : Uni d r.blocks := by
  unfold matmulD at h
  split at h
  · rw [← pure_ok h]; exact tensordotBlockwiseD_uni ha hb _ _ _ _
  · rw [← pure_ok h]; exact tensordotBlockwiseD_uni ha hb _ _ _ _
  · rw [← pure_ok h]; exact tensordotBlockwiseD_uni ha hb _ _ _ _
  · rw [← pure_ok h]; exact tensordotBlockwiseD_uni ha hb _ _ _ _
  · split at h <;> cases h

theorem multiplyDiagonalD_uni {d : DType} {a : DArr} {v : DVec} (ha : Uni d a.blocks)
    (hv : UniW d v.blocks) (axis : Nat) : Uni d (multiplyDiagonalD a v axis).blocks := by
  intro p hp
  unfold multiplyDiagonalD at hp
  obtain ⟨q, hq, hfq⟩ := List.mem_filterMap.mp hp
  split at hfq
  · rename_i vd hl
    injection hfq with hfq
    rw [← hfq]
    simp only [ha q hq]
    exact promote_within_right (uniW_alookup hv hl)
  · cases hfq

theorem einsumBlocks_uni {d : DType} {blocks : DBlocks} (h : Uni d blocks) (traced : List (List Nat))
    (perm : List Nat) : Uni d (einsumBlocks blocks traced perm) := by
  unfold einsumBlocks
  suffices hs : ∀ (acc : DBlocks), Uni d acc → Uni d (blocks.foldl (fun (acc : DBlocks) (sb : Sector × DType) =>
      if traced.all (fun js => sb.1[js.getD 0 0]? == sb.1[js.getD 1 0]?) then
        match alookup acc (permuted sb.1 perm) with
        | some cur => ainsert acc (permuted sb.1 perm) (promote cur sb.2)
        | none => acc ++ [(permuted sb.1 perm, sb.2)]
      else acc) acc) from hs [] (uni_nil d)
  induction blocks with
  | nil => intro acc ha; exact ha
  | cons p ps ih =>
    intro acc ha
    simp only [List.foldl_cons]
    apply ih (fun q hq => h q (by simp [hq]))
    have hp : p.2 = d := h p (by simp)
    split
    · split
      · rename_i cur hl
        apply uni_ainsert ha
        rw [uni_alookup ha hl, hp, promote_self']
      · apply uni_append ha
        intro q hq
        simp only [List.mem_singleton] at hq
        rw [hq]; exact hp
    · exact ha

theorem einsumAD_uni {d : DType} {a r : DArr} {lhs rhs : List Nat} (ha : Uni d a.blocks)
    (h : einsumAD a lhs rhs = .ok r) : Uni d r.blocks := by
  unfold einsumAD at h
  obtain ⟨perm, _, h1⟩ := bind_ok_iff.mp h
  split at h1
  · cases h1
  · rw [← pure_ok h1]; exact einsumBlocks_uni ha _ _

theorem einsumD_uni {d : DType} {a r : DArr} {lhs rhs : List Nat} (ha : Uni d a.blocks)
    (h : einsumD a lhs rhs = .ok r) : Uni d r.blocks := by
  unfold einsumD at h
  split at h
  · unfold einsumFD at h
    split at h
    · cases h
    · exact einsumAD_uni (transposeD_uni ha _) h
  · exact einsumAD_uni ha h

/-! ### blockwise arithmetic -/

theorem binaryD_uniW {κ : Type} [BEq κ] {d : DType} {m : Missing} {x y r : List (κ × DType)}
    (hx : UniW d x) (hy : UniW d y) (h : binaryD m x y = .ok r) : UniW d r := by
  have hmap : UniW d (x.map (fun p => match alookup y p.1 with
      | some e => (p.1, promote p.2 e)
      | none => p)) := by
    intro p hp
    obtain ⟨q, hq, rfl⟩ := List.mem_map.mp hp
    split
    · rename_i e hl; exact within_promote (hx q hq) (uniW_alookup hy hl)
    · exact hx q hq
  unfold binaryD at h
  cases m with
  | strict =>
    simp only at h
    split at h
    · cases h
    · split at h
      · cases h
      · rw [← pure_ok h]; exact hmap
  | outer =>
    simp only at h
    rw [← pure_ok h]
    intro p hp
    rcases List.mem_append.mp hp with hp | hp
    · exact hmap p hp
    · exact hy p (List.mem_filter.mp hp).1
  | inner =>
    simp only at h
    rw [← pure_ok h]
    intro p hp
    obtain ⟨q, hq, hfq⟩ := List.mem_filterMap.mp hp
    split at hfq
    · rename_i e hl
      injection hfq with hfq
      rw [← hfq]; exact within_promote (hx q hq) (uniW_alookup hy hl)
    · cases hfq

theorem binaryD_uni {κ : Type} [BEq κ] {d : DType} {m : Missing} {x y r : List (κ × DType)}
    (hx : Uni d x) (hy : Uni d y) (h : binaryD m x y = .ok r) : Uni d r := by
  have hmap : Uni d (x.map (fun p => match alookup y p.1 with
      | some e => (p.1, promote p.2 e)
      | none => p)) := by
    intro p hp
    obtain ⟨q, hq, rfl⟩ := List.mem_map.mp hp
    split
    · rename_i e hl
      simp only [hx q hq, uni_alookup hy hl, promote_self']
    · exact hx q hq
  unfold binaryD at h
  cases m with
  | strict =>
    simp only at h
    split at h
    · cases h
    · split at h
      · cases h
      · rw [← pure_ok h]; exact hmap
  | outer =>
    simp only at h
    rw [← pure_ok h]
    exact uni_append hmap (uni_filter _ hy)
  | inner =>
    simp only at h
    rw [← pure_ok h]
    intro p hp
    obtain ⟨q, hq, hfq⟩ := List.mem_filterMap.mp hp
    split at hfq
    · rename_i e hl
      injection hfq with hfq
      rw [← hfq]
      simp only [hx q hq, uni_alookup hy hl, promote_self']
    · cases hfq

theorem binopD_uni {d : DType} {m : Missing} {a b r : DArr} (ha : Uni d a.blocks) (hb : Uni d b.blocks)
    (h : binopD m a b = .ok r) : Uni d r.blocks := by
  unfold binopD at h
  obtain ⟨bl, hbl, h1⟩ := bind_ok_iff.mp h
  rw [← pure_ok h1]; exact binaryD_uni ha hb hbl

end SymmModel.DFlow
