/-
  SymmModel.Proofs.DTypeFlowFuse — dtype-flow of fusing / unfusing / reshape (C20b).
-/
import SymmModel.Proofs.DTypeFlowBasic
namespace SymmModel.DFlow
open SymmModel DType

theorem orErr_ok {α : Type} {e : Err} {o : Option α} {a : α} (h : orErr e o = .ok a) : o = some a := by
  cases o with
  | none => cases h
  | some b => simp only [orErr, pure, Except.pure] at h; injection h with h; rw [h]

theorem ok_inj {ε α : Type} {a b : α} (h : (Except.ok a : Except ε α) = .ok b) : a = b := by
  injection h

theorem pure_ok {α : Type} {a b : α} (h : (pure a : Except Err α) = .ok b) : a = b := by
  simp only [pure, Except.pure] at h; injection h

/-! ### insert mode -/

theorem insertTarget_spec {ex : DType} {fi : FuseInfo} {acc : DBlocks} {p : BlockPlan} {t : DType}
    (hacc : Uni ex acc) (h : insertTarget ex fi acc p = .ok t) : t = ex := by
  unfold insertTarget at h
  split at h
  · rename_i t' hl
    rw [← pure_ok h]; exact uni_alookup hacc hl
  · split at h
    · exact (pure_ok h).symm
    · cases h

theorem fuseInsertStep_spec {ex : DType} {fi : FuseInfo} {acc acc' : DBlocks × Flags} {sb : Sector × DType}
    (hacc : Uni ex acc.1) (h : fuseInsertStep ex fi acc sb = .ok acc') :
    Uni ex acc'.1 ∧ acc'.2 = acc.2.or (castFlags ex sb.2) := by
  unfold fuseInsertStep at h
  simp only [bind_ok_iff] at h
  obtain ⟨p, _, _, _, t, ht, h⟩ := h
  have := pure_ok h
  subst this
  have htex := insertTarget_spec hacc ht
  subst htex
  exact ⟨uni_ainsert hacc rfl, rfl⟩

/-- the flags of assigning every block of `blocks` into a destination of dtype `ex` -/
def insertFlags (ex : DType) (blocks : DBlocks) : Flags :=
  blocks.foldl (fun f sb => f.or (castFlags ex sb.2)) Flags.none

theorem fuseInsert_fold {ex : DType} {fi : FuseInfo} (blocks : DBlocks) :
    ∀ (acc r : DBlocks × Flags), Uni ex acc.1 → blocks.foldlM (fuseInsertStep ex fi) acc = .ok r →
      Uni ex r.1 ∧ r.2 = blocks.foldl (fun f sb => f.or (castFlags ex sb.2)) acc.2 := by
  induction blocks with
  | nil => intro acc r ha h
           have := pure_ok (by simpa [List.foldlM] using h)
           subst this; exact ⟨ha, rfl⟩
  | cons sb rest ih =>
    intro acc r ha h
    simp only [List.foldlM_cons] at h
    obtain ⟨acc', h1, h2⟩ := bind_ok_iff.mp h
    obtain ⟨hu, hf⟩ := fuseInsertStep_spec ha h1
    obtain ⟨hu', hf'⟩ := ih acc' r hu h2
    exact ⟨hu', by rw [hf', hf]; rfl⟩

/-- **insert mode, any input**: every fused block has the dtype `ex` that was passed to `zeros`,
    whatever the dtypes of the sub-blocks; the flags are those of casting every sub-block into it -/
theorem fuseInsertD_spec {ex : DType} {fi : FuseInfo} {blocks : DBlocks} {r : DBlocks × Flags}
    (h : fuseInsertD ex blocks fi = .ok r) : Uni ex r.1 ∧ r.2 = insertFlags ex blocks :=
  fuseInsert_fold blocks ([], Flags.none) r (uni_nil ex) h

theorem flags_fold_losesImag (ex : DType) (blocks : DBlocks) :
    ∀ f : Flags, (blocks.foldl (fun f sb => f.or (castFlags ex sb.2)) f).losesImag
      = (f.losesImag || blocks.any (fun sb => losesImag ex sb.2)) := by
  induction blocks with
  | nil => intro f; simp
  | cons sb rest ih =>
    intro f
    rw [List.foldl_cons, ih, List.any_cons]
    simp only [Flags.or, castFlags, Bool.or_assoc]

theorem flags_fold_narrows (ex : DType) (blocks : DBlocks) :
    ∀ f : Flags, (blocks.foldl (fun f sb => f.or (castFlags ex sb.2)) f).narrows
      = (f.narrows || blocks.any (fun sb => narrowsInto ex sb.2)) := by
  induction blocks with
  | nil => intro f; simp
  | cons sb rest ih =>
    intro f
    rw [List.foldl_cons, ih, List.any_cons]
    simp only [Flags.or, castFlags, Bool.or_assoc]

theorem flags_fold_defaulted (ex : DType) (blocks : DBlocks) :
    ∀ f : Flags, (blocks.foldl (fun f sb => f.or (castFlags ex sb.2)) f).defaulted = f.defaulted := by
  induction blocks with
  | nil => intro f; rfl
  | cons sb rest ih =>
    intro f
    rw [List.foldl_cons, ih]
    simp only [Flags.or, castFlags, Bool.or_false]

theorem insertFlags_losesImag (ex : DType) (blocks : DBlocks) :
    (insertFlags ex blocks).losesImag = blocks.any (fun sb => sb.2.isComplex && !ex.isComplex) := by
  unfold insertFlags; rw [flags_fold_losesImag]; simp [Flags.none, losesImag]

theorem insertFlags_narrows (ex : DType) (blocks : DBlocks) :
    (insertFlags ex blocks).narrows = blocks.any (fun sb => sb.2.isDouble && !ex.isDouble) := by
  unfold insertFlags; rw [flags_fold_narrows]; simp [Flags.none, narrowsInto]

theorem insertFlags_uniform {ex : DType} {blocks : DBlocks} (h : Uni ex blocks) :
    insertFlags ex blocks = Flags.none := by
  have h1 : (insertFlags ex blocks).losesImag = false := by
    rw [insertFlags_losesImag]
    apply List.any_eq_false.mpr
    intro sb hsb; rw [h sb hsb]; cases ex <;> simp [isComplex]
  have h2 : (insertFlags ex blocks).narrows = false := by
    rw [insertFlags_narrows]
    apply List.any_eq_false.mpr
    intro sb hsb; rw [h sb hsb]; cases ex <;> simp [isDouble]
  have h3 : (insertFlags ex blocks).defaulted = false := by
    unfold insertFlags; rw [flags_fold_defaulted]; rfl
  cases hf : insertFlags ex blocks with
  | mk a b c => rw [hf] at h1 h2 h3; simp at h1 h2 h3; subst h1 h2 h3; rfl

/-! ### concat mode -/

theorem subblockD_uni {d : DType} {sub : List (List Sector × DType)} (hs : Uni d sub) (key : List Sector) :
    subblockD d sub key = d := by
  unfold subblockD
  split
  · rename_i v hv; exact uni_alookup hs hv
  · rfl

theorem recurseConcatD_uni {d : DType} {fi : FuseInfo} {sub : List (List Sector × DType)} {ns : Sector}
    (hs : Uni d sub) : ∀ (fuel g : Nat) (subkey : List Sector) (r : DType),
      recurseConcatD d fi sub ns fuel g subkey = .ok r → r = d := by
  intro fuel
  induction fuel with
  | zero => intro g subkey r h; simp [recurseConcatD] at h
  | succ fuel ih =>
    intro g subkey r h
    simp only [recurseConcatD] at h
    split at h
    · split at h
      · rw [← pure_ok h]; exact subblockD_uni hs _
      · exact ih _ _ _ h
    · obtain ⟨ext, _, h2⟩ := bind_ok_iff.mp h
      obtain ⟨arrays, ha, h3⟩ := bind_ok_iff.mp h2
      refine concatD_const (d := d) ?_ h3
      intro x hx
      obtain ⟨q, _, hq⟩ := mapM_ok_mem _ _ _ ha x hx
      split at hq
      · rw [← pure_ok hq]; exact subblockD_uni hs _
      · exact ih _ _ _ hq

theorem concatGroup_uni {d : DType} {fi : FuseInfo} {blocks : DBlocks} (hb : Uni d blocks)
    {g : List (Sector × List (List Sector × DType))} (h : concatGroup fi blocks = .ok g) :
    ∀ q ∈ g, Uni d q.2 := by
  unfold concatGroup at h
  refine foldlM_inv (fun acc => ∀ q ∈ acc, Uni d q.2) _ blocks [] g ?_ (fun _ hq => by cases hq) h
  intro acc sb acc' hacc hsb hstep
  obtain ⟨p, _, h2⟩ := bind_ok_iff.mp hstep
  have := pure_ok h2
  subst this
  intro q hq
  rcases mem_ainsert hq with hq | hq
  · exact hacc q hq
  · rw [hq]
    apply uni_ainsert _ (hb sb hsb)
    cases hl : alookup acc p.newSector with
    | none => exact uni_nil d
    | some cur =>
      obtain ⟨k', hk⟩ := alookup_mem hl
      exact hacc (k', cur) hk

theorem fuseConcatD_uni {d : DType} {fi : FuseInfo} {blocks r : DBlocks} (hb : Uni d blocks)
    (h : fuseConcatD d blocks fi = .ok r) : Uni d r := by
  unfold fuseConcatD at h
  obtain ⟨g, hg, h2⟩ := bind_ok_iff.mp h
  have hgu := concatGroup_uni hb hg
  intro p hp
  obtain ⟨q, hq, hfq⟩ := mapM_ok_mem _ _ _ h2 p hp
  obtain ⟨e, he, h3⟩ := bind_ok_iff.mp hfq
  rw [← pure_ok h3]
  exact recurseConcatD_uni (hgu q hq) _ _ _ _ he

theorem fuseBlocksD_uni {d : DType} {fi : FuseInfo} {blocks : DBlocks} {mode : FuseMode}
    {r : DBlocks × Flags} (hb : Uni d blocks) (h : fuseBlocksD d blocks fi mode = .ok r) :
    Uni d r.1 ∧ r.2 = Flags.none := by
  cases mode with
  | insert =>
    obtain ⟨h1, h2⟩ := fuseInsertD_spec h
    exact ⟨h1, by rw [h2, insertFlags_uniform hb]⟩
  | concat =>
    simp only [fuseBlocksD] at h
    obtain ⟨x, hx, h2⟩ := bind_ok_iff.mp h
    rw [← pure_ok h2]
    exact ⟨fuseConcatD_uni hb hx, rfl⟩

end SymmModel.DFlow
