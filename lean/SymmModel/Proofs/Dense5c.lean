/-
  SymmModel.Proofs.Dense5c — single-operand einsum with traced labels at dense level, part 2:
  the positions of a traced label, the stored sectors that contribute as assembled sectors, and
  the main theorem `einsum_dense_main`: `dense (einsum a) = np.einsum (dense a)`.

  New names live in `SymmModel.Dense5`.
-/
import SymmModel.Proofs.Dense5b

namespace SymmModel
namespace Dense5
open TdotP DenseP

variable {R : Type}

/-! ## positions of a label -/

/-- the positions of a label in `lhs` -/
def posOf (lhs : List Nat) (lab : Nat) : List Nat := (lhs.zipIdx.filter (fun p => p.1 == lab)).map (·.2)

theorem mem_posOf {lhs : List Nat} {lab k : Nat} : k ∈ posOf lhs lab ↔ lhs[k]? = some lab := by
  unfold posOf
  rw [List.mem_map]
  constructor
  · rintro ⟨⟨x, i⟩, hm, rfl⟩
    rw [List.mem_filter] at hm
    obtain ⟨hm1, hm2⟩ := hm
    have : x = lab := by simpa using hm2
    subst this
    exact List.mem_zipIdx_iff_getElem?.mp hm1
  · intro h
    exact ⟨(lab, k), List.mem_filter.mpr ⟨List.mem_zipIdx_iff_getElem?.mpr h, by simp⟩, rfl⟩

theorem einTracedPos_eq (lhs rhs : List Nat) :
    einTracedPos lhs rhs = (einTraced lhs rhs).map (posOf lhs) := rfl

/-- a two-element list: every member is one of the two entries read by `einKeep` -/
theorem mem_pair {js : List Nat} (h : js.length = 2) {k : Nat} (hk : k ∈ js) :
    k = js.getD 0 0 ∨ k = js.getD 1 0 := by
  match js, h with
  | [x, y], _ => simpa using hk

theorem pair_mem {js : List Nat} (h : js.length = 2) : js.getD 0 0 ∈ js ∧ js.getD 1 0 ∈ js := by
  match js, h with
  | [x, y], _ => simp

/-- **what `einKeep` says**: all axes carrying the same traced label carry the same charge -/
theorem keep_eq {lhs rhs : List Nat}
    (h2 : (einTracedPos lhs rhs).any (fun js => js.length != 2) = false) {s : Sector}
    (hkeep : einKeep lhs rhs s = true) {k k' : Nat} {lab : Nat} (hlab : lab ∈ einTraced lhs rhs)
    (hk : lhs[k]? = some lab) (hk' : lhs[k']? = some lab) : s[k]? = s[k']? := by
  have hjs : posOf lhs lab ∈ einTracedPos lhs rhs := by
    rw [einTracedPos_eq]; exact List.mem_map.mpr ⟨lab, hlab, rfl⟩
  have hlen : (posOf lhs lab).length = 2 := by
    rw [List.any_eq_false] at h2
    have := h2 _ hjs
    simpa using this
  simp only [einKeep, List.all_eq_true] at hkeep
  have he := hkeep _ hjs
  simp only [beq_iff_eq] at he
  rcases mem_pair hlen (mem_posOf.mpr hk) with e1 | e1 <;>
    rcases mem_pair hlen (mem_posOf.mpr hk') with e2 | e2 <;> rw [e1, e2]
  · exact he
  · exact he.symm

/-- conversely: a sector whose traced axes carry, label by label, one charge passes `einKeep` -/
theorem keep_of_eq {lhs rhs : List Nat}
    (h2 : (einTracedPos lhs rhs).any (fun js => js.length != 2) = false) {s : Sector}
    (h : ∀ lab ∈ einTraced lhs rhs, ∀ (k k' : Nat), lhs[k]? = some lab → lhs[k']? = some lab →
      s[k]? = s[k']?) :
    einKeep lhs rhs s = true := by
  simp only [einKeep, List.all_eq_true, beq_iff_eq]
  intro js hjs
  rw [einTracedPos_eq] at hjs
  obtain ⟨lab, hlab, rfl⟩ := List.mem_map.mp hjs
  have hlen : (posOf lhs lab).length = 2 := by
    rw [List.any_eq_false] at h2
    have := h2 _ (by rw [einTracedPos_eq]; exact List.mem_map.mpr ⟨lab, hlab, rfl⟩)
    simpa using this
  obtain ⟨m0, m1⟩ := pair_mem hlen
  exact h lab hlab _ _ (mem_posOf.mp m0) (mem_posOf.mp m1)

/-! ## a contributing stored sector is an assembled sector -/

/-- the (charge, size) of every traced label in a sector -/
def eOf (a : Arr R) (lhs rhs : List Nat) (s : Sector) : List (Charge × Nat) :=
  (einTraced lhs rhs).map (fun lab =>
    (s.getD (fpos lhs lab) (0, 0), (Arr.blockShapeD a.indices s).getD (fpos lhs lab) 0))

theorem eOf_snd (a : Arr R) (lhs rhs : List Nat) (s : Sector) :
    (eOf a lhs rhs s).map (·.2)
      = (einTraced lhs rhs).map (einSize (Arr.blockShapeD a.indices s) lhs) := by
  simp only [eOf, List.map_map]
  apply List.map_congr_left
  intro lab hlab
  obtain ⟨k, h1, _⟩ := FuseP.indexOf?_of_mem (mem_einTraced.mp hlab).1
  simp [einSize, fpos, h1]

/-- a sector with the right kept part and equal charges on every traced pair is the assembly of
    its kept part and its traced charges -/
theorem asm_of_sector {lhs rhs : List Nat} (hok : EqOk lhs rhs)
    (h2 : (einTracedPos lhs rhs).any (fun js => js.length != 2) = false) {s : Sector}
    (hsl : s.length = lhs.length) (hkeep : einKeep lhs rhs s = true) (cs : Sector)
    (hcs : cs = (einTraced lhs rhs).map (fun lab => s.getD (fpos lhs lab) (0, 0))) :
    asm (0, 0) lhs rhs (permuted s (Dense4.einPermOf lhs rhs)) cs = s := by
  have hlt := Dense4.einPermOf_lt hok.rsub
  apply List.ext_getElem?
  intro k
  by_cases hk : k < lhs.length
  · rcases axis_cases (rhs := rhs) hk with ⟨j, hj1, hj2⟩ | ⟨hnr, j, hj1, hj2⟩
    · rw [asm_kept (0, 0) _ _ hk hj1]
      have hjl := FuseP.getElem?_lt hj2
      have hmem : lhs[k] ∈ rhs := List.mem_of_getElem? hj2
      have hfp : fpos lhs lhs[k] = k := by simp [fpos, hok.once k hk hmem]
      rw [List.getD_eq_getElem?_getD, getElem?_permuted _ _ (by rw [hsl]; exact hlt),
        einPermOf_getElem? hj2, hfp]
      simp [List.getElem?_eq_getElem (by rw [hsl]; exact hk : k < s.length)]
    · rw [asm_traced (0, 0) _ _ hk hnr hj1, hcs]
      have hlab : lhs[k] ∈ einTraced lhs rhs := List.mem_of_getElem? hj2
      obtain ⟨hfl, hfe⟩ := fpos_spec (List.getElem_mem hk : lhs[k] ∈ lhs)
      have := keep_eq h2 hkeep hlab (List.getElem?_eq_getElem hk)
        (by rw [List.getElem?_eq_getElem hfl, hfe] : lhs[fpos lhs lhs[k]]? = some lhs[k])
      rw [this]
      simp [List.getD_eq_getElem?_getD, List.getElem?_map, hj2,
        List.getElem?_eq_getElem (by rw [hsl]; exact hfl : fpos lhs lhs[k] < s.length)]
  · rw [List.getElem?_eq_none (by simp; omega), List.getElem?_eq_none (by omega)]

/-- the assembled sector passes `einKeep` -/
theorem keep_asm {lhs rhs : List Nat}
    (h2 : (einTracedPos lhs rhs).any (fun js => js.length != 2) = false) (s' cs : Sector) :
    einKeep lhs rhs (asm (0, 0) lhs rhs s' cs) = true := by
  apply keep_of_eq h2
  intro lab hlab k k' hk hk'
  have hkl := FuseP.getElem?_lt hk
  have hkl' := FuseP.getElem?_lt hk'
  have e1 : lhs[k] = lab := by rw [List.getElem?_eq_getElem hkl] at hk; exact Option.some.inj hk
  have e2 : lhs[k'] = lab := by rw [List.getElem?_eq_getElem hkl'] at hk'; exact Option.some.inj hk'
  have hnr : lab ∉ rhs := (mem_einTraced.mp hlab).2
  obtain ⟨j, hj1, _⟩ := FuseP.indexOf?_of_mem hlab
  rw [asm_traced (0, 0) s' cs hkl (by rw [e1]; exact hnr) (by rw [e1]; exact hj1),
    asm_traced (0, 0) s' cs hkl' (by rw [e2]; exact hnr) (by rw [e2]; exact hj1)]

end Dense5
end SymmModel
