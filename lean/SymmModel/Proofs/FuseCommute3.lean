/-
  SymmModel.Proofs.FuseCommute3 — an operand whose group `g` (anywhere, any order) was fused into
  one leg, seen by the contraction lemmas: the fused array is valid, and its element at the merged
  address `(merge [c] L, merge [k] oL)` (fused axis ↦ `(c, k)`, free part `(L, oL)`) is the
  original's element at `(merge K L, merge ok oL)` where `(K, ok)` is what the fused index's own
  table decodes `(c, k)` to.  Namespace `SymmModel.TdotP`.
-/
import SymmModel.Proofs.FuseCommute2

namespace SymmModel
namespace TdotP
variable {R : Type}

/-- a merged sector has a block shape, and the merged offsets lie in its box -/
theorem merge_box {Y : Arr R} {ya : List Nat} (hn : ya.Nodup) (hr : ∀ x ∈ ya, x < Y.ndim)
    {K L : Sector} {shpK shpL kk oL : List Nat}
    (hK : Arr.blockShape? (permuted Y.indices ya) K = some shpK)
    (hL : Arr.blockShape? (permuted Y.indices (freeAxes Y.ndim ya)) L = some shpL)
    (hbK : inBox shpK kk = true) (hbL : inBox shpL oL = true) :
    ∃ shp, Arr.blockShape? Y.indices (mergeSec Y.ndim ya K L) = some shp
      ∧ inBox shp (mergeIdx 0 Y.ndim ya (freeAxes Y.ndim ya) kk oL) = true := by
  have ean : Y.indices.length = Y.ndim := rfl
  have hKlen : K.length = ya.length := by
    rw [(blockShape?_length hK).1, permuted_length _ _ (by simpa [ean] using hr)]
  have hLlen : L.length = (freeAxes Y.ndim ya).length := by
    rw [(blockShape?_length hL).1, permuted_length _ _ (by simpa [ean] using mem_freeAxes_lt)]
  have pA : permuted (mergeSec Y.ndim ya K L) ya = K := permuted_mergeSec_axes hn hr hKlen
  have pF : permuted (mergeSec Y.ndim ya K L) (freeAxes Y.ndim ya) = L := permuted_mergeSec_free hLlen
  have hSch : List.Forall₂ (fun c (ix : Index) => c ∈ ix.charges) (mergeSec Y.ndim ya K L) Y.indices := by
    apply forall₂_of_parts (n := Y.ndim) (xa := ya) (l := freeAxes Y.ndim ya)
      (mergeSec_length _ _ _ _) ean hr mem_freeAxes_lt
    · intro y hy
      by_cases hm : y ∈ ya
      · exact Or.inl hm
      · exact Or.inr (mem_freeAxes.mpr ⟨hy, hm⟩)
    · rw [pA]; exact charges_of_blockShape? hK
    · rw [pF]; exact charges_of_blockShape? hL
  obtain ⟨shpM, hshpM⟩ := blockShape?_of_charges hSch
  have hMl : shpM.length = Y.ndim := (blockShape?_length hshpM).2
  have hMk : permuted shpM ya = shpK := by
    have := blockShape?_permuted hshpM ya (by simpa [ean] using hr)
    rw [pA, hK] at this
    exact (Option.some.inj this).symm
  have hMf : permuted shpM (freeAxes Y.ndim ya) = shpL := by
    have := blockShape?_permuted hshpM (freeAxes Y.ndim ya) (by simpa [ean] using mem_freeAxes_lt)
    rw [pF, hL] at this
    exact (Option.some.inj this).symm
  refine ⟨shpM, hshpM, ?_⟩
  have := inBox_mergeIdx (shape := shpM) (axes := ya) (k := kk) (f := oL)
    (by intro x hx; rw [hMl]; exact hr x hx) (by rw [hMk]; exact hbK)
    (by rw [hMl, hMf]; exact hbL)
  rwa [hMl] at this

section One
variable {X : Arr R} {g : List Nat}

theorem one_validB [Zero R] (hv : X.validB = true) (hf : X.fermi = false) (h : OneOk X g) :
    (FuseP.fusedArrM X [g]).validB = true := by
  have hok := h.groupsOk
  refine ValidP.fuseCore_insert_validB X _ [g] hv hf ?_
    (FuseP.fuseCore_multi_eq (FuseP.validArr_of_validB hv) hok)
  simp only [ValidP.fuseAdmissibleB, Bool.and_eq_true, List.all_eq_true, decide_eq_true_eq]
  exact ⟨allDistinct_iff_nodup.mpr hok.nodup, hok.lt⟩

theorem one_ndim [Zero R] (h : OneOk X g) : (FuseP.fusedArrM X [g]).ndim = FuseP.ndimM X [g] :=
  FuseP.newIdxM_length h.groupsOk

theorem one_pos_lt_ndimM (h : OneOk X g) : (FuseP.giM X [g]).position < FuseP.ndimM X [g] := by
  rw [one_ndimM h]; omega

theorem one_free_length (h : OneOk X g) :
    (freeAxes (FuseP.ndimM X [g]) [(FuseP.giM X [g]).position]).length = (freeAxes X.ndim g).length := by
  rw [one_ndimM h, freeAxes_succ_mid, one_free h]
  simp

theorem one_fused_index (h : OneOk X g) :
    permuted (FuseP.newIdxM X [g]) [(FuseP.giM X [g]).position] = [FuseP.ixM X [g] 0] := by
  rw [permuted_eq_map _ _ (by
    intro x hx
    simp only [List.mem_cons, List.not_mem_nil, or_false] at hx
    rw [hx, FuseP.newIdxM_length h.groupsOk]; exact one_pos_lt_ndimM h) default]
  rfl

/-- **element of the fused operand at a merged address.** -/
theorem one_merge_elem [Zero R] [Neg R] (hv : X.validB = true) (hf : X.fermi = false) (h : OneOk X g)
    {c : Charge} {D k : Nat} {K : Sector} {ok : List Nat}
    (hsz : (FuseP.ixM X [g] 0).sizeOf? c = some D) (hk : k < D)
    (hdec : decAx X [g] 0 c k = some (K, ok))
    {Ls : Sector} {oL shpL : List Nat}
    (hshpL : Arr.blockShape? (permuted X.indices (freeAxes X.ndim g)) Ls = some shpL)
    (hboxL : inBox shpL oL = true) :
    (FuseP.fusedArrM X [g]).elem
        (mergeSec (FuseP.fusedArrM X [g]).ndim [(FuseP.giM X [g]).position] [c] Ls)
        (mergeIdx 0 (FuseP.fusedArrM X [g]).ndim [(FuseP.giM X [g]).position]
          (freeAxes (FuseP.fusedArrM X [g]).ndim [(FuseP.giM X [g]).position]) [k] oL)
      = X.elem (mergeSec X.ndim g K Ls) (mergeIdx 0 X.ndim g (freeAxes X.ndim g) ok oL) := by
  have hva := FuseP.validArr_of_validB hv
  have hph : X.phases = [] := phases_nil_of_validB hv hf
  have hok := h.groupsOk
  have ean : X.indices.length = X.ndim := rfl
  have e0 : ([g] : List (List Nat))[0]? = some g := rfl
  have nF := one_ndim h
  have hpl := one_pos_lt_ndimM h
  -- the decoded group part
  obtain ⟨shpK, hshpK, hboxK⟩ := decAx_facts hva hok e0 hdec hsz hk
  have hKlen : K.length = g.length := by
    rw [(blockShape?_length hshpK).1, permuted_length _ _ (by simpa [ean] using h.lt)]
  have hoklen : ok.length = g.length := by
    rw [inBox_length hboxK, (blockShape?_length hshpK).2, permuted_length _ _ (by simpa [ean] using h.lt)]
  have hLlen : Ls.length = (freeAxes X.ndim g).length := by
    rw [(blockShape?_length hshpL).1, permuted_length _ _ (by simpa [ean] using mem_freeAxes_lt)]
  have hoLlen : oL.length = (freeAxes X.ndim g).length := by
    rw [inBox_length hboxL, (blockShape?_length hshpL).2,
      permuted_length _ _ (by simpa [ean] using mem_freeAxes_lt)]
  -- the merged address of the fused array lies in its table box
  have hnd1 : ([(FuseP.giM X [g]).position] : List Nat).Nodup := by simp
  have hr1 : ∀ x ∈ ([(FuseP.giM X [g]).position] : List Nat), x < (FuseP.fusedArrM X [g]).ndim := by
    intro x hx
    simp only [List.mem_cons, List.not_mem_nil, or_false] at hx
    rw [hx, nF]; exact hpl
  have hKf : Arr.blockShape? (permuted (FuseP.fusedArrM X [g]).indices [(FuseP.giM X [g]).position]) [c]
      = some [D] := by
    show Arr.blockShape? (permuted (FuseP.newIdxM X [g]) _) [c] = _
    rw [one_fused_index h]
    simp only [Arr.blockShape?_cons, Arr.blockShape?_nil_nil, hsz]
    rfl
  have hLf : Arr.blockShape? (permuted (FuseP.fusedArrM X [g]).indices
      (freeAxes (FuseP.fusedArrM X [g]).ndim [(FuseP.giM X [g]).position])) Ls = some shpL := by
    rw [nF]
    show Arr.blockShape? (permuted (FuseP.newIdxM X [g]) _) Ls = _
    rw [one_free_indices h]; exact hshpL
  obtain ⟨shpF, hshpF, hboxF⟩ := merge_box (Y := FuseP.fusedArrM X [g]) hnd1 hr1 hKf hLf
    (show inBox [D] [k] = true by simp [inBox, hk]) hboxL
  have hLlenF : Ls.length = (freeAxes (FuseP.fusedArrM X [g]).ndim [(FuseP.giM X [g]).position]).length := by
    rw [nF, one_free_length h]; exact hLlen
  have hoLlenF : oL.length = (freeAxes (FuseP.fusedArrM X [g]).ndim [(FuseP.giM X [g]).position]).length := by
    rw [nF, one_free_length h]; exact hoLlen
  -- the fused axis of the merged address
  have hc1 : permuted (mergeSec (FuseP.fusedArrM X [g]).ndim [(FuseP.giM X [g]).position] [c] Ls)
      [(FuseP.giM X [g]).position] = [c] := permuted_mergeSec_axes hnd1 hr1 rfl
  have hk1 : permuted (mergeIdx 0 (FuseP.fusedArrM X [g]).ndim [(FuseP.giM X [g]).position]
      (freeAxes (FuseP.fusedArrM X [g]).ndim [(FuseP.giM X [g]).position]) [k] oL)
      [(FuseP.giM X [g]).position] = [k] := permuted_mergeIdx_axes _ hnd1 hr1 rfl
  rw [permuted_eq_map _ _ (by intro x hx; rw [mergeSec_length]; exact hr1 x hx) ((0, 0) : Charge)] at hc1
  rw [permuted_eq_map _ _ (by intro x hx; rw [mergeIdx_length]; exact hr1 x hx) (0 : Nat)] at hk1
  simp only [List.map_cons, List.map_nil, List.cons.injEq, and_true] at hc1 hk1
  refine one_elem hva hph h (ns := mergeSec (FuseP.fusedArrM X [g]).ndim [(FuseP.giM X [g]).position] [c] Ls)
    (show Arr.blockShape? (FuseP.newIdxM X [g]) _ = some shpF from hshpF) hboxF
    (mergeSec_length _ _ _ _) (mergeIdx_length _ _ _ _ _ _) ?_ ?_ ?_
  · rw [hc1, hk1, permuted_mergeSec_axes h.nd h.lt hKlen, permuted_mergeIdx_axes _ h.nd h.lt hoklen]
    exact hdec
  · rw [← nF, permuted_mergeSec_free hLlenF, permuted_mergeSec_free hLlen]
  · rw [← nF, permuted_mergeIdx_free _ (freeAxes_nodup _ _) mem_freeAxes_lt
        (fun _ hx => (mem_freeAxes.mp hx).2) hoLlenF,
      permuted_mergeIdx_free _ (freeAxes_nodup _ _) mem_freeAxes_lt
        (fun _ hx => (mem_freeAxes.mp hx).2) hoLlen]

end One

end TdotP
end SymmModel
