/-
  SymmModel.Proofs.FuseMultiR3 — the general round trip, one stage: unfusing the next group
  (from the last to the first) keeps the forward description of the array.
-/
import SymmModel.Proofs.FuseMultiR2
import SymmModel.Proofs.ValidFuse
namespace SymmModel
namespace FuseP
set_option linter.unusedSectionVars false

variable {R : Type}

theorem getElem?_of_getD {α : Type} (l : List α) (d : α) {p : Nat} (hp : p < l.length) :
    l[p]? = some (l.getD p d) := by
  simp [List.getD_eq_getElem?_getD, List.getElem?_eq_getElem hp]

theorem take_succ_getD {α : Type} (l : List α) (d : α) {p : Nat} (hp : p < l.length) :
    l.take (p + 1) = l.take p ++ [l.getD p d] := by
  rw [← List.take_append_getElem hp]
  simp [List.getD_eq_getElem?_getD, List.getElem?_eq_getElem hp]

theorem three_split {α : Type} (A S T : List α) :
    (A ++ S ++ T).take A.length = A ∧ ((A ++ S ++ T).drop A.length).take S.length = S
      ∧ (A ++ S ++ T).drop (A.length + S.length) = T := by
  refine ⟨?_, ?_, ?_⟩
  · rw [List.append_assoc, List.take_left']; rfl
  · rw [List.append_assoc, List.drop_left' rfl, List.take_left' rfl]
  · have : A.length + S.length = (A ++ S).length := by simp
    rw [this, List.drop_left' rfl]

theorem list_split3 {α : Type} (J : List α) (p n : Nat) :
    J = J.take p ++ (J.drop p).take n ++ J.drop (p + n) := by
  rw [List.append_assoc, ← List.drop_drop, List.take_append_drop, List.take_append_drop]

/-- the collapsed multi-index lies in the box of the block it is read from -/
theorem collapse_inBox {Bsh sub J : List Nat} {p st d : Nat} (hp : p < Bsh.length) (hd : prod sub = d)
    (hb : st + d ≤ Bsh.getD p 0) (hJ : inBox (replaceWithSeq Bsh p sub) J = true) :
    inBox Bsh (J.take p ++ [st + ravel sub ((J.drop p).take sub.length)] ++ J.drop (p + sub.length)) = true
      ∧ inBox sub ((J.drop p).take sub.length) = true := by
  have hJl := inBox_length hJ
  simp only [replaceWithSeq_split, List.length_append, List.length_take, List.length_drop] at hJl
  have hmin : min p Bsh.length = p := by omega
  rw [hmin] at hJl
  have hJsplit : J = J.take p ++ (J.drop p).take sub.length ++ J.drop (p + sub.length) := by
    rw [List.append_assoc, ← List.drop_drop, List.take_append_drop, List.take_append_drop]
  have htl : (J.take p).length = (Bsh.take p).length := by
    simp only [List.length_take]; omega
  have hsl : ((J.drop p).take sub.length).length = sub.length := by
    simp only [List.length_take, List.length_drop]; omega
  rw [hJsplit, replaceWithSeq_split, inBox_append (by rw [List.length_append, htl, hsl, List.length_append]),
    inBox_append htl] at hJ
  simp only [Bool.and_eq_true] at hJ
  obtain ⟨⟨hJ1, hJ2⟩, hJ3⟩ := hJ
  refine ⟨?_, hJ2⟩
  have hr := ravel_lt hJ2
  rw [list_split_at Bsh p 0 hp, inBox_append (by simp [htl]), inBox_append htl, hJ1, hJ3]
  simp only [inBox, Bool.and_true, Bool.true_and, decide_eq_true_eq]
  omega

section Multi
variable {a : Arr R} {groups : List (List Nat)} [Zero R]

variable (a groups) in
/-- unfuse the group `g` if it is a multi-axis group -/
def stageStep (x : Arr R) (g : Nat) : Except Err (Arr R) :=
  if multiB groups g then unfuseA x ((giM a groups).position + g) else pure x

theorem ndimM_ge : (giM a groups).position + groups.length ≤ ndimM a groups := by
  simp only [ndimM]; omega

/-- expanding a single-axis group changes nothing -/
theorem stage_single (hv : ValidArr a) (hok : GroupsOk groups a.ndim) {j : Nat} (hj : j < groups.length)
    (hm : multiB groups (groups.length - (j + 1)) = false) :
    (∀ sb, KM a groups sb (j + 1) = KM a groups sb j)
    ∧ (∀ sb ∈ a.blocks, SM a groups sb (j + 1) = SM a groups sb j)
    ∧ (∀ sb ∈ a.blocks, ∀ offs, inBox sb.2.shape offs = true → IM a groups sb offs (j + 1) = IM a groups sb offs j)
    ∧ idxStage a groups (j + 1) = idxStage a groups j := by
  have hg : groups.length - (j + 1) < groups.length := by omega
  have hgg : groups[groups.length - (j + 1)]? = some groups[groups.length - (j + 1)] :=
    List.getElem?_eq_getElem hg
  have hgd : groups.getD (groups.length - (j + 1)) [] = groups[groups.length - (j + 1)] := by
    simp [List.getD_eq_getElem?_getD, hgg]
  have hlen : groups[groups.length - (j + 1)].length = 1 := by
    by_contra hne
    have := multiB_iff.2 ⟨_, hgg, hne⟩
    rw [hm] at this; cases this
  refine ⟨?_, ?_, ?_, ?_⟩
  · intro sb
    apply partG_single (0, 0) hj (by rw [planM_newSector_length hok]; exact ndimM_ge)
    have hc := cM_single (a := a) hok hgg hlen sb
    simp only [cM] at hc
    rw [hc]
    simp only [segS, hgd]
    match hgx : groups[groups.length - (j + 1)], hlen with
    | [ax'], _ => simp
  · intro sb hsb
    apply partG_single 0 hj (by rw [BshM_length]; exact ndimM_ge)
    rw [BshM_getD sb (by simp only [ndimM]; omega), axMulti_mid hg, hm]
    simp only [Bool.false_eq_true, if_false]
    have hd := dM_single (a := a) hok hgg hlen sb
    simp only [dM] at hd
    rw [hd]
    simp only [segSh, hgd]
    match hgx : groups[groups.length - (j + 1)], hlen with
    | [ax'], _ => simp
  · intro sb hsb offs ho
    apply partG_single 0 hj (by rw [joinI_length]; exact ndimM_ge)
    rw [joinI_mid sb offs hg]
    have hs0 : stM a groups sb (groups.length - (j + 1)) = 0 := by
      simp only [stM, startM, axMulti_mid hg, hm, Bool.false_eq_true, if_false]
    simp only [segO, hgd, hs0, Nat.zero_add]
    match hgx : groups[groups.length - (j + 1)], hlen with
    | [ax'], _ => simp [ravel_single]
  · apply partG_single default hj (by rw [newIdxM_length hok]; exact ndimM_ge)
    have h1 := ixM_single (a := a) hok hgg hlen
    simp only [ixM] at h1
    rw [h1]
    simp only [segIx, hgd]
    match hgx : groups[groups.length - (j + 1)], hlen with
    | [ax'], _ => simp

end Multi

end FuseP
end SymmModel
