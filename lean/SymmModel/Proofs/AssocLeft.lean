/-
  SymmModel.Proofs.AssocLeft — towards S7 of property C04: the canonical three-operand form
  (`W3`, `S3`) and the expansion of route `(A·B)·C` into it.  Namespace `SymmModel.AssocP`.
-/
import SymmModel.Proofs.AssocFrame
import SymmModel.Proofs.AssocSum

namespace SymmModel
namespace AssocP
open TdotP GradedP RoutesP KoszulP
open Lazy (sgnI)
set_option linter.unusedSectionVars false

variable {R : Type}

/-- axes of `A·B` contracted with `C` on route `(A·B)·C` -/
def axesAB (nA nB : Nat) (xa xb1 xb2 : List Nat) : List Nat :=
  (positions (freeAxes nB xb1) xb2).map ((freeAxes nA xa).length + ·)

/-- axes of `B·C` contracted with `A` on route `A·(B·C)` -/
def axesBC (nB : Nat) (xb1 xb2 : List Nat) : List Nat := positions (freeAxes nB xb2) xb1

/-- the sign of a stored sector triple in the three-operand graded contraction -/
def S3 (A B C : Arr R) (xa xb1 xb2 xc : List Nat) (t : Sector × Sector × Sector) : Int :=
  koszul (A.parities t.1) (some (freeAxes A.ndim xa ++ xa))
    * koszul (B.parities t.2.1) (some (xb1 ++ freeAxes B.ndim (xb1 ++ xb2) ++ xb2))
    * koszul (C.parities t.2.2) (some (xc ++ freeAxes C.ndim xc))
    * (-1) ^ (oddContracted A xa t.1 * (oddContracted A xa t.1 - 1) / 2)
    * (-1) ^ (oddContracted B xb2 t.2.1 * (oddContracted B xb2 t.2.1 - 1) / 2)
    * (-1) ^ ketOdd A xa t.1 * (-1) ^ ketOdd B xb2 t.2.1

/-- the plain three-operand contraction of a stored sector triple at the free offsets -/
def W3 [AddMonoid R] [Mul R] [Neg R] (A B C : Arr R) (xa xb1 xb2 xc : List Nat) (oA oM oC : List Nat)
    (t : Sector × Sector × Sector) : R :=
  ((allIdx (permuted (Arr.blockShapeD A.indices t.1) xa)).map (fun k1 =>
    ((allIdx (permuted (Arr.blockShapeD B.indices t.2.1) xb2)).map (fun k2 =>
      A.elem t.1 (mergeIdx 0 A.ndim xa (freeAxes A.ndim xa) k1 oA)
        * (B.elem t.2.1 (mergeIdx 0 B.ndim (xb1 ++ xb2) (freeAxes B.ndim (xb1 ++ xb2)) (k1 ++ k2) oM)
          * C.elem t.2.2 (mergeIdx 0 C.ndim xc (freeAxes C.ndim xc) k2 oC)))).sum)).sum

/-- the stored sector triples of route `(A·B)·C`, in visiting order -/
def triplesL (A B C AB : Arr R) (xa xb1 xb2 xc : List Nat) (s : Sector) :
    List (Sector × Sector × Sector) :=
  (storedPairs AB C (freeAxes AB.ndim (axesAB A.ndim B.ndim xa xb1 xb2))
      (axesAB A.ndim B.ndim xa xb1 xb2) xc (freeAxes C.ndim xc) s).flatMap (fun p =>
    (storedPairs A B (freeAxes A.ndim xa) xa xb1 (freeAxes B.ndim xb1) p.1).map
      (fun q => (q.1, q.2, p.2)))

/-! ### geometry of the intermediate result `A·B` -/

section geomL
variable {nA nB : Nat} {xa xb1 xb2 : List Nat}

theorem axesAB_len (h : Mid nB xb1 xb2) : (axesAB nA nB xa xb1 xb2).length = xb2.length := by
  unfold axesAB; rw [List.length_map, h.pos_len]

theorem axesAB_getD (h : Mid nB xb1 xb2) (j : Nat) (hj : j < xb2.length) :
    (axesAB nA nB xa xb1 xb2).getD j 0
        = (freeAxes nA xa).length + (positions (freeAxes nB xb1) xb2).getD j 0
      ∧ (positions (freeAxes nB xb1) xb2).getD j 0 < (freeAxes nB xb1).length
      ∧ (freeAxes nB xb1).getD ((positions (freeAxes nB xb1) xb2).getD j 0) 0 = xb2.getD j 0 := by
  have hjp : j < (positions (freeAxes nB xb1) xb2).length := by rw [h.pos_len]; exact hj
  refine ⟨?_, ?_, ?_⟩
  · unfold axesAB
    simp [List.getD_eq_getElem?_getD, List.getElem?_map, List.getElem?_eq_getElem hjp]
  · rw [List.getD_eq_getElem?_getD, List.getElem?_eq_getElem hjp]
    exact h.pos_lt _ (List.getElem_mem hjp)
  · rw [← getD_permuted_ax (freeAxes nB xb1) _ h.pos_lt j hjp 0, h.pos_spec]

theorem axesAB_nodup (h : Mid nB xb1 xb2) : (axesAB nA nB xa xb1 xb2).Nodup := by
  unfold axesAB
  exact h.pos_nodup.map (fun x y hxy => by omega)

theorem axesAB_lt (h : Mid nB xb1 xb2) :
    ∀ i ∈ axesAB nA nB xa xb1 xb2, i < (freeAxes nA xa).length + (freeAxes nB xb1).length := by
  intro i hi
  unfold axesAB at hi
  obtain ⟨p, hp, rfl⟩ := List.mem_map.mp hi
  have := h.pos_lt p hp
  omega

/-- the free axes of `A·B` on the second call: `A`'s free legs, then `B`'s legs that stay free -/
theorem freeAB (nA nB : Nat) (xa xb1 xb2 : List Nat) :
    freeAxes ((freeAxes nA xa).length + (freeAxes nB xb1).length) (axesAB nA nB xa xb1 xb2)
      = List.range (freeAxes nA xa).length
        ++ (freeAxes (freeAxes nB xb1).length (positions (freeAxes nB xb1) xb2)).map
            ((freeAxes nA xa).length + ·) := by
  unfold axesAB
  exact freeAxes_shift _ _ _

variable {α : Type}

/-- contracted part of a list laid out like a sector of `A·B` -/
theorem readAB_ax (h : Mid nB xb1 xb2) (u z : List α) (hu : u.length = (freeAxes nA xa).length)
    (hz : z.length = nB) :
    permuted (u ++ permuted z (freeAxes nB xb1)) (axesAB nA nB xa xb1 xb2) = permuted z xb2 := by
  unfold axesAB
  rw [← hu, permuted_append_map_add, h.read_ax z hz]

/-- free part of a list laid out like a sector of `A·B` -/
theorem readAB_free (h : Mid nB xb1 xb2) (u z : List α) (hu : u.length = (freeAxes nA xa).length)
    (hz : z.length = nB) :
    permuted (u ++ permuted z (freeAxes nB xb1))
        (freeAxes ((freeAxes nA xa).length + (freeAxes nB xb1).length) (axesAB nA nB xa xb1 xb2))
      = u ++ permuted z (freeAxes nB (xb1 ++ xb2)) := by
  rw [freeAB, ← hu, permuted_append_id_shift, h.read_free z hz]

end geomL

/-! ### the sign of a triple on route `(A·B)·C` -/

section signL
variable [AddMonoid R] [Mul R] [Neg R]
variable {A B C AB : Arr R} {xa xb1 xb2 xc : List Nat} {ph : Int}

theorem parities_AB (I : Inter A B xa xb1 AB ph) (hsym : A.sym = B.sym) (sa sb : Sector) :
    AB.parities (permuted sa (freeAxes A.ndim xa) ++ permuted sb (freeAxes B.ndim xb1))
      = permuted (A.parities sa) (freeAxes A.ndim xa) ++ permuted (B.parities sb) (freeAxes B.ndim xb1) := by
  unfold Arr.parities
  rw [I.sym, List.map_append, ← permuted_map, ← permuted_map, hsym]

theorem ketOdd_AB (I : Inter A B xa xb1 AB ph) (hsym : A.sym = B.sym) (h : Mid B.ndim xb1 xb2)
    (sa sb : Sector) (hsa : sa.length = A.ndim) (hsb : sb.length = B.ndim) :
    ketOdd AB (axesAB A.ndim B.ndim xa xb1 xb2)
        (permuted sa (freeAxes A.ndim xa) ++ permuted sb (freeAxes B.ndim xb1))
      = ketOdd B xb2 sb := by
  unfold ketOdd
  have hl := axesAB_len (nA := A.ndim) (xa := xa) h
  have eL : axesAB A.ndim B.ndim xa xb1 xb2
      = (List.range xb2.length).map (fun j => (axesAB A.ndim B.ndim xa xb1 xb2).getD j 0) := by
    have := list_eq_map_getD (axesAB A.ndim B.ndim xa xb1 xb2)
    rwa [hl] at this
  have eR := list_eq_map_getD xb2
  rw [eL]
  conv => rhs; rw [eR]
  apply count_two_maps
  intro j hj
  obtain ⟨e1, e2, e3⟩ := axesAB_getD (nA := A.ndim) (xa := xa) h j hj
  have hp := I.leg_right _ e2
  rw [e3] at hp
  have hjp : j < (List.range xb2.length).length := by simpa using hj
  rw [e1, hp.1, I.sym, hsym]
  refine ⟨rfl, ?_⟩
  have hlen : (permuted sa (freeAxes A.ndim xa)).length = (freeAxes A.ndim xa).length :=
    permuted_length _ _ (by intro x hx; rw [hsa]; exact (mem_freeAxes.mp hx).1)
  rw [List.getD_eq_getElem?_getD, List.getElem?_append_right (by rw [hlen]; omega), hlen,
    Nat.add_sub_cancel_left, ← List.getD_eq_getElem?_getD,
    getD_permuted_ax sb _ (by rw [hsb]; exact h.flt) _ e2, e3]

/-- **sign of a triple, route `(A·B)·C`** -/
theorem sign_left (I : Inter A B xa xb1 AB ph) (hsym : A.sym = B.sym) (h : Mid B.ndim xb1 xb2)
    (sa sb sc : Sector) (hsa : sa.length = A.ndim) (hsb : sb.length = B.ndim) :
    gradedSign AB C (axesAB A.ndim B.ndim xa xb1 xb2) xc
        (permuted sa (freeAxes A.ndim xa) ++ permuted sb (freeAxes B.ndim xb1)) sc
      * gradedSign A B xa xb1 sa sb
      = S3 A B C xa xb1 xb2 xc (sa, sb, sc) := by
  have hlA : (permuted sa (freeAxes A.ndim xa)).length = (freeAxes A.ndim xa).length :=
    permuted_length _ _ (by intro x hx; rw [hsa]; exact (mem_freeAxes.mp hx).1)
  have hpA : (permuted (A.parities sa) (freeAxes A.ndim xa)).length = (freeAxes A.ndim xa).length :=
    permuted_length _ _ (by
      intro x hx; unfold Arr.parities; rw [List.length_map, hsa]; exact (mem_freeAxes.mp hx).1)
  have hpB : (permuted (B.parities sb) (freeAxes B.ndim xb1)).length = (freeAxes B.ndim xb1).length :=
    permuted_length _ _ (by
      intro x hx; unfold Arr.parities; rw [List.length_map, hsb]; exact (mem_freeAxes.mp hx).1)
  have hparB : (B.parities sb).length = B.ndim := by unfold Arr.parities; rw [List.length_map, hsb]
  -- the Koszul sign of the intermediate sector
  have k1 : koszul (AB.parities (permuted sa (freeAxes A.ndim xa) ++ permuted sb (freeAxes B.ndim xb1)))
      (some (freeAxes AB.ndim (axesAB A.ndim B.ndim xa xb1 xb2) ++ axesAB A.ndim B.ndim xa xb1 xb2))
      = koszul (permuted (B.parities sb) (freeAxes B.ndim xb1))
          (some (freeAxes (freeAxes B.ndim xb1).length (positions (freeAxes B.ndim xb1) xb2)
            ++ positions (freeAxes B.ndim xb1) xb2)) := by
    rw [parities_AB I hsym, I.ndim, freeAB]
    have hq := perm_left h.pos_nodup h.pos_lt
    have := koszul_id_block_left (permuted (A.parities sa) (freeAxes A.ndim xa))
      (permuted (B.parities sb) (freeAxes B.ndim xb1))
      (freeAxes (freeAxes B.ndim xb1).length (positions (freeAxes B.ndim xb1) xb2)
        ++ positions (freeAxes B.ndim xb1) xb2) (hpB.symm ▸ hq)
    rw [hpA, List.map_append] at this
    unfold axesAB
    rw [List.append_assoc]
    exact this
  have k2 := h.koszul_left (B.parities sb) hparB
  have o1 : oddContracted AB (axesAB A.ndim B.ndim xa xb1 xb2)
      (permuted sa (freeAxes A.ndim xa) ++ permuted sb (freeAxes B.ndim xb1))
      = oddContracted B xb2 sb := by
    unfold oddContracted
    rw [readAB_ax h _ sb hlA hsb, I.sym, hsym]
  have o2 := ketOdd_AB I hsym h sa sb hsa hsb
  unfold gradedSign S3
  rw [k1, o1, o2, ← k2]
  simp only []
  ring

end signL

/-! ### the value on route `(A·B)·C` -/

/-- the free address `(LA ++ LM ++ LC, oA ++ oM ++ oC)` of the final result: lengths and boxes in
    terms of the ORIGINAL operands' index tables -/
structure FreeAddr (A B C : Arr R) (xa xb1 xb2 xc : List Nat) (LA LM LC : Sector)
    (oA oM oC : List Nat) : Prop where
  lA : LA.length = (freeAxes A.ndim xa).length
  lM : LM.length = (freeAxes B.ndim (xb1 ++ xb2)).length
  loA : oA.length = (freeAxes A.ndim xa).length
  loM : oM.length = (freeAxes B.ndim (xb1 ++ xb2)).length
  loC : oC.length = (freeAxes C.ndim xc).length
  bA : inBox (Arr.blockShapeD (without A.indices xa) LA) oA = true
  bM : inBox (Arr.blockShapeD (permuted B.indices (freeAxes B.ndim (xb1 ++ xb2))) LM) oM = true
  bC : inBox (Arr.blockShapeD (without C.indices xc) LC) oC = true

/-- block shape of a free part -/
theorem shapeD_free {a : Arr R} (hs : a.shapesOk) {sa : Sector} (hA : sa ∈ a.sectors) (F : List Nat)
    (hF : ∀ i ∈ F, i < a.ndim) :
    Arr.blockShapeD (permuted a.indices F) (permuted sa F)
      = permuted (Arr.blockShapeD a.indices sa) F := by
  obtain ⟨shp, h1, h2, _, _⟩ := shape_of_mem hs hA
  rw [h2, Arr.blockShapeD, blockShape?_permuted h1 _ hF]
  rfl

section valueL
variable [AddCommMonoid R] [Mul R] [Neg R] [SignRing R] [AssocLaws R]
variable {A B C AB : Arr R} {xa xb1 xb2 xc : List Nat} {ph : Int}

/-- splitting the free part of a stored sector of `A·B` on the second call -/
theorem left_split (I : Inter A B xa xb1 AB ph) (h : Mid B.ndim xb1 xb2)
    {LA LM LC X : Sector} (lA : LA.length = (freeAxes A.ndim xa).length)
    (lM : LM.length = (freeAxes B.ndim (xb1 ++ xb2)).length)
    {sa sb : Sector} (hsa : sa.length = A.ndim) (hsb : sb.length = B.ndim)
    (hs : permuted (permuted sa (freeAxes A.ndim xa) ++ permuted sb (freeAxes B.ndim xb1))
        (freeAxes AB.ndim (axesAB A.ndim B.ndim xa xb1 xb2)) ++ X = LA ++ LM ++ LC) :
    permuted sa (freeAxes A.ndim xa) = LA ∧ permuted sb (freeAxes B.ndim (xb1 ++ xb2)) = LM
      ∧ X = LC := by
  have hlA : (permuted sa (freeAxes A.ndim xa)).length = (freeAxes A.ndim xa).length :=
    permuted_length _ _ (by intro x hx; rw [hsa]; exact (mem_freeAxes.mp hx).1)
  have hlM : (permuted sb (freeAxes B.ndim (xb1 ++ xb2))).length
      = (freeAxes B.ndim (xb1 ++ xb2)).length :=
    permuted_length _ _ (by intro x hx; rw [hsb]; exact (mem_freeAxes.mp hx).1)
  rw [I.ndim, readAB_free h _ sb hlA hsb] at hs
  obtain ⟨e1, e2⟩ := List.append_inj hs (by
    rw [List.length_append, List.length_append, hlA, hlM, lA, lM])
  obtain ⟨e3, e4⟩ := List.append_inj e1 (by rw [hlA, lA])
  exact ⟨e3, e4, e2⟩

/-- the value of `A·B` at the address the second call reads -/
theorem left_inner (I : Inter A B xa xb1 AB ph) (hAB : Adm A B xa xb1) (h : Mid B.ndim xb1 xb2)
    {LA LM LC : Sector} {oA oM oC : List Nat} (fa : FreeAddr A B C xa xb1 xb2 xc LA LM LC oA oM oC)
    {sa sb : Sector} (hA : sa ∈ A.sectors) (hB : sb ∈ B.sectors)
    (hal : permuted sb xb1 = permuted sa xa)
    (hLA : permuted sa (freeAxes A.ndim xa) = LA)
    (hLM : permuted sb (freeAxes B.ndim (xb1 ++ xb2)) = LM)
    (k2 : List Nat) (hk2 : inBox (permuted (Arr.blockShapeD B.indices sb) xb2) k2 = true) :
    AB.elem (permuted sa (freeAxes A.ndim xa) ++ permuted sb (freeAxes B.ndim xb1))
        (mergeIdx 0 AB.ndim (axesAB A.ndim B.ndim xa xb1 xb2)
          (freeAxes AB.ndim (axesAB A.ndim B.ndim xa xb1 xb2)) k2 (oA ++ oM))
      = sgnI ph (gradedContract A B xa xb1
          (permuted sa (freeAxes A.ndim xa) ++ permuted sb (freeAxes B.ndim xb1)) oA
          (mergeIdx 0 (freeAxes B.ndim xb1).length (positions (freeAxes B.ndim xb1) xb2)
            (freeAxes (freeAxes B.ndim xb1).length (positions (freeAxes B.ndim xb1) xb2)) k2 oM)) := by
  have hsa := Arr.shapesOk_of_validB hAB.va
  have hsb := Arr.shapesOk_of_validB hAB.vb
  obtain ⟨shpA, hA1, hA2, hA3, hA4⟩ := shape_of_mem hsa hA
  obtain ⟨shpB, hB1, hB2, hB3, hB4⟩ := shape_of_mem hsb hB
  have hk2l : k2.length = (positions (freeAxes B.ndim xb1) xb2).length := by
    rw [inBox_length hk2, h.pos_len, permuted_length _ _ (by rw [hB2, hB3]; exact h.lt2)]
  have hoMl : oM.length
      = (freeAxes (freeAxes B.ndim xb1).length (positions (freeAxes B.ndim xb1) xb2)).length := by
    rw [fa.loM, h.free_len]
  have e : mergeIdx 0 AB.ndim (axesAB A.ndim B.ndim xa xb1 xb2)
        (freeAxes AB.ndim (axesAB A.ndim B.ndim xa xb1 xb2)) k2 (oA ++ oM)
      = oA ++ mergeIdx 0 (freeAxes B.ndim xb1).length (positions (freeAxes B.ndim xb1) xb2)
          (freeAxes (freeAxes B.ndim xb1).length (positions (freeAxes B.ndim xb1) xb2)) k2 oM := by
    rw [I.ndim]
    unfold axesAB
    exact mergeIdx_shift 0 _ _ _ k2 oA oM h.pos_nodup h.pos_lt hk2l fa.loA hoMl
  rw [e]
  apply I.elem _ _ _ fa.loA
  rw [Arr.blockShapeD, I.shapeU hsa hsb hA hB hal]
  show inBox (permuted (Arr.blockShapeD A.indices sa) (freeAxes A.ndim xa)
    ++ permuted (Arr.blockShapeD B.indices sb) (freeAxes B.ndim xb1)) _ = true
  have hlsA : (permuted (Arr.blockShapeD A.indices sa) (freeAxes A.ndim xa)).length
      = (freeAxes A.ndim xa).length :=
    permuted_length _ _ (by intro x hx; rw [hA2, hA3]; exact (mem_freeAxes.mp hx).1)
  have hlsB : (permuted (Arr.blockShapeD B.indices sb) (freeAxes B.ndim xb1)).length
      = (freeAxes B.ndim xb1).length :=
    permuted_length _ _ (by intro x hx; rw [hB2, hB3]; exact h.flt x hx)
  rw [inBox_append (by rw [fa.loA, hlsA]), Bool.and_eq_true]
  constructor
  · have := fa.bA
    rw [← hLA, without_eq_permuted_freeAxes] at this
    have e2 := shapeD_free hsa hA (freeAxes A.ndim xa) (fun x hx => (mem_freeAxes.mp hx).1)
    have e3 : A.indices.length = A.ndim := rfl
    rw [e3, e2] at this
    exact this
  · have hshape := inBox_mergeIdx
      (shape := permuted (Arr.blockShapeD B.indices sb) (freeAxes B.ndim xb1))
      (axes := positions (freeAxes B.ndim xb1) xb2) (k := k2) (f := oM)
      (by rw [hlsB]; exact h.pos_lt)
      (by rw [h.read_ax _ (by rw [hB2, hB3])]; exact hk2)
      (by
        rw [hlsB, h.read_free _ (by rw [hB2, hB3])]
        have := fa.bM
        rw [← hLM, shapeD_free hsb hB _ (fun x hx => (mem_freeAxes.mp hx).1)] at this
        exact this)
    rw [hlsB] at hshape
    exact hshape

/-- **route `(A·B)·C`**: the graded contraction of the intermediate result with `C` is the
    label sign of the first call times the canonical signed sum over the stored sector triples -/
theorem route_left (I : Inter A B xa xb1 AB ph) (hAB : Adm A B xa xb1) (h : Mid B.ndim xb1 xb2)
    {LA LM LC : Sector} {oA oM oC : List Nat} (fa : FreeAddr A B C xa xb1 xb2 xc LA LM LC oA oM oC) :
    gradedContract AB C (axesAB A.ndim B.ndim xa xb1 xb2) xc (LA ++ LM ++ LC) (oA ++ oM) oC
      = sgnI ph (((triplesL A B C AB xa xb1 xb2 xc (LA ++ LM ++ LC)).map
          (fun t => sgnI (S3 A B C xa xb1 xb2 xc t) (W3 A B C xa xb1 xb2 xc oA oM oC t))).sum) := by
  have hsa := Arr.shapesOk_of_validB hAB.va
  have hsb := Arr.shapesOk_of_validB hAB.vb
  -- the per-pair summand on this route
  let oB1 : List Nat → List Nat := fun k2 =>
    mergeIdx 0 (freeAxes B.ndim xb1).length (positions (freeAxes B.ndim xb1) xb2)
      (freeAxes (freeAxes B.ndim xb1).length (positions (freeAxes B.ndim xb1) xb2)) k2 oM
  let g : Sector × Sector → Sector × Sector → R := fun p q =>
    sgnI (gradedSign AB C (axesAB A.ndim B.ndim xa xb1 xb2) xc p.1 p.2 * gradedSign A B xa xb1 q.1 q.2)
      (((allIdx (permuted (Arr.blockShapeD AB.indices p.1) (axesAB A.ndim B.ndim xa xb1 xb2))).map
        (fun k2 => ((allIdx (permuted (Arr.blockShapeD A.indices q.1) xa)).map (fun k1 =>
          A.elem q.1 (mergeIdx 0 A.ndim xa (freeAxes A.ndim xa) k1 oA)
            * B.elem q.2 (mergeIdx 0 B.ndim xb1 (freeAxes B.ndim xb1) k1 (oB1 k2))
            * C.elem p.2 (mergeIdx 0 C.ndim xc (freeAxes C.ndim xc) k2 oC))).sum)).sum)
  -- membership facts
  have hmem : ∀ p ∈ storedPairs AB C (freeAxes AB.ndim (axesAB A.ndim B.ndim xa xb1 xb2))
        (axesAB A.ndim B.ndim xa xb1 xb2) xc (freeAxes C.ndim xc) (LA ++ LM ++ LC),
      ∀ q ∈ storedPairs A B (freeAxes A.ndim xa) xa xb1 (freeAxes B.ndim xb1) p.1,
      q.1 ∈ A.sectors ∧ q.2 ∈ B.sectors ∧ permuted q.2 xb1 = permuted q.1 xa
        ∧ p.1 = permuted q.1 (freeAxes A.ndim xa) ++ permuted q.2 (freeAxes B.ndim xb1)
        ∧ permuted q.1 (freeAxes A.ndim xa) = LA
        ∧ permuted q.2 (freeAxes B.ndim (xb1 ++ xb2)) = LM := by
    rintro ⟨sab, sc⟩ hp ⟨sa, sb⟩ hq
    obtain ⟨_, _, _, hs⟩ := mem_storedPairs.mp hp
    obtain ⟨hA, hB, hal, hsab⟩ := mem_storedPairs.mp hq
    simp only at hsab hs ⊢
    subst hsab
    obtain ⟨e1, e2, _⟩ := left_split I h fa.lA fa.lM (Arr.sector_length hsa hA)
      (Arr.sector_length hsb hB) hs
    exact ⟨hA, hB, hal, rfl, e1, e2⟩
  unfold gradedContract triplesL
  refine Eq.trans ?_ (sum_flat _ _ (fun p q => (q.1, q.2, p.2)) ph g _ ?_)
  · -- one stored pair `(sab, sc)` of the second call
    congr 1
    apply List.map_congr_left
    rintro ⟨sab, sc⟩ hp
    obtain ⟨hsabM, _, _, hs⟩ := mem_storedPairs.mp hp
    obtain ⟨sa, hA, sb, hB, hal, hsab⟩ := I.mem_sectors.mp hsabM
    simp only at hsab hs ⊢
    subst hsab
    obtain ⟨hLA, hLM, _⟩ := left_split I h fa.lA fa.lM (Arr.sector_length hsa hA)
      (Arr.sector_length hsb hB) hs
    obtain ⟨shpA, hA1, hA2, hA3, hA4⟩ := shape_of_mem hsa hA
    obtain ⟨shpB, hB1, hB2, hB3, hB4⟩ := shape_of_mem hsb hB
    have hbox2 : permuted (Arr.blockShapeD AB.indices
          (permuted sa (freeAxes A.ndim xa) ++ permuted sb (freeAxes B.ndim xb1)))
          (axesAB A.ndim B.ndim xa xb1 xb2)
        = permuted (Arr.blockShapeD B.indices sb) xb2 := by
      rw [Arr.blockShapeD, I.shape hsa hsb hA hB hal]
      exact readAB_ax h _ _
        (permuted_length _ _ (by intro x hx; rw [hA2, hA3]; exact (mem_freeAxes.mp hx).1))
        (by rw [hB2, hB3])
    have hcp : contractPair AB C (axesAB A.ndim B.ndim xa xb1 xb2) xc (oA ++ oM) oC
          (permuted sa (freeAxes A.ndim xa) ++ permuted sb (freeAxes B.ndim xb1), sc)
        = ((allIdx (permuted (Arr.blockShapeD AB.indices
              (permuted sa (freeAxes A.ndim xa) ++ permuted sb (freeAxes B.ndim xb1)))
              (axesAB A.ndim B.ndim xa xb1 xb2))).map (fun k2 =>
            sgnI ph (((storedPairs A B (freeAxes A.ndim xa) xa xb1 (freeAxes B.ndim xb1)
                (permuted sa (freeAxes A.ndim xa) ++ permuted sb (freeAxes B.ndim xb1))).map (fun q =>
              sgnI (gradedSign A B xa xb1 q.1 q.2)
                (((allIdx (permuted (Arr.blockShapeD A.indices q.1) xa)).map (fun k1 =>
                  A.elem q.1 (mergeIdx 0 A.ndim xa (freeAxes A.ndim xa) k1 oA)
                    * B.elem q.2 (mergeIdx 0 B.ndim xb1 (freeAxes B.ndim xb1) k1 (oB1 k2)))).sum))).sum)
              * C.elem sc (mergeIdx 0 C.ndim xc (freeAxes C.ndim xc) k2 oC))).sum := by
      unfold contractPair
      congr 1
      apply List.map_congr_left
      intro k2 hk2
      have hk2' : inBox (permuted (Arr.blockShapeD B.indices sb) xb2) k2 = true := by
        rw [← hbox2]; exact mem_allIdx_iff.mp hk2
      unfold contractTerm
      rw [left_inner I hAB h fa hA hB hal hLA hLM k2 hk2']
      rfl
    rw [hcp]
    exact expand_left _ _ _ _ ph _ (gradedSign_pm _ _ _ _ _ _) I.pm
      (fun q => gradedSign_pm _ _ _ _ _ _) _ _ _
  · -- the summand is the canonical one
    rintro ⟨sab, sc⟩ hp ⟨sa, sb⟩ hq
    obtain ⟨hA, hB, hal, hsab, hLA, hLM⟩ := hmem _ hp _ hq
    simp only at hA hB hal hsab hLA hLM ⊢
    subst hsab
    obtain ⟨shpA, hA1, hA2, hA3, hA4⟩ := shape_of_mem hsa hA
    obtain ⟨shpB, hB1, hB2, hB3, hB4⟩ := shape_of_mem hsb hB
    have hbox2 : permuted (Arr.blockShapeD AB.indices
          (permuted sa (freeAxes A.ndim xa) ++ permuted sb (freeAxes B.ndim xb1)))
          (axesAB A.ndim B.ndim xa xb1 xb2)
        = permuted (Arr.blockShapeD B.indices sb) xb2 := by
      rw [Arr.blockShapeD, I.shape hsa hsb hA hB hal]
      exact readAB_ax h _ _
        (permuted_length _ _ (by intro x hx; rw [hA2, hA3]; exact (mem_freeAxes.mp hx).1))
        (by rw [hB2, hB3])
    show sgnI _ _ = sgnI _ _
    rw [sign_left I hAB.sym h sa sb sc (Arr.sector_length hsa hA) (Arr.sector_length hsb hB)]
    congr 1
    rw [triple_sum, hbox2]
    unfold W3
    apply sum_map_congr
    intro k1 hk1
    apply sum_map_congr
    intro k2 hk2
    have hk1l : k1.length = xb1.length := by
      rw [inBox_length (mem_allIdx_iff.mp hk1),
        permuted_length _ _ (by rw [hA2, hA3]; exact hAB.ltA), hAB.len]
    have hk2l : k2.length = xb2.length := by
      rw [inBox_length (mem_allIdx_iff.mp hk2),
        permuted_length _ _ (by rw [hB2, hB3]; exact h.lt2)]
    show _ * (B.elem sb (mergeIdx 0 B.ndim xb1 (freeAxes B.ndim xb1) k1 (oB1 k2)) * _) = _
    rw [show oB1 k2 = mergeIdx 0 (freeAxes B.ndim xb1).length (positions (freeAxes B.ndim xb1) xb2)
      (freeAxes (freeAxes B.ndim xb1).length (positions (freeAxes B.ndim xb1) xb2)) k2 oM from rfl,
      h.nest_left 0 k1 k2 oM hk1l hk2l fa.loM]

end valueL

end AssocP
end SymmModel
