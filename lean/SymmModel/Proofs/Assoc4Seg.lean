/-
  SymmModel.Proofs.Assoc4Seg — chains of `n` tensors: the invariants of a composed chain segment
  (`Good`), their preservation under composition, congruence and associativity of the composition
  at the level of good segments.  Namespace `SymmModel.Assoc4P`.
-/
import SymmModel.Proofs.Assoc3Seg

namespace SymmModel
namespace Assoc4P
open TdotP GradedP RoutesP KoszulP AssocP Assoc3P
set_option linter.unusedSectionVars false

variable {R : Type}

/-- a segment whose array is valid and fermionic and whose two open bonds are disjoint, in range -/
structure LeafOK (S : Seg R) : Prop where
  valid : S.arr.validB = true
  fermi : S.arr.fermi = true
  nd : (S.l ++ S.r).Nodup
  ltl : ∀ i ∈ S.l, i < S.arr.ndim
  ltr : ∀ i ∈ S.r, i < S.arr.ndim

/-- the bond between two consecutive tensors: same symmetry, weak guard -/
structure Link (S S' : Seg R) : Prop where
  sym : S.arr.sym = S'.arr.sym
  con : contractibleCommonB S.arr S'.arr S.r S'.l = true

theorem pruned_trans {a b c : Index} (h1 : Pruned a b) (h2 : Pruned b c) : Pruned a c := by
  obtain ⟨d1, f, e1⟩ := h1
  obtain ⟨d2, g, e2⟩ := h2
  refine ⟨d1.trans d2, fun k => g k && f k, ?_⟩
  rw [e1, e2, List.filter_filter]
  apply List.filter_congr
  intro p _
  rw [Bool.and_comm]

/-- the left open legs of `T` are pruned copies of the left open legs of the tensor `F` -/
def LeftIf (T F : Seg R) : Prop :=
  T.arr.sym = F.arr.sym ∧ T.l.length = F.l.length ∧ ∀ j, j < F.l.length →
    Pruned (T.arr.indices.getD (T.l.getD j 0) default) (F.arr.indices.getD (F.l.getD j 0) default)

/-- the right open legs of `T` are pruned copies of the right open legs of the tensor `La` -/
def RightIf (T La : Seg R) : Prop :=
  T.arr.sym = La.arr.sym ∧ T.r.length = La.r.length ∧ ∀ j, j < La.r.length →
    Pruned (T.arr.indices.getD (T.r.getD j 0) default) (La.arr.indices.getD (La.r.getD j 0) default)

/-- `T` is a contraction of the chain piece that starts with the tensor `F`, ends with `La` and
    carries the labels `labs` -/
structure Good (F La : Seg R) (labs : List (Int × Bool)) (T : Seg R) : Prop where
  ok : LeafOK T
  perm : T.arr.oddpos.Perm labs
  left : LeftIf T F
  right : RightIf T La

theorem Good.leaf {S : Seg R} (h : LeafOK S) : Good S S S.arr.oddpos S :=
  ⟨h, List.Perm.refl _, ⟨rfl, rfl, fun _ _ => Pruned.refl _⟩, ⟨rfl, rfl, fun _ _ => Pruned.refl _⟩⟩

/-- equivalence of segments: equivalent arrays, equal open-bond positions -/
def SegEqv [Zero R] [Neg R] (S S' : Seg R) : Prop := Eqv S.arr S'.arr ∧ S.l = S'.l ∧ S.r = S'.r

section basic
variable [Zero R] [Neg R]
theorem SegEqv.refl (S : Seg R) : SegEqv S S := ⟨Eqv.refl _, rfl, rfl⟩
theorem SegEqv.symm {S S' : Seg R} (h : SegEqv S S') : SegEqv S' S := ⟨h.1.symm, h.2.1.symm, h.2.2.symm⟩
theorem SegEqv.trans {S S' S'' : Seg R} (h : SegEqv S S') (h' : SegEqv S' S'') : SegEqv S S'' :=
  ⟨h.1.trans h'.1, h.2.1.trans h'.2.1, h.2.2.trans h'.2.2⟩
end basic

section comp
variable [AddCommMonoid R] [Mul R] [Neg R] [SignRing R] [AssocLaws R]

/-- the guard between two good segments whose end tensors are linked -/
theorem admW_of_good {F1 L1 F2 L2 T1 T2 : Seg R} {labs1 labs2 : List (Int × Bool)}
    (g1 : Good F1 L1 labs1 T1) (g2 : Good F2 L2 labs2 T2) (lk : Link L1 F2) :
    AdmW T1.arr T2.arr T1.r T2.l := by
  have nr : T1.r.Nodup := (List.nodup_append.mp g1.ok.nd).2.1
  have nl : T2.l.Nodup := (List.nodup_append.mp g2.ok.nd).1
  refine ⟨g1.ok.valid, g2.ok.valid, g1.ok.fermi, g2.ok.fermi,
    by rw [g1.right.1, lk.sym, ← g2.left.1], ?_, nr, nl, g1.ok.ltr, g2.ok.ltl⟩
  have c1 : contractibleCommonB T1.arr F2.arr T1.r F2.l = true :=
    commonB_prune_left (a := L1.arr) (xa := L1.r) g1.right.2.1 g1.right.2.2 lk.con
  exact commonB_prune_right (b := F2.arr) (xb := F2.l) g2.left.2.1 g2.left.2.2 c1

/-- **composition preserves the invariants** -/
theorem comp_good {F1 L1 F2 L2 T1 T2 : Seg R} {labs1 labs2 : List (Int × Bool)}
    (g1 : Good F1 L1 labs1 T1) (g2 : Good F2 L2 labs2 T2) (lk : Link L1 F2)
    (hd : OddposP.LabelsDistinct (labs1 ++ labs2)) :
    ∃ T, T1.comp T2 = .ok T ∧ Good F1 L2 (labs1 ++ labs2) T := by
  have W := admW_of_good g1 g2 lk
  have hd' : OddposP.LabelsDistinct (T1.arr.oddpos ++ T2.arr.oddpos) :=
    OddposP.LabelsDistinct.perm hd (g1.perm.symm.append g2.perm.symm)
  obtain ⟨Z, ph, eZ, I, pZ⟩ := call_pack T1.arr T2.arr T1.r T2.l W hd'
  have mid1 : Mid T1.arr.ndim T1.r T1.l := (Mid.of g1.ok.nd (by
    intro i hi
    rcases List.mem_append.mp hi with h | h
    · exact g1.ok.ltl i h
    · exact g1.ok.ltr i h)).symm
  have mid2 : Mid T2.arr.ndim T2.l T2.r := Mid.of g2.ok.nd (by
    intro i hi
    rcases List.mem_append.mp hi with h | h
    · exact g2.ok.ltl i h
    · exact g2.ok.ltr i h)
  refine ⟨⟨Z, positions (freeAxes T1.arr.ndim T1.r) T1.l,
    AssocP.axesAB T1.arr.ndim T2.arr.ndim T1.r T2.l T2.r⟩, ?_, ⟨⟨I.valid, I.fermi, ?_, ?_, ?_⟩,
    pZ.trans (g1.perm.append g2.perm), ?_, ?_⟩⟩
  · unfold Seg.comp tdF; rw [eZ]; rfl
  · refine List.nodup_append.mpr ⟨mid1.pos_nodup, AssocP.axesAB_nodup mid2, ?_⟩
    intro x hx y hy e
    have h1 := mid1.pos_lt x hx
    unfold AssocP.axesAB at hy
    obtain ⟨z, _, rfl⟩ := List.mem_map.mp hy
    omega
  · intro i hi
    show i < Z.ndim
    rw [I.ndim]
    have := mid1.pos_lt i hi
    omega
  · intro i hi
    show i < Z.ndim
    rw [I.ndim]
    exact AssocP.axesAB_lt mid2 i hi
  · refine ⟨by show Z.sym = _; rw [I.sym]; exact g1.left.1,
      by show (positions _ _).length = _; rw [mid1.pos_len]; exact g1.left.2.1, ?_⟩
    intro j hj
    have hj' : j < T1.l.length := by rw [g1.left.2.1]; exact hj
    obtain ⟨e2, e3⟩ := Assoc2P.pos_getD mid1 j hj'
    have := I.leg_left _ e2
    rw [e3] at this
    exact pruned_trans this (g1.left.2.2 j hj)
  · refine ⟨by show Z.sym = _; rw [I.sym, W.sym]; exact g2.right.1,
      by show (AssocP.axesAB _ _ _ _ _).length = _; rw [AssocP.axesAB_len mid2]; exact g2.right.2.1, ?_⟩
    intro j hj
    have hj' : j < T2.r.length := by rw [g2.right.2.1]; exact hj
    obtain ⟨e1, e2, e3⟩ := AssocP.axesAB_getD (nA := T1.arr.ndim) (xa := T1.r) mid2 j hj'
    have := I.leg_right _ e2
    rw [e3, ← e1] at this
    exact pruned_trans this (g2.right.2.2 j hj)

/-- **congruence of the composition** -/
theorem comp_congr {F1 L1 F2 L2 T1 T2 T1' T2' T : Seg R} {labs1 labs2 : List (Int × Bool)}
    (g1 : Good F1 L1 labs1 T1) (g2 : Good F2 L2 labs2 T2) (lk : Link L1 F2)
    (e1 : SegEqv T1 T1') (e2 : SegEqv T2 T2') (v1 : T1'.arr.validB = true) (v2 : T2'.arr.validB = true)
    (h : T1.comp T2 = .ok T) : ∃ T', T1'.comp T2' = .ok T' ∧ SegEqv T T' := by
  have W := admW_of_good g1 g2 lk
  unfold Seg.comp at h ⊢
  cases hz : tdF T1.arr T2.arr T1.r T2.l with
  | error err => rw [hz] at h; cases h
  | ok Z =>
    rw [hz] at h
    simp only [Except.map, Except.ok.injEq] at h
    subst h
    obtain ⟨Z', eZ', hE⟩ := tdotF_congr W e1.1 e2.1 v1 v2 Z hz
    rw [← e1.2.2, ← e2.2.1]
    unfold tdF
    rw [eZ']
    refine ⟨_, rfl, hE, ?_, ?_⟩
    · show positions _ _ = positions _ _
      rw [e1.1.ndim, e1.2.1, e1.2.2]
    · show AssocP.axesAB _ _ _ _ _ = AssocP.axesAB _ _ _ _ _
      rw [e1.1.ndim, e2.1.ndim, e1.2.2, e2.2.1, e2.2.2]

/-- **associativity of the composition of good segments** -/
theorem assoc_good {F1 L1 F2 L2 F3 L3 T1 T2 T3 : Seg R} {labs1 labs2 labs3 : List (Int × Bool)}
    (g1 : Good F1 L1 labs1 T1) (g2 : Good F2 L2 labs2 T2) (g3 : Good F3 L3 labs3 T3)
    (lk12 : Link L1 F2) (lk23 : Link L2 F3)
    (hd : OddposP.LabelsDistinct (labs1 ++ labs2 ++ labs3)) :
    ∃ S12 S23 L Rr : Seg R, T1.comp T2 = .ok S12 ∧ S12.comp T3 = .ok L
      ∧ T2.comp T3 = .ok S23 ∧ T1.comp S23 = .ok Rr ∧ SegEqv Rr L :=
  seg_assoc T1 T2 T3 (admW_of_good g1 g2 lk12) (admW_of_good g2 g3 lk23) g1.ok.nd g1.ok.ltl g2.ok.nd
    g3.ok.nd g3.ok.ltr
    (OddposP.LabelsDistinct.perm hd ((g1.perm.symm.append g2.perm.symm).append g3.perm.symm))

end comp

end Assoc4P
end SymmModel
