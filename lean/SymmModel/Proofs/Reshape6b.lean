/-
  SymmModel.Proofs.Reshape6b — properties of EVERY plan the planner returns (flat invariants, no
  assumption on the inputs): every entry of `fuse_sizes` is at least 2 after the first loop and after
  the squeeze phase (`mainLoop_ge2`, `squeezePhase_ge2`); the fuse phase emits calls that are
  clusters of consecutive ranges of these lengths, left to right (`fuseLoop_asc`).
-/
import SymmModel.Proofs.Reshape6a
namespace SymmModel.Reshape5
open SymmModel SymmModel.Reshape SymmModel.C07 SymmModel.Reshape3

def AllGe2 (fs : List Nat) : Prop := ∀ v ∈ fs, 2 ≤ v

theorem allGe2_bumped {fs fs' : List Nat} {k n : Nat} (h : AllGe2 fs) (hb : Bumped fs fs' k n) : AllGe2 fs' := by
  intro v hv
  obtain ⟨j, hj⟩ := List.getElem?_of_mem hv
  by_cases hjk : j = k
  · subst hjk
    rw [hb.at_k] at hj
    cases hw : fs[j]? with
    | none => rw [hw] at hj; cases hj
    | some w =>
      rw [hw] at hj
      simp only [Option.map_some, Option.some.injEq] at hj
      have := h w (List.mem_of_getElem? hw)
      omega
  · rw [hb.other j hjk] at hj
    exact h v (List.mem_of_getElem? hj)

theorem allGe2_new {fs fs' : List Nat} {n : Nat} (h : AllGe2 fs) (hb : Bumped (fs ++ [1]) fs' fs.length n)
    (hn : 1 ≤ n) : AllGe2 fs' := by
  intro v hv
  obtain ⟨j, hj⟩ := List.getElem?_of_mem hv
  by_cases hjk : j = fs.length
  · subst hjk
    rw [hb.at_k] at hj
    simp at hj
    omega
  · rw [hb.other j hjk] at hj
    have hjl : j < fs.length := by
      have := (List.getElem?_eq_some_iff.mp hj).1
      simp at this; omega
    rw [List.getElem?_append_left hjl] at hj
    exact h v (List.mem_of_getElem? hj)

/-! ### the squeeze phase -/

theorem absorb_bump : ∀ (fuel : Nat) (g : Option Nat) (i : Nat) (term : List Lbl) (fs : List Nat)
    (r : Nat × List Lbl × List Nat), absorb g fuel i term fs = .ok r →
    ∃ gk n, g = some gk ∧ 1 ≤ n ∧ Bumped fs r.2.2 gk n := by
  intro fuel
  induction fuel with
  | zero => intro g i term fs r h; simp [absorb, throw, throwThe, MonadExceptOf.throw] at h
  | succ fuel ih =>
    intro g i term fs r h
    cases g with
    | none => simp [absorb, useG, throw, throwThe, MonadExceptOf.throw] at h
    | some gk =>
      simp only [absorb, useG, pure, Except.pure] at h
      split at h
      · cases h
      · rename_i fs1 hb
        have hB := bump_ok _ _ _ hb
        split at h
        · injection h with h; subst h; exact ⟨gk, 1, rfl, Nat.le_refl _, hB⟩
        · split at h
          · obtain ⟨gk', n, hg, hn, hB'⟩ := ih _ _ _ _ _ h
            injection hg with hg; subst hg
            exact ⟨gk, 1 + n, rfl, by omega, hB.trans hB'⟩
          · injection h with h; subst h; exact ⟨gk, 1, rfl, Nat.le_refl _, hB⟩

theorem markLeft_bump (gk : Nat) : ∀ (n j : Nat) (term : List Lbl) (fs : List Nat) (r : List Lbl × List Nat),
    markLeft gk n j term fs = .ok r → (n = 0 ∧ r.2 = fs) ∨ Bumped fs r.2 gk n := by
  intro n
  induction n with
  | zero =>
    intro j term fs r h
    simp only [markLeft, pure, Except.pure] at h
    injection h with h; subst h; exact Or.inl ⟨rfl, rfl⟩
  | succ n ih =>
    intro j term fs r h
    simp only [markLeft] at h
    split at h
    · cases h
    · rename_i fs1 hb
      have hB := bump_ok _ _ _ hb
      rcases ih _ _ _ _ h with ⟨h0, hr⟩ | hB'
      · subst h0; rw [hr]; exact Or.inr hB
      · right
        have := hB.trans hB'
        rwa [Nat.add_comm] at this

theorem skipS_pos (term : List Lbl) : ∀ (fuel i0 : Nat) (r : Nat × Lbl), skipS term fuel i0 = .ok r → i0 < r.1 := by
  intro fuel
  induction fuel with
  | zero => intro i0 r h; simp [skipS, throw, throwThe, MonadExceptOf.throw] at h
  | succ fuel ih =>
    intro i0 r h
    simp only [skipS] at h
    split at h
    · cases h
    · split at h
      · have := ih _ _ h; omega
      · simp only [pure, Except.pure] at h; injection h with h; subst h; simp

theorem sqLoop_ge2 : ∀ (fuel i : Nat) (term : List Lbl) (fs : List Nat) (g : Option Nat)
    (r : List Lbl × List Nat), AllGe2 fs → sqLoop fuel i term fs g = .ok r → AllGe2 r.2 := by
  intro fuel
  induction fuel with
  | zero => intro i term fs g r _ h; simp [sqLoop, throw, throwThe, MonadExceptOf.throw] at h
  | succ fuel ih =>
    intro i term fs g r hfs h
    simp only [sqLoop] at h
    split at h
    · simp only [pure, Except.pure] at h; injection h with h; subst h; exact hfs
    · split at h
      · split at h
        · cases h
        · rename_i left _
          cases left with
          | g k =>
            simp only [] at h
            split at h
            · cases h
            · rename_i i' t'' fs'' habs
              obtain ⟨gk, n, _, _, hB⟩ := absorb_bump _ _ _ _ _ _ habs
              exact ih _ _ _ _ _ (allGe2_bumped hfs hB) h
          | o =>
            simp only [] at h
            split at h
            · cases h
            · rename_i i' t'' fs'' habs
              obtain ⟨gk, n, hg, hn, hB⟩ := absorb_bump _ _ _ _ _ _ habs
              injection hg with hg; subst hg
              exact ih _ _ _ _ _ (allGe2_new hfs hB hn) h
          | s =>
            simp only [] at h
            split at h
            · cases h
            · rename_i i' t'' fs'' habs
              obtain ⟨gk, n, _, _, hB⟩ := absorb_bump _ _ _ _ _ _ habs
              exact ih _ _ _ _ _ (allGe2_bumped hfs hB) h
          | u k =>
            simp only [] at h
            split at h
            · cases h
            · rename_i i' t'' fs'' habs
              obtain ⟨gk, n, _, _, hB⟩ := absorb_bump _ _ _ _ _ _ habs
              exact ih _ _ _ _ _ (allGe2_bumped hfs hB) h
      · exact ih _ _ _ _ _ hfs h

theorem squeezePhase_ge2 (term : List Lbl) (fs : List Nat) (r : List Lbl × List Nat) (hfs : AllGe2 fs)
    (h : squeezePhase term fs = .ok r) : AllGe2 r.2 := by
  simp only [squeezePhase] at h
  split at h
  · cases h
  · split at h
    · split at h
      · cases h
      · rename_i i label hskip
        have hi := skipS_pos _ _ _ _ hskip
        simp only [] at hi
        cases label with
        | g k =>
          simp only [useG, pure, Except.pure] at h
          split at h
          · cases h
          · rename_i t'' fs'' hm
            rcases markLeft_bump _ _ _ _ _ _ hm with ⟨h0, _⟩ | hB
            · omega
            · exact sqLoop_ge2 _ _ _ _ _ _ (allGe2_bumped hfs hB) h
        | o =>
          simp only [useG, pure, Except.pure] at h
          split at h
          · cases h
          · rename_i t'' fs'' hm
            rcases markLeft_bump _ _ _ _ _ _ hm with ⟨h0, _⟩ | hB
            · omega
            · exact sqLoop_ge2 _ _ _ _ _ _ (allGe2_new hfs hB (by omega)) h
        | s => simp [useG, throw, throwThe, MonadExceptOf.throw] at h
        | u k => simp [useG, throw, throwThe, MonadExceptOf.throw] at h
    · exact sqLoop_ge2 _ _ _ _ _ _ hfs h

/-! ### the first loop -/

theorem fuseScan_s (shape : List Nat) (dj : Nat) (lbl : Lbl) :
    ∀ (fuel di i s : Nat) (term : List Lbl) (r : Nat × Nat × Nat × List Lbl),
    fuseScan shape dj lbl fuel di i s term = .ok r →
    s ≤ r.2.2.1 ∧ (Nat.blt di dj = true → s + 1 ≤ r.2.2.1) := by
  intro fuel
  induction fuel with
  | zero => intro di i s term r h; simp [fuseScan, throw, throwThe, MonadExceptOf.throw] at h
  | succ fuel ih =>
    intro di i s term r h
    simp only [fuseScan] at h
    split at h
    · split at h
      · cases h
      · have := (ih _ _ _ _ _ h).1
        exact ⟨by omega, fun _ => this⟩
    · rename_i hb
      simp only [pure, Except.pure] at h
      injection h with h; subst h
      exact ⟨Nat.le_refl _, fun hc => absurd hc hb⟩

theorem mainLoop_ge2 (shape newshape : List Nat) (subsizes : List (Option (List Nat))) :
    ∀ (fuel : Nat) (st st' : RState), AllGe2 st.fuseSizes →
      mainLoop shape newshape subsizes fuel st = .ok st' → AllGe2 st'.fuseSizes := by
  intro fuel
  induction fuel with
  | zero =>
    intro st st' h0 h
    simp only [mainLoop] at h
    split at h
    · cases h
    · simp only [pure, Except.pure] at h; injection h with h; subst h; exact h0
  | succ fuel ih =>
    intro st st' h0 h
    simp only [mainLoop] at h
    split at h
    · split at h
      · cases h
      · split at h
        · split at h
          · cases h
          · (refine ih _ _ ?_ h; exact h0)
        · split at h
          · (refine ih _ _ ?_ h; exact h0)
          · split at h
            · (refine ih _ _ ?_ h; exact h0)
            · split at h
              · (refine ih _ _ ?_ h; exact h0)
              · split at h
                · rename_i hblt
                  split at h
                  · cases h
                  · rename_i di' i' s term' hscan
                    split at h
                    · cases h
                    · refine ih _ _ ?_ h
                      have hs := (fuseScan_s _ _ _ _ _ _ _ _ _ hscan).2 hblt
                      simp only [] at hs
                      intro v hv
                      rcases List.mem_append.mp hv with hv | hv
                      · exact h0 v hv
                      · rw [List.mem_singleton.mp hv]; omega
                · cases h
    · simp only [pure, Except.pure] at h; injection h with h; subst h; exact h0

/-! ### the fuse phase -/

/-- calls that are clusters of consecutive ranges with lengths from `fs`, left to right -/
def AscCalls (fs : List Nat) : List (List (List Nat)) → Nat → Prop
  | [], _ => True
  | G :: rest, lb => ∃ P ls, G = curL P ls ∧ ls ≠ [] ∧ (∀ L ∈ ls, L ∈ fs) ∧ lb ≤ P
      ∧ AscCalls fs rest (P + ls.length)

theorem curL_isEmpty (P : Nat) (ls : List Nat) : (curL P ls).isEmpty = ls.isEmpty := by
  cases ls <;> rfl

theorem fuseLoop_asc (fs : List Nat) : ∀ (fuel i : Nat) (term : List Lbl) (acc res : List (List (List Nat)))
    (P : Nat) (ls : List Nat) (lb : Nat), i = P + sumN ls → lb ≤ P → (∀ L ∈ ls, L ∈ fs) →
    fuseLoop fs fuel i term (curL P ls) acc = .ok res →
    ∃ new, res = acc ++ new ∧ AscCalls fs new lb := by
  intro fuel
  induction fuel with
  | zero => intro i term acc res P ls lb _ _ _ h; simp [fuseLoop, throw, throwThe, MonadExceptOf.throw] at h
  | succ fuel ih =>
    intro i term acc res P ls lb hi hlb hls h
    simp only [fuseLoop] at h
    split at h
    · -- end of the labels
      simp only [pure, Except.pure, curL_isEmpty] at h
      injection h with h
      cases ls with
      | nil => exact ⟨[], by simpa using h.symm, trivial⟩
      | cons a ls =>
        simp only [List.isEmpty_cons, Bool.false_eq_true, if_false] at h
        exact ⟨[curL P (a :: ls)], h.symm, P, a :: ls, rfl, by simp, hls, hlb, trivial⟩
    · rename_i label _
      split at h
      · -- not a group label
        simp only [curL_isEmpty] at h
        cases ls with
        | nil =>
          simp only [List.isEmpty_nil, Bool.not_true, Bool.false_eq_true, if_false] at h
          simp only [sumN, Nat.add_zero] at hi
          exact ih (i + 1) term acc res (i + 1) [] lb (by simp [sumN]) (by omega) (by simp)
            (by simpa [curL] using h)
        | cons a ls =>
          simp only [List.isEmpty_cons, Bool.not_false, if_true] at h
          rw [curL_lengths, curL_length] at h
          have e : i - sumN (a :: ls) + (a :: ls).length = P + (a :: ls).length := by omega
          rw [e] at h
          obtain ⟨new, hres, hasc⟩ := ih (P + (a :: ls).length) _ (acc ++ [curL P (a :: ls)]) res
            (P + (a :: ls).length) [] (P + (a :: ls).length) (by simp [sumN]) (Nat.le_refl _) (by simp)
            (by simpa [curL] using h)
          exact ⟨curL P (a :: ls) :: new, by rw [hres]; simp,
            P, a :: ls, rfl, by simp, hls, hlb, hasc⟩
      · -- a group label
        rename_i s hsz
        have hsfs : s ∈ fs := by
          cases label with
          | g k => simp only [] at hsz; exact List.mem_of_getElem? hsz
          | o => simp at hsz
          | s => simp at hsz
          | u k => simp at hsz
        rw [hi, curL_append] at h
        exact ih (P + sumN ls + s) term acc res P (ls ++ [s]) lb (by rw [sumN_append]; simp [sumN]; omega) hlb
          (by
            intro L hL
            rcases List.mem_append.mp hL with hL | hL
            · exact hls L hL
            · rw [List.mem_singleton.mp hL]; exact hsfs) h

end SymmModel.Reshape5
