/-
  SymmModel.Proofs.Reshape4b — the way back on arrays: if `y` has a fused axis at `p` whose
  sub-indices, put in its place, give the indices of an array `a` without fused axes, then
  `y.reshape(a.shape)` is exactly `y.unfuse(p)`.
-/
import SymmModel.Proofs.Reshape4a
import SymmModel.Proofs.Reshape3j

namespace SymmModel
namespace Reshape4
open C07 ReshapeP

variable {R : Type}

theorem getElem?_split {α : Type} {l : List α} {p : Nat} {x : α} (h : l[p]? = some x) :
    l = l.take p ++ x :: l.drop (p + 1) := by
  obtain ⟨hp, hx⟩ := List.getElem?_eq_some_iff.mp h
  conv => lhs; rw [← List.take_append_drop p l, List.drop_eq_getElem_cons hp, hx]

/-- the plan of `y.reshape(a.shape)` -/
theorem back_plan_arr (y a : Arr R) (p : Nat) (ix : Index) (subs : List Index) (exts : Extents)
    (hix : y.indices[p]? = some ix) (hsub : ix.sub = some (subs, exts)) (hsn : subs ≠ [])
    (hidx : a.indices = replaceWithSeq y.indices p subs) (hnf : ∀ ix ∈ a.indices, ix.sub = none) :
    calcReshapeArgs y.shape a.shape y.subsizes = .ok ([p], [], []) := by
  have hp := (List.getElem?_eq_some_iff.mp hix).1
  have hsplit := getElem?_split hix
  have hmemL : ∀ i ∈ y.indices.take p, i.sub = none := fun i hi =>
    hnf i (by rw [hidx]; simp only [replaceWithSeq, List.mem_append]; exact Or.inl (Or.inl hi))
  have hmemR : ∀ i ∈ y.indices.drop (p + 1), i.sub = none := fun i hi =>
    hnf i (by rw [hidx]; simp only [replaceWithSeq, List.mem_append]; exact Or.inr hi)
  have h1 : y.shape = (y.indices.take p).map Index.sizeTotal
      ++ ix.sizeTotal :: (y.indices.drop (p + 1)).map Index.sizeTotal := by
    conv => lhs; rw [Arr.shape, hsplit]
    simp
  have h2 : a.shape = (y.indices.take p).map Index.sizeTotal ++ subs.map Index.sizeTotal
      ++ (y.indices.drop (p + 1)).map Index.sizeTotal := by
    rw [Arr.shape, hidx]; simp [replaceWithSeq]
  have hn : ∀ l : List Index, (∀ i ∈ l, i.sub = none) →
      l.map (fun ix => ix.sub.map (fun s => s.1.map Index.sizeTotal)) = nones (l.map Index.sizeTotal) := by
    intro l hl
    simp only [nones, List.map_map]
    apply List.map_congr_left
    intro i hi
    simp [hl i hi]
  have h3 : y.subsizes = nones ((y.indices.take p).map Index.sizeTotal)
      ++ some (subs.map Index.sizeTotal) :: nones ((y.indices.drop (p + 1)).map Index.sizeTotal) := by
    conv => lhs; rw [Arr.subsizes, hsplit]
    rw [List.map_append, List.map_cons, hn _ hmemL, hn _ hmemR, hsub]
    rfl
  rw [h1, h2, h3, back_plan _ _ _ _ (by simpa using hsn)]
  simp [Nat.min_eq_left (Nat.le_of_lt hp)]

/-- `y.reshape(a.shape)` is `y.unfuse(p)` -/
theorem reshape_back_eq [Zero R] [Neg R] (y a : Arr R) (p : Nat) (ix : Index) (subs : List Index)
    (exts : Extents) (hix : y.indices[p]? = some ix) (hsub : ix.sub = some (subs, exts))
    (hsn : subs ≠ []) (hidx : a.indices = replaceWithSeq y.indices p subs)
    (hnf : ∀ ix ∈ a.indices, ix.sub = none) :
    reshapeArr y (a.shape.map Int.ofNat) = unfuseDispatch y p := by
  rw [reshapeArr_eq y _ _ a.shape ([p], [], []) (findFullReshape_nat a.shape y.size)
    (mapM_toNat a.shape) (back_plan_arr y a p ix subs exts hix hsub hsn hidx hnf)]
  simp only [applyPlan, List.foldlM_cons, List.foldlM_nil, bind, Except.bind, pure, Except.pure]
  cases unfuseDispatch y p <;> rfl

end Reshape4
end SymmModel
