/-
  SymmModel.Proofs.FuseAddr — target 4 of property C05: the address map of a fused index in
  certificate form.  `splitAddr`/`joinAddr` read only the index's own table
  (`ix.sub = (sub-indices, extents)`); they are mutually inverse for every well-formed index,
  independently of how the table was produced.
-/
import SymmModel.Proofs.FuseSpec
namespace SymmModel
namespace FuseP
set_option linter.unusedSectionVars false

/-- (fused charge, offset) ↦ (sub-charges, sub-offsets): find the sub-sector whose cumulative
    range contains the offset, subtract its start, `unravel` over the sub-sizes -/
def splitAddr (ix : Index) (c : Charge) (o : Nat) : Option (Sector × List Nat) :=
  match ix.sub with
  | none => none
  | some (subs, exts) =>
    match alookup exts c with
    | none => none
    | some ext =>
      match splitOffset ext o with
      | none => none
      | some (ss, r) =>
        match Arr.blockShape? subs ss with
        | none => none
        | some shp => some (ss, unravel shp r)

/-- (sub-charges, sub-offsets) ↦ offset inside the fused charge `c` -/
def joinAddr (ix : Index) (c : Charge) (ss : Sector) (offs : List Nat) : Option Nat :=
  match ix.sub with
  | none => none
  | some (subs, exts) =>
    match alookup exts c with
    | none => none
    | some ext =>
      match Arr.blockShape? subs ss with
      | none => none
      | some shp => if inBox shp offs then joinOffset ext ss (ravel shp offs) else none

/-- the clauses of `extentOk`, as propositions -/
structure ExtentOk (sym : Sym) (dual : Bool) (subs : List Index) (c : Charge) (d : Nat) (ext : Extent) :
    Prop where
  total : sumN (ext.map (·.2)) = d
  nodup : (ext.map (·.1)).Nodup
  entry : ∀ ss sz, (ss, sz) ∈ ext → ss.length = subs.length
    ∧ (∃ shp, Arr.blockShape? subs ss = some shp ∧ prod shp = sz)
    ∧ sym.combine (List.zipWith (fun c' (sub : Index) => sym.sign c' (dual != sub.dual)) ss subs) = c

theorem extentOk_iff {sym : Sym} {dual : Bool} {subs : List Index} {c : Charge} {d : Nat} {ext : Extent} :
    extentOk sym dual subs c d ext = true ↔ ExtentOk sym dual subs c d ext := by
  simp only [extentOk, Bool.and_eq_true, beq_iff_eq, List.all_eq_true, allDistinct_iff]
  constructor
  · rintro ⟨⟨h1, h2⟩, h3⟩
    refine ⟨h1, h2, ?_⟩
    intro ss sz hm
    have := h3 (ss, sz) hm
    simp only at this
    refine ⟨this.1.1, ?_, this.2⟩
    cases hb : Arr.blockShape? subs ss with
    | none => rw [hb] at this; simp at this
    | some shp => rw [hb] at this; simp only [beq_iff_eq] at this; exact ⟨shp, rfl, this.1.2⟩
  · rintro ⟨h1, h2, h3⟩
    refine ⟨⟨h1, h2⟩, ?_⟩
    intro x hx
    obtain ⟨ss, sz⟩ := x
    obtain ⟨e1, ⟨shp, e2, e3⟩, e4⟩ := h3 ss sz hx
    simp [e1, e2, e3, e4]

/-- what `Index.wfB` says about one extent of a fused index -/
theorem wfB_extent {sym : Sym} {ix : Index} (hw : Index.wfB sym ix = true) {subs : List Index}
    {exts : Extents} (hs : ix.sub = some (subs, exts)) {c : Charge} {ext : Extent}
    (he : alookup exts c = some ext) :
    ∃ d, alookup ix.cm c = some d ∧ ExtentOk sym ix.dual subs c d ext := by
  obtain ⟨cm, dual, sub⟩ := ix
  simp only [Index.sub] at hs
  subst hs
  rw [Index.wfB.eq_def] at hw
  simp only [Bool.and_eq_true, List.all_eq_true] at hw
  obtain ⟨_, ⟨⟨_, h3⟩, h4⟩⟩ := hw
  have h5 := h4 (c, ext) (alookup_some_mem he)
  simp only at h5
  cases hd : alookup cm c with
  | none => rw [hd] at h5; simp at h5
  | some d =>
    refine ⟨d, hd, ?_⟩
    have h6 := h3 (c, d) (alookup_some_mem hd)
    simp only [he] at h6
    exact extentOk_iff.1 h6

section Addr
variable {sym : Sym} {ix : Index} (hw : Index.wfB sym ix = true)
include hw

/-- splitting an offset and joining it again gives the offset back; the sub-offsets lie in the
    box of the sub-sizes and the sub-charges combine (signed, relative to the fused direction) to
    the fused charge -/
theorem joinAddr_splitAddr {c : Charge} {o : Nat} {ss : Sector} {offs : List Nat}
    (h : splitAddr ix c o = some (ss, offs)) :
    joinAddr ix c ss offs = some o
      ∧ ∃ subs exts shp, ix.sub = some (subs, exts) ∧ Arr.blockShape? subs ss = some shp
        ∧ inBox shp offs = true
        ∧ sym.combine (List.zipWith (fun c' (sub : Index) => sym.sign c' (ix.dual != sub.dual)) ss subs) = c := by
  unfold splitAddr at h
  cases hs : ix.sub with
  | none => simp [hs] at h
  | some se =>
    obtain ⟨subs, exts⟩ := se
    simp only [hs] at h
    cases he : alookup exts c with
    | none => simp [he] at h
    | some ext =>
      simp only [he] at h
      cases hso : splitOffset ext o with
      | none => simp [hso] at h
      | some q =>
        obtain ⟨ss', r⟩ := q
        simp only [hso] at h
        cases hb : Arr.blockShape? subs ss' with
        | none => simp [hb] at h
        | some shp =>
          simp only [hb, Option.some.injEq, Prod.mk.injEq] at h
          obtain ⟨rfl, rfl⟩ := h
          obtain ⟨d, _, hok⟩ := wfB_extent hw hs he
          obtain ⟨st, d', hst, hr, ho⟩ := splitOffset_startOf hok.nodup hso
          obtain ⟨_, ⟨shp', hb', hp⟩, hc⟩ := hok.entry _ _ (startOf_mem hst)
          rw [hb] at hb'; simp only [Option.some.injEq] at hb'; subst hb'
          have hr' : r < prod shp := by rw [hp]; exact hr
          refine ⟨?_, subs, exts, shp, rfl, hb, unravel_inBox hr', hc⟩
          simp only [joinAddr, hs, he, hb, unravel_inBox hr', if_true, ravel_unravel hr']
          exact joinOffset_splitOffset hok.nodup hso

/-- every offset below the size of a charge has an address -/
theorem splitAddr_total {c : Charge} {D : Nat} {subs : List Index} {exts : Extents}
    (hs : ix.sub = some (subs, exts)) (hc : alookup ix.cm c = some D) {o : Nat} (ho : o < D) :
    ∃ ss offs, splitAddr ix c o = some (ss, offs) := by
  obtain ⟨cm, dual, sub⟩ := ix
  simp only [Index.sub] at hs
  subst hs
  have hw' := hw
  rw [Index.wfB.eq_def] at hw'
  simp only [Bool.and_eq_true, List.all_eq_true] at hw'
  obtain ⟨_, ⟨⟨_, h3⟩, _⟩⟩ := hw'
  have h6 := h3 (c, D) (alookup_some_mem hc)
  simp only at h6
  cases he : alookup exts c with
  | none => rw [he] at h6; simp at h6
  | some ext =>
    rw [he] at h6
    have hok := extentOk_iff.1 h6
    obtain ⟨ss, r, hso⟩ := splitOffset_some (ext := ext) (o := o) (by rw [hok.total]; exact ho)
    obtain ⟨st, d', hst, _, _⟩ := splitOffset_startOf hok.nodup hso
    obtain ⟨_, ⟨shp, hb, _⟩, _⟩ := hok.entry _ _ (startOf_mem hst)
    exact ⟨ss, unravel shp r, by simp [splitAddr, Index.sub, he, hso, hb]⟩

end Addr

/-- joining sub-offsets and splitting again gives them back (no hypothesis on the table) -/
theorem splitAddr_joinAddr {ix : Index} {c : Charge} {ss : Sector} {offs : List Nat} {o : Nat}
    (h : joinAddr ix c ss offs = some o) : splitAddr ix c o = some (ss, offs) := by
  unfold joinAddr at h
  cases hs : ix.sub with
  | none => simp [hs] at h
  | some se =>
    obtain ⟨subs, exts⟩ := se
    simp only [hs] at h
    cases he : alookup exts c with
    | none => simp [he] at h
    | some ext =>
      simp only [he] at h
      cases hb : Arr.blockShape? subs ss with
      | none => simp [hb] at h
      | some shp =>
        simp only [hb] at h
        split at h
        · rename_i hbox
          simp only [splitAddr, hs, he, splitOffset_joinOffset h, hb, unravel_ravel hbox]
        · cases h

/-- distinct addresses have distinct joined offsets (injectivity, from the inverse) -/
theorem joinAddr_inj {ix : Index} {c : Charge} {ss ss' : Sector} {offs offs' : List Nat} {o : Nat}
    (h : joinAddr ix c ss offs = some o) (h' : joinAddr ix c ss' offs' = some o) :
    ss = ss' ∧ offs = offs' := by
  have := splitAddr_joinAddr h
  rw [splitAddr_joinAddr h'] at this
  simp only [Option.some.injEq, Prod.mk.injEq] at this
  exact ⟨this.1.symm, this.2.symm⟩

end FuseP
end SymmModel
