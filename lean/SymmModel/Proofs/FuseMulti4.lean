/-
  SymmModel.Proofs.FuseMulti4 — list plumbing for several fused axes: lists cut into
  front / group / back parts, flattening of per-group segments, `ravel` over grouped axes.
-/
import SymmModel.Proofs.FuseMulti3
namespace SymmModel
namespace FuseP
set_option linter.unusedSectionVars false

/-! ### three-part lists -/

theorem list_ext_getD {α : Type} {l1 l2 : List α} (d : α) (hl : l1.length = l2.length)
    (h : ∀ k, k < l1.length → l1.getD k d = l2.getD k d) : l1 = l2 := by
  apply List.ext_getElem hl
  intro k h1 h2
  have := h k h1
  simpa [List.getD_eq_getElem?_getD, List.getElem?_eq_getElem h1, List.getElem?_eq_getElem h2] using this

theorem getD_range_map {α : Type} (f : Nat → α) (n k : Nat) (d : α) (hk : k < n) :
    ((List.range n).map f).getD k d = f k := by
  simp [List.getD_eq_getElem?_getD, List.getElem?_map, List.getElem?_range hk]

/-- a list of length `p + k + m` cut into its front, group and back parts -/
theorem three_parts {α : Type} (l : List α) (d : α) (p k m : Nat) (hl : l.length = p + k + m) :
    l = (List.range p).map (fun x => l.getD x d) ++ (List.range k).map (fun g => l.getD (p + g) d)
        ++ (List.range m).map (fun j => l.getD (p + k + j) d) := by
  apply list_ext_getD d (by simp [hl]; omega)
  intro x hx
  rw [hl] at hx
  by_cases h1 : x < p
  · rw [List.append_assoc, getD_before _ _ _ _ (by simpa using h1), getD_range_map _ _ _ _ h1]
  · by_cases h2 : x < p + k
    · have hlen : ((List.range p).map (fun x => l.getD x d)).length = p := by simp
      have : x = ((List.range p).map (fun x => l.getD x d)).length + (x - p) := by rw [hlen]; omega
      rw [this, getD_mid _ _ _ _ _ (by simp; omega), getD_range_map _ _ _ _ (by omega), hlen]
    · have hlen : ((List.range p).map (fun x => l.getD x d) ++ (List.range k).map (fun g => l.getD (p + g) d)).length
          = p + k := by simp
      have : x = ((List.range p).map (fun x => l.getD x d) ++ (List.range k).map (fun g => l.getD (p + g) d)).length
          + (x - p - k) := by rw [hlen]; omega
      rw [this, getD_after, getD_range_map _ _ _ _ (by omega), hlen]

theorem take_eq_range_map {α : Type} (l : List α) (d : α) (p : Nat) (hp : p ≤ l.length) :
    l.take p = (List.range p).map (fun x => l.getD x d) := by
  apply list_ext_getD d (by simp [hp])
  intro x hx
  simp only [List.length_take] at hx
  rw [getD_range_map _ _ _ _ (by omega)]
  simp [List.getD_eq_getElem?_getD, show x < p by omega]

theorem drop_eq_range_map {α : Type} (l : List α) (d : α) (p m : Nat) (hl : l.length = p + m) :
    l.drop p = (List.range m).map (fun j => l.getD (p + j) d) := by
  apply list_ext_getD d (by simp [hl])
  intro x hx
  simp only [List.length_drop] at hx
  rw [getD_range_map _ _ _ _ (by omega)]
  simp [List.getD_eq_getElem?_getD, List.getElem?_drop]

theorem map_eq_range_map {α β : Type} (l : List α) (d : α) (f : α → β) :
    l.map f = (List.range l.length).map (fun g => f (l.getD g d)) := by
  apply List.ext_getElem (by simp)
  intro k h1 h2
  simp only [List.length_map] at h1
  simp [List.getD_eq_getElem?_getD, List.getElem?_eq_getElem h1]

theorem zipIdx_map_eq_range_map {α β : Type} (l : List α) (d : α) (f : α × Nat → β) :
    l.zipIdx.map f = (List.range l.length).map (fun g => f (l.getD g d, g)) := by
  apply List.ext_getElem (by simp)
  intro k h1 h2
  simp only [List.length_map, List.length_zipIdx] at h1
  simp [List.getD_eq_getElem?_getD, List.getElem?_eq_getElem h1]

/-! ### flattening per-group segments -/

theorem flatten_map_inj {γ α : Type} (gs : List γ) (f1 f2 : γ → List α)
    (hl : ∀ g ∈ gs, (f1 g).length = (f2 g).length)
    (h : (gs.map f1).flatten = (gs.map f2).flatten) : ∀ g ∈ gs, f1 g = f2 g := by
  induction gs with
  | nil => intro g hg; cases hg
  | cons x xs ih =>
    simp only [List.map_cons, List.flatten_cons] at h
    have := List.append_inj h (hl x (by simp))
    intro g hg
    rcases List.mem_cons.1 hg with rfl | hg
    · exact this.1
    · exact ih (fun g hg => hl g (List.mem_cons_of_mem _ hg)) this.2 g hg

theorem flatten_map_length_eq {γ α β : Type} (gs : List γ) (f1 : γ → List α) (f2 : γ → List β)
    (hl : ∀ g ∈ gs, (f1 g).length = (f2 g).length) :
    (gs.map f1).flatten.length = (gs.map f2).flatten.length := by
  induction gs with
  | nil => rfl
  | cons x xs ih =>
    simp only [List.map_cons, List.flatten_cons, List.length_append]
    rw [hl x (by simp), ih (fun g hg => hl g (List.mem_cons_of_mem _ hg))]

theorem inBox_flatten_map {γ : Type} (gs : List γ) (ms js : γ → List Nat)
    (h : ∀ g ∈ gs, inBox (ms g) (js g) = true) :
    inBox (gs.map ms).flatten (gs.map js).flatten = true := by
  induction gs with
  | nil => rfl
  | cons x xs ih =>
    simp only [List.map_cons, List.flatten_cons]
    rw [inBox_append (inBox_length (h x (by simp))), h x (by simp),
      ih (fun g hg => h g (List.mem_cons_of_mem _ hg))]
    rfl

theorem prod_flatten_map {γ : Type} (gs : List γ) (ms : γ → List Nat) :
    prod (gs.map ms).flatten = prod (gs.map (fun g => prod (ms g))) := by
  induction gs with
  | nil => rfl
  | cons x xs ih => simp only [List.map_cons, List.flatten_cons, prod_append, prod, ih]

/-- flat position under several grouped axes -/
theorem ravel_groups {γ : Type} (gs : List γ) (ms js : γ → List Nat) (C ic : List Nat)
    (h : ∀ g ∈ gs, (js g).length = (ms g).length) :
    ravel (gs.map (fun g => prod (ms g)) ++ C) (gs.map (fun g => ravel (ms g) (js g)) ++ ic)
      = ravel ((gs.map ms).flatten ++ C) ((gs.map js).flatten ++ ic) := by
  induction gs with
  | nil => rfl
  | cons x xs ih =>
    simp only [List.map_cons, List.flatten_cons, List.cons_append, ravel, List.append_assoc]
    rw [ravel_append (h x (by simp)), ih (fun g hg => h g (List.mem_cons_of_mem _ hg)),
      prod_append, prod_append, prod_flatten_map]

theorem ravel_three {γ : Type} (gs : List γ) (ms js : γ → List Nat) (A C ia ic : List Nat)
    (ha : ia.length = A.length) (h : ∀ g ∈ gs, (js g).length = (ms g).length) :
    ravel (A ++ gs.map (fun g => prod (ms g)) ++ C) (ia ++ gs.map (fun g => ravel (ms g) (js g)) ++ ic)
      = ravel (A ++ (gs.map ms).flatten ++ C) (ia ++ (gs.map js).flatten ++ ic) := by
  rw [List.append_assoc, List.append_assoc, List.append_assoc, List.append_assoc, ravel_append ha,
    ravel_append ha, ravel_groups gs ms js C ic h, prod_append, prod_append, prod_flatten_map]

theorem unravel_single (d n : Nat) : unravel [d] n = [n] := by
  simp [unravel, prod]

end FuseP
end SymmModel
