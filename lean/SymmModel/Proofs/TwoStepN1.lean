/-
  SymmModel.Proofs.TwoStepN1 — the abelian einsum data (`einTraced`, `einTracedPos`, `einKeep`, `einPerm?`,
  `einSize`, `einIdx`) of the two-step labels `gLhs N PA PB -> gRhs N PA PB` in their NON-canonical position
  (traced pairs anywhere among the legs), for positions with `PA` strictly increasing and every `PA` entry
  below every `PB` entry (separator `K`).  Namespace `SymmModel.TwoStepP`.
-/
import SymmModel.Proofs.TwoStepOrder2

namespace SymmModel
namespace TwoStepP
open TdotP GradedP Lazy
set_option linter.unusedSectionVars false

/-- strictly increasing lists with the same members are equal -/
theorem sorted_ext : ∀ {l1 l2 : List Nat}, l1.Pairwise (· < ·) → l2.Pairwise (· < ·) →
    (∀ x, x ∈ l1 ↔ x ∈ l2) → l1 = l2
  | [], [], _, _, _ => rfl
  | [], b :: l2, _, _, h => by have := (h b).2 (by simp); simp at this
  | a :: l1, [], _, _, h => by have := (h a).1 (by simp); simp at this
  | a :: l1, b :: l2, h1, h2, h => by
    rw [List.pairwise_cons] at h1 h2
    have hab : a = b := by
      have ha := (h a).1 (by simp)
      have hb := (h b).2 (by simp)
      rw [List.mem_cons] at ha hb
      rcases ha with ha | ha
      · exact ha
      · rcases hb with hb | hb
        · exact hb.symm
        · have := h1.1 b hb; have := h2.1 a ha; omega
    subst hab
    congr 1
    apply sorted_ext h1.2 h2.2
    intro x
    constructor
    · intro hx
      have := (h x).1 (List.mem_cons_of_mem _ hx)
      rw [List.mem_cons] at this
      rcases this with e | e
      · have := h1.1 x hx; omega
      · exact e
    · intro hx
      have := (h x).2 (List.mem_cons_of_mem _ hx)
      rw [List.mem_cons] at this
      rcases this with e | e
      · have := h2.1 x hx; omega
      · exact e

/-- `eraseDups` of a duplicate-free list followed by repetitions of its members -/
theorem eraseDups_append_sub : ∀ (X Y : List Nat), X.Nodup → (∀ y ∈ Y, y ∈ X) → (X ++ Y).eraseDups = X
  | [], Y, _, h => by
    cases Y with
    | nil => simp
    | cons y _ => have := h y (by simp); simp at this
  | x :: X, Y, hn, h => by
    rw [List.nodup_cons] at hn
    rw [List.cons_append, List.eraseDups_cons, List.filter_append]
    have e1 : X.filter (fun b => !b == x) = X := by
      rw [List.filter_eq_self]; intro z hz
      have : z ≠ x := fun e => hn.1 (e ▸ hz)
      simp [this]
    rw [e1, eraseDups_append_sub X _ hn.2]
    intro y hy
    obtain ⟨hy1, hy2⟩ := List.mem_filter.mp hy
    have := h y hy1
    rw [List.mem_cons] at this
    rcases this with e | e
    · subst e; simp at hy2
    · exact e

/-- `indexOf?` returns the FIRST position -/
theorem indexOf?_first {l : List Nat} {x j : Nat} (h : indexOf? l x = some j) :
    ∀ i, i < j → l[i]? ≠ some x := by
  induction l generalizing j with
  | nil => simp [indexOf?] at h
  | cons y ys ih =>
    simp only [indexOf?] at h
    by_cases hy : (y == x) = true
    · simp only [hy, if_true, Option.some.injEq] at h
      subst h; intro i hi; omega
    · simp only [hy, Bool.false_eq_true, if_false] at h
      cases hq : indexOf? ys x with
      | none => simp [hq] at h
      | some j' =>
        simp only [hq, Option.map_some, Option.some.injEq] at h
        subst h
        intro i hi
        cases i with
        | zero =>
          intro e
          simp only [List.getElem?_cons_zero, Option.some.injEq] at e
          exact hy (by simp [e])
        | succ i =>
          simp only [List.getElem?_cons_succ]
          exact ih hq i (by omega)

theorem indexOf?_eq_first {l : List Nat} {x k : Nat} (hk : l[k]? = some x)
    (hf : ∀ j, j < k → l[j]? ≠ some x) : indexOf? l x = some k := by
  obtain ⟨j, hj, hj'⟩ := KoszulP.indexOf?_of_mem l x (List.mem_of_getElem? hk)
  rcases Nat.lt_trichotomy j k with h | h | h
  · exact absurd hj' (hf j h)
  · rw [hj, h]
  · exact absurd hk (indexOf?_first hj k h)

/-- the label of position `p` -/
def lab (N : Nat) (PA PB : List Nat) (p : Nat) : Nat :=
  match indexOf? PA p with
  | some i => N + i
  | none => match indexOf? PB p with
    | some i => N + i
    | none => p

theorem gLhs_eq_lab (N : Nat) (PA PB : List Nat) : gLhs N PA PB = (List.range N).map (lab N PA PB) := rfl

theorem gLhs_getElem? (N : Nat) (PA PB : List Nat) {p : Nat} (hp : p < N) :
    (gLhs N PA PB)[p]? = some (lab N PA PB p) := by
  rw [gLhs_eq_lab, List.getElem?_map, List.getElem?_range hp]; rfl

section geo
variable {N m : Nat} {PA PB : List Nat} (g : Geo N m PA PB)
include g

theorem labA {i : Nat} (hi : i < m) : lab N PA PB (PA.getD i 0) = N + i := by
  unfold lab; rw [(g.getA hi).2]

theorem labB {i : Nat} (hi : i < m) : lab N PA PB (PB.getD i 0) = N + i := by
  have hn : indexOf? PA (PB.getD i 0) = none :=
    indexOf?_eq_none_iff.2 (fun h => (List.disjoint_of_nodup_append g.nd) h (g.getB hi).1)
  unfold lab; rw [hn, (g.getB hi).2]

omit g in
theorem labR {p : Nat} (h : p ∈ gRhs N PA PB) : lab N PA PB p = p := by
  obtain ⟨_, h2, h3⟩ := mem_gRhs.1 h
  unfold lab; rw [indexOf?_eq_none_iff.2 h2, indexOf?_eq_none_iff.2 h3]

/-- every position is a left leg of a pair, a right leg of a pair, or untraced -/
theorem lab_cases {p : Nat} (hp : p < N) :
    (∃ i, i < m ∧ p = PA.getD i 0) ∨ (∃ i, i < m ∧ p = PB.getD i 0) ∨ p ∈ gRhs N PA PB := by
  by_cases hA : p ∈ PA
  · left
    obtain ⟨i, hi, rfl⟩ := List.getElem_of_mem hA
    exact ⟨i, g.lenA ▸ hi, by simp [List.getD_eq_getElem?_getD, hi]⟩
  · by_cases hB : p ∈ PB
    · right; left
      obtain ⟨i, hi, rfl⟩ := List.getElem_of_mem hB
      exact ⟨i, g.lenB ▸ hi, by simp [List.getD_eq_getElem?_getD, hi]⟩
    · right; right
      exact mem_gRhs.2 ⟨hp, hA, hB⟩

theorem getA_inj {i j : Nat} (hi : i < m) (hj : j < m) (h : PA.getD i 0 = PA.getD j 0) : i = j := by
  have h1 := (g.getA hi).2
  rw [h, (g.getA hj).2] at h1
  exact (Option.some.inj h1).symm

theorem getB_inj {i j : Nat} (hi : i < m) (hj : j < m) (h : PB.getD i 0 = PB.getD j 0) : i = j := by
  have h1 := (g.getB hi).2
  rw [h, (g.getB hj).2] at h1
  exact (Option.some.inj h1).symm

theorem getAB_ne {i j : Nat} (hi : i < m) (hj : j < m) : PA.getD i 0 ≠ PB.getD j 0 := fun h =>
  (List.disjoint_of_nodup_append g.nd) (g.getA hi).1 (h ▸ (g.getB hj).1)

/-- the positions that carry the label `N + i` -/
theorem lab_eq_iff {p i : Nat} (hp : p < N) (hi : i < m) :
    lab N PA PB p = N + i ↔ (p = PA.getD i 0 ∨ p = PB.getD i 0) := by
  constructor
  · intro h
    rcases lab_cases g hp with ⟨j, hj, rfl⟩ | ⟨j, hj, rfl⟩ | hr
    · rw [labA g hj] at h
      have : j = i := by omega
      subst this; exact Or.inl rfl
    · rw [labB g hj] at h
      have : j = i := by omega
      subst this; exact Or.inr rfl
    · rw [labR hr] at h; omega
  · rintro (rfl | rfl)
    · exact labA g hi
    · exact labB g hi

theorem lab_not_rhs {p : Nat} (hp : p < N) : lab N PA PB p ∈ gRhs N PA PB ↔ p ∈ gRhs N PA PB := by
  constructor
  · intro h
    rcases lab_cases g hp with ⟨j, hj, rfl⟩ | ⟨j, hj, rfl⟩ | hr
    · rw [labA g hj] at h; exact absurd h (not_mem_gRhs_ge (by omega))
    · rw [labB g hj] at h; exact absurd h (not_mem_gRhs_ge (by omega))
    · exact hr
  · intro h; rw [labR h]; exact h

/-- first position of an untraced label -/
theorem idx_rhs {p : Nat} (h : p ∈ gRhs N PA PB) : indexOf? (gLhs N PA PB) p = some p := by
  have hp := (mem_gRhs.1 h).1
  apply indexOf?_eq_first
  · rw [gLhs_getElem? N PA PB hp, labR h]
  · intro j hj
    rw [gLhs_getElem? N PA PB (by omega)]
    intro e
    have e := Option.some.inj e
    rcases lab_cases g (show j < N by omega) with ⟨i, hi, rfl⟩ | ⟨i, hi, rfl⟩ | hr
    · rw [labA g hi] at e; omega
    · rw [labB g hi] at e; omega
    · rw [labR hr] at e; omega

variable {K : Nat} (hK1 : ∀ p ∈ PA, p < K) (hK2 : ∀ q ∈ PB, K ≤ q)
include hK1 hK2

/-- first position of a traced label: the `PA` leg -/
theorem idx_A {i : Nat} (hi : i < m) : indexOf? (gLhs N PA PB) (N + i) = some (PA.getD i 0) := by
  have hp := g.ltA (g.getA hi).1
  apply indexOf?_eq_first
  · rw [gLhs_getElem? N PA PB hp, labA g hi]
  · intro j hj
    rw [gLhs_getElem? N PA PB (by omega)]
    intro e
    have e := Option.some.inj e
    rcases (lab_eq_iff g (show j < N by omega) hi).1 e with rfl | rfl
    · omega
    · have := hK1 _ (g.getA hi).1
      have := hK2 _ (g.getB hi).1
      omega

theorem einSize_rhs (shape : List Nat) (hs : shape.length = N) :
    (gRhs N PA PB).map (einSize shape (gLhs N PA PB)) = permuted shape (gRhs N PA PB) := by
  rw [permuted_eq_map shape _ (fun x hx => by rw [hs]; exact (mem_gRhs.1 hx).1) 0]
  apply List.map_congr_left
  intro p hp
  unfold einSize
  rw [idx_rhs g hp]

theorem einPerm?_g : einPerm? (gLhs N PA PB) (gRhs N PA PB) = .ok (gRhs N PA PB) := by
  unfold einPerm?
  rw [mapM_ok _ (fun q => q)]
  · rw [List.map_id']
  · intro q hq
    rw [idx_rhs g hq]; rfl

variable (hinc : PA.Pairwise (· < ·)) (hKN : K ≤ N)
include hinc hKN

/-- **the traced labels in first-appearance order** -/
theorem einTraced_g : einTraced (gLhs N PA PB) (gRhs N PA PB) = (List.range m).map (N + ·) := by
  unfold einTraced
  rw [gLhs_eq_lab, List.filter_map]
  have hN : N = K + (N - K) := by omega
  have hsplit : List.range N = List.range K ++ (List.range (N - K)).map (K + ·) := by
    conv => lhs; rw [hN]
    exact List.range_add
  rw [hsplit, List.filter_append, List.map_append]
  have h1 : (List.range K).filter ((fun q => !(gRhs N PA PB).contains q) ∘ lab N PA PB) = PA := by
    apply sorted_ext (List.Pairwise.filter _ List.pairwise_lt_range) hinc
    intro x
    rw [List.mem_filter, List.mem_range]
    simp only [Function.comp, Bool.not_eq_eq_eq_not, Bool.not_true, List.contains_eq_mem,
      decide_eq_false_iff_not]
    constructor
    · rintro ⟨hx, hnr⟩
      have hxN : x < N := by omega
      rw [lab_not_rhs g hxN] at hnr
      rcases lab_cases g hxN with ⟨i, hi, rfl⟩ | ⟨i, hi, rfl⟩ | hr
      · exact (g.getA hi).1
      · have := hK2 _ (g.getB hi).1; omega
      · exact absurd hr hnr
    · intro hx
      refine ⟨hK1 x hx, ?_⟩
      rw [lab_not_rhs g (g.ltA hx)]
      exact fun h => (mem_gRhs.1 h).2.1 hx
  rw [h1]
  have h2 : PA.map (lab N PA PB) = (List.range m).map (N + ·) := by
    apply List.ext_getElem
    · simp [g.lenA]
    · intro i h1 h2
      have hi : i < m := by simpa using h2
      simp only [List.getElem_map, List.getElem_range]
      have hiA : i < PA.length := g.lenA ▸ hi
      have e : PA[i] = PA.getD i 0 := by simp [List.getD_eq_getElem?_getD, hiA]
      rw [e, labA g hi]
  rw [h2]
  apply eraseDups_append_sub
  · exact List.Nodup.map_on (fun x _ y _ h => by omega) List.nodup_range
  · intro y hy
    obtain ⟨p, hp, rfl⟩ := List.mem_map.1 hy
    obtain ⟨hp1, hp2⟩ := List.mem_filter.1 hp
    obtain ⟨d, hd, rfl⟩ := List.mem_map.1 hp1
    have hd := List.mem_range.1 hd
    have hpN : K + d < N := by omega
    simp only [Function.comp, Bool.not_eq_eq_eq_not, Bool.not_true, List.contains_eq_mem,
      decide_eq_false_iff_not] at hp2
    rw [lab_not_rhs g hpN] at hp2
    rcases lab_cases g hpN with ⟨i, hi, e⟩ | ⟨i, hi, e⟩ | hr
    · have := hK1 _ (g.getA hi).1; omega
    · rw [e, labB g hi]
      exact List.mem_map.2 ⟨i, List.mem_range.2 hi, rfl⟩
    · exact absurd hr hp2

theorem indexOf?_traced {i : Nat} (hi : i < m) :
    indexOf? ((List.range m).map (N + ·)) (N + i) = some i := by
  have hnd' : ((List.range m).map (N + ·)).Nodup :=
    List.Nodup.map_on (fun x _ y _ h => by omega) List.nodup_range
  have hl : i < ((List.range m).map (N + ·)).length := by simpa using hi
  have := indexOf?_getElem hnd' hl
  simpa using this

omit hinc hKN in
theorem zipIdx_gLhs : (gLhs N PA PB).zipIdx = (List.range N).map (fun p => (lab N PA PB p, p)) := by
  rw [gLhs_eq_lab]
  apply List.ext_getElem
  · simp
  · intro i h1 h2
    simp

/-- **the positions of the traced pairs** -/
theorem einTracedPos_g :
    einTracedPos (gLhs N PA PB) (gRhs N PA PB)
      = (List.range m).map (fun i => [PA.getD i 0, PB.getD i 0]) := by
  unfold einTracedPos
  rw [einTraced_g g hK1 hK2 hinc hKN, List.map_map]
  apply List.map_congr_left
  intro i hi
  have hi := List.mem_range.1 hi
  simp only [Function.comp]
  rw [zipIdx_gLhs g hK1 hK2, List.filter_map, List.map_map]
  have hid : ((fun p : Nat × Nat => p.2) ∘ fun p => (lab N PA PB p, p)) = id := rfl
  rw [hid, List.map_id]
  apply sorted_ext (List.Pairwise.filter _ List.pairwise_lt_range)
  · have := hK1 _ (g.getA hi).1
    have := hK2 _ (g.getB hi).1
    simp only [List.pairwise_cons, List.mem_cons, List.not_mem_nil, or_false, forall_eq,
      false_imp_iff, implies_true, List.Pairwise.nil, and_true]
    omega
  · intro x
    rw [List.mem_filter, List.mem_range]
    simp only [Function.comp, beq_iff_eq, List.mem_cons, List.not_mem_nil, or_false]
    constructor
    · rintro ⟨hx, e⟩; exact (lab_eq_iff g hx hi).1 e
    · intro h
      have hx : x < N := by
        rcases h with rfl | rfl
        · exact g.ltA (g.getA hi).1
        · exact g.ltB (g.getB hi).1
      exact ⟨hx, (lab_eq_iff g hx hi).2 h⟩

theorem einTracedPos_len2 :
    (einTracedPos (gLhs N PA PB) (gRhs N PA PB)).any (fun js => js.length != 2) = false := by
  rw [einTracedPos_g g hK1 hK2 hinc hKN, List.any_map]
  rw [List.any_eq_false]
  intro i _
  simp

/-- **the sector filter** -/
theorem einKeep_g (s : Sector) (hs : s.length = N) :
    einKeep (gLhs N PA PB) (gRhs N PA PB) s = (permuted s PA == permuted s PB) := by
  unfold einKeep
  rw [einTracedPos_g g hK1 hK2 hinc hKN, List.all_map, Bool.eq_iff_iff, List.all_eq_true, beq_iff_eq,
    permuted_eq_iff s (fun x hx => by rw [hs]; exact g.ltA hx) (fun x hx => by rw [hs]; exact g.ltB hx)
      g.lenA g.lenB]
  constructor
  · intro h i hi
    have := h i (List.mem_range.2 hi)
    simpa using this
  · intro h i hi
    have := h i (List.mem_range.1 hi)
    simpa using this

/-- **the box of the traced labels** -/
theorem einSize_traced (shape : List Nat) (hs : shape.length = N) :
    (einTraced (gLhs N PA PB) (gRhs N PA PB)).map (einSize shape (gLhs N PA PB)) = permuted shape PA := by
  rw [einTraced_g g hK1 hK2 hinc hKN, List.map_map,
    permuted_eq_map shape _ (fun x hx => by rw [hs]; exact g.ltA hx) 0]
  apply List.ext_getElem
  · simp [g.lenA]
  · intro i h1 h2
    have hi : i < m := by simpa using h1
    simp only [List.getElem_map, List.getElem_range, Function.comp]
    unfold einSize
    rw [idx_A g hK1 hK2 hi]
    have hiA : i < PA.length := g.lenA ▸ hi
    have e : PA[i] = PA.getD i 0 := by simp [List.getD_eq_getElem?_getD, hiA]
    rw [e]

/-- **the assembled address**: any `Z` of length `N` that reads `t` on both legs of every pair and `o` on
    the untraced legs -/
theorem einIdx_g (Z o t : List Nat) (hZ : Z.length = N)
    (hA : permuted Z PA = t) (hB : permuted Z PB = t) (hR : permuted Z (gRhs N PA PB) = o) :
    einIdx (gLhs N PA PB) (gRhs N PA PB) o t = Z := by
  unfold einIdx
  rw [einTraced_g g hK1 hK2 hinc hKN]
  apply List.ext_getElem?
  intro p
  by_cases hp : p < N
  · rw [List.getElem?_map, gLhs_getElem? N PA PB hp, Option.map_some]
    have hZp : Z[p]? = some (Z.getD p 0) := by simp [List.getD_eq_getElem?_getD, hZ, hp]
    rw [hZp]
    congr 1
    rcases lab_cases g hp with ⟨i, hi, rfl⟩ | ⟨i, hi, rfl⟩ | hr
    · rw [labA g hi]
      have h1 : indexOf? (gRhs N PA PB) (N + i) = none :=
        indexOf?_eq_none_iff.2 (not_mem_gRhs_ge (by omega))
      simp only [h1, indexOf?_traced g hK1 hK2 hinc hKN hi]
      have := KoszulP.getElem?_permuted Z PA (fun x hx => by rw [hZ]; exact g.ltA hx) i
      rw [hA, getElem?_of_getD (P := PA) (by rw [g.lenA]; exact hi), Option.bind_some, hZp] at this
      simp [List.getD_eq_getElem?_getD, this]
    · rw [labB g hi]
      have h1 : indexOf? (gRhs N PA PB) (N + i) = none :=
        indexOf?_eq_none_iff.2 (not_mem_gRhs_ge (by omega))
      simp only [h1, indexOf?_traced g hK1 hK2 hinc hKN hi]
      have := KoszulP.getElem?_permuted Z PB (fun x hx => by rw [hZ]; exact g.ltB hx) i
      rw [hB, getElem?_of_getD (P := PB) (by rw [g.lenB]; exact hi), Option.bind_some, hZp] at this
      simp [List.getD_eq_getElem?_getD, this]
    · rw [labR hr]
      obtain ⟨j, hj, hj'⟩ := KoszulP.indexOf?_of_mem _ _ hr
      simp only [hj]
      have := KoszulP.getElem?_permuted Z (gRhs N PA PB)
        (fun x hx => by rw [hZ]; exact (mem_gRhs.1 hx).1) j
      rw [hR, hj', Option.bind_some, hZp] at this
      simp [List.getD_eq_getElem?_getD, this]
  · rw [List.getElem?_eq_none (by simp [gLhs_length]; omega), List.getElem?_eq_none (by omega)]

end geo

end TwoStepP
end SymmModel
