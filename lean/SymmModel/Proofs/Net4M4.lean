/-
  SymmModel.Proofs.Net4M4 — the observable form of "zero-padded copy" (`ZeroPad`), and every
  ordering × bracketing × mode assignment of a four-tensor network.  Namespace `SymmModel.Net4P`.
-/
import SymmModel.Proofs.Net4M3
import SymmModel.Proofs.Net4Orders

namespace SymmModel
namespace Net4P
open TdotP GradedP RoutesP KoszulP AssocP Assoc2P Assoc3P Assoc5P
set_option linter.unusedSectionVars false

variable {R : Type}

/-- `U` (a result of calls in fused / auto / blockwise mode) is a zero-padded copy of the blockwise
    result `T`: same labels, charge, symmetry, rank, leg directions; `U` stores every sector of `T`
    with the same block shape and the same values; every other block of `U` is zero -/
structure ZeroPad [Zero R] [Neg R] (U T : Arr R) : Prop where
  valid : U.validB = true
  fermi : U.fermi = true
  oddpos : U.oddpos = T.oddpos
  charge : U.charge = T.charge
  sym : U.sym = T.sym
  ndim : U.ndim = T.ndim
  dual : ∀ i, (U.indices.getD i default).dual = (T.indices.getD i default).dual
  sub : ∀ s ∈ T.sectors, s ∈ U.sectors
  shape : ∀ s ∈ T.sectors, Arr.blockShapeD U.indices s = Arr.blockShapeD T.indices s
  elem : ∀ s ∈ T.sectors, ∀ o, inBox (Arr.blockShapeD T.indices s) o = true → U.elem s o = T.elem s o
  zero : ∀ s, s ∉ T.sectors → ∀ o, inBox (Arr.blockShapeD U.indices s) o = true → U.elem s o = 0

theorem zeroPad_of [Zero R] [Neg R] {U T' T : Arr R} (p : PadA U T') (hv : U.validB = true)
    (hf : U.fermi = true) (e : Eqv T' T) : ZeroPad U T := by
  refine ⟨hv, hf, p.oddpos.trans e.oddpos, p.charge.trans e.charge, p.pad.sym.trans e.sym,
    p.pad.ndim.trans (by show T'.indices.length = T.indices.length; rw [e.indices]), ?_, ?_, ?_, ?_, ?_⟩
  · intro i; rw [p.pad.dual i, e.indices]
  · intro s hs; exact p.pad.sub s ((e.sectors s).mpr hs)
  · intro s hs; rw [p.pad.shape s ((e.sectors s).mpr hs), e.indices]
  · intro s hs o ho
    have hs' := (e.sectors s).mpr hs
    have ho' : inBox (Arr.blockShapeD T'.indices s) o = true := by rw [e.indices]; exact ho
    rw [p.pad.elem s (p.pad.sub s hs') o (by rw [p.pad.shape s hs']; exact ho')]
    exact e.elem s o (fun _ => ho')
  · intro s hs o hb
    have hs' : s ∉ T'.sectors := fun h => hs ((e.sectors s).mp h)
    by_cases hm : s ∈ U.sectors
    · rw [p.pad.elem s hm o hb, Arr.elem_of_not_mem hs']
    · exact Arr.elem_of_not_mem hm o

end Net4P
end SymmModel
